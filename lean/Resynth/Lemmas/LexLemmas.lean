import Resynth.Model.Lex
/-!
# Text-level no-op lemmas about the lexer model

Blank lines, trailing blank text and leading whitespace.
-/
namespace Resynth
namespace Lex

/-! ## character facts -/

theorem isWs_toNat {w : Char} (hw : isWs w = true) : w.toNat ≤ 32 ∨ 133 ≤ w.toNat := by
  simp only [isWs, isUniWhitespace, Bool.and_eq_true, Bool.or_eq_true, decide_eq_true_eq,
    beq_iff_eq] at hw
  omega

theorem char_le_iff (a b : Char) : a ≤ b ↔ a.toNat ≤ b.toNat := by
  rw [Char.le_def, UInt32.le_iff_toNat_le]; rfl

theorem isWs_not_isDigit {w : Char} (hw : isWs w = true) : isDigit w = false := by
  have h := isWs_toNat hw
  simp only [isDigit, Bool.and_eq_false_iff, decide_eq_false_iff_not, char_le_iff]
  have : ('0' : Char).toNat = 48 := by decide
  have : ('9' : Char).toNat = 57 := by decide
  omega

theorem isWs_not_isHexDigit {w : Char} (hw : isWs w = true) : isHexDigit w = false := by
  have h := isWs_toNat hw
  have hd := isWs_not_isDigit hw
  simp only [isHexDigit, hd, Bool.false_or, Bool.or_eq_false_iff, Bool.and_eq_false_iff,
    decide_eq_false_iff_not, char_le_iff]
  have : ('a' : Char).toNat = 97 := by decide
  have : ('f' : Char).toNat = 102 := by decide
  have : ('A' : Char).toNat = 65 := by decide
  have : ('F' : Char).toNat = 70 := by decide
  omega

theorem isWs_not_isIdCont {w : Char} (hw : isWs w = true) : isIdCont w = false := by
  have h := isWs_toNat hw
  have hd := isWs_not_isDigit hw
  have hu : w ≠ '_' := by
    rintro rfl; revert h; decide
  simp only [isIdCont, isIdStart, hd, Bool.or_false, Bool.or_eq_false_iff, Bool.and_eq_false_iff,
    decide_eq_false_iff_not, char_le_iff, beq_eq_false_iff_ne, ne_eq]
  have : ('a' : Char).toNat = 97 := by decide
  have : ('z' : Char).toNat = 122 := by decide
  have : ('A' : Char).toNat = 65 := by decide
  have : ('Z' : Char).toNat = 90 := by decide
  refine ⟨⟨?_, ?_⟩, hu⟩ <;> omega

theorem isWs_ne {w c : Char} (hw : isWs w = true) (hc : 32 < c.toNat ∧ c.toNat < 133) : w ≠ c := by
  rintro rfl
  have := isWs_toNat hw
  omega

/-! ## `utf8Len`, `spanLen` -/

theorem utf8Len_foldl (cs : List Char) (a : Nat) :
    cs.foldl (fun n c => n + c.utf8Size) a = a + utf8Len cs := by
  unfold utf8Len
  induction cs generalizing a with
  | nil => simp
  | cons c cs ih => simp only [List.foldl_cons]; rw [ih, ih (0 + _)]; omega

@[simp] theorem utf8Len_nil : utf8Len [] = 0 := rfl

theorem utf8Len_cons (c : Char) (cs : List Char) : utf8Len (c :: cs) = c.utf8Size + utf8Len cs := by
  show List.foldl _ _ _ = _
  rw [List.foldl_cons, utf8Len_foldl]; omega

theorem utf8Len_append (a b : List Char) : utf8Len (a ++ b) = utf8Len a + utf8Len b := by
  induction a with
  | nil => simp
  | cons c a ih => simp only [List.cons_append, utf8Len_cons, ih]; omega

theorem spanLen_le (p : Char → Bool) (cs : List Char) : spanLen p cs ≤ cs.length := by
  induction cs with
  | nil => simp [spanLen]
  | cons c cs ih => simp only [spanLen]; split <;> simp <;> omega

/-- a run that is stopped by the first appended character is unchanged -/
theorem spanLen_append_stop (p : Char → Bool) (cs : List Char) (w : Char) (t : List Char)
    (hw : p w = false) : spanLen p (cs ++ w :: t) = spanLen p cs := by
  induction cs with
  | nil => simp [spanLen, hw]
  | cons c cs ih => simp only [List.cons_append, spanLen, ih]

/-- a run that stops inside `cs` is unchanged by appending -/
theorem spanLen_append_lt (p : Char → Bool) (cs sfx : List Char)
    (h : spanLen p cs < cs.length) : spanLen p (cs ++ sfx) = spanLen p cs := by
  induction cs with
  | nil => simp at h
  | cons c cs ih =>
    simp only [List.cons_append, spanLen] at h ⊢
    split
    · rename_i hc; simp only [hc, if_true, List.length_cons] at h; rw [ih (by omega)]
    · rfl

theorem spanLen_append_all (p : Char → Bool) (ws cs : List Char) (h : ws.all p = true) :
    spanLen p (ws ++ cs) = ws.length + spanLen p cs := by
  induction ws with
  | nil => simp
  | cons c ws ih =>
    simp only [List.all_cons, Bool.and_eq_true] at h
    simp only [List.cons_append, spanLen, h.1, if_true, ih h.2, List.length_cons]; omega

/-! ## bounds on what `scanOne` consumes -/

theorem octetDot_bound {cs : List Char} {a : Nat} (h : octetDot cs = some a) :
    0 < a ∧ a ≤ cs.length := by
  unfold octetDot at h
  simp only [Bool.and_eq_true, beq_iff_eq] at h
  split at h
  · rename_i hc
    cases h
    have hd : (cs.drop (spanLen isDigit cs)) ≠ [] := by
      intro h0; rw [h0] at hc; simp at hc
    have := List.length_pos_iff.mpr hd
    simp only [List.length_drop] at this
    omega
  · cases h

theorem octetLast_bound {cs : List Char} {a : Nat} (h : octetLast cs = some a) :
    0 < a ∧ a ≤ cs.length := by
  have hl := spanLen_le isDigit cs
  unfold octetLast at h
  simp only [Bool.and_eq_true, decide_eq_true_eq] at h
  split at h
  · cases h; omega
  · split at h
    · cases h; omega
    · split at h
      · cases h; omega
      · cases h

theorem ipv4Len_bound {cs : List Char} {n : Nat} (h : ipv4Len cs = some n) :
    0 < n ∧ n ≤ cs.length := by
  unfold ipv4Len at h
  simp only [Option.bind_eq_bind, Option.bind_eq_some_iff, Option.pure_def, Option.some.injEq] at h
  obtain ⟨a, ha, b, hb, c, hc, d, hd, rfl⟩ := h
  have h1 := octetDot_bound ha
  have h2 := octetDot_bound hb
  have h3 := octetDot_bound hc
  have h4 := octetLast_bound hd
  simp only [List.length_drop] at h2 h3 h4
  omega

theorem closeQuote_bound {cs : List Char} {n : Nat} (h : closeQuote cs = some n) :
    n < cs.length := by
  induction cs generalizing n with
  | nil => simp [closeQuote] at h
  | cons c cs ih =>
    simp only [closeQuote] at h
    split at h
    · cases h; simp
    · simp only [Option.map_eq_some_iff] at h
      obtain ⟨m, hm, rfl⟩ := h
      have := ih hm
      simp; omega

theorem kwAt_length {w cs : List Char} (h : kwAt w cs = true) : w.length ≤ cs.length := by
  unfold kwAt at h
  simp only [Bool.and_eq_true, List.isPrefixOf_iff_prefix] at h
  exact h.1.length_le

/-- peel one `if` off a hypothesis (the `split` tactic is exponential on `scanOne`'s chain) -/
theorem ite_cases {α : Type} {c : Prop} [Decidable c] {a b x : α}
    (h : (if c then a else b) = x) : (c ∧ a = x) ∨ (¬c ∧ b = x) := by
  split at h
  · exact .inl ⟨‹_›, h⟩
  · exact .inr ⟨‹_›, h⟩

theorem scanOne_bound {cs : List Char} {cls : Cls} {n : Nat} (h : scanOne cs = some (cls, n)) :
    0 < n ∧ n ≤ cs.length := by
  cases cs with
  | nil => simp [scanOne] at h
  | cons c rest =>
    rw [scanOne] at h
    have hsp : ∀ p : Char → Bool, p c = true →
        0 < spanLen p (c :: rest) ∧ spanLen p (c :: rest) ≤ (c :: rest).length := by
      intro p hp
      refine ⟨?_, spanLen_le _ _⟩
      simp [spanLen, hp]
    have hhd : ∀ x : Char, (rest.head? == some x) = true → 1 ≤ rest.length := by
      intro x hx; cases rest <;> simp at hx ⊢
    iterate 18 (rcases ite_cases h with ⟨hc, h⟩ | ⟨hc, h⟩; rotate_left)
    · -- ipv4 and later
      cases hip : ipv4Len (c :: rest) with
      | some m =>
        rw [hip] at h; cases h
        exact ipv4Len_bound hip
      | none =>
        rw [hip] at h
        dsimp only at h
        iterate 4 (rcases ite_cases h with ⟨hc, h⟩ | ⟨hc, h⟩; rotate_left)
        · cases h
        · cases hq : closeQuote rest with
          | none => rw [hq] at h; cases h
          | some m =>
            rw [hq] at h; cases h
            have := closeQuote_bound hq
            simp only [List.length_cons]; omega
        · cases h
          simp only [Bool.and_eq_true] at hc
          have h1 := hhd _ hc.1.2
          have h2 := spanLen_le isHexDigit (rest.drop 1)
          simp only [List.length_drop, List.length_cons] at h2 ⊢
          omega
        · cases h; exact hsp _ hc
        · cases h
          have h2 := spanLen_le isDigit rest
          simp only [List.length_cons]; omega
    · cases h; exact hsp _ hc
    · cases h
      have h2 := spanLen_le (· != '\n') rest
      simp only [List.length_cons]; omega
    · cases h
      simp only [Bool.and_eq_true] at hc
      have h1 := hhd _ hc.2
      have h2 := spanLen_le (· != '\n') (rest.drop 1)
      simp only [List.length_drop, List.length_cons] at h2 ⊢
      omega
    iterate 4 (cases h; simp)
    · cases h
      simp only [Bool.and_eq_true] at hc
      have h1 := hhd _ hc.2
      simp only [List.length_cons]; omega
    iterate 5 (cases h; simp)
    iterate 4 (cases h; exact ⟨by decide, kwAt_length hc⟩)
    · cases h
      have : isIdCont c = true := by simp [isIdCont, hc]
      exact hsp _ this

/-! ## fuel-free view of `loop` -/

theorem loop_fuel (lno : Nat) : ∀ (f1 f2 pos : Nat) (cs : List Char) (s : St),
    cs.length < f1 → cs.length < f2 → loop lno f1 pos cs s = loop lno f2 pos cs s := by
  intro f1
  induction f1 with
  | zero => intro f2 pos cs s h1; omega
  | succ f1 ih =>
    intro f2 pos cs s h1 h2
    cases f2 with
    | zero => omega
    | succ f2 =>
      rw [loop, loop]
      split
      · rfl
      · cases hsc : scanOne cs with
        | none => rfl
        | some r =>
          obtain ⟨cls, n⟩ := r
          have hb := scanOne_bound hsc
          dsimp only
          apply ih <;> (simp only [List.length_drop]; omega)

/-- the state update of one scan step -/
def stepSt (lno pos : Nat) (cls : Cls) (n : Nat) (txt : List Char) (s : St) : St :=
  match cls with
  | .skip => s
  | .str => { s with strs := s.strs ++ [String.ofList ((txt.drop 1).take (n - 2))] }
  | .tok k =>
    let loc : Loc := ⟨lno, pos + 1⟩
    let s1 := flushStrs s loc
    { s1 with toks := s1.toks ++ [⟨k, tokText k txt, loc⟩] }

/-- `loop` with exactly the fuel `line` gives it (enough, by `loop_fuel`) -/
def run (lno pos : Nat) (cs : List Char) (s : St) : Except Nat St :=
  loop lno (cs.length + 1) pos cs s

theorem run_nil (lno pos : Nat) (s : St) : run lno pos [] s = .ok s := rfl

theorem run_none (lno pos : Nat) {cs : List Char} (s : St) (hne : cs ≠ [])
    (h : scanOne cs = none) : run lno pos cs s = .error (pos + 1) := by
  unfold run
  rw [loop, h]
  simp [hne]

theorem run_some (lno pos : Nat) {cs : List Char} (s : St) {cls : Cls} {n : Nat}
    (h : scanOne cs = some (cls, n)) :
    run lno pos cs s =
      run lno (pos + utf8Len (cs.take n)) (cs.drop n) (stepSt lno pos cls n (cs.take n) s) := by
  have hb := scanOne_bound h
  have hne : cs ≠ [] := by rintro rfl; simp at hb; omega
  unfold run
  rw [loop, h]
  simp only [List.isEmpty_iff, hne, if_false]
  rw [loop_fuel lno cs.length ((cs.drop n).length + 1)]
  · cases cls <;> rfl
  · simp only [List.length_drop]; omega
  · omega

theorem scanOne_ws {c : Char} (rest : List Char) (hc : isWs c = true) :
    scanOne (c :: rest) = some (.skip, spanLen isWs (c :: rest)) := by
  rw [scanOne, if_pos hc]

/-- skipping the leading whitespace run (possibly empty) -/
theorem run_skip_ws (lno pos : Nat) (cs : List Char) (s : St) :
    run lno pos cs s =
      run lno (pos + utf8Len (cs.take (spanLen isWs cs))) (cs.drop (spanLen isWs cs)) s := by
  cases cs with
  | nil => rfl
  | cons c rest =>
    by_cases hc : isWs c = true
    · rw [run_some lno pos s (scanOne_ws rest hc)]; rfl
    · simp [spanLen, hc]

theorem run_ws_prefix (lno pos : Nat) (ws cs : List Char) (s : St) (h : ws.all isWs = true) :
    run lno pos (ws ++ cs) s = run lno (pos + utf8Len ws) cs s := by
  cases ws with
  | nil => simp
  | cons w ws =>
    have hw : isWs w = true := by simp only [List.all_cons, Bool.and_eq_true] at h; exact h.1
    rw [List.cons_append, run_some lno pos s (scanOne_ws _ hw), ← List.cons_append,
      spanLen_append_all _ _ _ h, run_skip_ws lno (pos + utf8Len (w :: ws)) cs s]
    simp only [List.take_length_add_append, List.drop_length_add_append, utf8Len_append,
      Nat.add_assoc]
    rfl

/-! ## blank text -/

/-- ws* followed by nothing or by a comment (`#…` or `//…`) without a newline in its body;
'\n' counts as skippable too -/
def blankTail : List Char → Bool
  | [] => true
  | c :: rest =>
    if isWs c || c == '\n' then blankTail rest
    else (c == '#' || (c == '/' && rest.head? == some '/')) && rest.all (· != '\n')

theorem spanLen_all (p : Char → Bool) (cs : List Char) (h : cs.all p = true) :
    spanLen p cs = cs.length := by
  have := spanLen_append_all p cs [] h
  simpa [spanLen] using this

theorem blankTail_drop_ws (cs : List Char) (h : blankTail cs = true) :
    blankTail (cs.drop (spanLen isWs cs)) = true := by
  induction cs with
  | nil => rfl
  | cons c rest ih =>
    by_cases hc : isWs c = true
    · simp only [spanLen, hc, if_true, List.drop_succ_cons]
      apply ih
      simpa [blankTail, hc] using h
    · simpa [spanLen, hc] using h

theorem blankTail_drop_nonl (cs : List Char) (h : blankTail cs = true) :
    blankTail (cs.drop (spanLen (· != '\n') cs)) = true := by
  induction cs with
  | nil => rfl
  | cons c rest ih =>
    by_cases hn : c = '\n'
    · simpa [spanLen, hn] using h
    · have hn' : (c != '\n') = true := by simpa using hn
      simp only [spanLen, hn', if_true, List.drop_succ_cons]
      by_cases hc : isWs c = true
      · apply ih
        simpa [blankTail, hc] using h
      · simp only [blankTail, hc, Bool.false_or, beq_iff_eq, hn, if_false, Bool.and_eq_true] at h
        rw [spanLen_all _ _ h.2]
        simp [blankTail]

theorem scanOne_nl (rest : List Char) : scanOne ('\n' :: rest) = some (.skip, 1) := by
  rw [scanOne, if_neg (by decide), if_neg (by decide), if_neg (by simp), if_pos (by decide)]

theorem scanOne_hash (rest : List Char) :
    scanOne ('#' :: rest) = some (.skip, 1 + spanLen (· != '\n') rest) := by
  rw [scanOne, if_neg (by decide), if_pos (by decide)]

theorem scanOne_slashes (rest : List Char) :
    scanOne ('/' :: '/' :: rest) = some (.skip, 2 + spanLen (· != '\n') rest) := by
  rw [scanOne, if_neg (by decide), if_neg (by decide), if_pos (by simp)]
  rfl

/-- a skip whose remainder is blank ends the scan -/
theorem run_blank (lno : Nat) : ∀ (cs : List Char) (pos : Nat) (s : St),
    blankTail cs = true → run lno pos cs s = .ok s
  | [], pos, s, _ => rfl
  | c :: rest, pos, s, h => by
    by_cases hc : isWs c = true
    · rw [run_skip_ws]
      have : 0 < spanLen isWs (c :: rest) := by simp [spanLen, hc]
      exact run_blank lno _ _ s (blankTail_drop_ws _ h)
    · by_cases hn : c = '\n'
      · subst hn
        rw [run_some lno pos s (scanOne_nl rest)]
        exact run_blank lno _ _ _ (by simpa [blankTail] using h)
      · simp only [blankTail, hc, Bool.false_or, beq_iff_eq, hn, if_false, Bool.and_eq_true,
          Bool.or_eq_true] at h
        obtain ⟨h1, h2⟩ := h
        rcases h1 with rfl | ⟨rfl, h1⟩
        · rw [run_some lno pos s (scanOne_hash rest), spanLen_all _ _ h2]
          have : List.drop (1 + rest.length) ('#' :: rest) = [] := by simp [Nat.add_comm 1]
          rw [this]; rfl
        · cases rest with
          | nil => simp at h1
          | cons d r =>
            simp only [List.head?_cons, Option.some.injEq] at h1
            subst h1
            simp only [List.all_cons, Bool.and_eq_true] at h2
            rw [run_some lno pos s (scanOne_slashes r), spanLen_all _ _ h2.2]
            have : List.drop (2 + r.length) ('/' :: '/' :: r) = [] := by
              simp [Nat.add_comm 2]
            rw [this]; rfl
termination_by cs => cs.length
decreasing_by
  · simp only [List.length_drop, List.length_cons]; omega
  · simp

theorem run_skip_blank (lno pos : Nat) {cs : List Char} (s : St) {n : Nat}
    (h : scanOne cs = some (.skip, n)) (hb : blankTail (cs.drop n) = true) :
    run lno pos cs s = .ok s := by
  rw [run_some lno pos s h]
  exact run_blank lno _ _ _ hb

/-! ## column shift -/

def shiftTok (d : Nat) (t : Tok) : Tok := { t with loc := ⟨t.loc.line, t.loc.col + d⟩ }

def shiftSt (d : Nat) (s : St) : St := { toks := s.toks.map (shiftTok d), strs := s.strs }

def shiftRes (d : Nat) : Except Nat St → Except Nat St
  | .ok s => .ok (shiftSt d s)
  | .error c => .error (c + d)

theorem stepSt_shift (lno pos d : Nat) (cls : Cls) (n : Nat) (txt : List Char) (s : St) :
    stepSt lno (pos + d) cls n txt (shiftSt d s) = shiftSt d (stepSt lno pos cls n txt s) := by
  cases cls with
  | skip => rfl
  | str => rfl
  | tok k =>
    by_cases he : s.strs.isEmpty = true
    · simp [stepSt, flushStrs, shiftSt, he, shiftTok, Nat.add_right_comm]
    · simp [stepSt, flushStrs, shiftSt, he, shiftTok, Nat.add_right_comm]

theorem run_shift (lno d : Nat) : ∀ (cs : List Char) (pos : Nat) (s : St),
    run lno (pos + d) cs (shiftSt d s) = shiftRes d (run lno pos cs s)
  | [], pos, s => rfl
  | c :: rest, pos, s => by
    cases hsc : scanOne (c :: rest) with
    | none =>
      rw [run_none lno _ _ (by simp) hsc, run_none lno _ _ (by simp) hsc]
      simp [shiftRes, Nat.add_right_comm]
    | some r =>
      obtain ⟨cls, n⟩ := r
      have hb := scanOne_bound hsc
      rw [run_some lno _ _ hsc, run_some lno _ _ hsc, stepSt_shift, Nat.add_right_comm]
      exact run_shift lno d _ _ _
termination_by cs => cs.length
decreasing_by simp only [List.length_drop, List.length_cons]; omega

/-! ## `line` wrappers -/

/-- the initial pieces for a carried literal -/
def strsOf (p : Option String) : List String := match p with | some p => [p] | none => []

/-- `line` in terms of `run` -/
theorem line_eq_run (lno : Nat) (p : Option String) (ln : String) :
    line lno p ln =
      match run lno 0 ln.toList { strs := strsOf p } with
      | .error c => .error c
      | .ok s => .ok { toks := s.toks, pending := if s.strs.isEmpty then none else some (String.join s.strs),
                       endCol := utf8Len ln.toList + 1 } := rfl

theorem toList_append_ofList (ln : String) (l : List Char) :
    (ln ++ String.ofList l).toList = ln.toList ++ l := by
  simp

theorem toList_ofList_append (l : List Char) (ln : String) :
    (String.ofList l ++ ln).toList = l ++ ln.toList := by
  simp

/-- a blank line (whitespace / comment only) yields no tokens and keeps pending -/
theorem line_blank (lno : Nat) (p : Option String) (ln : String) (h : blankTail ln.toList = true) :
    line lno p ln = .ok { toks := [], pending := p, endCol := utf8Len ln.toList + 1 } := by
  rw [line_eq_run, run_blank lno _ _ _ h]
  cases p <;> simp [strsOf, String.join_cons, String.join_nil]

/-- leading whitespace only shifts columns -/
theorem line_leading_ws (lno : Nat) (p : Option String) (ln : String) (ws : List Char) (hws : ws.all isWs = true) :
    line lno p (String.ofList ws ++ ln) =
      match line lno p ln with
      | .ok out => .ok { toks := out.toks.map (shiftTok (utf8Len ws)), pending := out.pending,
                         endCol := out.endCol + utf8Len ws }
      | .error c => .error (c + utf8Len ws) := by
  rw [line_eq_run, line_eq_run, toList_ofList_append, run_ws_prefix _ _ _ _ _ hws]
  have := run_shift lno (utf8Len ws) ln.toList 0 { strs := strsOf p }
  rw [show shiftSt (utf8Len ws) { strs := strsOf p }
      = { strs := strsOf p } from rfl] at this
  rw [this]
  cases run lno 0 ln.toList { strs := strsOf p } with
  | error c => rfl
  | ok s =>
    simp only [shiftRes, shiftSt, utf8Len_append]
    congr 2; omega

/-! ## appending text that starts with whitespace: locality of `scanOne` -/

theorem kwAt_cons (k : Char) (kw : List Char) (c : Char) (cs : List Char) :
    kwAt (k :: kw) (c :: cs) = (k == c && kwAt kw cs) := by
  simp [kwAt, List.isPrefixOf, Bool.and_assoc]

section Append
variable {w : Char} (t : List Char) (hw : isWs w = true)
include hw

theorem head?_append_beq (rest : List Char) (x : Char) (hx : 32 < x.toNat ∧ x.toNat < 133) :
    ((rest ++ w :: t).head? == some x) = (rest.head? == some x) := by
  cases rest with
  | nil => simpa using isWs_ne hw hx
  | cons a r => rfl

theorem kwAt_append (kw : List Char) (hk : ∀ k ∈ kw, isIdCont k = true) (cs : List Char) :
    kwAt kw (cs ++ w :: t) = kwAt kw cs := by
  have hwi := isWs_not_isIdCont hw
  induction kw generalizing cs with
  | nil => cases cs <;> simp [kwAt, hwi]
  | cons k kw ih =>
    cases cs with
    | nil =>
      have : k ≠ w := by
        rintro rfl
        rw [hk k (by simp)] at hwi; cases hwi
      simp [kwAt, this]
    | cons c cs =>
      rw [List.cons_append, kwAt_cons, kwAt_cons _ _ _ cs, ih (fun k hk' => hk k (by simp [hk']))]

theorem octetDot_append (cs : List Char) : octetDot (cs ++ w :: t) = octetDot cs := by
  have hl := spanLen_le isDigit cs
  unfold octetDot
  simp only [spanLen_append_stop isDigit cs w t (isWs_not_isDigit hw),
    List.take_append_of_le_length hl, List.drop_append_of_le_length hl,
    head?_append_beq t hw _ '.' (by decide)]

theorem octetLast_append (cs : List Char) : octetLast (cs ++ w :: t) = octetLast cs := by
  have hl := spanLen_le isDigit cs
  unfold octetLast
  simp only [spanLen_append_stop isDigit cs w t (isWs_not_isDigit hw)]
  by_cases h3 : 3 ≤ spanLen isDigit cs
  · rw [List.take_append_of_le_length (by omega), List.take_append_of_le_length (by omega)]
  · have e3 : decide (min 3 (spanLen isDigit cs) ≥ 3) = false := by simp; omega
    simp only [e3, Bool.false_and]
    by_cases h2 : 2 ≤ spanLen isDigit cs
    · rw [List.take_append_of_le_length (by omega)]
    · have e2 : decide (min 3 (spanLen isDigit cs) ≥ 2) = false := by simp; omega
      simp only [e2, Bool.false_and]

theorem ipv4Len_append (cs : List Char) : ipv4Len (cs ++ w :: t) = ipv4Len cs := by
  unfold ipv4Len
  simp only [Option.bind_eq_bind, Option.pure_def]
  rw [octetDot_append t hw]
  cases ha : octetDot cs with
  | none => rfl
  | some a =>
    have hal := (octetDot_bound ha).2
    simp only [Option.bind_some]
    rw [List.drop_append_of_le_length hal, octetDot_append t hw]
    cases hb : octetDot (cs.drop a) with
    | none => rfl
    | some b =>
      have hbl := (octetDot_bound hb).2
      simp only [List.length_drop] at hbl
      simp only [Option.bind_some]
      rw [List.drop_append_of_le_length (by omega), octetDot_append t hw]
      cases hc : octetDot (cs.drop (a + b)) with
      | none => rfl
      | some c =>
        have hcl := (octetDot_bound hc).2
        simp only [List.length_drop] at hcl
        simp only [Option.bind_some]
        rw [List.drop_append_of_le_length (by omega), octetLast_append t hw]

end Append

theorem closeQuote_append (r sfx : List Char)
    (h : (closeQuote r).isSome = true ∨ closeQuote sfx = none) :
    closeQuote (r ++ sfx) = closeQuote r := by
  induction r with
  | nil =>
    rcases h with h | h
    · simp [closeQuote] at h
    · simpa [closeQuote] using h
  | cons c r ih =>
    simp only [List.cons_append, closeQuote]
    split
    · rfl
    · rename_i hc
      rw [ih]
      rcases h with h | h
      · left; simpa [closeQuote, hc] using h
      · right; exact h

theorem ipv4Len_quote (r : List Char) : ipv4Len ('"' :: r) = none := by
  simp [ipv4Len, octetDot, spanLen, isDigit, octetOk]

/-- a successfully scanned string literal has its closing quote -/
theorem scanOne_quote_some {r : List Char} {x : Cls × Nat} (h : scanOne ('"' :: r) = some x) :
    (closeQuote r).isSome = true := by
  rw [scanOne] at h
  iterate 18 (rcases ite_cases h with ⟨hc, h⟩ | ⟨hc, h⟩; rotate_left)
  · rw [ipv4Len_quote] at h
    dsimp only at h
    rw [if_pos (by decide)] at h
    cases hq : closeQuote r with
    | none => rw [hq] at h; cases h
    | some m => rfl
  all_goals first
    | exact absurd hc (by decide)
    | (simp at hc; done)
    | (simp [kwAt, List.isPrefixOf] at hc; done)

theorem ite_congr3 {α : Type} {c1 c2 : Prop} [Decidable c1] [Decidable c2] {a1 a2 b1 b2 : α}
    (hc : c1 = c2) (ha : c2 → a1 = a2) (hb : ¬c2 → b1 = b2) :
    (if c1 then a1 else b1) = (if c2 then a2 else b2) := by
  subst hc
  split
  · exact ha ‹_›
  · exact hb ‹_›

theorem spanLen_append_full (p : Char → Bool) (cs sfx : List Char)
    (h : spanLen p cs = cs.length) : spanLen p (cs ++ sfx) = cs.length + spanLen p sfx := by
  induction cs with
  | nil => simp
  | cons c cs ih =>
    have hl := spanLen_le p cs
    simp only [spanLen, List.length_cons, List.cons_append] at h ⊢
    split at h
    · rename_i hc
      simp only [hc, if_true]
      rw [ih (by omega)]; omega
    · omega

/-- Locality of `scanOne` under appending `w :: t` (`w` whitespace, `w :: t` blank): either the
match is unchanged, or it was a trailing whitespace run / comment reaching the end of the text,
which now extends into the appended text and leaves a blank remainder. -/
theorem scanOne_append (c : Char) (rest : List Char) {w : Char} (t : List Char)
    (hw : isWs w = true) (ht : blankTail (w :: t) = true)
    (hq : c = '"' → closeQuote (rest ++ w :: t) = closeQuote rest) :
    scanOne (c :: rest ++ w :: t) = scanOne (c :: rest) ∨
    (scanOne (c :: rest) = some (.skip, (c :: rest).length) ∧
      ∃ n', scanOne (c :: rest ++ w :: t) = some (.skip, n') ∧
        blankTail ((c :: rest ++ w :: t).drop n') = true) := by
  by_cases h1 : isWs c = true
  · -- whitespace run
    rw [List.cons_append, scanOne_ws _ h1, scanOne_ws _ h1, ← List.cons_append]
    by_cases hlt : spanLen isWs (c :: rest) < (c :: rest).length
    · left; rw [spanLen_append_lt _ _ _ hlt]
    · have heq : spanLen isWs (c :: rest) = (c :: rest).length := by
        have := spanLen_le isWs (c :: rest); omega
      right
      refine ⟨by rw [heq], _, rfl, ?_⟩
      rw [spanLen_append_full _ _ _ heq, List.drop_length_add_append]
      exact blankTail_drop_ws _ ht
  by_cases h2 : c = '#'
  · subst h2
    rw [List.cons_append, scanOne_hash, scanOne_hash]
    by_cases hlt : spanLen (· != '\n') rest < rest.length
    · left; rw [spanLen_append_lt _ _ _ hlt]
    · have heq : spanLen (· != '\n') rest = rest.length := by
        have := spanLen_le (· != '\n') rest; omega
      right
      refine ⟨by rw [heq, List.length_cons, Nat.add_comm], _, rfl, ?_⟩
      rw [spanLen_append_full _ _ _ heq, Nat.add_comm 1, List.drop_succ_cons,
        List.drop_length_add_append]
      exact blankTail_drop_nonl _ ht
  by_cases h3 : (c == '/' && rest.head? == some '/') = true
  · simp only [Bool.and_eq_true, beq_iff_eq] at h3
    obtain ⟨rfl, h3⟩ := h3
    cases rest with
    | nil => simp at h3
    | cons d r =>
      simp only [List.head?_cons, Option.some.injEq] at h3
      subst h3
      rw [List.cons_append, List.cons_append, scanOne_slashes, scanOne_slashes]
      by_cases hlt : spanLen (· != '\n') r < r.length
      · left; rw [spanLen_append_lt _ _ _ hlt]
      · have heq : spanLen (· != '\n') r = r.length := by
          have := spanLen_le (· != '\n') r; omega
        right
        refine ⟨by rw [heq, List.length_cons, List.length_cons]; congr 2; omega, _, rfl, ?_⟩
        rw [spanLen_append_full _ _ _ heq, Nat.add_comm 2, List.drop_succ_cons,
          List.drop_succ_cons, List.drop_length_add_append]
        exact blankTail_drop_nonl _ ht
  -- everything else is unchanged
  left
  have E : ∀ x : Char, 32 < x.toNat ∧ x.toNat < 133 →
      ((rest ++ w :: t).head? == some x) = (rest.head? == some x) :=
    fun x hx => head?_append_beq t hw rest x hx
  have Ekw : ∀ kw : List Char, (∀ k ∈ kw, isIdCont k = true) →
      kwAt kw (c :: (rest ++ w :: t)) = kwAt kw (c :: rest) :=
    fun kw hk => kwAt_append t hw kw hk (c :: rest)
  have Esp : ∀ p : Char → Bool, p w = false →
      spanLen p (c :: (rest ++ w :: t)) = spanLen p (c :: rest) :=
    fun p hp => spanLen_append_stop p (c :: rest) w t hp
  have Eip : ipv4Len (c :: (rest ++ w :: t)) = ipv4Len (c :: rest) :=
    ipv4Len_append t hw (c :: rest)
  have hwd := isWs_not_isDigit hw
  have hwh := isWs_not_isHexDigit hw
  have Ehex : (c == '0' && (rest ++ w :: t).head? == some 'x' &&
        (((rest ++ w :: t).drop 1).head?.map isHexDigit).getD false) =
      (c == '0' && rest.head? == some 'x' && ((rest.drop 1).head?.map isHexDigit).getD false) := by
    rw [E 'x' (by decide)]
    cases rest with
    | nil => simp
    | cons a r => cases r <;> simp [hwh]
  have Eminus : (c == '-' && ((rest ++ w :: t).head?.map isDigit).getD false) =
      (c == '-' && (rest.head?.map isDigit).getD false) := by
    cases rest <;> simp [hwd]
  rw [List.cons_append, scanOne, scanOne]
  refine ite_congr3 rfl (fun h => absurd h h1) (fun _ => ?_)
  refine ite_congr3 rfl (fun h => absurd (by simpa using h) h2) (fun _ => ?_)
  refine ite_congr3 (by rw [E '/' (by decide)]) (fun h => absurd h h3) (fun _ => ?_)
  refine ite_congr3 rfl (fun _ => rfl) (fun _ => ?_)
  refine ite_congr3 rfl (fun _ => rfl) (fun _ => ?_)
  refine ite_congr3 rfl (fun _ => rfl) (fun _ => ?_)
  refine ite_congr3 rfl (fun _ => rfl) (fun _ => ?_)
  refine ite_congr3 (by rw [E ':' (by decide)]) (fun _ => rfl) (fun _ => ?_)
  refine ite_congr3 rfl (fun _ => rfl) (fun _ => ?_)
  refine ite_congr3 rfl (fun _ => rfl) (fun _ => ?_)
  refine ite_congr3 rfl (fun _ => rfl) (fun _ => ?_)
  refine ite_congr3 rfl (fun _ => rfl) (fun _ => ?_)
  refine ite_congr3 rfl (fun _ => rfl) (fun _ => ?_)
  refine ite_congr3 (by rw [Ekw _ (by decide)]) (fun _ => rfl) (fun _ => ?_)
  refine ite_congr3 (by rw [Ekw _ (by decide)]) (fun _ => rfl) (fun _ => ?_)
  refine ite_congr3 (by rw [Ekw _ (by decide)]) (fun _ => rfl) (fun _ => ?_)
  refine ite_congr3 (by rw [Ekw _ (by decide)]) (fun _ => rfl) (fun _ => ?_)
  refine ite_congr3 rfl (fun _ => by rw [Esp _ (isWs_not_isIdCont hw)]) (fun _ => ?_)
  rw [Eip]
  cases ipv4Len (c :: rest) with
  | some m => rfl
  | none =>
    dsimp only
    refine ite_congr3 rfl (fun h => by rw [hq (by simpa using h)]) (fun _ => ?_)
    refine ite_congr3 (by rw [Ehex]) (fun h => ?_) (fun _ => ?_)
    · simp only [Bool.and_eq_true, beq_iff_eq] at h
      cases rest with
      | nil => simp at h
      | cons a r =>
        simp only [List.cons_append, List.drop_succ_cons, List.drop_zero]
        rw [spanLen_append_stop _ _ _ _ hwh]
    refine ite_congr3 rfl (fun _ => by rw [Esp _ hwd]) (fun _ => ?_)
    refine ite_congr3 (by rw [Eminus]) (fun _ => by rw [spanLen_append_stop _ _ _ _ hwd])
      (fun _ => rfl)

/-- Appending blank text that starts with whitespace does not change the scan, provided the
scan succeeded (an unterminated string literal could otherwise be closed by a quote inside an
appended comment) or the appended text has no double quote. -/
theorem run_append_blank (lno : Nat) {w : Char} (t : List Char) (hw : isWs w = true)
    (ht : blankTail (w :: t) = true) : ∀ (cs : List Char) (pos : Nat) (s : St),
    ((∃ s', run lno pos cs s = .ok s') ∨ closeQuote (w :: t) = none) →
    run lno pos (cs ++ w :: t) s = run lno pos cs s
  | [], pos, s, _ => by
    rw [List.nil_append, run_blank lno _ _ _ ht]; rfl
  | c :: rest, pos, s, H => by
    have hq : c = '"' → closeQuote (rest ++ w :: t) = closeQuote rest := by
      rintro rfl
      apply closeQuote_append
      rcases H with ⟨s', hs'⟩ | hn
      · left
        cases hsc : scanOne ('"' :: rest) with
        | none => rw [run_none lno pos s (by simp) hsc] at hs'; cases hs'
        | some x => exact scanOne_quote_some hsc
      · right; exact hn
    rcases scanOne_append c rest t hw ht hq with hA | ⟨hB, n', hB1, hB2⟩
    · cases hsc : scanOne (c :: rest) with
      | none =>
        rw [run_none lno pos s (by simp) hsc, run_none lno pos s (by simp) (hA.trans hsc)]
      | some r =>
        obtain ⟨cls, n⟩ := r
        have hb := scanOne_bound hsc
        rw [run_some lno pos s hsc] at H ⊢
        rw [run_some lno pos s (hA.trans hsc), List.take_append_of_le_length hb.2,
          List.drop_append_of_le_length hb.2]
        exact run_append_blank lno t hw ht _ _ _ H
    · rw [run_skip_blank lno pos s hB1 hB2, run_some lno pos s hB, List.drop_length]
      rfl
termination_by cs => cs.length
decreasing_by simp only [List.length_drop, List.length_cons]; omega

/-- appending a blank tail that starts with a whitespace char changes nothing but endCol -/
theorem line_append_blank (lno : Nat) (p : Option String) (ln : String) (w : Char) (t : List Char) (out : LineOut)
    (hw : isWs w = true) (ht : blankTail (w :: t) = true) (h : line lno p ln = .ok out) :
    line lno p (ln ++ String.ofList (w :: t)) =
      .ok { out with endCol := out.endCol + utf8Len (w :: t) } := by
  rw [line_eq_run] at h ⊢
  rw [toList_append_ofList]
  cases hr : run lno 0 ln.toList { strs := strsOf p } with
  | error c => rw [hr] at h; cases h
  | ok s =>
    rw [run_append_blank lno t hw ht _ _ _ (Or.inl ⟨s, hr⟩), hr]
    rw [hr] at h
    cases h
    simp only [utf8Len_append]
    congr 2; omega

/-- Error direction of `line_append_blank`. The extra hypothesis `hq` (no double quote in the
appended text) is necessary: see the counterexample below. -/
theorem line_append_blank_err (lno : Nat) (p : Option String) (ln : String) (w : Char) (t : List Char) (c : Nat)
    (hw : isWs w = true) (ht : blankTail (w :: t) = true) (hq : t.all (· != '"') = true)
    (h : line lno p ln = .error c) :
    line lno p (ln ++ String.ofList (w :: t)) = .error c := by
  have hnq : ∀ l : List Char, l.all (· != '"') = true → closeQuote l = none := by
    intro l hl
    induction l with
    | nil => rfl
    | cons a l ih =>
      simp only [List.all_cons, Bool.and_eq_true, bne_iff_ne, ne_eq] at hl
      simp [closeQuote, hl.1, ih (by simpa using hl.2)]
  have hwq : closeQuote (w :: t) = none := by
    apply hnq
    simp only [List.all_cons, hq, Bool.and_true, bne_iff_ne, ne_eq]
    exact isWs_ne hw (by decide)
  rw [line_eq_run] at h ⊢
  rw [toList_append_ofList, run_append_blank lno t hw ht _ _ _ (Or.inr hwq)]
  cases hr : run lno 0 ln.toList { strs := strsOf p } with
  | error c' => rw [hr] at h; exact h
  | ok s => rw [hr] at h; cases h

/-! ## examples: non-vacuity and counterexamples -/

example : blankTail "   \t# hi".toList = true := by decide
example : blankTail "  // x \" y".toList = true := by decide
example : blankTail " \n  ".toList = true := by decide
example : blankTail " a # c".toList = false := by decide
/-- a newline inside a comment body ends the comment, so this is not a `blankTail` -/
example : blankTail "# a\nb".toList = false := by decide

example : line 7 none "let x = 1;" = .ok
    { toks := [⟨.kwLet, "", ⟨7, 1⟩⟩, ⟨.ident, "x", ⟨7, 5⟩⟩, ⟨.equals, "", ⟨7, 7⟩⟩,
               ⟨.intLit, "1", ⟨7, 9⟩⟩, ⟨.semi, "", ⟨7, 10⟩⟩],
      pending := none, endCol := 11 } := rfl

/-- `line_blank` on a concrete comment line with a carried string -/
example : line 3 (some "abc") "  \t// hi" = .ok { toks := [], pending := some "abc", endCol := 9 } :=
  line_blank 3 (some "abc") "  \t// hi" (by decide)

/-- `line_blank` keeps a pending EMPTY literal, and keeps "nothing pending" -/
example : line 3 (some "") "  \t// hi" = .ok { toks := [], pending := some "", endCol := 9 } ∧
    line 3 none "  \t// hi" = .ok { toks := [], pending := none, endCol := 9 } :=
  ⟨line_blank 3 (some "") "  \t// hi" (by decide), line_blank 3 none "  \t// hi" (by decide)⟩

/-- `line_append_blank` on a concrete line -/
example : line 7 none ("let x = 1;" ++ String.ofList (' ' :: "# c".toList)) = .ok
    { toks := [⟨.kwLet, "", ⟨7, 1⟩⟩, ⟨.ident, "x", ⟨7, 5⟩⟩, ⟨.equals, "", ⟨7, 7⟩⟩,
               ⟨.intLit, "1", ⟨7, 9⟩⟩, ⟨.semi, "", ⟨7, 10⟩⟩],
      pending := none, endCol := 11 + 4 } :=
  line_append_blank 7 none "let x = 1;" ' ' "# c".toList _ (by decide) (by decide) rfl

/-- `line_leading_ws` on a concrete line (the tab and the 3-byte U+2003 shift columns by 4) -/
example : line 7 none (String.ofList ['\t', '\u2003'] ++ "x;") = .ok
    { toks := [⟨.ident, "x", ⟨7, 5⟩⟩, ⟨.semi, "", ⟨7, 6⟩⟩], pending := none, endCol := 7 } :=
  (line_leading_ws 7 none "x;" ['\t', '\u2003'] (by decide)).trans rfl

/-- the appended text must start with whitespace: `"a /" ++ "//c"` turns the slash token into
a comment although `"//c"` alone is blank -/
example : blankTail "//c".toList = true ∧
    (line 1 none "a /").toOption.map (·.toks.length) = some 2 ∧
    (line 1 none ("a /" ++ "//c")).toOption.map (·.toks.length) = some 1 := by decide

/-- the error direction of `line_append_blank` fails without the no-quote hypothesis: an
unterminated string literal is closed by a quote inside the appended comment -/
example : isWs ' ' = true ∧ blankTail (' ' :: "# \"".toList) = true ∧
    line 1 none "\"abc" = .error 1 ∧
    line 1 none ("\"abc" ++ String.ofList (' ' :: "# \"".toList)) =
      .ok { toks := [], pending := some "abc # ", endCol := 9 } :=
  ⟨by decide, by decide, rfl, rfl⟩

end Lex
end Resynth
