import Resynth.Lemmas.NetBuild
import Resynth.Model.Tcp
/-!
# TCP segments: the builder invariant `TcpSeg.WF`, sealing by `tcpCsum`, and what a sealed
segment's frame looks like to the Spec decoders
-/
namespace Resynth

open Spec (IpFields)

theorem ethFrame_eq (h : IpHdr) (rest : Bytes) :
    Spec.ethFrame (h.serialize ++ rest) =
      ethHdr (macOfIp h.daddr) (macOfIp h.saddr) 0x0800 ++ (h.serialize ++ rest) := by
  rw [Spec.ethFrame, IpHdr.read_src, IpHdr.read_dst, Spec.macOfIp_eq, Spec.macOfIp_eq,
    macOfIp_mod, macOfIp_mod]
  simp [ethHdr, be16]; decide

theorem ethFrameBroadcast_eq (h : IpHdr) (rest : Bytes) :
    Spec.ethFrameBroadcast (h.serialize ++ rest) =
      ethHdr macBroadcast (macOfIp h.saddr) 0x0800 ++ (h.serialize ++ rest) := by
  rw [Spec.ethFrameBroadcast, IpHdr.read_src, Spec.macOfIp_eq, Spec.macBroadcast_eq, macOfIp_mod]
  simp [ethHdr, be16]; decide

namespace TcpHdr

/-- the 16 bytes before the checksum field -/
def pre (t : TcpHdr) : Bytes :=
  be16 t.sport ++ be16 t.dport ++ be32 t.seq ++ be32 t.ack ++ [b8 t.doff, b8 t.flags] ++ be16 t.win

theorem serialize_split (t : TcpHdr) : t.serialize = t.pre ++ be16 t.csum ++ be16 t.urp := by
  simp [serialize, pre]

@[simp] theorem pre_length (t : TcpHdr) : t.pre.length = 16 := rfl

@[simp] theorem serialize_len (t : TcpHdr) : t.serialize.length = 20 := rfl

theorem sum16_serialize (t : TcpHdr) :
    sum16 t.serialize = sum16 t.pre + t.csum % 65536 + t.urp % 65536 := by
  rw [serialize_split, List.append_assoc, sum16_append_even _ _ (by simp),
    sum16_append_even _ _ (by simp)]
  simp; omega

end TcpHdr

namespace TcpSeg

/-- the IPv4 fields every segment from `src` to `dst` is supposed to carry -/
def fields (src dst : Sock) (off : Nat) : IpFields :=
  { src := src.ip, dst := dst.ip, proto := 6, off := off }

/-- **Builder invariant** for a segment under construction (before `tcpCsum`). -/
structure WF (s : TcpSeg) (src dst : Sock) (off : Nat) (raw : Bool) : Prop where
  ip : s.ip.Is (fields src dst off) (20 + s.data.length)
  eth : s.eth = ethHdr (macOfIp dst.ip) (macOfIp src.ip) 0x0800
  csum0 : s.tcp.csum = 0
  raw : s.raw = raw

/-- a finished segment: invariant, except that the checksum field now holds the Model's
folded sum over pseudo-header, header (checksum field zero) and payload -/
structure Sealed (s : TcpSeg) (src dst : Sock) (off : Nat) (raw : Bool) : Prop where
  ip : s.ip.Is (fields src dst off) (20 + s.data.length)
  eth : s.eth = ethHdr (macOfIp dst.ip) (macOfIp src.ip) 0x0800
  csum : s.tcp.csum = csumFold (sum16 (pseudoHdr s.ip.saddr s.ip.daddr s.ip.protocol s.csumLen) +
            (sum16 s.tcp.pre + s.tcp.urp % 65536) + sum16 s.data)
  raw : s.raw = raw

variable {s : TcpSeg} {src dst : Sock} {off : Nat} {raw : Bool}

theorem WF.new (src dst : Sock) (a b : Nat) (raw : Bool) : (TcpSeg.new src dst a b raw).WF src dst 0 raw where
  ip := (show IpHdr.IsPre _ _ _ from
    { ver := rfl, len := rfl, src := rfl, dst := rfl, proto := rfl, id := rfl, ttl := rfl,
      frag := IpHdr.fragIs_zero }).calc
  eth := rfl
  csum0 := rfl
  raw := rfl

theorem WF.orFlag (w : s.WF src dst off raw) (f : Nat) : (s.orFlag f).WF src dst off raw :=
  ⟨w.ip, w.eth, w.csum0, w.raw⟩
theorem WF.syn (w : s.WF src dst off raw) : s.syn.WF src dst off raw := ⟨w.ip, w.eth, w.csum0, w.raw⟩
theorem WF.rst (w : s.WF src dst off raw) : s.rst.WF src dst off raw := ⟨w.ip, w.eth, w.csum0, w.raw⟩
theorem WF.ack (w : s.WF src dst off raw) : s.ack.WF src dst off raw := ⟨w.ip, w.eth, w.csum0, w.raw⟩
theorem WF.synAck (w : s.WF src dst off raw) : s.synAck.WF src dst off raw := ⟨w.ip, w.eth, w.csum0, w.raw⟩
theorem WF.push (w : s.WF src dst off raw) : s.push.WF src dst off raw := ⟨w.ip, w.eth, w.csum0, w.raw⟩
theorem WF.fin (w : s.WF src dst off raw) : s.fin.WF src dst off raw := ⟨w.ip, w.eth, w.csum0, w.raw⟩
theorem WF.finAck (w : s.WF src dst off raw) : s.finAck.WF src dst off raw := ⟨w.ip, w.eth, w.csum0, w.raw⟩

theorem WF.fragOff (w : s.WF src dst off raw) (off' : Nat) (h : off' < 8192) :
    (s.fragOff off').WF src dst off' raw :=
  ⟨(w.ip.toIsPre.setFragOff off' h).calc, w.eth, w.csum0, w.raw⟩

theorem WF.appendData (w : s.WF src dst off raw) (bytes : Bytes) :
    (s.appendData bytes).WF src dst off raw where
  ip := by
    have := (w.ip.toIsPre.addTotLen (bytes.length % 65536) bytes.length (by omega)).calc
    show IpHdr.Is _ _ (20 + (s.data ++ bytes).length)
    rw [List.length_append, ← Nat.add_assoc]; exact this
  eth := w.eth
  csum0 := w.csum0
  raw := w.raw

theorem WF.pushBytes (w : s.WF src dst off raw) (bytes : Bytes) :
    (s.pushBytes bytes).WF src dst off raw := w.push.appendData bytes

theorem WF.tcpCsum (w : s.WF src dst off raw) : s.tcpCsum.Sealed src dst off raw where
  ip := w.ip
  eth := w.eth
  raw := w.raw
  csum := by
    show csumFold (sum16 (pseudoHdr s.ip.saddr s.ip.daddr s.ip.protocol s.csumLen) +
        sum16 s.tcp.serialize + sum16 s.data) =
      csumFold (sum16 (pseudoHdr s.ip.saddr s.ip.daddr s.ip.protocol s.csumLen) +
        (sum16 s.tcp.pre + s.tcp.urp % 65536) + sum16 s.data)
    rw [TcpHdr.sum16_serialize, w.csum0]
    simp

@[simp] theorem tcpCsum_data (s : TcpSeg) : s.tcpCsum.data = s.data := rfl
@[simp] theorem pushBytes_data (s : TcpSeg) (b : Bytes) : (s.pushBytes b).data = s.data ++ b := rfl
@[simp] theorem fragOff_data (s : TcpSeg) (o : Nat) : (s.fragOff o).data = s.data := rfl
@[simp] theorem syn_data (s : TcpSeg) : s.syn.data = s.data := rfl
@[simp] theorem ack_data (s : TcpSeg) : s.ack.data = s.data := rfl
@[simp] theorem synAck_data (s : TcpSeg) : s.synAck.data = s.data := rfl
@[simp] theorem finAck_data (s : TcpSeg) : s.finAck.data = s.data := rfl
@[simp] theorem rst_data (s : TcpSeg) : s.rst.data = s.data := rfl
@[simp] theorem new_data (a b : Sock) (c d : Nat) (r : Bool) : (TcpSeg.new a b c d r).data = [] := rfl

/-- the IPv4 datagram of a segment -/
def dgram (s : TcpSeg) : Bytes := s.ip.serialize ++ s.segment

theorem Sealed.frame_eq (w : s.Sealed src dst off raw) :
    s.frame = (if raw then [] else ethHdr (macOfIp dst.ip) (macOfIp src.ip) 0x0800) ++ s.dgram := by
  simp [frame, dgram, w.raw, w.eth]

theorem Sealed.ipOfFrame (w : s.Sealed src dst off raw) : Spec.ipOfFrame raw s.frame = s.dgram := by
  rw [w.frame_eq]; exact ipOfFrame_eq _ _ _ (by simp)

/-- C02 for one sealed segment -/
theorem Sealed.ipv4 (w : s.Sealed src dst off raw) (hs : src.ip < 4294967296) (hd : dst.ip < 4294967296)
    (hfit : 40 + s.data.length ≤ 65535) :
    Spec.ipv4Is (fields src dst off) (Spec.ipOfFrame raw s.frame) = true := by
  rw [w.ipOfFrame]
  have hlen : s.segment.length = 20 + s.data.length := by simp [segment]
  have hoff : off < 8192 := by have := w.ip.frag.off; simp only [fields] at this; omega
  apply IpHdr.Is.ok (rest := s.segment)
  · rw [hlen]; exact w.ip
  · simp [IpFields.inRange, fields, hs, hd, hoff]
  · omega

/-- C03 for one sealed segment -/
theorem Sealed.l4 (w : s.Sealed src dst off raw) (hfit : 40 + s.data.length ≤ 65535) :
    Spec.l4Ok 6 (Spec.ipOfFrame raw s.frame) = true := by
  rw [w.ipOfFrame, dgram, segment, TcpHdr.serialize_split, List.append_assoc]
  have hcl : s.csumLen = 20 + s.data.length := by unfold csumLen; omega
  have hlen : s.tcp.pre.length + 2 + (be16 s.tcp.urp ++ s.data).length = 20 + s.data.length := by
    simp; omega
  apply l4Ok_of s.ip 6 s.tcp.pre (be16 s.tcp.urp ++ s.data) s.tcp.csum w.ip.proto (by decide)
    (by simp) (by rw [w.csum]; exact csumFold_le _) (by omega)
  rw [hlen, sum16_append_even _ _ (by simp), sum16_be16]
  have hp : s.ip.protocol = 6 := w.ip.proto
  have e := w.csum
  rw [hcl, hp] at e
  rw [e]
  have b1 := sum16_lt_of_length (pseudoHdr s.ip.saddr s.ip.daddr 6 (20 + s.data.length)) 12 (by simp [pseudoHdr])
  have b2 := sum16_lt_of_length s.tcp.pre 16 (by simp)
  have b3 := sum16_le s.data
  have := csumFold_verifies (sum16 (pseudoHdr s.ip.saddr s.ip.daddr 6 (20 + s.data.length)) +
    (sum16 s.tcp.pre + s.tcp.urp % 65536) + sum16 s.data) (by omega)
  simpa [Nat.add_assoc] using this

/-- C18 for one sealed segment: the frame is the canonical Ethernet framing of its datagram, or
the bare datagram in raw mode -/
theorem Sealed.framing (w : s.Sealed src dst off raw) :
    s.frame = if raw then s.dgram else Spec.ethFrame s.dgram := by
  rw [w.frame_eq, dgram, ethFrame_eq, w.ip.src, w.ip.dst]
  cases raw <;> simp [fields]

/-! ### the datagram does not depend on the raw flag -/

/-- change the raw flag only -/
def setRaw (s : TcpSeg) (r : Bool) : TcpSeg := { s with raw := r }

@[simp] theorem dgram_setRaw (s : TcpSeg) (r : Bool) : (s.setRaw r).dgram = s.dgram := rfl
@[simp] theorem seqConsumed_setRaw (s : TcpSeg) (r : Bool) : (s.setRaw r).seqConsumed = s.seqConsumed := rfl
theorem new_setRaw (a b : Sock) (c d : Nat) (r r' : Bool) :
    TcpSeg.new a b c d r' = (TcpSeg.new a b c d r).setRaw r' := rfl
@[simp] theorem setRaw_syn (s : TcpSeg) (r : Bool) : (s.setRaw r).syn = s.syn.setRaw r := rfl
@[simp] theorem setRaw_rst (s : TcpSeg) (r : Bool) : (s.setRaw r).rst = s.rst.setRaw r := rfl
@[simp] theorem setRaw_ack (s : TcpSeg) (r : Bool) : (s.setRaw r).ack = s.ack.setRaw r := rfl
@[simp] theorem setRaw_synAck (s : TcpSeg) (r : Bool) : (s.setRaw r).synAck = s.synAck.setRaw r := rfl
@[simp] theorem setRaw_finAck (s : TcpSeg) (r : Bool) : (s.setRaw r).finAck = s.finAck.setRaw r := rfl
@[simp] theorem setRaw_fragOff (s : TcpSeg) (r : Bool) (o : Nat) :
    (s.setRaw r).fragOff o = (s.fragOff o).setRaw r := rfl
@[simp] theorem setRaw_pushBytes (s : TcpSeg) (r : Bool) (b : Bytes) :
    (s.setRaw r).pushBytes b = (s.pushBytes b).setRaw r := rfl
@[simp] theorem setRaw_tcpCsum (s : TcpSeg) (r : Bool) : (s.setRaw r).tcpCsum = s.tcpCsum.setRaw r := rfl

theorem WF.setRaw (w : s.WF src dst off raw) (r : Bool) : (s.setRaw r).WF src dst off r :=
  ⟨w.ip, w.eth, w.csum0, rfl⟩

/-- what C02 and C03 say about one emitted TCP frame (the frame comes first so that
unification reads the flow state off the frame) -/
structure FrameOk (fr : Bytes) (raw : Bool) (src dst : Nat) (off : Nat) : Prop where
  ipv4 : src < 4294967296 → dst < 4294967296 →
    Spec.ipv4Is { src := src, dst := dst, proto := 6, off := off } (Spec.ipOfFrame raw fr) = true
  l4 : Spec.l4Ok 6 (Spec.ipOfFrame raw fr) = true

theorem WF.frameOk (w : s.WF src dst off raw) (hfit : 40 + s.data.length ≤ 65535) :
    FrameOk s.tcpCsum.frame raw src.ip dst.ip off :=
  ⟨fun hs hd => w.tcpCsum.ipv4 hs hd hfit, w.tcpCsum.l4 hfit⟩

/-- the little that C18 needs: addresses in the IP header, the Ethernet header built from the
same two addresses, the raw flag -/
structure Addr (s : TcpSeg) (src dst : Nat) (raw : Bool) : Prop where
  saddr : s.ip.saddr = src
  daddr : s.ip.daddr = dst
  eth : s.eth = ethHdr (macOfIp dst) (macOfIp src) 0x0800
  raw : s.raw = raw

theorem Addr.framing {src dst : Nat} (a : s.Addr src dst raw) :
    s.frame = if raw then s.dgram else Spec.ethFrame s.dgram := by
  rw [dgram, ethFrame_eq, a.saddr, a.daddr]
  cases raw <;> simp [frame, a.raw, a.eth]

theorem Addr.matchesIp {src dst : Nat} (a : s.Addr src dst false) : Spec.ethMatchesIp s.frame = true := by
  have h := a.framing
  simp only [Bool.false_eq_true, if_false] at h
  rw [h]
  exact ethMatchesIp_ethFrame _ (by simp [dgram])

/-- C18 for one segment: the non-raw frame is the canonical Ethernet framing of the raw one -/
theorem Addr.framing_pair {src dst : Nat} {t : TcpSeg} (a : s.Addr src dst false) (ht : t = s.setRaw true) :
    s.frame = Spec.ethFrame t.frame := by
  subst ht
  have h1 := a.framing
  have h2 := (show (s.setRaw true).Addr src dst true from ⟨a.saddr, a.daddr, a.eth, rfl⟩).framing
  simp only [Bool.false_eq_true, if_false] at h1
  simp only [if_true, dgram_setRaw] at h2
  rw [h1, h2]

theorem Addr.pair {src dst : Nat} {t : TcpSeg} (a : s.Addr src dst false) (ht : t = s.setRaw true) :
    s.frame = Spec.ethFrame t.frame ∧ Spec.ethMatchesIp s.frame = true :=
  ⟨a.framing_pair ht, a.matchesIp⟩

end TcpSeg

namespace TcpFlow

theorem clSeg0_wf (f : TcpFlow) : f.clSeg0.WF f.cl f.sv 0 f.raw := TcpSeg.WF.new ..
theorem svSeg0_wf (f : TcpFlow) : f.svSeg0.WF f.sv f.cl 0 f.raw := TcpSeg.WF.new ..

theorem clSeg_wf (f : TcpFlow) (bytes : Bytes) (off : Nat) (h : off < 8192) :
    (f.clSeg bytes off).WF f.cl f.sv off f.raw := (f.clSeg0_wf.fragOff off h).pushBytes bytes
theorem svSeg_wf (f : TcpFlow) (bytes : Bytes) (off : Nat) (h : off < 8192) :
    (f.svSeg bytes off).WF f.sv f.cl off f.raw := (f.svSeg0_wf.fragOff off h).pushBytes bytes

@[simp] theorem clSeg_data (f : TcpFlow) (bytes : Bytes) (off : Nat) : (f.clSeg bytes off).data = bytes := by
  simp [clSeg, clSeg0]
@[simp] theorem svSeg_data (f : TcpFlow) (bytes : Bytes) (off : Nat) : (f.svSeg bytes off).data = bytes := by
  simp [svSeg, svSeg0]
@[simp] theorem clSeg0_data (f : TcpFlow) : f.clSeg0.data = [] := rfl
@[simp] theorem svSeg0_data (f : TcpFlow) : f.svSeg0.data = [] := rfl

/-! ### one lemma per kind of emitted frame, for an arbitrary flow state `g` -/

section
variable (g : TcpFlow)

theorem ok_cl_syn : TcpSeg.FrameOk g.clSeg0.syn.tcpCsum.frame g.raw g.cl.ip g.sv.ip 0 :=
  g.clSeg0_wf.syn.frameOk (by simp)
theorem ok_sv_synAck : TcpSeg.FrameOk g.svSeg0.synAck.tcpCsum.frame g.raw g.sv.ip g.cl.ip 0 :=
  g.svSeg0_wf.synAck.frameOk (by simp)
theorem ok_cl_ack : TcpSeg.FrameOk g.clSeg0.ack.tcpCsum.frame g.raw g.cl.ip g.sv.ip 0 :=
  g.clSeg0_wf.ack.frameOk (by simp)
theorem ok_sv_ack : TcpSeg.FrameOk g.svSeg0.ack.tcpCsum.frame g.raw g.sv.ip g.cl.ip 0 :=
  g.svSeg0_wf.ack.frameOk (by simp)
theorem ok_cl_finAck : TcpSeg.FrameOk g.clSeg0.finAck.tcpCsum.frame g.raw g.cl.ip g.sv.ip 0 :=
  g.clSeg0_wf.finAck.frameOk (by simp)
theorem ok_sv_finAck : TcpSeg.FrameOk g.svSeg0.finAck.tcpCsum.frame g.raw g.sv.ip g.cl.ip 0 :=
  g.svSeg0_wf.finAck.frameOk (by simp)
theorem ok_cl_rst : TcpSeg.FrameOk g.clSeg0.rst.tcpCsum.frame g.raw g.cl.ip g.sv.ip 0 :=
  g.clSeg0_wf.rst.frameOk (by simp)
theorem ok_sv_rst : TcpSeg.FrameOk g.svSeg0.rst.tcpCsum.frame g.raw g.sv.ip g.cl.ip 0 :=
  g.svSeg0_wf.rst.frameOk (by simp)
theorem ok_cl_data (bytes : Bytes) (off : Nat) (ho : off < 8192) (hfit : 40 + bytes.length ≤ 65535) :
    TcpSeg.FrameOk (g.clSeg bytes off).tcpCsum.frame g.raw g.cl.ip g.sv.ip off :=
  (g.clSeg_wf bytes off ho).frameOk (by simpa using hfit)
theorem ok_sv_data (bytes : Bytes) (off : Nat) (ho : off < 8192) (hfit : 40 + bytes.length ≤ 65535) :
    TcpSeg.FrameOk (g.svSeg bytes off).tcpCsum.frame g.raw g.sv.ip g.cl.ip off :=
  (g.svSeg_wf bytes off ho).frameOk (by simpa using hfit)
end

/-! ### address facts (no hypothesis on the fragment offset) -/

theorem clSeg0_addr (g : TcpFlow) : g.clSeg0.Addr g.cl.ip g.sv.ip g.raw := ⟨rfl, rfl, rfl, rfl⟩
theorem svSeg0_addr (g : TcpFlow) : g.svSeg0.Addr g.sv.ip g.cl.ip g.raw := ⟨rfl, rfl, rfl, rfl⟩
theorem clSeg_addr (g : TcpFlow) (b : Bytes) (off : Nat) : (g.clSeg b off).Addr g.cl.ip g.sv.ip g.raw :=
  ⟨rfl, rfl, rfl, rfl⟩
theorem svSeg_addr (g : TcpFlow) (b : Bytes) (off : Nat) : (g.svSeg b off).Addr g.sv.ip g.cl.ip g.raw :=
  ⟨rfl, rfl, rfl, rfl⟩

end TcpFlow

namespace TcpSeg
variable {s : TcpSeg} {src dst : Nat} {raw : Bool}
theorem Addr.syn (a : s.Addr src dst raw) : s.syn.Addr src dst raw := ⟨a.saddr, a.daddr, a.eth, a.raw⟩
theorem Addr.rst (a : s.Addr src dst raw) : s.rst.Addr src dst raw := ⟨a.saddr, a.daddr, a.eth, a.raw⟩
theorem Addr.ack (a : s.Addr src dst raw) : s.ack.Addr src dst raw := ⟨a.saddr, a.daddr, a.eth, a.raw⟩
theorem Addr.synAck (a : s.Addr src dst raw) : s.synAck.Addr src dst raw := ⟨a.saddr, a.daddr, a.eth, a.raw⟩
theorem Addr.finAck (a : s.Addr src dst raw) : s.finAck.Addr src dst raw := ⟨a.saddr, a.daddr, a.eth, a.raw⟩
theorem Addr.tcpCsum (a : s.Addr src dst raw) : s.tcpCsum.Addr src dst raw := ⟨a.saddr, a.daddr, a.eth, a.raw⟩
end TcpSeg
end Resynth
