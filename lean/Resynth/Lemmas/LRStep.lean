import Resynth.Lemmas.LRInv
/-! # Every loop iteration preserves the invariant (`step_inv`) — one lemma per state -/
namespace Resynth.LR

attribute [local simp] StepOk step dispatch bind pure Bind.bind Pure.pure reduceImportStmt popStr popPath
  reduceObject reduceModule reduceRef reduceSockaddr reduceLiteralExpr reduceRefExpr reduceCallExpr reduceBop
  reduceArg reduceCall reduceAssign reduceExprStmt reduceAssignStmt pushLiteral fromToken Inv rank PathB.new

/-- destructure the invariant, then case on the token kind -/
local macro "inv_state" h:ident k:ident : tactic => `(tactic| (
  simp only [Inv] at $h:ident
  try split at $h:ident
  all_goals (try contradiction)
  all_goals (try subst $h:ident)
  all_goals (cases $k:ident <;> simp [*])))

/-- the same for states whose action does not depend on the token -/
local macro "inv_state0" h:ident : tactic => `(tactic| (
  simp only [Inv] at $h:ident
  try split at $h:ident
  all_goals (try contradiction)
  all_goals (try subst $h:ident)
  all_goals (simp [*])))

theorem si_initial (s : Stack) (ss : List Stmt) (k txt loc) (h : Inv .initial s) :
    StepOk .initial s (step ⟨.initial, s, ss⟩ ⟨k, txt, loc⟩) := by
  inv_state h k

theorem si_import_ (s : Stack) (ss : List Stmt) (k txt loc) (h : Inv .import_ s) :
    StepOk .import_ s (step ⟨.import_, s, ss⟩ ⟨k, txt, loc⟩) := by
  inv_state h k

theorem si_importEnd (s : Stack) (ss : List Stmt) (k txt loc) (h : Inv .importEnd s) :
    StepOk .importEnd s (step ⟨.importEnd, s, ss⟩ ⟨k, txt, loc⟩) := by
  inv_state h k

theorem si_reduceImport (s : Stack) (ss : List Stmt) (k txt loc) (h : Inv .reduceImport s) :
    StepOk .reduceImport s (step ⟨.reduceImport, s, ss⟩ ⟨k, txt, loc⟩) := by
  inv_state0 h

theorem si_let_ (s : Stack) (ss : List Stmt) (k txt loc) (h : Inv .let_ s) :
    StepOk .let_ s (step ⟨.let_, s, ss⟩ ⟨k, txt, loc⟩) := by
  inv_state h k

theorem si_assign (s : Stack) (ss : List Stmt) (k txt loc) (h : Inv .assign s) :
    StepOk .assign s (step ⟨.assign, s, ss⟩ ⟨k, txt, loc⟩) := by
  inv_state h k

theorem si_refComponent (s : Stack) (ss : List Stmt) (k txt loc) (h : Inv .refComponent s) :
    StepOk .refComponent s (step ⟨.refComponent, s, ss⟩ ⟨k, txt, loc⟩) := by
  inv_state h k

theorem si_reduceModule (s : Stack) (ss : List Stmt) (k txt loc) (h : Inv .reduceModule s) :
    StepOk .reduceModule s (step ⟨.reduceModule, s, ss⟩ ⟨k, txt, loc⟩) := by
  inv_state0 h

theorem si_refModule (s : Stack) (ss : List Stmt) (k txt loc) (h : Inv .refModule s) :
    StepOk .refModule s (step ⟨.refModule, s, ss⟩ ⟨k, txt, loc⟩) := by
  inv_state h k

theorem si_reduceObject (s : Stack) (ss : List Stmt) (k txt loc) (h : Inv .reduceObject s) :
    StepOk .reduceObject s (step ⟨.reduceObject, s, ss⟩ ⟨k, txt, loc⟩) := by
  inv_state0 h

theorem si_reduceRefCall (s : Stack) (ss : List Stmt) (k txt loc) (h : Inv .reduceRefCall s) :
    StepOk .reduceRefCall s (step ⟨.reduceRefCall, s, ss⟩ ⟨k, txt, loc⟩) := by
  inv_state0 h

theorem si_reduceRefNaked (s : Stack) (ss : List Stmt) (k txt loc) (h : Inv .reduceRefNaked s) :
    StepOk .reduceRefNaked s (step ⟨.reduceRefNaked, s, ss⟩ ⟨k, txt, loc⟩) := by
  inv_state0 h

theorem si_refObject (s : Stack) (ss : List Stmt) (k txt loc) (h : Inv .refObject s) :
    StepOk .refObject s (step ⟨.refObject, s, ss⟩ ⟨k, txt, loc⟩) := by
  inv_state h k

theorem si_refObjEnd (s : Stack) (ss : List Stmt) (k txt loc) (h : Inv .refObjEnd s) :
    StepOk .refObjEnd s (step ⟨.refObjEnd, s, ss⟩ ⟨k, txt, loc⟩) := by
  inv_state h k

theorem si_reduceCall (s : Stack) (ss : List Stmt) (k txt loc) (h : Inv .reduceCall s) :
    StepOk .reduceCall s (step ⟨.reduceCall, s, ss⟩ ⟨k, txt, loc⟩) := by
  inv_state0 h

theorem si_reduceArg (s : Stack) (ss : List Stmt) (k txt loc) (h : Inv .reduceArg s) :
    StepOk .reduceArg s (step ⟨.reduceArg, s, ss⟩ ⟨k, txt, loc⟩) := by
  inv_state0 h

theorem si_argNext (s : Stack) (ss : List Stmt) (k txt loc) (h : Inv .argNext s) :
    StepOk .argNext s (step ⟨.argNext, s, ss⟩ ⟨k, txt, loc⟩) := by
  inv_state h k

theorem si_exprArg (s : Stack) (ss : List Stmt) (k txt loc) (h : Inv .exprArg s) :
    StepOk .exprArg s (step ⟨.exprArg, s, ss⟩ ⟨k, txt, loc⟩) := by
  inv_state h k

theorem si_argName (s : Stack) (ss : List Stmt) (k txt loc) (h : Inv .argName s) :
    StepOk .argName s (step ⟨.argName, s, ss⟩ ⟨k, txt, loc⟩) := by
  inv_state h k

theorem si_exprStmt (s : Stack) (ss : List Stmt) (k txt loc) (h : Inv .exprStmt s) :
    StepOk .exprStmt s (step ⟨.exprStmt, s, ss⟩ ⟨k, txt, loc⟩) := by
  inv_state0 h

theorem si_exprRvalue (s : Stack) (ss : List Stmt) (k txt loc) (h : Inv .exprRvalue s) :
    StepOk .exprRvalue s (step ⟨.exprRvalue, s, ss⟩ ⟨k, txt, loc⟩) := by
  inv_state0 h

theorem si_ipv4 (s : Stack) (ss : List Stmt) (k txt loc) (h : Inv .ipv4 s) :
    StepOk .ipv4 s (step ⟨.ipv4, s, ss⟩ ⟨k, txt, loc⟩) := by
  inv_state h k

theorem si_reduceLiteralExpr (s : Stack) (ss : List Stmt) (k txt loc) (h : Inv .reduceLiteralExpr s) :
    StepOk .reduceLiteralExpr s (step ⟨.reduceLiteralExpr, s, ss⟩ ⟨k, txt, loc⟩) := by
  inv_state0 h

theorem si_reduceRefExpr (s : Stack) (ss : List Stmt) (k txt loc) (h : Inv .reduceRefExpr s) :
    StepOk .reduceRefExpr s (step ⟨.reduceRefExpr, s, ss⟩ ⟨k, txt, loc⟩) := by
  inv_state0 h

theorem si_reduceCallExpr (s : Stack) (ss : List Stmt) (k txt loc) (h : Inv .reduceCallExpr s) :
    StepOk .reduceCallExpr s (step ⟨.reduceCallExpr, s, ss⟩ ⟨k, txt, loc⟩) := by
  inv_state0 h

theorem si_slash (s : Stack) (ss : List Stmt) (k txt loc) (h : Inv .slash s) :
    StepOk .slash s (step ⟨.slash, s, ss⟩ ⟨k, txt, loc⟩) := by
  inv_state h k

theorem si_reduceSockAddr (s : Stack) (ss : List Stmt) (k txt loc) (h : Inv .reduceSockAddr s) :
    StepOk .reduceSockAddr s (step ⟨.reduceSockAddr, s, ss⟩ ⟨k, txt, loc⟩) := by
  inv_state0 h

theorem si_exprStmtEnd (s : Stack) (ss : List Stmt) (k txt loc) (h : Inv .exprStmtEnd s) :
    StepOk .exprStmtEnd s (step ⟨.exprStmtEnd, s, ss⟩ ⟨k, txt, loc⟩) := by
  inv_state h k

theorem si_assignStmtEnd (s : Stack) (ss : List Stmt) (k txt loc) (h : Inv .assignStmtEnd s) :
    StepOk .assignStmtEnd s (step ⟨.assignStmtEnd, s, ss⟩ ⟨k, txt, loc⟩) := by
  inv_state h k

theorem si_reduceBop (s : Stack) (ss : List Stmt) (k txt loc) (h : Inv .reduceBop s) :
    StepOk .reduceBop s (step ⟨.reduceBop, s, ss⟩ ⟨k, txt, loc⟩) := by
  inv_state0 h

theorem si_reduceAssign (s : Stack) (ss : List Stmt) (k txt loc) (h : Inv .reduceAssign s) :
    StepOk .reduceAssign s (step ⟨.reduceAssign, s, ss⟩ ⟨k, txt, loc⟩) := by
  inv_state0 h

theorem si_reduceExprStmt (s : Stack) (ss : List Stmt) (k txt loc) (h : Inv .reduceExprStmt s) :
    StepOk .reduceExprStmt s (step ⟨.reduceExprStmt, s, ss⟩ ⟨k, txt, loc⟩) := by
  inv_state0 h

theorem si_reduceAssignStmt (s : Stack) (ss : List Stmt) (k txt loc) (h : Inv .reduceAssignStmt s) :
    StepOk .reduceAssignStmt s (step ⟨.reduceAssignStmt, s, ss⟩ ⟨k, txt, loc⟩) := by
  inv_state0 h

theorem si_reduceStmt (s : Stack) (ss : List Stmt) (k txt loc) (h : Inv .reduceStmt s) :
    StepOk .reduceStmt s (step ⟨.reduceStmt, s, ss⟩ ⟨k, txt, loc⟩) := by
  inv_state0 h

theorem si_accept (s : Stack) (ss : List Stmt) (k txt loc) (h : Inv .accept s) :
    StepOk .accept s (step ⟨.accept, s, ss⟩ ⟨k, txt, loc⟩) := by
  inv_state0 h

theorem litOfToken_ipv4_some {txt loc v} (h : litOfToken ⟨.ipv4Lit, txt, loc⟩ = some v) :
    ∃ a, v = .ip4 a := by
  simp [litOfToken] at h; obtain ⟨a, _, rfl⟩ := h; exact ⟨a, rfl⟩

theorem litOfToken_int_some {txt loc v} (h : litOfToken ⟨.intLit, txt, loc⟩ = some v) :
    ∃ n, v = .u64 n := by
  simp [litOfToken] at h; obtain ⟨a, _, rfl⟩ := h; exact ⟨a, rfl⟩

theorem si_expr (s : Stack) (ss : List Stmt) (k txt loc) (h : Inv .expr s) :
    StepOk .expr s (step ⟨.expr, s, ss⟩ ⟨k, txt, loc⟩) := by
  simp only [Inv] at h
  cases hl : litOfToken ⟨k, txt, loc⟩ with
  | none => cases k <;> simp [*]
  | some v =>
    cases k
    case ipv4Lit => obtain ⟨a, rfl⟩ := litOfToken_ipv4_some hl; simp [*]
    all_goals simp [*]

theorem si_argVal (s : Stack) (ss : List Stmt) (k txt loc) (h : Inv .argVal s) :
    StepOk .argVal s (step ⟨.argVal, s, ss⟩ ⟨k, txt, loc⟩) := by
  simp only [Inv] at h
  split at h
  · next n l o c =>
    cases hl : litOfToken ⟨k, txt, loc⟩ with
    | none =>
      cases k
      case rparen => cases n <;> simp [*]
      all_goals simp [*]
    | some v =>
      cases k
      case ipv4Lit => obtain ⟨a, rfl⟩ := litOfToken_ipv4_some hl; simp [*]
      case rparen => cases n <;> simp [*]
      all_goals simp [*]
  · contradiction

theorem si_ipv4Colon (s : Stack) (ss : List Stmt) (k txt loc) (h : Inv .ipv4Colon s) :
    StepOk .ipv4Colon s (step ⟨.ipv4Colon, s, ss⟩ ⟨k, txt, loc⟩) := by
  simp only [Inv] at h
  split at h
  · cases hl : litOfToken ⟨k, txt, loc⟩ with
    | none => cases k <;> simp [*]
    | some v =>
      cases k
      case intLit =>
        obtain ⟨n, rfl⟩ := litOfToken_int_some hl
        by_cases hn : n > 65535 <;> simp [*]
        omega
      all_goals simp [*]
  · contradiction

theorem si_reduceExpr (s : Stack) (ss : List Stmt) (k txt loc) (h : Inv .reduceExpr s) :
    StepOk .reduceExpr s (step ⟨.reduceExpr, s, ss⟩ ⟨k, txt, loc⟩) := by
  simp only [Inv] at h
  split at h
  · cases h <;> simp [*]
  · contradiction

end Resynth.LR
