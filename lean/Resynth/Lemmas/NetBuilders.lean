import Resynth.Lemmas.NetMisc
/-!
# Shapes of the concrete UDP / VXLAN / GRE / ERSPAN builders
-/
namespace Resynth

open Spec (IpFields)

/-- expected fields of a UDP datagram from `s` to `t` -/
def udpFields (s t : Sock) : IpFields := { src := s.ip, dst := t.ip, proto := 17 }

theorem udpFields_inRange (s t : Sock) (hs : s.ip < 4294967296) (ht : t.ip < 4294967296) :
    (udpFields s t).inRange = true := by
  simp [IpFields.inRange, udpFields, hs, ht]

/-! ## `new.src.dst.push` (unicast, flow datagrams) -/

/-- the datagram all unicast UDP builders start from -/
def udpBase (s t : Sock) (raw : Bool) (buf : Bytes) : UdpDgram :=
  (((UdpDgram.new raw).src s).dst t).push buf

theorem udpBase_shape (s t : Sock) (raw : Bool) (buf : Bytes) :
    (udpBase s t raw buf).Shape (udpFields s t) (macOfIp t.ip) (macOfIp s.ip) raw :=
  (UdpDgram.Pre.base s t raw).push buf

@[simp] theorem udpBase_data (s t : Sock) (raw : Bool) (buf : Bytes) : (udpBase s t raw buf).data = buf := by
  simp [udpBase]

@[simp] theorem udpBase_csum0 (s t : Sock) (raw : Bool) (buf : Bytes) : (udpBase s t raw buf).udp.csum = 0 := rfl

theorem udpUnicast_eq (s t : Sock) (raw : Bool) (buf : Bytes) :
    udpUnicast s t raw buf = (udpBase s t raw buf).frame := rfl

theorem clientDgram_eq (f : UdpFlow) (b : Bytes) : f.clientDgram b = udpBase f.cl f.sv f.raw b := rfl
theorem serverDgram_eq (f : UdpFlow) (b : Bytes) : f.serverDgram b = udpBase f.sv f.cl f.raw b := rfl

/-- the IP datagram of `udpBase` does not depend on the raw flag -/
theorem udpBase_ipDgram_raw (s t : Sock) (r r' : Bool) (buf : Bytes) :
    (udpBase s t r buf).ipDgram = (udpBase s t r' buf).ipDgram := rfl

/-! ## broadcast -/

def udpBcast (s t : Sock) (srcip : Option Nat) (raw : Bool) (buf : Bytes) : UdpDgram :=
  let d := ((((UdpDgram.new raw).src s).dst t).broadcast).push buf
  match srcip with | some ip => d.srcip ip | none => d

theorem udpBroadcast_eq (s t : Sock) (srcip : Option Nat) (raw : Bool) (buf : Bytes) :
    udpBroadcast s t srcip raw buf = (udpBcast s t srcip raw buf).frame := rfl

/-- IP source of a broadcast: the override if given, else the socket address -/
def bcastSrc (s : Sock) (srcip : Option Nat) : Nat := srcip.getD s.ip

theorem udpBcast_shape (s t : Sock) (srcip : Option Nat) (raw : Bool) (buf : Bytes) :
    (udpBcast s t srcip raw buf).Shape { udpFields s t with src := bcastSrc s srcip }
      macBroadcast (macOfIp s.ip) raw := by
  have h := (UdpDgram.Pre.base s t raw).broadcast.push buf
  cases srcip with
  | none => exact h
  | some ip => exact h.toPre.srcip ip

@[simp] theorem udpBcast_data (s t : Sock) (srcip : Option Nat) (raw : Bool) (buf : Bytes) :
    (udpBcast s t srcip raw buf).data = buf := by
  cases srcip <;> simp [udpBcast]

theorem udpBcast_ipDgram_raw (s t : Sock) (srcip : Option Nat) (r r' : Bool) (buf : Bytes) :
    (udpBcast s t srcip r buf).ipDgram = (udpBcast s t srcip r' buf).ipDgram := by
  cases srcip <;> rfl

/-! ## flow datagram calls -/

def udpCall (s t : Sock) (raw : Bool) (fragOff : Nat) (csum : Bool) (bytes : Bytes) : UdpDgram :=
  let d := (udpBase s t raw bytes).fragOff fragOff
  if csum then d.csum else d

theorem dgramCall_eq (f : UdpFlow) (client : Bool) (fragOff : Nat) (csum : Bool) (bytes : Bytes) :
    f.dgramCall client fragOff csum bytes =
      (if client then udpCall f.cl f.sv f.raw fragOff csum bytes
       else udpCall f.sv f.cl f.raw fragOff csum bytes).frame := by
  cases client <;> rfl

theorem udpCall_shape (s t : Sock) (raw : Bool) (fragOff : Nat) (csum : Bool) (bytes : Bytes)
    (ho : fragOff < 8192) :
    (udpCall s t raw fragOff csum bytes).Shape { udpFields s t with off := fragOff }
      (macOfIp t.ip) (macOfIp s.ip) raw := by
  have h := (udpBase_shape s t raw bytes).toPre.fragOff fragOff ho
  cases csum
  · exact h
  · exact h.csum

@[simp] theorem udpCall_data (s t : Sock) (raw : Bool) (fragOff : Nat) (csum : Bool) (bytes : Bytes) :
    (udpCall s t raw fragOff csum bytes).data = bytes := by
  cases csum <;> simp [udpCall]

theorem udpCall_csumSet (s t : Sock) (raw : Bool) (fragOff : Nat) (bytes : Bytes) :
    (udpCall s t raw fragOff true bytes).CsumSet :=
  UdpDgram.csumSet_csum _ (by simp)

theorem udpCall_ipDgram_raw (s t : Sock) (r r' : Bool) (fragOff : Nat) (csum : Bool) (bytes : Bytes) :
    (udpCall s t r fragOff csum bytes).ipDgram = (udpCall s t r' fragOff csum bytes).ipDgram := by
  cases csum <;> rfl

/-! ## VXLAN -/

def vxlanDgram (f : VxlanFlow) (bytes : Bytes) : UdpDgram :=
  ((((UdpDgram.new f.raw).src f.cl).dst f.sv).push (vxlanHdr f.vni)).push bytes

theorem vxlan_eq (f : VxlanFlow) (bytes : Bytes) : f.encap bytes = (vxlanDgram f bytes).frame := rfl

theorem vxlan_shape (f : VxlanFlow) (bytes : Bytes) :
    (vxlanDgram f bytes).Shape (udpFields f.cl f.sv) (macOfIp f.sv.ip) (macOfIp f.cl.ip) f.raw :=
  ((UdpDgram.Pre.base f.cl f.sv f.raw).push _).toPre.push bytes

@[simp] theorem vxlanHdr_length (vni : Nat) : (vxlanHdr vni).length = 8 := rfl

@[simp] theorem vxlan_data (f : VxlanFlow) (bytes : Bytes) :
    (vxlanDgram f bytes).data = vxlanHdr f.vni ++ bytes := by
  simp [vxlanDgram]

/-- outer headers followed by the untouched inner packet -/
theorem vxlan_split (f : VxlanFlow) (bytes : Bytes) :
    f.encap bytes =
      ((if f.raw then [] else ethHdr (macOfIp f.sv.ip) (macOfIp f.cl.ip) 0x0800) ++
        (vxlanDgram f bytes).ip.serialize ++ (vxlanDgram f bytes).udp.serialize ++ vxlanHdr f.vni) ++ bytes := by
  rw [vxlan_eq, (vxlan_shape f bytes).frame_eq]
  simp [UdpDgram.ipDgram, UdpDgram.dgram]

/-! ## GRE family -/

theorem GreFrame.push_frame (g : GreFrame) (bytes : Bytes) :
    (g.push bytes).frame =
      ((if g.raw then [] else g.eth) ++ (g.push bytes).ip.serialize ++ g.payload) ++ bytes := by
  cases h : g.raw <;> simp [GreFrame.frame, GreFrame.push, GreFrame.payload, h]

theorem GreFrame.push_payload_length (g : GreFrame) (bytes : Bytes) :
    (g.push bytes).payload.length = g.payload.length + bytes.length := by
  simp [GreFrame.push, GreFrame.payload]; omega

theorem GreFrame.new_seq_payload_length (src dst flags proto : Nat) (raw : Bool) (n : Nat) :
    ((GreFrame.new src dst flags proto raw).seq n).payload.length =
      4 + (if (flags &&& 0x1000 != 0) = true then 4 else 0) := by
  by_cases h : (flags &&& 0x1000 != 0) = true
  · simp [GreFrame.new, GreFrame.seq, GreFrame.payload, h]
  · simp [GreFrame.new, GreFrame.seq, GreFrame.payload, h]

/-- the GRE frame before the payload is pushed -/
def greBase (f : GreFlow) : GreFrame := (GreFrame.new f.cl f.sv f.flags f.ethertype f.raw).seq f.seq

theorem gre_eq (f : GreFlow) (bytes : Bytes) : (f.encap bytes).2 = ((greBase f).push bytes).frame := rfl

theorem gre_shape (f : GreFlow) (bytes : Bytes) : ((greBase f).push bytes).Shape f.cl f.sv f.raw :=
  ((GreFrame.Pre.new ..).seq _).push bytes

def erspan1Base (f : Erspan1Flow) : GreFrame := GreFrame.new f.cl f.sv 0 0x88be f.raw

theorem erspan1_eq (f : Erspan1Flow) (bytes : Bytes) : f.encap bytes = ((erspan1Base f).push bytes).frame := rfl

theorem erspan1_shape (f : Erspan1Flow) (bytes : Bytes) : ((erspan1Base f).push bytes).Shape f.cl f.sv f.raw :=
  (GreFrame.Pre.new ..).push bytes

def erspan2Base (f : Erspan2Flow) (portIndex : Nat) : GreFrame :=
  ((GreFrame.new f.cl f.sv 0x1000 0x88be f.raw).seq f.seq).push (erspan2Hdr f.sessionId portIndex)

theorem erspan2_eq (f : Erspan2Flow) (bytes : Bytes) (portIndex : Nat) :
    (f.encap bytes portIndex).2 = ((erspan2Base f portIndex).push bytes).frame := rfl

theorem erspan2_shape (f : Erspan2Flow) (bytes : Bytes) (portIndex : Nat) :
    ((erspan2Base f portIndex).push bytes).Shape f.cl f.sv f.raw :=
  (((GreFrame.Pre.new ..).seq _).push _).toPre.push bytes

@[simp] theorem greBase_raw (f : GreFlow) : (greBase f).raw = f.raw := rfl
@[simp] theorem erspan1Base_raw (f : Erspan1Flow) : (erspan1Base f).raw = f.raw := rfl
@[simp] theorem erspan2Base_raw (f : Erspan2Flow) (p : Nat) : (erspan2Base f p).raw = f.raw := rfl

theorem greBase_payload_length (f : GreFlow) :
    (greBase f).payload.length = 4 + (if (f.flags &&& 0x1000 != 0) = true then 4 else 0) :=
  GreFrame.new_seq_payload_length ..

theorem erspan1Base_payload_length (f : Erspan1Flow) : (erspan1Base f).payload.length = 4 := by
  simp [erspan1Base, GreFrame.new, GreFrame.payload]

@[simp] theorem erspan2Hdr_length (a b : Nat) : (erspan2Hdr a b).length = 8 := rfl

theorem erspan2Base_payload_length (f : Erspan2Flow) (p : Nat) : (erspan2Base f p).payload.length = 16 := by
  rw [erspan2Base, GreFrame.push_payload_length, GreFrame.new_seq_payload_length]
  simp

/-! ## fragments -/

namespace IpFrag

/-- the payload bytes `fragment off len` carries -/
def sliceOf (f : IpFrag) (off len : Nat) : Bytes :=
  let e := min (off * 8 + len * 8) f.payload.length
  let s := min (off * 8) e
  (f.payload.drop s).take (e - s)

/-- `fragment off len` sets MF exactly when it stops short of the end of the payload -/
def mfOf (f : IpFrag) (off len : Nat) : Bool := min (off * 8 + len * 8) f.payload.length != f.payload.length

theorem fragment_def (f : IpFrag) (off len : Nat) (raw : Bool) :
    f.fragment off len raw = ipDgramFrag f.hdr (f.sliceOf off len) raw off (f.mfOf off len) := rfl

theorem tail_def (f : IpFrag) (off : Nat) (raw : Bool) :
    f.tail off raw = f.fragment off (f.payload.length % 65536) raw := rfl

theorem datagram_def (f : IpFrag) (raw : Bool) :
    f.datagram raw = ipDgramFrag f.hdr f.payload raw 0 false := rfl

theorem sliceOf_length_le (f : IpFrag) (off len : Nat) : (f.sliceOf off len).length ≤ f.payload.length := by
  simp [sliceOf]; omega

end IpFrag

end Resynth
