import Resynth.Lemmas.NetTcp
/-!
# Every frame of every TCP flow operation (C02 + C03 facts in one pass)
-/
namespace Resynth

open Spec (IpFields)

namespace TcpSeg

/-- expected (source address, destination address, fragment offset) per emitted frame -/
abbrev Dir := Nat × Nat × Nat

def Dir.fields (d : Dir) : IpFields := { src := d.1, dst := d.2.1, proto := 6, off := d.2.2 }

/-- position-wise `FrameOk` -/
def FramesOk (raw : Bool) : List Dir → List Bytes → Prop
  | [], [] => True
  | d :: ds, fr :: frs => FrameOk fr raw d.1 d.2.1 d.2.2 ∧ FramesOk raw ds frs
  | _, _ => False

/-- both addresses of every expectation are representable -/
def DirsInRange (ds : List Dir) : Prop := ∀ d ∈ ds, d.1 < 4294967296 ∧ d.2.1 < 4294967296

theorem FramesOk.ipv4 {raw : Bool} : ∀ {ds : List Dir} {frs : List Bytes}, FramesOk raw ds frs →
    DirsInRange ds →
    Spec.allPairs (fun e fr => Spec.ipv4Is e (Spec.ipOfFrame raw fr)) (ds.map Dir.fields) frs = true
  | [], [], _, _ => rfl
  | d :: _, _ :: _, ⟨h, t⟩, hr => by
    simp only [List.map, Spec.allPairs, Bool.and_eq_true]
    exact ⟨h.ipv4 (hr d (by simp)).1 (hr d (by simp)).2, t.ipv4 (fun d' hd' => hr d' (by simp [hd']))⟩
  | [], _ :: _, h, _ => h.elim
  | _ :: _, [], h, _ => h.elim

theorem FramesOk.l4 {raw : Bool} : ∀ {ds : List Dir} {frs : List Bytes}, FramesOk raw ds frs →
    frs.all (fun fr => Spec.l4Ok 6 (Spec.ipOfFrame raw fr)) = true
  | [], [], _ => rfl
  | _ :: _, _ :: _, ⟨h, t⟩ => by
    simp only [List.all_cons, Bool.and_eq_true]
    exact ⟨h.l4, t.l4⟩
  | [], _ :: _, h => h.elim
  | _ :: _, [], h => h.elim

end TcpSeg

namespace TcpFlow
open TcpSeg (FramesOk)

variable (f : TcpFlow)

def c2s (off : Nat := 0) : TcpSeg.Dir := (f.cl.ip, f.sv.ip, off)
def s2c (off : Nat := 0) : TcpSeg.Dir := (f.sv.ip, f.cl.ip, off)

theorem c2s_fields (off : Nat) : (f.c2s off).fields = { src := f.cl.ip, dst := f.sv.ip, proto := 6, off := off } := rfl
theorem s2c_fields (off : Nat) : (f.s2c off).fields = { src := f.sv.ip, dst := f.cl.ip, proto := 6, off := off } := rfl

theorem open_ok : FramesOk f.raw [f.c2s, f.s2c, f.c2s] f.open.2 := by
  simp only [TcpFlow.open, clTx, svTx, FramesOk, and_true]
  exact ⟨ok_cl_syn _, ok_sv_synAck _, ok_cl_ack _⟩

theorem clientClose_ok : FramesOk f.raw [f.c2s, f.s2c, f.c2s] f.clientClose.2 := by
  simp only [TcpFlow.clientClose, clTx, svTx, FramesOk, and_true]
  exact ⟨ok_cl_finAck _, ok_sv_finAck _, ok_cl_ack _⟩

theorem serverClose_ok : FramesOk f.raw [f.s2c, f.c2s, f.s2c] f.serverClose.2 := by
  simp only [TcpFlow.serverClose, clTx, svTx, FramesOk, and_true]
  exact ⟨ok_sv_finAck _, ok_cl_finAck _, ok_sv_ack _⟩

theorem clientReset_ok : FramesOk f.raw [f.c2s] [f.clientReset] := by
  simp only [TcpFlow.clientReset, FramesOk, and_true]
  exact ok_cl_rst _

theorem serverReset_ok : FramesOk f.raw [f.s2c] [f.serverReset] := by
  simp only [TcpFlow.serverReset, FramesOk, and_true]
  exact ok_sv_rst _

theorem clientAck_ok : FramesOk f.raw [f.c2s] [f.clientAck] := by
  simp only [TcpFlow.clientAck, FramesOk, and_true]
  exact ok_cl_ack _

theorem serverAck_ok : FramesOk f.raw [f.s2c] [f.serverAck] := by
  simp only [TcpFlow.serverAck, FramesOk, and_true]
  exact ok_sv_ack _

theorem clientMessage_ok (bytes : Bytes) (sendAck : Bool) (off : Nat) (ho : off < 8192)
    (hfit : 40 + bytes.length ≤ 65535) :
    FramesOk f.raw (if sendAck then [f.c2s off, f.s2c] else [f.c2s off])
      (f.clientMessage bytes sendAck off).2 := by
  cases sendAck
  · simp only [TcpFlow.clientMessage, clTx, FramesOk, and_true, Bool.false_eq_true, if_false]
    exact ok_cl_data _ bytes off ho hfit
  · simp only [TcpFlow.clientMessage, clTx, svTx, FramesOk, and_true, if_true]
    exact ⟨ok_cl_data _ bytes off ho hfit, ok_sv_ack _⟩

theorem serverMessage_ok (bytes : Bytes) (sendAck : Bool) (off : Nat) (ho : off < 8192)
    (hfit : 40 + bytes.length ≤ 65535) :
    FramesOk f.raw (if sendAck then [f.s2c off, f.c2s] else [f.s2c off])
      (f.serverMessage bytes sendAck off).2 := by
  cases sendAck
  · simp only [TcpFlow.serverMessage, svTx, FramesOk, and_true, Bool.false_eq_true, if_false]
    exact ok_sv_data _ bytes off ho hfit
  · simp only [TcpFlow.serverMessage, clTx, svTx, FramesOk, and_true, if_true]
    exact ⟨ok_sv_data _ bytes off ho hfit, ok_cl_ack _⟩

theorem clientDataSegment_ok (bytes : Bytes) (hfit : 40 + bytes.length ≤ 65535) :
    FramesOk f.raw [f.c2s] [(f.clientDataSegment bytes).2.frame] := by
  simp only [TcpFlow.clientDataSegment, FramesOk, and_true]
  exact ok_cl_data _ bytes 0 (by decide) hfit

theorem serverDataSegment_ok (bytes : Bytes) (hfit : 40 + bytes.length ≤ 65535) :
    FramesOk f.raw [f.s2c] [(f.serverDataSegment bytes).2.frame] := by
  simp only [TcpFlow.serverDataSegment, FramesOk, and_true]
  exact ok_sv_data _ bytes 0 (by decide) hfit

/-! ### C18: raw mode removes exactly the canonical Ethernet header -/


/-- the same flow with the raw flag forced -/
def withRaw (r : Bool) : TcpFlow := { f with raw := r }

open TcpSeg (Addr)

/-- position-wise: the non-raw frame is the canonical framing of the raw frame, and is recognised
by `Spec.ethMatchesIp` -/
def FramedPairs : List Bytes → List Bytes → Prop
  | [], [] => True
  | a :: as, b :: bs => (a = Spec.ethFrame b ∧ Spec.ethMatchesIp a = true) ∧ FramedPairs as bs
  | _, _ => False

omit f in
theorem FramedPairs.map_eq : ∀ {as bs : List Bytes}, FramedPairs as bs → as = bs.map Spec.ethFrame
  | [], [], _ => rfl
  | _ :: _, _ :: _, ⟨h, t⟩ => by rw [List.map, ← h.1, ← t.map_eq]
  | [], _ :: _, h => h.elim
  | _ :: _, [], h => h.elim

omit f in
theorem FramedPairs.all_matches : ∀ {as bs : List Bytes}, FramedPairs as bs →
    as.all Spec.ethMatchesIp = true
  | [], [], _ => rfl
  | _ :: _, _ :: _, ⟨h, t⟩ => by rw [List.all_cons, h.2, t.all_matches]; rfl
  | [], _ :: _, h => h.elim
  | _ :: _, [], h => h.elim

theorem open_pairs : FramedPairs ((f.withRaw false).open).2 ((f.withRaw true).open).2 := by
  simp only [TcpFlow.open, clTx, svTx, FramedPairs, and_true]
  exact ⟨Addr.pair (clSeg0_addr _).syn.tcpCsum rfl, Addr.pair (svSeg0_addr _).synAck.tcpCsum rfl, Addr.pair (clSeg0_addr _).ack.tcpCsum rfl⟩

theorem clientClose_pairs : FramedPairs ((f.withRaw false).clientClose).2 ((f.withRaw true).clientClose).2 := by
  simp only [TcpFlow.clientClose, clTx, svTx, FramedPairs, and_true]
  exact ⟨Addr.pair (clSeg0_addr _).finAck.tcpCsum rfl, Addr.pair (svSeg0_addr _).finAck.tcpCsum rfl, Addr.pair (clSeg0_addr _).ack.tcpCsum rfl⟩

theorem serverClose_pairs : FramedPairs ((f.withRaw false).serverClose).2 ((f.withRaw true).serverClose).2 := by
  simp only [TcpFlow.serverClose, clTx, svTx, FramedPairs, and_true]
  exact ⟨Addr.pair (svSeg0_addr _).finAck.tcpCsum rfl, Addr.pair (clSeg0_addr _).finAck.tcpCsum rfl, Addr.pair (svSeg0_addr _).ack.tcpCsum rfl⟩

theorem clientReset_pairs : FramedPairs [(f.withRaw false).clientReset] [(f.withRaw true).clientReset] := by
  simp only [FramedPairs, and_true]
  exact Addr.pair (clSeg0_addr _).rst.tcpCsum rfl

theorem serverReset_pairs : FramedPairs [(f.withRaw false).serverReset] [(f.withRaw true).serverReset] := by
  simp only [FramedPairs, and_true]
  exact Addr.pair (svSeg0_addr _).rst.tcpCsum rfl

theorem clientAck_pairs : FramedPairs [(f.withRaw false).clientAck] [(f.withRaw true).clientAck] := by
  simp only [FramedPairs, and_true]
  exact Addr.pair (clSeg0_addr _).ack.tcpCsum rfl

theorem serverAck_pairs : FramedPairs [(f.withRaw false).serverAck] [(f.withRaw true).serverAck] := by
  simp only [FramedPairs, and_true]
  exact Addr.pair (svSeg0_addr _).ack.tcpCsum rfl

theorem clientMessage_pairs (bytes : Bytes) (sendAck : Bool) (off : Nat) :
    FramedPairs ((f.withRaw false).clientMessage bytes sendAck off).2
      ((f.withRaw true).clientMessage bytes sendAck off).2 := by
  cases sendAck
  · simp only [TcpFlow.clientMessage, clTx, FramedPairs, and_true, Bool.false_eq_true, if_false]
    exact Addr.pair (clSeg_addr _ bytes off).tcpCsum rfl
  · simp only [TcpFlow.clientMessage, clTx, svTx, FramedPairs, and_true, if_true]
    exact ⟨Addr.pair (clSeg_addr _ bytes off).tcpCsum rfl, Addr.pair (svSeg0_addr _).ack.tcpCsum rfl⟩

theorem clientDataSegment_pairs (bytes : Bytes) :
    FramedPairs [((f.withRaw false).clientDataSegment bytes).2.frame]
      [((f.withRaw true).clientDataSegment bytes).2.frame] := by
  simp only [FramedPairs, and_true]
  exact Addr.pair (clSeg_addr _ bytes 0).tcpCsum rfl

theorem serverMessage_pairs (bytes : Bytes) (sendAck : Bool) (off : Nat) :
    FramedPairs ((f.withRaw false).serverMessage bytes sendAck off).2
      ((f.withRaw true).serverMessage bytes sendAck off).2 := by
  cases sendAck
  · simp only [TcpFlow.serverMessage, svTx, FramedPairs, and_true, Bool.false_eq_true, if_false]
    exact Addr.pair (svSeg_addr _ bytes off).tcpCsum rfl
  · simp only [TcpFlow.serverMessage, clTx, svTx, FramedPairs, and_true, if_true]
    exact ⟨Addr.pair (svSeg_addr _ bytes off).tcpCsum rfl, Addr.pair (clSeg0_addr _).ack.tcpCsum rfl⟩

theorem serverDataSegment_pairs (bytes : Bytes) :
    FramedPairs [((f.withRaw false).serverDataSegment bytes).2.frame]
      [((f.withRaw true).serverDataSegment bytes).2.frame] := by
  simp only [FramedPairs, and_true]
  exact Addr.pair (svSeg_addr _ bytes 0).tcpCsum rfl

end TcpFlow
end Resynth
