import Resynth.Model.Io
/-!
# Lemmas about the buffered writer `BufW` (Model/Io.lean)
-/
namespace Resynth
namespace BufW

/-- everything the writer has accepted and not lost: device content followed by the buffer -/
def content (w : BufW) : Bytes := w.dev ++ w.buf

/-! ## unlimited device -/

theorem flushBuf_none (w : BufW) (h : w.budget = none) :
    w.flushBuf = ({ w with dev := w.dev ++ w.buf, buf := [] }, true) := by
  cases w; simp only at h; subst h; simp [flushBuf]

theorem devWrite_none (w : BufW) (b : Bytes) (h : w.budget = none) :
    w.devWrite b = ({ w with dev := w.dev ++ b }, true) := by
  cases w; simp only at h; subst h; simp [devWrite]

/-- `writeAll` with the tuple pattern unfolded -/
theorem writeAll_eq (w : BufW) (b : Bytes) : w.writeAll b =
    if b.length < w.cap - w.buf.length then ({ w with buf := w.buf ++ b }, true)
    else if b.length > w.cap - w.buf.length then
      (if w.flushBuf.2 = true then
        (if b.length ≥ w.flushBuf.1.cap then w.flushBuf.1.devWrite b
         else ({ w.flushBuf.1 with buf := w.flushBuf.1.buf ++ b }, true))
       else (w.flushBuf.1, false))
    else if b.length ≥ w.cap then w.devWrite b
    else ({ w with buf := w.buf ++ b }, true) := by
  unfold writeAll
  by_cases h1 : b.length < w.cap - w.buf.length
  · simp [h1]
  · by_cases h2 : b.length > w.cap - w.buf.length
    · rcases hf : w.flushBuf with ⟨w1, ok1⟩
      cases ok1 <;> simp [h1, h2]
    · simp [h1, h2]

theorem writeAll_none (w : BufW) (b : Bytes) (h : w.budget = none) :
    (w.writeAll b).2 = true ∧ (w.writeAll b).1.budget = none ∧ (w.writeAll b).1.cap = w.cap ∧
    (w.writeAll b).1.content = w.content ++ b := by
  rw [writeAll_eq]
  split
  · simp [content, h]
  · split
    · rw [flushBuf_none w h]
      simp only [if_true]
      split
      · rw [devWrite_none _ _ (by simpa using h)]; simp [content, h]
      · simp [content, h]
    · split
      · rw [devWrite_none _ _ h]
        rename_i h1 h2 h3
        -- no flush happened and `b` goes straight to the device: the buffer is empty or `b` is
        have : w.buf = [] ∨ b = [] := by
          rcases Nat.eq_zero_or_pos w.buf.length with h0 | h0
          · left; exact List.eq_nil_of_length_eq_zero h0
          · right; apply List.eq_nil_of_length_eq_zero; omega
        rcases this with hb | hb <;> simp [content, hb, h]
      · simp [content, h]

theorem dropped_none (w : BufW) (h : w.budget = none) : w.dropped = w.content := by
  simp [dropped, flushBuf_none w h, content]


/-! ## a device with a byte budget, compared with the unlimited one -/

theorem flushBuf_some (w : BufW) (k : Nat) (h : w.budget = some k) :
    w.flushBuf = if w.buf.length ≤ k then
        ({ w with dev := w.dev ++ w.buf, buf := [], budget := some (k - w.buf.length) }, true)
      else ({ w with dev := w.dev ++ w.buf.take k, buf := w.buf.drop k, budget := some 0 }, false) := by
  cases w; simp only at h; subst h; simp [flushBuf]

theorem devWrite_some (w : BufW) (b : Bytes) (k : Nat) (h : w.budget = some k) :
    w.devWrite b = if b.length ≤ k then
        ({ w with dev := w.dev ++ b, budget := some (k - b.length) }, true)
      else ({ w with dev := w.dev ++ b.take k, budget := some 0 }, false) := by
  cases w; simp only at h; subst h; simp [devWrite]

/-- `wk` is the writer of a run whose device accepts `k0` bytes in total, `wu` the writer of the
same run on an unlimited device, and no write has failed so far: they differ in the budget only. -/
def Shadow (k0 : Nat) (wk wu : BufW) : Prop :=
  wu.budget = none ∧ wk.cap = wu.cap ∧ wk.buf = wu.buf ∧ wk.dev = wu.dev ∧ wu.dev.length ≤ k0 ∧
    wk.budget = some (k0 - wu.dev.length)

theorem Shadow.init (k0 cap : Nat) : Shadow k0 { cap := cap, budget := some k0 } { cap := cap, budget := none } := by
  simp [Shadow]

theorem Shadow.flushBuf {k0 : Nat} {wk wu : BufW} (h : Shadow k0 wk wu) (hok : wk.flushBuf.2 = true) :
    Shadow k0 wk.flushBuf.1 wu.flushBuf.1 := by
  obtain ⟨h1, h2, h3, h4, h5, h6⟩ := h
  rw [flushBuf_some wk _ h6] at hok ⊢
  rw [flushBuf_none wu h1]
  split at hok
  · rename_i hle
    rw [if_pos hle]
    simp only [Shadow, h1, h2, h3, h4, List.length_append, true_and]
    rw [h3] at hle
    refine ⟨by omega, ?_⟩
    congr 1; omega
  · simp at hok

theorem Shadow.devWrite {k0 : Nat} {wk wu : BufW} (b : Bytes) (h : Shadow k0 wk wu) (hok : (wk.devWrite b).2 = true) :
    Shadow k0 (wk.devWrite b).1 (wu.devWrite b).1 := by
  obtain ⟨h1, h2, h3, h4, h5, h6⟩ := h
  rw [devWrite_some wk _ _ h6] at hok ⊢
  rw [devWrite_none wu _ h1]
  split at hok
  · rename_i hle
    rw [if_pos hle]
    simp only [Shadow, h1, h2, h3, h4, List.length_append, true_and]
    refine ⟨by omega, ?_⟩
    congr 1; omega
  · simp at hok

theorem Shadow.buffer {k0 : Nat} {wk wu : BufW} (b : Bytes) (h : Shadow k0 wk wu) :
    Shadow k0 { wk with buf := wk.buf ++ b } { wu with buf := wu.buf ++ b } := by
  obtain ⟨h1, h2, h3, h4, h5, h6⟩ := h
  simp [Shadow, h1, h2, h3, h4, h5, h6]

/-- **simulation step**: a `write_all` that succeeds on the budgeted device leaves it shadowing
the unlimited one -/
theorem Shadow.writeAll {k0 : Nat} {wk wu : BufW} (b : Bytes) (h : Shadow k0 wk wu)
    (hok : (wk.writeAll b).2 = true) : Shadow k0 (wk.writeAll b).1 (wu.writeAll b).1 := by
  have hc := h.2.1
  have hb := h.2.2.1
  rw [writeAll_eq] at hok ⊢
  rw [writeAll_eq wu]
  rw [hc, hb] at hok ⊢
  split
  · rename_i h1
    rw [if_pos h1] at hok
    have := h.buffer b; rw [hc, hb] at this; exact this
  · rename_i h1
    rw [if_neg h1] at hok
    split
    · rename_i h2
      rw [if_pos h2] at hok
      have hu : wu.flushBuf.2 = true := by rw [flushBuf_none wu h.1]
      rw [if_pos hu]
      by_cases hf : wk.flushBuf.2 = true
      · rw [if_pos hf] at hok ⊢
        have hs := h.flushBuf hf
        rw [hs.2.1] at hok ⊢
        split
        · rename_i h3
          rw [if_pos h3] at hok
          exact hs.devWrite b hok
        · exact hs.buffer b
      · rw [if_neg hf] at hok; simp at hok
    · rename_i h2
      rw [if_neg h2] at hok
      split
      · rename_i h3
        rw [if_pos h3] at hok
        exact h.devWrite b hok
      · have := h.buffer b; rw [hc, hb] at this; exact this

/-- once dropped, a shadowing writer leaves a prefix of what the unlimited run holds, and never
more than `k0` bytes -/
theorem Shadow.dropped_prefix {k0 : Nat} {wk wu : BufW} (h : Shadow k0 wk wu) :
    wk.dropped <+: wu.content ∧ wk.dropped.length ≤ k0 := by
  obtain ⟨h1, h2, h3, h4, h5, h6⟩ := h
  unfold dropped content
  rw [flushBuf_some wk _ h6]
  split
  · rename_i hle
    simp only [h3, h4, List.length_append] at hle ⊢
    exact ⟨List.prefix_refl _, by omega⟩
  · simp only [h3, h4, List.length_append, List.length_take]
    refine ⟨?_, by omega⟩
    exact (List.prefix_append_right_inj _).2 (List.take_prefix _ _)

/-- if the final explicit flush succeeds, the file is complete -/
theorem Shadow.flush_ok_dropped {k0 : Nat} {wk wu : BufW} (h : Shadow k0 wk wu) (hok : wk.flushBuf.2 = true) :
    wk.flushBuf.1.dropped = wu.flushBuf.1.dropped ∧ wk.flushBuf.1.dropped.length ≤ k0 := by
  have hs := h.flushBuf hok
  have hu : wu.flushBuf.1.budget = none := hs.1
  have hp := hs.dropped_prefix
  refine ⟨?_, hp.2⟩
  obtain ⟨h1, h2, h3, h4, h5, h6⟩ := hs
  unfold dropped
  rw [flushBuf_some _ _ h6, flushBuf_none _ hu]
  have : wu.flushBuf.1.buf = [] := by rw [flushBuf_none wu h.1]
  rw [h3, this]
  simp [h4]


/-- the explicit flush changes nothing about what ends up in the file -/
theorem dropped_flushBuf (w : BufW) : w.flushBuf.1.dropped = w.dropped := by
  cases hb : w.budget with
  | none =>
    unfold dropped
    rw [flushBuf_none w hb, flushBuf_none _ (by simpa using hb)]
    simp
  | some k =>
    unfold dropped
    rw [flushBuf_some w k hb]
    split
    · rw [flushBuf_some _ (k - w.buf.length) rfl]; simp
    · rw [flushBuf_some _ 0 rfl]
      split
      · rename_i h2
        have : List.drop k w.buf = [] := List.eq_nil_of_length_eq_zero (by simpa using h2)
        simp [this]
      · simp

/-! ## accounting for arbitrary operation sequences on a budgeted device -/

inductive Op
  | write (b : Bytes)
  | flush
  deriving Repr, DecidableEq

def Op.bytes : Op → Bytes
  | .write b => b
  | .flush => []

def applyOp (w : BufW) : Op → BufW × Bool
  | .write b => w.writeAll b
  | .flush => w.flushBuf

/-- run a sequence of operations, carrying on after errors (as a caller that ignores them
would); the flag says whether every operation reported success -/
def runOps (w : BufW) : List Op → BufW × Bool
  | [] => (w, true)
  | o :: os => ((runOps (applyOp w o).1 os).1, (applyOp w o).2 && (runOps (applyOp w o).1 os).2)

def written (ops : List Op) : Bytes := ops.flatMap Op.bytes

/-- nothing failed so far: device + buffer hold exactly `W`, and the budget is what is left of `k0` -/
def Good (k0 : Nat) (W : Bytes) (w : BufW) : Prop :=
  ∃ k', w.budget = some k' ∧ w.dev.length + k' = k0 ∧ w.dev ++ w.buf = W

/-- a write has failed: the device is full and holds a prefix of `W` -/
def Dead (k0 : Nat) (W : Bytes) (w : BufW) : Prop :=
  w.budget = some 0 ∧ w.dev.length ≤ k0 ∧ w.dev <+: W

theorem Good.flushBuf {k0 W w} (h : Good k0 W w) :
    (w.flushBuf.2 = true → Good k0 W w.flushBuf.1 ∧ w.flushBuf.1.buf = [] ∧ w.flushBuf.1.cap = w.cap) ∧
    (w.flushBuf.2 = false → Dead k0 W w.flushBuf.1) := by
  obtain ⟨k', h1, h2, h3⟩ := h
  rw [flushBuf_some w _ h1]
  split
  · rename_i hle
    refine ⟨fun _ => ⟨⟨k' - w.buf.length, rfl, ?_, by simpa using h3⟩, rfl, rfl⟩, by simp⟩
    simp only [List.length_append]; omega
  · rename_i hle
    refine ⟨by simp, fun _ => ⟨rfl, ?_, ?_⟩⟩
    · simp only [List.length_append, List.length_take]; omega
    · rw [← h3]; exact (List.prefix_append_right_inj _).2 (List.take_prefix _ _)

theorem Good.devWrite {k0 W w} (b : Bytes) (h : Good k0 W w) (hb : w.buf = [] ∨ b = []) :
    ((w.devWrite b).2 = true → Good k0 (W ++ b) (w.devWrite b).1) ∧
    ((w.devWrite b).2 = false → Dead k0 (W ++ b) (w.devWrite b).1) := by
  obtain ⟨k', h1, h2, h3⟩ := h
  rw [devWrite_some w _ _ h1]
  split
  · rename_i hle
    refine ⟨fun _ => ⟨k' - b.length, rfl, ?_, ?_⟩, by simp⟩
    · simp only [List.length_append]; omega
    · rcases hb with hb | hb <;> simp [hb, ← h3]
  · rename_i hle
    have hbuf : w.buf = [] := by
      rcases hb with hb | hb
      · exact hb
      · simp [hb] at hle
    refine ⟨by simp, fun _ => ⟨rfl, ?_, ?_⟩⟩
    · simp only [List.length_append, List.length_take]; omega
    · rw [← h3, hbuf]; simp only [List.append_nil]
      exact (List.prefix_append_right_inj _).2 (List.take_prefix _ _)

theorem Good.buffer {k0 W w} (b : Bytes) (h : Good k0 W w) : Good k0 (W ++ b) { w with buf := w.buf ++ b } := by
  obtain ⟨k', h1, h2, h3⟩ := h
  exact ⟨k', h1, h2, by simp [← h3]⟩

theorem Good.writeAll {k0 W w} (b : Bytes) (h : Good k0 W w) :
    ((w.writeAll b).2 = true → Good k0 (W ++ b) (w.writeAll b).1) ∧
    ((w.writeAll b).2 = false → Dead k0 (W ++ b) (w.writeAll b).1) := by
  rw [writeAll_eq]
  split
  · exact ⟨fun _ => h.buffer b, by simp⟩
  · split
    · by_cases hf : w.flushBuf.2 = true
      · rw [if_pos hf]
        obtain ⟨hg, hbuf, hcap⟩ := h.flushBuf.1 hf
        split
        · exact hg.devWrite b (Or.inl hbuf)
        · exact ⟨fun _ => hg.buffer b, by simp⟩
      · rw [if_neg hf]
        have hd := h.flushBuf.2 (by simpa using hf)
        refine ⟨by simp, fun _ => ⟨hd.1, hd.2.1, ?_⟩⟩
        exact List.IsPrefix.trans hd.2.2 (List.prefix_append _ _)
    · split
      · rename_i h1 h2 h3
        have : w.buf = [] ∨ b = [] := by
          rcases Nat.eq_zero_or_pos w.buf.length with h0 | h0
          · left; exact List.eq_nil_of_length_eq_zero h0
          · right; apply List.eq_nil_of_length_eq_zero; omega
        exact h.devWrite b this
      · exact ⟨fun _ => h.buffer b, by simp⟩

theorem Dead.flushBuf {k0 W w} (h : Dead k0 W w) : Dead k0 W w.flushBuf.1 := by
  obtain ⟨h1, h2, h3⟩ := h
  rw [flushBuf_some w _ h1]
  split
  · rename_i hle
    have : w.buf = [] := List.eq_nil_of_length_eq_zero (by omega)
    simp [Dead, this, h2, h3]
  · simp [Dead, h2, h3]

theorem Dead.devWrite {k0 W w} (b : Bytes) (h : Dead k0 W w) : Dead k0 W (w.devWrite b).1 := by
  obtain ⟨h1, h2, h3⟩ := h
  rw [devWrite_some w _ _ h1]
  split
  · rename_i hle
    have : b = [] := List.eq_nil_of_length_eq_zero (by omega)
    simp [Dead, this, h2, h3]
  · simp [Dead, h2, h3]

theorem Dead.mono {k0 W w} (b : Bytes) (h : Dead k0 W w) : Dead k0 (W ++ b) w :=
  ⟨h.1, h.2.1, List.IsPrefix.trans h.2.2 (List.prefix_append _ _)⟩

theorem Dead.writeAll {k0 W w} (b : Bytes) (h : Dead k0 W w) : Dead k0 (W ++ b) (w.writeAll b).1 := by
  rw [writeAll_eq]
  split
  · exact (show Dead k0 W { w with buf := w.buf ++ b } from h).mono b
  · split
    · split
      · split
        · exact (h.flushBuf.devWrite b).mono b
        · exact (show Dead k0 W { w.flushBuf.1 with buf := w.flushBuf.1.buf ++ b } from h.flushBuf).mono b
      · exact h.flushBuf.mono b
    · split
      · exact (h.devWrite b).mono b
      · exact (show Dead k0 W { w with buf := w.buf ++ b } from h).mono b

theorem applyOp_acc {k0 W w} (o : Op) :
    (Good k0 W w → ((applyOp w o).2 = true → Good k0 (W ++ o.bytes) (applyOp w o).1) ∧
      ((applyOp w o).2 = false → Dead k0 (W ++ o.bytes) (applyOp w o).1)) ∧
    (Dead k0 W w → Dead k0 (W ++ o.bytes) (applyOp w o).1) := by
  cases o with
  | write b => exact ⟨fun h => h.writeAll b, fun h => h.writeAll b⟩
  | flush =>
    simp only [applyOp, Op.bytes, List.append_nil]
    exact ⟨fun h => ⟨fun hok => (h.flushBuf.1 hok).1, h.flushBuf.2⟩, fun h => h.flushBuf⟩

theorem runOps_acc (ops : List Op) : ∀ {k0 W w},
    (Good k0 W w → ((runOps w ops).2 = true → Good k0 (W ++ written ops) (runOps w ops).1) ∧
      (Good k0 (W ++ written ops) (runOps w ops).1 ∨ Dead k0 (W ++ written ops) (runOps w ops).1)) ∧
    (Dead k0 W w → Dead k0 (W ++ written ops) (runOps w ops).1) := by
  induction ops with
  | nil => intro k0 W w; simp [runOps, written]; exact fun h => ⟨h, Or.inl h⟩
  | cons o os ih =>
    intro k0 W w
    have hw : written (o :: os) = o.bytes ++ written os := by simp [written]
    simp only [runOps, hw, ← List.append_assoc, Bool.and_eq_true]
    have hstep := @applyOp_acc k0 W w o
    refine ⟨fun hg => ?_, fun hd => (ih.2 (hstep.2 hd))⟩
    cases hok : (applyOp w o).2 with
    | true =>
      have hg' := (hstep.1 hg).1 hok
      exact ⟨fun h2 => (ih.1 hg').1 h2.2, (ih.1 hg').2⟩
    | false =>
      have hd' := (hstep.1 hg).2 hok
      exact ⟨by simp, Or.inr (ih.2 hd')⟩

end BufW
end Resynth
