import Resynth.Spec.Framing
import Resynth.Lemmas.Builders
/-!
# Round-trip lemmas: `Spec/Framing.lean` parsers against the pure builders of `Lemmas/Builders.lean`
-/
namespace Resynth.Wire
open Spec

/-! ## bytes and fixed-width integers -/

@[simp] theorem b8_toNat (n : Nat) : (b8 n).toNat = n % 256 := by
  simp [b8]

@[simp] theorem be16_length (n : Nat) : (be16 n).length = 2 := rfl
@[simp] theorem be24_length (n : Nat) : (be24 n).length = 3 := rfl
@[simp] theorem be32_length (n : Nat) : (be32 n).length = 4 := rfl
@[simp] theorem be64_length (n : Nat) : (be64 n).length = 8 := rfl
@[simp] theorem le16_length (n : Nat) : (le16 n).length = 2 := rfl
@[simp] theorem le32_length (n : Nat) : (le32 n).length = 4 := rfl
@[simp] theorem le64_length (n : Nat) : (le64 n).length = 8 := rfl

theorem beNat_b8 (n : Nat) : beNat [b8 n] = n % 256 := by simp [beNat]
theorem beNat_be16 (n : Nat) : beNat (be16 n) = n % 65536 := by
  simp [beNat, be16]; omega
theorem beNat_be24 (n : Nat) : beNat (be24 n) = n % 16777216 := by
  simp [beNat, be24]; omega
theorem beNat_be32 (n : Nat) : beNat (be32 n) = n % 4294967296 := by
  simp [beNat, be32]; omega
theorem beNat_be64 (n : Nat) : beNat (be64 n) = n % 18446744073709551616 := by
  simp [beNat, be64, be32]; omega
theorem leNat_le16 (n : Nat) : leNat (le16 n) = n % 65536 := by
  simp [leNat, beNat, le16]; omega
theorem leNat_le32 (n : Nat) : leNat (le32 n) = n % 4294967296 := by
  simp [leNat, beNat, le32]; omega
theorem leNat_le64 (n : Nat) : leNat (le64 n) = n % 18446744073709551616 := by
  simp [leNat, beNat, le64, le32]; omega

/-! ## generic parsers -/

theorem takeN_append (a r : Bytes) : takeN a.length (a ++ r) = some (a, r) := by
  simp [takeN]

theorem takeN_append' (n : Nat) (a r : Bytes) (h : a.length = n) : takeN n (a ++ r) = some (a, r) := by
  subst h; exact takeN_append a r

theorem parseUInt_b8 (n : Nat) (r : Bytes) : parseUInt 1 (b8 n :: r) = some (n % 256, r) := by
  simp [parseUInt, takeN, beNat]
theorem parseUInt_be16 (n : Nat) (r : Bytes) : parseUInt 2 (be16 n ++ r) = some (n % 65536, r) := by
  simp [parseUInt, takeN_append' 2 (be16 n) r rfl, beNat_be16]
theorem parseUInt_be24 (n : Nat) (r : Bytes) : parseUInt 3 (be24 n ++ r) = some (n % 16777216, r) := by
  simp [parseUInt, takeN_append' 3 (be24 n) r rfl, beNat_be24]
theorem parseUInt_be32 (n : Nat) (r : Bytes) : parseUInt 4 (be32 n ++ r) = some (n % 4294967296, r) := by
  simp [parseUInt, takeN_append' 4 (be32 n) r rfl, beNat_be32]
theorem parseUInt_be64 (n : Nat) (r : Bytes) :
    parseUInt 8 (be64 n ++ r) = some (n % 18446744073709551616, r) := by
  simp [parseUInt, takeN_append' 8 (be64 n) r rfl, beNat_be64]

/-- the common shape: a `w`-byte length field holding `b.length`, then `b` -/
theorem parseLenPrefixed_of (w : Nat) (l b r : Bytes) (hl : l.length = w) (hv : beNat l = b.length) :
    parseLenPrefixed w (l ++ (b ++ r)) = some (b, r) := by
  simp [parseLenPrefixed, takeN_append' w l (b ++ r) hl, hv, takeN_append]

theorem parseLenPrefixed_u8 (b r : Bytes) (h : b.length < 256) :
    parseLenPrefixed 1 (b8 b.length :: (b ++ r)) = some (b, r) :=
  parseLenPrefixed_of 1 [b8 b.length] b r rfl (by rw [beNat_b8]; omega)
theorem parseLenPrefixed_be16 (b r : Bytes) (h : b.length < 65536) :
    parseLenPrefixed 2 (be16 b.length ++ (b ++ r)) = some (b, r) :=
  parseLenPrefixed_of 2 _ b r rfl (by rw [beNat_be16]; omega)
theorem parseLenPrefixed_be24 (b r : Bytes) (h : b.length < 16777216) :
    parseLenPrefixed 3 (be24 b.length ++ (b ++ r)) = some (b, r) :=
  parseLenPrefixed_of 3 _ b r rfl (by rw [beNat_be24]; omega)
theorem parseLenPrefixed_be32 (b r : Bytes) (h : b.length < 4294967296) :
    parseLenPrefixed 4 (be32 b.length ++ (b ++ r)) = some (b, r) :=
  parseLenPrefixed_of 4 _ b r rfl (by rw [beNat_be32]; omega)
theorem parseLenPrefixed_be64 (b r : Bytes) (h : b.length < 18446744073709551616) :
    parseLenPrefixed 8 (be64 b.length ++ (b ++ r)) = some (b, r) :=
  parseLenPrefixed_of 8 _ b r rfl (by rw [beNat_be64]; omega)

/-- a message of the shape `pre ++ l ++ b` whose field `l` holds `b.length` -/
theorem lenFieldExact_of (off w : Nat) (m pre l b : Bytes) (hm : m = pre ++ (l ++ b)) (hoff : pre.length = off)
    (hl : l.length = w) (hv : beNat l = b.length) : LenFieldExact off w m := by
  subst hm hoff hl
  simp [LenFieldExact, declared, following, hv]

/-! ## repeated items -/

theorem parseMany_flatMap {α β} (p : Bytes → Option (β × Bytes)) (build : α → Bytes) (g : α → β)
    (xs : List α) (hp : ∀ x ∈ xs, ∀ r, p (build x ++ r) = some (g x, r)) (hne : ∀ x ∈ xs, build x ≠ []) :
    ∀ fuel, xs.length ≤ fuel → parseMany p fuel (xs.flatMap build) = some (xs.map g) := by
  induction xs with
  | nil => intro fuel _; cases fuel <;> simp [parseMany]
  | cons x xs ih =>
    intro fuel hf
    have hx := hp x (by simp)
    have hnx := hne x (by simp)
    cases fuel with
    | zero => simp at hf
    | succ fuel =>
      have ih' := ih (fun y hy => hp y (by simp [hy])) (fun y hy => hne y (by simp [hy])) fuel (by simpa using hf)
      rw [List.flatMap_cons]
      cases hb : build x ++ List.flatMap build xs with
      | nil => simp at hb; exact absurd hb.1 hnx
      | cons c cs =>
        rw [parseMany, ← hb, hx]
        simp [ih']

theorem flatMap_length_ge {α} (build : α → Bytes) (xs : List α) (hne : ∀ x ∈ xs, build x ≠ []) :
    xs.length ≤ (xs.flatMap build).length := by
  induction xs with
  | nil => simp
  | cons x xs ih =>
    have := hne x (by simp)
    have := List.length_pos_iff.mpr this
    have := ih (fun y hy => hne y (by simp [hy]))
    rw [List.flatMap_cons, List.length_append, List.length_cons]; omega

theorem parseAll_flatMap {α β} (p : Bytes → Option (β × Bytes)) (build : α → Bytes) (g : α → β)
    (xs : List α) (hp : ∀ x ∈ xs, ∀ r, p (build x ++ r) = some (g x, r)) (hne : ∀ x ∈ xs, build x ≠ []) :
    parseAll p (xs.flatMap build) = some (xs.map g) :=
  parseMany_flatMap p build g xs hp hne _ (flatMap_length_ge build xs hne)

theorem parseAll_flatMap_id {α} (p : Bytes → Option (α × Bytes)) (build : α → Bytes)
    (xs : List α) (hp : ∀ x ∈ xs, ∀ r, p (build x ++ r) = some (x, r)) (hne : ∀ x ∈ xs, build x ≠ []) :
    parseAll p (xs.flatMap build) = some xs := by
  simpa using parseAll_flatMap p build id xs hp hne

end Resynth.Wire
