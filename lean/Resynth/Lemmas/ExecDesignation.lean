import Resynth.Lemmas.BindCorollaries
import Resynth.Lemmas.Builders
import Resynth.Lemmas.DnsHost
import Resynth.Lemmas.Csum
/-!
# Helper lemmas for `Props/C11Exec.lean` ("designation end to end")

* `Spec.bind_mkCall`: what the declarative calling convention returns for a call of the shape
  *unnamed values, then named values, then unnamed values*;
* `Spec.bind_any_order`: a call that supplies every parameter — the first `k` positionally, the
  others by name in any order — binds to the declared-order vector;
* bridges for the `exec` arms of `dns::hdr`, `dns::question`, `dns::answer`, `ipv4::udp::hdr`
  with arbitrary (coercible) argument values.
-/
namespace Resynth.Spec

/-- a call written as: unnamed `lead`, then `named`, then unnamed `tail` -/
def mkCall (lead : List Val) (named : List (String × Val)) (tail : List Val) : Call :=
  lead.map (fun v => (none, v)) ++ (named.map (fun p => (some p.1, p.2)) ++ tail.map (fun v => (none, v)))

theorem takeWhile_named_unnamed (vs : List Val) :
    (vs.map (fun v => ((none : Option String), v))).takeWhile isNamed = [] := by
  cases vs <;> simp [isNamed]

theorem dropWhile_named_unnamed (vs : List Val) :
    (vs.map (fun v => ((none : Option String), v))).dropWhile isNamed = vs.map (fun v => (none, v)) := by
  cases vs <;> simp [isNamed]

theorem takeWhile_unnamed_named (named : List (String × Val)) (hne : named ≠ []) (rest : Call) :
    ((named.map (fun p => ((some p.1 : Option String), p.2))) ++ rest).takeWhile isUnnamed = [] := by
  cases named with
  | nil => exact absurd rfl hne
  | cons p ps => simp [isUnnamed]

theorem filterMap_named (named : List (String × Val)) :
    (named.map (fun p => ((some p.1 : Option String), p.2))).filterMap (fun a => a.1.map (·, a.2)) = named := by
  induction named with
  | nil => rfl
  | cons p ps ih => simp [ih]

theorem phases_mkCall (f : FuncDef) (lead : List Val) (named : List (String × Val)) (tail : List Val)
    (hk : lead.length ≤ fillable f)
    (hsep : named ≠ [] ∨ tail = [] ∨ lead.length = fillable f) :
    phases f (mkCall lead named tail) = ⟨lead, named, tail.map (fun v => (none, v))⟩ := by
  have hU : ∀ a ∈ lead.map (fun v => ((none : Option String), v)), isUnnamed a = true := by
    intro a ha; obtain ⟨v, _, rfl⟩ := List.mem_map.1 ha; rfl
  have hN : ∀ a ∈ named.map (fun p => ((some p.1 : Option String), p.2)), isNamed a = true := by
    intro a ha; obtain ⟨v, _, rfl⟩ := List.mem_map.1 ha; rfl
  have hlead : ((mkCall lead named tail).takeWhile isUnnamed).take (fillable f) =
      lead.map (fun v => (none, v)) := by
    unfold mkCall
    rw [List.takeWhile_append_of_pos hU]
    by_cases hne : named = []
    · subst hne
      simp only [List.map_nil, List.nil_append, takeWhile_unnamed_map]
      rcases hsep with h | h | h
      · exact absurd rfl h
      · subst h; simp only [List.map_nil, List.append_nil]
        exact List.take_of_length_le (by simpa using hk)
      · rw [← h]
        have : lead.length = (lead.map (fun v => ((none : Option String), v))).length := by simp
        rw [this, List.take_left]
    · rw [takeWhile_unnamed_named named hne, List.append_nil]
      exact List.take_of_length_le (by simpa using hk)
  have hafter : (mkCall lead named tail).drop (lead.map (fun v => ((none : Option String), v))).length =
      named.map (fun p => (some p.1, p.2)) ++ tail.map (fun v => (none, v)) := by
    unfold mkCall; rw [List.drop_left]
  unfold phases
  simp only [hlead, hafter]
  rw [List.takeWhile_append_of_pos hN, List.dropWhile_append_of_pos hN, takeWhile_named_unnamed,
    dropWhile_named_unnamed, List.append_nil, filterMap_named]
  simp [Function.comp_def]

theorem not_mem_take_of_mem_drop {l : List String} (hnd : l.Nodup) (k : Nat) {x : String}
    (h : x ∈ l.drop k) : x ∉ l.take k := by
  rw [← List.take_append_drop k l] at hnd
  exact fun ht => (List.nodup_append.1 hnd).2.2 x ht x h rfl

/-- The calling convention on a call of the shape `lead…, name: value…, tail…`. -/
theorem bind_mkCall (f : FuncDef) (hnd : (paramNames f).Nodup) (lead : List Val) (named : List (String × Val))
    (tail rest : List Val) (hk : lead.length ≤ fillable f)
    (hsep : named ≠ [] ∨ tail = [] ∨ lead.length = fillable f)
    (hkeys : ∀ e ∈ named, e.1 ∈ (paramNames f).drop lead.length)
    (hnn : (named.map (·.1)).Nodup)
    (hrest : (f.args.drop lead.length).mapM (paramValue named) = some rest)
    (hacc : ∀ p ∈ f.args.zip (lead ++ rest), paramAccepts p.1.decl p.2.valType = true)
    (htail : tail = [] ∨ hasTail f = true) (htt : ∀ v ∈ tail, accepts f.collectType v.valType = true) :
    bind f (mkCall lead named tail) = some (lead ++ rest, tail) := by
  have hph := phases_mkCall f lead named tail hk hsep
  have h1 : unknownName f (mkCall lead named tail) = false := by
    simp only [unknownName, hph, List.any_eq_false]
    intro e he
    have := List.mem_of_mem_drop (hkeys e he)
    simp [this]
  have h2 : alreadySupplied f (mkCall lead named tail) = false := by
    simp only [alreadySupplied, hph, Bool.or_eq_false_iff, Bool.not_eq_false', decide_eq_true_eq,
      List.any_eq_false]
    refine ⟨hnn, ?_⟩
    intro e he
    simp only [List.contains_eq_mem, decide_eq_true_eq]
    exact not_mem_take_of_mem_drop hnd _ (hkeys e he)
  have h3 : misplacedNamed f (mkCall lead named tail) = false := by
    simp only [misplacedNamed, hph, List.any_eq_false]
    intro a ha
    obtain ⟨v, _, rfl⟩ := List.mem_map.1 ha
    simp [isNamed]
  have h4 : surplus f (mkCall lead named tail) = false := by
    simp only [surplus, hph]
    rcases htail with h | h
    · subst h; rfl
    · simp [h]
  have hpv : paramValues f (mkCall lead named tail) = some (lead ++ rest) := by
    simp only [paramValues, hph, hrest, Option.map_some]
  have htv : tailValues f (mkCall lead named tail) = tail := by
    simp [tailValues, hph, Function.comp_def]
  have h5 : incompatible f (mkCall lead named tail) = false := by
    simp only [incompatible, hpv, htv, Bool.or_eq_false_iff, List.any_eq_false]
    refine ⟨?_, ?_⟩
    · intro p hp
      have := hacc p hp
      simp [this]
    · intro v hv
      simp [htt v hv]
  simp only [bind, h1, h2, h3, h4, h5, Bool.or_false, Bool.false_eq_true, if_false, hpv, htv, Option.map_some]

/-! ## all parameters supplied, the named ones in any order -/

theorem mapM_paramValue_of_lookup (named : List (String × Val)) :
    ∀ (ds : List ArgDesc) (vs : List Val), ds.length = vs.length →
      (∀ p ∈ ds.zip vs, named.lookup p.1.name = some p.2) → ds.mapM (paramValue named) = some vs
  | [], [], _, _ => rfl
  | [], _ :: _, h, _ => by simp at h
  | _ :: _, [], h, _ => by simp at h
  | d :: ds, v :: vs, hl, h => by
    have h0 : paramValue named d = some v := by
      have := h (d, v) (by simp)
      simp only at this
      simp [paramValue, this]
    have ih := mapM_paramValue_of_lookup named ds vs (by simpa using hl)
      (fun p hp => h p (by simp only [List.zip_cons_cons, List.mem_cons]; exact Or.inr hp))
    simp [List.mapM_cons, h0, ih]

theorem fillable_le_length (f : FuncDef) : fillable f ≤ f.args.length := by
  unfold fillable mandatoryCount
  split
  · exact List.length_filter_le _ _
  · exact Nat.le_refl _

/-- **Any order.**  `vs` is the intended value of every parameter, in declared order.  The call
passes the first `k` of them positionally (`k` at most the number of parameters unnamed arguments
can fill) and all the others as `name: value`, in an arbitrary order (`named` is any permutation of
the remaining `(name, value)` pairs), followed by the collected tail.  The convention binds it to
exactly `vs` (and the tail). -/
theorem bind_any_order (f : FuncDef) (hnd : (paramNames f).Nodup) (vs : List Val)
    (hlen : vs.length = f.args.length) (k : Nat) (hk : k ≤ fillable f)
    (named : List (String × Val)) (hperm : named.Perm (((paramNames f).zip vs).drop k))
    (tail : List Val) (htail : tail = [] ∨ hasTail f = true)
    (htt : ∀ v ∈ tail, accepts f.collectType v.valType = true)
    (hacc : ∀ p ∈ f.args.zip vs, paramAccepts p.1.decl p.2.valType = true) :
    bind f (mkCall (vs.take k) named tail) = some (vs, tail) := by
  have hkl : k ≤ vs.length := by rw [hlen]; exact Nat.le_trans hk (fillable_le_length f)
  have hlk : (vs.take k).length = k := by simp [Nat.min_eq_left hkl]
  have hzd : ((paramNames f).zip vs).drop k = ((paramNames f).drop k).zip (vs.drop k) := by
    simp only [List.zip_eq_zipWith, List.drop_zipWith]
  have hpl : (paramNames f).length = f.args.length := by simp [paramNames]
  have hdl : ((paramNames f).drop k).length = (vs.drop k).length := by simp [hpl, hlen]
  have hkeysEq : (((paramNames f).drop k).zip (vs.drop k)).map (·.1) = (paramNames f).drop k := by
    rw [List.map_fst_zip]; omega
  have hndd : ((paramNames f).drop k).Nodup := (List.drop_sublist k _).nodup hnd
  have hnn : (named.map (·.1)).Nodup := by
    have hp := hperm.map (·.1)
    rw [hzd, hkeysEq] at hp
    exact hp.nodup_iff.2 hndd
  have hkeys : ∀ e ∈ named, e.1 ∈ (paramNames f).drop (vs.take k).length := by
    intro e he
    rw [hlk]
    have : e ∈ ((paramNames f).drop k).zip (vs.drop k) := by rw [← hzd]; exact hperm.subset he
    obtain ⟨n, v⟩ := e
    exact (List.of_mem_zip this).1
  have hrest : (f.args.drop (vs.take k).length).mapM (paramValue named) = some (vs.drop k) := by
    rw [hlk]
    refine mapM_paramValue_of_lookup named _ _ (by simp [hlen]) ?_
    intro p hp
    apply lookup_of_mem_nodup named hnn
    apply hperm.symm.subset
    rw [hzd]
    -- (p.1.name, p.2) ∈ zip of names and values
    obtain ⟨i, hi, hpi⟩ := List.mem_iff_getElem.1 hp
    simp only [List.getElem_zip] at hpi
    rw [← hpi]
    refine List.mem_iff_getElem.2 ⟨i, by simpa [hpl, hlen] using hi, ?_⟩
    simp [paramNames]
  have hsep : named ≠ [] ∨ tail = [] ∨ (vs.take k).length = fillable f := by
    by_cases hne : named = []
    · right; right
      rw [hlk]
      subst hne
      have hz := hperm.symm.eq_nil
      rw [hzd] at hz
      have : (((paramNames f).drop k).zip (vs.drop k)).length = 0 := by rw [hz]; rfl
      simp only [List.length_zip, List.length_drop, hpl, hlen, Nat.min_self] at this
      have := fillable_le_length f
      omega
    · exact Or.inl hne
  have := bind_mkCall f hnd (vs.take k) named tail (vs.drop k) (by rw [hlk]; exact hk) hsep hkeys hnn hrest
    (by rw [List.take_append_drop]; exact hacc) htail htt
  rwa [List.take_append_drop] at this

/-! ## what the coercions imply for the declared types -/

theorem accepts_int_of_toNat {v : Val} {n : Nat} (h : v.toNat? = some n) :
    accepts .u16 v.valType = true ∧ accepts .u32 v.valType = true := by
  cases v <;> simp [Val.toNat?] at h <;> exact ⟨rfl, rfl⟩

theorem accepts_str_of_toBuf {v : Val} {b : Bytes} (h : v.toBuf? = some b) : accepts .str v.valType = true := by
  cases v <;> simp [Val.toBuf?] at h <;> rfl

theorem accepts_str_of_mapM : ∀ (x : List Val) (bufs : List Bytes),
    x.mapM (m := Option) Val.toBuf? = some bufs → ∀ v ∈ x, accepts .str v.valType = true
  | [], _, _, v, hv => by simp at hv
  | a :: x, bufs, h, v, hv => by
    rw [List.mapM_cons] at h
    cases ha : a.toBuf? with
    | none => simp [ha] at h
    | some b =>
      cases hx : x.mapM (m := Option) Val.toBuf? with
      | none => simp [ha, hx] at h
      | some bs =>
        rcases List.mem_cons.1 hv with rfl | hv'
        · exact accepts_str_of_toBuf ha
        · exact accepts_str_of_mapM x bs hx v hv'

end Resynth.Spec

namespace Resynth.Wire

/-! ## bridges with arbitrary coercible argument values -/

section bridges
variable (fs : Fs) (h : Heap)

theorem exec_dns_question' (name qt qc : Val) (nb : Bytes) (nt nc : Nat) (hn : name.toBuf? = some nb)
    (ht : qt.toNat? = some nt) (hc : qc.toNat? = some nc) :
    exec fs "dns::question" none ⟨[name, qt, qc], []⟩ h =
      .ok (.str (nb ++ be16 (nt % 65536) ++ be16 (nc % 65536)), h) := by
  exec_arm; simp [toU16_of ht, toU16_of hc, hn]

theorem exec_dns_answer' (name aty ac ttl : Val) (nb : Bytes) (nt nc nttl : Nat) (hn : name.toBuf? = some nb)
    (ht : aty.toNat? = some nt) (hc : ac.toNat? = some nc) (hl : ttl.toNat? = some nttl)
    (x : List Val) (bufs : List Bytes) (hx : x.mapM (m := Option) Val.toBuf? = some bufs) :
    exec fs "dns::answer" none ⟨[name, aty, ac, ttl], x⟩ h =
      .ok (.str (nb ++ be16 (nt % 65536) ++ be16 (nc % 65536) ++ be32 (nttl % 4294967296) ++
        be16 bufs.flatten.length ++ bufs.flatten), h) := by
  exec_arm
  simp [joinExtra_nil x bufs hx, toU16_of ht, toU16_of hc, toU32_of hl, hn]

theorem exec_udp_hdr (src dst len csum : Val) (ns nd nl nc : Nat) (h1 : src.toNat? = some ns)
    (h2 : dst.toNat? = some nd) (h3 : len.toNat? = some nl) (h4 : csum.toNat? = some nc) :
    exec fs "ipv4::udp::hdr" none ⟨[src, dst, len, csum], []⟩ h =
      .ok (.str (be16 (ns % 65536) ++ be16 (nd % 65536) ++ be16 ((nl % 65536 + 8) % 65536) ++
        be16 (nc % 65536)), h) := by
  exec_arm
  simp [toU16_of h1, toU16_of h2, toU16_of h3, toU16_of h4, UdpHdr.serialize]

end bridges

end Resynth.Wire
