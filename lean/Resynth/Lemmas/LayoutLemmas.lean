import Resynth.Lemmas.InterpInvCli
import Resynth.Lemmas.InterpSubst
import Resynth.Lemmas.LexLemmas
/-!
# Lemmas for the layout laws of `processFile` (C13Layout)

* `splitLines`: final newline, CR LF terminators, appending to a source that ends with a newline;
* `planLines`: appending lines, blank lines;
* `runBatches` against `addStmts` on the flattened batches; regrouping of batches.
-/
namespace Resynth

/-! ## `splitLines` -/

/-- a final `\n` after a non-empty last line that does not end in `\r` adds nothing -/
theorem splitLinesAux_snoc_lf : ∀ (src cur : Bytes), (src ≠ [] ∨ cur ≠ []) → src.getLast? ≠ some 10 →
    (cur.reverse ++ src).getLast? ≠ some 13 →
    splitLinesAux (src ++ [10]) cur = splitLinesAux src cur
  | [], cur, hne, _, h13 => by
    have hc : cur ≠ [] := by rcases hne with h | h; exact absurd rfl h; exact h
    have hh : ¬ cur.head? = some 13 := by simpa using h13
    simp [splitLinesAux, hc, hh]
  | b :: rest, cur, _, h10, h13 => by
    by_cases hb : b = 10
    · subst hb
      have hr : rest ≠ [] := by rintro rfl; simp at h10
      simp only [List.cons_append, splitLinesAux, beq_self_eq_true, if_true]
      congr 1
      cases rest with
      | nil => exact absurd rfl hr
      | cons c r =>
        refine splitLinesAux_snoc_lf (c :: r) [] (.inl hr) ?_ ?_
        · simpa [List.getLast?_cons_cons] using h10
        · simpa [List.getLast?_cons_cons] using h13
    · have hb' : (b == 10) = false := by simpa using hb
      simp only [List.cons_append, splitLinesAux, hb', Bool.false_eq_true, if_false]
      refine splitLinesAux_snoc_lf rest (b :: cur) (.inr (by simp)) ?_ ?_
      · cases rest with
        | nil => simp
        | cons c r => simpa [List.getLast?_cons_cons] using h10
      · simpa using h13

/-- a final `\r\n` after a non-empty last line adds nothing (even when that line ends in `\r`: the
line terminator strips exactly one `\r`) -/
theorem splitLinesAux_snoc_crlf : ∀ (src cur : Bytes), (src ≠ [] ∨ cur ≠ []) → src.getLast? ≠ some 10 →
    splitLinesAux (src ++ [13, 10]) cur = splitLinesAux src cur
  | [], cur, hne, _ => by
    have hc : cur ≠ [] := by rcases hne with h | h; exact absurd rfl h; exact h
    simp [splitLinesAux, hc]
  | b :: rest, cur, _, h10 => by
    by_cases hb : b = 10
    · subst hb
      have hr : rest ≠ [] := by rintro rfl; simp at h10
      simp only [List.cons_append, splitLinesAux, beq_self_eq_true, if_true]
      congr 1
      refine splitLinesAux_snoc_crlf rest [] (.inl hr) ?_
      cases rest with
      | nil => exact absurd rfl hr
      | cons c r => simpa [List.getLast?_cons_cons] using h10
    · have hb' : (b == 10) = false := by simpa using hb
      simp only [List.cons_append, splitLinesAux, hb', Bool.false_eq_true, if_false]
      refine splitLinesAux_snoc_crlf rest (b :: cur) (.inr (by simp)) ?_
      cases rest with
      | nil => simp
      | cons c r => simpa [List.getLast?_cons_cons] using h10

/-- after a complete line (or at the very beginning) the remaining text is split on its own -/
theorem splitLinesAux_append : ∀ (a cur b : Bytes), a.getLast? = some 10 →
    splitLinesAux (a ++ b) cur = splitLinesAux a cur ++ splitLinesAux b []
  | [], _, _, h => by simp at h
  | x :: rest, cur, b, h => by
    by_cases hx : x = 10
    · subst hx
      simp only [List.cons_append, splitLinesAux, beq_self_eq_true, if_true]
      cases rest with
      | nil => simp [splitLinesAux]
      | cons c r =>
        rw [splitLinesAux_append (c :: r) [] b (by simpa [List.getLast?_cons_cons] using h)]
    · have hx' : (x == 10) = false := by simpa using hx
      simp only [List.cons_append, splitLinesAux, hx', Bool.false_eq_true, if_false]
      cases rest with
      | nil => exact absurd (by simpa using h) hx
      | cons c r =>
        exact splitLinesAux_append (c :: r) (x :: cur) b (by simpa [List.getLast?_cons_cons] using h)

theorem splitLines_append (a b : Bytes) (h : a = [] ∨ a.getLast? = some 10) :
    splitLines (a ++ b) = splitLines a ++ splitLines b := by
  rcases h with rfl | h
  · simp [splitLines, splitLinesAux]
  · exact splitLinesAux_append a [] b h

/-- replace every line terminator `\n` by `\r\n` -/
def crlf : Bytes → Bytes
  | [] => []
  | b :: rest => if b == 10 then 13 :: 10 :: crlf rest else b :: crlf rest

/-- no `\r\n` in the text -/
def noCRLF : Bytes → Bool
  | a :: b :: rest => !(a == 13 && b == 10) && noCRLF (b :: rest)
  | _ => true

theorem splitLinesAux_crlf : ∀ (src cur : Bytes), noCRLF src = true →
    (src.head? = some 10 → cur.head? ≠ some 13) →
    splitLinesAux (crlf src) cur = splitLinesAux src cur
  | [], _, _, _ => rfl
  | b :: rest, cur, hn, hc => by
    have hrest : noCRLF rest = true := by
      cases rest with
      | nil => rfl
      | cons c r => simp only [noCRLF, Bool.and_eq_true] at hn; exact hn.2
    by_cases hb : b = 10
    · subst hb
      have hh : (cur.head? == some 13) = false := by simpa using hc rfl
      have e : crlf (10 :: rest) = 13 :: 10 :: crlf rest := by simp [crlf]
      rw [e]
      have h13 : ((13 : UInt8) == 10) = false := by decide
      simp only [splitLinesAux, h13, Bool.false_eq_true, if_false, beq_self_eq_true, if_true,
        List.head?_cons, List.tail_cons, hh]
      congr 1
      exact splitLinesAux_crlf rest [] hrest (by simp)
    · have hb' : (b == 10) = false := by simpa using hb
      have e : crlf (b :: rest) = b :: crlf rest := by simp [crlf, hb']
      rw [e]
      simp only [splitLinesAux, hb', Bool.false_eq_true, if_false]
      refine splitLinesAux_crlf rest (b :: cur) hrest ?_
      intro h10
      cases rest with
      | nil => simp at h10
      | cons c r =>
        simp only [List.head?_cons, Option.some.injEq] at h10
        subst h10
        simp only [noCRLF, Bool.and_eq_true, Bool.not_eq_true', Bool.and_eq_false_iff] at hn
        simp only [List.head?_cons, ne_eq, Option.some.injEq]
        rcases hn.1 with h | h
        · simpa using h
        · simp at h

/-! ## `planLines`: appending lines; blank lines -/

theorem planLines_append : ∀ (lines : List Bytes) (f : Front) (lno : Nat) (more : List Bytes),
    planLines f lno (lines ++ more) =
      match (planLines f lno lines).2 with
      | .error o => ((planLines f lno lines).1, .error o)
      | .ok f' => ((planLines f lno lines).1 ++ (planLines f' (lno + lines.length) more).1,
                   (planLines f' (lno + lines.length) more).2)
  | [], f, lno, more => by simp [planLines]
  | raw :: rest, f, lno, more => by
    simp only [List.cons_append, planLines]
    cases utf8Decode raw with
    | none => rfl
    | some ln =>
      simp only []
      cases Lex.line lno f.pending ln with
      | error col => rfl
      | ok lo =>
        simp only []
        cases feedToks f.cfg lo.toks with
        | error ol => cases ol <;> rfl
        | ok cfg =>
          simp only []
          rw [planLines_append rest _ (lno + 1) more]
          have e : lno + 1 + rest.length = lno + (rest.length + 1) := by omega
          simp only [List.length_cons, e]
          cases (planLines ⟨lo.pending, ⟨lno, lo.endCol⟩, cfg.takeResults.2⟩ (lno + 1) rest).2 with
          | error o => rfl
          | ok f' => simp

/-- between lines the parser holds no finished statements: `get_results` took them -/
theorem planLines_ok_stmts : ∀ (lines : List Bytes) (f : Front) (lno : Nat) (f' : Front),
    (planLines f lno lines).2 = .ok f' → f.cfg.stmts = [] → f'.cfg.stmts = []
  | [], f, lno, f', h, hs => by
    simp only [planLines, Except.ok.injEq] at h; subst h; exact hs
  | raw :: rest, f, lno, f', h, _ => by
    simp only [planLines] at h
    cases hd : utf8Decode raw with
    | none => simp [hd] at h
    | some ln =>
      simp only [hd] at h
      cases hl : Lex.line lno f.pending ln with
      | error col => simp [hl] at h
      | ok lo =>
        simp only [hl] at h
        cases hf : feedToks f.cfg lo.toks with
        | error ol => cases ol <;> simp [hf] at h
        | ok cfg =>
          simp only [hf] at h
          exact planLines_ok_stmts rest _ _ f' h rfl

/-- a line that decodes and consists of whitespace and/or a comment -/
def blankLine (raw : Bytes) : Bool :=
  match utf8Decode raw with
  | some ln => Lex.blankTail ln.toList
  | none => false

/-- where the lexer stands after line `lno` with content `raw`: `Lexer::loc()` -/
def lineEnd (lno : Nat) (raw : Bytes) : Loc :=
  match utf8Decode raw with
  | some ln => ⟨lno, Lex.utf8Len ln.toList + 1⟩
  | none => Loc.nil

/-- where the lexer stands after the lines `ls` (the first of which has number `lno`); `l` if there
are none -/
def lastEnd (l : Loc) (lno : Nat) : List Bytes → Loc
  | [] => l
  | raw :: rest => lastEnd (lineEnd lno raw) (lno + 1) rest

theorem planLines_blanks : ∀ (blanks : List Bytes) (f : Front) (lno : Nat),
    (∀ b ∈ blanks, blankLine b = true) → f.cfg.stmts = [] →
    planLines f lno blanks =
      (List.replicate blanks.length [], .ok ⟨f.pending, lastEnd f.lexLoc lno blanks, f.cfg⟩)
  | [], f, lno, _, _ => rfl
  | raw :: rest, f, lno, hb, hs => by
    have h1 := hb raw (by simp)
    unfold blankLine at h1
    cases hd : utf8Decode raw with
    | none => simp [hd] at h1
    | some ln =>
      simp only [hd] at h1
      have htr : f.cfg.takeResults = ([], f.cfg) := by
        obtain ⟨p, l, ⟨cs, ck, cm⟩⟩ := f
        simp only at hs; subst hs; rfl
      simp only [planLines, hd, Lex.line_blank lno f.pending ln h1, feedToks, htr]
      rw [planLines_blanks rest ⟨f.pending, ⟨lno, Lex.utf8Len ln.toList + 1⟩, f.cfg⟩ (lno + 1)
        (fun b hb' => hb b (by simp [hb'])) hs]
      simp [lastEnd, lineEnd, hd, List.replicate_succ]

theorem lastEnd_append : ∀ (a b : List Bytes) (l : Loc) (lno : Nat),
    lastEnd l lno (a ++ b) = lastEnd (lastEnd l lno a) (lno + a.length) b
  | [], _, _, _ => rfl
  | x :: a, b, l, lno => by
    simp only [List.cons_append, lastEnd, List.length_cons]
    rw [lastEnd_append a b _ (lno + 1)]
    congr 1; omega

/-- when all lines lex, the lexer ends up at the end of the last one -/
theorem planLines_lexLoc : ∀ (lines : List Bytes) (f : Front) (lno : Nat) (f' : Front),
    (planLines f lno lines).2 = .ok f' → f'.lexLoc = lastEnd f.lexLoc lno lines
  | [], f, lno, f', h => by
    simp only [planLines, Except.ok.injEq] at h; subst h; rfl
  | raw :: rest, f, lno, f', h => by
    simp only [planLines] at h
    cases hd : utf8Decode raw with
    | none => simp [hd] at h
    | some ln =>
      simp only [hd] at h
      cases hl : Lex.line lno f.pending ln with
      | error col => simp [hl] at h
      | ok lo =>
        simp only [hl] at h
        cases hf : feedToks f.cfg lo.toks with
        | error ol => cases ol <;> simp [hf] at h
        | ok cfg =>
          simp only [hf] at h
          rw [planLines_lexLoc rest _ _ f' h]
          have he : lo.endCol = Lex.utf8Len ln.toList + 1 := by
            simp only [Lex.line] at hl
            split at hl
            · cases hl
            · cases hl; rfl
          simp only [lastEnd, lineEnd, hd, he]

/-- blank lines after the last line: empty batches, and the lexer moves to the end of the last of
them -/
theorem planLines_append_blanks (lines blanks : List Bytes) (f : Front) (lno : Nat)
    (hb : ∀ b ∈ blanks, blankLine b = true) (hs : f.cfg.stmts = []) :
    planLines f lno (lines ++ blanks) =
      match (planLines f lno lines).2 with
      | .error o => ((planLines f lno lines).1, .error o)
      | .ok f' => ((planLines f lno lines).1 ++ List.replicate blanks.length [],
                   .ok ⟨f'.pending, lastEnd f'.lexLoc (lno + lines.length) blanks, f'.cfg⟩) := by
  rw [planLines_append]
  cases hr : (planLines f lno lines).2 with
  | error o => rfl
  | ok f' =>
    simp only []
    rw [planLines_blanks blanks f' _ hb (planLines_ok_stmts lines f lno f' hr hs)]

/-- where the lexer stands at the end of the file (`Loc.nil` for the empty file) -/
def eofLoc (src : Bytes) : Loc := lastEnd Loc.nil 1 (splitLines src)

/-! ## batches -/

theorem runBatches_replicate_nil (env : Env) (st : PState) : ∀ n : Nat,
    runBatches env st (List.replicate n []) = .ok st
  | 0 => rfl
  | n + 1 => by
    simp only [List.replicate_succ, runBatches, addStmtsKeep, keepResult]
    exact runBatches_replicate_nil env st n

/-- empty batches are irrelevant, whatever happens -/
theorem runBatches_filter (env : Env) (bs : List (List Stmt)) (st : PState) :
    runBatches env st (bs.filter (fun b => !b.isEmpty)) = runBatches env st bs := by
  rw [runBatches_flatten, runBatches_flatten]
  congr 2
  induction bs with
  | nil => rfl
  | cons b bs ih =>
    cases b with
    | nil => simpa using ih
    | cons s ss => simp [ih]

/-! ## runs: regrouping the statements -/

theorem execFrom_filter (env : Env) (fin : Option Outcome) (st : PState) (bs : List (List Stmt)) :
    execFrom env fin st (bs.filter (fun b => !b.isEmpty)) = execFrom env fin st bs := by
  unfold execFrom; rw [runBatches_filter]

/-- only the sequence of statements matters, not how it is cut into batches — whether or not a statement
fails: a failing run stops in the state in which the failing statement was executed, in either
grouping -/
theorem execFrom_regroup {env : Env} {fin : Option Outcome} {st : PState} {bs cs : List (List Stmt)}
    (h : bs.flatten = cs.flatten) : execFrom env fin st bs = execFrom env fin st cs := by
  rw [execFrom_flatten env fin st bs, execFrom_flatten env fin st cs, h]

/-- forget the position of a failure -/
def Outcome.eraseLoc : Outcome → Outcome
  | .failure c d _ => .failure c d Loc.nil
  | o => o

/-- two batches stop alike: in related states, for the same reason (up to the position of the error) -/
def KeptSim (k k' : Kept) : Prop :=
  Sem.Sim (fun _ => False) k.1 k'.1 ∧
  match k.2, k'.2 with
  | none, none => True
  | some (.inl (e, _)), some (.inl (e', _)) => e = e'
  | some (.inr x), some (.inr x') => x = x'
  | _, _ => False

/-- statement lists that agree up to source positions, run one statement at a time from related states:
the same statement fails (if any) for the same reason, in related states -/
theorem addStmtsKeep_sim_erase (env : Env) : ∀ (ss ss' : List Stmt),
    ss.map Stmt.erase = ss'.map Stmt.erase → ∀ {st st' : PState}, Sem.Sim (fun _ => False) st st' →
    KeptSim (addStmtsKeep env st ss) (addStmtsKeep env st' ss')
  | [], [], _, _, _, h => ⟨h, trivial⟩
  | [], _ :: _, he, _, _, _ => by simp at he
  | _ :: _, [], he, _, _, _ => by simp at he
  | s :: ss, s' :: ss', he, st, st', h => by
    simp only [List.map_cons, List.cons.injEq] at he
    have h1 := Sem.addStmts_sim_erase (skip := fun _ => False) env (ss := [s]) (ss' := [s'])
      (by simp [he.1]) h (fun _ _ _ hy => hy.elim)
    simp only [addStmts] at h1
    simp only [addStmtsKeep]
    cases ha : addStmt env st s <;> cases hb : addStmt env st' s' <;> rw [ha, hb] at h1 <;>
      simp only [Res.bind_ok_eq, Res.bind_err_eq, Res.bind_panic_eq] at h1 <;> cases h1
    · rename_i hab; exact addStmtsKeep_sim_erase env ss ss' he.2 hab
    · exact ⟨h, rfl⟩
    · exact ⟨h, rfl⟩

/-- Statement lists that agree up to source positions (the same program laid out differently): the
same outcome up to the position of the error, the same output file, the same records and the same
number of warnings — whether or not a statement fails. -/
theorem execFrom_erase {env : Env} {fin fin' : Option Outcome} {st : PState} {bs cs : List (List Stmt)}
    (h : bs.flatten.map Stmt.erase = cs.flatten.map Stmt.erase)
    (hf : fin.map Outcome.eraseLoc = fin'.map Outcome.eraseLoc) :
    (execFrom env fin st bs).outcome.eraseLoc = (execFrom env fin' st cs).outcome.eraseLoc ∧
    (execFrom env fin st bs).file = (execFrom env fin' st cs).file ∧
    (execFrom env fin st bs).emitted = (execFrom env fin' st cs).emitted ∧
    (execFrom env fin st bs).warnings.length = (execFrom env fin' st cs).warnings.length := by
  have hk := addStmtsKeep_sim_erase env _ _ h (Sem.Sim.refl st)
  unfold execFrom
  rw [runBatches_flatten, runBatches_flatten]
  generalize addStmtsKeep env st bs.flatten = ka at hk ⊢
  generalize addStmtsKeep env st cs.flatten = kb at hk ⊢
  rcases ka with ⟨a, _ | ⟨⟨e, l⟩ | x⟩⟩ <;> rcases kb with ⟨b, _ | ⟨⟨e', l'⟩ | x'⟩⟩ <;>
    obtain ⟨hab, hr⟩ := hk <;> (try exact hr.elim) <;> replace hab : Sem.Sim (fun _ => False) a b := hab
  · have hfl : a.wr.flushBuf = b.wr.flushBuf := by rw [hab.wr]
    simp only [keepResult]
    cases fin with
    | some o =>
      cases fin' with
      | none => simp at hf
      | some o' =>
        simp only [Option.map_some, Option.some.injEq] at hf
        simp only [finish, hab.wr, hab.emitted, hab.nwarn, hf, and_self]
    | none =>
      cases fin' with
      | some o' => simp at hf
      | none =>
        simp only [hfl]
        split <;> simp only [finish, hab.emitted, hab.nwarn, and_self]
  · subst hr
    simp only [keepResult, finish, hab.wr, hab.emitted, hab.nwarn, Outcome.eraseLoc, and_self]
  · subst hr
    simp only [keepResult, finish, hab.wr, hab.emitted, hab.nwarn, Outcome.eraseLoc, and_self]

end Resynth
