import Resynth.Model.Lit
import Resynth.Spec.StrLit
/-!
# String-literal decoding (`decodeStr`, model of `Buf::from_str`) against `Spec/StrLit.lean`

* `decode_plain` – text without `|` decodes to its UTF-8 bytes;
* `decode_section` (+ `_unterminated`, `decode_unterminated_odd`) – every rendering of a hex
  section (any interleaving of fillers, either digit case) decodes to the bytes it denotes;
* `decodeStrAux_acc`, `decodeStrAux_append`, `decodeStrAux_none_append`, `decode_append`,
  `decode_append_general`, `decode_append_hex` – compositionality;
* `hex_section_odd_rejected`, `hex_section_badchar_rejected` – rejection (C17 string part);
* `every_bytes_expressible` – surjectivity.
-/
namespace Resynth.LitDecode
open Resynth Resynth.Spec

/-! ## UTF-8 bridge -/

theorem byteArray_toList_loop (bs : ByteArray) (i : Nat) (r : List UInt8) :
    ByteArray.toList.loop bs i r = r.reverse ++ bs.data.toList.drop i := by
  fun_induction ByteArray.toList.loop bs i r with
  | case1 i r h ih =>
    rw [ih]
    obtain ⟨data⟩ := bs
    have h' : i < data.toList.length := h
    rw [List.drop_eq_getElem_cons h']
    have h2 : i < data.size := h
    simp [ByteArray.get!, getElem!_pos, h2]
  | case2 i r h =>
    obtain ⟨data⟩ := bs
    have h' : data.toList.length ≤ i := Nat.le_of_not_lt h
    simp [List.drop_eq_nil_of_le h']

theorem byteArray_toList (bs : ByteArray) : bs.toList = bs.data.toList := by
  simp [ByteArray.toList, byteArray_toList_loop]

theorem toByteArray_toList (l : List UInt8) : l.toByteArray.toList = l := by
  rw [byteArray_toList, List.toList_data_toByteArray]

/-- the model's per-character encoder is core's `String.utf8EncodeChar` -/
theorem utf8_eq (c : Char) : utf8 c = String.utf8EncodeChar c := by
  unfold utf8
  rw [String.singleton_eq_ofList, String.toUTF8, String.toByteArray_ofList, List.utf8Encode,
    toByteArray_toList]
  simp

/-- UTF-8 of a whole string is the concatenation of the per-character encodings -/
theorem toUTF8_toList (s : String) : s.toUTF8.toList = s.toList.flatMap utf8 := by
  rw [String.toUTF8, ← String.utf8Encode_toList, List.utf8Encode, toByteArray_toList]
  congr 1
  funext c
  exact (utf8_eq c).symm

theorem utf8Bytes_eq_flatMap (cs : List Char) : Spec.utf8Bytes cs = cs.flatMap utf8 := by
  rw [Spec.utf8Bytes, toUTF8_toList, String.toList_ofList]

/-! ## Character classes -/

theorem isFiller_eq (c : Char) : isFiller c = (isUniWhitespace c || isHexSep c) := rfl

theorem nibChar_props : ∀ n : Fin 16, ∀ u : Bool,
    hexVal (nibChar n u) = some n.val ∧ isUniWhitespace (nibChar n u) = false ∧
    isHexSep (nibChar n u) = false ∧ (nibChar n u == '|') = false := by decide

theorem isFiller_ne_bar {c : Char} (h : isFiller c = true) : c ≠ '|' := by
  rintro rfl
  revert h
  decide

/-! ## One-step behaviour of the scanner -/

theorem step_plain_bar (cs : List Char) (hi : Option Nat) (acc : Bytes) :
    decodeStrAux ('|' :: cs) false hi acc = decodeStrAux cs true none acc := by
  simp [decodeStrAux]

theorem step_plain_char {c : Char} (hc : c ≠ '|') (cs : List Char) (hi : Option Nat)
    (acc : Bytes) :
    decodeStrAux (c :: cs) false hi acc = decodeStrAux cs false none (acc ++ utf8 c) := by
  simp [decodeStrAux, hc]

theorem step_hex_filler {c : Char} (hc : isFiller c = true) (cs : List Char) (hi : Option Nat)
    (acc : Bytes) :
    decodeStrAux (c :: cs) true hi acc = decodeStrAux cs true hi acc := by
  rw [isFiller_eq] at hc
  cases hi <;> rw [decodeStrAux, if_pos hc]

theorem step_hex_bar_none (cs : List Char) (acc : Bytes) :
    decodeStrAux ('|' :: cs) true none acc = decodeStrAux cs false none acc := by
  rw [decodeStrAux, if_neg (by decide)]
  simp

theorem step_hex_bar_some (cs : List Char) (h : Nat) (acc : Bytes) :
    decodeStrAux ('|' :: cs) true (some h) acc = none := by
  rw [decodeStrAux, if_neg (by decide)]
  simp

theorem step_hex_nib_none (n : Fin 16) (u : Bool) (cs : List Char) (acc : Bytes) :
    decodeStrAux (nibChar n u :: cs) true none acc = decodeStrAux cs true (some n.val) acc := by
  obtain ⟨h1, h2, h3, h4⟩ := nibChar_props n u
  rw [decodeStrAux]
  simp [h1, h2, h3, h4]

theorem step_hex_nib_some (n : Fin 16) (u : Bool) (cs : List Char) (h : Nat) (acc : Bytes) :
    decodeStrAux (nibChar n u :: cs) true (some h) acc =
      decodeStrAux cs true none (acc ++ [b8 (h * 16 + n.val)]) := by
  obtain ⟨h1, h2, h3, h4⟩ := nibChar_props n u
  rw [decodeStrAux]
  simp [h1, h2, h3, h4]

theorem step_hex_bad {c : Char} (hf : isFiller c = false) (hb : c ≠ '|') (hx : hexVal c = none)
    (cs : List Char) (hi : Option Nat) (acc : Bytes) :
    decodeStrAux (c :: cs) true hi acc = none := by
  rw [isFiller_eq] at hf
  cases hi <;> rw [decodeStrAux] <;> simp [hf, hb, hx]

/-- in plain mode the pending-nibble component of the state is irrelevant -/
theorem plain_hi_irrelevant (cs : List Char) (hi hi' : Option Nat) (acc : Bytes) :
    decodeStrAux cs false hi acc = decodeStrAux cs false hi' acc := by
  cases cs with
  | nil => simp [decodeStrAux]
  | cons c cs => simp [decodeStrAux]

/-! ## 1. Plain text -/

theorem plain_aux (cs : List Char) (h : ∀ c ∈ cs, c ≠ '|') (hi : Option Nat) (acc : Bytes) :
    decodeStrAux cs false hi acc = some (acc ++ cs.flatMap utf8) := by
  induction cs generalizing hi acc with
  | nil => simp [decodeStrAux]
  | cons c cs ih =>
    rw [step_plain_char (h c (by simp)), ih (fun x hx => h x (by simp [hx]))]
    simp

/-- text without `|` decodes to its UTF-8 encoding -/
theorem decode_plain (s : String) (h : ∀ c ∈ s.toList, c ≠ '|') :
    decodeStr s = some s.toUTF8.toList := by
  rw [decodeStr, plain_aux _ h, toUTF8_toList]
  simp

/-- the same, on character lists and with the spec's `utf8Bytes` -/
theorem decode_plain_chars (cs : List Char) (h : ∀ c ∈ cs, c ≠ '|') :
    decodeStr (String.ofList cs) = some (Spec.utf8Bytes cs) := by
  rw [Spec.utf8Bytes, ← decode_plain]
  simpa using h

/-! ## 2. Hex sections -/

/-- pairing with an explicit pending nibble: the bytes produced and the nibble left over -/
def pairFrom : Option (Fin 16) → List (Fin 16) → Bytes × Option (Fin 16)
  | hi, [] => ([], hi)
  | none, n :: r => pairFrom (some n) r
  | some h, n :: r => (b8 (h.val * 16 + n.val) :: (pairFrom none r).1, (pairFrom none r).2)

theorem pairFrom_two (hi lo : Fin 16) (r : List (Fin 16)) :
    pairFrom none (hi :: lo :: r) =
      (b8 (hi.val * 16 + lo.val) :: (pairFrom none r).1, (pairFrom none r).2) := by
  simp [pairFrom]

theorem pairFrom_of_pairUp (ns : List (Fin 16)) (bs : Bytes) (h : pairUp ns = some bs) :
    pairFrom none ns = (bs, none) := by
  induction ns using pairUp.induct generalizing bs with
  | case1 => simp_all [pairUp, pairFrom]
  | case2 => simp [pairUp] at h
  | case3 hi lo r ih =>
    rw [pairUp] at h
    cases hr : pairUp r with
    | none => simp [hr] at h
    | some bs' =>
      simp [hr] at h
      rw [pairFrom_two, ih bs' hr, ← h]

theorem pairFrom_snoc_of_pairUp (ns : List (Fin 16)) (n : Fin 16) (bs : Bytes)
    (h : pairUp ns = some bs) : pairFrom none (ns ++ [n]) = (bs, some n) := by
  induction ns using pairUp.induct generalizing bs with
  | case1 => simp_all [pairUp, pairFrom]
  | case2 => simp [pairUp] at h
  | case3 hi lo r ih =>
    rw [pairUp] at h
    cases hr : pairUp r with
    | none => simp [hr] at h
    | some bs' =>
      simp [hr] at h
      rw [List.cons_append, List.cons_append, pairFrom_two, ih bs' hr, ← h]

theorem pairFrom_odd (ns : List (Fin 16)) (h : ns.length % 2 = 1) :
    ∃ k, (pairFrom none ns).2 = some k := by
  induction ns using pairUp.induct with
  | case1 => simp at h
  | case2 n => exact ⟨n, by simp [pairFrom]⟩
  | case3 hi lo r ih =>
    rw [pairFrom_two]
    exact ih (by simp at h; omega)

theorem pairUp_none_iff_odd (ns : List (Fin 16)) : pairUp ns = none ↔ ns.length % 2 = 1 := by
  induction ns using pairUp.induct with
  | case1 => simp [pairUp]
  | case2 n => simp [pairUp]
  | case3 hi lo r ih =>
    rw [pairUp]
    simp only [Option.map_eq_none_iff, ih, List.length_cons]
    omega

/-- Scanning the rendering of a well-formed section body from hex mode: the scanner ends in hex
mode having appended exactly the paired bytes, with exactly the unpaired nibble pending. -/
theorem section_scan (items : List HexItem) (hf : ∀ c, HexItem.fill c ∈ items → isFiller c = true)
    (rest : List Char) (hi : Option (Fin 16)) (acc : Bytes) :
    decodeStrAux (renderItems items ++ rest) true (hi.map Fin.val) acc =
      decodeStrAux rest true ((pairFrom hi (nibbles items)).2.map Fin.val)
        (acc ++ (pairFrom hi (nibbles items)).1) := by
  induction items generalizing hi acc with
  | nil => cases hi <;> simp [renderItems, nibbles, pairFrom]
  | cons it items ih =>
    have hf' : ∀ c, HexItem.fill c ∈ items → isFiller c = true :=
      fun c hc => hf c (List.mem_cons_of_mem _ hc)
    cases it with
    | fill c =>
      have hc : isFiller c = true := hf c (by simp)
      have := ih hf' hi acc
      simp only [renderItems, List.map_cons, renderItem, List.cons_append, nibbles] at this ⊢
      rw [step_hex_filler hc, this]
    | nib n u =>
      cases hi with
      | none =>
        have := ih hf' (some n) acc
        simp only [renderItems, List.map_cons, renderItem, List.cons_append, nibbles,
          Option.map_none, Option.map_some, pairFrom] at this ⊢
        rw [step_hex_nib_none, this]
      | some h =>
        have := ih hf' none (acc ++ [b8 (h.val * 16 + n.val)])
        simp only [renderItems, List.map_cons, renderItem, List.cons_append, nibbles,
          Option.map_none, Option.map_some, pairFrom] at this ⊢
        rw [step_hex_nib_some, this]
        simp

/-- A closed hex section decodes to the bytes its body denotes, for every interleaving of
fillers between and inside digit pairs and either digit case. -/
theorem decode_section (items : List HexItem) (bs : Bytes)
    (hf : ∀ c, HexItem.fill c ∈ items → isFiller c = true)
    (hp : pairUp (nibbles items) = some bs) :
    decodeStr (String.ofList ('|' :: renderItems items ++ ['|'])) = some bs := by
  have := section_scan items hf ['|'] none []
  rw [pairFrom_of_pairUp _ _ hp] at this
  simp only [Option.map_none, List.nil_append] at this
  rw [decodeStr, String.toList_ofList, List.cons_append, step_plain_bar, this, step_hex_bar_none]
  simp [decodeStrAux]

theorem decode_section_of_rendering (items : List HexItem) (bs : Bytes) (h : Rendering items bs) :
    decodeStr (String.ofList ('|' :: renderItems items ++ ['|'])) = some bs :=
  decode_section items bs h.1 h.2

/-- The model (like the implementation) accepts a section that is never closed. -/
theorem decode_section_unterminated (items : List HexItem) (bs : Bytes)
    (hf : ∀ c, HexItem.fill c ∈ items → isFiller c = true)
    (hp : pairUp (nibbles items) = some bs) :
    decodeStr (String.ofList ('|' :: renderItems items)) = some bs := by
  have := section_scan items hf [] none []
  rw [pairFrom_of_pairUp _ _ hp] at this
  simp only [Option.map_none, List.nil_append, List.append_nil] at this
  rw [decodeStr, String.toList_ofList, step_plain_bar, this]
  simp [decodeStrAux]

/-- An unterminated section with an odd number of digits is accepted and the dangling last
nibble `n` is silently dropped. -/
theorem decode_unterminated_odd (items : List HexItem) (ns : List (Fin 16)) (n : Fin 16)
    (bs : Bytes)
    (hf : ∀ c, HexItem.fill c ∈ items → isFiller c = true)
    (hn : nibbles items = ns ++ [n]) (hp : pairUp ns = some bs) :
    decodeStr (String.ofList ('|' :: renderItems items)) = some bs := by
  have := section_scan items hf [] none []
  rw [hn, pairFrom_snoc_of_pairUp _ _ _ hp] at this
  simp only [Option.map_none, List.nil_append, List.append_nil] at this
  rw [decodeStr, String.toList_ofList, step_plain_bar, this]
  simp [decodeStrAux]

/-! ## 3. Compositionality -/

/-- final scanner state (mode, pending nibble) after `xs`, `none` on error -/
def decodeState : List Char → Bool → Option Nat → Option (Bool × Option Nat)
  | [], m, hi => some (m, hi)
  | c :: cs, false, _ =>
    if c == '|' then decodeState cs true none else decodeState cs false none
  | c :: cs, true, hi =>
    if isUniWhitespace c || isHexSep c then decodeState cs true hi
    else if c == '|' then
      match hi with
      | some _ => none
      | none => decodeState cs false none
    else match hexVal c with
      | none => none
      | some d => match hi with
        | none => decodeState cs true (some d)
        | some _ => decodeState cs true none

/-- mode after scanning `cs` starting in mode `m` (`true` = hex): toggles at every `|` -/
def modeAfter (m : Bool) (cs : List Char) : Bool :=
  cs.foldl (fun m c => if c == '|' then !m else m) m

/-- scanning `cs` from plain mode ends in plain mode (the number of `|` is even) -/
def endsPlain (cs : List Char) : Bool := modeAfter false cs == false

theorem decodeStrAux_acc' (xs : List Char) (m : Bool) (hi : Option Nat) (acc' acc : Bytes) :
    decodeStrAux xs m hi (acc' ++ acc) = (decodeStrAux xs m hi acc).map (acc' ++ ·) := by
  fun_induction decodeStrAux xs m hi acc with
  | case1 => simp [decodeStrAux]
  | case2 c cs hi acc h ih => rw [decodeStrAux, if_pos h, ih]
  | case3 c cs hi acc h ih => rw [decodeStrAux, if_neg h, List.append_assoc, ih]
  | case4 c cs hi acc h ih => cases hi <;> rw [decodeStrAux, if_pos h, ih]
  | case5 c cs acc h1 h2 d => rw [decodeStrAux, if_neg h1, if_pos h2]; rfl
  | case6 c cs acc h1 h2 ih => rw [decodeStrAux, if_neg h1, if_pos h2]; exact ih
  | case7 c cs hi acc h1 h2 hx => cases hi <;> rw [decodeStrAux, if_neg h1, if_neg h2, hx] <;> rfl
  | case8 c cs acc h1 h2 d hx ih => rw [decodeStrAux, if_neg h1, if_neg h2, hx]; exact ih
  | case9 c cs acc h1 h2 d hx h ih =>
    rw [decodeStrAux, if_neg h1, if_neg h2, hx]
    simp only
    rw [List.append_assoc, ih]

/-- the accumulator is only ever appended to -/
theorem decodeStrAux_acc (xs : List Char) (m : Bool) (hi : Option Nat) (acc : Bytes) :
    decodeStrAux xs m hi acc = (decodeStrAux xs m hi []).map (acc ++ ·) := by
  simpa using decodeStrAux_acc' xs m hi acc []

/-- state-passing form of scanning a concatenation (accumulator threaded through) -/
theorem decodeStrAux_append' (xs ys : List Char) (m : Bool) (hi : Option Nat) (acc : Bytes) :
    decodeStrAux (xs ++ ys) m hi acc =
      match decodeState xs m hi, decodeStrAux xs m hi acc with
      | some (m', hi'), some out => decodeStrAux ys m' hi' out
      | _, _ => none := by
  fun_induction decodeStrAux xs m hi acc with
  | case1 => simp [decodeState]
  | case2 c cs hi acc h ih => simp only [List.cons_append, decodeStrAux, decodeState, if_pos h, ih]
  | case3 c cs hi acc h ih => simp only [List.cons_append, decodeStrAux, decodeState, if_neg h, ih]
  | case4 c cs hi acc h ih =>
    cases hi <;> simp only [List.cons_append, decodeStrAux, decodeState, if_pos h, ih]
  | case5 c cs acc h1 h2 d =>
    simp only [List.cons_append, decodeStrAux, decodeState, if_neg h1, if_pos h2]
  | case6 c cs acc h1 h2 ih =>
    simp only [List.cons_append, decodeStrAux, decodeState, if_neg h1, if_pos h2, ih]
  | case7 c cs hi acc h1 h2 hx =>
    cases hi <;> simp only [List.cons_append, decodeStrAux, decodeState, if_neg h1, if_neg h2, hx]
  | case8 c cs acc h1 h2 d hx ih =>
    simp only [List.cons_append, decodeStrAux, decodeState, if_neg h1, if_neg h2, hx, ih]
  | case9 c cs acc h1 h2 d hx h ih =>
    simp only [List.cons_append, decodeStrAux, decodeState, if_neg h1, if_neg h2, hx, ih]

/-- scanning `xs ++ ys`: scan `xs`, then continue on `ys` from the state `xs` ended in -/
theorem decodeStrAux_append (xs ys : List Char) (m : Bool) (hi : Option Nat) (acc : Bytes) :
    decodeStrAux (xs ++ ys) m hi acc =
      match decodeState xs m hi, decodeStrAux xs m hi [] with
      | some (m', hi'), some out => decodeStrAux ys m' hi' (acc ++ out)
      | _, _ => none := by
  rw [decodeStrAux_append', decodeStrAux_acc xs]
  cases decodeState xs m hi <;> cases decodeStrAux xs m hi [] <;> rfl

/-- the scanner fails exactly when the state tracker fails, whatever the accumulator -/
theorem decodeStrAux_eq_none_iff (xs : List Char) (m : Bool) (hi : Option Nat) (acc : Bytes) :
    decodeStrAux xs m hi acc = none ↔ decodeState xs m hi = none := by
  fun_induction decodeStrAux xs m hi acc with
  | case1 => simp [decodeState]
  | case2 c cs hi acc h ih => simp only [decodeState, if_pos h, ih]
  | case3 c cs hi acc h ih => simp only [decodeState, if_neg h, ih]
  | case4 c cs hi acc h ih => cases hi <;> simp only [decodeState, if_pos h, ih]
  | case5 c cs acc h1 h2 d => simp only [decodeState, if_neg h1, if_pos h2]
  | case6 c cs acc h1 h2 ih => simp only [decodeState, if_neg h1, if_pos h2, ih]
  | case7 c cs hi acc h1 h2 hx => cases hi <;> simp only [decodeState, if_neg h1, if_neg h2, hx]
  | case8 c cs acc h1 h2 d hx ih => simp only [decodeState, if_neg h1, if_neg h2, hx, ih]
  | case9 c cs acc h1 h2 d hx h ih => simp only [decodeState, if_neg h1, if_neg h2, hx, ih]

/-- errors are sticky: no continuation can repair a failed prefix -/
theorem decodeStrAux_none_append (xs ys : List Char) (m : Bool) (hi : Option Nat) (acc : Bytes)
    (h : decodeStrAux xs m hi acc = none) : decodeStrAux (xs ++ ys) m hi acc = none := by
  rw [decodeStrAux_append', h]
  cases decodeState xs m hi <;> rfl

theorem decodeStr_none_append (a b : String) (h : decodeStr a = none) :
    decodeStr (a ++ b) = none := by
  rw [decodeStr, String.toList_append]
  exact decodeStrAux_none_append _ _ _ _ _ h

theorem modeAfter_cons (m : Bool) (c : Char) (cs : List Char) :
    modeAfter m (c :: cs) = modeAfter (if c == '|' then !m else m) cs := rfl

/-- the mode component of the final state is determined by the parity of `|` alone -/
theorem decodeState_mode (xs : List Char) (m : Bool) (hi : Option Nat) (m' : Bool)
    (hi' : Option Nat) (h : decodeState xs m hi = some (m', hi')) : m' = modeAfter m xs := by
  fun_induction decodeState xs m hi with
  | case1 m hi => simp [modeAfter] at h ⊢; exact h.1.symm
  | case2 c cs hi hc ih => rw [modeAfter_cons, if_pos hc]; exact ih h
  | case3 c cs hi hc ih => rw [modeAfter_cons, if_neg hc]; exact ih h
  | case4 c cs hi hc ih =>
    have : ¬ (c == '|') = true := by
      intro hb
      rw [beq_iff_eq] at hb; subst hb; exact absurd hc (by decide)
    rw [modeAfter_cons, if_neg this]; exact ih h
  | case5 c cs h1 h2 d => simp at h
  | case6 c cs h1 h2 ih => rw [modeAfter_cons, if_pos h2]; exact ih h
  | case7 c cs hi h1 h2 hx => simp at h
  | case8 c cs h1 h2 d hx ih => rw [modeAfter_cons, if_neg h2]; exact ih h
  | case9 c cs h1 h2 d hx d' ih => rw [modeAfter_cons, if_neg h2]; exact ih h

theorem decodeState_endsPlain (xs : List Char) (he : endsPlain xs = true) (hi : Option Nat)
    (m' : Bool) (hi' : Option Nat) (h : decodeState xs false hi = some (m', hi')) : m' = false := by
  rw [decodeState_mode _ _ _ _ _ h]
  simpa [endsPlain] using he

/-- General concatenation formula: the second literal is scanned from whatever state the first
one ended in (so a hex section may span the join). -/
theorem decode_append_general (a b : String) :
    decodeStr (a ++ b) =
      match decodeState a.toList false none, decodeStr a with
      | some (m, hi), some x => decodeStrAux b.toList m hi x
      | _, _ => none := by
  rw [decodeStr, String.toList_append, decodeStrAux_append']
  rfl

/-- If the first part ends in plain mode, decoding distributes over `++`. -/
theorem decode_append (a b : String) (h : endsPlain a.toList = true) :
    decodeStr (a ++ b) = (do let x ← decodeStr a; let y ← decodeStr b; pure (x ++ y)) := by
  rw [decode_append_general]
  cases hs : decodeState a.toList false none with
  | none =>
    have := (decodeStrAux_eq_none_iff a.toList false none []).2 hs
    rw [decodeStr, this]; rfl
  | some st =>
    obtain ⟨m, hi⟩ := st
    have hm := decodeState_endsPlain _ h _ _ _ hs
    subst hm
    cases hx : decodeStr a with
    | none => rfl
    | some x =>
      simp only
      rw [plain_hi_irrelevant _ hi none, decodeStrAux_acc, decodeStr]
      cases decodeStrAux b.toList false none [] <;> rfl

/-- If the first part ends inside a hex section (pending nibble `hi`), the second part is
scanned as the continuation of that section. -/
theorem decode_append_hex (a b : String) (hi : Option Nat)
    (h : decodeState a.toList false none = some (true, hi)) :
    decodeStr (a ++ b) =
      (do let x ← decodeStr a; let y ← decodeStrAux b.toList true hi []; pure (x ++ y)) := by
  rw [decode_append_general, h]
  cases hx : decodeStr a with
  | none => rfl
  | some x =>
    simp only
    rw [decodeStrAux_acc]
    cases decodeStrAux b.toList true hi [] <;> rfl

/-- …in particular with no pending nibble the second part behaves as if prefixed by `|`: raw
merging of `"…|41"` and `"42|…"`. -/
theorem decode_append_hex_none (a b : String)
    (h : decodeState a.toList false none = some (true, none)) :
    decodeStr (a ++ b) =
      (do let x ← decodeStr a; let y ← decodeStr ("|" ++ b); pure (x ++ y)) := by
  rw [decode_append_hex a b none h]
  have : decodeStr ("|" ++ b) = decodeStrAux b.toList true none [] := by
    rw [decodeStr, String.toList_append]
    exact step_plain_bar _ _ _
  rw [this]

/-! ## 4. Rejection (string part of C17) -/

/-- after a prefix that ends in plain mode, either the prefix already failed (and so does
everything) or the continuation is scanned from plain mode -/
theorem after_plain_prefix (pre rest : List Char) (he : endsPlain pre = true) :
    decodeStrAux (pre ++ rest) false none [] = none ∨
    ∃ out, decodeStrAux (pre ++ rest) false none [] = decodeStrAux rest false none out := by
  rw [decodeStrAux_append']
  cases hs : decodeState pre false none with
  | none => left; rfl
  | some st =>
    obtain ⟨m, hi⟩ := st
    have hm := decodeState_endsPlain _ he _ _ _ hs
    subst hm
    cases hx : decodeStrAux pre false none [] with
    | none => left; rfl
    | some out => right; exact ⟨out, plain_hi_irrelevant _ _ _ _⟩

/-- (a) A closed hex section with an odd number of digits makes the whole literal invalid,
wherever it occurs and whatever follows. -/
theorem hex_section_odd_rejected (pre post : List Char) (items : List HexItem)
    (he : endsPlain pre = true)
    (hf : ∀ c, HexItem.fill c ∈ items → isFiller c = true)
    (hodd : (nibbles items).length % 2 = 1) :
    decodeStr (String.ofList (pre ++ '|' :: renderItems items ++ '|' :: post)) = none := by
  rw [decodeStr, String.toList_ofList]
  rcases after_plain_prefix pre ('|' :: renderItems items ++ '|' :: post) he with h | ⟨out, h⟩
  · simpa using h
  · obtain ⟨k, hk⟩ := pairFrom_odd _ hodd
    have hs := section_scan items hf ('|' :: post) none out
    rw [hk] at hs
    have : pre ++ '|' :: renderItems items ++ '|' :: post =
        pre ++ ('|' :: renderItems items ++ '|' :: post) := by simp
    rw [this, h, List.cons_append, step_plain_bar]
    simp only [Option.map_none, Option.map_some] at hs
    rw [hs, step_hex_bar_some]

theorem badchar_aux (c : Char) (hf : isFiller c = false) (hb : c ≠ '|') (hx : hexVal c = none)
    (body1 body2 : List Char) (h1 : ∀ x ∈ body1, x ≠ '|') (hi : Option Nat) (acc : Bytes) :
    decodeStrAux (body1 ++ c :: body2) true hi acc = none := by
  induction body1 generalizing hi acc with
  | nil => exact step_hex_bad hf hb hx _ _ _
  | cons x r ih =>
    have hxb : ¬ (x == '|') = true := by simpa using h1 x (by simp)
    have ih' := fun hi acc => ih (fun y hy => h1 y (by simp [hy])) hi acc
    rw [List.cons_append]
    cases hi with
    | none =>
      rw [decodeStrAux]
      split
      · exact ih' _ _
      · split
        · rfl
        · exact ih' _ _
    | some d =>
      rw [decodeStrAux]
      split
      · exact ih' _ _
      · split
        · rfl
        · exact ih' _ _

/-- (b) A character that is neither a hex digit, nor a filler, nor `|` inside a hex section
makes the whole literal invalid, whether or not the section is closed later.
(No assumption that `pre` itself decodes is needed: errors are sticky.) -/
theorem hex_section_badchar_rejected (pre body1 body2 : List Char) (c : Char)
    (he : endsPlain pre = true)
    (h1 : ∀ x ∈ body1, x ≠ '|')
    (hf : isFiller c = false) (hb : c ≠ '|') (hx : hexVal c = none) :
    decodeStr (String.ofList (pre ++ '|' :: body1 ++ c :: body2)) = none := by
  rw [decodeStr, String.toList_ofList]
  have : pre ++ '|' :: body1 ++ c :: body2 = pre ++ ('|' :: (body1 ++ c :: body2)) := by simp
  rw [this]
  rcases after_plain_prefix pre ('|' :: (body1 ++ c :: body2)) he with h | ⟨out, h⟩
  · exact h
  · rw [h, step_plain_bar]
    exact badchar_aux c hf hb hx _ _ h1 _ _

/-! ## 5. Every byte string is expressible -/

theorem nibbles_append (xs ys : List HexItem) : nibbles (xs ++ ys) = nibbles xs ++ nibbles ys := by
  induction xs with
  | nil => rfl
  | cons x xs ih => cases x <;> simp [nibbles, ih]

theorem pairUp_renderBytes (bs : Bytes) : pairUp (nibbles (renderBytes bs)) = some bs := by
  induction bs with
  | nil => rfl
  | cons b bs ih =>
    have hb : b8 (b.toNat / 16 * 16 + b.toNat % 16) = b := by
      unfold b8; rw [Nat.div_add_mod']; exact UInt8.ofNat_toNat
    have : renderBytes (b :: bs) =
        [.nib ⟨b.toNat / 16, by have := b.toNat_lt; omega⟩ false,
         .nib ⟨b.toNat % 16, by omega⟩ false] ++ renderBytes bs := by
      simp [renderBytes]
    rw [this, nibbles_append]
    simp only [nibbles, List.cons_append, List.nil_append, pairUp]
    rw [ih]
    simp [hb]

theorem fillers_renderBytes (bs : Bytes) :
    ∀ c, HexItem.fill c ∈ renderBytes bs → isFiller c = true := by
  intro c hc
  simp [renderBytes] at hc

theorem renderingB_iff (items : List HexItem) (bs : Bytes) :
    renderingB items bs = true ↔ Rendering items bs := by
  simp only [renderingB, Rendering, fillersOk, Bool.and_eq_true, List.all_eq_true, beq_iff_eq]
  constructor
  · rintro ⟨h1, h2⟩
    exact ⟨fun c hc => h1 _ hc, h2⟩
  · rintro ⟨h1, h2⟩
    refine ⟨fun it hit => ?_, h2⟩
    cases it with
    | nib n u => rfl
    | fill c => exact h1 c hit

theorem rendering_renderBytes (bs : Bytes) : Rendering (renderBytes bs) bs :=
  ⟨fillers_renderBytes bs, pairUp_renderBytes bs⟩

/-- the canonical lower-case hex rendering of `bs`, between bars, decodes to `bs` -/
theorem decode_renderBytes (bs : Bytes) :
    decodeStr (String.ofList ('|' :: renderItems (renderBytes bs) ++ ['|'])) = some bs :=
  decode_section _ _ (fillers_renderBytes bs) (pairUp_renderBytes bs)

/-- decoding is onto: every byte string is the value of some literal -/
theorem every_bytes_expressible (bs : Bytes) : ∃ t : String, decodeStr t = some bs :=
  ⟨_, decode_renderBytes bs⟩


/-! ## 6. Non-vacuity -/

example : decodeStr "a|41 42:43|b" = some [97, 65, 66, 67, 98] := by
  simp [decodeStr, decodeStrAux, utf8_eq]; decide
example : decodeStr "|4 1_4-2|" = some [0x41, 0x42] := by decide
example : decodeStr "|dE aD\u2003Be'eF|" = some [0xde, 0xad, 0xbe, 0xef] := by decide
example : decodeStr "a|414|b" = none := by simp [decodeStr, decodeStrAux, utf8_eq]; decide
example : decodeStr "|4g|" = none := by decide
example : decodeStr "|41" = some [0x41] := by decide
example : decodeStr "|414" = some [0x41] := by decide
example : decodeStr "é" = some [0xc3, 0xa9] := by simp [decodeStr, decodeStrAux, utf8_eq]; decide
example : renderItems [.nib 4 false, .fill ' ', .nib 1 true, .fill ':'] = ['4', ' ', '1', ':'] := by
  decide
example : Rendering [.nib 13 true, .fill '\'', .nib 14 false] [0xde] := by
  constructor
  · intro c hc; simp at hc; subst hc; decide
  · decide
example : renderItems (renderBytes [0x0a, 0xff]) = ['0', 'a', 'f', 'f'] := by decide
example : endsPlain "a|41|b".toList = true := by decide
example : endsPlain "a|41".toList = false := by decide
example : decodeState "a|41 4".toList false none = some (true, some 4) := by decide
/- a hex section spanning a join (the parts decoded separately give different bytes) -/
example : decodeStr ("a|41 4" ++ "2|b") = some [97, 0x41, 0x42, 98] := by 
  simp [decodeStr, decodeStrAux, utf8_eq]; decide
example : decodeStr "a|41 4" = some [97, 0x41] ∧ decodeStr "2|b" = some [50] := by
  simp [decodeStr, decodeStrAux, utf8_eq]; decide

end Resynth.LitDecode
