import Resynth.Lemmas.BindPhases
/-!
# `argvec` = `Spec.bind`
-/
namespace Resynth.Bind
open Resynth.Spec

/-! ## types -/

theorem compatibleWith_eq_accepts (T U : ValType) : T.compatibleWith U = accepts T U := by
  cases T <;> cases U <;> rfl

theorem ofDef_eq_defaultVal (d : ValDef) : Val.ofDef d = defaultVal d := by
  cases d <;> rfl

theorem declAccepts_eq (d : ArgDecl) (t : ValType) : declAccepts d t = paramAccepts d t := by
  cases d with
  | positional ty => simp [declAccepts, paramAccepts, compatibleWith_eq_accepts]
  | optional dfl =>
    cases dfl <;> simp [declAccepts, paramAccepts, ValDef.argCompatible, compatibleWith_eq_accepts]

/-! ## `fillNamed` -/

theorem lookup_eq_find (named : List (String × Val)) (k : String) :
    named.lookup k = (named.find? (fun e => e.1 == k)).map (·.2) := by
  induction named with
  | nil => rfl
  | cons e r ih =>
    obtain ⟨k', v⟩ := e
    rw [List.lookup_cons, List.find?_cons]
    by_cases h : k' = k
    · have h1 : (k == k') = true := by simp [h]
      have h2 : (k' == k) = true := by simp [h]
      simp only [h1, h2, Option.map_some]
    · have h1 : (k == k') = false := by simp; exact fun e => h e.symm
      have h2 : (k' == k) = false := by simp [h]
      simp only [h1, h2, ih]

theorem lookup_filter_ne (named : List (String × Val)) (k k' : String) (h : k ≠ k') :
    (named.filter (fun x => x.1 != k')).lookup k = named.lookup k := by
  induction named with
  | nil => rfl
  | cons e r ih =>
    obtain ⟨k'', v⟩ := e
    rw [List.filter_cons, List.lookup_cons]
    by_cases h1 : k'' = k'
    · subst h1
      have h2 : (k == k'') = false := by simp [h]
      simp only [bne_self_eq_false, Bool.false_eq_true, ↓reduceIte, ih, h2]
    · have h3 : (k'' != k') = true := by simp [h1]
      simp only [h3, ↓reduceIte, List.lookup_cons, ih]

theorem mapM_congr_mem {α β} (g g' : α → Option β) (l : List α) (h : ∀ x ∈ l, g x = g' x) :
    l.mapM g = l.mapM g' := by
  induction l with
  | nil => rfl
  | cons a l ih =>
    simp only [List.mapM_cons]
    rw [h a (by simp), ih (fun x hx => h x (by simp [hx]))]

theorem paramValue_filter (named : List (String × Val)) (d : ArgDesc) (k' : String) (h : d.name ≠ k') :
    paramValue (named.filter (fun x => x.1 != k')) d = paramValue named d := by
  unfold paramValue
  rw [lookup_filter_ne _ _ _ h]

theorem fillNamed_spec (ds : List ArgDesc) :
    ∀ (named : List (String × Val)), (ds.map (·.name)).Nodup →
      (fillNamed ds named).toOption =
        (ds.mapM (paramValue named)).map fun vs =>
          (vs, named.filter fun e => !(ds.map (·.name)).contains e.1) := by
  induction ds with
  | nil =>
    intro named _
    simp only [fillNamed, Except.toOption, List.mapM_nil, List.map_nil]
    simp
    exact (List.filter_eq_self.mpr (by simp)).symm
  | cons d ds ih =>
    intro named hnd
    simp only [List.map_cons, List.nodup_cons] at hnd
    obtain ⟨hd, hnd'⟩ := hnd
    have hne : ∀ x ∈ ds, x.name ≠ d.name := by
      intro x hx hxe
      exact hd (List.mem_map.mpr ⟨x, hx, hxe⟩)
    have hfilt : (named.filter fun x => x.1 != d.name).filter
          (fun e => !(ds.map (·.name)).contains e.1)
        = named.filter fun e => !((d :: ds).map (·.name)).contains e.1 := by
      rw [List.filter_filter]
      congr 1
      funext e
      simp only [List.map_cons, List.contains_cons, Bool.not_or, bne]
      rw [Bool.and_comm]
    simp only [List.mapM_cons]
    have hlk := lookup_eq_find named d.name
    unfold fillNamed
    cases hf : named.find? (fun e => e.1 == d.name) with
    | some e =>
      have hpv : paramValue named d = some e.2 := by
        simp [paramValue, hlk, hf]
      have ih' := ih (named.filter fun x => x.1 != d.name) hnd'
      rw [mapM_congr_mem _ (paramValue named) ds
        (fun x hx => paramValue_filter named x d.name (hne x hx)), hfilt] at ih'
      simp only [hpv]
      cases hr : fillNamed ds (named.filter fun x => x.1 != d.name) with
      | error m =>
        rw [hr] at ih'
        cases hm : ds.mapM (paramValue named) with
        | none => simp [Except.toOption]
        | some vs => simp [hm, Except.toOption] at ih'
      | ok r =>
        obtain ⟨vs, rest⟩ := r
        rw [hr] at ih'
        cases hm : ds.mapM (paramValue named) with
        | none => simp [hm, Except.toOption] at ih'
        | some vs' =>
          simp [hm, Except.toOption] at ih' ⊢
          simp [ih'.1, ih'.2]
    | none =>
      cases hdecl : d.decl with
      | positional t =>
        have hpv : paramValue named d = none := by simp [paramValue, hlk, hf, hdecl]
        simp [hpv, Except.toOption]
      | optional dfl =>
        have hpv : paramValue named d = some (defaultVal dfl) := by simp [paramValue, hlk, hf, hdecl]
        have hfilt' : named.filter (fun e => !(ds.map (·.name)).contains e.1)
            = named.filter fun e => !((d :: ds).map (·.name)).contains e.1 := by
          apply List.filter_congr
          intro e he
          have : ¬ e.1 = d.name := by
            intro hee
            have := List.find?_eq_none.mp hf e he
            simp [hee] at this
          simp [this]
        have ih' := ih named hnd'
        rw [hfilt'] at ih'
        simp only [hpv, ofDef_eq_defaultVal]
        cases hr : fillNamed ds named with
        | error m =>
          rw [hr] at ih'
          cases hm : ds.mapM (paramValue named) with
          | none => simp [Except.toOption]
          | some vs => simp [hm, Except.toOption] at ih'
        | ok r =>
          obtain ⟨vs, rest⟩ := r
          rw [hr] at ih'
          cases hm : ds.mapM (paramValue named) with
          | none => simp [hm, Except.toOption] at ih'
          | some vs' =>
            simp [hm, Except.toOption] at ih' ⊢
            simp [ih'.1, ih'.2]

/-! ## counting: all mandatory parameters supplied ⇒ enough arguments -/

theorem mapM_some_mandatory (named : List (String × Val)) (ds : List ArgDesc) (vs : List Val)
    (h : ds.mapM (paramValue named) = some vs) :
    ∀ d ∈ ds, isMandatory d = true → d.name ∈ named.map (·.1) := by
  induction ds generalizing vs with
  | nil => intro d hd; simp at hd
  | cons d0 ds ih =>
    simp only [List.mapM_cons] at h
    cases h0 : paramValue named d0 with
    | none => simp [h0] at h
    | some v0 =>
      cases h1 : ds.mapM (paramValue named) with
      | none => simp [h0, h1] at h
      | some vs' =>
        intro d hd hm
        rcases List.mem_cons.mp hd with rfl | hd'
        · unfold paramValue at h0
          unfold isMandatory at hm
          cases hl : named.lookup d.name with
          | none =>
            cases hdecl : d.decl <;> simp [hl, hdecl] at h0 hm
          | some v =>
            rw [lookup_eq_find] at hl
            cases hf : named.find? (fun e => e.1 == d.name) with
            | none => simp [hf] at hl
            | some e =>
              have hmem := List.mem_of_find?_eq_some hf
              have hk := List.find?_some hf
              simp at hk
              exact List.mem_map.mpr ⟨e, hmem, hk⟩
        · exact ih vs' h1 d hd' hm

theorem enough_of_filled (f : FuncDef) (hnd : (paramNames f).Nodup) (n : Nat)
    (named : List (String × Val)) (vs : List Val)
    (h : (f.args.drop n).mapM (paramValue named) = some vs) :
    mandatoryCount f ≤ n + named.length := by
  have hmem := mapM_some_mandatory named _ vs h
  let ms := (f.args.drop n).filter isMandatory
  have hsub : ms.map (·.name) ⊆ named.map (·.1) := by
    intro x hx
    obtain ⟨d, hd, rfl⟩ := List.mem_map.mp hx
    have := List.mem_filter.mp hd
    exact hmem d this.1 this.2
  have hnd' : (ms.map (·.name)).Nodup := by
    have h1 : (ms.map (·.name)).Sublist (paramNames f) :=
      ((List.filter_sublist).trans (List.drop_sublist n f.args)).map _
    exact h1.nodup hnd
  have hlen := hnd'.length_le_of_subset hsub
  simp only [List.length_map] at hlen
  have hsplit : mandatoryCount f = ((f.args.take n).filter isMandatory).length + ms.length := by
    unfold mandatoryCount
    conv => lhs; rw [← List.take_append_drop n f.args]
    rw [List.filter_append, List.length_append]
  have h2 : ((f.args.take n).filter isMandatory).length ≤ n :=
    Nat.le_trans (List.length_filter_le _ _) (List.length_take_le _ _)
  omega

/-! ## assembly -/

/-- implementation outcome versus specification outcome: same accept/reject, on accept the same
parameter vector and the same tail; a panic agrees with nothing -/
def Agrees : BindRes → Option (List Val × List Val) → Prop
  | .ok av, some (a, t) => av.args = a ∧ av.extra = t
  | .typeError _, none => True
  | _, _ => False

theorem wf_nodup {f : FuncDef} (h : wf f = true) : (paramNames f).Nodup := by
  unfold wf at h
  simp only [Bool.and_eq_true, decide_eq_true_eq] at h
  exact h.2

theorem zip_check_eq (ds : List ArgDesc) (vs : List Val) :
    (!(List.zip ds vs).all (fun (d, v) => declAccepts d.decl v.valType)) =
      (List.zip ds vs).any (fun (d, v) => !paramAccepts d.decl v.valType) := by
  simp only [declAccepts_eq, List.all_eq_not_any_not, Bool.not_not]

theorem extra_check_eq (f : FuncDef) (vs : List Val) :
    vs.any (fun v => !f.collectType.compatibleWith v.valType) =
      vs.any (fun v => !accepts f.collectType v.valType) := by
  simp only [compatibleWith_eq_accepts]

theorem argvec_agrees (f : FuncDef) (hwf : wf f = true) (args : List ArgSpec) :
    Agrees (argvec f args) (Spec.bind f (toCall args)) := by
  have hnd := wf_nodup hwf
  have hsp := splitArgs_phases f args
  unfold argvec Spec.bind
  cases hs : splitArgs f args with
  | error m =>
    rw [hs] at hsp
    simp only [Except.toOption, Option.map_none] at hsp
    split at hsp
    · rename_i hc
      simp only [Bool.or_eq_true] at hc
      have : (unknownName f (toCall args) || alreadySupplied f (toCall args)
          || misplacedNamed f (toCall args) || surplus f (toCall args)
          || incompatible f (toCall args)) = true := by
        simp only [Bool.or_eq_true]; exact Or.inl hc
      simp only [this, ↓reduceIte, Agrees]
    · simp at hsp
  | ok p =>
    rw [hs] at hsp
    simp only [Except.toOption, Option.map_some] at hsp
    split at hsp
    · simp at hsp
    · rename_i hc
      simp only [Bool.not_eq_true] at hc
      simp only [Option.some.injEq, Prod.mk.injEq] at hsp
      obtain ⟨hpos, hnamed, hextra⟩ := hsp
      rw [hc, Bool.false_or]
      -- every supplied name is a parameter after the leading ones
      have hkeys : ∀ e ∈ (phases f (toCall args)).named,
          e.1 ∈ ((f.args.drop (phases f (toCall args)).lead.length).map (·.name)) := by
        simp only [Bool.or_eq_false_iff] at hc
        obtain ⟨⟨⟨hu, hd⟩, _⟩, _⟩ := hc
        intro e he
        simp only [unknownName, List.any_eq_false, Bool.not_eq_true'] at hu
        simp only [alreadySupplied, Bool.or_eq_false_iff, List.any_eq_false] at hd
        have h1 : e.1 ∈ paramNames f := by simpa using hu e he
        have h2 : e.1 ∉ (paramNames f).take (phases f (toCall args)).lead.length := by
          simpa using hd.2 e he
        rw [← List.take_append_drop (phases f (toCall args)).lead.length (paramNames f)] at h1
        rcases List.mem_append.mp h1 with h | h
        · exact absurd h h2
        · simpa [paramNames, List.map_drop] using h
      have hndd : ((f.args.drop (phases f (toCall args)).lead.length).map (·.name)).Nodup := by
        have : ((f.args.drop (phases f (toCall args)).lead.length).map (·.name)).Sublist (paramNames f) :=
          (List.drop_sublist _ _).map _
        exact this.nodup hnd
      have hfill := fillNamed_spec (f.args.drop (phases f (toCall args)).lead.length)
        (phases f (toCall args)).named hndd
      have hpv : paramValues f (toCall args) =
          ((f.args.drop (phases f (toCall args)).lead.length).mapM
            (paramValue (phases f (toCall args)).named)).map ((phases f (toCall args)).lead ++ ·) := rfl
      simp only [hpos, hnamed, hextra, minArgs_eq]
      cases hm : (f.args.drop (phases f (toCall args)).lead.length).mapM
          (paramValue (phases f (toCall args)).named) with
      | none =>
        have hpn : paramValues f (toCall args) = none := by rw [hpv, hm]; rfl
        rw [hm] at hfill
        have hinc : incompatible f (toCall args) = false := by simp [incompatible, hpn]
        simp only [hinc, hpn, Bool.false_eq_true, ↓reduceIte, Option.map_none]
        split
        · trivial
        · cases hfn : fillNamed (f.args.drop (phases f (toCall args)).lead.length)
              (phases f (toCall args)).named with
          | error m => trivial
          | ok r => rw [hfn] at hfill; simp [Except.toOption] at hfill
      | some vs =>
        have hpn : paramValues f (toCall args) = some ((phases f (toCall args)).lead ++ vs) := by
          rw [hpv, hm]; rfl
        have henough := enough_of_filled f hnd _ _ vs hm
        rw [if_neg (by omega)]
        rw [hm] at hfill
        cases hfn : fillNamed (f.args.drop (phases f (toCall args)).lead.length)
            (phases f (toCall args)).named with
        | error m => rw [hfn] at hfill; simp [Except.toOption] at hfill
        | ok r =>
          obtain ⟨vs', rest⟩ := r
          rw [hfn] at hfill
          simp only [Except.toOption, Option.map_some, Option.some.injEq, Prod.mk.injEq] at hfill
          obtain ⟨hvs, hrest⟩ := hfill
          have hrest' : rest = [] := by
            rw [hrest]
            apply List.filter_eq_nil_iff.mpr
            intro e he
            simpa using hkeys e he
          subst hvs
          simp only [hrest', List.isEmpty_nil, Bool.not_true, Bool.false_eq_true, ↓reduceIte,
            zip_check_eq, extra_check_eq]
          simp only [incompatible, hpn]
          cases h1 : (List.zip f.args ((phases f (toCall args)).lead ++ vs')).any
              (fun (d, v) => !paramAccepts d.decl v.valType)
          · cases h2 : (tailValues f (toCall args)).any (fun v => !accepts f.collectType v.valType)
            · simp [Agrees]
            · simp [Agrees]
          · simp [Agrees]

end Resynth.Bind
