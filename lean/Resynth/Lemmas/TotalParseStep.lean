import Resynth.Lemmas.TotalParse
import Resynth.Lemmas.LRStep
/-! # Every loop iteration of `Parser::feed` keeps the stack nodes and statements well formed — one lemma per state -/
namespace Resynth.LR

attribute [local simp] StepWF CfgWF NodeWF step dispatch bind pure Bind.bind Pure.pure reduceImportStmt popStr popPath
  reduceObject reduceModule reduceRef reduceSockaddr reduceLiteralExpr reduceRefExpr reduceCallExpr reduceBop
  reduceArg reduceCall reduceAssign reduceExprStmt reduceAssignStmt pushLiteral fromToken PathB.new
  Expr.WF Args.WF Stmt.WF ObjRef.WF TokOk List.forall_mem_append or_imp forall_and

set_option linter.unusedVariables false

/-- destructure the shape invariant, then case on the token kind -/
local macro "wf_state" h:ident k:ident : tactic => `(tactic| (
  simp only [Inv] at $h:ident
  try split at $h:ident
  all_goals (try contradiction)
  all_goals (try subst $h:ident)
  all_goals (cases $k:ident <;> simp_all)))

/-- the same for states whose action does not depend on the token -/
local macro "wf_state0" h:ident : tactic => `(tactic| (
  simp only [Inv] at $h:ident
  try split at $h:ident
  all_goals (try contradiction)
  all_goals (try subst $h:ident)
  all_goals (simp_all)))

theorem sw_initial (s : Stack) (ss : List Stmt) (k txt loc) (h : Inv .initial s) (hw : StackWF s)
    (hs : StmtsWF ss) (ht : TokOk ⟨k, txt, loc⟩) : StepWF (step ⟨.initial, s, ss⟩ ⟨k, txt, loc⟩) := by
  wf_state h k

theorem sw_import_ (s : Stack) (ss : List Stmt) (k txt loc) (h : Inv .import_ s) (hw : StackWF s)
    (hs : StmtsWF ss) (ht : TokOk ⟨k, txt, loc⟩) : StepWF (step ⟨.import_, s, ss⟩ ⟨k, txt, loc⟩) := by
  wf_state h k

theorem sw_importEnd (s : Stack) (ss : List Stmt) (k txt loc) (h : Inv .importEnd s) (hw : StackWF s)
    (hs : StmtsWF ss) (ht : TokOk ⟨k, txt, loc⟩) : StepWF (step ⟨.importEnd, s, ss⟩ ⟨k, txt, loc⟩) := by
  wf_state h k

theorem sw_let_ (s : Stack) (ss : List Stmt) (k txt loc) (h : Inv .let_ s) (hw : StackWF s)
    (hs : StmtsWF ss) (ht : TokOk ⟨k, txt, loc⟩) : StepWF (step ⟨.let_, s, ss⟩ ⟨k, txt, loc⟩) := by
  wf_state h k

theorem sw_assign (s : Stack) (ss : List Stmt) (k txt loc) (h : Inv .assign s) (hw : StackWF s)
    (hs : StmtsWF ss) (ht : TokOk ⟨k, txt, loc⟩) : StepWF (step ⟨.assign, s, ss⟩ ⟨k, txt, loc⟩) := by
  wf_state h k

theorem sw_refComponent (s : Stack) (ss : List Stmt) (k txt loc) (h : Inv .refComponent s) (hw : StackWF s)
    (hs : StmtsWF ss) (ht : TokOk ⟨k, txt, loc⟩) : StepWF (step ⟨.refComponent, s, ss⟩ ⟨k, txt, loc⟩) := by
  wf_state h k

theorem sw_refModule (s : Stack) (ss : List Stmt) (k txt loc) (h : Inv .refModule s) (hw : StackWF s)
    (hs : StmtsWF ss) (ht : TokOk ⟨k, txt, loc⟩) : StepWF (step ⟨.refModule, s, ss⟩ ⟨k, txt, loc⟩) := by
  wf_state h k

theorem sw_refObject (s : Stack) (ss : List Stmt) (k txt loc) (h : Inv .refObject s) (hw : StackWF s)
    (hs : StmtsWF ss) (ht : TokOk ⟨k, txt, loc⟩) : StepWF (step ⟨.refObject, s, ss⟩ ⟨k, txt, loc⟩) := by
  wf_state h k

theorem sw_refObjEnd (s : Stack) (ss : List Stmt) (k txt loc) (h : Inv .refObjEnd s) (hw : StackWF s)
    (hs : StmtsWF ss) (ht : TokOk ⟨k, txt, loc⟩) : StepWF (step ⟨.refObjEnd, s, ss⟩ ⟨k, txt, loc⟩) := by
  wf_state h k

theorem sw_argNext (s : Stack) (ss : List Stmt) (k txt loc) (h : Inv .argNext s) (hw : StackWF s)
    (hs : StmtsWF ss) (ht : TokOk ⟨k, txt, loc⟩) : StepWF (step ⟨.argNext, s, ss⟩ ⟨k, txt, loc⟩) := by
  wf_state h k

theorem sw_exprArg (s : Stack) (ss : List Stmt) (k txt loc) (h : Inv .exprArg s) (hw : StackWF s)
    (hs : StmtsWF ss) (ht : TokOk ⟨k, txt, loc⟩) : StepWF (step ⟨.exprArg, s, ss⟩ ⟨k, txt, loc⟩) := by
  wf_state h k

theorem sw_argName (s : Stack) (ss : List Stmt) (k txt loc) (h : Inv .argName s) (hw : StackWF s)
    (hs : StmtsWF ss) (ht : TokOk ⟨k, txt, loc⟩) : StepWF (step ⟨.argName, s, ss⟩ ⟨k, txt, loc⟩) := by
  wf_state h k

theorem sw_ipv4 (s : Stack) (ss : List Stmt) (k txt loc) (h : Inv .ipv4 s) (hw : StackWF s)
    (hs : StmtsWF ss) (ht : TokOk ⟨k, txt, loc⟩) : StepWF (step ⟨.ipv4, s, ss⟩ ⟨k, txt, loc⟩) := by
  wf_state h k

theorem sw_slash (s : Stack) (ss : List Stmt) (k txt loc) (h : Inv .slash s) (hw : StackWF s)
    (hs : StmtsWF ss) (ht : TokOk ⟨k, txt, loc⟩) : StepWF (step ⟨.slash, s, ss⟩ ⟨k, txt, loc⟩) := by
  wf_state h k

theorem sw_exprStmtEnd (s : Stack) (ss : List Stmt) (k txt loc) (h : Inv .exprStmtEnd s) (hw : StackWF s)
    (hs : StmtsWF ss) (ht : TokOk ⟨k, txt, loc⟩) : StepWF (step ⟨.exprStmtEnd, s, ss⟩ ⟨k, txt, loc⟩) := by
  wf_state h k

theorem sw_assignStmtEnd (s : Stack) (ss : List Stmt) (k txt loc) (h : Inv .assignStmtEnd s) (hw : StackWF s)
    (hs : StmtsWF ss) (ht : TokOk ⟨k, txt, loc⟩) : StepWF (step ⟨.assignStmtEnd, s, ss⟩ ⟨k, txt, loc⟩) := by
  wf_state h k

theorem sw_reduceImport (s : Stack) (ss : List Stmt) (k txt loc) (h : Inv .reduceImport s) (hw : StackWF s)
    (hs : StmtsWF ss) (ht : TokOk ⟨k, txt, loc⟩) : StepWF (step ⟨.reduceImport, s, ss⟩ ⟨k, txt, loc⟩) := by
  wf_state0 h

theorem sw_reduceModule (s : Stack) (ss : List Stmt) (k txt loc) (h : Inv .reduceModule s) (hw : StackWF s)
    (hs : StmtsWF ss) (ht : TokOk ⟨k, txt, loc⟩) : StepWF (step ⟨.reduceModule, s, ss⟩ ⟨k, txt, loc⟩) := by
  wf_state0 h

theorem sw_reduceObject (s : Stack) (ss : List Stmt) (k txt loc) (h : Inv .reduceObject s) (hw : StackWF s)
    (hs : StmtsWF ss) (ht : TokOk ⟨k, txt, loc⟩) : StepWF (step ⟨.reduceObject, s, ss⟩ ⟨k, txt, loc⟩) := by
  wf_state0 h

theorem sw_reduceRefCall (s : Stack) (ss : List Stmt) (k txt loc) (h : Inv .reduceRefCall s) (hw : StackWF s)
    (hs : StmtsWF ss) (ht : TokOk ⟨k, txt, loc⟩) : StepWF (step ⟨.reduceRefCall, s, ss⟩ ⟨k, txt, loc⟩) := by
  wf_state0 h

theorem sw_reduceRefNaked (s : Stack) (ss : List Stmt) (k txt loc) (h : Inv .reduceRefNaked s) (hw : StackWF s)
    (hs : StmtsWF ss) (ht : TokOk ⟨k, txt, loc⟩) : StepWF (step ⟨.reduceRefNaked, s, ss⟩ ⟨k, txt, loc⟩) := by
  wf_state0 h

theorem sw_reduceCall (s : Stack) (ss : List Stmt) (k txt loc) (h : Inv .reduceCall s) (hw : StackWF s)
    (hs : StmtsWF ss) (ht : TokOk ⟨k, txt, loc⟩) : StepWF (step ⟨.reduceCall, s, ss⟩ ⟨k, txt, loc⟩) := by
  wf_state0 h

theorem sw_reduceArg (s : Stack) (ss : List Stmt) (k txt loc) (h : Inv .reduceArg s) (hw : StackWF s)
    (hs : StmtsWF ss) (ht : TokOk ⟨k, txt, loc⟩) : StepWF (step ⟨.reduceArg, s, ss⟩ ⟨k, txt, loc⟩) := by
  wf_state0 h

theorem sw_exprStmt (s : Stack) (ss : List Stmt) (k txt loc) (h : Inv .exprStmt s) (hw : StackWF s)
    (hs : StmtsWF ss) (ht : TokOk ⟨k, txt, loc⟩) : StepWF (step ⟨.exprStmt, s, ss⟩ ⟨k, txt, loc⟩) := by
  wf_state0 h

theorem sw_exprRvalue (s : Stack) (ss : List Stmt) (k txt loc) (h : Inv .exprRvalue s) (hw : StackWF s)
    (hs : StmtsWF ss) (ht : TokOk ⟨k, txt, loc⟩) : StepWF (step ⟨.exprRvalue, s, ss⟩ ⟨k, txt, loc⟩) := by
  wf_state0 h

theorem sw_reduceLiteralExpr (s : Stack) (ss : List Stmt) (k txt loc) (h : Inv .reduceLiteralExpr s) (hw : StackWF s)
    (hs : StmtsWF ss) (ht : TokOk ⟨k, txt, loc⟩) : StepWF (step ⟨.reduceLiteralExpr, s, ss⟩ ⟨k, txt, loc⟩) := by
  wf_state0 h

theorem sw_reduceRefExpr (s : Stack) (ss : List Stmt) (k txt loc) (h : Inv .reduceRefExpr s) (hw : StackWF s)
    (hs : StmtsWF ss) (ht : TokOk ⟨k, txt, loc⟩) : StepWF (step ⟨.reduceRefExpr, s, ss⟩ ⟨k, txt, loc⟩) := by
  wf_state0 h

theorem sw_reduceCallExpr (s : Stack) (ss : List Stmt) (k txt loc) (h : Inv .reduceCallExpr s) (hw : StackWF s)
    (hs : StmtsWF ss) (ht : TokOk ⟨k, txt, loc⟩) : StepWF (step ⟨.reduceCallExpr, s, ss⟩ ⟨k, txt, loc⟩) := by
  wf_state0 h

theorem sw_reduceSockAddr (s : Stack) (ss : List Stmt) (k txt loc) (h : Inv .reduceSockAddr s) (hw : StackWF s)
    (hs : StmtsWF ss) (ht : TokOk ⟨k, txt, loc⟩) : StepWF (step ⟨.reduceSockAddr, s, ss⟩ ⟨k, txt, loc⟩) := by
  wf_state0 h

theorem sw_reduceBop (s : Stack) (ss : List Stmt) (k txt loc) (h : Inv .reduceBop s) (hw : StackWF s)
    (hs : StmtsWF ss) (ht : TokOk ⟨k, txt, loc⟩) : StepWF (step ⟨.reduceBop, s, ss⟩ ⟨k, txt, loc⟩) := by
  wf_state0 h

theorem sw_reduceAssign (s : Stack) (ss : List Stmt) (k txt loc) (h : Inv .reduceAssign s) (hw : StackWF s)
    (hs : StmtsWF ss) (ht : TokOk ⟨k, txt, loc⟩) : StepWF (step ⟨.reduceAssign, s, ss⟩ ⟨k, txt, loc⟩) := by
  wf_state0 h

theorem sw_reduceExprStmt (s : Stack) (ss : List Stmt) (k txt loc) (h : Inv .reduceExprStmt s) (hw : StackWF s)
    (hs : StmtsWF ss) (ht : TokOk ⟨k, txt, loc⟩) : StepWF (step ⟨.reduceExprStmt, s, ss⟩ ⟨k, txt, loc⟩) := by
  wf_state0 h

theorem sw_reduceAssignStmt (s : Stack) (ss : List Stmt) (k txt loc) (h : Inv .reduceAssignStmt s) (hw : StackWF s)
    (hs : StmtsWF ss) (ht : TokOk ⟨k, txt, loc⟩) : StepWF (step ⟨.reduceAssignStmt, s, ss⟩ ⟨k, txt, loc⟩) := by
  wf_state0 h

theorem sw_reduceStmt (s : Stack) (ss : List Stmt) (k txt loc) (h : Inv .reduceStmt s) (hw : StackWF s)
    (hs : StmtsWF ss) (ht : TokOk ⟨k, txt, loc⟩) : StepWF (step ⟨.reduceStmt, s, ss⟩ ⟨k, txt, loc⟩) := by
  wf_state0 h

theorem sw_accept (s : Stack) (ss : List Stmt) (k txt loc) (h : Inv .accept s) (hw : StackWF s)
    (hs : StmtsWF ss) (ht : TokOk ⟨k, txt, loc⟩) : StepWF (step ⟨.accept, s, ss⟩ ⟨k, txt, loc⟩) := by
  wf_state0 h

theorem sw_expr (s : Stack) (ss : List Stmt) (k txt loc) (h : Inv .expr s) (hw : StackWF s)
    (hs : StmtsWF ss) (ht : TokOk ⟨k, txt, loc⟩) : StepWF (step ⟨.expr, s, ss⟩ ⟨k, txt, loc⟩) := by
  simp only [Inv] at h
  cases hl : litOfToken ⟨k, txt, loc⟩ with
  | none => cases k <;> simp_all
  | some v => cases k <;> simp_all

theorem sw_argVal (s : Stack) (ss : List Stmt) (k txt loc) (h : Inv .argVal s) (hw : StackWF s)
    (hs : StmtsWF ss) (ht : TokOk ⟨k, txt, loc⟩) : StepWF (step ⟨.argVal, s, ss⟩ ⟨k, txt, loc⟩) := by
  simp only [Inv] at h
  split at h
  · next n l o c =>
    cases hl : litOfToken ⟨k, txt, loc⟩ with
    | none =>
      cases k
      case rparen => cases n <;> simp_all
      all_goals simp_all
    | some v =>
      cases k
      case rparen => cases n <;> simp_all
      all_goals simp_all
  · contradiction

theorem sw_ipv4Colon (s : Stack) (ss : List Stmt) (k txt loc) (h : Inv .ipv4Colon s) (hw : StackWF s)
    (hs : StmtsWF ss) (ht : TokOk ⟨k, txt, loc⟩) : StepWF (step ⟨.ipv4Colon, s, ss⟩ ⟨k, txt, loc⟩) := by
  simp only [Inv] at h
  split at h
  · cases hl : litOfToken ⟨k, txt, loc⟩ with
    | none => cases k <;> simp_all
    | some v =>
      cases k
      case intLit =>
        obtain ⟨n, rfl⟩ := litOfToken_int_some hl
        by_cases hn : n > 65535 <;> simp [hl, hn] <;> simp_all
      all_goals simp_all
  · contradiction

theorem sw_reduceExpr (s : Stack) (ss : List Stmt) (k txt loc) (h : Inv .reduceExpr s) (hw : StackWF s)
    (hs : StmtsWF ss) (ht : TokOk ⟨k, txt, loc⟩) : StepWF (step ⟨.reduceExpr, s, ss⟩ ⟨k, txt, loc⟩) := by
  simp only [Inv] at h
  split at h
  · cases h <;> simp_all
  · contradiction

end Resynth.LR
