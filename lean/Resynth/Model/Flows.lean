import Resynth.Model.Tcp
/-!
# UDP, ICMP, raw IP / fragments, GRE, ERSPAN, VXLAN, DHCP builders (ezpkt/src/*.rs)
-/
namespace Resynth

/-! ## UDP (ezpkt/src/udp4.rs) -/

structure UdpDgram where
  raw : Bool
  ethDst : Bytes := zeros 6
  ethSrc : Bytes := zeros 6
  ip : IpHdr
  udp : UdpHdr := {}
  data : Bytes := []
  deriving Repr

namespace UdpDgram

/-- `with_capacity` -/
def new (raw : Bool) : UdpDgram :=
  { raw := raw, ip := ({ protocol := Proto.udp, totLen := 28 } : IpHdr).calcCsum }

def src (d : UdpDgram) (s : Sock) : UdpDgram :=
  { d with ethSrc := macOfIp s.ip, ip := { d.ip with saddr := s.ip }, udp := { d.udp with sport := s.port } }

def dst (d : UdpDgram) (s : Sock) : UdpDgram :=
  { d with ethDst := macOfIp s.ip, ip := { d.ip with daddr := s.ip }, udp := { d.udp with dport := s.port } }

def broadcast (d : UdpDgram) : UdpDgram := { d with ethDst := macBroadcast }

/-- `srcip`: override the IP source address only -/
def srcip (d : UdpDgram) (ip : Nat) : UdpDgram := { d with ip := ({ d.ip with saddr := ip } : IpHdr).calcCsum }

def fragOff (d : UdpDgram) (off : Nat) : UdpDgram := { d with ip := (d.ip.setFragOff off).calcCsum }

/-- `push`: append, `update_tot_len`, `update_dgram_len` -/
def push (d : UdpDgram) (bytes : Bytes) : UdpDgram :=
  { d with data := d.data ++ bytes
           ip := (d.ip.addTotLen (bytes.length % 65536)).calcCsum
           udp := { d.udp with len := (d.udp.len + bytes.length % 65536) % 65536 } }

def csumLen (d : UdpDgram) : Nat := (8 + d.data.length) % 65536

/-- `csum`: pseudo-header + header + payload; a result of zero is transmitted as 0xffff (RFC 768) -/
def csum (d : UdpDgram) : UdpDgram :=
  let ph := sum16 (pseudoHdr d.ip.saddr d.ip.daddr d.ip.protocol d.csumLen)
  let uh := sum16 d.udp.serialize
  let pl := sum16 d.data
  let c := csumFold (ph + uh + pl)
  { d with udp := { d.udp with csum := if c = 0 then 0xffff else c } }

def dgram (d : UdpDgram) : Bytes := d.udp.serialize ++ d.data

def frame (d : UdpDgram) : Bytes :=
  (if d.raw then [] else ethHdr d.ethDst d.ethSrc 0x0800) ++ d.ip.serialize ++ d.dgram

end UdpDgram

structure UdpFlow where
  cl : Sock
  sv : Sock
  raw : Bool
  deriving Repr, DecidableEq

namespace UdpFlow
def clientDgram (f : UdpFlow) (bytes : Bytes) : UdpDgram := (((UdpDgram.new f.raw).src f.cl).dst f.sv).push bytes
def serverDgram (f : UdpFlow) (bytes : Bytes) : UdpDgram := (((UdpDgram.new f.raw).src f.sv).dst f.cl).push bytes
end UdpFlow


/-! ## stdlib-level UDP compositions (src/stdlib/ipv4/udp.rs) -/

/-- `ipv4::udp::unicast(src, dst, raw:, *payload)` -/
def udpUnicast (src dst : Sock) (raw : Bool) (buf : Bytes) : Bytes :=
  ((((UdpDgram.new raw).src src).dst dst).push buf).frame

/-- `ipv4::udp::broadcast(src, dst, srcip:, raw:, *payload)` -/
def udpBroadcast (src dst : Sock) (srcip : Option Nat) (raw : Bool) (buf : Bytes) : Bytes :=
  let d := ((((UdpDgram.new raw).src src).dst dst).broadcast).push buf
  (match srcip with | some ip => d.srcip ip | none => d).frame

/-- `UdpFlow.client_dgram / server_dgram (frag_off:, csum:, *payload)` -/
def UdpFlow.dgramCall (f : UdpFlow) (client : Bool) (fragOff : Nat) (csum : Bool) (bytes : Bytes) : Bytes :=
  let d := (if client then f.clientDgram bytes else f.serverDgram bytes).fragOff fragOff
  (if csum then d.csum else d).frame

/-- `UdpFlow.client_raw_dgram / server_raw_dgram (csum:, *payload)`: UDP header + payload only -/
def UdpFlow.rawDgramCall (f : UdpFlow) (client : Bool) (csum : Bool) (bytes : Bytes) : Bytes :=
  let d := if client then f.clientDgram bytes else f.serverDgram bytes
  (if csum then d.csum else d).dgram

/-! ## ICMP echo (ezpkt/src/icmp4.rs) -/

structure IcmpFlow where
  cl : Nat
  sv : Nat
  raw : Bool
  id : Nat := 0x1234
  pingSeq : Nat := 0
  pongSeq : Nat := 0
  deriving Repr, DecidableEq

/-- `IcmpDgram::new(..).ping/pong(id, seq, bytes)`; `typ` is 8 or 0 -/
def icmpEcho (src dst : Nat) (raw : Bool) (typ id seq : Nat) (bytes : Bytes) : Bytes :=
  let ip0 : IpHdr := ({ protocol := Proto.icmp, totLen := 28, saddr := src, daddr := dst } : IpHdr).calcCsum
  let ip := (ip0.addTotLen (bytes.length % 65536)).calcCsum
  let body := be16 id ++ be16 seq ++ bytes
  let c := ipCsum ([b8 typ, 0, 0, 0] ++ body)
  (if raw then [] else ethHdr (macOfIp dst) (macOfIp src) 0x0800) ++ ip.serialize ++
    [b8 typ, 0] ++ be16 c ++ body

namespace IcmpFlow
def echo (f : IcmpFlow) (bytes : Bytes) : IcmpFlow × Bytes :=
  ({ f with pingSeq := (f.pingSeq + 1) % 65536 }, icmpEcho f.cl f.sv f.raw 8 f.id f.pingSeq bytes)
def echoReply (f : IcmpFlow) (bytes : Bytes) : IcmpFlow × Bytes :=
  ({ f with pongSeq := (f.pongSeq + 1) % 65536 }, icmpEcho f.sv f.cl f.raw 0 f.id f.pongSeq bytes)
end IcmpFlow

/-! ## Raw IP datagrams and fragments (ezpkt/src/ip4.rs, stdlib ipv4::datagram) -/

/-- `IpDgram::new(iph, payload, raw).frag(off, mf)` -/
def ipDgramFrag (h : IpHdr) (payload : Bytes) (raw : Bool) (off : Nat) (mf : Bool) : Bytes :=
  let h1 : IpHdr := { h with totLen := (payload.length % 65536 + 20) % 65536 }
  let h2 := ((h1.setFragOff off).setMf mf).calcCsum
  (if raw then [] else ethHdr (macOfIp h.daddr) (macOfIp h.saddr) 0x0800) ++ h2.serialize ++ payload

structure IpFrag where
  hdr : IpHdr
  payload : Bytes
  deriving Repr, DecidableEq

namespace IpFrag
/-- `fragment(off, len, raw)`; `off`, `len` are u16 counts of 8-byte blocks -/
def fragment (f : IpFrag) (off len : Nat) (raw : Bool) : Bytes :=
  let byteOff := off * 8
  let byteEnd := byteOff + len * 8
  let e := min byteEnd f.payload.length
  let s := min byteOff e
  ipDgramFrag f.hdr ((f.payload.drop s).take (e - s)) raw off (e != f.payload.length)

def tail (f : IpFrag) (off : Nat) (raw : Bool) : Bytes := f.fragment off (f.payload.length % 65536) raw

def datagram (f : IpFrag) (raw : Bool) : Bytes := ipDgramFrag f.hdr f.payload raw 0 false
end IpFrag

/-- stdlib `ipv4::datagram` (always Ethernet framed) -/
def ipv4Datagram (src dst id : Nat) (evil df mf : Bool) (ttl fragOff proto : Nat) (data : Bytes) : Bytes :=
  let h0 : IpHdr := { totLen := (20 + data.length % 65536) % 65536, id := id }
  let h1 := (((h0.setEvil evil).setDf df).setMf mf).setFragOff fragOff
  let h2 : IpHdr := ({ h1 with ttl := ttl, protocol := proto, saddr := src, daddr := dst } : IpHdr).calcCsum
  ethHdr (macOfIp dst) (macOfIp src) 0x0800 ++ h2.serialize ++ data

/-! ## GRE / ERSPAN (ezpkt/src/{gre,erspan1,erspan2}.rs) -/

structure GreFrame where
  raw : Bool
  eth : Bytes
  ip : IpHdr
  gre : Bytes            -- 4 bytes: flags, proto
  seqHdr : Option Bytes  -- present iff the S flag is set
  body : Bytes := []
  deriving Repr

namespace GreFrame
/-- `GreFrame::new`; `flags` is the 16-bit flags word -/
def new (src dst flags proto : Nat) (raw : Bool) : GreFrame :=
  let ip0 : IpHdr := ({ protocol := Proto.gre, totLen := 24, saddr := src, daddr := dst } : IpHdr).calcCsum
  let hasSeq := flags &&& 0x1000 != 0
  { raw := raw
    eth := ethHdr (macOfIp dst) (macOfIp src) 0x0800
    ip := if hasSeq then ip0.addTotLen 4 else ip0
    gre := be16 flags ++ be16 proto
    seqHdr := if hasSeq then some (zeros 4) else none }

/-- `push` / `set_hdr`: append and recompute length + checksum -/
def push (g : GreFrame) (bytes : Bytes) : GreFrame :=
  { g with body := g.body ++ bytes, ip := (g.ip.addTotLen (bytes.length % 65536)).calcCsum }

def seq (g : GreFrame) (n : Nat) : GreFrame :=
  { g with seqHdr := g.seqHdr.map fun _ => be32 n }

def frame (g : GreFrame) : Bytes :=
  (if g.raw then [] else g.eth) ++ g.ip.serialize ++ g.gre ++ (g.seqHdr.getD []) ++ g.body
end GreFrame

structure GreFlow where
  cl : Nat
  sv : Nat
  flags : Nat := 0
  ethertype : Nat
  raw : Bool
  seq : Nat := 0
  deriving Repr, DecidableEq

namespace GreFlow
def encap (f : GreFlow) (bytes : Bytes) : GreFlow × Bytes :=
  ({ f with seq := (f.seq + 1) % 4294967296 },
   (((GreFrame.new f.cl f.sv f.flags f.ethertype f.raw).seq f.seq).push bytes).frame)
end GreFlow

structure Erspan1Flow where
  cl : Nat
  sv : Nat
  raw : Bool
  deriving Repr, DecidableEq

namespace Erspan1Flow
def encap (f : Erspan1Flow) (bytes : Bytes) : Bytes :=
  ((GreFrame.new f.cl f.sv 0 0x88be f.raw).push bytes).frame
end Erspan1Flow

/-- `Erspan2::default().session_id(s).port_index(i).build()` as 8 bytes -/
def erspan2Hdr (sess index : Nat) : Bytes :=
  let flagsWord := (sess &&& 0x3ff) ||| (3 <<< 11) ||| (1 <<< 28)
  be32 flagsWord ++ be32 (index &&& 0xfffff)

structure Erspan2Flow where
  cl : Nat
  sv : Nat
  raw : Bool
  seq : Nat := 0
  sessionId : Nat := 0
  deriving Repr, DecidableEq

namespace Erspan2Flow
def encap (f : Erspan2Flow) (bytes : Bytes) (portIndex : Nat) : Erspan2Flow × Bytes :=
  ({ f with seq := (f.seq + 1) % 4294967296 },
   ((((GreFrame.new f.cl f.sv 0x1000 0x88be f.raw).seq f.seq).push (erspan2Hdr f.sessionId portIndex)).push bytes).frame)
end Erspan2Flow

/-! ## VXLAN (ezpkt/src/vxlan.rs, pkt/src/vxlan.rs) -/

/-- `vxlan_hdr::with_vni` -/
def vxlanHdr (vni : Nat) : Bytes := [8, 0, 0, 0] ++ be32 ((vni * 256) % 4294967296)

structure VxlanFlow where
  cl : Sock
  sv : Sock
  vni : Nat
  raw : Bool
  deriving Repr, DecidableEq

namespace VxlanFlow
def encap (f : VxlanFlow) (bytes : Bytes) : Bytes :=
  (((((UdpDgram.new f.raw).src f.cl).dst f.sv).push (vxlanHdr f.vni)).push bytes).frame
end VxlanFlow

/-! ## DHCP fixed header (pkt/src/dhcp.rs, ezpkt/src/dhcp.rs) -/

/-- copy `min len width` bytes into a zeroed field of `width` bytes -/
def fixedField (width : Nat) (v : Bytes) : Bytes := v.take width ++ zeros (width - min v.length width)

def dhcpHdr (op htype hlen hops xid ciaddr yiaddr siaddr giaddr : Nat)
    (chaddr sname file : Option Bytes) (magic : Nat) : Bytes :=
  [b8 op, b8 htype, b8 hlen, b8 hops] ++ be32 xid ++ be16 0 ++ be16 0 ++
  be32 ciaddr ++ be32 yiaddr ++ be32 siaddr ++ be32 giaddr ++
  fixedField 16 (chaddr.getD []) ++ fixedField 64 (sname.getD []) ++ fixedField 128 (file.getD []) ++
  be32 magic

end Resynth
