/-!
# Byte-level helpers (model of Rust's `to_be_bytes`, `to_le_bytes`, slices)

Import-free so the line-protocol driver links as a native executable.
-/
namespace Resynth

abbrev Bytes := List UInt8

/-- low 8 bits of a natural as a byte (`x as u8`) -/
@[inline] def b8 (n : Nat) : UInt8 := UInt8.ofNat n

/-- `u16::to_be_bytes` of `n as u16` -/
def be16 (n : Nat) : Bytes := [b8 (n / 256), b8 n]
/-- `u32::to_be_bytes` of `n as u32` -/
def be32 (n : Nat) : Bytes := [b8 (n / 16777216), b8 (n / 65536), b8 (n / 256), b8 n]
/-- `u64::to_be_bytes` -/
def be64 (n : Nat) : Bytes := be32 (n / 4294967296) ++ be32 n
/-- 24-bit big-endian (`len24` in src/stdlib/tls.rs) -/
def be24 (n : Nat) : Bytes := [b8 (n / 65536), b8 (n / 256), b8 n]

def le16 (n : Nat) : Bytes := [b8 n, b8 (n / 256)]
def le32 (n : Nat) : Bytes := [b8 n, b8 (n / 256), b8 (n / 65536), b8 (n / 16777216)]
def le64 (n : Nat) : Bytes := le32 n ++ le32 (n / 4294967296)

/-- read a big-endian natural from a byte list -/
def beNat : Bytes → Nat
  | bs => bs.foldl (fun acc b => acc * 256 + b.toNat) 0

def zeros (n : Nat) : Bytes := List.replicate n 0

/-- `&buf[off..off+len]` when in range -/
def slice (b : Bytes) (off len : Nat) : Bytes := (b.drop off).take len

/-- overwrite `src.length` bytes of `b` at `off` (assumes in range; used for header patches) -/
def patch (b : Bytes) (off : Nat) (src : Bytes) : Bytes :=
  b.take off ++ src ++ b.drop (off + src.length)

def hexDigit (n : Nat) : Char :=
  if n < 10 then Char.ofNat (48 + n) else Char.ofNat (87 + n)

def toHex (b : Bytes) : String :=
  String.ofList (b.flatMap fun x => [hexDigit (x.toNat / 16), hexDigit (x.toNat % 16)])

def hexVal (c : Char) : Option Nat :=
  if '0' ≤ c ∧ c ≤ '9' then some (c.toNat - 48)
  else if 'a' ≤ c ∧ c ≤ 'f' then some (c.toNat - 87)
  else if 'A' ≤ c ∧ c ≤ 'F' then some (c.toNat - 55)
  else none

def ofHexChars : List Char → Option Bytes
  | [] => some []
  | [_] => none
  | a :: b :: rest => do
    let x ← hexVal a
    let y ← hexVal b
    let r ← ofHexChars rest
    pure (b8 (x * 16 + y) :: r)

/-- `-` denotes the empty byte string on the wire protocol -/
def ofHex (s : String) : Option Bytes :=
  if s == "-" then some [] else ofHexChars s.toList

def hexOrDash (b : Bytes) : String := if b.isEmpty then "-" else toHex b

end Resynth
