import Resynth.Model.Bytes
/-!
# Tokens and syntax trees (src/lex.rs `TokType`/`Token`, src/parse.rs `Expr`/`Stmt`)
-/
namespace Resynth

/-- The token kinds the parser can see (ignored kinds — whitespace, comments, newline —
never leave the lexer). -/
inductive TokKind
  | eof | lparen | rparen | dot | dcolon | colon | semi | equals | comma | slash
  | kwImport | kwLet | boolLit | ident | ipv4Lit | strLit | hexLit | intLit
  deriving DecidableEq, Repr, Inhabited

def TokKind.name : TokKind → String
  | .eof => "eof" | .lparen => "lparen" | .rparen => "rparen" | .dot => "dot" | .dcolon => "dcolon"
  | .colon => "colon" | .semi => "semi" | .equals => "equals" | .comma => "comma" | .slash => "slash"
  | .kwImport => "import" | .kwLet => "let" | .boolLit => "bool" | .ident => "ident"
  | .ipv4Lit => "ipv4" | .strLit => "str" | .hexLit => "hex" | .intLit => "int"

def TokKind.all : List TokKind :=
  [.eof, .lparen, .rparen, .dot, .dcolon, .colon, .semi, .equals, .comma, .slash,
   .kwImport, .kwLet, .boolLit, .ident, .ipv4Lit, .strLit, .hexLit, .intLit]

def TokKind.ofName (s : String) : Option TokKind := TokKind.all.find? (fun k => k.name == s)

/-- `Loc`: 1-based line, 1-based byte column; `(0,0)` is nil -/
structure Loc where
  line : Nat
  col : Nat
  deriving DecidableEq, Repr, Inhabited

def Loc.nil : Loc := ⟨0, 0⟩

/-- `Token`: `text` is the `val` of the Rust token (empty for punctuation and keywords;
for strings the text between the quotes, merged across adjacent literals) -/
structure Tok where
  kind : TokKind
  text : String
  loc : Loc
  deriving Repr, DecidableEq, Inhabited

/-- literal values the parser can build (`Val::from_token`, `reduce_sockaddr`) -/
inductive Lit
  | bool (b : Bool) | u64 (n : Nat) | ip4 (a : Nat) | sock4 (ip : Nat) (port : Nat) | str (s : Bytes)
  deriving DecidableEq, Repr, Inhabited

structure ObjRef where
  loc : Loc
  modules : List String
  components : List String
  deriving Repr, DecidableEq, Inhabited

mutual
inductive Expr
  | nil
  | lit (loc : Loc) (v : Lit)
  | ref (o : ObjRef)
  | call (o : ObjRef) (args : Args)
  | slash (a b : Expr)
inductive Args
  | nil
  | cons (name : Option String) (e : Expr) (rest : Args)
end

instance : Inhabited Expr := ⟨.nil⟩
instance : Inhabited Args := ⟨.nil⟩

def Args.toList : Args → List (Option String × Expr)
  | .nil => []
  | .cons n e r => (n, e) :: r.toList

def Args.ofList : List (Option String × Expr) → Args
  | [] => .nil
  | (n, e) :: r => .cons n e (Args.ofList r)

def Args.snoc : Args → Option String → Expr → Args
  | .nil, n, e => .cons n e .nil
  | .cons m f r, n, e => .cons m f (r.snoc n e)

inductive Stmt
  | imp (loc : Loc) (m : String)
  | assign (loc : Loc) (target : String) (rvalue : Expr)
  | expr (e : Expr)
  deriving Inhabited

end Resynth
