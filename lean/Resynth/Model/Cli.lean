import Resynth.Model.Interp
import Resynth.Model.Lex
import Resynth.Model.LR
/-!
# Per-file driver loop (src/cli.rs `process_file`) and exit status
-/
namespace Resynth

/-- `BufRead::lines`: split at `\n`; a stripped `\n` also strips one preceding `\r`; a final
line without terminator is a line; the empty input has no lines. `cur` is the current line
reversed. -/
def splitLinesAux : Bytes → Bytes → List Bytes
  | [], cur => if cur.isEmpty then [] else [cur.reverse]
  | b :: rest, cur =>
    if b == 10 then
      let cur := if cur.head? == some 13 then cur.tail else cur
      cur.reverse :: splitLinesAux rest []
    else splitLinesAux rest (b :: cur)

def splitLines (b : Bytes) : List Bytes := splitLinesAux b []

def utf8Decode (b : Bytes) : Option String := String.fromUTF8? ⟨b.toArray⟩

inductive Outcome
  | success
  | failure (cls : String) (detail : String) (loc : Loc)
  | panic (site : String)
  deriving Repr, DecidableEq, Inhabited

structure FileRun where
  outcome : Outcome
  file : Bytes                    -- content of the output file when the process is done with it
  warnings : List Loc
  emitted : List (Nat × Bytes)
  deriving Repr, Inhabited

structure LoopSt where
  pending : Option String := none
  lexLoc : Loc := Loc.nil
  cfg : LR.Cfg := LR.Cfg.init
  st : PState

def errDetail : ErrKind → String
  | .import_ m => m | .multipleAssign n => n | _ => ""

def finish (st : PState) (o : Outcome) : FileRun :=
  ⟨o, st.wr.dropped, st.warnings, st.emitted⟩

def feedToks (cfg : LR.Cfg) : List Tok → Except (Option Loc) LR.Cfg
  | [] => .ok cfg
  | t :: ts =>
    match LR.feed cfg t with
    | .ok c => feedToks c ts
    | .parseError => .error (some t.loc)
    | .panic => .error none

/-- `Program::add_stmts`: one statement at a time (`self.add_stmt(stmt)?`).  When a statement fails, the
statements before it in the same batch have taken effect (their packets are written, their warnings
printed): the state reached so far is what the failed run leaves behind. -/
def addStmtsKeep (env : Env) : PState → List Stmt → PState × Option (Sum (ErrKind × Loc) String)
  | st, [] => (st, none)
  | st, s :: rest =>
    match addStmt env st s with
    | .ok st' => addStmtsKeep env st' rest
    | .err e loc => (st, some (.inl (e, loc)))
    | .panic p => (st, some (.inr p))

def runStmts (env : Env) (ls : LoopSt) : Except FileRun LoopSt :=
  let (stmts, cfg) := ls.cfg.takeResults
  match addStmtsKeep env ls.st stmts with
  | (st, none) => .ok { ls with cfg := cfg, st := st }
  | (st, some (.inl (e, loc))) => .error (finish st (.failure e.cls (errDetail e) loc))
  | (st, some (.inr s)) => .error (finish st (.panic s))

/-- the `for (lno, res) in rd.lines().enumerate()` loop -/
def lineLoop (env : Env) (ls : LoopSt) (lno : Nat) : List Bytes → Except FileRun LoopSt
  | [] => .ok ls
  | raw :: rest =>
    match utf8Decode raw with
    | none => .error (finish ls.st (.failure "Io" "" Loc.nil))
    | some ln =>
      match Lex.line lno ls.pending ln with
      | .error col => .error (finish ls.st (.failure "Lex" "" ⟨lno, col⟩))
      | .ok lo =>
        match feedToks ls.cfg lo.toks with
        | .error (some loc) => .error (finish ls.st (.failure "Parse" "" loc))
        | .error none => .error (finish ls.st (.panic "parser"))
        | .ok cfg =>
          match runStmts env { ls with pending := lo.pending, lexLoc := ⟨lno, lo.endCol⟩, cfg := cfg } with
          | .error r => .error r
          | .ok ls => lineLoop env ls (lno + 1) rest

/-- `process_file` once the input is open and the output created -/
def processFile (env : Env) (budget : Option Nat) (src : Bytes) : FileRun :=
  let w0 : BufW := { budget := budget }
  let (w1, ok) := w0.writeAll Pcap.header
  let st0 : PState := { wr := w1 }
  if !ok then finish st0 (.failure "Io" "" Loc.nil) else
  match lineLoop env { st := st0 } 1 (splitLines src) with
  | .error r => r
  | .ok ls =>
    -- FIX(C09): a string literal still pending at end of file is handed to the parser before EOF
    match (match Lex.finish ls.pending ls.lexLoc with
           | some t => LR.feed ls.cfg t
           | none => .ok ls.cfg) with
    | .parseError => finish ls.st (.failure "Parse" "" ls.lexLoc)
    | .panic => finish ls.st (.panic "parser")
    | .ok cfg0 =>
    match LR.feed cfg0 LR.eofTok with
    | .parseError => finish ls.st (.failure "Parse" "" ls.lexLoc)
    | .panic => finish ls.st (.panic "parser")
    | .ok cfg =>
      match runStmts env { ls with cfg := cfg } with
      | .error r => r
      | .ok ls =>
        -- FIX(C19): explicit flush before success is reported
        let (w, ok) := ls.st.wr.flushBuf
        let st := { ls.st with wr := w }
        if ok then finish st .success else finish st (.failure "Io" "" Loc.nil)

end Resynth
