import Resynth.Model.Hdr
/-!
# TCP flows (ezpkt/src/tcp4.rs)

`TcpSeg` keeps the headers symbolically and is serialised by `frame`.  Every builder
step of the Rust code (`new`, `syn`, `ack`, `push`, `append_data`, `frag_off`,
`tcp_csum`) is one function here, applied in the same order.
-/
namespace Resynth

structure TcpSeg where
  raw : Bool
  eth : Bytes
  ip : IpHdr
  tcp : TcpHdr
  data : Bytes
  sndNxt : Nat
  rcvNxt : Nat
  extraSeq : Nat := 0
  deriving Repr

namespace TcpSeg

/-- `TcpSeg::new` -/
def new (src dst : Sock) (sndNxt rcvNxt : Nat) (raw : Bool) : TcpSeg :=
  let iph : IpHdr := ({ protocol := Proto.tcp, totLen := 40, saddr := src.ip, daddr := dst.ip } : IpHdr).calcCsum
  { raw := raw
    eth := ethHdr (macOfIp dst.ip) (macOfIp src.ip) 0x0800
    ip := iph
    tcp := { sport := src.port, dport := dst.port, seq := sndNxt }
    data := []
    sndNxt := sndNxt, rcvNxt := rcvNxt }

def orFlag (s : TcpSeg) (f : Nat) : TcpSeg := { s with tcp := { s.tcp with flags := s.tcp.flags ||| f } }

def syn (s : TcpSeg) : TcpSeg := { s.orFlag TcpHdr.SYN with extraSeq := s.extraSeq + 1 }
def rst (s : TcpSeg) : TcpSeg := s.orFlag TcpHdr.RST
/-- `set_ack`: store the number and raise the ACK flag -/
def ack (s : TcpSeg) : TcpSeg := { (s.orFlag TcpHdr.ACK) with tcp := { (s.orFlag TcpHdr.ACK).tcp with ack := s.rcvNxt } }
def synAck (s : TcpSeg) : TcpSeg := { (s.orFlag TcpHdr.SYN).ack with extraSeq := s.extraSeq + 1 }
def push (s : TcpSeg) : TcpSeg := (s.orFlag TcpHdr.PSH).ack
def fin (s : TcpSeg) : TcpSeg := { s.orFlag TcpHdr.FIN with extraSeq := s.extraSeq + 1 }
def finAck (s : TcpSeg) : TcpSeg := s.fin.ack

/-- `frag_off`: patch the IP header and recompute its checksum -/
def fragOff (s : TcpSeg) (off : Nat) : TcpSeg := { s with ip := (s.ip.setFragOff off).calcCsum }

/-- `append_data` = push bytes, `data_len += len`, `update_tot_len(len as u16)` -/
def appendData (s : TcpSeg) (bytes : Bytes) : TcpSeg :=
  { s with data := s.data ++ bytes, ip := (s.ip.addTotLen (bytes.length % 65536)).calcCsum }

def pushBytes (s : TcpSeg) (bytes : Bytes) : TcpSeg := s.push.appendData bytes

/-- `csum_len`: `(data_len + 20) as u16` -/
def csumLen (s : TcpSeg) : Nat := (s.data.length % 4294967296 + 20) % 65536

/-- `tcp_csum`: pseudo-header + header + payload, folded, stored in the header -/
def tcpCsum (s : TcpSeg) : TcpSeg :=
  let ph := sum16 (pseudoHdr s.ip.saddr s.ip.daddr s.ip.protocol s.csumLen)
  let th := sum16 s.tcp.serialize
  let pl := sum16 s.data
  { s with tcp := { s.tcp with csum := csumFold (ph + th + pl) } }

def seqConsumed (s : TcpSeg) : Nat := (s.data.length + s.extraSeq) % 4294967296

def segment (s : TcpSeg) : Bytes := s.tcp.serialize ++ s.data

def frame (s : TcpSeg) : Bytes :=
  (if s.raw then [] else s.eth) ++ s.ip.serialize ++ s.segment

end TcpSeg

/-- `TcpFlow` (the `pkts` scratch vector is the result list of each operation) -/
structure TcpFlow where
  cl : Sock
  sv : Sock
  clSeq : Nat
  svSeq : Nat
  raw : Bool
  deriving Repr, DecidableEq

namespace TcpFlow

def u32 (n : Nat) : Nat := n % 4294967296

def clSeg0 (f : TcpFlow) : TcpSeg := TcpSeg.new f.cl f.sv f.clSeq f.svSeq f.raw
def svSeg0 (f : TcpFlow) : TcpSeg := TcpSeg.new f.sv f.cl f.svSeq f.clSeq f.raw

def clUpdate (f : TcpFlow) (n : Nat) : TcpFlow := { f with clSeq := u32 (f.clSeq + n) }
def svUpdate (f : TcpFlow) (n : Nat) : TcpFlow := { f with svSeq := u32 (f.svSeq + n) }

/-- `cl_tx`: advance the counter, checksum, emit -/
def clTx (f : TcpFlow) (s : TcpSeg) : TcpFlow × Bytes := (f.clUpdate s.seqConsumed, s.tcpCsum.frame)
def svTx (f : TcpFlow) (s : TcpSeg) : TcpFlow × Bytes := (f.svUpdate s.seqConsumed, s.tcpCsum.frame)

def clSeg (f : TcpFlow) (bytes : Bytes) (fragOff : Nat) : TcpSeg := (f.clSeg0.fragOff fragOff).pushBytes bytes
def svSeg (f : TcpFlow) (bytes : Bytes) (fragOff : Nat) : TcpSeg := (f.svSeg0.fragOff fragOff).pushBytes bytes

def «open» (f : TcpFlow) : TcpFlow × List Bytes :=
  let (f, a) := f.clTx f.clSeg0.syn
  let (f, b) := f.svTx f.svSeg0.synAck
  let (f, c) := f.clTx f.clSeg0.ack
  (f, [a, b, c])

def clientClose (f : TcpFlow) : TcpFlow × List Bytes :=
  let (f, a) := f.clTx f.clSeg0.finAck
  let (f, b) := f.svTx f.svSeg0.finAck
  let (f, c) := f.clTx f.clSeg0.ack
  (f, [a, b, c])

def serverClose (f : TcpFlow) : TcpFlow × List Bytes :=
  let (f, a) := f.svTx f.svSeg0.finAck
  let (f, b) := f.clTx f.clSeg0.finAck
  let (f, c) := f.svTx f.svSeg0.ack
  (f, [a, b, c])

def clientReset (f : TcpFlow) : Bytes := f.clSeg0.rst.tcpCsum.frame
def serverReset (f : TcpFlow) : Bytes := f.svSeg0.rst.tcpCsum.frame

def clientMessage (f : TcpFlow) (bytes : Bytes) (sendAck : Bool) (fragOff : Nat) : TcpFlow × List Bytes :=
  let (f, a) := f.clTx (f.clSeg bytes fragOff)
  if sendAck then
    let (f, b) := f.svTx f.svSeg0.ack
    (f, [a, b])
  else (f, [a])

def serverMessage (f : TcpFlow) (bytes : Bytes) (sendAck : Bool) (fragOff : Nat) : TcpFlow × List Bytes :=
  let (f, a) := f.svTx (f.svSeg bytes fragOff)
  if sendAck then
    let (f, b) := f.clTx f.clSeg0.ack
    (f, [a, b])
  else (f, [a])

/-- `client_data_segment` returns the (checksummed) segment object -/
def clientDataSegment (f : TcpFlow) (bytes : Bytes) : TcpFlow × TcpSeg :=
  let s := f.clSeg bytes 0
  (f.clUpdate s.seqConsumed, s.tcpCsum)
def serverDataSegment (f : TcpFlow) (bytes : Bytes) : TcpFlow × TcpSeg :=
  let s := f.svSeg bytes 0
  (f.svUpdate s.seqConsumed, s.tcpCsum)

def clientAck (f : TcpFlow) : Bytes := f.clSeg0.ack.tcpCsum.frame
def serverAck (f : TcpFlow) : Bytes := f.svSeg0.ack.tcpCsum.frame

/-- `client_hdr`: header bytes only (no checksum), counter advances by `dlen` -/
def clientHdr (f : TcpFlow) (dlen : Nat) : TcpFlow × Bytes :=
  let s := f.clSeg0.push
  (f.clUpdate (u32 (s.seqConsumed + dlen)), s.tcp.serialize)
def serverHdr (f : TcpFlow) (dlen : Nat) : TcpFlow × Bytes :=
  let s := f.svSeg0.push
  (f.svUpdate (u32 (s.seqConsumed + dlen)), s.tcp.serialize)

def clientHole (f : TcpFlow) (n : Nat) : TcpFlow := f.clUpdate n
def serverHole (f : TcpFlow) (n : Nat) : TcpFlow := f.svUpdate n

/-- `push_state`: `seq:` overrides the client counter, `ack:` the server counter,
for client- and server-originated calls alike (src/stdlib/ipv4/tcp.rs passes `(seq, ack)`
to `push_state(cl_seq, sv_seq)` in every method). Returns the saved values. -/
def pushState (f : TcpFlow) (cl sv : Option Nat) : TcpFlow × (Option Nat × Option Nat) :=
  ({ f with clSeq := cl.getD f.clSeq, svSeq := sv.getD f.svSeq },
   (cl.map fun _ => f.clSeq, sv.map fun _ => f.svSeq))

def popState (f : TcpFlow) (st : Option Nat × Option Nat) : TcpFlow :=
  { f with clSeq := st.1.getD f.clSeq, svSeq := st.2.getD f.svSeq }

end TcpFlow
end Resynth
