import Resynth.Model.Cli
/-!
# The command line loop over several inputs (src/cli.rs `resynth()`, the part after argument parsing)

For each input in command-line order: derive the output path from the input's file stem (`--out-dir`
mode), run `process_file`, print one report, remove the output of a failed run unless `--keep`; the
exit status is 1 as soon as any input failed, whatever comes after it.

What the file system contributes is made explicit per input: whether the input can be opened and
opened (`src = none`: missing file) or read (`unreadable`: a directory, an I/O error), whether the
output file can be created (`outOk`), and how many bytes the output device accepts (`budget`, as in
`processFile`).  Two inputs with the same stem share one output path: the later run truncates and
replaces what the earlier one left (`File::create`).
-/
namespace Resynth

structure Input where
  /-- `Path::file_stem` of the input path; `none` for paths without a file name (`..`, `/`) -/
  stem : Option String
  /-- the bytes of the input file; `none` when it cannot be opened (missing file) -/
  src : Option Bytes
  /-- the input opens but reading it fails at once (a directory, an I/O error): by then the output has been created -/
  unreadable : Bool := false
  /-- the output file can be created -/
  outOk : Bool := true
  /-- bytes the output device accepts (`none`: unlimited) -/
  budget : Option Nat := none
  deriving Repr, Inhabited

/-- what is printed for one input -/
inductive Report
  | ok
  /-- `<input>[:line:col]: error: process_file: <class>` -/
  | error (cls : String) (detail : String) (loc : Loc)
  /-- `<input>: error: not a file name` -/
  | notAFileName
  /-- the process died while working on this input (nothing after it runs) -/
  | panic (site : String)
  deriving Repr, DecidableEq, Inhabited

def Report.failed : Report → Bool
  | .ok => false
  | _ => true

/-- the output directory: stem ↦ content of `<stem>.pcap` -/
abbrev OutDir := List (String × Bytes)

def OutDir.put (d : OutDir) (k : String) (v : Bytes) : OutDir := (k, v) :: d.filter (·.1 != k)
def OutDir.del (d : OutDir) (k : String) : OutDir := d.filter (·.1 != k)
def OutDir.get? (d : OutDir) (k : String) : Option Bytes := (d.find? (·.1 == k)).map (·.2)

/-- `out.push(stem); out.set_extension("pcap")`: `set_extension` first drops what it takes for an extension of the stem
(everything after the last `.` that is not the first character), so `a.b.rsyn` is compiled to `a.pcap` -/
def outName (stem : String) : String :=
  let cs := stem.toList
  match cs.reverse.dropWhile (· != '.') with
  | [] => stem                       -- no dot at all
  | _ :: revPrefix => if revPrefix.isEmpty then stem else String.ofList revPrefix.reverse   -- a leading dot is not an extension

/-- one input: its report and what it does to the output directory -/
def runInput (env : Env) (keep : Bool) (d : OutDir) (i : Input) : Report × OutDir :=
  match i.stem with
  | none => (.notAFileName, d)
  | some stem0 =>
    let stem := outName stem0
    match i.src with
    | none => (.error "Io" "" Loc.nil, if keep then d else d.del stem)      -- `File::open(inp)?`; then `remove_file(out)`
    | some src =>
      if !i.outOk then (.error "Io" "" Loc.nil, d)     -- `PcapWriter::create(out)?` fails; nothing there to remove (or not removable either)
      else if i.unreadable then
        -- the pcap header has been written when the first `read` fails; the writer is flushed when it is dropped
        (.error "Io" "" Loc.nil, if keep then d.put stem (processFile env i.budget []).file else d.del stem)
      else
        let r := processFile env i.budget src
        match r.outcome with
        | .success => (.ok, d.put stem r.file)
        | .failure cls detail loc => (.error cls detail loc, if keep then d.put stem r.file else d.del stem)
        | .panic site => (.panic site, d.put stem r.file)

structure BatchRun where
  reports : List Report
  dir : OutDir
  exit : Nat
  deriving Repr, Inhabited

/-- the loop; a panic ends the process (exit status 101) and nothing after it runs -/
def runBatchFrom (env : Env) (keep : Bool) : OutDir → List Input → List Report → Bool → BatchRun
  | d, [], acc, failed => ⟨acc.reverse, d, if failed then 1 else 0⟩
  | d, i :: rest, acc, failed =>
    match runInput env keep d i with
    | (.panic s, d') => ⟨(Report.panic s :: acc).reverse, d', 101⟩
    | (r, d') => runBatchFrom env keep d' rest (r :: acc) (failed || r.failed)

/-- `resynth [-k] --out-dir D in₁ in₂ …` with `D` initially holding `d0` -/
def runBatch (env : Env) (keep : Bool) (d0 : OutDir) (inputs : List Input) : BatchRun :=
  runBatchFrom env keep d0 inputs [] false

end Resynth
