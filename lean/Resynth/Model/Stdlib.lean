import Resynth.Model.Bind
import Resynth.Model.Flows
/-!
# Standard library function bodies (src/stdlib/**/*.rs)

One arm of `exec` per library function, keyed by its path in the symbol table.
The signature table itself (`Lib`) is *generated* from /repo on every run.
-/
namespace Resynth

/-- heap objects: the `Obj` implementors -/
inductive Obj
  | tcp (f : TcpFlow) | udp (f : UdpFlow) | icmp (f : IcmpFlow) | frag (f : IpFrag)
  | vxlan (f : VxlanFlow) | gre (f : GreFlow) | erspan1 (f : Erspan1Flow) | erspan2 (f : Erspan2Flow)
  | bufio (buf : Bytes) (taken : Nat)
  deriving Repr, DecidableEq, Inhabited

abbrev Heap := List Obj

inductive ErrKind
  | io | lex | parse | memory | import_ (m : String) | name | type_ | runtime | multipleAssign (n : String)
  deriving Repr, DecidableEq, Inhabited

def ErrKind.cls : ErrKind → String
  | .io => "Io" | .lex => "Lex" | .parse => "Parse" | .memory => "Memory" | .import_ _ => "Import"
  | .name => "Name" | .type_ => "Type" | .runtime => "Runtime" | .multipleAssign _ => "MultipleAssign"

inductive Res (α : Type)
  | ok (a : α)
  | err (e : ErrKind) (loc : Loc)
  | panic (site : String)
  deriving Repr, Inhabited

instance : Monad Res where
  pure := .ok
  bind x f := match x with | .ok a => f a | .err e l => .err e l | .panic s => .panic s

def Res.ofOpt {α} (site : String) : Option α → Res α
  | some a => .ok a
  | none => .panic site

/-- class path of each object kind (`Class::def`) -/
def Obj.cls : Obj → String
  | .tcp _ => "ipv4::tcp::TcpFlow" | .udp _ => "ipv4::udp::UdpFlow" | .icmp _ => "ipv4::icmp::Icmp"
  | .frag _ => "ipv4::IpFrag" | .vxlan _ => "vxlan::Vxlan" | .gre _ => "gre::Gre"
  | .erspan1 _ => "erspan1::Erspan1" | .erspan2 _ => "erspan2::Erspan2" | .bufio .. => "io::BufIO"

def pktOf (frame : Bytes) : Val := .pkt (Packet.ofFrame frame)
def pktsOf (frames : List Bytes) : Val := .pktgen (frames.map Packet.ofFrame)

/-- `Args::join_extra` -/
def joinExtra (extra : List Val) (sep : Bytes) : Res Bytes := do
  let bufs ← extra.mapM (fun v => Res.ofOpt "join_extra: Buf::from" v.toBuf?)
  pure (sep.intercalate bufs)

def allocObj (h : Heap) (o : Obj) : Val × Heap := (.obj h.length o.cls, h ++ [o])

def setObj (h : Heap) (i : Nat) (o : Obj) : Heap := h.set i o

/-- `DnsName::from`: labels split on '.', each length-prefixed, terminated by 0 -/
def dnsSplit (name : Bytes) : List Bytes :=
  let (cur, acc) := name.foldl (fun (p : Bytes × List Bytes) c =>
    if c == 46 then ([], p.2 ++ [p.1]) else (p.1 ++ [c], p.2)) ([], [])
  acc ++ [cur]
def dnsLabel (l : Bytes) : Bytes := b8 l.length :: l
def dnsNameFrom (name : Bytes) : Bytes := (dnsSplit name).flatMap dnsLabel ++ [0]

/-- `DnsFlags` builder chain used by `dns::flags` and `netbios::ns::flags` -/
def dnsFlags (opcode : Nat) (response aa tc rd ra z ad cd : Bool) (rcode : Nat) : Nat :=
  (if response then 0x8000 else 0) ||| ((opcode &&& 0xf) <<< 11) |||
  (if aa then 0x0400 else 0) ||| (if tc then 0x0200 else 0) ||| (if rd then 0x0100 else 0) |||
  (if ra then 0x0080 else 0) ||| (if z then 0x0040 else 0) ||| (if ad then 0x0020 else 0) |||
  (if cd then 0x0010 else 0) ||| (rcode &&& 0xf)

def dnsHdr (id flags qd an ns ar : Nat) : Bytes :=
  be16 id ++ be16 flags ++ be16 qd ++ be16 an ++ be16 ns ++ be16 ar

/-- `dns::host` message bodies -/
def dnsHostQuery (qname : Bytes) : Bytes :=
  dnsHdr 0x1234 0x0100 1 0 0 0 ++ qname ++ be16 1 ++ be16 1
def dnsHostResponse (qname : Bytes) (ttl : Nat) (ips : List Nat) : Bytes :=
  dnsHdr 0x1234 0x8080 1 (ips.length % 65536) 0 0 ++ qname ++ be16 1 ++ be16 1 ++
  ips.flatMap (fun ip => qname ++ be16 1 ++ be16 1 ++ be32 ttl ++ be16 4 ++ be32 ip)

/-- `netbios::name::encode` -/
def netbiosEncode (name : Bytes) (suffix : Nat) : Option Bytes :=
  if name.length + 1 > 16 then none
  else
    let padded := name ++ List.replicate (15 - name.length) (32 : UInt8) ++ [b8 suffix]
    some (padded.flatMap fun c => [b8 (c.toNat / 16 + 65), b8 (c.toNat % 16 + 65)])

def tlsHello (typ : Nat) (version : Nat) (random : Bytes) (mid : Bytes) (ext : Bytes) : Bytes :=
  let hlen := 34 + mid.length + (if ext.length > 0 then 2 else 0) + ext.length
  [b8 typ] ++ be24 hlen ++ be16 version ++ random ++ mid ++
  (if ext.length > 0 then be16 ext.length ++ ext else [])

def str (s : String) : Bytes := s.toUTF8.toList

/-- look up a file by name in the given file system (`io::file`) -/
abbrev Fs := List (Bytes × Bytes)
def Fs.read (fs : Fs) (name : Bytes) : Option Bytes := (fs.find? (fun e => e.1 == name)).map (·.2)

section exec
open Val

private def P := "args.next()/conversion"

/-- helper: the object `this` refers to -/
def getThis (h : Heap) (this : Option Nat) : Res (Nat × Obj) :=
  match this with
  | none => .panic "take_this: None"
  | some i => match h[i]? with
    | some o => .ok (i, o)
    | none => .panic "take_this: dangling"

def tcpOverride (f : TcpFlow) (seq ack : Val) : Res (TcpFlow × (Option Nat × Option Nat)) := do
  let s ← Res.ofOpt P seq.toOptU32?
  let a ← Res.ofOpt P ack.toOptU32?
  pure (f.pushState s a)

/-- the encapsulation loop shared by the four tunnel classes -/
def encapLoop {σ} (step : σ → Bytes → σ × Bytes) : σ → List Packet → σ × List Bytes
  | s, [] => (s, [])
  | s, p :: ps =>
    let (s1, o) := step s p.frame
    let (s2, os) := encapLoop step s1 ps
    (s2, o :: os)

def exec (fs : Fs) (path : String) (this : Option Nat) (av : ArgVec) (h : Heap) : Res (Val × Heap) :=
  let a := av.args
  let x := av.extra
  match path, a with
  -- std
  | "std::be16", [v] => do pure (.str (be16 (← Res.ofOpt P v.toU16?)), h)
  | "std::be32", [v] => do pure (.str (be32 (← Res.ofOpt P v.toU32?)), h)
  | "std::be64", [v] => do pure (.str (be64 (← Res.ofOpt P v.toU64?)), h)
  | "std::le16", [v] => do pure (.str (le16 (← Res.ofOpt P v.toU16?)), h)
  | "std::le32", [v] => do pure (.str (le32 (← Res.ofOpt P v.toU32?)), h)
  | "std::le64", [v] => do pure (.str (le64 (← Res.ofOpt P v.toU64?)), h)
  | "std::u8", [v] => do pure (.str [b8 (← Res.ofOpt P v.toU8?)], h)
  | "std::len_be64", [] => do let b ← joinExtra x []; pure (.str (be64 b.length ++ b), h)
  | "std::len_be32", [] => do let b ← joinExtra x []; pure (.str (be32 b.length ++ b), h)
  | "std::len_be16", [] => do let b ← joinExtra x []; pure (.str (be16 b.length ++ b), h)
  | "std::len_u8", [] => do let b ← joinExtra x []; pure (.str (b8 b.length :: b), h)
  -- text
  | "text::concat", [] => do pure (.str (← joinExtra x []), h)
  | "text::crlflines", [] => do pure (.str (← joinExtra x [13, 10]), h)
  | "text::len", [] => do pure (.u64 (← joinExtra x []).length, h)
  -- io
  | "io::file", [name] => do
    let n ← Res.ofOpt P name.toBuf?
    match fs.read n with
    | some b => pure (.str b, h)
    | none => .err .io Loc.nil
  | "io::bufio", [] => do
    let b ← joinExtra x []
    pure (allocObj h (.bufio b 0))
  | "io::BufIO.read", [n] => do
    let n ← Res.ofOpt P n.toU64?
    let (i, o) ← getThis h this
    match o with
    | .bufio buf taken =>
      let take := min (buf.length - taken) n
      pure (.str ((buf.drop taken).take take), setObj h i (.bufio buf (taken + take)))
    | _ => .panic "downcast"
  | "io::BufIO.read_all", [] => do
    let (i, o) ← getThis h this
    match o with
    | .bufio buf taken => pure (.str (buf.drop taken), setObj h i (.bufio buf buf.length))
    | _ => .panic "downcast"
  -- time
  | "time::jump_seconds", [v] => do pure (.timejump ((← Res.ofOpt P v.toU32?) * 1000000000), h)
  | "time::jump_millis", [v] => do
    let n := (← Res.ofOpt P v.toU64?) * 1000000
    if n < 18446744073709551616 then pure (.timejump n, h) else .err .runtime Loc.nil
  | "time::jump_micros", [v] => do
    let n := (← Res.ofOpt P v.toU64?) * 1000
    if n < 18446744073709551616 then pure (.timejump n, h) else .err .runtime Loc.nil
  | "time::jump_nanos", [v] => do pure (.timejump (← Res.ofOpt P v.toU64?), h)
  -- eth
  | "eth::frame", [src, dst, et] => do
    let src ← Res.ofOpt P src.toBuf?
    let dst ← Res.ofOpt P dst.toBuf?
    let et ← Res.ofOpt P et.toU16?
    let data ← joinExtra x []
    if src.length != 6 then .err .runtime Loc.nil
    else if dst.length != 6 then .err .runtime Loc.nil
    else pure (pktOf (ethHdr dst src et ++ data), h)
  | "eth::from_ip", [ip] => do pure (.str (macOfIp (← Res.ofOpt P ip.toIp?)), h)
  -- ipv4
  | "ipv4::datagram", [src, dst, id, evil, df, mf, ttl, fo, proto] => do
    let data ← joinExtra x []
    pure (pktOf (ipv4Datagram (← Res.ofOpt P src.toIp?) (← Res.ofOpt P dst.toIp?) (← Res.ofOpt P id.toU16?)
      (← Res.ofOpt P evil.toBool?) (← Res.ofOpt P df.toBool?) (← Res.ofOpt P mf.toBool?)
      (← Res.ofOpt P ttl.toU8?) (← Res.ofOpt P fo.toU16?) (← Res.ofOpt P proto.toU8?) data), h)
  | "ipv4::frag", [src, dst, id, evil, df, ttl, proto] => do
    let payload ← joinExtra x []
    let h0 : IpHdr := { id := ← Res.ofOpt P id.toU16? }
    let h1 := (h0.setEvil (← Res.ofOpt P evil.toBool?)).setDf (← Res.ofOpt P df.toBool?)
    let hdr : IpHdr := { h1 with ttl := ← Res.ofOpt P ttl.toU8?, protocol := ← Res.ofOpt P proto.toU8?,
                                 saddr := ← Res.ofOpt P src.toIp?, daddr := ← Res.ofOpt P dst.toIp? }
    pure (allocObj h (.frag ⟨hdr, payload⟩))
  | "ipv4::IpFrag.fragment", [off, len, raw] => do
    let (_, o) ← getThis h this
    match o with
    | .frag f => pure (pktOf (f.fragment (← Res.ofOpt P off.toU16?) (← Res.ofOpt P len.toU16?) (← Res.ofOpt P raw.toBool?)), h)
    | _ => .panic "downcast"
  | "ipv4::IpFrag.tail", [off, raw] => do
    let (_, o) ← getThis h this
    match o with
    | .frag f => pure (pktOf (f.tail (← Res.ofOpt P off.toU16?) (← Res.ofOpt P raw.toBool?)), h)
    | _ => .panic "downcast"
  | "ipv4::IpFrag.datagram", [raw] => do
    let (_, o) ← getThis h this
    match o with
    | .frag f => pure (pktOf (f.datagram (← Res.ofOpt P raw.toBool?)), h)
    | _ => .panic "downcast"
  -- tcp
  | "ipv4::tcp::flow", [cl, sv, cs, ss, raw] => do
    pure (allocObj h (.tcp ⟨← Res.ofOpt P cl.toSock?, ← Res.ofOpt P sv.toSock?, ← Res.ofOpt P cs.toU32?,
      ← Res.ofOpt P ss.toU32?, ← Res.ofOpt P raw.toBool?⟩))
  | "ipv4::tcp::TcpFlow.open", [] => do
    let (i, o) ← getThis h this
    match o with | .tcp f => let (f, ps) := f.open; pure (pktsOf ps, setObj h i (.tcp f)) | _ => .panic "downcast"
  | "ipv4::tcp::TcpFlow.client_close", [] => do
    let (i, o) ← getThis h this
    match o with | .tcp f => let (f, ps) := f.clientClose; pure (pktsOf ps, setObj h i (.tcp f)) | _ => .panic "downcast"
  | "ipv4::tcp::TcpFlow.server_close", [] => do
    let (i, o) ← getThis h this
    match o with | .tcp f => let (f, ps) := f.serverClose; pure (pktsOf ps, setObj h i (.tcp f)) | _ => .panic "downcast"
  | "ipv4::tcp::TcpFlow.client_reset", [] => do
    let (_, o) ← getThis h this
    match o with | .tcp f => pure (pktOf f.clientReset, h) | _ => .panic "downcast"
  | "ipv4::tcp::TcpFlow.server_reset", [] => do
    let (_, o) ← getThis h this
    match o with | .tcp f => pure (pktOf f.serverReset, h) | _ => .panic "downcast"
  | "ipv4::tcp::TcpFlow.client_message", [sa, seq, ack, fo] => do
    let (i, o) ← getThis h this
    match o with
    | .tcp f =>
      let bytes ← joinExtra x []
      let (f, saved) ← tcpOverride f seq ack
      let (f, ps) := f.clientMessage bytes (← Res.ofOpt P sa.toBool?) (← Res.ofOpt P fo.toU16?)
      pure (pktsOf ps, setObj h i (.tcp (f.popState saved)))
    | _ => .panic "downcast"
  | "ipv4::tcp::TcpFlow.server_message", [sa, seq, ack, fo] => do
    let (i, o) ← getThis h this
    match o with
    | .tcp f =>
      let bytes ← joinExtra x []
      let (f, saved) ← tcpOverride f seq ack
      let (f, ps) := f.serverMessage bytes (← Res.ofOpt P sa.toBool?) (← Res.ofOpt P fo.toU16?)
      pure (pktsOf ps, setObj h i (.tcp (f.popState saved)))
    | _ => .panic "downcast"
  | "ipv4::tcp::TcpFlow.client_segment", [seq, ack] => do
    let (i, o) ← getThis h this
    match o with
    | .tcp f =>
      let bytes ← joinExtra x []
      let (f, saved) ← tcpOverride f seq ack
      let (f, s) := f.clientDataSegment bytes
      pure (pktOf s.frame, setObj h i (.tcp (f.popState saved)))
    | _ => .panic "downcast"
  | "ipv4::tcp::TcpFlow.server_segment", [seq, ack] => do
    let (i, o) ← getThis h this
    match o with
    | .tcp f =>
      let bytes ← joinExtra x []
      let (f, saved) ← tcpOverride f seq ack
      let (f, s) := f.serverDataSegment bytes
      pure (pktOf s.frame, setObj h i (.tcp (f.popState saved)))
    | _ => .panic "downcast"
  | "ipv4::tcp::TcpFlow.client_raw_segment", [seq, ack] => do
    let (i, o) ← getThis h this
    match o with
    | .tcp f =>
      let bytes ← joinExtra x []
      let (f, saved) ← tcpOverride f seq ack
      let (f, s) := f.clientDataSegment bytes
      pure (.str s.segment, setObj h i (.tcp (f.popState saved)))
    | _ => .panic "downcast"
  | "ipv4::tcp::TcpFlow.server_raw_segment", [seq, ack] => do
    let (i, o) ← getThis h this
    match o with
    | .tcp f =>
      let bytes ← joinExtra x []
      let (f, saved) ← tcpOverride f seq ack
      let (f, s) := f.serverDataSegment bytes
      pure (.str s.segment, setObj h i (.tcp (f.popState saved)))
    | _ => .panic "downcast"
  | "ipv4::tcp::TcpFlow.client_hdr", [n] => do
    let (i, o) ← getThis h this
    match o with
    | .tcp f => let (f, b) := f.clientHdr (← Res.ofOpt P n.toU32?); pure (.str b, setObj h i (.tcp f))
    | _ => .panic "downcast"
  | "ipv4::tcp::TcpFlow.server_hdr", [n] => do
    let (i, o) ← getThis h this
    match o with
    | .tcp f => let (f, b) := f.serverHdr (← Res.ofOpt P n.toU32?); pure (.str b, setObj h i (.tcp f))
    | _ => .panic "downcast"
  | "ipv4::tcp::TcpFlow.client_ack", [seq, ack] => do
    let (i, o) ← getThis h this
    match o with
    | .tcp f =>
      let (f, saved) ← tcpOverride f seq ack
      pure (pktOf f.clientAck, setObj h i (.tcp (f.popState saved)))
    | _ => .panic "downcast"
  | "ipv4::tcp::TcpFlow.server_ack", [seq, ack] => do
    let (i, o) ← getThis h this
    match o with
    | .tcp f =>
      let (f, saved) ← tcpOverride f seq ack
      pure (pktOf f.serverAck, setObj h i (.tcp (f.popState saved)))
    | _ => .panic "downcast"
  | "ipv4::tcp::TcpFlow.client_hole", [n] => do
    let (i, o) ← getThis h this
    match o with
    | .tcp f => pure (.nil, setObj h i (.tcp (f.clientHole (← Res.ofOpt P n.toU32?))))
    | _ => .panic "downcast"
  | "ipv4::tcp::TcpFlow.server_hole", [n] => do
    let (i, o) ← getThis h this
    match o with
    | .tcp f => pure (.nil, setObj h i (.tcp (f.serverHole (← Res.ofOpt P n.toU32?))))
    | _ => .panic "downcast"
  -- udp
  | "ipv4::udp::flow", [cl, sv, raw] => do
    pure (allocObj h (.udp ⟨← Res.ofOpt P cl.toSock?, ← Res.ofOpt P sv.toSock?, ← Res.ofOpt P raw.toBool?⟩))
  | "ipv4::udp::broadcast", [src, dst, srcip, raw] => do
    let buf ← joinExtra x []
    pure (pktOf (udpBroadcast (← Res.ofOpt P src.toSock?) (← Res.ofOpt P dst.toSock?)
      (← Res.ofOpt P srcip.toOptIp?) (← Res.ofOpt P raw.toBool?) buf), h)
  | "ipv4::udp::unicast", [src, dst, raw] => do
    let buf ← joinExtra x []
    pure (pktOf (udpUnicast (← Res.ofOpt P src.toSock?) (← Res.ofOpt P dst.toSock?) (← Res.ofOpt P raw.toBool?) buf), h)
  | "ipv4::udp::hdr", [src, dst, len, csum] => do
    pure (.str (UdpHdr.serialize ⟨← Res.ofOpt P src.toU16?, ← Res.ofOpt P dst.toU16?,
      ((← Res.ofOpt P len.toU16?) + 8) % 65536, ← Res.ofOpt P csum.toU16?⟩), h)
  | "ipv4::udp::UdpFlow.client_dgram", [fo, cs] => do
    let (_, o) ← getThis h this
    match o with
    | .udp f => let b ← joinExtra x []
                pure (pktOf (f.dgramCall true (← Res.ofOpt P fo.toU16?) (← Res.ofOpt P cs.toBool?) b), h)
    | _ => .panic "downcast"
  | "ipv4::udp::UdpFlow.server_dgram", [fo, cs] => do
    let (_, o) ← getThis h this
    match o with
    | .udp f => let b ← joinExtra x []
                pure (pktOf (f.dgramCall false (← Res.ofOpt P fo.toU16?) (← Res.ofOpt P cs.toBool?) b), h)
    | _ => .panic "downcast"
  | "ipv4::udp::UdpFlow.client_raw_dgram", [cs] => do
    let (_, o) ← getThis h this
    match o with
    | .udp f => let b ← joinExtra x []
                pure (.str (f.rawDgramCall true (← Res.ofOpt P cs.toBool?) b), h)
    | _ => .panic "downcast"
  | "ipv4::udp::UdpFlow.server_raw_dgram", [cs] => do
    let (_, o) ← getThis h this
    match o with
    | .udp f => let b ← joinExtra x []
                pure (.str (f.rawDgramCall false (← Res.ofOpt P cs.toBool?) b), h)
    | _ => .panic "downcast"
  -- icmp
  | "ipv4::icmp::flow", [cl, sv, raw] => do
    pure (allocObj h (.icmp { cl := ← Res.ofOpt P cl.toIp?, sv := ← Res.ofOpt P sv.toIp?, raw := ← Res.ofOpt P raw.toBool? }))
  | "ipv4::icmp::Icmp.echo", [payload] => do
    let (i, o) ← getThis h this
    match o with
    | .icmp f => let (f, p) := f.echo (← Res.ofOpt P payload.toBuf?); pure (pktOf p, setObj h i (.icmp f))
    | _ => .panic "downcast"
  | "ipv4::icmp::Icmp.echo_reply", [payload] => do
    let (i, o) ← getThis h this
    match o with
    | .icmp f => let (f, p) := f.echoReply (← Res.ofOpt P payload.toBuf?); pure (pktOf p, setObj h i (.icmp f))
    | _ => .panic "downcast"
  -- dns
  | "dns::name", [complete] => do
    let c ← Res.ofOpt P complete.toBool?
    let v ← x.mapM (fun e => Res.ofOpt P e.toBuf?)
    let name :=
      if c then
        match v with
        | [] => [0]
        | [one] => dnsNameFrom one
        | _ => v.flatMap dnsLabel ++ [0]
      else v.flatMap dnsLabel
    pure (.str name, h)
  | "dns::pointer", [off] => do
    let p ← Res.ofOpt P off.toU16?
    pure (.str [b8 (0xc0 ||| (p / 256) % 256), b8 p], h)
  | "dns::flags", [op, r, aa, tc, rd, ra, z, ad, cd, rc] => do
    pure (.u16 (dnsFlags (← Res.ofOpt P op.toU8?) (← Res.ofOpt P r.toBool?) (← Res.ofOpt P aa.toBool?)
      (← Res.ofOpt P tc.toBool?) (← Res.ofOpt P rd.toBool?) (← Res.ofOpt P ra.toBool?) (← Res.ofOpt P z.toBool?)
      (← Res.ofOpt P ad.toBool?) (← Res.ofOpt P cd.toBool?) (← Res.ofOpt P rc.toU8?)), h)
  | "netbios::ns::flags", [op, r, aa, tc, rd, ra, z, ad, cd, rc] => do
    pure (.u16 (dnsFlags (← Res.ofOpt P op.toU8?) (← Res.ofOpt P r.toBool?) (← Res.ofOpt P aa.toBool?)
      (← Res.ofOpt P tc.toBool?) (← Res.ofOpt P rd.toBool?) (← Res.ofOpt P ra.toBool?) (← Res.ofOpt P z.toBool?)
      (← Res.ofOpt P ad.toBool?) (← Res.ofOpt P cd.toBool?) (← Res.ofOpt P rc.toU8?)), h)
  | "dns::hdr", [id, fl, qd, an, ns, ar] => do
    pure (.str (dnsHdr (← Res.ofOpt P id.toU16?) (← Res.ofOpt P fl.toU16?) (← Res.ofOpt P qd.toU16?)
      (← Res.ofOpt P an.toU16?) (← Res.ofOpt P ns.toU16?) (← Res.ofOpt P ar.toU16?)), h)
  | "dns::question", [name, qt, qc] => do
    pure (.str ((← Res.ofOpt P name.toBuf?) ++ be16 (← Res.ofOpt P qt.toU16?) ++ be16 (← Res.ofOpt P qc.toU16?)), h)
  | "dns::answer", [name, aty, ac, ttl] => do
    let data ← joinExtra x []
    pure (.str ((← Res.ofOpt P name.toBuf?) ++ be16 (← Res.ofOpt P aty.toU16?) ++ be16 (← Res.ofOpt P ac.toU16?) ++
      be32 (← Res.ofOpt P ttl.toU32?) ++ be16 data.length ++ data), h)
  | "dns::host", [client, qname, ttl, ns, raw] => do
    let client ← Res.ofOpt P client.toIp?
    let qn := dnsNameFrom (← Res.ofOpt P qname.toBuf?)
    let ttl ← Res.ofOpt P ttl.toU32?
    let ns ← Res.ofOpt P ns.toIp?
    let raw ← Res.ofOpt P raw.toBool?
    let ips ← x.mapM (fun e => Res.ofOpt P e.toIp?)
    let flow : UdpFlow := ⟨⟨client, 32768⟩, ⟨ns, 53⟩, raw⟩
    pure (pktsOf [(flow.clientDgram (dnsHostQuery qn)).csum.frame,
                  (flow.serverDgram (dnsHostResponse qn ttl ips)).csum.frame], h)
  -- netbios
  | "netbios::name::encode", [suffix] => do
    let data ← joinExtra x []
    match netbiosEncode data (← Res.ofOpt P suffix.toU8?) with
    | some r => pure (.str r, h)
    | none => .err .runtime Loc.nil
  -- dhcp
  | "dhcp::hdr", [op, ht, hl, hops, xid, ci, yi, si, gi, ch, sn, fl, magic] => do
    pure (.str (dhcpHdr (← Res.ofOpt P op.toU8?) (← Res.ofOpt P ht.toU8?) (← Res.ofOpt P hl.toU8?)
      (← Res.ofOpt P hops.toU8?) (← Res.ofOpt P xid.toU32?) (← Res.ofOpt P ci.toIp?) (← Res.ofOpt P yi.toIp?)
      (← Res.ofOpt P si.toIp?) (← Res.ofOpt P gi.toIp?) (← Res.ofOpt P ch.toOptBuf?) (← Res.ofOpt P sn.toOptBuf?)
      (← Res.ofOpt P fl.toOptBuf?) (← Res.ofOpt P magic.toU32?)), h)
  | "dhcp::option", [opt] => do
    let data ← joinExtra x []
    pure (.str ([b8 (← Res.ofOpt P opt.toU8?), b8 data.length] ++ data), h)
  -- tls
  | "tls::message", [ver, content] => do
    let b ← joinExtra x []
    pure (.str ([b8 (← Res.ofOpt P content.toU8?)] ++ be16 (← Res.ofOpt P ver.toU16?) ++ be16 b.length ++ b), h)
  | "tls::extension", [ext] => do
    let b ← joinExtra x []
    pure (.str (be16 (← Res.ofOpt P ext.toU16?) ++ be16 b.length ++ b), h)
  | "tls::ciphers", [] => do
    let ids ← x.mapM (fun e => Res.ofOpt P e.toU16?)
    pure (.str (be16 (ids.length * 2) ++ ids.flatMap be16), h)
  | "tls::client_hello", [ver, sid, ciphers, comp] => do
    let ext ← joinExtra x []
    let mid := (← Res.ofOpt P sid.toBuf?) ++ (← Res.ofOpt P ciphers.toBuf?) ++ (← Res.ofOpt P comp.toBuf?)
    pure (.str (tlsHello 1 (← Res.ofOpt P ver.toU16?) (str "_client__random__client__random_") mid ext), h)
  | "tls::server_hello", [ver, sid, cipher, comp] => do
    let ext ← joinExtra x []
    let mid := (← Res.ofOpt P sid.toBuf?) ++ be16 (← Res.ofOpt P cipher.toU16?) ++ [b8 (← Res.ofOpt P comp.toU8?)]
    pure (.str (tlsHello 2 (← Res.ofOpt P ver.toU16?) (str "_server__random__server__random_") mid ext), h)
  | "tls::sni", [] => do
    let names ← x.mapM (fun e => Res.ofOpt P e.toBuf?)
    let namesLen := (names.map List.length).sum
    let listLen := 3 * names.length + namesLen
    pure (.str (be16 0 ++ be16 (2 + listLen) ++ be16 listLen ++
      names.flatMap (fun n => [0] ++ be16 n.length ++ n)), h)
  | "tls::certificates", [] => do
    let certs ← x.mapM (fun e => Res.ofOpt P e.toBuf?)
    let certsLen := (certs.map List.length).sum
    let listLen := 3 * certs.length + certsLen
    pure (.str ([11] ++ be24 (3 + listLen) ++ be24 listLen ++ certs.flatMap (fun c => be24 c.length ++ c)), h)
  -- tunnels
  | "vxlan::session", [cl, sv, vni, raw] => do
    pure (allocObj h (.vxlan ⟨← Res.ofOpt P cl.toSock?, ← Res.ofOpt P sv.toSock?, ← Res.ofOpt P vni.toU32?, ← Res.ofOpt P raw.toBool?⟩))
  | "vxlan::Vxlan.dgram", [p] => do
    let (_, o) ← getThis h this
    match o with
    | .vxlan f => pure (pktOf (f.encap (← Res.ofOpt P p.toPkt?).frame), h)
    | _ => .panic "downcast"
  | "vxlan::Vxlan.encap", [g] => do
    let (_, o) ← getThis h this
    match o with
    | .vxlan f => pure (pktsOf ((← Res.ofOpt P g.toPktGen?).map fun p => f.encap p.frame), h)
    | _ => .panic "downcast"
  | "gre::session", [cl, sv, et, raw] => do
    let cl ← Res.ofOpt P cl.toIp?
    let sv ← Res.ofOpt P sv.toIp?
    let et ← Res.ofOpt P et.toU16?
    let raw ← Res.ofOpt P raw.toBool?
    pure (allocObj h (.gre { cl := cl, sv := sv, ethertype := et, raw := raw }))
  | "gre::Gre.encap", [g] => do
    let (i, o) ← getThis h this
    match o with
    | .gre f =>
      let (f, ps) := encapLoop GreFlow.encap f (← Res.ofOpt P g.toPktGen?)
      pure (pktsOf ps, setObj h i (.gre f))
    | _ => .panic "downcast"
  | "erspan1::session", [cl, sv, raw] => do
    pure (allocObj h (.erspan1 ⟨← Res.ofOpt P cl.toIp?, ← Res.ofOpt P sv.toIp?, ← Res.ofOpt P raw.toBool?⟩))
  | "erspan1::Erspan1.encap", [g] => do
    let (_, o) ← getThis h this
    match o with
    | .erspan1 f => pure (pktsOf ((← Res.ofOpt P g.toPktGen?).map fun p => f.encap p.frame), h)
    | _ => .panic "downcast"
  | "erspan2::session", [cl, sv, raw] => do
    pure (allocObj h (.erspan2 { cl := ← Res.ofOpt P cl.toIp?, sv := ← Res.ofOpt P sv.toIp?, raw := ← Res.ofOpt P raw.toBool? }))
  | "erspan2::Erspan2.encap", [g, pi] => do
    let (i, o) ← getThis h this
    match o with
    | .erspan2 f =>
      let pi ← Res.ofOpt P pi.toU32?
      let (f, ps) := encapLoop (fun f b => Erspan2Flow.encap f b pi) f (← Res.ofOpt P g.toPktGen?)
      pure (pktsOf ps, setObj h i (.erspan2 f))
    | _ => .panic "downcast"
  | _, _ => .panic ("no model for " ++ path)

end exec
end Resynth
