import Resynth.Model.Lit
/-!
# Lexer (src/lex.rs): hand-written scanner equivalent to `LEX_RE` plus the scan loop

The Rust lexer anchors one big alternation at the current position; the regex crate's
leftmost-first semantics make the *first* alternative that matches win, each matching
greedily. `scanOne` below tries the same alternatives in the same order.
Columns are 1-based byte offsets.
-/
namespace Resynth
namespace Lex

/-- what one regex match produced -/
inductive Cls
  | skip                      -- whitespace, comments, newline
  | tok (k : TokKind)         -- any non-string token
  | str                       -- a string literal (text between the quotes)
  deriving Repr, DecidableEq

def isWs (c : Char) : Bool := isUniWhitespace c && c != '\n'
def isIdStart (c : Char) : Bool := ('a' ≤ c && c ≤ 'z') || ('A' ≤ c && c ≤ 'Z') || c == '_'
def isIdCont (c : Char) : Bool := isIdStart c || isDigit c

def spanLen (p : Char → Bool) : List Char → Nat
  | [] => 0
  | c :: cs => if p c then spanLen p cs + 1 else 0

/-- does `cs` start with the ASCII word `w` followed by a non-identifier character (`\b`)?
A following non-ASCII character is treated as a boundary; if it is a Unicode word
character the regex would instead lex the word as an identifier and then fail at that
character, and if not it fails there as well — the line is a lex error at the same
column either way (whitespace excepted, which is a boundary under both readings). -/
def kwAt (w : List Char) (cs : List Char) : Bool :=
  w.isPrefixOf cs && match cs.drop w.length with
    | [] => true
    | c :: _ => !isIdCont c

/-- lengths (in chars) of prefixes of a digit run that are in the octet language
`25[0-5]|2[0-4][0-9]|[01]?[0-9][0-9]?` -/
def octetOk (ds : List Char) : Bool :=
  match ds with
  | [a] => isDigit a
  | [a, b] => isDigit a && isDigit b
  | [a, b, c] =>
    isDigit a && isDigit b && isDigit c &&
      (a == '0' || a == '1' || (a == '2' && (b.toNat < 53 || (b == '5' && c.toNat ≤ 53))))
  | _ => false

/-- an octet that must be followed by '.': the whole digit run -/
def octetDot (cs : List Char) : Option Nat :=
  let n := spanLen isDigit cs
  if octetOk (cs.take n) && (cs.drop n).head? == some '.' then some (n + 1) else none

/-- the last octet: the leftmost-first match of the alternation = the longest prefix
of the digit run that is in the octet language (at most 3 digits) -/
def octetLast (cs : List Char) : Option Nat :=
  let n := min 3 (spanLen isDigit cs)
  if n ≥ 3 && octetOk (cs.take 3) then some 3
  else if n ≥ 2 && octetOk (cs.take 2) then some 2
  else if n ≥ 1 then some 1
  else none

def ipv4Len (cs : List Char) : Option Nat := do
  let a ← octetDot cs
  let b ← octetDot (cs.drop a)
  let c ← octetDot (cs.drop (a + b))
  let d ← octetLast (cs.drop (a + b + c))
  pure (a + b + c + d)

/-- index of the closing quote in the text after an opening quote -/
def closeQuote : List Char → Option Nat
  | [] => none
  | c :: cs => if c == '"' then some 0 else (closeQuote cs).map (· + 1)

/-- one anchored match of `LEX_RE`: class and number of characters consumed (> 0) -/
def scanOne (cs : List Char) : Option (Cls × Nat) :=
  match cs with
  | [] => none
  | c :: rest =>
    if isWs c then some (.skip, spanLen isWs cs)
    else if c == '#' then some (.skip, 1 + spanLen (· != '\n') rest)
    else if c == '/' && rest.head? == some '/' then some (.skip, 2 + spanLen (· != '\n') (rest.drop 1))
    else if c == '\n' then some (.skip, 1)
    else if c == '(' then some (.tok .lparen, 1)
    else if c == ')' then some (.tok .rparen, 1)
    else if c == '.' then some (.tok .dot, 1)
    else if c == ':' && rest.head? == some ':' then some (.tok .dcolon, 2)
    else if c == ':' then some (.tok .colon, 1)
    else if c == ';' then some (.tok .semi, 1)
    else if c == '=' then some (.tok .equals, 1)
    else if c == ',' then some (.tok .comma, 1)
    else if c == '/' then some (.tok .slash, 1)
    else if kwAt "import".toList cs then some (.tok .kwImport, 6)
    else if kwAt "let".toList cs then some (.tok .kwLet, 3)
    else if kwAt "true".toList cs then some (.tok .boolLit, 4)
    else if kwAt "false".toList cs then some (.tok .boolLit, 5)
    else if isIdStart c then some (.tok .ident, spanLen isIdCont cs)
    else match ipv4Len cs with
    | some n => some (.tok .ipv4Lit, n)
    | none =>
      if c == '"' then
        match closeQuote rest with
        | some n => some (.str, n + 2)
        | none => none
      else if c == '0' && rest.head? == some 'x' && ((rest.drop 1).head?.map isHexDigit).getD false then
        some (.tok .hexLit, 2 + spanLen isHexDigit (rest.drop 1))
      else if isDigit c then some (.tok .intLit, spanLen isDigit cs)
      else if c == '-' && (rest.head?.map isDigit).getD false then
        some (.tok .intLit, 1 + spanLen isDigit rest)
      else none

def utf8Len (cs : List Char) : Nat := cs.foldl (fun n c => n + c.utf8Size) 0

/-- `TokType::get_val` -/
def tokText (k : TokKind) (txt : List Char) : String :=
  match k with
  | .ident | .hexLit | .intLit | .boolLit | .ipv4Lit => String.ofList txt
  | _ => ""

structure St where
  toks : List Tok := []          -- in order
  strs : List String := []       -- pending string-literal pieces, in order
  deriving Repr

def flushStrs (s : St) (loc : Loc) : St :=
  if s.strs.isEmpty then s
  else { toks := s.toks ++ [⟨.strLit, String.join s.strs, loc⟩], strs := [] }

/-- the scan loop; `pos` is the byte offset of `cs` in the line. Errors carry the
1-based byte column of the first character that cannot start a token. -/
def loop (lno : Nat) : Nat → Nat → List Char → St → Except Nat St
  | 0, _, _, s => .ok s          -- unreachable: fuel = number of characters + 1
  | fuel + 1, pos, cs, s =>
    if cs.isEmpty then .ok s else
    match scanOne cs with
    | none => .error (pos + 1)
    | some (cls, n) =>
      let txt := cs.take n
      let s' := match cls with
        | .skip => s
        | .str => { s with strs := s.strs ++ [String.ofList ((txt.drop 1).take (n - 2))] }
        | .tok k =>
          let loc : Loc := ⟨lno, pos + 1⟩
          let s1 := flushStrs s loc
          { s1 with toks := s1.toks ++ [⟨k, tokText k txt, loc⟩] }
      loop lno fuel (pos + utf8Len txt) (cs.drop n) s'

structure LineOut where
  toks : List Tok
  pending : Option String -- `concatenated_strings` carried to the next line (`some ""` is a pending empty literal)
  endCol : Nat            -- column of `Lexer::loc()` after the line (used for EOF errors)
  deriving Repr

/-- `Lexer::line(lno, line)` with `pending` = the carried `concatenated_strings`
(FIX(C10): an `Option`, so that a pending EMPTY literal is not mistaken for "nothing pending") -/
def line (lno : Nat) (pending : Option String) (ln : String) : Except Nat LineOut :=
  let cs := ln.toList
  let s0 : St := { strs := match pending with | some p => [p] | none => [] }
  match loop lno (cs.length + 1) 0 cs s0 with
  | .error c => .error c
  | .ok s => .ok { toks := s.toks, pending := if s.strs.isEmpty then none else some (String.join s.strs),
                   endCol := utf8Len cs + 1 }

/-- `Lexer::finish()`: the string literal still pending at end of input, as a token positioned where the
lexer stopped (FIX(C09): it used to be dropped silently) -/
def finish (pending : Option String) (loc : Loc) : Option Tok :=
  pending.map fun p => ⟨.strLit, p, loc⟩

end Lex
end Resynth
