import Resynth.Model.Bytes
/-!
# Packet buffer and pcap writer (pkt/src/packet.rs, pkt/src/pcap.rs)
-/
namespace Resynth

/-- `Packet`: a byte vector whose first `headroom` bytes are reserved; `head` is that
reserved prefix (its content is unobservable scratch space), `frame` the packet proper. -/
structure Packet where
  head : Bytes := zeros 16
  frame : Bytes
  deriving Repr, DecidableEq, Inhabited

namespace Packet
def ofFrame (f : Bytes) : Packet := { frame := f }
def headroom (p : Packet) : Nat := p.head.length
def len (p : Packet) : Nat := p.frame.length
/-- `bit_time`: (len + 24) * 8 nanoseconds at 1 Gb/s -/
def bitTime (p : Packet) : Nat := (p.len + 24) * 8
end Packet

inductive WriteRes
  | ok (written : Bytes) (p : Packet)
  | panic (site : String)
  deriving Repr

namespace Pcap

/-- `pcap_hdr::new()` serialised (native = little endian) -/
def header : Bytes :=
  le32 0xa1b23c4d ++ le16 2 ++ le16 4 ++ le32 0 ++ le32 0 ++ le32 0 ++ le32 1

/-- `pcap_pkt` record header -/
def recHdr (time len : Nat) : Bytes :=
  le32 ((time / 1000000000) % 4294967296) ++ le32 (time % 1000000000) ++ le32 (len % 4294967296) ++ le32 (len % 4294967296)

def record (time : Nat) (frame : Bytes) : Bytes := recHdr time frame.length ++ frame

/-- `PcapWriter::write_packet`: borrow 16 bytes of headroom for the record header, write
`buf[headroom..]`, give the headroom back. The assert of `lower_headroom` is explicit; those of
`as_slice` (buffer length ≥ headroom) and `return_headroom` hold by construction. -/
def writePacket (time : Nat) (p : Packet) : WriteRes :=
  if p.headroom < 16 then .panic "lower_headroom: sz <= headroom"
  else
    let hdr := recHdr time p.len
    let head' := p.head.take (p.headroom - 16)
    .ok (hdr ++ p.frame) { p with head := head' ++ hdr }

end Pcap
end Resynth
