import Resynth.Model.Pcap
import Resynth.Model.Hdr
import Resynth.Model.Syntax
/-!
# Values, types, coercions (src/val.rs) and library descriptors (src/libapi.rs)
-/
namespace Resynth

inductive ValType
  | void | bool | u8 | u16 | u32 | u64 | ip4 | sock4 | str | type
  | obj | func | method | pkt | pktgen | timejump
  deriving DecidableEq, Repr, Inhabited

namespace ValType
def all : List ValType :=
  [.void, .bool, .u8, .u16, .u32, .u64, .ip4, .sock4, .str, .type, .obj, .func, .method, .pkt, .pktgen, .timejump]

/-- Rust `{:?}` name -/
def debugName : ValType → String
  | .void => "Void" | .bool => "Bool" | .u8 => "U8" | .u16 => "U16" | .u32 => "U32" | .u64 => "U64"
  | .ip4 => "Ip4" | .sock4 => "Sock4" | .str => "Str" | .type => "Type" | .obj => "Obj" | .func => "Func"
  | .method => "Method" | .pkt => "Pkt" | .pktgen => "PktGen" | .timejump => "TimeJump"

/-- `Display for ValType` -/
def display : ValType → String
  | .void => "void" | .bool => "bool" | .u8 => "u8" | .u16 => "u16" | .u32 => "u32" | .u64 => "u64"
  | .ip4 => "Ip4" | .sock4 => "Sock4" | .str => "bytes" | .type => "type" | t => t.debugName

def ofDebugName (s : String) : Option ValType := all.find? (fun t => t.debugName == s)

def isIntegral : ValType → Bool
  | .bool | .u8 | .u16 | .u32 | .u64 => true
  | _ => false

def isStringCoercible : ValType → Bool
  | .pkt | .str | .u8 | .u16 | .u32 | .u64 | .ip4 => true
  | _ => false

def isPktgenCoercible : ValType → Bool
  | .pktgen | .pkt => true
  | _ => false

/-- `Typed::compatible_with`: `self` is the declared type, `other` the supplied one -/
def compatibleWith (self other : ValType) : Bool :=
  self == other
  || (self.isIntegral && other.isIntegral)
  || (self == .str && other.isStringCoercible)
  || (self == .pktgen && other.isPktgenCoercible)
end ValType

/-- `ValDef`: constants and default values -/
inductive ValDef
  | nil | bool (b : Bool) | u8 (n : Nat) | u16 (n : Nat) | u32 (n : Nat) | u64 (n : Nat)
  | ip4 (a : Nat) | sock4 (ip port : Nat) | str (s : Bytes) | type (t : ValType)
  deriving DecidableEq, Repr, Inhabited

def ValDef.valType : ValDef → ValType
  | .nil => .void | .bool _ => .bool | .u8 _ => .u8 | .u16 _ => .u16 | .u32 _ => .u32 | .u64 _ => .u64
  | .ip4 _ => .ip4 | .sock4 .. => .sock4 | .str _ => .str | .type _ => .type

/-- `ValDef::arg_compatible` -/
def ValDef.argCompatible (d : ValDef) (other : ValType) : Bool :=
  match d with
  | .type t => other == .void || t.compatibleWith other
  | _ => d.valType.compatibleWith other

/-- run-time values. Objects live in the interpreter's heap and are referred to by index;
functions and methods by their path in the library table. -/
inductive Val
  | nil | bool (b : Bool) | u8 (n : Nat) | u16 (n : Nat) | u32 (n : Nat) | u64 (n : Nat)
  | ip4 (a : Nat) | sock4 (ip port : Nat) | str (s : Bytes)
  | obj (id : Nat) (cls : String)
  | func (path : String)
  | method (id : Nat) (cls : String) (path : String)
  | pkt (p : Packet) | pktgen (ps : List Packet) | timejump (ns : Nat)
  deriving DecidableEq, Repr, Inhabited

namespace Val
def valType : Val → ValType
  | .nil => .void | .bool _ => .bool | .u8 _ => .u8 | .u16 _ => .u16 | .u32 _ => .u32 | .u64 _ => .u64
  | .ip4 _ => .ip4 | .sock4 .. => .sock4 | .str _ => .str | .obj .. => .obj | .func _ => .func
  | .method .. => .method | .pkt _ => .pkt | .pktgen _ => .pktgen | .timejump _ => .timejump

/-- `From<ValDef> for Val` (a `Type(_)` default means "not supplied" = Nil) -/
def ofDef : ValDef → Val
  | .nil => .nil | .bool b => .bool b | .u8 n => .u8 n | .u16 n => .u16 n | .u32 n => .u32 n | .u64 n => .u64 n
  | .ip4 a => .ip4 a | .sock4 i p => .sock4 i p | .str s => .str s | .type _ => .nil

def ofLit : Lit → Val
  | .bool b => .bool b | .u64 n => .u64 n | .ip4 a => .ip4 a | .sock4 i p => .sock4 i p | .str s => .str s

/-- integer view of an integral value (`From<Val> for u64`, with Bool as 0/1); `none` = the
Rust conversion hits `unreachable!()` -/
def toNat? : Val → Option Nat
  | .bool b => some (if b then 1 else 0)
  | .u8 n | .u16 n | .u32 n | .u64 n => some n
  | _ => none

def toU8? (v : Val) : Option Nat := v.toNat?.map (· % 256)
def toU16? (v : Val) : Option Nat := v.toNat?.map (· % 65536)
def toU32? (v : Val) : Option Nat := v.toNat?.map (· % 4294967296)
def toU64? (v : Val) : Option Nat := v.toNat?

/-- `From<Val> for bool` -/
def toBool? : Val → Option Bool
  | .bool b => some b
  | .u8 n | .u16 n | .u32 n | .u64 n => some (n != 0)
  | _ => none

def toIp? : Val → Option Nat | .ip4 a => some a | _ => none
def toSock? : Val → Option Sock | .sock4 i p => some ⟨i, p⟩ | _ => none

/-- `From<Val> for Buf`: every string-coercible type -/
def toBuf? : Val → Option Bytes
  | .pkt p => some p.frame
  | .str s => some s
  | .u8 n => some [b8 n]
  | .u16 n => some (be16 n)
  | .u32 n => some (be32 n)
  | .u64 n => some (be64 n)
  | .ip4 a => some (be32 a)
  | _ => none

/-- `From<Val> for Rc<Vec<Packet>>` -/
def toPktGen? : Val → Option (List Packet)
  | .pktgen ps => some ps
  | .pkt p => some [p]
  | _ => none

def toPkt? : Val → Option Packet | .pkt p => some p | _ => none

/-- `Option<T>` conversions: Nil ↦ none -/
def toOptU32? : Val → Option (Option Nat)
  | .nil => some none
  | v => v.toU32?.map some
def toOptIp? : Val → Option (Option Nat)
  | .nil => some none
  | .ip4 a => some (some a)
  | _ => none
def toOptBuf? : Val → Option (Option Bytes)
  | .nil => some none
  | v => v.toBuf?.map some
end Val

/-- `ArgDecl` -/
inductive ArgDecl
  | positional (t : ValType)
  | optional (d : ValDef)
  deriving DecidableEq, Repr, Inhabited

structure ArgDesc where
  name : String
  decl : ArgDecl
  deriving DecidableEq, Repr, Inhabited

/-- `FuncDef` minus code and documentation; `path` identifies the `exec` body -/
structure FuncDef where
  path : String
  name : String
  returnType : ValType
  args : List ArgDesc
  collectType : ValType
  deriving DecidableEq, Repr, Inhabited

namespace FuncDef
def minArgs (f : FuncDef) : Nat :=
  (f.args.filter fun a => match a.decl with | .positional _ => true | _ => false).length
def isCollect (f : FuncDef) : Bool := f.collectType != .void
/-- the macro-generated `arg_pos` -/
def argPos (f : FuncDef) (n : String) : Option Nat := f.args.findIdx? (fun a => a.name == n)
end FuncDef

/-- a symbol of the library table -/
inductive Sym
  | module
  | cls
  | func (f : FuncDef)
  | val (d : ValDef)
  deriving Repr, Inhabited

/-- The whole library as a flat table keyed by path: modules `a::b`, functions `a::b::f`,
constants `a::b::C`, classes `a::b::K` and methods `a::b::K.m`. `classOf` maps an object
kind to its class path. -/
structure Lib where
  table : List (String × Sym)
  deriving Inhabited

def Lib.get (l : Lib) (path : String) : Option Sym := (l.table.find? (fun e => e.1 == path)).map (·.2)

end Resynth
