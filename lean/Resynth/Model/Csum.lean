import Resynth.Model.Bytes
/-!
# Internet checksum (pkt/src/ipv4.rs: `ip_csum_partial`, `ip_csum_fold`, `ip_csum`)
-/
namespace Resynth

/-- `ip_csum_partial`: sum of big-endian 16-bit words; a trailing odd byte counts as `b << 8`.
The Rust accumulator is `u32`; callers pass fewer than 2^16 words so it cannot overflow
(see `sum16_lt`). -/
def sum16 : Bytes → Nat
  | [] => 0
  | [a] => a.toNat * 256
  | a :: b :: rest => a.toNat * 256 + b.toNat + sum16 rest

/-- one folding step `(sum & 0xffff) + (sum >> 16)` -/
def fold1 (s : Nat) : Nat := s % 65536 + s / 65536

/-- `ip_csum_fold`: two folds, complement, truncate to 16 bits -/
def csumFold (s : Nat) : Nat := (65535 - fold1 (fold1 s) % 65536) % 65536

/-- `ip_csum` -/
def ipCsum (b : Bytes) : Nat := csumFold (sum16 b)

end Resynth
