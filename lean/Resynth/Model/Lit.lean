import Resynth.Model.Syntax
/-!
# Literal conversion (src/val.rs `Val::from_token`, src/str.rs `Buf::from_str`)
-/
namespace Resynth

def isDigit (c : Char) : Bool := '0' ≤ c && c ≤ '9'
def isHexDigit (c : Char) : Bool := isDigit c || ('a' ≤ c && c ≤ 'f') || ('A' ≤ c && c ≤ 'F')

/-- value of a digit string in the given radix (no bound) -/
def digitsVal (radix : Nat) (cs : List Char) : Option Nat :=
  cs.foldlM (fun acc c => match hexVal c with
    | some d => if d < radix then some (acc * radix + d) else none
    | none => none) 0

/-- `u64::from_str` on the texts the lexer can produce for an integer literal
(`-?[0-9]+`): a minus sign is rejected, as is anything that does not fit 64 bits -/
def parseU64Dec (s : String) : Option Nat :=
  match s.toList with
  | [] => none
  | cs => match digitsVal 10 cs with
    | some n => if n < 18446744073709551616 then some n else none
    | none => none

/-- `u64::from_str_radix(hex, 16)` after stripping `0x` -/
def parseU64Hex (s : String) : Option Nat :=
  match s.toList with
  | '0' :: 'x' :: cs =>
    if cs.isEmpty then none else
    match digitsVal 16 cs with
    | some n => if n < 18446744073709551616 then some n else none
    | none => none
  | _ => none

/-- one octet for `Ipv4Addr::from_str`: 1–3 decimal digits, no leading zero unless the
octet is exactly "0", value ≤ 255 -/
def parseOctet (cs : List Char) : Option Nat :=
  if cs.isEmpty || cs.length > 3 || !cs.all isDigit then none
  else if cs.length > 1 && cs.head? == some '0' then none
  else match digitsVal 10 cs with
    | some n => if n ≤ 255 then some n else none
    | none => none

def splitOnDot (cs : List Char) : List (List Char) :=
  let (cur, acc) := cs.foldl (fun (p : List Char × List (List Char)) c =>
    if c == '.' then ([], p.2 ++ [p.1]) else (p.1 ++ [c], p.2)) ([], [])
  acc ++ [cur]

/-- `Ipv4Addr::from_str` -/
def parseIpv4 (s : String) : Option Nat :=
  match splitOnDot s.toList with
  | [a, b, c, d] => do
    let a ← parseOctet a; let b ← parseOctet b; let c ← parseOctet c; let d ← parseOctet d
    pure (a * 16777216 + b * 65536 + c * 256 + d)
  | _ => none

def parseBool (s : String) : Option Bool :=
  if s == "true" then some true else if s == "false" then some false else none

/-- `char::is_whitespace` (Unicode White_Space) -/
def isUniWhitespace (c : Char) : Bool :=
  let n := c.toNat
  (9 ≤ n && n ≤ 13) || n == 0x20 || n == 0x85 || n == 0xa0 || n == 0x1680 ||
  (0x2000 ≤ n && n ≤ 0x200a) || n == 0x2028 || n == 0x2029 || n == 0x202f || n == 0x205f || n == 0x3000

def isHexSep (c : Char) : Bool :=
  c == ':' || c == '.' || c == '_' || c == '-' || c == '\'' || c == '`'

/-- UTF-8 encoding of one character -/
def utf8 (c : Char) : Bytes := (String.singleton c).toUTF8.toList

/-- `Buf::from_str`: plain text contributes its UTF-8 bytes; `|` toggles hex mode, in which
whitespace and the separators `: . _ - ' \`` are skipped and digit pairs give bytes.
State: `hex` mode flag and the pending high nibble. An unterminated hex section is accepted
(a dangling nibble is dropped), a closing `|` after an odd number of digits or a non-hex
character inside a section is an error. -/
def decodeStrAux : List Char → Bool → Option Nat → Bytes → Option Bytes
  | [], _, _, acc => some acc
  | c :: cs, false, _, acc =>
    if c == '|' then decodeStrAux cs true none acc
    else decodeStrAux cs false none (acc ++ utf8 c)
  | c :: cs, true, hi, acc =>
    if isUniWhitespace c || isHexSep c then decodeStrAux cs true hi acc
    else if c == '|' then
      match hi with
      | some _ => none
      | none => decodeStrAux cs false none acc
    else match hexVal c with
      | none => none
      | some d => match hi with
        | none => decodeStrAux cs true (some d) acc
        | some h => decodeStrAux cs true none (acc ++ [b8 (h * 16 + d)])


/-! ### Compiled code only: the same function with a reversed accumulator

`decodeStrAux` appends to the end of a list, which is quadratic when it is *run* on the 64 KiB literals of the
scale campaigns.  The theorems keep talking about `decodeStrAux`; `@[csimp]` makes the compiler use the linear
variant below, on the strength of the equation proved here (no `implemented_by`, nothing trusted). -/

def decodeStrRev : List Char → Bool → Option Nat → Bytes → Option Bytes
  | [], _, _, racc => some racc.reverse
  | c :: cs, false, _, racc =>
    if c == '|' then decodeStrRev cs true none racc
    else decodeStrRev cs false none ((utf8 c).reverse ++ racc)
  | c :: cs, true, hi, racc =>
    if isUniWhitespace c || isHexSep c then decodeStrRev cs true hi racc
    else if c == '|' then
      match hi with
      | some _ => none
      | none => decodeStrRev cs false none racc
    else match hexVal c with
      | none => none
      | some d => match hi with
        | none => decodeStrRev cs true (some d) racc
        | some h => decodeStrRev cs true none (b8 (h * 16 + d) :: racc)

theorem decodeStrRev_eq (cs : List Char) (hex : Bool) (hi : Option Nat) (racc : Bytes) :
    decodeStrRev cs hex hi racc = decodeStrAux cs hex hi racc.reverse := by
  induction cs generalizing hex hi racc with
  | nil => simp [decodeStrRev, decodeStrAux]
  | cons c cs ih =>
    cases hex with
    | false =>
      simp only [decodeStrRev, decodeStrAux]
      split
      · exact ih ..
      · rw [ih]; simp [List.reverse_append]
    | true =>
      simp only [decodeStrRev, decodeStrAux]
      split
      · exact ih ..
      · split
        · cases hi <;> simp [ih]
        · cases hexVal c with
          | none => rfl
          | some d => cases hi <;> simp [ih]

def decodeStrAuxImpl (cs : List Char) (hex : Bool) (hi : Option Nat) (acc : Bytes) : Option Bytes :=
  decodeStrRev cs hex hi acc.reverse

@[csimp] theorem decodeStrAux_eq_impl : @decodeStrAux = @decodeStrAuxImpl := by
  funext cs hex hi acc
  simp [decodeStrAuxImpl, decodeStrRev_eq]

def decodeStr (s : String) : Option Bytes := decodeStrAux s.toList false none []

/-- `Val::from_token` for the five literal token kinds -/
def litOfToken (t : Tok) : Option Lit :=
  match t.kind with
  | .strLit => (decodeStr t.text).map .str
  | .ipv4Lit => (parseIpv4 t.text).map .ip4
  | .intLit => (parseU64Dec t.text).map .u64
  | .boolLit => (parseBool t.text).map .bool
  | .hexLit => (parseU64Hex t.text).map .u64
  | _ => none

end Resynth
