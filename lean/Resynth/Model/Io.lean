import Resynth.Model.Pcap
/-!
# Output path: `BufWriter<File>` over a device that accepts a bounded number of bytes

Models `std::io::BufWriter` (capacity as a parameter; 8192 in std) as used by
`PcapWriter` (pkt/src/pcap.rs): `write_all`, the explicit `flush`, and the silent flush
in `Drop`. The device accepts `budget` more bytes and then fails every write
(RLIMIT_FSIZE / ENOSPC behaviour: short write up to the limit, error afterwards).
-/
namespace Resynth

structure BufW where
  cap : Nat := 8192
  buf : Bytes := []        -- buffered, not yet on the device
  dev : Bytes := []        -- bytes on the device
  budget : Option Nat := none   -- `none`: unlimited; `some k`: k more bytes are accepted
  deriving Repr, DecidableEq, Inhabited

namespace BufW

/-- write `b` straight to the device: all of it, or as much as fits and then an error -/
def devWrite (w : BufW) (b : Bytes) : BufW × Bool :=
  match w.budget with
  | none => ({ w with dev := w.dev ++ b }, true)
  | some k =>
    if b.length ≤ k then ({ w with dev := w.dev ++ b, budget := some (k - b.length) }, true)
    else ({ w with dev := w.dev ++ b.take k, budget := some 0 }, false)

/-- `flush_buf`: on error the unwritten remainder stays buffered -/
def flushBuf (w : BufW) : BufW × Bool :=
  match w.budget with
  | none => ({ w with dev := w.dev ++ w.buf, buf := [] }, true)
  | some k =>
    if w.buf.length ≤ k then ({ w with dev := w.dev ++ w.buf, buf := [], budget := some (k - w.buf.length) }, true)
    else ({ w with dev := w.dev ++ w.buf.take k, buf := w.buf.drop k, budget := some 0 }, false)

/-- `BufWriter::write_all` -/
def writeAll (w : BufW) (b : Bytes) : BufW × Bool :=
  if b.length < w.cap - w.buf.length then ({ w with buf := w.buf ++ b }, true)
  else
    let (w1, ok1) := if b.length > w.cap - w.buf.length then w.flushBuf else (w, true)
    if !ok1 then (w1, false)
    else if b.length ≥ w1.cap then w1.devWrite b
    else ({ w1 with buf := w1.buf ++ b }, true)

/-- the final state of the file once the writer is dropped (errors ignored) -/
def dropped (w : BufW) : Bytes := w.flushBuf.1.dev

end BufW
end Resynth
