import Resynth.Model.Stdlib
import Resynth.Model.Io
/-!
# Interpreter (src/program.rs)
-/
namespace Resynth

structure PState where
  now : Nat := 0
  regs : List (String × Val) := []
  imports : List String := []
  heap : Heap := []
  wr : BufW := {}
  loc : Loc := Loc.nil
  warnings : List Loc := []        -- "discarded value" warnings, in order
  emitted : List (Nat × Bytes) := []  -- (timestamp, frame) of every record handed to the writer
  deriving Repr, Inhabited

structure Env where
  lib : Lib
  fs : Fs
  deriving Inhabited

def lookupReg (regs : List (String × Val)) (n : String) : Option Val := (regs.find? (fun e => e.1 == n)).map (·.2)

/-- `eval_extern_ref` -/
def evalExternRef (env : Env) (st : PState) (o : ObjRef) : Res Val :=
  match o.modules with
  | [] => .panic "eval_extern_ref: no modules"
  | top :: rest =>
    if !st.imports.contains top then .err .name st.loc
    else
      -- walk the sub-modules
      let walk : Res String := rest.foldlM (fun (cur : String) (c : String) =>
        match env.lib.get (cur ++ "::" ++ c) with
        | some .module => Res.ok (cur ++ "::" ++ c)
        | none => .err .name st.loc
        | some _ => .err .type_ st.loc) top
      match walk with
      | .err e l => .err e l
      | .panic s => .panic s
      | .ok modPath =>
        match o.components with
        | [] => .panic "eval_extern_ref: no components"
        | topvar :: more =>
          match env.lib.get (modPath ++ "::" ++ topvar) with
          | some (.val d) => if more.isEmpty then .ok (Val.ofDef d) else .err .type_ st.loc
          | some (.func f) => if more.isEmpty then .ok (.func f.path) else .err .type_ st.loc
          | some .module => .err .type_ st.loc
          | some .cls => .err .type_ st.loc
          | none => .err .name st.loc

/-- `eval_local_ref` -/
def evalLocalRef (env : Env) (st : PState) (o : ObjRef) : Res Val :=
  if o.components.length > 2 then .err .name st.loc
  else match o.components with
    | [] => .panic "eval_obj_ref: unreachable"
    | var :: more =>
      match lookupReg st.regs var with
      | none => .err .name st.loc
      | some v =>
        match more with
        | [] => .ok v
        | m :: _ =>
          match v with
          | .obj id cls =>
            match env.lib.get (cls ++ "." ++ m) with
            | none => .err .name st.loc
            | some (.func f) => .ok (.method id cls f.path)
            | some _ => .err .type_ st.loc
          | _ => .err .type_ st.loc

def evalObjRef (env : Env) (st : PState) (o : ObjRef) : Res Val :=
  if o.modules.length > 0 then evalExternRef env st o else evalLocalRef env st o

def bindAndExec (env : Env) (st : PState) (f : FuncDef) (this : Option Nat) (args : List ArgSpec) : Res (Val × PState) :=
  match Bind.argvec f args with
  | .typeError _ => .err .type_ st.loc
  | .panic s => .panic s
  | .ok av =>
    match exec env.fs f.path this av st.heap with
    | .ok (v, h) =>
      if v.valType != f.returnType then .panic "debug_assert!(ret.val_type() == func.return_type)"
      else .ok (v, { st with heap := h })
    | .err e _ => .err e st.loc
    | .panic s => .panic s

def funcOf (env : Env) (path : String) : Res FuncDef :=
  match env.lib.get path with
  | some (.func f) => .ok f
  | _ => .panic "dangling function path"

mutual
/-- `Program::eval` -/
def eval (env : Env) (st : PState) : Expr → Res (Val × PState)
  | .nil => .ok (.nil, st)
  | .lit loc v => .ok (Val.ofLit v, { st with loc := loc })
  | .ref o => do
    let st := { st with loc := o.loc }
    let v ← evalObjRef env st o
    pure (v, st)
  | .call o args => do
    let st := { st with loc := o.loc }
    let callee ← evalObjRef env st o
    match callee with
    | .func path =>
      let (argv, st) ← evalArgs env st args
      let f ← funcOf env path
      bindAndExec env st f none argv
    | .method id _ path =>
      let (argv, st) ← evalArgs env st args
      let f ← funcOf env path
      bindAndExec env st f (some id) argv
    | _ => .err .type_ st.loc
  | .slash a b => do
    let (av, st) ← eval env st a
    if av.valType != .ip4 then .err .type_ st.loc else
    let aLoc := st.loc
    let (bv, st) ← eval env st b
    if !bv.valType.isIntegral then .err .type_ st.loc else
    match av.toIp?, bv.toNat? with
    | some ip, some port =>
      if port > 65535 then .err .type_ st.loc      -- FIX(C17): was `as u16`
      else .ok (.sock4 ip port, { st with loc := aLoc })
    | _, _ => .panic "slash conversion"

/-- `eval_args`: left to right, each exactly once -/
def evalArgs (env : Env) (st : PState) : Args → Res (List ArgSpec × PState)
  | .nil => .ok ([], st)
  | .cons n e rest => do
    let (v, st) ← eval env st e
    let (vs, st) ← evalArgs env st rest
    pure (⟨n, v⟩ :: vs, st)
end

/-- `PcapWriter::write_packet` through the buffered writer -/
def writeRecord (st : PState) (p : Packet) : Res PState :=
  match Pcap.writePacket st.now p with
  | .panic s => .panic s
  | .ok bytes _ =>
    let (w, ok) := st.wr.writeAll bytes
    if ok then .ok { st with wr := w, emitted := st.emitted ++ [(st.now, p.frame)] }
    else .err .io st.loc

def writeRecords (st : PState) : List Packet → Res PState
  | [] => .ok st
  | p :: ps => do
    let st ← writeRecord st p
    writeRecords st ps

def u64Max : Nat := 18446744073709551616

/-- `update_time` -/
def updateTime (st : PState) (ns : Nat) : Res PState :=
  if st.now + ns < u64Max then .ok { st with now := st.now + ns } else .err .runtime st.loc

/-- `add_stmt` -/
def addStmt (env : Env) (st : PState) : Stmt → Res PState
  | .imp loc m =>
    let st := { st with loc := loc }
    if st.imports.contains m then .ok st
    else match env.lib.get m with
      | some .module => .ok { st with imports := st.imports ++ [m] }
      | none => .err (.import_ m) st.loc
      | some _ => .panic "toplevel_module: unreachable"
  | .assign loc target rvalue =>
    let st := { st with loc := loc }
    if (lookupReg st.regs target).isSome then .err (.multipleAssign target) st.loc
    else do
      let (v, st) ← eval env st rvalue
      pure { st with regs := st.regs ++ [(target, v)] }
  | .expr e => do
    let (v, st) ← eval env st e
    match v with
    | .nil => pure st
    | .pkt p => do
      let st ← updateTime st p.bitTime
      writeRecord st p
    | .pktgen ps => do
      let st ← ps.foldlM (fun st p => updateTime st p.bitTime) st
      writeRecords st ps
    | .timejump ns => updateTime st ns
    | _ => pure { st with warnings := st.warnings ++ [st.loc] }

def addStmts (env : Env) (st : PState) : List Stmt → Res PState
  | [] => .ok st
  | s :: ss => do
    let st ← addStmt env st s
    addStmts env st ss

end Resynth
