import Resynth.Model.Val
/-!
# Argument binding (src/libapi.rs `FuncDef::split_args` / `argvec`)
-/
namespace Resynth

structure ArgSpec where
  name : Option String
  val : Val
  deriving Repr, Inhabited

structure ArgVec where
  args : List Val
  extra : List Val
  deriving Repr, DecidableEq, Inhabited

inductive BindRes
  | ok (v : ArgVec)
  | typeError (why : String)
  | panic (site : String)
  deriving Repr, Inhabited

namespace Bind

inductive Phase | anon | optional | collectOnly
  deriving DecidableEq, Repr

structure Prep where
  positional : List Val := []
  named : List (String × Val) := []
  extra : List Val := []
  phase : Phase := .anon
  deriving Repr

/-- one argument through the three-state machine; the inner Rust `loop { match state … continue }`
is unrolled: each phase either consumes the argument or falls through to a later phase. -/
def splitStep (f : FuncDef) (p : Prep) (a : ArgSpec) : Except String Prep :=
  let collect (p : Prep) : Except String Prep :=
    if !f.isCollect then .error "Unexpected collect-arguments"
    else match a.name with
      | some _ => .error "Unexpected named argument"
      | none => .ok { p with extra := p.extra ++ [a.val], phase := .collectOnly }
  let optional (p : Prep) : Except String Prep :=
    match a.name with
    | none => collect p
    | some name =>
      match f.argPos name with
      | none => .error "No such argument"
      | some idx =>
        if idx < p.positional.length then .error "Positional argument multiply specified"
        else if p.named.any (fun e => e.1 == name) then .error "Optional argument multiply specified"
        else .ok { p with named := p.named ++ [(name, a.val)], phase := .optional }
  match p.phase with
  | .anon =>
    match a.name with
    | some _ => optional p
    | none =>
      if f.isCollect && p.positional.length ≥ f.minArgs then collect p
      else if p.positional.length ≥ f.args.length then
        if f.isCollect then collect p else .error "Too many arguments"
      else .ok { p with positional := p.positional ++ [a.val] }
  | .optional => optional p
  | .collectOnly => collect p

def splitArgs (f : FuncDef) (args : List ArgSpec) : Except String Prep :=
  args.foldlM (splitStep f) {}

/-- step 2 of `argvec`: fill the parameters after the positional prefix from `named`,
defaults, or fail; returns the values and the names that remain unconsumed -/
def fillNamed : List ArgDesc → List (String × Val) → Except String (List Val × List (String × Val))
  | [], named => .ok ([], named)
  | d :: ds, named =>
    match named.find? (fun e => e.1 == d.name) with
    | some e =>
      match fillNamed ds (named.filter (fun x => x.1 != d.name)) with
      | .ok (vs, rest) => .ok (e.2 :: vs, rest)
      | .error m => .error m
    | none =>
      match d.decl with
      | .optional dfl =>
        match fillNamed ds named with
        | .ok (vs, rest) => .ok (Val.ofDef dfl :: vs, rest)
        | .error m => .error m
      | .positional _ => .error "Positional argument not specified"

def declAccepts (d : ArgDecl) (t : ValType) : Bool :=
  match d with
  | .positional ty => ty.compatibleWith t
  | .optional dfl => dfl.argCompatible t

/-- `FuncDef::argvec` -/
def argvec (f : FuncDef) (args : List ArgSpec) : BindRes :=
  match splitArgs f args with
  | .error m => .typeError m
  | .ok p =>
    let nrPos := p.positional.length
    if nrPos + p.named.length < f.minArgs then .typeError "Not enough specified args"
    else match fillNamed (f.args.drop nrPos) p.named with
      | .error m => .typeError m
      | .ok (vs, rest) =>
        if !rest.isEmpty then .panic "assert!(named.is_empty())"
        else
          let all := p.positional ++ vs
          if !(List.zip f.args all).all (fun (d, v) => declAccepts d.decl v.valType) then
            .typeError "Argument type-check failed"
          else if p.extra.any (fun v => !f.collectType.compatibleWith v.valType) then
            .typeError "Collect argument of wrong type"
          else .ok ⟨all, p.extra⟩

end Bind
end Resynth
