import Resynth.Model.Val
/-!
# Reference documentation generator (src/libapi.rs `Documented::write_docs`, `Display` impls;
src/stdlib/mod.rs `recurse`)
-/
namespace Resynth.Docs

def hexDigits (n width : Nat) : String :=
  let ds := (Nat.toDigits 16 n)
  String.ofList (List.replicate (width - ds.length) '0' ++ ds)

/-- `std::ascii::escape_default` -/
def escapeByte (b : UInt8) : String :=
  let n := b.toNat
  if n == 9 then "\\t" else if n == 13 then "\\r" else if n == 10 then "\\n"
  else if n == 39 then "\\'" else if n == 34 then "\\\"" else if n == 92 then "\\\\"
  else if 0x20 ≤ n && n ≤ 0x7e then String.singleton (Char.ofNat n)
  else "\\x" ++ hexDigits n 2

def ipText (a : Nat) : String := s!"{a / 16777216 % 256}.{a / 65536 % 256}.{a / 256 % 256}.{a % 256}"

/-- `Display for ValDef` -/
def valDefDisplay : ValDef → String
  | .nil => "Nil"
  | .bool b => if b then "true" else "false"
  | .u8 n => "0x" ++ hexDigits n 2
  | .u16 n => "0x" ++ hexDigits n 4
  | .u32 n => "0x" ++ hexDigits n 8
  | .u64 n => "0x" ++ hexDigits n 16
  | .ip4 a => ipText a
  | .sock4 a p => s!"{ipText a}:{p}"
  | .str s => "\"" ++ String.join (s.map escapeByte) ++ "\""
  | .type t => t.debugName

/-- `Display for ArgDesc` -/
def argDisplay (a : ArgDesc) : String :=
  a.name ++ ": " ++ match a.decl with
    | .positional t => t.display
    | .optional d => d.valType.display ++ " = " ++ valDefDisplay d

/-- `Display for FuncDef` -/
def funcDisplay (f : FuncDef) : String :=
  s!"resynth fn {f.name} (\n" ++ String.join (f.args.map fun a => s!"    {argDisplay a},\n") ++
  (if f.collectType != .void then s!"    =>\n    *collect_args: {f.collectType.display},\n" else "") ++
  s!") -> {f.returnType.display};"

/-- insertion sort by name (`Vec::sort` on `SymDesc`, ordered by `name` bytes) -/
def insertBy (x : String × Sym) : List (String × Sym) → List (String × Sym)
  | [] => [x]
  | y :: ys => if x.1 < y.1 || x.1 == y.1 then x :: y :: ys else y :: insertBy x ys
def sortSyms (l : List (String × Sym)) : List (String × Sym) := l.foldr insertBy []

/-- direct children of the module/class `path` in the flat table: (short name, symbol) -/
def children (lib : Lib) (path : String) (sep : String) : List (String × Sym) :=
  let pre := if path.isEmpty then "" else path ++ sep
  lib.table.filterMap fun (p, s) =>
    if p.startsWith pre && p.length > pre.length then
      let rest := (p.drop pre.length).toString
      if (rest.splitOn "::").length == 1 && (rest.splitOn ".").length == 1 then some (rest, s) else none
    else none

def docOf (docs : List (String × String × String × String)) (path : String) : String :=
  match docs.find? (fun d => d.1 == path) with
  | some d => d.2.2.2
  | none => ""

/-- one documentation page (`write_docs`) for the module or class at `path` -/
def page (lib : Lib) (docs : List (String × String × String × String)) (path : String) (isClass : Bool) : String :=
  let kids := sortSyms (children lib path (if isClass then "." else "::"))
  let mods := kids.filter fun k => match k.2 with | .module => true | _ => false
  let clss := kids.filter fun k => match k.2 with | .cls => true | _ => false
  let funs := kids.filter fun k => match k.2 with | .func _ => true | _ => false
  let vals := kids.filter fun k => match k.2 with | .val _ => true | _ => false
  docOf docs path ++ "\n## Index\n\n" ++
  (if mods.isEmpty then "" else "\n### Modules\n\n" ++ String.join (mods.map fun k => s!"- [{k.1}]({k.1}/README.md)\n")) ++
  (if clss.isEmpty then "" else "\n### Classes\n\n" ++ String.join (clss.map fun k => s!"- [{k.1}]({k.1}.md)\n")) ++
  (if funs.isEmpty then "" else "\n### Functions\n\n" ++ String.join (funs.map fun k => s!"- [{k.1}](#{k.1})\n")) ++
  (if vals.isEmpty then "" else "\n### Constants\n\n| Name | Value |\n| ---- | ----- |\n" ++
    String.join (vals.map fun k => match k.2 with
      | .val d => s!"| {k.1} | `({d.valType.display}){valDefDisplay d}` |\n"
      | _ => "")) ++
  (if funs.isEmpty then "" else "\n\n" ++ String.join (funs.map fun k => match k.2 with
      | .func f => s!"\n## {f.name}\n```resynth\n{funcDisplay f}\n```\n{docOf docs f.path}\n"
      | _ => ""))

/-- every page: (relative file name, content) -/
def allPages (lib : Lib) (docs : List (String × String × String × String)) : List (String × String) :=
  ("README.md", page lib docs "" false) ::
  lib.table.filterMap fun (p, s) =>
    match s with
    | .module => some (p.replace "::" "/" ++ "/README.md", page lib docs p false)
    | .cls => some (p.replace "::" "/" ++ ".md", page lib docs p true)
    | _ => none

end Resynth.Docs
