import Resynth.Model.Csum
/-!
# Protocol headers (pkt/src/{ipv4,eth,gre,vxlan,erspan2}.rs)

Fields are naturals; serialisation truncates to the field width exactly like the
`to_be()`/`as u16` conversions in the Rust code.  The IPv4 checksum is a *stored field*
that goes stale when another field is modified and is only refreshed by `calcCsum`,
which is how the real builders work (and how they go wrong when a setter is applied
after the last `calc_csum`).
-/
namespace Resynth

/-- `SocketAddrV4` -/
structure Sock where
  ip : Nat
  port : Nat
  deriving Repr, DecidableEq, Inhabited

/-- `ip_hdr` -/
structure IpHdr where
  ihlVersion : Nat := 0x45
  tos : Nat := 0
  totLen : Nat := 20
  id : Nat := 0
  fragOff : Nat := 0      -- flags (top 3 bits) and offset (low 13), host order
  ttl : Nat := 64
  protocol : Nat := 0
  csum : Nat := 0
  saddr : Nat := 0
  daddr : Nat := 0
  deriving Repr, DecidableEq

namespace IpHdr

def serialize (h : IpHdr) : Bytes :=
  [b8 h.ihlVersion, b8 h.tos] ++ be16 h.totLen ++ be16 h.id ++ be16 h.fragOff ++
  [b8 h.ttl, b8 h.protocol] ++ be16 h.csum ++ be32 h.saddr ++ be32 h.daddr

/-- `calc_csum`: zero the field, checksum the 20 bytes, store -/
def calcCsum (h : IpHdr) : IpHdr :=
  { h with csum := ipCsum ({ h with csum := 0 }).serialize }

/-- `add_tot_len` (u16 addition; wraps in release, see `Panics` notes in DESIGN) -/
def addTotLen (h : IpHdr) (more : Nat) : IpHdr := { h with totLen := (h.totLen + more) % 65536 }

/-- `set_frag_off`: keep the three flag bits, replace everything else by `off` (OR-ed in) -/
def setFragOff (h : IpHdr) (off : Nat) : IpHdr :=
  { h with fragOff := (off % 65536) ||| (h.fragOff &&& 0xe000) }

def setFlag (h : IpHdr) (bit : Nat) (v : Bool) : IpHdr :=
  { h with fragOff := if v then h.fragOff ||| bit else h.fragOff &&& (0xffff - bit) }

def setMf (h : IpHdr) (v : Bool) : IpHdr := h.setFlag 0x2000 v
def setDf (h : IpHdr) (v : Bool) : IpHdr := h.setFlag 0x4000 v
def setEvil (h : IpHdr) (v : Bool) : IpHdr := h.setFlag 0x8000 v

end IpHdr

/-- `eth_addr::from(Ipv4Addr)`: 00:02 followed by the four address octets -/
def macOfIp (ip : Nat) : Bytes := [0x00, 0x02] ++ be32 ip

def macBroadcast : Bytes := [0xff, 0xff, 0xff, 0xff, 0xff, 0xff]

/-- `eth_hdr` in wire order: destination, source, type -/
def ethHdr (dst src : Bytes) (proto : Nat) : Bytes := dst ++ src ++ be16 proto

namespace Proto
def icmp : Nat := 1
def tcp : Nat := 6
def udp : Nat := 17
def gre : Nat := 47
end Proto

/-- `tcp_hdr` -/
structure TcpHdr where
  sport : Nat := 0
  dport : Nat := 0
  seq : Nat := 0
  ack : Nat := 0
  doff : Nat := 0x50
  flags : Nat := 0
  win : Nat := 65535
  csum : Nat := 0
  urp : Nat := 0
  deriving Repr, DecidableEq

namespace TcpHdr
def serialize (h : TcpHdr) : Bytes :=
  be16 h.sport ++ be16 h.dport ++ be32 h.seq ++ be32 h.ack ++ [b8 h.doff, b8 h.flags] ++
  be16 h.win ++ be16 h.csum ++ be16 h.urp

def FIN : Nat := 0x01
def SYN : Nat := 0x02
def RST : Nat := 0x04
def PSH : Nat := 0x08
def ACK : Nat := 0x10
end TcpHdr

/-- `udp_hdr` -/
structure UdpHdr where
  sport : Nat := 0
  dport : Nat := 0
  len : Nat := 8
  csum : Nat := 0
  deriving Repr, DecidableEq

namespace UdpHdr
def serialize (h : UdpHdr) : Bytes := be16 h.sport ++ be16 h.dport ++ be16 h.len ++ be16 h.csum
end UdpHdr

/-- `ip_pseudo_hdr` bytes: src, dst, zero, proto, length -/
def pseudoHdr (src dst proto len : Nat) : Bytes := be32 src ++ be32 dst ++ [0, b8 proto] ++ be16 len

end Resynth
