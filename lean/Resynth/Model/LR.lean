import Resynth.Model.Syntax
import Resynth.Model.Lit
/-!
# The hand-written LR parser (src/parse.rs), transcribed line by line

`Parser` = `Cfg` (current state, node stack with the TOP AT THE HEAD of the list, finished
statements).  `Parser::feed` = `feed`.  Every `unreachable!()` of the `From<Node>` conversions and
every `pop().unwrap()` on an empty stack is the `panic` outcome; `Err(ParseError)` (including the
`?` on `Val::from_token`) is `parseError`.

Two places model the behaviour of the repository AFTER its `fix:` commits and are marked
`-- FIX(C09)` (`f(name:)` is a parse error) and `-- FIX(C17)` (`ip:port` with port > 65535 is a
parse error).  Everything else follows the pinned source.
-/
namespace Resynth.LR

/-- `enum State` (40 states) -/
inductive State
  | initial | import_ | importEnd | reduceImport | let_ | assign
  | refComponent | reduceModule | refModule | reduceObject | reduceRefCall | reduceRefNaked
  | refObject | refObjEnd | reduceCall | reduceArg | argNext | exprArg | argName | argVal
  | exprStmt | expr | exprRvalue | ipv4 | ipv4Colon | reduceLiteralExpr | reduceRefExpr
  | reduceCallExpr | slash | reduceExpr | reduceSockAddr | exprStmtEnd | assignStmtEnd | reduceBop
  | reduceAssign | reduceExprStmt | reduceAssignStmt | reduceStmt | accept
  deriving DecidableEq, Repr, Inhabited

/-- `struct PathBuilder` -/
structure PathB where
  loc : Loc
  module : List String
  object : List String
  deriving DecidableEq, Repr, Inhabited

/-- `PathBuilder::new` -/
def PathB.new (loc : Loc) : PathB := ⟨loc, [], []⟩

/-- `enum Node` (`Assign` and `Call` structs are inlined) -/
inductive Node
  | st (s : State)
  | lit (v : Lit)
  | module (s : String) | assignTo (s : String) | comp (s : String)
  | argName (n : Option String)
  | argList (l : Args)
  | path (p : PathB)
  | obj (o : ObjRef)
  | expr (e : Expr)
  | assign (loc : Loc) (target : String) (rvalue : Expr)
  | call (o : ObjRef) (args : Args)
  | stmt (s : Stmt)
  | loc (l : Loc)
  | slash
  deriving Inhabited

/-- outcome of a fallible operation of the parser -/
inductive Res (α : Type)
  | ok (a : α)
  | parseError
  | panic
  deriving Inhabited

instance : Monad Res where
  pure := .ok
  bind x f := match x with | .ok a => f a | .parseError => .parseError | .panic => .panic

/-- `enum Action` -/
inductive Action
  | discard (s : State) | shift (s : State) (n : Node) | goto (s : State) | accept

/-- node stack, head = top (`Vec::push` = cons) -/
abbrev Stack := List Node

/-- `struct Parser` -/
structure Cfg where
  state : State
  stack : Stack
  stmts : List Stmt
  deriving Inhabited

/-- `Parser::default()` -/
def Cfg.init : Cfg := ⟨.initial, [], []⟩

/-- `Val::from_token(tok)?` -/
def fromToken (t : Tok) : Res Lit := match litOfToken t with | some v => .ok v | none => .parseError

/-- `self.pop().into(): String` -/
def popStr : Stack → Res (String × Stack)
  | .module s :: r => .ok (s, r) | .assignTo s :: r => .ok (s, r) | .comp s :: r => .ok (s, r)
  | _ => .panic
/-- `self.pop().into(): PathBuilder` -/
def popPath : Stack → Res (PathB × Stack) | .path p :: r => .ok (p, r) | _ => .panic

def reduceModule (s : Stack) : Res Stack := do
  let (c, s) ← popStr s; let (b, s) ← popPath s
  pure (.path { b with module := b.module ++ [c] } :: s)
def reduceObject (s : Stack) : Res Stack := do
  let (c, s) ← popStr s; let (b, s) ← popPath s
  pure (.path { b with object := b.object ++ [c] } :: s)
def reduceRef (s : Stack) : Res Stack := do
  let s ← reduceObject s; let (b, s) ← popPath s
  pure (.obj ⟨b.loc, b.module, b.object⟩ :: s)
/-- `reduce_sockaddr`; `u as u16` is `% 65536` (the identity once FIX(C17) is in place) -/
def reduceSockaddr : Stack → Res Stack
  | .lit (.u64 port) :: _ :: .lit (.ip4 a) :: l :: s => .ok (.lit (.sock4 a (port % 65536)) :: l :: s)
  | _ => .panic
def reduceLiteralExpr : Stack → Res Stack
  | .lit v :: .loc l :: s => .ok (.expr (.lit l v) :: s) | _ => .panic
def reduceRefExpr : Stack → Res Stack | .obj o :: s => .ok (.expr (.ref o) :: s) | _ => .panic
def reduceCallExpr : Stack → Res Stack | .call o a :: s => .ok (.expr (.call o a) :: s) | _ => .panic
def reduceBop : Stack → Res Stack
  | .expr b :: .slash :: .expr a :: s => .ok (.expr (.slash a b) :: s) | _ => .panic
def reduceArg : Stack → Res Stack
  | .expr e :: .argName n :: .argList l :: s => .ok (.argList (l.snoc n e) :: s) | _ => .panic
def reduceCall : Stack → Res Stack
  | .argList l :: .obj o :: s => .ok (.call o l :: s) | _ => .panic
def reduceAssign : Stack → Res Stack
  | .expr e :: n :: .loc l :: s => do let (t, _) ← popStr [n]; pure (.assign l t e :: s)
  | _ => .panic
def reduceExprStmt : Stack → Res Stack | .expr e :: s => .ok (.stmt (.expr e) :: s) | _ => .panic
def reduceAssignStmt : Stack → Res Stack
  | .assign l t e :: s => .ok (.stmt (.assign l t e) :: s) | _ => .panic
def reduceImportStmt : Stack → Res Stack
  | n :: .loc l :: s => do let (m, _) ← popStr [n]; pure (.stmt (.imp l m) :: s)
  | _ => .panic

/-- `push_literal` (the `Loc` is pushed before `from_token` can fail; irrelevant, errors are final) -/
def pushLiteral (s : Stack) (t : Tok) : Res (Action × Stack) :=
  match t.kind with
  | .strLit | .boolLit | .hexLit | .intLit => do
      let v ← fromToken t; pure (.shift .reduceLiteralExpr (.lit v), .loc t.loc :: s)
  | .ipv4Lit => do
      let v ← fromToken t; pure (.shift .ipv4 (.lit v), .loc t.loc :: s)
  | _ => .panic

/-- `Parser::dispatch`: the action, and the stack / statement vector as mutated by the state
function -/
def dispatch (c : Cfg) (t : Tok) : Res (Action × Stack × List Stmt) :=
  let s := c.stack
  let k := t.kind
  let r (x : Res (Action × Stack)) : Res (Action × Stack × List Stmt) := do
    let (a, s) ← x; pure (a, s, c.stmts)
  match c.state with
  | .initial => r <| match k with
      | .kwImport => .ok (.discard .import_, s) | .kwLet => .ok (.discard .let_, s)
      | .ident => .ok (.goto .exprStmt, s) | .eof => .ok (.accept, s) | _ => .parseError
  | .import_ => r <| match k with
      | .ident => .ok (.shift .importEnd (.module t.text), .loc t.loc :: s) | _ => .parseError
  | .importEnd => r <| match k with | .semi => .ok (.discard .reduceImport, s) | _ => .parseError
  | .reduceImport => r do let s ← reduceImportStmt s; pure (.goto .reduceStmt, s)
  | .let_ => r <| match k with
      | .ident => .ok (.shift .assign (.assignTo t.text), .loc t.loc :: s) | _ => .parseError
  | .assign => r <| match k with | .equals => .ok (.discard .exprRvalue, s) | _ => .parseError
  | .refComponent => r <| match k with
      | .dcolon => .ok (.discard .reduceModule, s) | .dot => .ok (.discard .reduceObject, s)
      | .lparen => .ok (.discard .reduceRefCall, s) | _ => .ok (.goto .reduceRefNaked, s)
  | .reduceObject => r do let s ← LR.reduceObject s; pure (.goto .refObject, s)
  | .reduceRefCall => r do let s ← reduceRef s; pure (.goto .exprArg, .argList .nil :: s)
  | .reduceRefNaked => r do let s ← reduceRef s; pure (.goto .reduceRefExpr, s)
  | .reduceModule => r do let s ← LR.reduceModule s; pure (.goto .refModule, s)
  | .refModule => r <| match k with
      | .ident => .ok (.shift .refComponent (.comp t.text), s) | _ => .parseError
  | .refObject => r <| match k with
      | .ident => .ok (.shift .refObjEnd (.comp t.text), s) | _ => .parseError
  | .refObjEnd => r <| match k with
      | .dot => .ok (.discard .reduceObject, s) | .lparen => .ok (.discard .reduceRefCall, s)
      | _ => .ok (.goto .reduceRefNaked, s)
  | .argNext => r <| match k with
      | .comma => .ok (.discard .exprArg, s) | .rparen => .ok (.shift .reduceCall (.st .reduceArg), s)
      | _ => .parseError
  | .exprArg => r <| match k with
      | .ident => .ok (.shift .argName (.argName (some t.text)), s)
      | _ => .ok (.goto .argVal, .argName none :: s)
  | .argName => r <| match k with
      | .colon => .ok (.discard .argVal, s)
      | _ => match s with
        | .argName (some c) :: s' =>
            .ok (.goto .refComponent,
                 .comp c :: .path (PathB.new t.loc) :: .st .reduceArg :: .argName none :: s')
        | _ => .panic   -- `pop().into()` on a non-`ArgName`, or `component.unwrap()` on `None`
  | .argVal => r <|
      let s := .st .reduceArg :: s
      match k with
      | .ident => .ok (.shift .refComponent (.comp t.text), .path (PathB.new t.loc) :: s)
      | .strLit | .boolLit | .hexLit | .intLit | .ipv4Lit => pushLiteral s t
      | .rparen => match s with
          | _ :: .argName (some _) :: _ => .parseError   -- FIX(C09): `f(name:)` is rejected
          | st :: _ :: s' => .ok (.discard .reduceCall, st :: s')
          | _ => .panic
      | _ => .parseError
  | .exprStmt => r <| .ok (.goto .expr, .st .exprStmtEnd :: s)
  | .expr => r <| match k with
      | .ident => .ok (.shift .refComponent (.comp t.text), .path (PathB.new t.loc) :: s)
      | .strLit | .boolLit | .hexLit | .intLit | .ipv4Lit => pushLiteral s t
      | _ => .parseError
  | .exprRvalue => r <| .ok (.goto .expr, .st .assignStmtEnd :: s)
  | .ipv4 => r <| match k with
      | .colon => .ok (.discard .ipv4Colon, s) | _ => .ok (.goto .reduceLiteralExpr, s)
  | .ipv4Colon => r <| match k with
      | .intLit => do
          let v ← fromToken t
          match v with
          | .u64 n =>
              if n > 65535 then .parseError   -- FIX(C17): a port that does not fit `u16` is rejected
              else pure (.shift .reduceSockAddr (.lit v), .loc t.loc :: s)
          | _ => pure (.shift .reduceSockAddr (.lit v), .loc t.loc :: s)
      | _ => .parseError
  | .reduceArg => r do let s ← LR.reduceArg s; pure (.goto .argNext, s)
  | .reduceLiteralExpr => r do let s ← LR.reduceLiteralExpr s; pure (.goto .slash, s)
  | .reduceRefExpr => r do let s ← LR.reduceRefExpr s; pure (.goto .slash, s)
  | .reduceCallExpr => r do let s ← LR.reduceCallExpr s; pure (.goto .slash, s)
  | .slash => r <| match k with
      | .slash => .ok (.discard .expr, .st .reduceBop :: .slash :: s)
      | _ => .ok (.goto .reduceExpr, s)
  | .reduceExpr => r <| match s with
      | e :: .st st :: s' => .ok (.goto st, e :: s')
      | _ => .panic
  | .reduceSockAddr => r do let s ← reduceSockaddr s; pure (.goto .reduceLiteralExpr, s)
  | .reduceCall => r <| match s with
      | _ :: s' => do let s ← LR.reduceCall s'; pure (.goto .reduceCallExpr, s)
      | _ => .panic
  | .exprStmtEnd => r <| match k with | .semi => .ok (.discard .reduceExprStmt, s) | _ => .parseError
  | .assignStmtEnd => r <| match k with | .semi => .ok (.discard .reduceAssign, s) | _ => .parseError
  | .reduceBop => r do let s ← LR.reduceBop s; pure (.goto .reduceExpr, s)
  | .reduceAssign => r do let s ← LR.reduceAssign s; pure (.goto .reduceAssignStmt, s)
  | .reduceExprStmt => r do let s ← LR.reduceExprStmt s; pure (.goto .reduceStmt, s)
  | .reduceAssignStmt => r do let s ← LR.reduceAssignStmt s; pure (.goto .reduceStmt, s)
  | .reduceStmt => match s with
      | .stmt st :: s' => .ok (.goto .initial, s', c.stmts ++ [st])
      | _ => .panic
  | .accept => .parseError

/-- one iteration of the loop in `Parser::feed`: the new parser and whether the token was
consumed (`false` = `Action::Goto`, the loop continues with the same token) -/
def step (c : Cfg) (t : Tok) : Res (Cfg × Bool) := do
  let (a, s, st) ← dispatch c t
  match a with
  | .discard n => pure (⟨n, s, st⟩, true)
  | .shift n x => pure (⟨n, x :: s, st⟩, true)
  | .goto n => pure (⟨n, s, st⟩, false)
  | .accept => pure (⟨.accept, s, st⟩, true)

/-- the `loop` of `Parser::feed` with an iteration budget (exhausting it is reported as `panic`;
`Props.C09.parser_no_panic` shows this never happens from `Cfg.init`) -/
def feedAux (fuel : Nat) (c : Cfg) (t : Tok) : Res Cfg :=
  match fuel with
  | 0 => .panic
  | n+1 => match step c t with
    | .ok (c', true) => .ok c'
    | .ok (c', false) => feedAux n c' t
    | .parseError => .parseError
    | .panic => .panic

/-- `Parser::feed` -/
def feed (c : Cfg) (t : Tok) : Res Cfg := feedAux (c.stack.length + 16) c t

/-- `Parser::get_results` (`std::mem::take(&mut self.stmts)`) -/
def Cfg.takeResults (c : Cfg) : List Stmt × Cfg := (c.stmts, { c with stmts := [] })

/-- `lex::EOF` -/
def eofTok : Tok := ⟨.eof, "", Loc.nil⟩

/-- result of feeding a token sequence: the parser afterwards, or the kind of failure together
with the 0-based position (counted from `i`) of the token whose `feed` failed -/
inductive Run
  | done (c : Cfg)
  | parseError (index : Nat)
  | panic (index : Nat)
  deriving Inhabited

/-- feed the tokens one after the other, stopping at the first failure; `i` is the index of the
first token of the list -/
def feedList (c : Cfg) (i : Nat) : List Tok → Run
  | [] => .done c
  | t :: ts => match feed c t with
    | .ok c' => feedList c' (i + 1) ts
    | .parseError => .parseError i
    | .panic => .panic i

/-- what a whole run delivers: the statements handed to the interpreter, or the index (in the fed
sequence; `= number of tokens` for the final EOF) of the token at which `feed` failed -/
inductive Outcome
  | ok (stmts : List Stmt)
  | parseError (index : Nat)
  | panic (index : Nat)
  deriving Inhabited

/-- feed all tokens, then `EOF`, then `get_results` -/
def parseAll (toks : List Tok) : Outcome :=
  match feedList Cfg.init 0 (toks ++ [eofTok]) with
  | .done c => .ok c.takeResults.1
  | .parseError i => .parseError i
  | .panic i => .panic i

/-- the loop of `cli.rs::process_file`: per line, feed its tokens and then `get_results`;
after the last line feed `EOF` and `get_results` once more.  `acc` are the statements already
handed over, `i` the number of tokens fed so far. -/
def parseLinesAux (c : Cfg) (i : Nat) (acc : List Stmt) : List (List Tok) → Outcome
  | [] => match feedList c i [eofTok] with
    | .done c' => .ok (acc ++ c'.takeResults.1)
    | .parseError j => .parseError j
    | .panic j => .panic j
  | l :: ls => match feedList c i l with
    | .done c' => parseLinesAux c'.takeResults.2 (i + l.length) (acc ++ c'.takeResults.1) ls
    | .parseError j => .parseError j
    | .panic j => .panic j

def parseLines (lines : List (List Tok)) : Outcome := parseLinesAux Cfg.init 0 [] lines

end Resynth.LR
