import Resynth.Model.Syntax
import Resynth.Model.Lit
/-!
# The grammar of the resynth language (reference definition for property C09)

```
program ::= stmt* EOF
stmt    ::= 'import' ID ';' | 'let' ID '=' expr ';' | expr(starting with ID) ';'
expr    ::= primary ['/' expr]
primary ::= STR | BOOL | HEX | INT | IPV4 [':' INT] | ref ['(' args ')']
ref     ::= ID ('::' ID)* ('.' ID)*
args    ::= ε | arg (',' arg)* [',']
arg     ::= ID ':' expr | expr
```

Two presentations:

* `Spec.parse` — a recursive-descent parser, one function per nonterminal.  It returns the
  statements, or the 0-based index of the first token that cannot continue any sentence.
* `Spec.Program` — the same grammar as an inductive derivation relation over token lists
  (for reading; `Props.C09.spec_sound_complete` shows that the two agree).

Conventions.
* The parser functions work on the list of unread tokens.  `.error n` means: the offending token
  is the one at which `n` tokens were still unread (`n = 0`: the input ended; this cannot happen
  for an input terminated by `EOF`, because no nonterminal consumes `EOF`).
* `Spec.parse` takes the token list WITHOUT the terminating `EOF`; it appends the `EOF` token
  itself (exactly as `cli.rs` feeds `EOF` after the last line) and converts "tokens unread" to an
  index.  An error at the appended `EOF` therefore has index `toks.length`.
* A literal token whose text has no value (`litOfToken = none`) is an error at that token.
  A socket literal is `IPV4 ':' INT` with a decimal port `≤ 65535`.
* Source positions: literals carry the position of their (first) token, `import`/`let` the
  position of the identifier, a reference the position of its first identifier — EXCEPT that a
  reference which begins an unnamed argument carries the position of the token FOLLOWING its first
  identifier (the implementation only learns at that token that the identifier was not an argument
  name).  `Spec.parse` reproduces this exactly (see `sArgs`, `restamp`), so it can be compared with
  the implementation by plain equality; the derivation relation leaves the position of a
  reference unconstrained and is compared through `eraseRefLoc`.
-/
namespace Resynth.Spec

/-- A successful parse of a nonterminal at the front of `ts`: its value and the unread rest,
which is always strictly shorter than `ts` (this is what makes the mutual recursion terminate). -/
structure Parsed (ts : List Tok) (α : Type) where
  val : α
  rest : List Tok
  short : rest.length < ts.length

abbrev PR (ts : List Tok) (α : Type) := Except Nat (Parsed ts α)

/-- consume one token of kind `k` -/
def expect (k : TokKind) : List Tok → Except Nat (Tok × List Tok)
  | [] => .error 0
  | t :: ts => if t.kind = k then .ok (t, ts) else .error (t :: ts).length

/-- `('.' ID)*` — further components of a reference -/
def sDots (comps : List String) : List Tok → Except Nat (List String × List Tok)
  | [] => .ok (comps, [])
  | d :: ts =>
    if d.kind = .dot then
      match ts with
      | [] => .error 0
      | i :: ts' => if i.kind = .ident then sDots (comps ++ [i.text]) ts' else .error (i :: ts').length
    else .ok (comps, d :: ts)

/-- `('::' ID)*` — `cur` is the identifier read last: a module name if `::` follows,
otherwise the first component -/
def sColons (mods : List String) (cur : String) : List Tok → Except Nat ((List String × String) × List Tok)
  | [] => .ok ((mods, cur), [])
  | c :: ts =>
    if c.kind = .dcolon then
      match ts with
      | [] => .error 0
      | i :: ts' => if i.kind = .ident then sColons (mods ++ [cur]) i.text ts' else .error (i :: ts').length
    else .ok ((mods, cur), c :: ts)

/-- `ref ::= ID ('::' ID)* ('.' ID)*`, after its first identifier (`first`, at `loc`) -/
def sRef (loc : Loc) (first : String) (ts : List Tok) : Except Nat (ObjRef × List Tok) := do
  let ((mods, c), r1) ← sColons [] first ts
  let (comps, r2) ← sDots [c] r1
  pure (⟨loc, mods, comps⟩, r2)

theorem sDots_le {comps ts r} (h : sDots comps ts = .ok r) : r.2.length ≤ ts.length := by
  fun_induction sDots comps ts <;> simp_all <;> (try subst h) <;> (try simp) <;> omega

theorem sColons_le {mods cur ts r} (h : sColons mods cur ts = .ok r) : r.2.length ≤ ts.length := by
  fun_induction sColons mods cur ts <;> simp_all <;> (try subst h) <;> (try simp) <;> omega

theorem sRef_le {loc first ts r} (h : sRef loc first ts = .ok r) : r.2.length ≤ ts.length := by
  unfold sRef at h
  cases h1 : sColons [] first ts with
  | error n => simp [h1, bind, Except.bind] at h
  | ok a =>
    cases h2 : sDots [a.1.2] a.2 with
    | error n => simp [h1, h2, bind, Except.bind] at h
    | ok b =>
      simp [h1, h2, bind, Except.bind, pure, Except.pure] at h
      subst h
      have := sColons_le h1; have := sDots_le h2; simp; omega

/-- the port of a socket literal: a decimal integer literal with a value that fits 16 bits -/
def portOfToken (t : Tok) : Option Nat :=
  if t.kind = .intLit then
    match litOfToken t with
    | some (.u64 n) => if n ≤ 65535 then some n else none
    | _ => none
  else none

/-- the address of an IPv4 literal token -/
def ip4OfToken (t : Tok) : Option Nat :=
  if t.kind = .ipv4Lit then
    match litOfToken t with
    | some (.ip4 a) => some a
    | _ => none
  else none

/-- the identifier token `t`, re-stamped with the source position of the token after it -/
def restamp (t next : Tok) : Tok := { t with loc := next.loc }

/-- successful result (the proof that `rest` is shorter than the input is found automatically) -/
@[inline] def ret {ts : List Tok} {α : Type} (val : α) (rest : List Tok)
    (short : rest.length < ts.length := by (first | omega | (simp_all; done) | (simp_all; omega))) :
    PR ts α := .ok ⟨val, rest, short⟩

mutual

/-- `primary ::= STR | BOOL | HEX | INT | IPV4 [':' INT] | ref ['(' args ')']` -/
def sPrimary : (ts : List Tok) → PR ts Expr
  | [] => .error 0
  | t :: ts1 =>
    match t.kind with
    | .strLit | .boolLit | .hexLit | .intLit =>
      match litOfToken t with
      | some v => ret (.lit t.loc v) ts1
      | none => .error (t :: ts1).length
    | .ipv4Lit =>
      match ip4OfToken t with
      | none => .error (t :: ts1).length
      | some a =>
        match ts1 with
        | [] => ret (.lit t.loc (.ip4 a)) []
        | c :: ts2 =>
          if c.kind = .colon then
            match ts2 with
            | [] => .error 0
            | p :: ts3 =>
              match portOfToken p with
              | some n => ret (.lit t.loc (.sock4 a n)) ts3
              | none => .error (p :: ts3).length
          else ret (.lit t.loc (.ip4 a)) (c :: ts2)
    | .ident =>
      match h : sRef t.loc t.text ts1 with
      | .error n => .error n
      | .ok (o, rest) =>
        have := sRef_le h
        match hr : rest with
        | [] => ret (.ref o) []
        | l :: rest1 =>
          if l.kind = .lparen then
            match sArgs .nil rest1 with
            | .error n => .error n
            | .ok ⟨args, rest2, _⟩ => ret (.call o args) rest2
          else ret (.ref o) (l :: rest1)
    | _ => .error (t :: ts1).length
termination_by ts => (ts.length, 0)
decreasing_by all_goals (simp_all [Prod.lex_def]; try omega)

/-- `expr ::= primary ['/' expr]` -/
def sExpr (ts : List Tok) : PR ts Expr :=
  match sPrimary ts with
  | .error n => .error n
  | .ok ⟨a, rest, _⟩ =>
    match hr : rest with
    | [] => ret a []
    | s :: rest1 =>
      if s.kind = .slash then
        match sExpr rest1 with
        | .error n => .error n
        | .ok ⟨b, rest2, _⟩ => ret (.slash a b) rest2
      else ret a (s :: rest1)
termination_by (ts.length, 1)
decreasing_by all_goals (simp_all [Prod.lex_def]; try omega)

/-- `args ')'` where `args ::= ε | arg (',' arg)* [',']`, `arg ::= ID ':' expr | expr`:
called after `(` or `,`; `acc` are the arguments read so far.  An unnamed argument that begins
with an identifier is parsed with that identifier re-stamped (see the header). -/
def sArgs (acc : Args) : (ts : List Tok) → PR ts Args
  | [] => .error 0
  | t :: ts1 =>
    if t.kind = .rparen then ret acc ts1
    else if t.kind = .ident then
      match ts1 with
      | [] => .error 0
      | u :: us =>
        if u.kind = .colon then
          match sExpr us with
          | .error n => .error n
          | .ok ⟨e, rest, _⟩ =>
            match sArgNext (acc.snoc (some t.text) e) rest with
            | .error n => .error n
            | .ok ⟨as, rest1, _⟩ => ret as rest1
        else
          match sExpr (restamp t u :: u :: us) with
          | .error n => .error n
          | .ok ⟨e, rest, _⟩ =>
            match sArgNext (acc.snoc none e) rest with
            | .error n => .error n
            | .ok ⟨as, rest1, _⟩ => ret as rest1
    else
      match sExpr (t :: ts1) with
      | .error n => .error n
      | .ok ⟨e, rest, _⟩ =>
        match sArgNext (acc.snoc none e) rest with
        | .error n => .error n
        | .ok ⟨as, rest1, _⟩ => ret as rest1
termination_by ts => (ts.length, 2)
decreasing_by all_goals (simp_all [Prod.lex_def]; try omega)

/-- after an argument: `,` continues the list (possibly with nothing: trailing comma), `)` ends it -/
def sArgNext (acc : Args) : (ts : List Tok) → PR ts Args
  | [] => .error 0
  | t :: ts1 =>
    if t.kind = .comma then
      match sArgs acc ts1 with
      | .error n => .error n
      | .ok ⟨as, rest, _⟩ => ret as rest
    else if t.kind = .rparen then ret acc ts1
    else .error (t :: ts1).length
termination_by ts => (ts.length, 0)
decreasing_by all_goals (simp_all [Prod.lex_def]; try omega)

end

/-- `sExpr` without the length certificate -/
def parseExpr (ts : List Tok) : Except Nat (Expr × List Tok) :=
  match sExpr ts with
  | .ok p => .ok (p.val, p.rest)
  | .error n => .error n

/-- `stmt ::= 'import' ID ';' | 'let' ID '=' expr ';' | expr(starting with ID) ';'` -/
def sStmt (ts : List Tok) : Except Nat (Stmt × List Tok) :=
  match ts with
  | [] => .error 0
  | t :: ts' =>
    match t.kind with
    | .kwImport => do
        let (id, r1) ← expect .ident ts'
        let (_, r2) ← expect .semi r1
        pure (.imp id.loc id.text, r2)
    | .kwLet => do
        let (id, r1) ← expect .ident ts'
        let (_, r2) ← expect .equals r1
        let (e, r3) ← parseExpr r2
        let (_, r4) ← expect .semi r3
        pure (.assign id.loc id.text e, r4)
    | .ident => do
        let (e, r1) ← parseExpr ts
        let (_, r2) ← expect .semi r1
        pure (.expr e, r2)
    | _ => .error ts.length

theorem expect_lt {k ts r} (h : expect k ts = .ok r) : r.2.length < ts.length := by
  cases ts with
  | nil => simp [expect] at h
  | cons t ts => simp only [expect] at h; split at h <;> simp_all; subst h; simp

theorem parseExpr_lt {ts r} (h : parseExpr ts = .ok r) : r.2.length < ts.length := by
  unfold parseExpr at h
  split at h
  · next p _ => simp at h; subst h; exact p.short
  · simp at h

theorem sStmt_lt {ts r} (h : sStmt ts = .ok r) : r.2.length < ts.length := by
  cases ts with
  | nil => simp [sStmt] at h
  | cons t ts =>
    simp only [sStmt] at h
    split at h
    · cases h1 : expect .ident ts with
      | error n => simp [h1, bind, Except.bind] at h
      | ok a =>
        cases h2 : expect .semi a.2 with
        | error n => simp [h1, h2, bind, Except.bind] at h
        | ok b =>
          simp [h1, h2, bind, Except.bind, pure, Except.pure] at h; subst h
          have := expect_lt h1; have := expect_lt h2; simp; omega
    · cases h1 : expect .ident ts with
      | error n => simp [h1, bind, Except.bind] at h
      | ok a =>
        cases h2 : expect .equals a.2 with
        | error n => simp [h1, h2, bind, Except.bind] at h
        | ok b =>
          cases h3 : parseExpr b.2 with
          | error n => simp [h1, h2, h3, bind, Except.bind] at h
          | ok c =>
            cases h4 : expect .semi c.2 with
            | error n => simp [h1, h2, h3, h4, bind, Except.bind] at h
            | ok d =>
              simp [h1, h2, h3, h4, bind, Except.bind, pure, Except.pure] at h; subst h
              have := expect_lt h1; have := expect_lt h2; have := parseExpr_lt h3
              have := expect_lt h4; simp; omega
    · cases h1 : parseExpr (t :: ts) with
      | error n => simp [h1, bind, Except.bind] at h
      | ok a =>
        cases h2 : expect .semi a.2 with
        | error n => simp [h1, h2, bind, Except.bind] at h
        | ok b =>
          simp [h1, h2, bind, Except.bind, pure, Except.pure] at h; subst h
          have := parseExpr_lt h1; have := expect_lt h2; simp at *; omega
    · simp at h

set_option linter.unusedVariables false in
/-- `program ::= stmt* EOF` (`acc` = statements read so far).  Nothing may follow `EOF`. -/
def sProgram (acc : List Stmt) : List Tok → Except Nat (List Stmt)
  | [] => .error 0
  | t :: ts1 =>
    if t.kind = .eof then
      match ts1 with
      | [] => .ok acc
      | _ :: _ => .error ts1.length
    else
      match h : sStmt (t :: ts1) with
      | .error n => .error n
      | .ok (s, rest) => sProgram (acc ++ [s]) rest
termination_by ts => ts.length
decreasing_by have := sStmt_lt h; simp_all

/-- the `EOF` token fed after the last line (`lex::EOF`) -/
def eofTok : Tok := ⟨.eof, "", Loc.nil⟩

/-- **The reference parser.**  `toks` is the token sequence of the whole input WITHOUT the
terminating `EOF`.  Result: the statements, or the index in `toks` of the first token that cannot
continue a sentence (`toks.length` if the input is an incomplete sentence, i.e. the error is at
the `EOF`). -/
def parse (toks : List Tok) : Except Nat (List Stmt) :=
  match sProgram [] (toks ++ [eofTok]) with
  | .ok ss => .ok ss
  | .error n => .error (toks.length + 1 - n)

/-! ## The same grammar as a derivation relation

`X ts v` reads: the token list `ts` (all of it) derives the nonterminal `X` with syntax tree `v`.
-/

/-- `('::' ID)*` following an identifier: the module names and the final identifier -/
inductive Colons : String → List Tok → List String → String → Prop
  | done (cur : String) : Colons cur [] [] cur
  | step {cur : String} {c i : Tok} {ts ms last} :
      c.kind = .dcolon → i.kind = .ident → Colons i.text ts ms last →
      Colons cur (c :: i :: ts) (cur :: ms) last

/-- `('.' ID)*` -/
inductive Dots : List Tok → List String → Prop
  | done : Dots [] []
  | step {d i : Tok} {ts cs} :
      d.kind = .dot → i.kind = .ident → Dots ts cs → Dots (d :: i :: ts) (i.text :: cs)

/-- `ref ::= ID ('::' ID)* ('.' ID)*`; the source position of the tree is not constrained -/
inductive Ref : List Tok → ObjRef → Prop
  | mk {i : Tok} {cs ds ms first comps} (loc : Loc) :
      i.kind = .ident → Colons i.text cs ms first → Dots ds comps →
      Ref (i :: cs ++ ds) ⟨loc, ms, first :: comps⟩

/-- plain literal tokens -/
def isPlainLit (k : TokKind) : Bool :=
  k == .strLit || k == .boolLit || k == .hexLit || k == .intLit

mutual
inductive Primary : List Tok → Expr → Prop
  | lit {t : Tok} {v} : isPlainLit t.kind = true → litOfToken t = some v → Primary [t] (.lit t.loc v)
  | ip4 {t : Tok} {a} : ip4OfToken t = some a → Primary [t] (.lit t.loc (.ip4 a))
  | sock {t c p : Tok} {a n} : ip4OfToken t = some a → c.kind = .colon → portOfToken p = some n →
      Primary [t, c, p] (.lit t.loc (.sock4 a n))
  | ref {ts o} : Ref ts o → Primary ts (.ref o)
  | call {ts o} {l r : Tok} {as args} : Ref ts o → l.kind = .lparen → ArgList as args →
      r.kind = .rparen → Primary (ts ++ l :: as ++ [r]) (.call o args)
inductive Expression : List Tok → Expr → Prop
  | prim {ts e} : Primary ts e → Expression ts e
  | slash {ts a us b} {s : Tok} : Primary ts a → s.kind = .slash → Expression us b →
      Expression (ts ++ s :: us) (.slash a b)
/-- `args ::= ε | arg (',' arg)* [',']` -/
inductive ArgList : List Tok → Args → Prop
  | nil : ArgList [] .nil
  | last {ts n e} : Arg ts n e → ArgList ts (.cons n e .nil)
  | cons {ts n e us rest} {c : Tok} : Arg ts n e → c.kind = .comma → ArgList us rest →
      ArgList (ts ++ c :: us) (.cons n e rest)
/-- `arg ::= ID ':' expr | expr` -/
inductive Arg : List Tok → Option String → Expr → Prop
  | named {i c : Tok} {ts e} : i.kind = .ident → c.kind = .colon → Expression ts e →
      Arg (i :: c :: ts) (some i.text) e
  | pos {ts e} : Expression ts e → Arg ts none e
end

/-- `stmt` -/
inductive Statement : List Tok → Stmt → Prop
  | imp {k i s : Tok} : k.kind = .kwImport → i.kind = .ident → s.kind = .semi →
      Statement [k, i, s] (.imp i.loc i.text)
  | assign {k i q s : Tok} {ts e} : k.kind = .kwLet → i.kind = .ident → q.kind = .equals →
      Expression ts e → s.kind = .semi → Statement (k :: i :: q :: ts ++ [s]) (.assign i.loc i.text e)
  | expr {t s : Tok} {ts e} : t.kind = .ident → Expression (t :: ts) e → s.kind = .semi →
      Statement (t :: ts ++ [s]) (.expr e)

/-- `program ::= stmt* EOF` -/
inductive Program : List Tok → List Stmt → Prop
  | eof {e : Tok} : e.kind = .eof → Program [e] []
  | cons {ts s us ss} : Statement ts s → Program us ss → Program (ts ++ us) (s :: ss)

/-! ### Trees up to the source position of references -/

mutual
def eraseRefLocE : Expr → Expr
  | .nil => .nil
  | .lit l v => .lit l v
  | .ref o => .ref { o with loc := Loc.nil }
  | .call o as => .call { o with loc := Loc.nil } (eraseRefLocA as)
  | .slash a b => .slash (eraseRefLocE a) (eraseRefLocE b)
def eraseRefLocA : Args → Args
  | .nil => .nil
  | .cons n e r => .cons n (eraseRefLocE e) (eraseRefLocA r)
end

def eraseRefLoc : Stmt → Stmt
  | .imp l m => .imp l m
  | .assign l t e => .assign l t (eraseRefLocE e)
  | .expr e => .expr (eraseRefLocE e)

end Resynth.Spec
