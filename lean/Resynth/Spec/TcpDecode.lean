import Resynth.Spec.TcpStream
/-!
# Reading a TCP segment back from frame bytes (for running the C04 spec on real output)
-/
namespace Resynth.TcpStream

def rdU8 (b : Bytes) (o : Nat) : Nat := (b.getD o 0).toNat
def rdU16 (b : Bytes) (o : Nat) : Nat := rdU8 b o * 256 + rdU8 b (o + 1)
def rdU32 (b : Bytes) (o : Nat) : Nat := rdU16 b o * 65536 + rdU16 b (o + 2)

/-- `d` = an IPv4 datagram carrying TCP; client is identified by (ip, port) -/
def decodeSegment (clIp clPort : Nat) (d : Bytes) : Option Segment :=
  if d.length < 40 || rdU8 d 0 != 0x45 || rdU8 d 9 != 6 then none
  else
    let tot := rdU16 d 2
    if tot != d.length then none else
    let fl := rdU8 d 33
    let dir := if rdU32 d 12 == clIp && rdU16 d 20 == clPort then Dir.c2s else Dir.s2c
    some { dir := dir, seq := rdU32 d 24
           ack := if fl / 16 % 2 == 1 then some (rdU32 d 28) else none
           syn := fl / 2 % 2 == 1, fin := fl % 2 == 1, rst := fl / 4 % 2 == 1, psh := fl / 8 % 2 == 1
           payload := d.drop 40 }

end Resynth.TcpStream
