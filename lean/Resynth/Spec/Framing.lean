import Resynth.Model.Bytes
/-!
# Independent parsers for the length-prefixed formats the standard library builds

Generic big-endian length prefixes (1, 2, 3, 4, 8 bytes), TLS records (RFC 5246 §6.2.1), handshake
messages (§7.4, 24-bit length), ClientHello / ServerHello (§7.4.1.2/3), extensions (§7.4.1.4), the
server-name extension (RFC 6066 §3), certificate lists (§7.4.2), cipher-suite lists, DHCP options
(RFC 2132 §2) and the fixed part of a DNS resource record (RFC 1035 §4.1.3).

Every parser returns the decoded parts together with the unconsumed rest, `none` when the input is
truncated or malformed.  Nothing here refers to the model's builders; only `Bytes`, `b8` and the
big-endian reader `beNat` of `Model/Bytes.lean` are used.
-/
namespace Resynth.Spec

/-- split off exactly `n` bytes -/
def takeN (n : Nat) (b : Bytes) : Option (Bytes × Bytes) :=
  if n ≤ b.length then some (b.take n, b.drop n) else none

/-- little-endian reader -/
def leNat (b : Bytes) : Nat := beNat b.reverse

/-- the value of the `w`-byte big-endian field at offset `off` of `m` -/
def declared (off w : Nat) (m : Bytes) : Nat := beNat ((m.drop off).take w)
/-- the number of bytes of `m` after that field -/
def following (off w : Nat) (m : Bytes) : Nat := (m.drop (off + w)).length
/-- `m` has a complete `w`-byte length field at `off` that declares exactly the bytes following it -/
def LenFieldExact (off w : Nat) (m : Bytes) : Prop := off + w ≤ m.length ∧ declared off w m = following off w m
instance (off w : Nat) (m : Bytes) : Decidable (LenFieldExact off w m) := by unfold LenFieldExact; exact inferInstance

/-- a `width`-byte big-endian length followed by that many bytes: `(payload, rest)` -/
def parseLenPrefixed (width : Nat) (b : Bytes) : Option (Bytes × Bytes) := do
  let (l, r) ← takeN width b
  takeN (beNat l) r

/-- a `width`-byte big-endian unsigned integer: `(value, rest)` -/
def parseUInt (width : Nat) (b : Bytes) : Option (Nat × Bytes) := do
  let (l, r) ← takeN width b
  some (beNat l, r)

/-- apply `p` until the input is exhausted; every step has to consume something (`fuel` bounds the
number of steps) -/
def parseMany {α} (p : Bytes → Option (α × Bytes)) : Nat → Bytes → Option (List α)
  | _, [] => some []
  | 0, _ :: _ => none
  | fuel + 1, b@(_ :: _) => do
    let (a, r) ← p b
    let as ← parseMany p fuel r
    some (a :: as)

/-- a sequence of `p`-items filling the input exactly -/
def parseAll {α} (p : Bytes → Option (α × Bytes)) (b : Bytes) : Option (List α) := parseMany p b.length b

/-! ## TLS -/

/-- TLS record: content type, version, 16-bit length, payload. `(content, version, payload, rest)` -/
def parseTlsRecord (b : Bytes) : Option (Nat × Nat × Bytes × Bytes) := do
  let (c, r) ← parseUInt 1 b
  let (v, r) ← parseUInt 2 r
  let (p, rest) ← parseLenPrefixed 2 r
  some (c, v, p, rest)

/-- handshake message: type, 24-bit length, body. `(type, body, rest)` -/
def parseHandshake (b : Bytes) : Option (Nat × Bytes × Bytes) := do
  let (t, r) ← parseUInt 1 b
  let (body, rest) ← parseLenPrefixed 3 r
  some (t, body, rest)

/-- one extension: 16-bit type, 16-bit length, data. `((type, data), rest)` -/
def parseExtension (b : Bytes) : Option ((Nat × Bytes) × Bytes) := do
  let (t, r) ← parseUInt 2 b
  let (d, rest) ← parseLenPrefixed 2 r
  some ((t, d), rest)

/-- extensions until the input is exhausted -/
def parseExtensionList (b : Bytes) : Option (List (Nat × Bytes)) := parseAll parseExtension b

/-- the extensions block of a hello: 16-bit total length, then extensions filling it exactly -/
def parseExtensionBlock (b : Bytes) : Option (List (Nat × Bytes) × Bytes) := do
  let (blk, rest) ← parseLenPrefixed 2 b
  let exts ← parseExtensionList blk
  some (exts, rest)

/-- one `ServerName`: name type 0 (host_name), 16-bit length, name -/
def parseSniEntry (b : Bytes) : Option (Bytes × Bytes) := do
  let (t, r) ← parseUInt 1 b
  if t ≠ 0 then none else parseLenPrefixed 2 r

/-- server-name extension: type 0, extension length, list length, entries. `(names, rest)` -/
def parseSni (b : Bytes) : Option (List Bytes × Bytes) := do
  let ((t, d), rest) ← parseExtension b
  if t ≠ 0 then none else
  let (l, r) ← parseLenPrefixed 2 d
  if r ≠ [] then none else
  let names ← parseAll parseSniEntry l
  some (names, rest)

/-- Certificate handshake message: type 11, 24-bit length, 24-bit list length, entries of 24-bit
length + certificate. `(certs, rest)` -/
def parseCertificates (b : Bytes) : Option (List Bytes × Bytes) := do
  let (t, body, rest) ← parseHandshake b
  if t ≠ 11 then none else
  let (l, r) ← parseLenPrefixed 3 body
  if r ≠ [] then none else
  let certs ← parseAll (parseLenPrefixed 3) l
  some (certs, rest)

/-- cipher-suite list: 16-bit byte length, then 2-byte identifiers. `(ids, rest)` -/
def parseCipherList (b : Bytes) : Option (List Nat × Bytes) := do
  let (l, rest) ← parseLenPrefixed 2 b
  let ids ← parseAll (parseUInt 2) l
  some (ids, rest)

/-- the optional tail of a hello body: nothing, or a 16-bit length and exactly that many bytes -/
def parseOptExtBlock (b : Bytes) : Option (Option Bytes) :=
  if b = [] then some none else do
    let (blk, r) ← parseLenPrefixed 2 b
    if r ≠ [] then none else some (some blk)

structure ClientHello where
  version : Nat
  random : Bytes
  sessionId : Bytes
  ciphers : List Nat
  compression : Bytes
  /-- content of the extensions block (after its 16-bit length); `none` when the block is absent -/
  extensions : Option Bytes
  deriving Repr, DecidableEq

/-- ClientHello handshake message (type 1): version, 32 random bytes, session id (8-bit length),
cipher suites (16-bit length), compression methods (8-bit length), optional extensions block -/
def parseClientHello (b : Bytes) : Option (ClientHello × Bytes) := do
  let (t, body, rest) ← parseHandshake b
  if t ≠ 1 then none else
  let (v, r) ← parseUInt 2 body
  let (rnd, r) ← takeN 32 r
  let (sid, r) ← parseLenPrefixed 1 r
  let (cs, r) ← parseCipherList r
  let (comp, r) ← parseLenPrefixed 1 r
  let ext ← parseOptExtBlock r
  some (⟨v, rnd, sid, cs, comp, ext⟩, rest)

structure ServerHello where
  version : Nat
  random : Bytes
  sessionId : Bytes
  cipher : Nat
  compression : Nat
  extensions : Option Bytes
  deriving Repr, DecidableEq

/-- ServerHello handshake message (type 2): version, 32 random bytes, session id (8-bit length),
one cipher suite, one compression method, optional extensions block -/
def parseServerHello (b : Bytes) : Option (ServerHello × Bytes) := do
  let (t, body, rest) ← parseHandshake b
  if t ≠ 2 then none else
  let (v, r) ← parseUInt 2 body
  let (rnd, r) ← takeN 32 r
  let (sid, r) ← parseLenPrefixed 1 r
  let (c, r) ← parseUInt 2 r
  let (z, r) ← parseUInt 1 r
  let ext ← parseOptExtBlock r
  some (⟨v, rnd, sid, c, z, ext⟩, rest)

/-- the header of any hello (either direction), sessions/ciphers left opaque: handshake type,
version, random, everything after the random -/
def parseHelloHeader (b : Bytes) : Option ((Nat × Nat × Bytes × Bytes) × Bytes) := do
  let (t, body, rest) ← parseHandshake b
  let (v, r) ← parseUInt 2 body
  let (rnd, r) ← takeN 32 r
  some ((t, v, rnd, r), rest)

/-! ## DHCP option, DNS resource record -/

/-- DHCP option: code, 8-bit length, data. `((code, data), rest)` -/
def parseDhcpOption (b : Bytes) : Option ((Nat × Bytes) × Bytes) := do
  let (c, r) ← parseUInt 1 b
  let (d, rest) ← parseLenPrefixed 1 r
  some ((c, d), rest)

structure RRFixed where
  type : Nat
  cls : Nat
  ttl : Nat
  rdata : Bytes
  deriving Repr, DecidableEq

/-- the part of a resource record after its name: TYPE, CLASS, TTL, RDLENGTH, RDATA -/
def parseRRFixed (b : Bytes) : Option (RRFixed × Bytes) := do
  let (t, r) ← parseUInt 2 b
  let (c, r) ← parseUInt 2 r
  let (ttl, r) ← parseUInt 4 r
  let (d, rest) ← parseLenPrefixed 2 r
  some (⟨t, c, ttl, d⟩, rest)

/-- a resource record whose (possibly compressed) owner name occupies `nameLen` bytes -/
def parseRR (nameLen : Nat) (b : Bytes) : Option ((Bytes × RRFixed) × Bytes) := do
  let (n, r) ← takeN nameLen b
  let (rr, rest) ← parseRRFixed r
  some ((n, rr), rest)

end Resynth.Spec
