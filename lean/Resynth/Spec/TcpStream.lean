import Resynth.Model.Bytes
/-!
# Reference semantics of a scripted TCP flow (property C04)

Independent of the builder model: only `Bytes` is imported.

* `TcpOp`      — the alphabet of script operations (the 17 methods of the `TcpFlow` class
                 with their arguments; `seq`/`ack` are the optional overrides).
* `Ev`         — primitive events.  `TcpOp.events` says in one line per method what a call means
                 (`open` = SYN, SYN+ACK, ACK; …).
* `consumed`   — sequence space used by one side: payload bytes, one per SYN and FIN, declared
                 holes, declared `*_hdr` lengths.
* `expectedEvs`/`expectedOps` — the segments a correct flow must emit: `seq = isn + consumed
                 before (mod 2^32)`, `ack = peer's next`, flags by kind.
* `streams`    — the scripted byte streams as chunks `data bs | hole n`.
* `reassemble` — a reassembler working on a *list of segments in any order*.
-/
namespace Resynth

/-- One call on a `TcpFlow` object.  `seq`/`ack` are the optional `seq:`/`ack:` arguments. -/
inductive TcpOp where
  | «open»
  | clientMessage (bytes : Bytes) (sendAck : Bool) (fragOff : Nat) (seq ack : Option Nat)
  | serverMessage (bytes : Bytes) (sendAck : Bool) (fragOff : Nat) (seq ack : Option Nat)
  | clientSegment (bytes : Bytes) (seq ack : Option Nat)
  | serverSegment (bytes : Bytes) (seq ack : Option Nat)
  | clientRawSegment (bytes : Bytes) (seq ack : Option Nat)
  | serverRawSegment (bytes : Bytes) (seq ack : Option Nat)
  | clientHdr (dlen : Nat)
  | serverHdr (dlen : Nat)
  | clientAck (seq ack : Option Nat)
  | serverAck (seq ack : Option Nat)
  | clientHole (n : Nat)
  | serverHole (n : Nat)
  | clientClose
  | serverClose
  | clientReset
  | serverReset
  deriving Repr, DecidableEq

namespace TcpStream

/-- direction of a segment: client→server or server→client -/
inductive Dir where
  | c2s | s2c
  deriving Repr, DecidableEq

def Dir.peer : Dir → Dir
  | .c2s => .s2c
  | .s2c => .c2s

/-- flag combination of a payload-less control segment -/
inductive Kind where
  | syn | synAck | ack | finAck | rst
  deriving Repr, DecidableEq

/-- SYN and FIN occupy one unit of sequence space -/
def Kind.seqUnits : Kind → Nat
  | .syn | .synAck | .finAck => 1
  | .ack | .rst => 0

def Kind.hasSyn : Kind → Bool
  | .syn | .synAck => true
  | _ => false
def Kind.hasFin : Kind → Bool
  | .finAck => true
  | _ => false
def Kind.hasRst : Kind → Bool
  | .rst => true
  | _ => false
/-- every control segment except a bare SYN and RST carries an acknowledgement -/
def Kind.hasAck : Kind → Bool
  | .synAck | .ack | .finAck => true
  | .syn | .rst => false

/-- Primitive events of a flow script. -/
inductive Ev where
  /-- a control segment without payload -/
  | ctl (d : Dir) (k : Kind)
  /-- a data segment (PSH+ACK) carrying `bs` (possibly empty) -/
  | data (d : Dir) (bs : Bytes)
  /-- a bare TCP header (PSH+ACK) that announces `dlen` bytes supplied outside the flow object -/
  | hdr (d : Dir) (dlen : Nat)
  /-- a declared hole: `n` units of sequence space are skipped, nothing is emitted -/
  | hole (d : Dir) (n : Nat)
  deriving Repr, DecidableEq

end TcpStream

open TcpStream

/-- Meaning of each method as primitive events (overrides aside). -/
def TcpOp.events : TcpOp → List Ev
  | .open => [.ctl .c2s .syn, .ctl .s2c .synAck, .ctl .c2s .ack]
  | .clientMessage bs sendAck _ _ _ => .data .c2s bs :: (if sendAck then [.ctl .s2c .ack] else [])
  | .serverMessage bs sendAck _ _ _ => .data .s2c bs :: (if sendAck then [.ctl .c2s .ack] else [])
  | .clientSegment bs _ _ | .clientRawSegment bs _ _ => [.data .c2s bs]
  | .serverSegment bs _ _ | .serverRawSegment bs _ _ => [.data .s2c bs]
  | .clientHdr n => [.hdr .c2s n]
  | .serverHdr n => [.hdr .s2c n]
  | .clientAck _ _ => [.ctl .c2s .ack]
  | .serverAck _ _ => [.ctl .s2c .ack]
  | .clientHole n => [.hole .c2s n]
  | .serverHole n => [.hole .s2c n]
  | .clientClose => [.ctl .c2s .finAck, .ctl .s2c .finAck, .ctl .c2s .ack]
  | .serverClose => [.ctl .s2c .finAck, .ctl .c2s .finAck, .ctl .s2c .ack]
  | .clientReset => [.ctl .c2s .rst]
  | .serverReset => [.ctl .s2c .rst]

/-- the `seq:` override of a call (it always addresses the *client* counter) -/
def TcpOp.seqOv : TcpOp → Option Nat
  | .clientMessage _ _ _ s _ | .serverMessage _ _ _ s _
  | .clientSegment _ s _ | .serverSegment _ s _
  | .clientRawSegment _ s _ | .serverRawSegment _ s _
  | .clientAck s _ | .serverAck s _ => s
  | _ => none

/-- the `ack:` override of a call (it always addresses the *server* counter) -/
def TcpOp.ackOv : TcpOp → Option Nat
  | .clientMessage _ _ _ _ a | .serverMessage _ _ _ _ a
  | .clientSegment _ _ a | .serverSegment _ _ a
  | .clientRawSegment _ _ a | .serverRawSegment _ _ a
  | .clientAck _ a | .serverAck _ a => a
  | _ => none

/-- the same call with the overrides removed -/
def TcpOp.clearOv : TcpOp → TcpOp
  | .clientMessage b s f _ _ => .clientMessage b s f none none
  | .serverMessage b s f _ _ => .serverMessage b s f none none
  | .clientSegment b _ _ => .clientSegment b none none
  | .serverSegment b _ _ => .serverSegment b none none
  | .clientRawSegment b _ _ => .clientRawSegment b none none
  | .serverRawSegment b _ _ => .serverRawSegment b none none
  | .clientAck _ _ => .clientAck none none
  | .serverAck _ _ => .serverAck none none
  | op => op

namespace TcpStream

/-- the override that addresses the counter of side `d` -/
def ovFor (op : TcpOp) : Dir → Option Nat
  | .c2s => op.seqOv
  | .s2c => op.ackOv

def noOverride (op : TcpOp) : Bool := op.seqOv.isNone && op.ackOv.isNone
def noOverrides (h : List TcpOp) : Bool := h.all noOverride

/-- override values are `u32` -/
def opWf (op : TcpOp) : Bool :=
  (op.seqOv.all fun v => decide (v < 4294967296)) && (op.ackOv.all fun v => decide (v < 4294967296))
def histWf (h : List TcpOp) : Bool := h.all opWf

/-! ## Sequence space consumed -/

/-- sequence space of side `d` used up by one event -/
def Ev.consumes (d : Dir) : Ev → Nat
  | .ctl d' k => if d' = d then k.seqUnits else 0
  | .data d' bs => if d' = d then bs.length else 0
  | .hdr d' n => if d' = d then n else 0
  | .hole d' n => if d' = d then n else 0

def consumed (d : Dir) (evs : List Ev) : Nat := (evs.map (Ev.consumes d)).sum

/-- sequence space of side `d` used up by a call, as seen *after* the call: an overridden
counter is restored, so the call counts for nothing on it -/
def opConsumes (d : Dir) (op : TcpOp) : Nat :=
  if (ovFor op d).isSome then 0 else consumed d op.events

def consumedOps (d : Dir) (h : List TcpOp) : Nat := (h.map (opConsumes d)).sum

/-! ## Expected segments -/

structure Segment where
  dir : Dir
  seq : Nat
  ack : Option Nat      -- `some a` iff the ACK flag is set
  syn : Bool
  fin : Bool
  rst : Bool
  psh : Bool
  payload : Bytes
  deriving Repr, DecidableEq

/-- the flag byte of the TCP header: FIN 1, SYN 2, RST 4, PSH 8, ACK 16 -/
def Segment.flagByte (s : Segment) : Nat :=
  (if s.fin then 1 else 0) + (if s.syn then 2 else 0) + (if s.rst then 4 else 0)
    + (if s.psh then 8 else 0) + (if s.ack.isSome then 16 else 0)

def isn (c0 s0 : Nat) : Dir → Nat
  | .c2s => c0
  | .s2c => s0

/-- next sequence number of side `d` after the events `pre`: isn + consumed, mod 2^32 -/
def nextSeq (c0 s0 : Nat) (pre : List Ev) (d : Dir) : Nat :=
  (isn c0 s0 d + consumed d pre) % 4294967296

/-- the segment an event must produce, given everything that happened before it -/
def Ev.segment (c0 s0 : Nat) (pre : List Ev) : Ev → Option Segment
  | .ctl d k => some
      { dir := d, seq := nextSeq c0 s0 pre d
        ack := if k.hasAck then some (nextSeq c0 s0 pre d.peer) else none
        syn := k.hasSyn, fin := k.hasFin, rst := k.hasRst, psh := false, payload := [] }
  | .data d bs => some
      { dir := d, seq := nextSeq c0 s0 pre d, ack := some (nextSeq c0 s0 pre d.peer)
        syn := false, fin := false, rst := false, psh := true, payload := bs }
  | .hdr d _ => some
      { dir := d, seq := nextSeq c0 s0 pre d, ack := some (nextSeq c0 s0 pre d.peer)
        syn := false, fin := false, rst := false, psh := true, payload := [] }
  | .hole _ _ => none

def expectedAux (c0 s0 : Nat) (pre : List Ev) : List Ev → List Segment
  | [] => []
  | e :: es => (e.segment c0 s0 pre).toList ++ expectedAux c0 s0 (pre ++ [e]) es

/-- all segments of an event history, in emission order -/
def expectedEvs (c0 s0 : Nat) (evs : List Ev) : List Segment := expectedAux c0 s0 [] evs

/-- value of counter `d` before a call that follows the calls `pre` -/
def counterAfter (c0 s0 : Nat) (pre : List TcpOp) (d : Dir) : Nat :=
  (isn c0 s0 d + consumedOps d pre) % 4294967296

def expectedOpsAux (c0 s0 : Nat) (pre : List TcpOp) : List TcpOp → List Segment
  | [] => []
  | op :: ops =>
    expectedEvs ((op.seqOv).getD (counterAfter c0 s0 pre .c2s))
                ((op.ackOv).getD (counterAfter c0 s0 pre .s2c)) op.events
      ++ expectedOpsAux c0 s0 (pre ++ [op]) ops

/-- all segments of a call history (overrides included): inside a call the counters start at
the override values where given, else at their current values -/
def expectedOps (c0 s0 : Nat) (h : List TcpOp) : List Segment := expectedOpsAux c0 s0 [] h

/-! ## Scripted streams -/

inductive Chunk where
  | data (bs : Bytes)
  | hole (n : Nat)
  deriving Repr, DecidableEq

/-- `some b` for a scripted byte, `none` for a unit of a hole -/
def Chunk.flat : Chunk → List (Option UInt8)
  | .data bs => bs.map some
  | .hole n => List.replicate n none

def Ev.chunks (d : Dir) : Ev → List Chunk
  | .ctl _ _ => []
  | .data d' bs => if d' = d then [.data bs] else []
  | .hdr d' n => if d' = d then [.hole n] else []
  | .hole d' n => if d' = d then [.hole n] else []

/-- the byte stream side `d` was scripted to send -/
def streams (d : Dir) (evs : List Ev) : List Chunk := evs.flatMap (Ev.chunks d)

def scriptedStreams (d : Dir) (h : List TcpOp) : List Chunk := streams d (h.flatMap TcpOp.events)

/-! ## Reassembly

The reassembler works in sequence space relative to the initial sequence number: cell `k`
holds what sits at sequence number `isn + k (mod 2^32)`.  A SYN or FIN occupies a cell of its own.
Segments may arrive in any order and may overlap; overlapping segments that agree are merged,
disagreement is flagged as `conflict` (so the result does not depend on arrival order). -/

inductive Cell where
  | gap
  | syn
  | fin
  | byte (b : UInt8)
  | conflict
  deriving Repr, DecidableEq

def Cell.merge (a b : Cell) : Cell :=
  if a = .gap then b else if b = .gap then a else if a = b then a else .conflict

/-- sequence-space content of a segment: SYN, payload, FIN -/
def Segment.units (s : Segment) : List Cell :=
  (if s.syn then [Cell.syn] else []) ++ s.payload.map Cell.byte ++ (if s.fin then [Cell.fin] else [])

/-- the `i`-th cell of a run of cells; nothing there = gap -/
def getCell (l : List Cell) (i : Nat) : Cell :=
  match l[i]? with
  | some c => c
  | none => .gap

/-- what segment `s` puts at relative position `k` (`k < 2^32`): unit number
`isn + k − seq (mod 2^32)` of the segment, if it has that many -/
def Segment.cellAt (isn : Nat) (s : Segment) (k : Nat) : Cell :=
  getCell s.units ((isn + k + 4294967296 - s.seq % 4294967296) % 4294967296)

/-- content of relative position `k` of direction `d` after seeing all of `segs` -/
def cellAt (isn : Nat) (d : Dir) (segs : List Segment) (k : Nat) : Cell :=
  segs.foldr (fun s acc => if s.dir = d then (s.cellAt isn k).merge acc else acc) .gap

/-- the first `n` cells of direction `d` -/
def reassemble (isn : Nat) (d : Dir) (segs : List Segment) (n : Nat) : List Cell :=
  (List.range n).map (cellAt isn d segs)

/-- what the script puts into sequence space -/
def Ev.cells (d : Dir) : Ev → List Cell
  | .ctl d' k => if d' = d then
      (if k.hasSyn then [Cell.syn] else if k.hasFin then [Cell.fin] else []) else []
  | .data d' bs => if d' = d then bs.map Cell.byte else []
  | .hdr d' n => if d' = d then List.replicate n Cell.gap else []
  | .hole d' n => if d' = d then List.replicate n Cell.gap else []

def scriptCells (d : Dir) (evs : List Ev) : List Cell := evs.flatMap (Ev.cells d)

/-- application view of reassembled cells: drop SYN/FIN, bytes as `some`, gaps as `none`;
fails on a conflict -/
def appStream : List Cell → Option (List (Option UInt8))
  | [] => some []
  | .gap :: cs => (appStream cs).map (none :: ·)
  | .byte b :: cs => (appStream cs).map (some b :: ·)
  | .syn :: cs | .fin :: cs => appStream cs
  | .conflict :: _ => none

end TcpStream
end Resynth
