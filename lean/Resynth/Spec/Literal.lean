import Resynth.Model.Syntax
import Resynth.Model.Bytes
/-!
# What a literal denotes (reference for C17)

Independent, executable reading of the numeric literal syntaxes of the language:

* a decimal digit string denotes `Σ dᵢ·10^(n-1-i)` (`decValue`), leading zeros allowed;
* a hexadecimal digit string denotes `Σ hᵢ·16^(n-1-i)` (`hexValue`), both letter cases;
* a dotted quad is the canonical spelling of four octets (`quadText`) and denotes
  `a·2^24 + b·2^16 + c·2^8 + d` (`quadValue`).

Nothing here refers to the model's parsing functions.
-/
namespace Resynth.Spec

/-- ASCII `0`…`9` -/
def isDec (c : Char) : Bool := '0' ≤ c && c ≤ '9'

/-- ASCII `0`…`9`, `a`…`f`, `A`…`F` -/
def isHex (c : Char) : Bool := isDec c || ('a' ≤ c && c ≤ 'f') || ('A' ≤ c && c ≤ 'F')

/-- value of one decimal digit character (`'0'` is code point 48) -/
def decDigitVal (c : Char) : Nat := c.toNat - 48

/-- value of one hexadecimal digit character (`'a'` = 97, `'A'` = 65) -/
def hexDigitVal (c : Char) : Nat :=
  if isDec c then c.toNat - 48
  else if 'a' ≤ c && c ≤ 'f' then c.toNat - 97 + 10
  else c.toNat - 65 + 10

/-- positional value of a digit string in base `base`, most significant digit first:
`posValue b dig [c₀,…,cₙ₋₁] = Σ dig cᵢ · b^(n-1-i)` -/
def posValue (base : Nat) (dig : Char → Nat) : List Char → Nat
  | [] => 0
  | c :: cs => dig c * base ^ cs.length + posValue base dig cs

/-- the number a decimal digit string denotes -/
def decValue (ds : List Char) : Nat := posValue 10 decDigitVal ds

/-- the number a hexadecimal digit string (without the `0x`) denotes -/
def hexValue (hs : List Char) : Nat := posValue 16 hexDigitVal hs

/-- canonical decimal spelling of `n`: no leading zero, except that zero is `"0"` -/
def canonOctet (n : Nat) : List Char := Nat.toDigits 10 n

/-- the canonical text `a.b.c.d` -/
def quadText (a b c d : Nat) : String :=
  String.ofList (canonOctet a ++ '.' :: (canonOctet b ++ '.' :: (canonOctet c ++ '.' :: canonOctet d)))

/-- the 32-bit address with octets `a b c d`, most significant first -/
def quadValue (a b c d : Nat) : Nat := a * 2 ^ 24 + b * 2 ^ 16 + c * 2 ^ 8 + d

/-- a digit string of more than one character that starts with `0` (not a canonical octet) -/
def zeroPadded (xs : List Char) : Bool := decide (xs.length > 1) && xs.head? == some '0'

end Resynth.Spec
