import Resynth.Model.Bytes
/-!
# Independent packet decoders / verifiers (reference definitions for C02, C03, C18)

Nothing here uses the Model's builders, `sum16`, `fold1` or `csumFold`.  Everything is
executable and `Bool`-valued so the very same predicates can be run on the bytes produced by the
real implementation.

All offsets are relative to the first byte of the byte string handed in.  An "IPv4 datagram" `d`
is a byte string that starts at the first byte of an IPv4 header and ends where the packet ends.
-/
namespace Resynth.Spec

/-! ## Big-endian readers

The readers are total (`0` outside the buffer).  Every predicate below that reads a field also
checks the buffer length first, so no theorem is true merely because of the default. -/

/-- byte at offset `i` -/
def u8At (b : Bytes) (i : Nat) : Nat :=
  match b.drop i with
  | x :: _ => x.toNat
  | [] => 0

/-- big-endian 16-bit word at offset `i` -/
def u16At (b : Bytes) (i : Nat) : Nat := u8At b i * 256 + u8At b (i + 1)

/-- big-endian 32-bit word at offset `i` -/
def u32At (b : Bytes) (i : Nat) : Nat := u16At b i * 65536 + u16At b (i + 2)

/-! ## RFC 1071 one's-complement sum -/

/-- one's-complement addition of two 16-bit quantities: add, and on overflow out of 16 bits
add the carry back in at the bottom ("end-around carry") -/
def onesAdd (a b : Nat) : Nat :=
  let s := a + b
  if s ≥ 65536 then s - 65536 + 1 else s

/-- the big-endian 16-bit words of a byte string; an odd trailing byte is padded with a zero byte -/
def words : Bytes → List Nat
  | [] => []
  | [a] => [a.toNat * 256]
  | a :: b :: rest => (a.toNat * 256 + b.toNat) :: words rest

/-- one's-complement sum of all 16-bit words of `b` -/
def onesSum (b : Bytes) : Nat := (words b).foldl onesAdd 0

/-- RFC 1071 verification: the one's-complement sum over the data *including* the transmitted
checksum field is all ones -/
def csumOk (b : Bytes) : Bool := onesSum b == 0xffff

/-! ## IPv4 header -/

/-- `d` is an IPv4 datagram from the first byte of its header to the end of the packet:
at least 20 bytes, version 4 / IHL 5, total length = number of bytes present, header checksum
verifies -/
def ipv4Ok (d : Bytes) : Bool :=
  decide (20 ≤ d.length) && u8At d 0 == 0x45 && u16At d 2 == d.length && csumOk (d.take 20)

def ipId (d : Bytes) : Nat := u16At d 4
/-- 13-bit fragment offset (in 8-byte units) -/
def ipFragOff (d : Bytes) : Nat := u16At d 6 % 8192
/-- reserved ("evil") bit, RFC 3514 -/
def ipEvil (d : Bytes) : Bool := u16At d 6 / 32768 % 2 == 1
def ipDF (d : Bytes) : Bool := u16At d 6 / 16384 % 2 == 1
def ipMF (d : Bytes) : Bool := u16At d 6 / 8192 % 2 == 1
def ipTtl (d : Bytes) : Nat := u8At d 8
def ipProto (d : Bytes) : Nat := u8At d 9
def ipSrc (d : Bytes) : Nat := u32At d 12
def ipDst (d : Bytes) : Nat := u32At d 16

/-- the header fields a script can ask for -/
structure IpFields where
  src : Nat
  dst : Nat
  proto : Nat
  id : Nat := 0
  ttl : Nat := 64
  /-- 13-bit fragment offset -/
  off : Nat := 0
  evil : Bool := false
  df : Bool := false
  mf : Bool := false
  deriving Repr, DecidableEq

/-- the requested values are representable in the header (these are the Rust argument types) -/
def IpFields.inRange (e : IpFields) : Bool :=
  decide (e.src < 4294967296) && decide (e.dst < 4294967296) && decide (e.proto < 256) &&
    decide (e.id < 65536) && decide (e.ttl < 256) && decide (e.off < 8192)

/-- `d` is a well-formed IPv4 datagram (`ipv4Ok`) *and* carries exactly the requested fields -/
def ipv4Is (e : IpFields) (d : Bytes) : Bool :=
  ipv4Ok d && ipSrc d == e.src && ipDst d == e.dst && ipProto d == e.proto && ipId d == e.id &&
    ipTtl d == e.ttl && ipFragOff d == e.off && ipEvil d == e.evil && ipDF d == e.df && ipMF d == e.mf

/-- the IPv4 datagram inside an emitted packet: the packet itself in raw mode, otherwise what
follows the 14-byte Ethernet header -/
def ipOfFrame (raw : Bool) (frame : Bytes) : Bytes := if raw then frame else frame.drop 14

/-! ## Transport checksums -/

/-- the 12-byte IPv4 pseudo-header of the datagram `d` (20-byte IP header assumed):
source, destination (copied from the header), zero, protocol, transport length -/
def pseudo (proto : Nat) (d : Bytes) : Bytes :=
  (d.drop 12).take 8 ++ [0, b8 proto] ++ [b8 ((d.length - 20) / 256), b8 (d.length - 20)]

/-- the transport checksum of the IPv4 datagram `d` verifies against the pseudo-header, the
header says protocol `proto`, and the transport length fits the 16-bit pseudo-header field -/
def l4Ok (proto : Nat) (d : Bytes) : Bool :=
  decide (20 ≤ d.length) && decide (d.length - 20 < 65536) && ipProto d == proto &&
    csumOk (pseudo proto d ++ d.drop 20)

/-- UDP length field = 8 + payload length = everything after the IP header -/
def udpLenOk (d : Bytes) : Bool :=
  decide (28 ≤ d.length) && u16At d 24 == d.length - 20 && u16At d 24 == 8 + (d.drop 28).length

def udpCsumField (d : Bytes) : Nat := u16At d 26
def udpCsumNonZero (d : Bytes) : Bool := decide (28 ≤ d.length) && udpCsumField d != 0

def udpSrcPort (d : Bytes) : Nat := u16At d 20
def udpDstPort (d : Bytes) : Nat := u16At d 22

/-- ICMP echo / echo reply: type, code 0, identifier, sequence number at their offsets, and the
ICMP checksum (over the ICMP message only, no pseudo-header) verifies -/
def icmpEchoOk (typ id seq : Nat) (d : Bytes) : Bool :=
  decide (28 ≤ d.length) && u8At d 20 == typ && u8At d 21 == 0 &&
    u16At d 24 == id && u16At d 26 == seq && csumOk (d.drop 20)

/-! ## Ethernet -/

/-- 00:02 followed by the four octets of the IPv4 address -/
def macOfIp (ip : Nat) : Bytes :=
  [0x00, 0x02, b8 (ip / 16777216), b8 (ip / 65536), b8 (ip / 256), b8 ip]

def macBroadcast : Bytes := [0xff, 0xff, 0xff, 0xff, 0xff, 0xff]

/-- the frame starts with a 14-byte Ethernet header: destination, source, type 0x0800 -/
def ethOk (dstMac srcMac : Bytes) (frame : Bytes) : Bool :=
  dstMac.length == 6 && srcMac.length == 6 && frame.take 14 == dstMac ++ srcMac ++ [0x08, 0x00]

/-- the frame is `ethernet header ++ IPv4 header ++ …` (at least 14 + 20 bytes) and the two MAC
addresses are derived from the IPv4 addresses found in that header -/
def ethMatchesIp (frame : Bytes) : Bool :=
  decide (34 ≤ frame.length) &&
  ethOk (macOfIp (ipDst (frame.drop 14))) (macOfIp (ipSrc (frame.drop 14))) frame

/-- same with the all-ones destination -/
def ethBroadcastMatchesIp (frame : Bytes) : Bool :=
  decide (34 ≤ frame.length) &&
  ethOk macBroadcast (macOfIp (ipSrc (frame.drop 14))) frame

/-- two lists have the same length and `p` holds position by position -/
def allPairs {α β : Type} (p : α → β → Bool) : List α → List β → Bool
  | [], [] => true
  | a :: as, b :: bs => p a b && allPairs p as bs
  | _, _ => false

/-- canonical Ethernet framing of an IPv4 datagram `d`: MAC addresses derived from the
datagram's own destination and source addresses, type 0x0800, then `d` unchanged -/
def ethFrame (d : Bytes) : Bytes :=
  macOfIp (ipDst d) ++ macOfIp (ipSrc d) ++ [0x08, 0x00] ++ d

/-- same with the all-ones destination -/
def ethFrameBroadcast (d : Bytes) : Bytes :=
  macBroadcast ++ macOfIp (ipSrc d) ++ [0x08, 0x00] ++ d

end Resynth.Spec
