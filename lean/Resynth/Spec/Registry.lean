import Resynth.Gen.Iana
/-!
# Protocol registries (reference tables for C20)

TLS handshake types, extensions and cipher suites come from the IANA CSV files shipped in
/repo/scripts/tls (translated into `Gen/Iana.lean` on every run). Everything else is entered
by hand from the defining documents: RFC 1035 / IANA "DNS parameters", IANA "Protocol Numbers",
IEEE/IANA EtherTypes, RFC 2131/2132 and IANA "BOOTP/DHCP parameters", RFC 1002 (NetBIOS),
IANA "ARP parameters", RFC 8446 / RFC 5246 / RFC 6101 (TLS record layer), RFC 7348 (VXLAN port).

`alias` lists the code names that are recognisable abbreviations of a registry name whose
number is unique in that registry; every other constant must match a registry name exactly.
-/
namespace Resynth.Spec.Registry

def dnsOpcode : List (String × Nat) :=
  [("QUERY", 0), ("IQUERY", 1), ("STATUS", 2), ("NOTIFY", 4), ("UPDATE", 5), ("DSO", 6)]

def dnsRcode : List (String × Nat) :=
  [("NOERROR", 0), ("FORMERR", 1), ("SERVFAIL", 2), ("NXDOMAIN", 3), ("NOTIMP", 4), ("REFUSED", 5), ("YXDOMAIN", 6),
   ("YXRRSET", 7), ("NXRRSET", 8), ("NOTAUTH", 9), ("NOTZONE", 10), ("DSOTYPENI", 11), ("BADVERS", 16), ("BADSIG", 16),
   ("BADKEY", 17), ("BADTIME", 18), ("BADMODE", 19), ("BADNAME", 20), ("BADALG", 21), ("BADTRUNC", 22), ("BADCOOKIE", 23)]

def dnsType : List (String × Nat) :=
  [("A", 1), ("NS", 2), ("MD", 3), ("MF", 4), ("CNAME", 5), ("SOA", 6), ("MB", 7), ("MG", 8), ("MR", 9), ("NULL", 10), ("WKS", 11),
   ("PTR", 12), ("HINFO", 13), ("MINFO", 14), ("MX", 15), ("TXT", 16), ("RP", 17), ("AFSDB", 18), ("X25", 19), ("ISDN", 20), ("RT", 21),
   ("NSAP", 22), ("NSAP-PTR", 23), ("SIG", 24), ("KEY", 25), ("PX", 26), ("GPOS", 27), ("AAAA", 28), ("LOC", 29), ("NXT", 30), ("EID", 31),
   ("NIMLOC", 32), ("SRV", 33), ("ATMA", 34), ("NAPTR", 35), ("KX", 36), ("CERT", 37), ("A6", 38), ("DNAME", 39), ("SINK", 40), ("OPT", 41),
   ("APL", 42), ("DS", 43), ("SSHFP", 44), ("IPSECKEY", 45), ("RRSIG", 46), ("NSEC", 47), ("DNSKEY", 48), ("DHCID", 49), ("NSEC3", 50),
   ("NSEC3PARAM", 51), ("TLSA", 52), ("SMIMEA", 53), ("HIP", 55), ("NINFO", 56), ("RKEY", 57), ("TALINK", 58), ("CDS", 59), ("CDNSKEY", 60),
   ("OPENPGPKEY", 61), ("CSYNC", 62), ("ZONEMD", 63), ("SVCB", 64), ("HTTPS", 65), ("SPF", 99), ("UINFO", 100), ("UID", 101), ("GID", 102),
   ("UNSPEC", 103), ("NID", 104), ("L32", 105), ("L64", 106), ("LP", 107), ("EUI48", 108), ("EUI64", 109), ("TKEY", 249), ("TSIG", 250),
   ("IXFR", 251), ("AXFR", 252), ("MAILB", 253), ("MAILA", 254), ("*", 255), ("URI", 256), ("CAA", 257), ("AVC", 258), ("DOA", 259),
   ("AMTRELAY", 260), ("TA", 32768), ("DLV", 32769)]

def dnsClass : List (String × Nat) := [("IN", 1), ("CS", 2), ("CH", 3), ("HS", 4), ("NONE", 254), ("ANY", 255)]

def ipProto : List (String × Nat) :=
  [("ICMP", 1), ("IGMP", 2), ("IPV4", 4), ("TCP", 6), ("EGP", 8), ("UDP", 17), ("IPV6", 41), ("RSVP", 46), ("GRE", 47), ("ESP", 50), ("AH", 51),
   ("IPV6-ICMP", 58), ("OSPFIGP", 89), ("SCTP", 132)]

def etherType : List (String × Nat) :=
  [("IPV4", 0x0800), ("ARP", 0x0806), ("TRANSPARENT ETHERNET BRIDGING", 0x6558), ("VLAN", 0x8100), ("IPV6", 0x86dd), ("PPP", 0x880b),
   ("MPLS", 0x8847), ("ERSPAN TYPE I/II", 0x88be), ("FABRICPATH", 0x8903), ("ERSPAN TYPE III", 0x22eb), ("LLDP", 0x88cc)]

def dhcpOpcode : List (String × Nat) := [("BOOTREQUEST", 1), ("BOOTREPLY", 2)]

def dhcpMsgType : List (String × Nat) :=
  [("DHCPDISCOVER", 1), ("DHCPOFFER", 2), ("DHCPREQUEST", 3), ("DHCPDECLINE", 4), ("DHCPACK", 5), ("DHCPNAK", 6), ("DHCPRELEASE", 7),
   ("DHCPINFORM", 8), ("DHCPFORCERENEW", 9), ("DHCPLEASEQUERY", 10), ("DHCPLEASEUNASSIGNED", 11), ("DHCPLEASEUNKNOWN", 12),
   ("DHCPLEASEACTIVE", 13), ("DHCPBULKLEASEQUERY", 14), ("DHCPLEASEQUERYDONE", 15), ("DHCPACTIVELEASEQUERY", 16),
   ("DHCPLEASEQUERYSTATUS", 17), ("DHCPTLS", 18)]

def dhcpOption : List (String × Nat) :=
  [("PAD", 0), ("SUBNET MASK", 1), ("HOST NAME", 12), ("VENDOR SPECIFIC", 43), ("ADDRESS REQUEST", 50), ("ADDRESS TIME", 51),
   ("DHCP MSG TYPE", 53), ("DHCP SERVER ID", 54), ("PARAMETER LIST", 55), ("DHCP MAX MSG SIZE", 57), ("RENEWAL TIME", 58),
   ("REBINDING TIME", 59), ("CLASS ID", 60), ("CLIENT ID", 61), ("CLIENT FQDN", 81), ("END", 255)]

def netbiosOpcode : List (String × Nat) :=
  [("QUERY", 0), ("REGISTRATION", 5), ("RELEASE", 6), ("WACK", 7), ("REFRESH", 8), ("REFRESH (ALTERNATE)", 9), ("MULTI-HOMED REGISTRATION", 15)]
def netbiosRrType : List (String × Nat) := [("A", 1), ("NS", 2), ("NULL", 10), ("NB", 32), ("NBSTAT", 33)]
def netbiosRcode : List (String × Nat) := [("FMT_ERR", 1), ("SRV_ERR", 2), ("NAM_ERR", 3), ("IMP_ERR", 4), ("RFS_ERR", 5), ("ACT_ERR", 6), ("CFT_ERR", 7)]

def arpHrd : List (String × Nat) := [("ETHERNET", 1), ("IEEE 802", 6)]

def tlsVersion : List (String × Nat) := [("SSL 2.0", 0x0002), ("SSL 3.0", 0x0300), ("TLS 1.0", 0x0301), ("TLS 1.1", 0x0302), ("TLS 1.2", 0x0303), ("TLS 1.3", 0x0304)]
def tlsContent : List (String × Nat) :=
  [("INVALID", 0), ("CHANGE_CIPHER_SPEC", 20), ("ALERT", 21), ("HANDSHAKE", 22), ("APPLICATION_DATA", 23), ("HEARTBEAT", 24), ("TLS12_CID", 25), ("ACK", 26)]

def ports : List (String × Nat) := [("BOOTPS", 67), ("BOOTPC", 68), ("VXLAN", 4789)]

/-- (module path, code name) ↦ registry name, for names that are abbreviations/variants -/
def alias : List ((String × String) × String) :=
  [(("dns::rtype", "ALL"), "*"), (("dns::qtype", "ALL"), "*"),
   (("eth::ethertype", "GRETAP"), "TRANSPARENT ETHERNET BRIDGING"), (("eth::ethertype", "PPTP"), "PPP"),
   (("eth::ethertype", "ERSPAN_1_2"), "ERSPAN TYPE I/II"), (("eth::ethertype", "ERSPAN_3"), "ERSPAN TYPE III"),
   (("dhcp::opcode", "REQUEST"), "BOOTREQUEST"), (("dhcp::opcode", "REPLY"), "BOOTREPLY"),
   (("dhcp::msgtype", "DISCOVER"), "DHCPDISCOVER"), (("dhcp::msgtype", "OFFER"), "DHCPOFFER"), (("dhcp::msgtype", "REQUEST"), "DHCPREQUEST"),
   (("dhcp::msgtype", "DECLINE"), "DHCPDECLINE"), (("dhcp::msgtype", "ACK"), "DHCPACK"), (("dhcp::msgtype", "NACK"), "DHCPNAK"),
   (("dhcp::msgtype", "RELEASE"), "DHCPRELEASE"), (("dhcp::msgtype", "INFORM"), "DHCPINFORM"), (("dhcp::msgtype", "FORCERENEW"), "DHCPFORCERENEW"),
   (("dhcp::msgtype", "LEASEQUERY"), "DHCPLEASEQUERY"), (("dhcp::msgtype", "LEASEUNASSIGNED"), "DHCPLEASEUNASSIGNED"),
   (("dhcp::msgtype", "LEASEUNKNOWN"), "DHCPLEASEUNKNOWN"), (("dhcp::msgtype", "LEASEACTIVE"), "DHCPLEASEACTIVE"),
   (("dhcp::msgtype", "BULKLEASEQUERY"), "DHCPBULKLEASEQUERY"), (("dhcp::msgtype", "LEASEQUERYDONE"), "DHCPLEASEQUERYDONE"),
   (("dhcp::msgtype", "ACTIVELEASEQUERY"), "DHCPACTIVELEASEQUERY"), (("dhcp::msgtype", "LEASEQUERYSTATUS"), "DHCPLEASEQUERYSTATUS"),
   (("dhcp::msgtype", "TLS"), "DHCPTLS"),
   (("dhcp::opt", "PADDING"), "PAD"), (("dhcp::opt", "SUBNET_MASK"), "SUBNET MASK"), (("dhcp::opt", "CLIENT_HOSTNAME"), "HOST NAME"),
   (("dhcp::opt", "VENDOR_SPECIFIC"), "VENDOR SPECIFIC"), (("dhcp::opt", "REQUESTED_ADDRESS"), "ADDRESS REQUEST"),
   (("dhcp::opt", "ADDRESS_LEASE_TIME"), "ADDRESS TIME"), (("dhcp::opt", "MESSAGE_TYPE"), "DHCP MSG TYPE"), (("dhcp::opt", "SERVER_ID"), "DHCP SERVER ID"),
   (("dhcp::opt", "PARAM_REQUEST_LIST"), "PARAMETER LIST"), (("dhcp::opt", "MAX_MESSAGE_SIZE"), "DHCP MAX MSG SIZE"), (("dhcp::opt", "RENEWAL_TIME"), "RENEWAL TIME"),
   (("dhcp::opt", "REBINDING_TIME"), "REBINDING TIME"), (("dhcp::opt", "VENDOR_CLASS_ID"), "CLASS ID"), (("dhcp::opt", "CLIENT_ID"), "CLIENT ID"),
   (("dhcp::opt", "CLIENT_FQDN"), "CLIENT FQDN"),
   (("dhcp", "CLIENT_PORT"), "BOOTPC"), (("dhcp", "SERVER_PORT"), "BOOTPS"), (("vxlan", "DEFAULT_PORT"), "VXLAN"),
   (("netbios::ns::opcode", "REFRESH_ALT"), "REFRESH (ALTERNATE)"), (("netbios::ns::opcode", "MH_REGISTRATION"), "MULTI-HOMED REGISTRATION"),
   (("arp::hrd", "ETHER"), "ETHERNET"),
   (("tls::version", "SSL_2"), "SSL 2.0"), (("tls::version", "SSL_3"), "SSL 3.0"), (("tls::version", "TLS_1_0"), "TLS 1.0"),
   (("tls::version", "TLS_1_1"), "TLS 1.1"), (("tls::version", "TLS_1_2"), "TLS 1.2"), (("tls::version", "TLS_1_3"), "TLS 1.3"),
   (("tls::content", "APP_DATA"), "APPLICATION_DATA"),
   (("tls::ext", "ALPN"), "APPLICATION_LAYER_PROTOCOL_NEGOTIATION"),
   -- the CSV lists 53 as "connection_id (deprecated)" and 54 as "connection_id"; the shipped normalisation
   -- (first word only) gives both the name CONNECTION_ID
   (("tls::ext", "CONNECTION_ID_DEPRECATED"), "CONNECTION_ID")]

/-- the registry that governs the constants of a module -/
def tableOf (modPath : String) : Option (List (String × Nat)) :=
  match modPath with
  | "dns::opcode" => some dnsOpcode | "dns::rcode" => some dnsRcode | "dns::rtype" => some dnsType | "dns::qtype" => some dnsType
  | "dns::class" => some dnsClass | "ipv4::proto" => some ipProto | "eth::ethertype" => some etherType
  | "dhcp::opcode" => some dhcpOpcode | "dhcp::msgtype" => some dhcpMsgType | "dhcp::opt" => some dhcpOption | "dhcp" => some ports
  | "vxlan" => some ports | "netbios::ns::opcode" => some netbiosOpcode | "netbios::ns::rrtype" => some netbiosRrType
  | "netbios::ns::rcode" => some netbiosRcode | "arp::hrd" => some arpHrd | "tls::version" => some tlsVersion
  | "tls::content" => some tlsContent | "tls::handshake" => some Gen.Iana.handshake | "tls::ext" => some Gen.Iana.ext
  | "tls::cipher" => some Gen.Iana.ciphers
  | _ => none

def lookupIn (t : List (String × Nat)) (name : String) : Option Nat := (t.find? (fun e => e.1 == name)).map (·.2)

/-- the number the registry assigns to the constant `modPath::name` -/
def assigned (modPath name : String) : Option Nat :=
  match tableOf modPath with
  | none => none
  | some t =>
    let regName := match alias.find? (fun a => a.1 == (modPath, name)) with
      | some a => a.2
      | none => name
    lookupIn t regName

/-- the registry assigns the number `n` to the constant `modPath::name` (a registry may list one
name more than once, e.g. a deprecated and a current code point) -/
def assigns (modPath name : String) (n : Nat) : Bool :=
  match tableOf modPath with
  | none => false
  | some t =>
    let regName := match alias.find? (fun a => a.1 == (modPath, name)) with
      | some a => a.2
      | none => name
    t.any fun e => e.1 == regName && e.2 == n

end Resynth.Spec.Registry
