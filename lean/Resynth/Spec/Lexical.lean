import Resynth.Model.Syntax
import Resynth.Model.Bytes
/-!
# Lexical rules of the resynth language (reference definition for C10)

The lexer is specified in three declarative layers:

1. **Rules.** An ordered list `rules` of lexical rules. Every rule is a *language*
   (`LexRule.lang`, a decidable predicate on a candidate lexeme) plus, for keywords, a
   condition on the character following the lexeme (`LexRule.follow`).
   `matchLen r cs` is the length of the **longest** prefix of `cs` that is in the
   language of `r` (and satisfies the follow condition); `select cs` is the **first**
   rule in the list that has a match ("earlier rules win").
   (`::` wins over `:` and a `//` comment over `/` only because they are listed first;
   the last octet of an IPv4 literal is the longest prefix of its digit run that is an
   octet - this is what "longest prefix of the text in the IPv4 language" means.)
2. **Tiling.** `tile cs` walks over the character positions of the line. At a lexeme
   boundary the selected rule determines the lexeme; if no rule matches the walk stops
   (lex error at this character).
3. **Reading.** `readToks` reads the tokens off the lexemes: skipped lexemes vanish,
   string lexemes are collected (raw concatenation of the texts between the quotes) and
   emitted as ONE token immediately before the next non-string token, carrying that
   token's position; any other lexeme is a token at `1 +` its byte offset.

Nothing of `Model/Lex.lean` is used here.
-/
namespace Resynth.Spec

/-! ## character classes -/

def chDigit (c : Char) : Bool := '0' ≤ c && c ≤ '9'
def chHex (c : Char) : Bool := chDigit c || ('a' ≤ c && c ≤ 'f') || ('A' ≤ c && c ≤ 'F')
def chIdStart (c : Char) : Bool := ('a' ≤ c && c ≤ 'z') || ('A' ≤ c && c ≤ 'Z') || c == '_'
/-- `[A-Za-z0-9_]` -/
def chIdCont (c : Char) : Bool := chIdStart c || chDigit c

/-- the code points with the Unicode property White_Space -/
def whiteSpaceCodePoints : List Nat :=
  [0x9, 0xa, 0xb, 0xc, 0xd, 0x20, 0x85, 0xa0, 0x1680,
   0x2000, 0x2001, 0x2002, 0x2003, 0x2004, 0x2005, 0x2006, 0x2007, 0x2008, 0x2009, 0x200a,
   0x2028, 0x2029, 0x202f, 0x205f, 0x3000]

/-- `[^\S\n]`: white space other than the line feed -/
def chBlank (c : Char) : Bool := whiteSpaceCodePoints.contains c.toNat && c != '\n'

/-! ## the rules -/

inductive LexRule
  | whitespace | hashComment | cppComment | newline
  | fixed (k : TokKind) (s : String)        -- punctuation: exactly the text `s`
  | keyword (k : TokKind) (w : String)      -- the word `w`, not followed by `[A-Za-z0-9_]`
  | ident | ipv4 | string | hex | int
  deriving Repr, DecidableEq

/-- the rules in priority order (the order of the alternatives of `LEX_RE`) -/
def rules : List LexRule :=
  [.whitespace, .hashComment, .cppComment, .newline,
   .fixed .lparen "(", .fixed .rparen ")", .fixed .dot ".", .fixed .dcolon "::", .fixed .colon ":",
   .fixed .semi ";", .fixed .equals "=", .fixed .comma ",", .fixed .slash "/",
   .keyword .kwImport "import", .keyword .kwLet "let",
   .keyword .boolLit "true", .keyword .boolLit "false",
   .ident, .ipv4, .string, .hex, .int]

/-- the token kind a rule produces; `none` for skipped lexemes -/
def LexRule.kind : LexRule → Option TokKind
  | .whitespace | .hashComment | .cppComment | .newline => none
  | .fixed k _ | .keyword k _ => some k
  | .ident => some .ident | .ipv4 => some .ipv4Lit | .string => some .strLit
  | .hex => some .hexLit | .int => some .intLit

/-- positional value of a decimal digit string -/
def decVal (ds : List Char) : Nat := ds.foldl (fun a c => 10 * a + (c.toNat - 48)) 0

/-- the octet language `25[0-5]|2[0-4][0-9]|[01]?[0-9][0-9]?`:
one to three decimal digits whose value is at most 255 (so `007` and `099` are octets,
`256` and `0255` are not) -/
def octetLang (ds : List Char) : Bool :=
  !ds.isEmpty && ds.length ≤ 3 && ds.all chDigit && decVal ds ≤ 255

/-- `k + 1` octets separated by single dots -/
def dotted : Nat → List Char → Bool
  | 0, cs => octetLang cs
  | k + 1, cs =>
    octetLang (cs.takeWhile (· != '.')) &&
      match cs.dropWhile (· != '.') with
      | _ :: rest => dotted k rest
      | [] => false

/-- zero or more characters other than `"` followed by one closing `"` -/
def strBody : List Char → Bool
  | [] => false
  | [c] => c == '"'
  | c :: r => c != '"' && strBody r

/-- the language of a rule -/
def LexRule.lang : LexRule → List Char → Bool
  | .whitespace, cs => !cs.isEmpty && cs.all chBlank
  | .hashComment, cs => match cs with
    | '#' :: r => r.all (· != '\n')
    | _ => false
  | .cppComment, cs => match cs with
    | '/' :: '/' :: r => r.all (· != '\n')
    | _ => false
  | .newline, cs => cs == ['\n']
  | .fixed _ s, cs => cs == s.toList
  | .keyword _ w, cs => cs == w.toList
  | .ident, cs => match cs with
    | c :: r => chIdStart c && r.all chIdCont
    | [] => false
  | .ipv4, cs => dotted 3 cs
  | .string, cs => match cs with
    | '"' :: r => strBody r
    | _ => false
  | .hex, cs => match cs with
    | '0' :: 'x' :: r => !r.isEmpty && r.all chHex
    | _ => false
  | .int, cs => match cs with
    | '-' :: r => !r.isEmpty && r.all chDigit
    | r => !r.isEmpty && r.all chDigit

/-- side condition on the character after the lexeme (`none` = end of line) -/
def LexRule.follow : LexRule → Option Char → Bool
  | .keyword _ _, some c => !chIdCont c
  | _, _ => true

/-- the largest `n` with `1 ≤ n ≤ bound` and `p n` -/
def longest (p : Nat → Bool) : Nat → Option Nat
  | 0 => none
  | n + 1 => if p (n + 1) then some (n + 1) else longest p n

/-- is the prefix of length `n` of `cs` a match of rule `r`? -/
def LexRule.matchesAt (r : LexRule) (cs : List Char) (n : Nat) : Bool :=
  r.lang (cs.take n) && r.follow (cs.drop n).head?

/-- the length of the match of rule `r` at the start of `cs`: the longest matching prefix -/
def matchLen (r : LexRule) (cs : List Char) : Option Nat :=
  longest (r.matchesAt cs) cs.length

/-- the first rule with a match, and the length of that match -/
def select (cs : List Char) : Option (LexRule × Nat) :=
  rules.findSome? fun r => (matchLen r cs).map fun n => (r, n)

/-! ## tiling a line with lexemes -/

structure Lexeme where
  rule : LexRule
  text : List Char
  deriving Repr, DecidableEq

/-- walk over the positions of the text; `skip` = number of characters up to the next
lexeme boundary. Result: the lexemes, and whether the whole text was tiled. -/
def tileFrom : Nat → List Char → List Lexeme × Bool
  | _, [] => ([], true)
  | k + 1, _ :: cs => tileFrom k cs
  | 0, c :: cs =>
    match select (c :: cs) with
    | none => ([], false)
    | some (r, n) =>
      let (ls, ok) := tileFrom (n - 1) cs
      (⟨r, (c :: cs).take n⟩ :: ls, ok)

def tile (cs : List Char) : List Lexeme × Bool := tileFrom 0 cs

/-- `Tiling cs ls rest`: `ls` are the successive selected lexemes of `cs`, `rest` is what
is left after them. -/
inductive Tiling : List Char → List Lexeme → List Char → Prop
  | done (cs : List Char) : Tiling cs [] cs
  | step {cs : List Char} {r : LexRule} {n : Nat} {ls : List Lexeme} {rest : List Char} :
      select cs = some (r, n) → Tiling (cs.drop n) ls rest → Tiling cs (⟨r, cs.take n⟩ :: ls) rest

/-! ## reading tokens off the lexemes -/

def byteLen (cs : List Char) : Nat := (String.ofList cs).utf8ByteSize

/-- `TokType::get_val`: identifiers and the integer, boolean and address literals carry
their lexeme, punctuation and keywords carry nothing -/
def tokVal (k : TokKind) (lexeme : List Char) : String :=
  if k = .ident ∨ k = .hexLit ∨ k = .intLit ∨ k = .boolLit ∨ k = .ipv4Lit then String.ofList lexeme else ""

/-- the text between the quotes of a string lexeme -/
def strInner (lexeme : List Char) : String := String.ofList (lexeme.drop 1).dropLast

/-- `off` = byte offset of the first lexeme; `acc` = the string literal collected so far
(`none`: no literal pending, `some ""`: an empty literal is pending). Returns the tokens and
the string literal carried over to the next line (again `none` if there is none). -/
def readToks (lno : Nat) : Nat → Option String → List Lexeme → List Tok × Option String
  | _, acc, [] => ([], acc)
  | off, acc, l :: ls =>
    let off' := off + byteLen l.text
    match l.rule.kind with
    | none => readToks lno off' acc ls
    | some .strLit => readToks lno off' (some (acc.getD "" ++ strInner l.text)) ls
    | some k =>
      let loc : Loc := ⟨lno, off + 1⟩
      let (ts, p) := readToks lno off' none ls
      ((acc.map fun s => (⟨.strLit, s, loc⟩ : Tok)).toList ++ ⟨k, tokVal k l.text, loc⟩ :: ts, p)

/-- Lexing one line. `pending` is the string literal carried over from the preceding lines
(`none`: nothing is pending; `some ""`: an empty literal is pending). Result: the tokens and the
new carried literal, or the 1-based byte column of the first character that cannot start a token. -/
def lexLine (lno : Nat) (pending : Option String) (line : String) :
    Except Nat (List Tok × Option String) :=
  match tile line.toList with
  | (ls, true) => .ok (readToks lno 0 pending ls)
  | (ls, false) => .error (1 + byteLen (ls.flatMap (·.text)))

/-- End of input: a literal that is still pending becomes a token at `loc` (the position where
the lexer stopped). -/
def lexFinish (pending : Option String) (loc : Loc) : List Tok :=
  (pending.map fun s => (⟨.strLit, s, loc⟩ : Tok)).toList

end Resynth.Spec
