import Resynth.Model.Bytes
/-!
# Independent decoders: DNS messages (RFC 1035), NetBIOS first-level names (RFC 1001 §14.1),
DHCP fixed header (RFC 2131 §2), and the UDP/IPv4 socket pair of a frame

Nothing here refers to the model's builders; only `Bytes`, `b8` and `beNat` of `Model/Bytes.lean`.
-/
namespace Resynth.Spec

/-! ## DNS names -/

/-- `labels` joined with '.' (0x2e): the textual form of a name -/
def joinDots : List Bytes → Bytes
  | [] => []
  | [l] => l
  | l :: ls => l ++ 46 :: joinDots ls

/-- a label as it may appear in a textual name: 1..63 bytes, no '.' -/
def validLabel (l : Bytes) : Bool := 0 < l.length && l.length ≤ 63 && !l.contains 46

/-- RFC 1035 §3.1: a sequence of length-prefixed labels (length 1..63) ended by the zero-length
root label.  Length bytes ≥ 64 (compression pointers, reserved) are rejected.
`fuel` bounds the number of labels. `(labels, rest)` -/
def parseNameAux : Nat → Bytes → Option (List Bytes × Bytes)
  | _, [] => none
  | 0, _ :: _ => none
  | fuel + 1, l :: r =>
    if l = 0 then some ([], r)
    else if 64 ≤ l.toNat then none
    else if r.length < l.toNat then none
    else match parseNameAux fuel (r.drop l.toNat) with
      | some (ls, rest) => some (r.take l.toNat :: ls, rest)
      | none => none

def parseName (b : Bytes) : Option (List Bytes × Bytes) := parseNameAux b.length b

/-- RFC 1035 §4.1.4 compression pointer: two bytes, top two bits set, 14-bit offset. `(offset, rest)` -/
def parsePointer : Bytes → Option (Nat × Bytes)
  | a :: b :: rest => if a.toNat / 64 = 3 then some (a.toNat % 64 * 256 + b.toNat, rest) else none
  | _ => none

/-! ## DNS messages -/

/-- the sixteen flag bits of the header, RFC 1035 §4.1.1 (with AD/CD of RFC 2535) -/
structure DnsFlagBits where
  qr : Bool
  opcode : Nat
  aa : Bool
  tc : Bool
  rd : Bool
  ra : Bool
  z : Bool
  ad : Bool
  cd : Bool
  rcode : Nat
  deriving Repr, DecidableEq

def splitFlags (w : Nat) : DnsFlagBits :=
  { qr := w.testBit 15, opcode := w / 2048 % 16, aa := w.testBit 10, tc := w.testBit 9, rd := w.testBit 8,
    ra := w.testBit 7, z := w.testBit 6, ad := w.testBit 5, cd := w.testBit 4, rcode := w % 16 }

structure DnsQuestion where
  name : List Bytes
  qtype : Nat
  qclass : Nat
  deriving Repr, DecidableEq

structure DnsRR where
  name : List Bytes
  rtype : Nat
  rclass : Nat
  ttl : Nat
  rdata : Bytes
  deriving Repr, DecidableEq

structure DnsMsg where
  id : Nat
  flags : DnsFlagBits
  qdcount : Nat
  ancount : Nat
  nscount : Nat
  arcount : Nat
  questions : List DnsQuestion
  answers : List DnsRR
  authority : List DnsRR
  additional : List DnsRR
  deriving Repr, DecidableEq

def rdU16 (b : Bytes) : Option (Nat × Bytes) :=
  match b with
  | x :: y :: r => some (x.toNat * 256 + y.toNat, r)
  | _ => none

def rdU32 (b : Bytes) : Option (Nat × Bytes) :=
  match b with
  | w :: x :: y :: z :: r => some (((w.toNat * 256 + x.toNat) * 256 + y.toNat) * 256 + z.toNat, r)
  | _ => none

def parseQuestion (b : Bytes) : Option (DnsQuestion × Bytes) := do
  let (n, r) ← parseName b
  let (t, r) ← rdU16 r
  let (c, r) ← rdU16 r
  some (⟨n, t, c⟩, r)

def parseDnsRR (b : Bytes) : Option (DnsRR × Bytes) := do
  let (n, r) ← parseName b
  let (t, r) ← rdU16 r
  let (c, r) ← rdU16 r
  let (ttl, r) ← rdU32 r
  let (len, r) ← rdU16 r
  if r.length < len then none else some (⟨n, t, c, ttl, r.take len⟩, r.drop len)

/-- exactly `n` items -/
def parseCount {α} (p : Bytes → Option (α × Bytes)) : Nat → Bytes → Option (List α × Bytes)
  | 0, b => some ([], b)
  | n + 1, b => do
    let (a, r) ← p b
    let (as, rest) ← parseCount p n r
    some (a :: as, rest)

/-- a whole message: 12-byte header, QDCOUNT questions, ANCOUNT + NSCOUNT + ARCOUNT resource
records, and nothing after them -/
def parseDnsMessage (b : Bytes) : Option DnsMsg := do
  let (id, r) ← rdU16 b
  let (fl, r) ← rdU16 r
  let (qd, r) ← rdU16 r
  let (an, r) ← rdU16 r
  let (ns, r) ← rdU16 r
  let (ar, r) ← rdU16 r
  let (qs, r) ← parseCount parseQuestion qd r
  let (ans, r) ← parseCount parseDnsRR an r
  let (nss, r) ← parseCount parseDnsRR ns r
  let (ars, r) ← parseCount parseDnsRR ar r
  if r ≠ [] then none else some ⟨id, splitFlags fl, qd, an, ns, ar, qs, ans, nss, ars⟩

/-! ## NetBIOS first-level encoding -/

/-- each byte is sent as two letters 'A'..'P' holding its high and low nibble -/
def netbiosDecodePairs : Bytes → Option Bytes
  | [] => some []
  | [_] => none
  | hi :: lo :: r =>
    if 65 ≤ hi.toNat ∧ hi.toNat ≤ 80 ∧ 65 ≤ lo.toNat ∧ lo.toNat ≤ 80 then
      (netbiosDecodePairs r).map fun t => b8 ((hi.toNat - 65) * 16 + (lo.toNat - 65)) :: t
    else none

/-- 32 letters ↦ the 16-byte NetBIOS name (15 bytes of space-padded name + suffix) -/
def netbiosDecode (b : Bytes) : Option Bytes := if b.length = 32 then netbiosDecodePairs b else none

/-! ## DHCP fixed header -/

inductive DhcpField
  | op | htype | hlen | hops | xid | secs | flags | ciaddr | yiaddr | siaddr | giaddr | chaddr | sname | file
  | magic
  deriving Repr, DecidableEq

/-- RFC 2131 figure 1 (+ the 4-byte magic cookie of RFC 2132 that starts the options) -/
def DhcpField.offset : DhcpField → Nat
  | .op => 0 | .htype => 1 | .hlen => 2 | .hops => 3 | .xid => 4 | .secs => 8 | .flags => 10
  | .ciaddr => 12 | .yiaddr => 16 | .siaddr => 20 | .giaddr => 24 | .chaddr => 28 | .sname => 44
  | .file => 108 | .magic => 236

def DhcpField.width : DhcpField → Nat
  | .op | .htype | .hlen | .hops => 1
  | .xid => 4 | .secs | .flags => 2
  | .ciaddr | .yiaddr | .siaddr | .giaddr => 4
  | .chaddr => 16 | .sname => 64 | .file => 128 | .magic => 4

/-- the bytes of a field; `none` when the header is too short to contain it -/
def dhcpField (f : DhcpField) (b : Bytes) : Option Bytes :=
  if f.offset + f.width ≤ b.length then some ((b.drop f.offset).take f.width) else none

/-- a fixed-width field holding `v`: cut to `w` bytes when longer, zero-padded when shorter -/
def padTrunc (w : Nat) (v : Bytes) : Bytes := v.take w ++ List.replicate (w - v.length) 0

/-! ## UDP over IPv4 (over Ethernet unless `raw`) -/

structure UdpView where
  srcIp : Nat
  srcPort : Nat
  dstIp : Nat
  dstPort : Nat
  payload : Bytes
  deriving Repr, DecidableEq

/-- an option-less IPv4 header carrying protocol 17, then the UDP header; addresses and ports are
read at their RFC 791 / RFC 768 offsets.  With `raw = false` the frame starts with a 14-byte
Ethernet header whose type is 0x0800. -/
def parseUdpFrame (raw : Bool) (frame : Bytes) : Option UdpView :=
  let ip? : Option Bytes :=
    if raw then some frame
    else if 14 ≤ frame.length ∧ (frame.drop 12).take 2 = [8, 0] then some (frame.drop 14) else none
  match ip? with
  | none => none
  | some ip =>
    if ip.length < 28 then none
    else if ip.take 1 ≠ [0x45] then none
    else if (ip.drop 9).take 1 ≠ [17] then none
    else some {
      srcIp := beNat ((ip.drop 12).take 4)
      dstIp := beNat ((ip.drop 16).take 4)
      srcPort := beNat ((ip.drop 20).take 2)
      dstPort := beNat ((ip.drop 22).take 2)
      payload := ip.drop 28 }

end Resynth.Spec
