import Resynth.Model.Bytes
/-!
# RFC 791 reference: IPv4 fragment decoding and reassembly

Independent of the packet builders in `Model/`: a decoder from raw bytes to a fragment record,
and the reassembly procedure of RFC 791 §3.2 ("An Example Reassembly Procedure") written as a
function of the *set* of fragments received (a list in any order):

* the reassembly buffer is indexed by `8 * fragment offset`;
* the total data length is fixed by the fragment with MF = 0 (`TDL <- TL - IHL*4 + FO*8`);
* reassembly is complete when every octet `[0, TDL)` has been received;
* overlapping / duplicated fragments are allowed.

To be a function of the *set* of fragments (RFC 791 lets a later arrival overwrite an earlier
one), overlapping fragments must agree on the octets they share and all MF = 0 fragments must
agree on the total length; otherwise the result is `none`.
-/
namespace Resynth.Spec

/-- big-endian 16-bit / 32-bit reads -/
def u16 (a b : UInt8) : Nat := a.toNat * 256 + b.toNat
def u32 (a b c d : UInt8) : Nat := ((a.toNat * 256 + b.toNat) * 256 + c.toNat) * 256 + d.toNat

/-- One IPv4 fragment as seen on the wire. -/
structure Frag where
  src : Nat
  dst : Nat
  proto : Nat
  id : Nat
  ttl : Nat
  /-- bit 15 of the flags/offset word (RFC 3514) -/
  evil : Bool
  /-- don't fragment, bit 14 -/
  df : Bool
  /-- more fragments, bit 13 -/
  mf : Bool
  /-- fragment offset in 8-octet units (low 13 bits) -/
  offset : Nat
  /-- octets after the header, up to the header's total length -/
  data : Bytes
  deriving Repr, DecidableEq

/-- Decode an IPv4 datagram with a 20-byte header (version 4, IHL 5).  Fails when the buffer is
shorter than the header's total length.  The header checksum is not examined (see C02). -/
def decodeFrag : Bytes → Option Frag
  | vihl :: _tos :: l0 :: l1 :: i0 :: i1 :: f0 :: f1 :: ttl :: proto :: _c0 :: _c1 ::
    s0 :: s1 :: s2 :: s3 :: d0 :: d1 :: d2 :: d3 :: rest =>
    let totLen := u16 l0 l1
    let fo := u16 f0 f1
    if vihl = 0x45 ∧ 20 ≤ totLen ∧ totLen - 20 ≤ rest.length then
      some { src := u32 s0 s1 s2 s3, dst := u32 d0 d1 d2 d3, proto := proto.toNat
             id := u16 i0 i1, ttl := ttl.toNat
             evil := fo.testBit 15, df := fo.testBit 14, mf := fo.testBit 13
             offset := fo % 8192
             data := rest.take (totLen - 20) }
    else none
  | _ => none

/-- `some x` when the list is non-empty and every element equals `x`; the order of the list is
irrelevant. -/
def agree {α : Type} [DecidableEq α] : List α → Option α
  | [] => none
  | x :: xs => if xs.all (fun y => y = x) then some x else none

/-- the reassembly buffer identifier of RFC 791: source, destination, protocol, identification -/
def Frag.key (f : Frag) : Nat × Nat × Nat × Nat := (f.src, f.dst, f.proto, f.id)

/-- first octet position *after* this fragment in the reassembly buffer -/
def Frag.endPos (f : Frag) : Nat := 8 * f.offset + f.data.length

/-- the octet this fragment supplies for buffer position `i`, if any -/
def Frag.octetAt (i : Nat) (f : Frag) : Option UInt8 :=
  if 8 * f.offset ≤ i then f.data[i - 8 * f.offset]? else none

/-- total data length: given by the MF = 0 fragment(s) -/
def totalLen (fs : List Frag) : Option Nat :=
  agree ((fs.filter fun f => !f.mf).map Frag.endPos)

/-- buffer position `i` once all fragments have been copied in: some fragment must supply it and
all fragments that supply it must agree -/
def bufferAt (fs : List Frag) (i : Nat) : Option UInt8 :=
  agree (fs.filterMap (Frag.octetAt i))

/-- RFC 791 reassembly of a collection of fragments given in any order.  `none` when the
fragments belong to different datagrams, when no (or no consistent) last fragment is present,
when some octet below the total length is missing, or when overlapping fragments conflict. -/
def reassemble (fs : List Frag) : Option Bytes := do
  let _ ← agree (fs.map Frag.key)
  let total ← totalLen fs
  (List.range total).mapM (bufferAt fs)

/-- decode every packet, then reassemble -/
def reassemblePkts (pkts : List Bytes) : Option Bytes := do
  let fs ← pkts.mapM decodeFrag
  reassemble fs

end Resynth.Spec
