import Resynth.Model.Bytes
/-!
# Tunnel decapsulation reference (VXLAN RFC 7348, GRE RFC 2784/2890, ERSPAN type I / II)

Independent decoders from raw bytes (outer IPv4 header first, no Ethernet header).  Each returns
the tunnel header fields and the inner frame, or `none` when the packet is not a well-formed
packet of that kind.
-/
namespace Resynth.Spec

/-- big-endian reads -/
def rd16 (a b : UInt8) : Nat := a.toNat * 256 + b.toNat
def rd24 (a b c : UInt8) : Nat := (a.toNat * 256 + b.toNat) * 256 + c.toNat
def rd32 (a b c d : UInt8) : Nat := ((a.toNat * 256 + b.toNat) * 256 + c.toNat) * 256 + d.toNat

/-- Outer IPv4 header (version 4, IHL 5): protocol number and the payload up to the header's total
length.  The header checksum is not examined (see C02). -/
def ip4Payload : Bytes → Option (Nat × Bytes)
  | vihl :: _tos :: l0 :: l1 :: _i0 :: _i1 :: _f0 :: _f1 :: _ttl :: proto :: _c0 :: _c1 ::
    _s0 :: _s1 :: _s2 :: _s3 :: _d0 :: _d1 :: _d2 :: _d3 :: rest =>
    let totLen := rd16 l0 l1
    if vihl = 0x45 ∧ 20 ≤ totLen ∧ totLen - 20 ≤ rest.length then
      some (proto.toNat, rest.take (totLen - 20))
    else none
  | _ => none

/-! ## VXLAN -/

structure Vxlan where
  srcPort : Nat
  dstPort : Nat
  /-- 24-bit VXLAN network identifier -/
  vni : Nat
  inner : Bytes
  deriving Repr, DecidableEq

/-- IPv4(20) + UDP(8) + VXLAN(8).  The UDP length must match the IP payload; the VXLAN flags octet
must be exactly `I` (0x08) and all reserved octets zero. -/
def decapVxlan (pkt : Bytes) : Option Vxlan :=
  match ip4Payload pkt with
  | some (proto, udp) =>
    match udp with
    | sp0 :: sp1 :: dp0 :: dp1 :: ul0 :: ul1 :: _uc0 :: _uc1 ::
      flags :: r0 :: r1 :: r2 :: v0 :: v1 :: v2 :: r3 :: inner =>
      if proto = 17 ∧ rd16 ul0 ul1 = udp.length ∧
          flags = 0x08 ∧ r0 = 0 ∧ r1 = 0 ∧ r2 = 0 ∧ r3 = 0 then
        some { srcPort := rd16 sp0 sp1, dstPort := rd16 dp0 dp1, vni := rd24 v0 v1 v2
               inner := inner }
      else none
    | _ => none
  | none => none

/-! ## GRE -/

/-- GRE flag bits (first 16-bit word of the header) -/
def greC : Nat := 0x8000
def greR : Nat := 0x4000
def greK : Nat := 0x2000
def greS : Nat := 0x1000

structure Gre where
  /-- the whole 16-bit flags/version word -/
  flags : Nat
  /-- protocol type (an ethertype) -/
  proto : Nat
  /-- sequence number, present iff the S bit is set -/
  seq : Option Nat
  inner : Bytes
  deriving Repr, DecidableEq

/-- IPv4 protocol 47, then the 4-byte GRE header, then a 4-byte sequence number iff the S bit is
set.  Headers announcing a checksum, routing or key field (C, R, K bits) are rejected: this
decoder does not parse those optional fields. -/
def decapGre (pkt : Bytes) : Option Gre :=
  match ip4Payload pkt with
  | some (ipProto, f0 :: f1 :: p0 :: p1 :: rest) =>
    let flags := rd16 f0 f1
    if ipProto ≠ 47 ∨ flags &&& (greC ||| greR ||| greK) ≠ 0 then none
    else if flags &&& greS ≠ 0 then
      match rest with
      | s0 :: s1 :: s2 :: s3 :: inner =>
        some { flags := flags, proto := rd16 p0 p1, seq := some (rd32 s0 s1 s2 s3), inner := inner }
      | _ => none
    else some { flags := flags, proto := rd16 p0 p1, seq := none, inner := rest }
  | _ => none

/-! ## ERSPAN -/

def ethertypeErspan : Nat := 0x88be

/-- ERSPAN type I: GRE protocol 0x88be, no sequence number, no ERSPAN header; the inner frame
follows the GRE header directly. -/
def decapErspan1 (pkt : Bytes) : Option Bytes :=
  match decapGre pkt with
  | some g => if g.proto = ethertypeErspan ∧ g.seq = none then some g.inner else none
  | none => none

structure Erspan2 where
  /-- GRE sequence number -/
  seq : Nat
  /-- ERSPAN version field (1 for type II) -/
  ver : Nat
  vlan : Nat
  cos : Nat
  en : Nat
  t : Nat
  sessionId : Nat
  portIndex : Nat
  inner : Bytes
  deriving Repr, DecidableEq

/-- ERSPAN type II: GRE protocol 0x88be with the sequence number present, followed by the 8-byte
ERSPAN header `Ver(4) VLAN(12) COS(3) En(2) T(1) Session(10) | Reserved(12) Index(20)`; the
reserved bits must be zero. -/
def decapErspan2 (pkt : Bytes) : Option Erspan2 :=
  match decapGre pkt with
  | some g =>
    match g.seq, g.inner with
    | some seq, a0 :: a1 :: a2 :: a3 :: b0 :: b1 :: b2 :: b3 :: inner =>
      let w0 := rd32 a0 a1 a2 a3
      let w1 := rd32 b0 b1 b2 b3
      if g.proto = ethertypeErspan ∧ w1 / 2 ^ 20 = 0 then
        some { seq := seq
               ver := w0 / 2 ^ 28
               vlan := w0 / 2 ^ 16 % 2 ^ 12
               cos := w0 / 2 ^ 13 % 2 ^ 3
               en := w0 / 2 ^ 11 % 2 ^ 2
               t := w0 / 2 ^ 10 % 2
               sessionId := w0 % 2 ^ 10
               portIndex := w1 % 2 ^ 20
               inner := inner }
      else none
    | _, _ => none
  | none => none

/-! ## Positional decapsulation (outer datagrams that do not fit in 65535 bytes)

An IPv4 total-length (and a UDP length) field cannot describe more than 65535 bytes, so the decoders above
reject an outer packet that carries a larger inner frame.  Transparency of the tunnel *payload* is still a
meaningful claim there: the inner frame is what follows the fixed-size outer headers.  `decapPositional`
checks the fields that identify the tunnel (IP protocol, VXLAN flags, GRE flags / protocol) at their fixed
offsets and returns everything after the headers, ignoring the length fields. -/

inductive TunnelKind | vxlan | gre | erspan1 | erspan2
  deriving Repr, DecidableEq

def byteAt (b : Bytes) (i : Nat) : Nat := (b[i]?.map UInt8.toNat).getD 0

/-- bytes of outer headers in front of the inner frame (20 IPv4 + …) -/
def tunnelOverhead (k : TunnelKind) (pkt : Bytes) : Nat :=
  match k with
  | .vxlan => 20 + 8 + 8
  | .gre => if (byteAt pkt 20 * 256 + byteAt pkt 21) &&& greS ≠ 0 then 20 + 4 + 4 else 20 + 4
  | .erspan1 => 20 + 4
  | .erspan2 => 20 + 4 + 4 + 8

def decapPositional (k : TunnelKind) (pkt : Bytes) : Option Bytes :=
  let ipProto := byteAt pkt 9
  let greProto := byteAt pkt 22 * 256 + byteAt pkt 23
  let greFlags := byteAt pkt 20 * 256 + byteAt pkt 21
  let ok : Bool :=
    byteAt pkt 0 == 0x45 &&
    match k with
    | .vxlan => ipProto == 17 && byteAt pkt 28 == 0x08
    | .gre => ipProto == 47 && greFlags &&& (greC ||| greR ||| greK) == 0
    | .erspan1 => ipProto == 47 && greProto == ethertypeErspan && greFlags &&& greS == 0
    | .erspan2 => ipProto == 47 && greProto == ethertypeErspan && greFlags &&& greS != 0
  if ok && tunnelOverhead k pkt ≤ pkt.length then some (pkt.drop (tunnelOverhead k pkt)) else none

end Resynth.Spec
