import Resynth.Model.Bytes
/-!
# Reference description of string literals (`Buf::from_str`, src/str.rs)

A string literal is plain text (contributing its UTF-8 bytes) interleaved with hex sections
delimited by `|`.  Inside a hex section, *filler* characters (Unicode white space and the
separators `: . _ - ' \``) are ignored and the remaining characters must be hex digits, which
are paired up into bytes (high nibble first).

This file shares nothing with `Model/Lit.lean`: a hex section body is described *generatively*
as a list of `HexItem`s (nibbles in either case, and fillers) together with its rendering as
characters and the bytes it denotes.
-/
namespace Resynth.Spec

/-- Unicode `White_Space` code points, or one of the cosmetic separators `: . _ - ' \`` -/
def isFiller (c : Char) : Bool :=
  let n := c.toNat
  ((9 ≤ n && n ≤ 13) || n == 0x20 || n == 0x85 || n == 0xa0 || n == 0x1680 ||
   (0x2000 ≤ n && n ≤ 0x200a) || n == 0x2028 || n == 0x2029 || n == 0x202f || n == 0x205f ||
   n == 0x3000) ||
  (c == ':' || c == '.' || c == '_' || c == '-' || c == '\'' || c == '`')

def hexLower : Vector Char 16 :=
  #v['0', '1', '2', '3', '4', '5', '6', '7', '8', '9', 'a', 'b', 'c', 'd', 'e', 'f']
def hexUpper : Vector Char 16 :=
  #v['0', '1', '2', '3', '4', '5', '6', '7', '8', '9', 'A', 'B', 'C', 'D', 'E', 'F']

/-- the hex digit for a nibble, in lower or upper case -/
def nibChar (n : Fin 16) (upper : Bool) : Char := if upper then hexUpper[n] else hexLower[n]

/-- one character of a hex section body: a nibble (rendered in lower or upper case) or a filler -/
inductive HexItem
  | nib (n : Fin 16) (upper : Bool)
  | fill (c : Char)
  deriving Repr, DecidableEq

def renderItem : HexItem → Char
  | .nib n u => nibChar n u
  | .fill c => c

/-- the characters of a hex section body -/
def renderItems (items : List HexItem) : List Char := items.map renderItem

/-- the nibbles of a hex section body, fillers dropped -/
def nibbles : List HexItem → List (Fin 16)
  | [] => []
  | .nib n _ :: r => n :: nibbles r
  | .fill _ :: r => nibbles r

/-- pair nibbles into bytes, high nibble first; `none` iff their number is odd -/
def pairUp : List (Fin 16) → Option Bytes
  | [] => some []
  | [_] => none
  | hi :: lo :: r => (pairUp r).map (b8 (hi.val * 16 + lo.val) :: ·)

/-- every `fill` item really is a filler character -/
def fillersOk (items : List HexItem) : Bool :=
  items.all fun
    | .fill c => isFiller c
    | .nib _ _ => true

/-- executable form of `Rendering` -/
def renderingB (items : List HexItem) (bs : Bytes) : Bool :=
  fillersOk items && pairUp (nibbles items) == some bs

/-- `items` is a well-formed hex section body denoting the bytes `bs` -/
def Rendering (items : List HexItem) (bs : Bytes) : Prop :=
  (∀ c, HexItem.fill c ∈ items → isFiller c = true) ∧ pairUp (nibbles items) = some bs

/-- canonical body for a byte string: two lower-case nibbles per byte, no fillers -/
def renderBytes (bs : Bytes) : List HexItem :=
  bs.flatMap fun b =>
    [.nib ⟨b.toNat / 16, by have := b.toNat_lt; omega⟩ false,
     .nib ⟨b.toNat % 16, by omega⟩ false]

/-- UTF-8 encoding of a whole text -/
def utf8Bytes (s : List Char) : Bytes := (String.ofList s).toUTF8.toList

end Resynth.Spec
