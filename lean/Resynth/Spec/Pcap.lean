import Resynth.Model.Bytes
/-!
# Independent reader of the pcap file format (nanosecond variant, little endian)

Shares nothing with `Model/Pcap.lean`. Fails on any missing or trailing byte.
-/
namespace Resynth.Spec

def le32At (b : Bytes) (off : Nat) : Nat :=
  (b.getD off 0).toNat + 256 * (b.getD (off + 1) 0).toNat + 65536 * (b.getD (off + 2) 0).toNat +
    16777216 * (b.getD (off + 3) 0).toNat

def le16At (b : Bytes) (off : Nat) : Nat := (b.getD off 0).toNat + 256 * (b.getD (off + 1) 0).toNat

structure PcapHdr where
  magic : Nat
  verMajor : Nat
  verMinor : Nat
  linktype : Nat
  deriving Repr, DecidableEq

structure PcapRec where
  sec : Nat
  nsec : Nat
  caplen : Nat
  len : Nat
  data : Bytes
  deriving Repr, DecidableEq

/-- records: each is a 16-byte header followed by exactly `caplen` bytes -/
def parseRecs : Nat → Bytes → Option (List PcapRec)
  | 0, _ => none
  | fuel + 1, b =>
    if b.isEmpty then some []
    else if b.length < 16 then none
    else
      let caplen := le32At b 8
      let rest := b.drop 16
      if rest.length < caplen then none
      else match parseRecs fuel (rest.drop caplen) with
        | none => none
        | some rs => some (⟨le32At b 0, le32At b 4, caplen, le32At b 12, rest.take caplen⟩ :: rs)

def parsePcap (b : Bytes) : Option (PcapHdr × List PcapRec) :=
  if b.length < 24 then none
  else match parseRecs (b.length + 1) (b.drop 24) with
    | none => none
    | some rs => some (⟨le32At b 0, le16At b 4, le16At b 6, le32At b 20⟩, rs)

/-- what C01 demands of the file as such -/
def pcapWellFormed (b : Bytes) : Bool :=
  match parsePcap b with
  | none => false
  | some (h, rs) =>
    h.magic == 0xa1b23c4d && h.verMajor == 2 && h.verMinor == 4 && h.linktype == 1 &&
    rs.all fun r => r.caplen == r.len && r.len == r.data.length && r.nsec < 1000000000

/-- timestamps in nanoseconds -/
def PcapRec.time (r : PcapRec) : Nat := r.sec * 1000000000 + r.nsec

end Resynth.Spec
