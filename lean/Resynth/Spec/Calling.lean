import Resynth.Model.Val
/-!
# The calling convention of the resynth language, read declaratively

A call is a list of `(name?, value)` pairs, a function a `FuncDef` (types of `Model/Val.lean` only;
nothing of `Model/Bind.lean` is used).  The call is read in three consecutive *phases*:

1. the leading unnamed values fill parameters in declaration order – all parameters if the
   function has no variable tail, only the mandatory ones if it has;
2. the named values that follow go to the parameters of those names;
3. everything after that is the collected tail.

There is no state machine here: the phases are `take`/`takeWhile`/`dropWhile` of the call.
-/
namespace Resynth.Spec

/-- a call: `f(v₀, v₁, n: v₂, …)` is `[(none, v₀), (none, v₁), (some "n", v₂), …]` -/
abbrev Call := List (Option String × Val)

/-! ## Types -/

/-- `{Bool, U8, U16, U32, U64}` -/
def isInt : ValType → Bool
  | .bool | .u8 | .u16 | .u32 | .u64 => true
  | _ => false

/-- declared type `T` accepts a value of type `U` -/
def accepts (T U : ValType) : Bool :=
  T == U
  || (isInt T && isInt U)
  || (T == .str && [ValType.str, .pkt, .u8, .u16, .u32, .u64, .ip4].contains U)
  || (T == .pktgen && [ValType.pktgen, .pkt].contains U)

/-- the value a parameter takes when the call does not mention it (a nullable option is Nil) -/
def defaultVal : ValDef → Val
  | .nil => .nil | .bool b => .bool b | .u8 n => .u8 n | .u16 n => .u16 n | .u32 n => .u32 n
  | .u64 n => .u64 n | .ip4 a => .ip4 a | .sock4 i p => .sock4 i p | .str s => .str s
  | .type _ => .nil

/-- does a parameter declaration accept a value of type `u`?  A mandatory parameter has a type;
an optional one has the type of its default; a nullable option (`.optional (.type t)`) has type
`t` and additionally accepts Nil. -/
def paramAccepts : ArgDecl → ValType → Bool
  | .positional t, u => accepts t u
  | .optional (.type t), u => u == .void || accepts t u
  | .optional d, u => accepts d.valType u

/-! ## Function shape -/

def isMandatory (d : ArgDesc) : Bool := match d.decl with | .positional _ => true | .optional _ => false

/-- the function accepts a variable tail -/
def hasTail (f : FuncDef) : Bool := f.collectType != .void

def mandatoryCount (f : FuncDef) : Nat := (f.args.filter isMandatory).length

/-- how many parameters unnamed arguments can fill -/
def fillable (f : FuncDef) : Nat := if hasTail f then mandatoryCount f else f.args.length

def paramNames (f : FuncDef) : List String := f.args.map (·.name)

/-- well-formed signature: mandatory parameters first, then optional ones; distinct names
(so that the macro-generated `arg_pos` of a name is the index of the parameter of that name) -/
def wf (f : FuncDef) : Bool :=
  (f.args.dropWhile isMandatory).all (fun d => !isMandatory d) && decide (paramNames f).Nodup

/-! ## The three phases -/

def isUnnamed (a : Option String × Val) : Bool := a.1.isNone
def isNamed (a : Option String × Val) : Bool := a.1.isSome

structure Phases where
  /-- (1) values of the leading unnamed arguments that fill parameters `0, 1, …` -/
  lead : List Val
  /-- (2) the named arguments that follow -/
  named : List (String × Val)
  /-- (3) the rest: the collected tail, as written -/
  tail : Call
  deriving Repr, DecidableEq

def phases (f : FuncDef) (call : Call) : Phases :=
  let lead := (call.takeWhile isUnnamed).take (fillable f)
  let after := call.drop lead.length
  { lead := lead.map (·.2)
    named := (after.takeWhile isNamed).filterMap (fun a => a.1.map (·, a.2))
    tail := after.dropWhile isNamed }

/-! ## Reasons for rejection -/

/-- a named argument whose name is not a parameter of `f` -/
def unknownName (f : FuncDef) (call : Call) : Bool :=
  (phases f call).named.any fun e => !(paramNames f).contains e.1

/-- a name given twice, or naming a parameter already filled by a leading unnamed argument -/
def alreadySupplied (f : FuncDef) (call : Call) : Bool :=
  let ph := phases f call
  !decide (ph.named.map (·.1)).Nodup
  || ph.named.any fun e => ((paramNames f).take ph.lead.length).contains e.1

/-- a named argument after collected ones -/
def misplacedNamed (f : FuncDef) (call : Call) : Bool := (phases f call).tail.any isNamed

/-- arguments nothing can take: a tail although the function declares none -/
def surplus (f : FuncDef) (call : Call) : Bool := !(phases f call).tail.isEmpty && !hasTail f

/-- the value of parameter `d` when it is not filled by a leading argument: the named value,
else the default, else (mandatory) nothing -/
def paramValue (named : List (String × Val)) (d : ArgDesc) : Option Val :=
  match named.lookup d.name, d.decl with
  | some v, _ => some v
  | none, .optional dfl => some (defaultVal dfl)
  | none, .positional _ => none

/-- values of all parameters, in declaration order; `none` = a mandatory one is missing -/
def paramValues (f : FuncDef) (call : Call) : Option (List Val) :=
  let ph := phases f call
  ((f.args.drop ph.lead.length).mapM (paramValue ph.named)).map (ph.lead ++ ·)

def missingMandatory (f : FuncDef) (call : Call) : Bool := (paramValues f call).isNone

def tailValues (f : FuncDef) (call : Call) : List Val := (phases f call).tail.map (·.2)

/-- some parameter's value, or some tail value, is of a type the declaration does not accept -/
def incompatible (f : FuncDef) (call : Call) : Bool :=
  match paramValues f call with
  | none => false
  | some vs =>
    (List.zip f.args vs).any (fun (d, v) => !paramAccepts d.decl v.valType)
    || (tailValues f call).any (fun v => !accepts f.collectType v.valType)

/-- The calling convention: `none` = the call is rejected (type error),
`some (args, tail)` = parameter `i` receives `args[i]`, the variable tail receives `tail`. -/
def bind (f : FuncDef) (call : Call) : Option (List Val × List Val) :=
  if unknownName f call || alreadySupplied f call || misplacedNamed f call || surplus f call
     || incompatible f call then none
  else (paramValues f call).map (·, tailValues f call)

/-! ## What a successful binding looks like (used as hypothesis by the "no panic" theorems) -/

/-- `args` has one value per parameter, each of an accepted type; `tail` values are accepted by
the collect type and there are none if the function has no tail -/
def wellBound (f : FuncDef) (args tail : List Val) : Bool :=
  args.length == f.args.length
  && (List.zip f.args args).all (fun (d, v) => paramAccepts d.decl v.valType)
  && tail.all (fun v => accepts f.collectType v.valType)
  && (hasTail f || tail.isEmpty)

end Resynth.Spec
