import Resynth.Lemmas.TotalLoop
import Resynth.Lemmas.InterpInvCli
/-!
# C08 — whole-file totality: `process_file` never panics

"For every input file – valid or invalid UTF-8, any character or token sequence, any well-typed or
ill-typed call into the standard library with any argument values – the compiler terminates and
either reports success […] or prints a diagnostic […].  It never panics, aborts or hangs."

**Termination** is by construction: `processFile` and everything it calls (`Model/*.lean`) are total
Lean functions (structural recursion, or explicit fuel whose exhaustion is itself reported as the
`panic` outcome: `LR.feedAux`, `Lex.loop`), so "hangs" cannot be expressed; what remains to prove is
that none of the model's explicit `panic` outcomes — one per `unreachable!()`, `unwrap()`, `assert!`,
`debug_assert!` and exhausted budget of the Rust code — is ever reached.  `file_total` proves that for
the real, generated library table `Gen.lib`, an arbitrary file system for `io::file`, an arbitrary
write budget of the output device and arbitrary input bytes.

How the `panic` sites are excluded (each line is a lemma used by `file_total`):

| site | invariant | lemma |
|---|---|---|
| parser (`unreachable!()`, `pop().unwrap()`, loop budget) | stack shape `LR.Inv` | `C09.parser_no_panic` |
| `eval_obj_ref`/`eval_extern_ref` on an empty path | `ObjRef.WF`, kept by every parser step | `LR.feed_wf`, `evalObjRef_ok` |
| `toplevel_module: unreachable` (import of a non-module) | identifiers are `Plain`; plain keys are modules | `Lex.line_toks_ok`, `Lex.finish_tok_ok` (the literal flushed at end of input is a string token), `plain_is_module` |
| `funcOf`: dangling function path | `ValOk`: function values are paths of table entries | `evalObjRef_ok`, `funcOf_ok` |
| `take_this` / downcast in method bodies | `ValOk`: receiver is a live heap slot of the method's class; heap only grows / keeps classes (`HeapExt`) | `covered_post`, `method_covered` |
| free function called as method or vice versa | identifiers contain no `.`; table keys | `free_function_covered`, `method_covered` |
| binder assert, body conversions, return-type assert | `wellBound`, `ThisOk` | `C08.bindAndExec_no_panic` |
| `slash conversion` | the preceding type checks | `eval_ok` |
| `lower_headroom` in `write_packet` | `ValOk`: every packet value has 16 bytes of headroom | `covered_post`, `writeRecord_out` |
-/
namespace Resynth.C08
open LR

/-- **C08, whole file.** For the generated library table, every file system, every output budget and
every input byte sequence, `process_file` does not end in a panic.  (It terminates by construction,
see the module comment.) -/
theorem file_total (fs : Fs) (budget : Option Nat) (src : Bytes) :
    ∀ site, (processFile ⟨Gen.lib, fs⟩ budget src).outcome ≠ .panic site :=
  processFile_noPanic fs budget src

/-- the same, positively: the run reports success, or a diagnostic with an error class and a position -/
theorem file_success_or_diagnostic (fs : Fs) (budget : Option Nat) (src : Bytes) :
    (processFile ⟨Gen.lib, fs⟩ budget src).outcome = .success ∨
    ∃ cls detail loc, (processFile ⟨Gen.lib, fs⟩ budget src).outcome = .failure cls detail loc := by
  have h := file_total fs budget src
  cases ho : (processFile ⟨Gen.lib, fs⟩ budget src).outcome with
  | success => exact .inl rfl
  | failure cls detail loc => exact .inr ⟨cls, detail, loc, rfl⟩
  | panic site => exact absurd ho (h site)

/-! ## the pieces, restated -/

/-- every identifier the lexer delivers is a plain name (no `.`, no `:`) -/
theorem lexer_identifiers_plain (lno : Nat) (pending : Option String) (ln : String) (lo : Lex.LineOut)
    (h : Lex.line lno pending ln = .ok lo) : ∀ t ∈ lo.toks, t.kind = .ident → Plain t.text :=
  Lex.line_toks_ok h

/-- the token of the end-of-input flush (`Lexer::finish`: the literal still pending, if any) is a
string token - it cannot break the "identifiers are plain" invariant either -/
theorem finish_token_ok (pending : Option String) (loc : Loc) (t : Tok) (h : Lex.finish pending loc = some t) :
    t.kind = .strLit ∧ TokOk t := by
  refine ⟨?_, Lex.finish_tok_ok h⟩
  cases pending with
  | none => cases h
  | some p => simp only [Lex.finish, Option.map_some, Option.some.injEq] at h; subst h; rfl

/-- every statement a reachable parser hands over is well formed (every reference has at least one
component and consists of plain names), as long as identifiers are plain -/
theorem parser_builds_wf (c c' : Cfg) (t : Tok) (hr : C09.Reachable c) (hw : CfgWF c) (ht : TokOk t)
    (hf : feed c t = .ok c') : CfgWF c' ∧ StmtsWF c'.takeResults.1 :=
  ⟨feed_wf c t hr.inv hw ht hf, (takeResults_wf c' (feed_wf c t hr.inv hw ht hf)).1⟩

/-- well-formed statements never make the interpreter panic, and keep its state invariant -/
theorem stmts_no_panic (fs : Fs) (st : PState) (ss : List Stmt) (hw : StmtsWF ss) (hst : StOk st) :
    ∀ site, addStmts ⟨Gen.lib, fs⟩ st ss ≠ .panic site := by
  intro site h
  have := addStmts_ok fs ss st hw hst
  rw [h] at this
  exact this

/-- a library call only extends the heap (append, or same-class replacement) and returns a value that is
well formed in the new heap — the step that keeps `StOk` across calls -/
theorem library_call_post : ∀ e ∈ covered, ∀ (fs : Fs) (this : Option Nat) (av : ArgVec) (h : Heap),
    Spec.wellBound e.2 av.args av.extra = true → ThisOk e.1 this h →
    ∀ v h', exec fs e.2.path this av h = .ok (v, h') → HeapExt h h' ∧ ResOk h' v := by
  intro e he fs this av h hwb hthis v h' hx
  have := covered_post e he fs this av h hwb hthis
  rw [hx] at this
  exact this

/-! ## non-vacuity -/

private def L (l c : Nat) : Loc := ⟨l, c⟩

/-- ```
import ipv4;
let t = ipv4::tcp::flow(1.2.3.4:80, 5.6.7.8:90);
t.open();
``` -/
private def prog : List Stmt := [
  .imp (L 1 8) "ipv4",
  .assign (L 2 5) "t" (.call ⟨L 2 9, ["ipv4", "tcp"], ["flow"]⟩
    (.cons none (.lit (L 2 25) (.sock4 0x01020304 80)) (.cons none (.lit (L 2 37) (.sock4 0x05060708 90)) .nil))),
  .expr (.call ⟨L 3 1, [], ["t", "open"]⟩ .nil)]

private def summary : Res PState → Option (Nat × Heap × List (String × Val))
  | .ok st => some (st.emitted.length, st.heap.map (fun _ => Obj.bufio [] 0), st.regs)
  | _ => none

/-- with the real library table: the program allocates a TCP flow on the heap, binds `t` to its
handle and writes the three packets of the handshake — a run that exercises the method path
(`ValOk` of `.method 0 "ipv4::tcp::TcpFlow" …`, `ThisOk`, `HeapExt` by `setObj`) -/
example : summary (addStmts ⟨Gen.lib, []⟩ {} prog) =
    some (3, [.bufio [] 0], [("t", .obj 0 "ipv4::tcp::TcpFlow")]) := by decide +kernel

/-- the statements of `prog` are well formed and the initial state satisfies the invariant, so
`stmts_no_panic` applies to it -/
example : StmtsWF prog ∧ StOk {} := by
  refine ⟨?_, fun e he => by cases he⟩
  have hp : ∀ s ∈ ["ipv4", "tcp", "flow", "t", "open"], Plain s := by
    intro s hs c hc
    simp only [List.mem_cons, List.not_mem_nil, or_false] at hs
    rcases hs with rfl | rfl | rfl | rfl | rfl <;> revert c <;> decide +kernel
  intro s hs
  simp only [prog, List.mem_cons, List.not_mem_nil, or_false] at hs
  rcases hs with rfl | rfl | rfl
  · exact hp _ (by simp)
  · simp only [Stmt.WF, Expr.WF, Args.WF, ObjRef.WF, and_true, List.mem_cons, List.not_mem_nil, or_false]
    exact ⟨by simp, fun s hs => hp s (by rcases hs with rfl | rfl <;> simp), fun s hs => hp s (by subst hs; simp)⟩
  · simp only [Stmt.WF, Expr.WF, Args.WF, ObjRef.WF, and_true, List.mem_cons, List.not_mem_nil, or_false]
    exact ⟨by simp, by simp, fun s hs => hp s (by rcases hs with rfl | rfl <;> simp)⟩

private def identTexts : Except Nat Lex.LineOut → List String
  | .ok lo => (lo.toks.filter (fun t => t.kind == .ident)).map (·.text)
  | .error _ => []

/-- the lexer cuts `t.open(ipv4::x);` into plain identifiers: `.` and `::` are tokens of their own -/
example : identTexts (Lex.line 3 none "t.open(ipv4::x);") = ["t", "open", "ipv4", "x"] := by decide +kernel

/-- both kinds of non-panic outcome occur: the empty program succeeds; with an output device that
accepts no bytes it fails with an I/O diagnostic -/
example : (processFile ⟨Gen.lib, []⟩ none []).outcome = .success := by rw [processFile_eq]; rfl
example : (processFile ⟨Gen.lib, []⟩ (some 0) []).outcome = .failure "Io" "" Loc.nil := by
  rw [processFile_eq]; rfl

/-- a file that ends in a string literal: the literal is flushed to the parser at end of input, which
rejects it - a diagnostic (at the position where the lexer stopped), not a panic -/
example : (processFile ⟨Gen.lib, []⟩ none "\"junk\"".toUTF8.toList).outcome = .failure "Parse" "" ⟨1, 7⟩ := by
  rw [processFile_eq]; decide +kernel

/-! The invariants are needed — each of the model's panic sites IS reachable from syntax trees,
register contents or packets that violate them: -/

private def panicOf {α} : Res α → Option String
  | .panic s => some s
  | _ => none

/-- a reference without components (never built by the parser) -/
example : panicOf (eval ⟨Gen.lib, []⟩ {} (.ref ⟨L 1 1, [], []⟩)) = some "eval_obj_ref: unreachable" := by
  decide +kernel
/-- an "identifier" containing `::` (never produced by the lexer) imports a function as a module -/
example : panicOf (addStmt ⟨Gen.lib, []⟩ {} (.imp (L 1 8) "ipv4::tcp::flow")) = some "toplevel_module: unreachable" := by
  decide +kernel
/-- an "identifier" containing `.` calls a method as a free function: `take_this` on `None` -/
example : panicOf (eval ⟨Gen.lib, []⟩ { imports := ["ipv4"] } (.call ⟨L 1 1, ["ipv4", "tcp"], ["TcpFlow.open"]⟩ .nil))
    = some "take_this: None" := by decide +kernel
/-- a method value whose receiver is not on the heap (violates `ValOk`) -/
example : panicOf (eval ⟨Gen.lib, []⟩ { regs := [("m", .method 0 "ipv4::tcp::TcpFlow" "ipv4::tcp::TcpFlow.open")] }
    (.call ⟨L 1 1, [], ["m"]⟩ .nil)) = some "take_this: dangling" := by decide +kernel
/-- a function value that is not a table path (violates `ValOk`) -/
example : panicOf (eval ⟨Gen.lib, []⟩ { regs := [("f", .func "nope")] } (.call ⟨L 1 1, [], ["f"]⟩ .nil))
    = some "dangling function path" := by decide +kernel
/-- a packet without headroom (violates `ValOk`) -/
example : panicOf (addStmt ⟨Gen.lib, []⟩ { regs := [("p", .pkt ⟨[], [1, 2, 3]⟩)] } (.expr (.ref ⟨L 1 1, [], ["p"]⟩)))
    = some "lower_headroom: sz <= headroom" := by decide +kernel

end Resynth.C08
