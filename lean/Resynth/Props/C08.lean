import Resynth.Lemmas.BindArgvec
import Resynth.Lemmas.BindCorollaries
import Resynth.Lemmas.ExecCovered
import Resynth.Model.Interp
import Resynth.Gen.Stdlib
/-!
# C08 — "never a panic": binding and library-function bodies

* `bind_no_panic`: the `assert!(named.is_empty())` of `argvec` can never fire.
* `conv_total`: every `From<Val>` coercion succeeds on every value whose type the binder accepts
  for a parameter of the corresponding declared type.
* `exec_no_panic` / `return_type_ok`: for every function of the list `covered` (literal
  signatures; `covered_eq_table` shows the list is exactly the functions and methods of the
  generated library table, `uncovered` computes what would be missing), every argument vector
  the binder can produce, every heap and every proper `this`, the body does not panic and returns
  a value of the declared return type (the `debug_assert!` of `eval_callable`).
* `bindAndExec_no_panic`: both together, for the interpreter's call step.

The model of the function bodies is `exec` (`Model/Stdlib.lean`).
-/
namespace Resynth.C08
open Resynth.Spec

/-! ## 1. binding never panics -/

/-- `argvec` never reaches its `assert!(named.is_empty())` (the model's only `.panic` outcome) -/
theorem bind_no_panic (f : FuncDef) (hwf : wf f = true) (call : List ArgSpec) (site : String) :
    Bind.argvec f call ≠ .panic site := by
  intro e
  have h := Bind.argvec_agrees f hwf call
  rw [e] at h
  cases hb : Spec.bind f (Bind.toCall call) <;> rw [hb] at h <;> exact h

/-- what the binder hands to a function body is well-bound: one value per parameter, each of an
accepted type; tail values accepted by the collect type, and none without a declared tail -/
theorem bind_ok_wellBound (f : FuncDef) (hwf : wf f = true) (call : List ArgSpec) (av : ArgVec)
    (h : Bind.argvec f call = .ok av) : wellBound f av.args av.extra = true := by
  have ha := Bind.argvec_agrees f hwf call
  rw [h] at ha
  cases hb : Spec.bind f (Bind.toCall call) with
  | none => rw [hb] at ha; exact ha.elim
  | some r =>
    obtain ⟨a, t⟩ := r
    rw [hb] at ha
    obtain ⟨h1, h2⟩ := ha
    rw [h1, h2]
    exact Spec.bind_wellBound hb

/-! ## 2. coercions are total on accepted types -/

/-- **Every coercion a function body applies succeeds on every value of a type the binder accepts
for that parameter**: integer coercions on integral types (Bool, U8…U64), `Buf` on string-coercible
types, packet sequences on Pkt/PktGen, the `Option<_>` coercions additionally on Nil, and the exact
ones (`Ipv4Addr`, `SocketAddrV4`, `Packet`) on their own type. -/
theorem conv_total (v : Val) :
    (v.valType.isIntegral = true →
        (∃ n, v.toU8? = some n) ∧ (∃ n, v.toU16? = some n) ∧ (∃ n, v.toU32? = some n)
        ∧ (∃ n, v.toU64? = some n) ∧ (∃ b, v.toBool? = some b))
    ∧ (v.valType.isStringCoercible = true → ∃ b, v.toBuf? = some b)
    ∧ (v.valType.isPktgenCoercible = true → ∃ g, v.toPktGen? = some g)
    ∧ (v.valType = .void ∨ v.valType.isIntegral = true → ∃ o, v.toOptU32? = some o)
    ∧ (v.valType = .void ∨ v.valType = .ip4 → ∃ o, v.toOptIp? = some o)
    ∧ (v.valType = .void ∨ v.valType.isStringCoercible = true → ∃ o, v.toOptBuf? = some o)
    ∧ (v.valType = .ip4 → ∃ a, v.toIp? = some a)
    ∧ (v.valType = .sock4 → ∃ a, v.toSock? = some a)
    ∧ (v.valType = .pkt → ∃ p, v.toPkt? = some p) :=
  ⟨fun h => ⟨Val.toU8?_total h, Val.toU16?_total h, Val.toU32?_total h, Val.toU64?_total h,
      Val.toBool?_total h⟩,
   Val.toBuf?_total, Val.toPktGen?_total, Val.toOptU32?_total, Val.toOptIp?_total,
   Val.toOptBuf?_total, Val.toIp?_total, Val.toSock?_total, Val.toPkt?_total⟩

/-- the type sets of `conv_total` are the binder's acceptance sets: a parameter declared with an
integral type accepts exactly the integral types, `Str` the string-coercible ones, `PktGen` the
packet-sequence-coercible ones, and `Ip4`, `Sock4`, `Pkt` only themselves -/
theorem accepted_types (t : ValType) :
    (∀ T ∈ [ValType.bool, .u8, .u16, .u32, .u64], T.compatibleWith t = t.isIntegral)
    ∧ ValType.str.compatibleWith t = t.isStringCoercible
    ∧ ValType.pktgen.compatibleWith t = t.isPktgenCoercible
    ∧ (ValType.ip4.compatibleWith t = true ↔ t = .ip4)
    ∧ (ValType.sock4.compatibleWith t = true ↔ t = .sock4)
    ∧ (ValType.pkt.compatibleWith t = true ↔ t = .pkt) := by
  cases t <;> decide

/-! ## 3. function bodies -/

/-! `covered : List (Option String × FuncDef)` (class for methods, literal signature) and
`covered_good : ∀ e ∈ covered, ExecGood e.1 e.2` are in `Lemmas/ExecCovered.lean`, one lemma per
function in `Lemmas/Exec{Std,Proto,Ip,Tcp,Tunnel}.lean`. -/

def coveredPaths : List String := covered.map (·.2.path)

/-- **No covered function body panics** on any argument vector the binder can produce
(`wellBound`, see `bind_ok_wellBound`), any heap, and `this` = nothing for a free function or a
live object of the method's class. -/
theorem exec_no_panic : ∀ e ∈ covered, ∀ (fs : Fs) (this : Option Nat) (av : ArgVec) (h : Heap),
    wellBound e.2 av.args av.extra = true → ThisOk e.1 this h →
    ∀ site, exec fs e.2.path this av h ≠ .panic site :=
  fun e he fs this av h hwb hthis => (covered_good e he fs this av h hwb hthis).noPanic

/-- **The value a covered function returns has the declared return type.** -/
theorem return_type_ok : ∀ e ∈ covered, ∀ (fs : Fs) (this : Option Nat) (av : ArgVec) (h : Heap),
    wellBound e.2 av.args av.extra = true → ThisOk e.1 this h →
    ∀ v h', exec fs e.2.path this av h = .ok (v, h') → v.valType = e.2.returnType :=
  fun e he fs this av h hwb hthis => (covered_good e he fs this av h hwb hthis).retType

/-! ### coverage: `covered` versus the generated library table -/

/-- the functions and methods of the real library table, in table order -/
def tableFuncs : List FuncDef :=
  Gen.table.filterMap fun e => match e.2 with | .func f => some f | _ => none

/-- the classes of the real library table -/
def tableClasses : List String :=
  Gen.table.filterMap fun e => match e.2 with | .cls => some e.1 | _ => none

/-- **`covered` is exactly the list of functions and methods of the library table**, with
exactly the registered signatures (so nothing is missing and nothing is invented) -/
theorem covered_eq_table : covered.map (·.2) = tableFuncs := by decide +kernel

/-- functions of the library table that are not covered (none; kept computable so that a
regenerated table shows what is missing) -/
def uncovered : List String :=
  (tableFuncs.filter fun f => !(covered.map (·.2)).contains f).map (·.path)

theorem uncovered_none : uncovered = [] := by
  unfold uncovered
  rw [covered_eq_table]
  have : tableFuncs.filter (fun f => !tableFuncs.contains f) = [] :=
    List.filter_eq_nil_iff.mpr (fun f hf => by simp [hf])
  rw [this]; rfl

/-- every function entry of the table is keyed by its own `path` -/
theorem table_keys : Gen.table.all (fun e => match e.2 with | .func f => e.1 == f.path | _ => true) = true := by
  decide +kernel

/-- the class recorded for a covered entry is the right one: a method's path is `class.name` for
a class of the table; a free function's path contains no `.` -/
def classOk (e : Option String × FuncDef) : Bool :=
  match e.1 with
  | none => !e.2.path.toList.contains '.'
  | some c => e.2.path == c ++ "." ++ e.2.name && tableClasses.contains c

theorem covered_classes : covered.all classOk = true := by decide +kernel

/-- one heap object of every kind -/
def sampleObjs : List Obj :=
  [.tcp ⟨⟨1, 80⟩, ⟨2, 90⟩, 1, 1, false⟩, .udp ⟨⟨1, 80⟩, ⟨2, 90⟩, false⟩,
   .icmp { cl := 1, sv := 2, raw := false }, .frag ⟨{}, []⟩, .vxlan ⟨⟨1, 80⟩, ⟨2, 90⟩, 0, false⟩,
   .gre { cl := 1, sv := 2, ethertype := 0x6558, raw := false }, .erspan1 ⟨1, 2, false⟩,
   .erspan2 { cl := 1, sv := 2, raw := false }, .bufio [] 0]

/-- every class of the table is the class of some heap object, so the hypothesis `ThisOk (some c)`
of the method theorems is satisfiable for every class -/
theorem classes_inhabited : tableClasses.all (fun c => sampleObjs.any (fun o => o.cls == c)) = true := by
  decide +kernel

/-- every covered signature is well formed -/
theorem covered_wf : ∀ e ∈ covered, wf e.2 = true := by
  have h : covered.all (fun e => wf e.2) = true := by decide +kernel
  exact fun e he => List.all_eq_true.mp h e he

/-- every covered entry is an entry of the real table -/
theorem covered_are_real : ∀ e ∈ covered, (e.2.path, Sym.func e.2) ∈ Gen.table := by
  intro e he
  have h1 : e.2 ∈ tableFuncs := by rw [← covered_eq_table]; exact List.mem_map.mpr ⟨e, he, rfl⟩
  unfold tableFuncs at h1
  obtain ⟨t, ht, hte⟩ := List.mem_filterMap.mp h1
  have hk := List.all_eq_true.mp table_keys t ht
  obtain ⟨k, sym⟩ := t
  cases sym with
  | func f =>
    simp only [Option.some.injEq] at hte
    subst hte
    simp only [beq_iff_eq] at hk
    rw [← hk]; exact ht
  | module => simp at hte
  | cls => simp at hte
  | val d => simp at hte

/-- **Every function the library table registers is covered**: whatever `funcOf` resolves. -/
theorem library_function_covered (p : String) (f : FuncDef) (hf : Gen.lib.get p = some (.func f)) :
    ∃ cls, (cls, f) ∈ covered ∧ f.path = p := by
  unfold Lib.get at hf
  cases hfind : Gen.lib.table.find? (fun e => e.1 == p) with
  | none => simp [hfind] at hf
  | some e =>
    rw [hfind] at hf
    simp only [Option.map_some, Option.some.injEq] at hf
    have hmem : e ∈ Gen.table := List.mem_of_find?_eq_some hfind
    have hkey : e.1 = p := by simpa using List.find?_some hfind
    have hk := List.all_eq_true.mp table_keys e hmem
    simp only [hf, beq_iff_eq] at hk
    have h1 : f ∈ tableFuncs := List.mem_filterMap.mpr ⟨e, hmem, by simp [hf]⟩
    rw [← covered_eq_table] at h1
    obtain ⟨c, hc, hcf⟩ := List.mem_map.mp h1
    refine ⟨c.1, ?_, by rw [← hk, hkey]⟩
    rw [← hcf]; exact hc

/-! ## 4. the interpreter's call step -/

/-- **A library call never panics**: binding cannot, the body cannot, and the return-type
`debug_assert!` cannot fire – for every function of the library table, every argument list,
every state, `this` as the interpreter supplies it. -/
theorem bindAndExec_no_panic : ∀ e ∈ covered, ∀ (env : Env) (st : PState) (this : Option Nat)
    (args : List ArgSpec), ThisOk e.1 this st.heap →
    ∀ site, bindAndExec env st e.2 this args ≠ .panic site := by
  intro e he env st this args hthis site heq
  have hwf := covered_wf e he
  unfold bindAndExec at heq
  cases ha : Bind.argvec e.2 args with
  | typeError m => simp [ha] at heq
  | panic s => exact absurd ha (bind_no_panic e.2 hwf args s)
  | ok av =>
    have hwb := bind_ok_wellBound e.2 hwf args av ha
    have hg := covered_good e he env.fs this av st.heap hwb hthis
    simp only [ha] at heq
    cases hx : exec env.fs e.2.path this av st.heap with
    | panic s => rw [hx] at hg; exact hg.elim
    | err k l => simp [hx] at heq
    | ok r =>
      obtain ⟨v, h'⟩ := r
      rw [hx] at hg
      have hv : v.valType = e.2.returnType := hg
      simp [hx, hv] at heq

/-! ## 5. non-vacuity: real signatures, real calls -/

/-- `ipv4::tcp::flow(1.2.3.4:80, 5.6.7.8:90)` on the empty heap allocates object 0 -/
example : exec [] "ipv4::tcp::flow" none
      ⟨[.sock4 0x01020304 80, .sock4 0x05060708 90, .u32 1, .u32 1, .bool false], []⟩ []
    = .ok (.obj 0 "ipv4::tcp::TcpFlow", [.tcp ⟨⟨0x01020304, 80⟩, ⟨0x05060708, 90⟩, 1, 1, false⟩]) := by
  rfl
example : (none, sig_ipv4_tcp_flow) ∈ covered ∧ (none, sig_text_concat) ∈ covered
    ∧ (none, sig_dns_host) ∈ covered
    ∧ (some "ipv4::tcp::TcpFlow", sig_ipv4_tcp_TcpFlow_client_message) ∈ covered := by decide
/-- the hypotheses of `exec_no_panic` are satisfiable for a method: a heap with a TCP flow -/
example : wellBound sig_ipv4_tcp_TcpFlow_client_message [.bool true, .nil, .u64 7, .u16 0] [.str [104, 105]] = true
    ∧ ThisOk (some "ipv4::tcp::TcpFlow") (some 0) [.tcp ⟨⟨1, 80⟩, ⟨2, 90⟩, 1, 1, false⟩] :=
  ⟨by decide, 0, _, rfl, rfl, rfl⟩
/-- `text::concat("hi", 0x41 as u8)` -/
example : exec [] "text::concat" none ⟨[], [.str [104, 105], .u8 65]⟩ [] = .ok (.str [104, 105, 65], []) := by
  rfl
/-- a coercion really is partial outside the accepted types (so `conv_total` is not vacuous) -/
example : (Val.str []).toU16? = none ∧ (Val.bool true).toBuf? = none ∧ (Val.u8 1).toIp? = none := by
  decide

end Resynth.C08
