import Resynth.Lemmas.TcpHistLemmas
/-!
# C04 — TCP flows are sequence-coherent: a reassembler recovers the scripted streams

Model: `TcpOp.step`/`TcpOp.run` (Lemmas/TcpOps.lean) over `Model/Tcp.lean`; `TcpOp.step_refines`
shows that it emits the bytes of the literal method transcription `TcpOp.stepModel`.
Reference: `Spec/TcpStream.lean`.

Standing hypotheses: `FlowWf f` (both initial sequence numbers are `u32`) and `histWf h`
(override values are `u32`); both are what the Rust types enforce.  All arithmetic is mod 2^32,
so initial sequence numbers such as 2^32−1 are covered (see the examples at the end).
-/
namespace Resynth.C04
open TcpStream

/-! ## 1. counters -/

/-- For every history without overrides, each side's counter is its initial sequence number plus
the sequence space that side consumed (payload bytes, one per SYN/FIN, holes, `*_hdr` lengths),
mod 2^32. -/
theorem counters_track (f : TcpFlow) (hf : FlowWf f) (h : List TcpOp) (hno : noOverrides h = true) :
    (TcpOp.run f h).1.clSeq = (f.clSeq + consumed .c2s (h.flatMap TcpOp.events)) % 4294967296 ∧
    (TcpOp.run f h).1.svSeq = (f.svSeq + consumed .s2c (h.flatMap TcpOp.events)) % 4294967296 := by
  have := run_counters f hf h (noOverrides_histWf h hno)
  rwa [consumedOps_noOverrides _ h hno, consumedOps_noOverrides _ h hno] at this

/-- The same for every history, overridden calls included: a call counts for nothing on a
counter it overrides (`opConsumes`), because that counter is restored. -/
theorem counters_track_overrides (f : TcpFlow) (hf : FlowWf f) (h : List TcpOp) (hh : histWf h = true) :
    (TcpOp.run f h).1.clSeq = (f.clSeq + consumedOps .c2s h) % 4294967296 ∧
    (TcpOp.run f h).1.svSeq = (f.svSeq + consumedOps .s2c h) % 4294967296 :=
  run_counters f hf h hh

/-! ## 2. emitted segments -/

/-- For every history without overrides the emitted segments (direction, seq, ack-if-ACK-flag,
SYN, FIN, RST, PSH, payload) are exactly the expected ones: `seq = isn + consumed before`,
`ack = peer's next`, flags by kind. -/
theorem segments_match_expected (f : TcpFlow) (hf : FlowWf f) (h : List TcpOp) (hno : noOverrides h = true) :
    (TcpOp.run f h).2.map Out.toSegment = expectedEvs f.clSeq f.svSeq (h.flatMap TcpOp.events) := by
  rw [run_segments f hf h (noOverrides_histWf h hno), expectedOps_noOverrides _ _ h hno]

/-- Pointwise reading of `segments_match_expected`: every emitted segment stems from an event `e`
of the history, and its fields are those `Ev.segment` computes from the events `pre` before `e`;
in particular `seq = (isn + consumed pre) mod 2^32`. -/
theorem segment_seq_ack (f : TcpFlow) (hf : FlowWf f) (h : List TcpOp) (hno : noOverrides h = true)
    (o : Out) (ho : o ∈ (TcpOp.run f h).2) :
    ∃ pre e post, h.flatMap TcpOp.events = pre ++ e :: post
      ∧ e.segment f.clSeq f.svSeq pre = some o.toSegment
      ∧ o.seq = (isn f.clSeq f.svSeq o.dir + consumed o.dir pre) % 4294967296
      ∧ (o.flags.testBit 4 = true →
          o.ack = (isn f.clSeq f.svSeq o.dir.peer + consumed o.dir.peer pre) % 4294967296) :=
  run_segment_pointwise f h o ho (segments_match_expected f hf h hno)

/-- The flag byte of every emitted header is exactly FIN·1 + SYN·2 + RST·4 + PSH·8 + ACK·16 of the
decoded record, i.e. with `segments_match_expected`: SYN = 0x02, SYN+ACK = 0x12, ACK = 0x10,
PSH+ACK = 0x18 for data, FIN+ACK = 0x11, RST = 0x04 (no ACK). -/
theorem flags_prescribed (f : TcpFlow) (h : List TcpOp) (o : Out) (ho : o ∈ (TcpOp.run f h).2) :
    o.flags = o.toSegment.flagByte :=
  run_flags f h o ho

/-- The same for every history, overrides included. -/
theorem segments_match_expected_overrides (f : TcpFlow) (hf : FlowWf f) (h : List TcpOp) (hh : histWf h = true) :
    (TcpOp.run f h).2.map Out.toSegment = expectedOps f.clSeq f.svSeq h :=
  run_segments f hf h hh

/-! ## 3. reassembly -/

/-- Order-insensitivity of the reassembler on arbitrary segment lists. -/
theorem reassemble_perm (isn : Nat) (d : Dir) (n : Nat) {l₁ l₂ : List Segment} (p : l₁.Perm l₂) :
    reassemble isn d l₁ n = reassemble isn d l₂ n :=
  TcpStream.reassemble_perm isn d n p

/-- For a history without overrides whose side `d` consumes at most 2^32 units of sequence space,
reassembling the emitted segments taken in ANY order yields exactly what was scripted for `d`:
cell by cell in sequence space (SYN, bytes, holes as gaps, FIN), hence as a byte stream with holes;
and nothing lies outside the scripted window. -/
theorem reassemble_recovers (f : TcpFlow) (hf : FlowWf f) (h : List TcpOp) (hno : noOverrides h = true)
    (d : Dir) (hlt : consumed d (h.flatMap TcpOp.events) ≤ 4294967296)
    (segs : List Segment) (hp : segs.Perm ((TcpOp.run f h).2.map Out.toSegment)) :
    reassemble (isn f.clSeq f.svSeq d) d segs (consumed d (h.flatMap TcpOp.events))
        = scriptCells d (h.flatMap TcpOp.events)
    ∧ appStream (reassemble (isn f.clSeq f.svSeq d) d segs (consumed d (h.flatMap TcpOp.events)))
        = some ((scriptedStreams d h).flatMap Chunk.flat)
    ∧ ∀ k, consumed d (h.flatMap TcpOp.events) ≤ k → k < 4294967296 →
        cellAt (isn f.clSeq f.svSeq d) d segs k = .gap := by
  rw [segments_match_expected f hf h hno] at hp
  have h1 := reassemble_expectedEvs f.clSeq f.svSeq d _ hlt segs hp
  refine ⟨h1, ?_, ?_⟩
  · rw [h1, appStream_scriptCells]; rfl
  · intro k hge hk
    exact cellAt_expectedEvs_beyond f.clSeq f.svSeq d _ hlt segs hp k hk hge

/-! ## 4. overrides are local to the call -/

/-- A call with overrides, from any state:
* an overridden counter has its pre-call value afterwards;
* a counter that is not overridden ends where the same call without overrides puts it from any
  state with the same value of that counter, namely value + consumption of the call;
* the emitted segments are those of the call's events played with the client counter starting at
  the `seq:` value and the server counter at the `ack:` value (each where given, else current). -/
theorem override_local (f : TcpFlow) (hf : FlowWf f) (op : TcpOp) (hop : opWf op = true) :
    (∀ v, op.seqOv = some v → (TcpOp.step f op).1.clSeq = f.clSeq)
    ∧ (∀ w, op.ackOv = some w → (TcpOp.step f op).1.svSeq = f.svSeq)
    ∧ (op.seqOv = none →
        (TcpOp.step f op).1.clSeq = (f.clSeq + consumed .c2s op.events) % 4294967296
        ∧ ∀ g : TcpFlow, g.clSeq = f.clSeq → (TcpOp.step g op.clearOv).1.clSeq = (TcpOp.step f op).1.clSeq)
    ∧ (op.ackOv = none →
        (TcpOp.step f op).1.svSeq = (f.svSeq + consumed .s2c op.events) % 4294967296
        ∧ ∀ g : TcpFlow, g.svSeq = f.svSeq → (TcpOp.step g op.clearOv).1.svSeq = (TcpOp.step f op).1.svSeq)
    ∧ (TcpOp.step f op).2.map Out.toSegment
        = expectedEvs (op.seqOv.getD f.clSeq) (op.ackOv.getD f.svSeq) op.events := by
  obtain ⟨hseg, hc, hs⟩ := step_spec f hf op hop
  refine ⟨?_, ?_, ?_, ?_, hseg⟩
  · intro v hv; rw [hc, hv]; rfl
  · intro w hw; rw [hs, hw]; rfl
  · intro hn
    refine ⟨by rw [hc, hn]; rfl, fun g hg => (step_clSeq_indep f g op hg.symm hn).symm⟩
  · intro hn
    refine ⟨by rw [hs, hn]; rfl, fun g hg => (step_svSeq_indep f g op hg.symm hn).symm⟩

/-- What `override_local` means for `client_message(seq: v, ack: w)`: the data segment goes out
with seq `v` and ack `w`, the server's ACK with seq `w` and ack `v + len`; both counters are
restored. -/
theorem client_message_override (f : TcpFlow) (bs : Bytes) (fo v w : Nat) :
    (TcpOp.step f (.clientMessage bs true fo (some v) (some w))).2.map Out.toSegment
      = [ { dir := .c2s, seq := v, ack := some w, syn := false, fin := false, rst := false, psh := true, payload := bs },
          { dir := .s2c, seq := w, ack := some ((v + bs.length) % 4294967296), syn := false, fin := false, rst := false,
            psh := false, payload := [] } ]
    ∧ (TcpOp.step f (.clientMessage bs true fo (some v) (some w))).1 = f := by
  constructor
  · tcp_unfold
  · tcp_unfold

/-- …and for `server_message(seq: v)`: `seq:` addresses the *client* counter also in
server-originated calls, so the server's data segment carries `v` in its **ack** field and its own
(not overridden) counter as seq; the client's ACK carries `v` as seq.  Afterwards the client
counter is restored and the server counter has advanced by the payload length. -/
theorem server_message_seq_override (f : TcpFlow) (hf : FlowWf f) (bs : Bytes) (fo v : Nat) :
    (TcpOp.step f (.serverMessage bs true fo (some v) none)).2.map Out.toSegment
      = [ { dir := .s2c, seq := f.svSeq, ack := some v, syn := false, fin := false, rst := false, psh := true, payload := bs },
          { dir := .c2s, seq := v, ack := some ((f.svSeq + bs.length) % 4294967296), syn := false, fin := false,
            rst := false, psh := false, payload := [] } ]
    ∧ (TcpOp.step f (.serverMessage bs true fo (some v) none)).1.clSeq = f.clSeq
    ∧ (TcpOp.step f (.serverMessage bs true fo (some v) none)).1.svSeq = (f.svSeq + bs.length) % 4294967296 := by
  obtain ⟨h1, h2⟩ := hf
  refine ⟨?_, ?_, ?_⟩ <;> tcp_unfold <;> omega

/-! ## Non-vacuity: concrete histories, initial sequence numbers that wrap -/

/-- client isn 2^32−1, server isn 2^32−2 -/
def f0 : TcpFlow :=
  { cl := ⟨0x01020304, 1000⟩, sv := ⟨0x05060708, 80⟩, clSeq := 4294967295, svSeq := 4294967294, raw := false }

/-- open; client "GET" (+ACK); server "OK" (+ACK); server hole 5; server "!" ; client close -/
def h0 : List TcpOp :=
  [.open, .clientMessage [71, 69, 84] true 0 none none, .serverMessage [79, 75] true 0 none none,
   .serverHole 5, .serverMessage [33] false 0 none none, .clientClose]

example : FlowWf f0 ∧ noOverrides h0 = true ∧ histWf h0 = true := by decide
example : consumed .c2s (h0.flatMap TcpOp.events) = 5 ∧ consumed .s2c (h0.flatMap TcpOp.events) = 10 := by decide
example : (TcpOp.run f0 h0).1.clSeq = 4 ∧ (TcpOp.run f0 h0).1.svSeq = 8 := by decide

/-- seq/ack of the eleven emitted segments, wrapping past 2^32 -/
example : (TcpOp.run f0 h0).2.map (fun o => (o.dir, o.seq, o.toSegment.ack, o.flags, o.payload)) =
    [ (.c2s, 4294967295, none, 0x02, []),
      (.s2c, 4294967294, some 0, 0x12, []),
      (.c2s, 0, some 4294967295, 0x10, []),
      (.c2s, 0, some 4294967295, 0x18, [71, 69, 84]),
      (.s2c, 4294967295, some 3, 0x10, []),
      (.s2c, 4294967295, some 3, 0x18, [79, 75]),
      (.c2s, 3, some 1, 0x10, []),
      (.s2c, 6, some 3, 0x18, [33]),
      (.c2s, 3, some 7, 0x11, []),
      (.s2c, 7, some 4, 0x11, []),
      (.c2s, 4, some 8, 0x10, []) ] := by decide

example : (TcpOp.run f0 h0).2.map Out.toSegment = expectedEvs 4294967295 4294967294 (h0.flatMap TcpOp.events) := by
  decide

/-- reassembly of the segments in reverse order -/
example : reassemble 4294967294 .s2c ((TcpOp.run f0 h0).2.map Out.toSegment).reverse 10
    = [.syn, .byte 79, .byte 75, .gap, .gap, .gap, .gap, .gap, .byte 33, .fin] := by decide
example : appStream (reassemble 4294967294 .s2c ((TcpOp.run f0 h0).2.map Out.toSegment).reverse 10)
    = some [some 79, some 75, none, none, none, none, none, some 33] := by decide
example : scriptedStreams .s2c h0 = [.data [79, 75], .hole 5, .data [33]] := by decide
example : appStream (reassemble 4294967295 .c2s ((TcpOp.run f0 h0).2.map Out.toSegment).reverse 5)
    = some [some 71, some 69, some 84] := by decide

/-- the bound in `reassemble_recovers` is needed: with 2^32+1 units of client sequence space the
last byte lands on the SYN's cell -/
example :
    let h := [TcpOp.open, .clientHole 4294967295, .clientMessage [7] false 0 none none]
    consumed .c2s (h.flatMap TcpOp.events) = 4294967297
    ∧ cellAt 4294967295 .c2s ((TcpOp.run f0 h).2.map Out.toSegment) 0 = .conflict := by decide

/-- a history with overridden calls: retransmission of "GET" at an explicit seq, then a server
message with `seq:`; counters as `counters_track_overrides` says -/
def h1 : List TcpOp :=
  [.open, .clientMessage [71, 69, 84] true 0 none none,
   .clientSegment [71, 69, 84] (some 0) none,
   .serverMessage [79, 75] true 0 (some 4000000000) none,
   .clientRawSegment [1, 2] none (some 77), .serverHdr 100, .clientReset]

example : histWf h1 = true ∧ noOverrides h1 = false := by decide
example : consumedOps .c2s h1 = 6 ∧ consumedOps .s2c h1 = 103 := by decide
example : (TcpOp.run f0 h1).1.clSeq = 5 ∧ (TcpOp.run f0 h1).1.svSeq = 101 := by decide
example : (TcpOp.run f0 h1).2.map Out.toSegment = expectedOps f0.clSeq f0.svSeq h1 := by decide
example : ((TcpOp.run f0 h1).2.drop 5).map (fun o => (o.dir, o.seq, o.toSegment.ack, o.flags, o.wire)) =
    [ (.c2s, 0, some 4294967295, 0x18, .frame),          -- client_segment(seq: 0)
      (.s2c, 4294967295, some 4000000000, 0x18, .frame), -- server_message(seq: 4000000000): value lands in ack
      (.c2s, 4000000000, some 1, 0x10, .frame),
      (.c2s, 3, some 77, 0x18, .segment),                -- client_raw_segment(ack: 77)
      (.s2c, 1, some 5, 0x18, .header),                  -- server_hdr(100)
      (.c2s, 5, none, 0x04, .frame) ] := by decide       -- client_reset

/-- the bytes are those of the literal transcription of the methods -/
example : (TcpOp.runModel f0 h1).2 = (TcpOp.run f0 h1).2.map Out.bytes := by
  rw [TcpOp.run_refines]

end Resynth.C04
