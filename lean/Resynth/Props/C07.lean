import Resynth.Lemmas.Reasm
/-!
# C07 — IP fragments of a payload always reassemble to the original datagram

"For every payload and every choice of fragment offsets and lengths (in 8-byte units), each
fragment produced from a fragmentation context carries the context's addresses, protocol,
identification, TTL and DF/evil bits, a fragment-offset field equal to the requested offset,
exactly the payload bytes from 8*offset up to 8*(offset+length) clipped to the end of the
payload, and the more-fragments flag set exactly when payload bytes remain beyond it;
consequently any set of fragments that covers the payload reassembles, by the RFC 791 algorithm,
to the original datagram, whatever the order of emission.  The tail call behaves as a fragment
extending to the end, and the whole-datagram call yields the entire payload with offset zero and
more-fragments clear."

Packets are decoded from bytes by `Spec.decodeFrag` (after `stripEth raw`, which drops the 14-byte
Ethernet header of a framed packet) and reassembled by `Spec.reassemble` (`Spec/Rfc791.lean`).

`IpHdr.InRange` says that the context header holds values of the Rust field widths (version/IHL
0x45, 16-bit id and flags word, 8-bit ttl/protocol, 32-bit addresses); `mkFragCtx`, the stdlib
constructor `ipv4::frag`, always satisfies it (`ctx_inRange`).  Nothing is assumed about which
flag bits the context header carries: `frag()` masks and overwrites them.

One clause needs a side condition that the prose leaves implicit: a request whose offset lies
beyond the end of the payload (`8*off > n`).  The Rust code panics there (slice out of range); the
model clips and emits an empty MF=0 fragment at that offset, which fixes a wrong total length, so
a covering set containing such a request does NOT reassemble (`beyond_end_breaks_reassembly`).
`reassemble_cover` therefore assumes `8*off ≤ n` for every request (the non-panicking domain).
-/
namespace Resynth.C07
open Resynth Spec

/-- Every fragment decodes to the context's fields, the requested offset, the clipped slice and
`MF ↔ bytes remain`.  (`len` needs no bound.) -/
theorem fragment_fields (f : IpFrag) (off len : Nat) (raw : Bool)
    (hctx : f.hdr.InRange) (hoff : off < 2 ^ 13) (hfit : 20 + f.payload.length ≤ 65535) :
    decodeFrag (stripEth raw (f.fragment off len raw)) = some
      { src := f.hdr.saddr, dst := f.hdr.daddr, proto := f.hdr.protocol, id := f.hdr.id
        ttl := f.hdr.ttl
        evil := f.hdr.fragOff.testBit 15
        df := f.hdr.fragOff.testBit 14
        mf := decide (min (8 * (off + len)) f.payload.length < f.payload.length)
        offset := off
        data := (f.payload.drop (8 * off)).take (min (8 * (off + len)) f.payload.length - 8 * off) } :=
  decodeFrag_fragment f off len raw hctx hoff hfit

/-- the stdlib constructor `ipv4::frag` yields an in-range context -/
theorem ctx_inRange (src dst id : Nat) (evil df : Bool) (ttl proto : Nat) (payload : Bytes)
    (hs : src < 2 ^ 32) (hd : dst < 2 ^ 32) (hi : id < 2 ^ 16) (ht : ttl < 2 ^ 8)
    (hp : proto < 2 ^ 8) : (mkFragCtx src dst id evil df ttl proto payload).hdr.InRange :=
  mkFragCtx_inRange src dst id evil df ttl proto payload hs hd hi ht hp

/-- `fragment_fields` for a context built the way stdlib `ipv4::frag` builds it: the decoded
fragment shows exactly the arguments of `frag(...)`. -/
theorem fragment_fields_ctx (src dst id : Nat) (evil df : Bool) (ttl proto : Nat) (payload : Bytes)
    (off len : Nat) (raw : Bool)
    (hs : src < 2 ^ 32) (hd : dst < 2 ^ 32) (hi : id < 2 ^ 16) (ht : ttl < 2 ^ 8)
    (hp : proto < 2 ^ 8) (hoff : off < 2 ^ 13) (hfit : 20 + payload.length ≤ 65535) :
    decodeFrag (stripEth raw ((mkFragCtx src dst id evil df ttl proto payload).fragment off len raw))
      = some
      { src := src, dst := dst, proto := proto, id := id, ttl := ttl, evil := evil, df := df
        mf := decide (min (8 * (off + len)) payload.length < payload.length)
        offset := off
        data := (payload.drop (8 * off)).take (min (8 * (off + len)) payload.length - 8 * off) } := by
  rw [fragment_fields _ off len raw (ctx_inRange src dst id evil df ttl proto payload hs hd hi ht hp)
    hoff hfit, mkFragCtx_evil, mkFragCtx_df]
  rfl

/-- `tail(off)` is `fragment(off, n as u16)` -/
theorem tail_eq (f : IpFrag) (off : Nat) (raw : Bool) :
    f.tail off raw = f.fragment off (f.payload.length % 65536) raw := rfl

/-- … and (the payload of a datagram never exceeds 65535 bytes) it extends to the end of the
payload with MF clear. -/
theorem tail_fields (f : IpFrag) (off : Nat) (raw : Bool)
    (hctx : f.hdr.InRange) (hoff : off < 2 ^ 13) (hfit : 20 + f.payload.length ≤ 65535) :
    decodeFrag (stripEth raw (f.tail off raw)) = some
      { src := f.hdr.saddr, dst := f.hdr.daddr, proto := f.hdr.protocol, id := f.hdr.id
        ttl := f.hdr.ttl
        evil := f.hdr.fragOff.testBit 15
        df := f.hdr.fragOff.testBit 14
        mf := false
        offset := off
        data := f.payload.drop (8 * off) } := by
  rw [tail_eq, fragment_fields f off _ raw hctx hoff hfit]
  have e : min (8 * (off + f.payload.length % 65536)) f.payload.length = f.payload.length := by omega
  rw [e, List.take_of_length_le (by simp)]
  simp

/-- the whole-datagram call: offset zero, MF clear, the entire payload -/
theorem datagram_whole (f : IpFrag) (raw : Bool)
    (hctx : f.hdr.InRange) (hfit : 20 + f.payload.length ≤ 65535) :
    decodeFrag (stripEth raw (f.datagram raw)) = some
      { src := f.hdr.saddr, dst := f.hdr.daddr, proto := f.hdr.protocol, id := f.hdr.id
        ttl := f.hdr.ttl
        evil := f.hdr.fragOff.testBit 15
        df := f.hdr.fragOff.testBit 14
        mf := false
        offset := 0
        data := f.payload } :=
  decodeFrag_ipDgramFrag f.hdr f.payload raw 0 false hctx (by decide) hfit

/-- … and on its own it reassembles to the payload (this also covers the empty payload). -/
theorem datagram_reassembles (f : IpFrag) (raw : Bool)
    (hctx : f.hdr.InRange) (hfit : 20 + f.payload.length ≤ 65535) :
    reassemblePkts [stripEth raw (f.datagram raw)] = some f.payload := by
  simp only [reassemblePkts, List.mapM_cons, List.mapM_nil, datagram_whole f raw hctx hfit]
  exact reassemble_single
    { src := f.hdr.saddr, dst := f.hdr.daddr, proto := f.hdr.protocol, id := f.hdr.id
      ttl := f.hdr.ttl, evil := f.hdr.fragOff.testBit 15, df := f.hdr.fragOff.testBit 14
      mf := false, offset := 0, data := f.payload } rfl rfl

/-- RFC 791 reassembly does not depend on the order of arrival. -/
theorem reassemble_perm {fs₁ fs₂ : List Frag} (h : fs₁.Perm fs₂) :
    reassemble fs₁ = reassemble fs₂ := reassemble_perm' h

theorem reassemblePkts_perm {p₁ p₂ : List Bytes} (h : p₁.Perm p₂) :
    reassemblePkts p₁ = reassemblePkts p₂ := reassemblePkts_perm' h

/-- Any list of `(off, len)` requests that start inside the payload and whose byte ranges
`[8*off, 8*(off+len))` cover `[0, n)` — overlaps, duplicates, zero-length and over-long requests
allowed — yields packets that, decoded from bytes and in ANY order of emission, reassemble to the
payload.  (Coverage of byte `n-1` already forces a fragment reaching the end, i.e. one with
MF = 0; `n = 0` is `datagram_reassembles`.) -/
theorem reassemble_cover (f : IpFrag) (raw : Bool) (rs : List (Nat × Nat)) (pkts : List Bytes)
    (hctx : f.hdr.InRange) (hfit : 20 + f.payload.length ≤ 65535) (hn : 0 < f.payload.length)
    (hstart : ∀ r ∈ rs, 8 * r.1 ≤ f.payload.length)
    (hcov : ∀ i, i < f.payload.length → ∃ r ∈ rs, 8 * r.1 ≤ i ∧ i < 8 * (r.1 + r.2))
    (hperm : pkts.Perm (rs.map fun r => f.fragment r.1 r.2 raw)) :
    reassemblePkts (pkts.map (stripEth raw)) = some f.payload := by
  rw [reassemblePkts_perm (hperm.map _)]
  have hdec : ((rs.map fun r => f.fragment r.1 r.2 raw).map (stripEth raw)).mapM decodeFrag =
      some (rs.map fun r => fragRec f r.1 r.2) := by
    rw [List.map_map, List.mapM_map]
    apply mapM_eq_some_map
    intro r hr
    have h8 := hstart r hr
    exact decodeFrag_fragment f r.1 r.2 raw hctx (by omega) hfit
  simp only [reassemblePkts, hdec]
  exact reassemble_fragRecs f rs hn hstart hcov

/-! ## Negative result: a request beyond the end of the payload

The model (unlike the Rust code, which panics) answers `fragment(off, len)` with `8*off > n` by an
empty fragment with MF = 0 at offset `off`.  Added to a covering set it makes reassembly fail, so
the hypothesis `hstart` of `reassemble_cover` cannot be dropped. -/

/-- 16-byte payload `01 02 … 10`, built as stdlib `ipv4::frag(10.0.0.1, 10.0.0.2, id: 0x1234,
evil: true, ttl: 33, proto: 17, …)` does -/
def exCtx : IpFrag :=
  mkFragCtx 0x0a000001 0x0a000002 0x1234 true false 33 17 ((List.range 16).map fun i => b8 (i + 1))

theorem beyond_end_breaks_reassembly :
    exCtx.hdr.InRange ∧ 20 + exCtx.payload.length ≤ 65535 ∧ 0 < exCtx.payload.length ∧
    (∀ i, i < exCtx.payload.length → ∃ r ∈ [(0, 2), (3, 1)], 8 * r.1 ≤ i ∧ i < 8 * (r.1 + r.2)) ∧
    decodeFrag (exCtx.fragment 3 1 true) = some
      { src := 0x0a000001, dst := 0x0a000002, proto := 17, id := 0x1234, ttl := 33, evil := true
        df := false, mf := false, offset := 3, data := [] } ∧
    reassemblePkts ([(0, 2), (3, 1)].map fun r => exCtx.fragment r.1 r.2 true) = none := by
  refine ⟨ctx_inRange _ _ _ _ _ _ _ _ (by decide) (by decide) (by decide) (by decide) (by decide),
    by decide, by decide, by decide, by decide, by decide⟩

/-! ## Non-vacuity -/

/-- hypotheses of `fragment_fields` / `tail_fields` / `datagram_whole` are satisfiable, and the
decoded middle fragment is what one expects -/
example : decodeFrag (stripEth false (exCtx.fragment 1 1 false)) = some
    { src := 0x0a000001, dst := 0x0a000002, proto := 17, id := 0x1234, ttl := 33, evil := true
      df := false, mf := false, offset := 1, data := [9, 10, 11, 12, 13, 14, 15, 16] } := by decide

example : decodeFrag (stripEth false (exCtx.fragment 0 1 false)) = some
    { src := 0x0a000001, dst := 0x0a000002, proto := 17, id := 0x1234, ttl := 33, evil := true
      df := false, mf := true, offset := 0, data := [1, 2, 3, 4, 5, 6, 7, 8] } := by decide

/-- hypotheses of `reassemble_cover` are satisfiable: overlapping, duplicated, zero-length and
over-long requests, emitted out of order, framed -/
example : reassemblePkts (([(1, 700), (0, 1), (0, 2), (2, 0), (0, 1)].map
    fun r => exCtx.fragment r.1 r.2 false).map (stripEth false)) = some exCtx.payload :=
  reassemble_cover exCtx false [(0, 1), (0, 1), (0, 2), (1, 700), (2, 0)] _
    (ctx_inRange _ _ _ _ _ _ _ _ (by decide) (by decide) (by decide) (by decide) (by decide))
    (by decide) (by decide) (by decide) (by decide) (by decide)

/-- and the reassembler is not constantly `some`: dropping the tail loses the datagram -/
example : reassemblePkts ([(0, 1)].map fun r => exCtx.fragment r.1 r.2 true) = none := by decide

/-- conflicting overlap is rejected -/
example : reassemble
    [{ src := 1, dst := 2, proto := 17, id := 7, ttl := 64, evil := false, df := false, mf := false
       offset := 0, data := [1, 2] },
     { src := 1, dst := 2, proto := 17, id := 7, ttl := 64, evil := false, df := false, mf := false
       offset := 0, data := [1, 3] }] = none := by decide

end Resynth.C07
