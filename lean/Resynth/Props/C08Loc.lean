import Resynth.Lemmas.ErrLoc
import Resynth.Lemmas.ErrLocFile
import Resynth.Lemmas.ErrLocLines
import Resynth.Props.C10
/-!
# C08 — where a diagnostic points: "for an error raised while executing a statement, a line within
that statement"

"... prints a diagnostic naming the input (with a line:column inside the file when a position is known;
for an error raised while executing a statement, a line within that statement)".

Model: `eval`, `evalArgs`, `addStmt`, `addStmts` (`Model/Interp.lean`, src/program.rs) report an error as
`.err kind loc`; `runStmts` / `processFile` (`Model/Cli.lean`, src/cli.rs) turn it into the outcome
`.failure class detail loc`.  Specification: the positions recorded in a tree, `Expr.locs`, `Args.locs`,
`Stmt.locs` (`Lemmas/ErrLoc.lean`).

* L1 `eval_err_loc`, `eval_ok_loc`, `evalArgs_err_loc`, `evalArgs_ok_loc`: an error of an evaluation is
  reported at a position recorded in the expression, and a successful evaluation leaves the position
  register at a position of the expression (unless it has none).
* L2 `addStmt_err_loc`: an error raised while executing a statement - during the evaluation or after it
  (time overflow, write error) - is reported at a position recorded in THAT statement.
* L3 `addStmts_err_loc`: a failing statement list reports the error of its first failing statement, at a
  position inside that statement.
* L4 `runStmts_err_loc`, `file_failure_located`, `file_execution_error_located`: the same through the
  driver: every failure of `process_file` that is not a front-end failure (decoder, lexer, parser) or the
  final flush is the error of a statement the parser built from the file, reported at a position recorded
  in that statement; and every such position is the position of a token of the file
  (`statement_positions_are_token_positions`), on one of its lines (`tokenPos_line`).

* L5 `statement_token_group`, `file_execution_error_within_statement`: "within that statement" in terms
  of the file's own tokens: the `k`-th executed statement records only positions of tokens of the `k`-th
  `;`-terminated group of the token stream, so the reported line lies between the line of the `;` that
  ends the previous statement and the line of the `;` that ends the failing one.

**The one exception in the model** (`eval_err_loc_all`, `startsNil_error_outside`): the syntax-tree type
has an empty expression `Expr.nil` (`Expr::Nil` of src/parse.rs).  `nil / b` fails the "left operand is
an address" check BEFORE any position has been stored, so the error is reported at the position the
register held before - the last position of the PREVIOUS statement when this is an expression statement.
The unconditional theorems (`…_all`) say exactly this; the clean statements carry the hypothesis
`startsNil = false` ("the leftmost operand is not the empty expression"), which holds for every tree the
parser builds (`parser_never_builds_nil`) - the parser has no production for `Expr.nil`.
-/
namespace Resynth.C08Loc
open Sem LR

/-! ## L1 expressions -/

/-- **L1, all expressions.** An error of `eval` is reported at a position recorded in the expression;
the only other possibility is an expression whose leftmost operand is the empty expression, reported
at the position the register held when the evaluation started. -/
theorem eval_err_loc_all (env : Env) (st : PState) (e : Expr) (k : ErrKind) (l : Loc)
    (h : eval env st e = .err k l) : l ∈ e.locs ∨ (e.startsNil = true ∧ l = st.loc) := by
  have := eval_locP env e st
  rw [h] at this
  exact this

/-- **L1 (a).** An error raised while evaluating an expression (whose leftmost operand is not the empty
expression - always the case for parsed input) is reported at a position recorded in the expression. -/
theorem eval_err_loc (env : Env) (st : PState) (e : Expr) (k : ErrKind) (l : Loc) (hs : e.startsNil = false)
    (h : eval env st e = .err k l) : l ∈ e.locs := by
  rcases eval_err_loc_all env st e k l h with h | ⟨h, _⟩
  · exact h
  · rw [hs] at h; cases h

/-- **L1 (b), all expressions.** After a successful evaluation the position register holds a position
recorded in the expression - unless the expression records none, and then it is unchanged. -/
theorem eval_ok_loc (env : Env) (st st' : PState) (e : Expr) (v : Val)
    (h : eval env st e = .ok (v, st')) : st'.loc ∈ e.locs ∨ (e.locs = [] ∧ st'.loc = st.loc) := by
  have := eval_locP env e st
  rw [h] at this
  rcases this with h' | ⟨rfl, h'⟩
  · exact .inl h'
  · exact .inr ⟨rfl, h'⟩

/-- the only expression that evaluates successfully without touching the position register is the empty
one -/
theorem eval_ok_loc_nil (env : Env) (st st' : PState) (e : Expr) (v : Val)
    (h : eval env st e = .ok (v, st')) : st'.loc ∈ e.locs ∨ e = .nil := by
  have := eval_locP env e st
  rw [h] at this
  exact this.imp id (·.1)

/-- **L1 for argument lists, all lists.** -/
theorem evalArgs_err_loc_all (env : Env) (st : PState) (a : Args) (k : ErrKind) (l : Loc)
    (h : evalArgs env st a = .err k l) : l ∈ a.locs ∨ (a.startsNil = true ∧ l = st.loc) := by
  have := evalArgs_locP env a st
  rw [h] at this
  exact this

/-- **L1 (a) for argument lists**: an error is reported at a position recorded in the list (if the first
non-empty argument does not start with the empty expression - always the case for parsed input). -/
theorem evalArgs_err_loc (env : Env) (st : PState) (a : Args) (k : ErrKind) (l : Loc) (hs : a.startsNil = false)
    (h : evalArgs env st a = .err k l) : l ∈ a.locs := by
  rcases evalArgs_err_loc_all env st a k l h with h | ⟨h, _⟩
  · exact h
  · rw [hs] at h; cases h

/-- **L1 (b) for argument lists, all lists.** -/
theorem evalArgs_ok_loc (env : Env) (st st' : PState) (a : Args) (vs : List ArgSpec)
    (h : evalArgs env st a = .ok (vs, st')) : st'.loc ∈ a.locs ∨ (a.locs = [] ∧ st'.loc = st.loc) := by
  have := evalArgs_locP env a st
  rw [h] at this
  exact this

/-- **The exception is real (in the model).** An expression other than `nil` whose leftmost operand is
the empty expression always fails, with a type error at the position the register held before - a
position that need not belong to the expression. -/
theorem startsNil_error_outside (env : Env) (st : PState) (e : Expr) (hs : e.startsNil = true) (hn : e ≠ .nil) :
    eval env st e = .err .type_ st.loc :=
  eval_startsNil env e st hs hn

/-! ## L2 one statement -/

/-- **L2, all statements.** -/
theorem addStmt_err_loc_all (env : Env) (st : PState) (s : Stmt) (k : ErrKind) (l : Loc)
    (h : addStmt env st s = .err k l) : l ∈ s.locs ∨ (s.startsNil = true ∧ l = st.loc) :=
  Resynth.addStmt_err_loc_all env st s k l h

/-- **L2.** An error raised while executing a statement - a failing import, a second assignment to a
name, any error of the evaluation, a time overflow or a write error after it - is reported at a position
recorded in that statement.  (`s.startsNil = false`: not an expression statement whose leftmost operand is
the empty expression; always the case for parsed input, `parser_never_builds_nil`.) -/
theorem addStmt_err_loc (env : Env) (st : PState) (s : Stmt) (k : ErrKind) (l : Loc) (hs : s.startsNil = false)
    (h : addStmt env st s = .err k l) : l ∈ s.locs := by
  rcases addStmt_err_loc_all env st s k l h with h | ⟨h, _⟩
  · exact h
  · rw [hs] at h; cases h

/-- imports and assignments need no hypothesis: they store their own position first -/
theorem addStmt_imp_err_loc (env : Env) (st : PState) (loc : Loc) (m : String) (k : ErrKind) (l : Loc)
    (h : addStmt env st (.imp loc m) = .err k l) : l = loc := by
  simpa [Stmt.locs] using addStmt_err_loc env st _ k l rfl h

theorem addStmt_assign_err_loc (env : Env) (st : PState) (loc : Loc) (t : String) (e : Expr) (k : ErrKind) (l : Loc)
    (h : addStmt env st (.assign loc t e) = .err k l) : l = loc ∨ l ∈ e.locs := by
  simpa [Stmt.locs] using addStmt_err_loc env st _ k l rfl h

/-! ## L3 statement lists -/

/-- **L3, all lists.** The error of a statement list is the error of its FIRST failing statement `s`
(everything before it succeeded), located in `s` - or, only if `s` starts with the empty expression, at
the position the statements before it left in the register. -/
theorem addStmts_err_loc_all (env : Env) (st : PState) (ss : List Stmt) (k : ErrKind) (l : Loc)
    (h : addStmts env st ss = .err k l) :
    ∃ pre s post st1, ss = pre ++ s :: post ∧ addStmts env st pre = .ok st1 ∧ addStmt env st1 s = .err k l ∧
      (l ∈ s.locs ∨ (s.startsNil = true ∧ l = st1.loc)) := by
  obtain ⟨pre, s, post, st1, h1, h2, h3⟩ := addStmts_err_split env ss st k l h
  exact ⟨pre, s, post, st1, h1, h2, h3, addStmt_err_loc_all env st1 s k l h3⟩

/-- **L3.** The error of a statement list is the error of its first failing statement, reported at a
position recorded in that statement. -/
theorem addStmts_err_loc (env : Env) (st : PState) (ss : List Stmt) (k : ErrKind) (l : Loc)
    (hs : ∀ s ∈ ss, s.startsNil = false) (h : addStmts env st ss = .err k l) :
    ∃ pre s post st1, ss = pre ++ s :: post ∧ addStmts env st pre = .ok st1 ∧ addStmt env st1 s = .err k l ∧
      l ∈ s.locs := by
  obtain ⟨pre, s, post, st1, h1, h2, h3⟩ := addStmts_err_split env ss st k l h
  exact ⟨pre, s, post, st1, h1, h2, h3, addStmt_err_loc env st1 s k l (hs s (by simp [h1])) h3⟩

/-! ## L4 the driver -/

/-- **L4, one batch** (`get_results` + `add_stmt` for each, src/cli.rs): when the batch ends the run
with a diagnostic, that diagnostic is the error of the first failing statement `s` of the batch, its
class and detail are those of the error, and its position is recorded in `s`. -/
theorem runStmts_err_loc (env : Env) (ls : LoopSt) (r : FileRun) (cls detail : String) (loc : Loc)
    (hs : ∀ s ∈ ls.cfg.stmts, s.startsNil = false)
    (h : runStmts env ls = .error r) (ho : r.outcome = .failure cls detail loc) :
    ∃ pre s post st1 e, ls.cfg.stmts = pre ++ s :: post ∧ addStmts env ls.st pre = .ok st1 ∧
      addStmt env st1 s = .err e loc ∧ cls = e.cls ∧ detail = errDetail e ∧ loc ∈ s.locs := by
  rw [runStmts_eq] at h
  rcases keepResult_cases (addStmtsKeep env ls.st ls.cfg.takeResults.1) with
    ⟨st', _, h2⟩ | ⟨st1, e, loc', h1, h2⟩ | ⟨st1, x, _, h2⟩
  · rw [h2] at h; cases h
  · rw [h2] at h
    simp only [Except.error.injEq] at h
    subst h
    simp only [finish, Outcome.failure.injEq] at ho
    obtain ⟨rfl, rfl, rfl⟩ := ho
    obtain ⟨pre, s, post, hss, hpre, hse⟩ := (addStmtsKeep_err_iff env _ _ _ _ _).1 h1
    exact ⟨pre, s, post, st1, e, hss, hpre, hse, rfl, rfl,
      addStmt_err_loc env st1 s e loc' (hs s (by rw [show ls.cfg.stmts = _ from hss]; simp)) hse⟩
  · rw [h2] at h
    simp only [Except.error.injEq] at h
    subst h
    simp [finish] at ho

/-- **The parser has no production for the empty expression**: every statement `process_file` executes
(`planOf src`: the batches the parser hands over line by line) contains no `Expr.nil` - in particular it
does not start with one, so L2/L3 apply to it without exception. -/
theorem parser_never_builds_nil (src : Bytes) :
    ∀ s ∈ (planOf src).batches.flatten, s.noNil = true ∧ s.startsNil = false := by
  intro s hs
  obtain ⟨b, hb, hsb⟩ := List.mem_flatten.1 hs
  have := (Stmt.Good.spec s (planOf_good src b hb s hsb)).1
  exact ⟨this, Stmt.startsNil_of_noNil s this⟩

/-- **Every position recorded in an executed statement is the position of a token of the file**: of a
token the lexer delivers for one of its lines. -/
theorem statement_positions_are_token_positions (src : Bytes) :
    ∀ s ∈ (planOf src).batches.flatten, ∀ x ∈ s.locs, TokenPos (splitLines src) x := by
  intro s hs
  obtain ⟨b, hb, hsb⟩ := List.mem_flatten.1 hs
  exact (Stmt.Good.spec s (planOf_good src b hb s hsb)).2

/-- a token position is on a line of the file: `1 ≤ line ≤ number of lines` -/
theorem tokenPos_line (lines : List Bytes) (l : Loc) (h : TokenPos lines l) :
    1 ≤ l.line ∧ l.line ≤ lines.length := by
  obtain ⟨i, raw, ln, pending, lo, t, hi, _, hl, ht, rfl⟩ := h
  rw [C10.line_numbers _ _ _ _ hl t ht]
  have : i < lines.length := by
    rcases Nat.lt_or_ge i lines.length with h | h
    · exact h
    · rw [List.getElem?_eq_none h] at hi; cases hi
  omega

/-- **L4, whole file.** Every diagnostic of `process_file` is one of:
(a) a front-end diagnostic (undecodable line, lex error, parse error - `(planOf src).final`);
(b) the failure of the final flush of the output (`Io`, no position);
(c) the error `e` of the first failing statement `s` of the file, every statement before it having been
executed: the diagnostic has the class and detail of `e`, and its position is recorded in `s` - the
position of a token of `s`, on a line of the file. -/
theorem file_failure_located (env : Env) (budget : Option Nat) (src : Bytes) (cls detail : String) (loc : Loc)
    (h : (processFile env budget src).outcome = .failure cls detail loc) :
    (planOf src).final = some (.failure cls detail loc) ∨
    (cls = "Io" ∧ detail = "" ∧ loc = Loc.nil) ∨
    ∃ pre s post st1 e, (planOf src).batches.flatten = pre ++ s :: post ∧
      addStmts env (st0 budget) pre = .ok st1 ∧ addStmt env st1 s = .err e loc ∧
      cls = e.cls ∧ detail = errDetail e ∧ loc ∈ s.locs ∧
      (∀ x ∈ s.locs, TokenPos (splitLines src) x) ∧
      1 ≤ loc.line ∧ loc.line ≤ (splitLines src).length := by
  rw [processFile_eq] at h
  unfold execPlan execFrom at h
  have hb := runBatches_addStmts env (planOf src).batches (st0 budget)
  cases ha : addStmts env (st0 budget) (planOf src).batches.flatten with
  | ok st' =>
    rw [ha] at hb
    simp only [hb] at h
    cases hf : (planOf src).final with
    | some o =>
      simp only [hf, finish] at h
      exact .inl (by rw [h])
    | none =>
      simp only [hf] at h
      split at h
      · simp [finish] at h
      · simp only [finish, Outcome.failure.injEq] at h
        exact .inr (.inl ⟨h.1.symm, h.2.1.symm, h.2.2.symm⟩)
  | err e loc' =>
    rw [ha] at hb
    obtain ⟨pre, s, post, st1, h1, h2, h3, h4⟩ := hb
    simp only [h4, finish, Outcome.failure.injEq] at h
    obtain ⟨rfl, rfl, rfl⟩ := h
    have hmem : s ∈ (planOf src).batches.flatten := by rw [h1]; simp
    have hloc := addStmt_err_loc env st1 s e loc' (parser_never_builds_nil src s hmem).2 h3
    have htok := statement_positions_are_token_positions src s hmem
    exact .inr (.inr ⟨pre, s, post, st1, e, h1, h2, h3, rfl, rfl, hloc, htok,
      tokenPos_line _ _ (htok _ hloc)⟩)
  | panic x =>
    rw [ha] at hb
    obtain ⟨pre, s, post, st1, h1, h2, h3, h4⟩ := hb
    simp [h4, finish] at h

/-- **L4, by error class.** A diagnostic of any class other than `Io`, `Lex`, `Parse` (that is: `Import`,
`Name`, `Type`, `Runtime`, `MultipleAssign`, `Memory`) is the error of the first failing statement of the
file and points into that statement. -/
theorem file_execution_error_located (env : Env) (budget : Option Nat) (src : Bytes) (cls detail : String)
    (loc : Loc) (h : (processFile env budget src).outcome = .failure cls detail loc)
    (hc : cls ∉ ["Io", "Lex", "Parse"]) :
    ∃ pre s post st1 e, (planOf src).batches.flatten = pre ++ s :: post ∧
      addStmts env (st0 budget) pre = .ok st1 ∧ addStmt env st1 s = .err e loc ∧
      cls = e.cls ∧ detail = errDetail e ∧ loc ∈ s.locs ∧
      (∀ x ∈ s.locs, TokenPos (splitLines src) x) ∧
      1 ≤ loc.line ∧ loc.line ≤ (splitLines src).length := by
  simp only [List.mem_cons, List.not_mem_nil, or_false, not_or] at hc
  rcases file_failure_located env budget src cls detail loc h with hf | ⟨rfl, _⟩ | h3
  · rcases planOf_final_cls src _ hf with (h' | ⟨l, h' | h'⟩) | ⟨x, h'⟩
    · cases h'; exact absurd rfl hc.1
    · cases h'; exact absurd rfl hc.2.1
    · cases h'; exact absurd rfl hc.2.2
    · cases h'
  · exact absurd rfl hc.1
  · exact h3

/-- a write error (`Io`) WITH a position is an execution error, too: the front end and the final flush
report `Io` without one -/
theorem file_io_error_located (env : Env) (budget : Option Nat) (src : Bytes) (detail : String)
    (loc : Loc) (h : (processFile env budget src).outcome = .failure "Io" detail loc) (hl : loc ≠ Loc.nil) :
    ∃ s ∈ (planOf src).batches.flatten, loc ∈ s.locs := by
  rcases file_failure_located env budget src _ detail loc h with hf | ⟨_, _, rfl⟩ | ⟨pre, s, post, _, _, h1, _, _, _, _, h2, _⟩
  · exfalso
    rcases planOf_final_cls src _ hf with (h' | ⟨l, h' | h'⟩) | ⟨x, h'⟩
    · cases h'; exact hl rfl
    · simp at h'
    · simp at h'
    · cases h'
  · exact absurd rfl hl
  · exact ⟨s, by rw [h1]; simp, h2⟩

/-! ## L5 "a line within that statement": the statement's own tokens -/

/-- **The `k`-th executed statement is built from the `k`-th `;`-terminated group of tokens of the file.**
Every position recorded in the `k`-th statement `process_file` executes (0-based, over the whole run) is
the position of a token of the file's token stream `fileToks src` that has exactly `k` tokens `;` before
it - a token after the `;` of statement `k - 1` and up to the `;` of statement `k`. -/
theorem statement_token_group (src : Bytes) (k : Nat) (s : Stmt)
    (h : (planOf src).batches.flatten[k]? = some s) : ∀ x ∈ s.locs, InGroup (fileToks src) k x :=
  (Stmt.Good.spec s (planOf_group src k s h)).2

/-- **L5.** An execution error (any class other than `Io`, `Lex`, `Parse`) of the `k`-th statement of
the file is reported at the position of one of the statement's own tokens (group `k` of the token stream);
its LINE lies between the line of every `;` that ends an earlier statement and the line of the `;` that
ends this statement. -/
theorem file_execution_error_within_statement (env : Env) (budget : Option Nat) (src : Bytes)
    (cls detail : String) (loc : Loc) (h : (processFile env budget src).outcome = .failure cls detail loc)
    (hc : cls ∉ ["Io", "Lex", "Parse"]) :
    ∃ k s, (planOf src).batches.flatten[k]? = some s ∧ loc ∈ s.locs ∧ InGroup (fileToks src) k loc ∧
      (∀ (j : Nat) (t : Tok), (fileToks src)[j]? = some t → t.kind = .semi →
        semis ((fileToks src).take j) < k → t.loc.line ≤ loc.line) ∧
      (∀ (j : Nat) (t : Tok), (fileToks src)[j]? = some t → t.kind = .semi →
        semis ((fileToks src).take j) = k → loc.line ≤ t.loc.line) := by
  obtain ⟨pre, s, post, _, _, h1, _, _, _, _, h2, _⟩ :=
    file_execution_error_located env budget src cls detail loc h hc
  have hk : (planOf src).batches.flatten[pre.length]? = some s := by rw [h1]; simp
  have hg := statement_token_group src pre.length s hk loc h2
  exact ⟨pre.length, s, hk, h2, hg, inGroup_lines src pre.length loc hg⟩

/-! ## non-vacuity -/

/-- the error of a result, if it is one (`Res` of a state has no decidable equality) -/
private def errOf {α} : Res α → Option (ErrKind × Loc)
  | .err k l => some (k, l)
  | _ => none

private theorem errOf_eq {α} {r : Res α} {k : ErrKind} {l : Loc} (h : errOf r = some (k, l)) : r = .err k l := by
  cases r <;> simp [errOf] at h
  obtain ⟨rfl, rfl⟩ := h; rfl

/-- `undef;` at 3:7 - a `Name` error, reported at 3:7 -/
private def s1 : Stmt := .expr (.ref ⟨⟨3, 7⟩, [], ["undef"]⟩)

example : addStmt default default s1 = .err .name ⟨3, 7⟩ := errOf_eq (by decide)
example : s1.startsNil = false ∧ s1.locs = [⟨3, 7⟩] := by decide

/-- so L2 applies to it (and says what was just computed) -/
example : (⟨3, 7⟩ : Loc) ∈ s1.locs :=
  addStmt_err_loc default default s1 .name ⟨3, 7⟩ rfl (errOf_eq (by decide))

/-- a statement over two lines, ```
let x =
  undef;
``` fails with a `Name` error whose position is on its SECOND line (2:3) - a position recorded in the
statement, as L2 says -/
private def s2 : Stmt := .assign ⟨1, 5⟩ "x" (.ref ⟨⟨2, 3⟩, [], ["undef"]⟩)

example : addStmt default default s2 = .err .name ⟨2, 3⟩ := errOf_eq (by decide)
example : s2.locs = [⟨1, 5⟩, ⟨2, 3⟩] := by decide

/-- ... and in a list: the first failing statement decides (L3): `s2` fails, `s1` is never reached -/
example : addStmts default default [s2, s1] = .err .name ⟨2, 3⟩ := errOf_eq (by decide)
example : ∀ s ∈ [s2, s1], s.startsNil = false := by decide

/-- the same through the whole driver, from the bytes of the file: lexer, parser, interpreter.  The
diagnostic is `Name` at 2:3; `file_execution_error_located` applies (`"Name"` is an execution class). -/
private def src2 : Bytes := "let x =\n  undef;\n".toUTF8.toList

example : (processFile default none src2).outcome = .failure "Name" "" ⟨2, 3⟩ := by
  rw [processFile_eq]; decide +kernel

example : ∃ s ∈ (planOf src2).batches.flatten, (⟨2, 3⟩ : Loc) ∈ s.locs := by
  obtain ⟨pre, s, post, _, _, h1, _, _, _, _, h2, _⟩ :=
    file_execution_error_located default none src2 "Name" "" ⟨2, 3⟩
      (by rw [processFile_eq]; decide +kernel) (by decide)
  exact ⟨s, by rw [h1]; simp, h2⟩

/-- the token stream of that file, and the group of each token: all five tokens belong to statement 0;
the failing position 2:3 is the position of `undef`, between the start of the file and the `;` at 2:8 -/
example : (fileToks src2).map (fun t => (t.kind, t.loc)) =
    [(.kwLet, ⟨1, 1⟩), (.ident, ⟨1, 5⟩), (.equals, ⟨1, 7⟩), (.ident, ⟨2, 3⟩), (.semi, ⟨2, 8⟩)] := by
  decide +kernel

/-- **the exception, concretely** (a tree the parser cannot build): the expression statement `nil / 1`
with `1` at 2:1, executed when the register holds 1:1 (say, from the previous statement), reports its
type error at 1:1 - not a position of the statement -/
private def sBad : Stmt := .expr (.slash .nil (.lit ⟨2, 1⟩ (.u64 1)))

example : addStmt default { loc := ⟨1, 1⟩ } sBad = .err .type_ ⟨1, 1⟩ := errOf_eq (by decide)
example : sBad.startsNil = true ∧ sBad.locs = [⟨2, 1⟩] ∧ sBad.noNil = false := by decide

end Resynth.C08Loc
