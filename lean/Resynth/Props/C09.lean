import Resynth.Lemmas.LREquiv
/-!
# C09 — the parser accepts exactly the language of the grammar and builds its syntax trees
-/
namespace Resynth.C09
open Resynth.LR Resynth.Spec

/-- configurations the command line driver can reach: it starts from `Parser::default()`, feeds
tokens (stopping at the first error) and calls `get_results` at arbitrary points -/
inductive Reachable : Cfg → Prop
  | init : Reachable Cfg.init
  | feed {c t c'} : Reachable c → feed c t = .ok c' → Reachable c'
  | take {c} : Reachable c → Reachable c.takeResults.2

theorem Reachable.inv {c} (h : Reachable c) : Inv c.state c.stack := by
  induction h with
  | init => exact Inv_init
  | @feed c t c' _ hf ih => have := feed_inv c t ih; rw [hf] at this; exact this
  | take _ ih => exact ih

/-- **1.** No `feed` on a reachable parser ever panics (no `unreachable!()`, no `unwrap()` on an
empty stack) and the `Goto` loop always terminates within its budget. -/
theorem parser_no_panic {c : Cfg} (h : Reachable c) (t : Tok) : feed c t ≠ .panic := by
  have := feed_inv c t h.inv
  intro hp; rw [hp] at this; exact this

/-- whole runs never panic either -/
theorem parseAll_no_panic (toks : List Tok) (i : Nat) : parseAll toks ≠ .panic i := by
  have := feedList_inv Cfg.init 0 (toks ++ [LR.eofTok]) Inv_init
  unfold parseAll
  cases h : feedList Cfg.init 0 (toks ++ [LR.eofTok]) <;> simp_all [RunOk]

/-- the reference parser's result as an outcome of the implementation -/
def specOutcome (toks : List Tok) : Outcome :=
  match Spec.parse toks with
  | .ok ss => .ok ss
  | .error i => .parseError i

/-- **2.** For every token sequence (fed, as by the command line driver, followed by `EOF`) the
automaton and the recursive-descent reference parser agree: same accept/reject, the same
statements (same trees), the same index of the offending token. -/
theorem lr_eq_spec (toks : List Tok) : parseAll toks = specOutcome toks := by
  have h := feedList_sim Cfg.init 0 toks LR.eofTok rfl Inv_init
  unfold parseAll specOutcome Spec.parse
  have he : Spec.eofTok = LR.eofTok := rfl
  rw [he, ← resume_init]
  cases hr : feedList Cfg.init 0 (toks ++ [LR.eofTok]) with
  | done c => simp only [hr, RunSim] at h; simp [h, Cfg.takeResults]
  | parseError j =>
    simp only [hr, RunSim] at h
    obtain ⟨_, h2, h3⟩ := h
    simp at h2
    simp [h3]; omega
  | panic j => simp [hr, RunSim] at h

end Resynth.C09
