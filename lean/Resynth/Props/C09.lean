import Resynth.Lemmas.LREquiv
import Resynth.Lemmas.LRSplit
import Resynth.Lemmas.LRGrammarComplete
import Resynth.Lemmas.LRViable
/-!
# C09 — the parser accepts exactly the language of the grammar and builds its syntax trees

"The parser accepts exactly the token sequences of the language grammar […] and for each accepted
statement produces the syntax tree the grammar assigns to it […].  Every other token sequence is
rejected with a parse error, raised at the first token that cannot continue any sentence of the
grammar — never accepted, mis-parsed or crashed on — regardless of how the tokens are split across
lines."

* `Model/LR.lean` — the automaton of `src/parse.rs` (with the two `fix:` commits C09 `f(name:)`
  and C17 `ip:port > 65535` applied), `parseAll` / `parseLines` = the loops of `cli.rs`.
* `Spec/Grammar.lean` — the grammar: recursive-descent `Spec.parse` and derivation relation
  `Spec.Program`.

Source positions: `Spec.parse` reproduces the positions the automaton attaches (including the
position of the FOLLOWING token for a reference that begins an unnamed argument), so theorem 2 is a
plain equality.  The derivation relation leaves the position of references open; theorem 3 compares
trees through `Spec.eraseRefLoc` there.
-/
namespace Resynth.C09
open Resynth.LR Resynth.Spec

/-- configurations the command line driver can reach: it starts from `Parser::default()`, feeds
tokens (stopping at the first error) and calls `get_results` at arbitrary points -/
inductive Reachable : Cfg → Prop
  | init : Reachable Cfg.init
  | feed {c t c'} : Reachable c → feed c t = .ok c' → Reachable c'
  | take {c} : Reachable c → Reachable c.takeResults.2

theorem Reachable.inv {c} (h : Reachable c) : Inv c.state c.stack := by
  induction h with
  | init => exact Inv_init
  | @feed c t c' _ hf ih => have := feed_inv c t ih; rw [hf] at this; exact this
  | take _ ih => exact ih

/-- **1.** No `feed` on a reachable parser ever panics: no `unreachable!()` is hit, no `unwrap()`
pops an empty stack, and the `Goto` loop always terminates within its budget
(`stack.length + 16` iterations; the potential `stack.length + rank state` decreases). -/
theorem parser_no_panic {c : Cfg} (h : Reachable c) (t : Tok) : feed c t ≠ .panic := by
  have := feed_inv c t h.inv
  intro hp; rw [hp] at this; exact this

/-- whole runs never panic either (all tokens at once, or line by line) -/
theorem parseAll_no_panic (toks : List Tok) (i : Nat) : parseAll toks ≠ .panic i := by
  have := feedList_inv Cfg.init 0 (toks ++ [LR.eofTok]) Inv_init
  unfold parseAll
  cases h : feedList Cfg.init 0 (toks ++ [LR.eofTok]) <;> simp_all [RunOk]

theorem parseLines_no_panic (lines : List (List Tok)) (i : Nat) : parseLines lines ≠ .panic i := by
  rw [parseLines_eq_parseAll]; exact parseAll_no_panic _ i

/-- the reference parser's result as an outcome of the implementation -/
def specOutcome (toks : List Tok) : Outcome :=
  match Spec.parse toks with
  | .ok ss => .ok ss
  | .error i => .parseError i

/-- **2.** For every token sequence (fed, as by the command line driver, followed by `EOF`) the
automaton and the recursive-descent reference parser agree: same accept/reject, the same
statement list (same trees, same source positions), the same index of the offending token. -/
theorem lr_eq_spec (toks : List Tok) : parseAll toks = specOutcome toks := by
  have h := feedList_sim Cfg.init 0 toks LR.eofTok rfl Inv_init
  unfold parseAll specOutcome Spec.parse
  have he : Spec.eofTok = LR.eofTok := rfl
  rw [he, ← resume_init]
  cases hr : feedList Cfg.init 0 (toks ++ [LR.eofTok]) with
  | done c => simp only [hr, RunSim] at h; simp [h, Cfg.takeResults]
  | parseError j =>
    simp only [hr, RunSim] at h
    obtain ⟨_, h2, h3⟩ := h
    simp at h2
    simp [h3]; omega
  | panic j => simp [hr, RunSim] at h

theorem parseAll_ok_iff (toks : List Tok) (ss : List Stmt) :
    parseAll toks = .ok ss ↔ Spec.parse toks = .ok ss := by
  rw [lr_eq_spec, specOutcome]; cases Spec.parse toks <;> simp

theorem parseAll_error_iff (toks : List Tok) (i : Nat) :
    parseAll toks = .parseError i ↔ Spec.parse toks = .error i := by
  rw [lr_eq_spec, specOutcome]; cases Spec.parse toks <;> simp

/-- **3.** The recursive-descent parser and the derivation relation define the same language and
the same trees: whatever `Spec.parse` accepts is a derivation of `program` with exactly the
returned trees; every derivation of `program` is accepted, with the derived trees up to the
source positions of references. -/
theorem spec_sound_complete (toks : List Tok) :
    (∀ ss, Spec.parse toks = .ok ss → Program (toks ++ [Spec.eofTok]) ss) ∧
    (∀ ss, Program (toks ++ [Spec.eofTok]) ss →
      ∃ ss', Spec.parse toks = .ok ss' ∧ ss'.map eraseRefLoc = ss.map eraseRefLoc) := by
  constructor
  · intro ss h
    unfold Spec.parse at h
    cases hp : sProgram [] (toks ++ [Spec.eofTok]) with
    | error n => simp [hp] at h
    | ok ss0 =>
      simp [hp] at h; subst h
      obtain ⟨ss', e, hprog⟩ := sProgram_sound hp
      simpa [e] using hprog
  · intro ss h
    obtain ⟨ss', h1, h2⟩ := complete_program h []
    exact ⟨ss', by simp [Spec.parse, h1], h2⟩

/-- the language accepted by the implementation is the language of the grammar -/
theorem accepts_iff_sentence (toks : List Tok) :
    (∃ ss, parseAll toks = .ok ss) ↔ (∃ ss, Program (toks ++ [Spec.eofTok]) ss) := by
  constructor
  · rintro ⟨ss, h⟩; exact ⟨ss, (spec_sound_complete toks).1 ss ((parseAll_ok_iff _ _).1 h)⟩
  · rintro ⟨ss, h⟩
    obtain ⟨ss', h1, _⟩ := (spec_sound_complete toks).2 ss h
    exact ⟨ss', (parseAll_ok_iff _ _).2 h1⟩

/-- **4.** A parse error is raised exactly at the end of a viable prefix: with
`fed = toks ++ [EOF]` the sequence fed to the parser and `i` the reported index, the tokens
`fed[0..i)` can be completed to a sentence of the grammar (by `LR.completion` of the
configuration reached), while no sentence begins with `fed[0..i]`. -/
theorem viable_prefix (toks : List Tok) (i : Nat) (h : parseAll toks = .parseError i) :
    (∃ suffix ss, Program ((toks ++ [LR.eofTok]).take i ++ suffix) ss) ∧
    (∀ rest ss, ¬ Program ((toks ++ [LR.eofTok]).take (i + 1) ++ rest) ss) := by
  apply viable_of_error
  unfold parseAll at h
  cases hr : feedList Cfg.init 0 (toks ++ [LR.eofTok]) <;> simp_all

/-- **5.** Feeding the tokens line by line with `get_results` after every line (as `cli.rs`
does), for ANY division of the token sequence into lines, gives the same concatenated statement
list and the same error position as feeding them all at once. -/
theorem split_invariant (lines : List (List Tok)) : parseLines lines = parseAll lines.flatten :=
  parseLines_eq_parseAll lines

/-! ## Non-vacuity: the statements of `examples/calls.rsyn` -/

private def t (col : Nat) (k : TokKind) (s : String := "") : Tok := ⟨k, s, ⟨1, col⟩⟩

/-- `nested(another::arg(), 1.2.3.4);` -/
private def nested : List Tok :=
  [t 1 .ident "nested", t 7 .lparen, t 8 .ident "another", t 15 .dcolon, t 17 .ident "arg", t 20 .lparen,
   t 21 .rparen, t 22 .comma, t 24 .ipv4Lit "1.2.3.4", t 31 .rparen, t 32 .semi]

private def nestedTree : List Stmt :=
  [.expr (.call ⟨⟨1, 1⟩, [], ["nested"]⟩
    (.cons none (.call ⟨⟨1, 15⟩, ["another"], ["arg"]⟩ .nil)
    (.cons none (.lit ⟨1, 24⟩ (.ip4 0x01020304)) .nil)))]

example : parseAll nested = .ok nestedTree := by rfl
example : Spec.parse nested = .ok nestedTree := (parseAll_ok_iff _ _).1 (by rfl)
example : Program (nested ++ [Spec.eofTok]) nestedTree :=
  (spec_sound_complete nested).1 _ ((parseAll_ok_iff _ _).1 (by rfl))

/-- `func(123, "", 1.1.1.1, 8.8.8.8:53,);` (trailing comma, socket literal) and
`with_refs(obj.prop, name: 123) / x;`, on three lines -/
private def multi : List (List Tok) :=
  [[t 1 .ident "func", t 5 .lparen, t 6 .intLit "123", t 9 .comma, t 11 .strLit "", t 13 .comma],
   [t 1 .ipv4Lit "1.1.1.1", t 8 .comma, t 10 .ipv4Lit "8.8.8.8", t 17 .colon, t 18 .intLit "53",
    t 20 .comma, t 21 .rparen, t 22 .semi, t 24 .ident "with_refs", t 33 .lparen, t 34 .ident "obj"],
   [t 1 .dot, t 2 .ident "prop", t 6 .comma, t 8 .ident "name", t 12 .colon, t 14 .intLit "123",
    t 17 .rparen, t 19 .slash, t 21 .ident "x", t 22 .semi]]

example : parseLines multi = .ok
    [.expr (.call ⟨⟨1, 1⟩, [], ["func"]⟩
      (.cons none (.lit ⟨1, 6⟩ (.u64 123)) (.cons none (.lit ⟨1, 11⟩ (.str []))
      (.cons none (.lit ⟨1, 1⟩ (.ip4 0x01010101))
      (.cons none (.lit ⟨1, 10⟩ (.sock4 0x08080808 53)) .nil))))),
     .expr (.slash
      (.call ⟨⟨1, 24⟩, [], ["with_refs"]⟩
        (.cons none (.ref ⟨⟨1, 1⟩, [], ["obj", "prop"]⟩)
        (.cons (some "name") (.lit ⟨1, 14⟩ (.u64 123)) .nil)))
      (.ref ⟨⟨1, 21⟩, [], ["x"]⟩))] := by rfl
example : parseLines multi = parseAll multi.flatten := split_invariant multi

/-- `import m; let v = a / b / c;` — `/` nests to the right -/
example : parseAll [t 1 .kwImport, t 8 .ident "m", t 9 .semi, t 11 .kwLet, t 15 .ident "v", t 17 .equals,
      t 19 .ident "a", t 21 .slash, t 23 .ident "b", t 25 .slash, t 27 .ident "c", t 28 .semi] = .ok
    [.imp ⟨1, 8⟩ "m",
     .assign ⟨1, 15⟩ "v" (.slash (.ref ⟨⟨1, 19⟩, [], ["a"]⟩)
       (.slash (.ref ⟨⟨1, 23⟩, [], ["b"]⟩) (.ref ⟨⟨1, 27⟩, [], ["c"]⟩)))] := by rfl

/-- `f(name:)` is rejected at the `)` (FIX(C09)); the prefix `f(name:` is viable -/
private def namedNoValue : List Tok :=
  [t 1 .ident "f", t 2 .lparen, t 3 .ident "name", t 7 .colon, t 8 .rparen, t 9 .semi]
example : parseAll namedNoValue = .parseError 4 := by rfl
example : Spec.parse namedNoValue = .error 4 := (parseAll_error_iff _ _).1 (by rfl)
example : (∃ suffix ss, Program ((namedNoValue ++ [LR.eofTok]).take 4 ++ suffix) ss) ∧
    (∀ rest ss, ¬ Program ((namedNoValue ++ [LR.eofTok]).take 5 ++ rest) ss) :=
  viable_prefix namedNoValue 4 (by rfl)

/-- further rejections: `f(,)`, `f(a,,)`, `x.y::z;`, an expression statement beginning with a
literal, a port that does not fit 16 bits (FIX(C17)), a missing `;` at the end of the input -/
example : parseAll [t 1 .ident "f", t 2 .lparen, t 3 .comma, t 4 .rparen, t 5 .semi] = .parseError 2 := by rfl
example : parseAll [t 1 .ident "f", t 2 .lparen, t 3 .ident "a", t 4 .comma, t 5 .comma, t 6 .rparen,
    t 7 .semi] = .parseError 4 := by rfl
example : parseAll [t 1 .ident "x", t 2 .dot, t 3 .ident "y", t 4 .dcolon, t 6 .ident "z", t 7 .semi]
    = .parseError 3 := by rfl
example : parseAll [t 1 .ipv4Lit "1.2.3.4", t 8 .semi] = .parseError 0 := by rfl
example : parseAll [t 1 .ident "f", t 2 .lparen, t 3 .ipv4Lit "1.2.3.4", t 10 .colon, t 11 .intLit "65536",
    t 16 .rparen, t 17 .semi] = .parseError 4 := by rfl
example : parseAll [t 1 .ident "f", t 2 .lparen, t 3 .rparen] = .parseError 3 := by rfl

/-- a configuration in the middle of a statement (after `f(`) is reachable, and feeding it a
token neither panics nor gets stuck: theorem 1 is not vacuous -/
example : Reachable ⟨.reduceRefCall, [.comp "f", .path ⟨⟨1, 1⟩, [], []⟩, .st .exprStmtEnd], []⟩ :=
  have h1 : Reachable ⟨.refComponent, [.comp "f", .path ⟨⟨1, 1⟩, [], []⟩, .st .exprStmtEnd], []⟩ :=
    .feed (t := t 1 .ident "f") .init (by rfl)
  .feed (t := t 2 .lparen) h1 (by rfl)

end Resynth.C09
