import Resynth.Props.C11
import Resynth.Gen.Stdlib
/-!
# C11 (generated part): every function of the real library table has a well-formed signature

Only this file depends on `Resynth.Gen.Stdlib`, which is regenerated from /repo on every run.
-/
namespace Resynth.C11

/-- a table entry's signature is well formed (non-functions: nothing to check) -/
def entryWf (e : String × Sym) : Bool :=
  match e.2 with
  | .func f => Spec.wf f
  | _ => true

/-- every function and method of the library declares its mandatory parameters first and uses
distinct parameter names, so `arg_pos` is the index and `min_args` counts a prefix -/
theorem all_library_wf : ∀ e ∈ Gen.table, match e.2 with | .func f => Spec.wf f = true | _ => True := by
  have h : Gen.table.all entryWf = true := by decide +kernel
  intro e he
  have := List.all_eq_true.mp h e he
  unfold entryWf at this
  split <;> simp_all

/-- the table is not trivially free of functions -/
example : (Gen.table.filter fun e => match e.2 with | .func _ => true | _ => false).length ≥ 80 := by
  decide +kernel

/-- is `f` the signature the real library registers under `path`? -/
def isLibSig (path : String) (f : FuncDef) : Bool :=
  match Gen.lib.get path with
  | some (.func g) => g == f
  | _ => false

/-- the literal signatures used in the examples of `Props/C11.lean` are the real ones -/
theorem example_sigs_are_real :
    isLibSig "ipv4::tcp::flow" sigTcpFlow = true ∧ isLibSig "text::concat" sigConcat = true
    ∧ isLibSig "dns::host" sigDnsHost = true
    ∧ isLibSig "ipv4::tcp::TcpFlow.client_message" sigClientMessage = true := by decide +kernel

/-- hence, for every function of the library and every call, `argvec` is the calling convention -/
theorem library_calls_bind_by_convention (path : String) (f : FuncDef)
    (h : (path, Sym.func f) ∈ Gen.table) (call : List ArgSpec) :
    Bind.argvec f call ≃ Spec.bind f (Bind.toCall call) :=
  argvec_eq_spec f (all_library_wf _ h) call

end Resynth.C11
