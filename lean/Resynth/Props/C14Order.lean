import Resynth.Lemmas.InterpBasic
import Resynth.Props.C14
/-!
# C14 (evaluation order seen through faults) — the first faulty operand in source order decides

Model: `eval`, `evalArgs` of `Model/Interp.lean` (src/program.rs `Program::eval`, `eval_args`).

"Statements take effect strictly top to bottom and call arguments are evaluated left to right exactly
once."  A consequence that is observable even when nothing is emitted: evaluation stops at the FIRST
operand (in source order) that fails, so whatever stands to the right of it - well-formed or faulty in
its own way - cannot change the diagnostic.  For an arbitrary environment, state and expressions:

* O1 `slash_left_fault`, `slash_left_not_address` — in `a / b` a fault of `a` (or `a` not being an
  address) is the outcome, for every `b`;
* O2 `slash_right_fault` — a fault of `b` is the outcome only once `a` has been evaluated to an address,
  and then it is `b`'s fault evaluated in the state `a` left;
* O3 `args_head_fault`, `args_first_fault` — in an argument list the first failing argument decides,
  whatever follows it; `args_right_irrelevant` states it as an equation between two lists;
* O4 `call_args_fault` — the same through a call: the callee is not even looked up in the library
  (`funcOf`) nor run when an argument fails.
-/
namespace Resynth.C14Order
open Sem

/-- an evaluation that did not succeed, as a result of any other type -/
def Res.castFail {α β} : Res α → Res β
  | .ok _ => .panic "castFail of a success"
  | .err e l => .err e l
  | .panic s => .panic s

def Res.failed {α} : Res α → Prop
  | .ok _ => False
  | _ => True

instance {α} (r : Res α) : Decidable (Res.failed r) := by
  cases r <;> simp only [Res.failed] <;> infer_instance

/-! ## O1/O2 the operands of `/` -/

/-- O1: if the left operand fails, `a / b` fails in exactly that way, whatever `b` is -/
theorem slash_left_fault (env : Env) (st : PState) (a b : Expr) (h : Res.failed (eval env st a)) :
    eval env st (.slash a b) = Res.castFail (eval env st a) := by
  rw [eval]
  cases hr : eval env st a with
  | ok r => rw [hr] at h; exact absurd h (by simp [Res.failed])
  | err e l => rfl
  | panic s => rfl

/-- O1, as an equation between two programs: what stands to the right of a faulty left operand is
never looked at -/
theorem slash_right_irrelevant (env : Env) (st : PState) (a b b' : Expr) (h : Res.failed (eval env st a)) :
    eval env st (.slash a b) = eval env st (.slash a b') := by
  rw [slash_left_fault env st a b h, slash_left_fault env st a b' h]

/-- O1: a left operand that evaluates to something other than an address is a type error at ITS
position, whatever `b` is (`b` is not evaluated) -/
theorem slash_left_not_address (env : Env) (st st1 : PState) (a b : Expr) (av : Val)
    (ha : eval env st a = .ok (av, st1)) (hty : av.valType ≠ .ip4) :
    eval env st (.slash a b) = .err .type_ st1.loc := by
  rw [eval, ha]
  simp [hty]

/-- O2: once the left operand is an address, a fault of the right operand is the outcome - evaluated
in the state the left operand left behind -/
theorem slash_right_fault (env : Env) (st st1 : PState) (a b : Expr) (av : Val)
    (ha : eval env st a = .ok (av, st1)) (hty : av.valType = .ip4) (hb : Res.failed (eval env st1 b)) :
    eval env st (.slash a b) = Res.castFail (eval env st1 b) := by
  rw [eval, ha]
  simp only [Res.ok_bind, hty, bne_self_eq_false, Bool.false_eq_true, ↓reduceIte]
  cases hr : eval env st1 b with
  | ok r => rw [hr] at hb; exact absurd hb (by simp [Res.failed])
  | err e l => rfl
  | panic s => rfl

/-! ## O3 argument lists -/

/-- a fault of the first argument is the outcome, whatever follows -/
theorem args_head_fault (env : Env) (st : PState) (n : Option String) (e : Expr) (rest : Args)
    (h : Res.failed (eval env st e)) :
    evalArgs env st (.cons n e rest) = Res.castFail (eval env st e) := by
  rw [evalArgs]
  cases hr : eval env st e with
  | ok r => rw [hr] at h; exact absurd h (by simp [Res.failed])
  | err e l => rfl
  | panic s => rfl

/-- a successful first argument hands its state to the rest -/
theorem args_head_ok (env : Env) (st st1 : PState) (n : Option String) (e : Expr) (rest : Args) (v : Val)
    (h : eval env st e = .ok (v, st1)) :
    evalArgs env st (.cons n e rest) =
      (match evalArgs env st1 rest with
       | .ok (vs, st2) => .ok (⟨n, v⟩ :: vs, st2)
       | .err er l => .err er l
       | .panic s => .panic s) := by
  rw [evalArgs, h]
  simp only [Res.ok_bind]
  cases evalArgs env st1 rest with
  | ok r => rfl
  | err e l => rfl
  | panic s => rfl

/-- arguments written before the faulty one -/
def prepend : List (Option String × Expr) → Args → Args
  | [], a => a
  | (n, e) :: more, a => .cons n e (prepend more a)

/-- O3: the arguments before the faulty one evaluate (left to right, threading the state); the faulty
one decides; nothing after it matters -/
theorem args_first_fault (env : Env) :
    ∀ (pre : List (Option String × Expr)) (st st1 : PState) (vs : List ArgSpec) (n : Option String) (e : Expr) (rest : Args),
      evalArgs env st (prepend pre .nil) = .ok (vs, st1) →
      Res.failed (eval env st1 e) →
      evalArgs env st (prepend pre (.cons n e rest)) = Res.castFail (eval env st1 e) := by
  intro pre
  induction pre with
  | nil =>
    intro st st1 vs n e rest h0 hf
    simp only [prepend, evalArgs] at h0
    cases h0
    exact args_head_fault env st n e rest hf
  | cons p more ih =>
    intro st st1 vs n e rest h0 hf
    obtain ⟨pn, pe⟩ := p
    simp only [prepend] at h0 ⊢
    cases hp : eval env st pe with
    | err er l => rw [evalArgs, hp] at h0; cases h0
    | panic s => rw [evalArgs, hp] at h0; cases h0
    | ok r =>
      obtain ⟨pv, stp⟩ := r
      rw [args_head_ok env st stp pn pe _ pv hp] at h0 ⊢
      cases hm : evalArgs env stp (prepend more .nil) with
      | err er l => rw [hm] at h0; cases h0
      | panic s => rw [hm] at h0; cases h0
      | ok r2 =>
        obtain ⟨vs2, st2⟩ := r2
        rw [hm] at h0
        cases h0
        rw [ih stp st1 vs2 n e rest hm hf]
        cases hr : eval env st1 e with
        | ok r => rw [hr] at hf; exact absurd hf (by simp [Res.failed])
        | err er l => rfl
        | panic s => rfl

/-- O3 as an equation: two argument lists that agree up to and including a faulty argument have the same
outcome -/
theorem args_right_irrelevant (env : Env) (pre : List (Option String × Expr)) (st st1 : PState) (vs : List ArgSpec)
    (n : Option String) (e : Expr) (rest rest' : Args)
    (h0 : evalArgs env st (prepend pre .nil) = .ok (vs, st1)) (hf : Res.failed (eval env st1 e)) :
    evalArgs env st (prepend pre (.cons n e rest)) = evalArgs env st (prepend pre (.cons n e rest')) := by
  rw [args_first_fault env pre st st1 vs n e rest h0 hf, args_first_fault env pre st st1 vs n e rest' h0 hf]

/-! ## O4 through a call -/

/-- a failing argument list is the outcome of the call: the function is not run -/
theorem call_args_fault (env : Env) (st : PState) (o : ObjRef) (args : Args) (path : String)
    (hc : evalObjRef env { st with loc := o.loc } o = .ok (.func path))
    (hf : Res.failed (evalArgs env { st with loc := o.loc } args)) :
    eval env st (.call o args) = Res.castFail (evalArgs env { st with loc := o.loc } args) := by
  rw [eval]
  simp only [hc, Res.ok_bind]
  cases hr : evalArgs env { st with loc := o.loc } args with
  | ok r => rw [hr] at hf; exact absurd hf (by simp [Res.failed])
  | err e l => rfl
  | panic s => rfl

/-- the same for a method call -/
theorem method_args_fault (env : Env) (st : PState) (o : ObjRef) (args : Args) (id : Nat) (cls path : String)
    (hc : evalObjRef env { st with loc := o.loc } o = .ok (.method id cls path))
    (hf : Res.failed (evalArgs env { st with loc := o.loc } args)) :
    eval env st (.call o args) = Res.castFail (evalArgs env { st with loc := o.loc } args) := by
  rw [eval]
  simp only [hc, Res.ok_bind]
  cases hr : evalArgs env { st with loc := o.loc } args with
  | ok r => rw [hr] at hf; exact absurd hf (by simp [Res.failed])
  | err e l => rfl
  | panic s => rfl

/-! ## the premises are satisfiable: `undef_a / undef_b` in the empty program -/

example : Res.failed (eval default default (.ref ⟨⟨1, 1⟩, [], ["undef_a"]⟩)) := by
  decide

/-- ... and the instance the campaign runs (`undef_a / undef_b` against `undef_a / 80`) -/
example :
    eval default default (.slash (.ref ⟨⟨1, 1⟩, [], ["undef_a"]⟩) (.ref ⟨⟨1, 11⟩, [], ["undef_b"]⟩)) =
    eval default default (.slash (.ref ⟨⟨1, 1⟩, [], ["undef_a"]⟩) (.lit ⟨1, 11⟩ (.u64 80))) :=
  slash_right_irrelevant _ _ _ _ _ (by decide)

end Resynth.C14Order
