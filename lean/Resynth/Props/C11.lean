import Resynth.Lemmas.BindCorollaries
/-!
# C11 — Calls bind arguments to parameters exactly as the calling convention says

Implementation model: `Bind.argvec` (`Model/Bind.lean`, the three-state machine `split_args` and
`argvec` of src/libapi.rs).  Reference: `Spec.bind` (`Spec/Calling.lean`), a declarative
three-phase reading of the call that uses no state machine.

`argvec_eq_spec` is the equivalence; the other theorems are readable consequences stated on the
specification, and therefore – through `argvec_eq_spec` – facts about `argvec`.
That every function of the real library satisfies the hypothesis `wf` is
`C11.all_library_wf` in `Props/C11Gen.lean`.
-/
namespace Resynth.C11
open Resynth.Spec

/-- implementation outcome agrees with specification outcome: both reject (with a *type error*,
never a panic), or both accept with the same parameter vector and the same collected tail -/
scoped infix:50 " ≃ " => Bind.Agrees

/-! ## 1. the equivalence -/

/-- **Main theorem.**  For every well-formed signature and every call, `argvec` and the
declarative calling convention agree: same accept/reject; on accept the same value for every
parameter and the same tail; the implementation never panics. -/
theorem argvec_eq_spec (f : FuncDef) (hwf : wf f = true) (call : List ArgSpec) :
    Bind.argvec f call ≃ Spec.bind f (Bind.toCall call) :=
  Bind.argvec_agrees f hwf call

/-- accepted calls, spelled out -/
theorem argvec_ok_iff (f : FuncDef) (hwf : wf f = true) (call : List ArgSpec) (av : ArgVec) :
    Bind.argvec f call = .ok av ↔ Spec.bind f (Bind.toCall call) = some (av.args, av.extra) := by
  have h := argvec_eq_spec f hwf call
  constructor
  · intro e
    rw [e] at h
    cases hb : Spec.bind f (Bind.toCall call) with
    | none => rw [hb] at h; exact h.elim
    | some r => obtain ⟨a, t⟩ := r; rw [hb] at h; obtain ⟨h1, h2⟩ := h; rw [h1, h2]
  · intro e
    rw [e] at h
    cases ha : Bind.argvec f call with
    | ok av' =>
      rw [ha] at h; obtain ⟨h1, h2⟩ := h
      cases av; cases av'; simp_all
    | typeError m => rw [ha] at h; exact h.elim
    | panic s => rw [ha] at h; exact h.elim

/-- rejected calls are type errors, and exactly the calls the convention rejects -/
theorem argvec_typeError_iff (f : FuncDef) (hwf : wf f = true) (call : List ArgSpec) :
    (∃ why, Bind.argvec f call = .typeError why) ↔ Spec.bind f (Bind.toCall call) = none := by
  have h := argvec_eq_spec f hwf call
  constructor
  · rintro ⟨why, e⟩
    rw [e] at h
    cases hb : Spec.bind f (Bind.toCall call) with
    | none => rfl
    | some r => rw [hb] at h; exact h.elim
  · intro e
    rw [e] at h
    cases ha : Bind.argvec f call with
    | ok av' => rw [ha] at h; exact h.elim
    | typeError m => exact ⟨m, rfl⟩
    | panic s => rw [ha] at h; exact h.elim

/-! ## 2. what the convention says (consequences of the specification) -/

/-- **Leading unnamed arguments fill the parameters in declaration order.**  If the `i`-th
argument of an accepted call is among the leading unnamed ones and `i` is below the number of
parameters unnamed arguments can fill (all of them without a variable tail, the mandatory ones
with it), then parameter `i` receives exactly that argument. -/
theorem positional_in_order {f : FuncDef} {call : Call} {args tail : List Val}
    (h : Spec.bind f call = some (args, tail)) (i : Nat)
    (hi : i < (call.takeWhile isUnnamed).length) (hk : i < fillable f) :
    args[i]? = call[i]?.map (·.2) :=
  Spec.positional_in_order h i hi hk

/-- In a well-formed signature "the mandatory parameters" are the first `mandatoryCount f`. -/
theorem mandatory_are_prefix {f : FuncDef} (hwf : wf f = true) (i : Nat) (d : ArgDesc)
    (hd : f.args[i]? = some d) : isMandatory d = true ↔ i < mandatoryCount f :=
  Spec.wf_mandatory_prefix hwf i d hd

/-- **With a variable tail, unnamed arguments fill only the mandatory parameters; the further
unnamed arguments are collected in order** (and every optional parameter keeps its default;
fewer unnamed arguments than mandatory parameters is never accepted). -/
theorem variable_tail_only_mandatory {f : FuncDef} (ht : hasTail f = true) (vs : List Val)
    {args tail : List Val} (h : Spec.bind f (vs.map (none, ·)) = some (args, tail)) :
    args.take (mandatoryCount f) = vs.take (mandatoryCount f)
      ∧ tail = vs.drop (mandatoryCount f)
      ∧ args.drop (mandatoryCount f) =
          (f.args.drop (mandatoryCount f)).filterMap (fun d =>
            match d.decl with | .optional dfl => some (defaultVal dfl) | .positional _ => none)
      ∧ mandatoryCount f ≤ vs.length :=
  Spec.variable_tail_only_mandatory ht vs h

/-- **`name: value` goes to the parameter of that name**: `arg_pos name` is defined and the
parameter at that index receives `value`. -/
theorem named_to_named {f : FuncDef} {call : Call} {args tail : List Val}
    (h : Spec.bind f call = some (args, tail)) (n : String) (v : Val) (hm : (some n, v) ∈ call) :
    ∃ i, f.argPos n = some i ∧ args[i]? = some v :=
  Spec.named_to_named h n v hm

/-- **Unspecified optional parameters take their documented defaults**: an optional parameter
not reached by the leading unnamed arguments and not named in the call receives its default
(Nil for a nullable option). -/
theorem defaults_filled {f : FuncDef} {call : Call} {args tail : List Val}
    (h : Spec.bind f call = some (args, tail)) (i : Nat) (d : ArgDesc) (dfl : ValDef)
    (hd : f.args[i]? = some d) (hdecl : d.decl = .optional dfl)
    (hnot : ∀ v, (some d.name, v) ∉ call)
    (hi : min (fillable f) (call.takeWhile isUnnamed).length ≤ i) :
    args[i]? = some (defaultVal dfl) :=
  Spec.defaults_filled h i d dfl hd hdecl hnot hi

/-- every parameter receives exactly one value of an accepted type; tail values are accepted by
the collect type and exist only if the function declares a tail -/
theorem accepted_is_wellBound {f : FuncDef} {call : Call} {args tail : List Val}
    (h : Spec.bind f call = some (args, tail)) : wellBound f args tail = true :=
  Spec.bind_wellBound h

/-- **A call is rejected exactly** when it names an unknown parameter, names an already
supplied one, omits a mandatory one, supplies arguments nothing can take, puts a named argument
after collected ones, or passes a value of an incompatible type. -/
theorem rejected_iff (f : FuncDef) (call : Call) :
    Spec.bind f call = none ↔
      (unknownName f call = true ∨ alreadySupplied f call = true ∨ missingMandatory f call = true
        ∨ surplus f call = true ∨ misplacedNamed f call = true ∨ incompatible f call = true) :=
  Spec.rejected_iff f call

/-- …and, through the equivalence, `argvec` reports a type error exactly then. -/
theorem argvec_rejects_iff (f : FuncDef) (hwf : wf f = true) (call : List ArgSpec) :
    (∃ why, Bind.argvec f call = .typeError why) ↔
      (unknownName f (Bind.toCall call) = true ∨ alreadySupplied f (Bind.toCall call) = true
        ∨ missingMandatory f (Bind.toCall call) = true ∨ surplus f (Bind.toCall call) = true
        ∨ misplacedNamed f (Bind.toCall call) = true ∨ incompatible f (Bind.toCall call) = true) :=
  (argvec_typeError_iff f hwf call).trans (rejected_iff f _)

/-! ## 3. types -/

/-- **The 16×16 compatibility relation is the prose**: same type; any integer or boolean for an
integer or boolean; a string, integer, address or packet for bytes; a packet for a packet
sequence. -/
theorem compat_table (T U : ValType) :
    T.compatibleWith U = true ↔
      (T = U
        ∨ (T ∈ [ValType.bool, .u8, .u16, .u32, .u64] ∧ U ∈ [ValType.bool, .u8, .u16, .u32, .u64])
        ∨ (T = .str ∧ U ∈ [ValType.str, .pkt, .u8, .u16, .u32, .u64, .ip4])
        ∨ (T = .pktgen ∧ U ∈ [ValType.pktgen, .pkt])) := by
  cases T <;> cases U <;> decide

/-- the same, as a finite table check -/
theorem compat_table_all : ∀ T ∈ ValType.all, ∀ U ∈ ValType.all,
    T.compatibleWith U = Spec.accepts T U := by decide

theorem valType_all_complete (T : ValType) : T ∈ ValType.all := by cases T <;> decide

/-- the implementation's per-parameter check is the specification's -/
theorem declAccepts_eq_spec (d : ArgDecl) (t : ValType) : Bind.declAccepts d t = paramAccepts d t :=
  Bind.declAccepts_eq d t

/-- a nullable option accepts nothing at all (Nil) in addition to its type; other parameters
accept the types compatible with their (default's) type -/
theorem param_types (t u : ValType) (d : ValDef) (hd : ∀ t', d ≠ .type t') :
    (Bind.declAccepts (.positional t) u = t.compatibleWith u)
    ∧ (Bind.declAccepts (.optional (.type t)) u = (u == .void || t.compatibleWith u))
    ∧ (Bind.declAccepts (.optional d) u = d.valType.compatibleWith u) := by
  refine ⟨rfl, rfl, ?_⟩
  cases d <;> first | rfl | exact absurd rfl (hd _)

/-! ## 4. non-vacuity on real signatures
(the literal signatures below are checked against the generated table in `Props/C11Gen.lean`) -/

def sigTcpFlow : FuncDef :=
  ⟨"ipv4::tcp::flow", "flow", .obj, [⟨"cl", .positional .sock4⟩, ⟨"sv", .positional .sock4⟩,
    ⟨"cl_seq", .optional (.u32 1)⟩, ⟨"sv_seq", .optional (.u32 1)⟩, ⟨"raw", .optional (.bool false)⟩], .void⟩
def sigConcat : FuncDef := ⟨"text::concat", "concat", .str, [], .str⟩
def sigDnsHost : FuncDef :=
  ⟨"dns::host", "host", .pktgen, [⟨"client", .positional .ip4⟩, ⟨"qname", .positional .str⟩,
    ⟨"ttl", .optional (.u32 229)⟩, ⟨"ns", .optional (.ip4 16843009)⟩, ⟨"raw", .optional (.bool false)⟩], .ip4⟩
def sigClientMessage : FuncDef :=
  ⟨"ipv4::tcp::TcpFlow.client_message", "client_message", .pktgen, [⟨"send_ack", .optional (.bool true)⟩,
    ⟨"seq", .optional (.type .u32)⟩, ⟨"ack", .optional (.type .u32)⟩, ⟨"frag_off", .optional (.u16 0)⟩], .str⟩

example : wf sigTcpFlow = true ∧ wf sigConcat = true ∧ wf sigDnsHost = true
    ∧ wf sigClientMessage = true := by decide

/-- `ipv4::tcp::flow(1.2.3.4:80, 5.6.7.8:90, raw: true, cl_seq: 7)` -/
example : Bind.argvec sigTcpFlow [⟨none, .sock4 0x01020304 80⟩, ⟨none, .sock4 0x05060708 90⟩,
      ⟨some "raw", .bool true⟩, ⟨some "cl_seq", .u64 7⟩]
    = .ok ⟨[.sock4 0x01020304 80, .sock4 0x05060708 90, .u64 7, .u32 1, .bool true], []⟩ := by rfl
example : Spec.bind sigTcpFlow [(none, .sock4 0x01020304 80), (none, .sock4 0x05060708 90),
      (some "raw", .bool true), (some "cl_seq", .u64 7)]
    = some ([.sock4 0x01020304 80, .sock4 0x05060708 90, .u64 7, .u32 1, .bool true], []) := by decide
/-- without a tail, unnamed arguments may fill optional parameters too: `flow(a, b, 5)` -/
example : Spec.bind sigTcpFlow [(none, .sock4 1 80), (none, .sock4 2 90), (none, .u64 5)]
    = some ([.sock4 1 80, .sock4 2 90, .u64 5, .u32 1, .bool false], []) := by decide
/-- `text::concat("a", 5, 1.2.3.4)`: everything is collected -/
example : Spec.bind sigConcat [(none, .str [97]), (none, .u64 5), (none, .ip4 0x01020304)]
    = some ([], [.str [97], .u64 5, .ip4 0x01020304]) := by decide
/-- `dns::host(10.0.0.1, "x", ns: 8.8.8.8, 1.1.1.1, 2.2.2.2)`: two mandatory, one named, a tail -/
example : Spec.bind sigDnsHost [(none, .ip4 0x0a000001), (none, .str [120]), (some "ns", .ip4 0x08080808),
      (none, .ip4 0x01010101), (none, .ip4 0x02020202)]
    = some ([.ip4 0x0a000001, .str [120], .u32 229, .ip4 0x08080808, .bool false],
            [.ip4 0x01010101, .ip4 0x02020202]) := by decide
/-- with a tail the third unnamed argument is *not* `ttl`: `dns::host(ip, "x", 1.1.1.1)` -/
example : Spec.bind sigDnsHost [(none, .ip4 0x0a000001), (none, .str [120]), (none, .ip4 0x01010101)]
    = some ([.ip4 0x0a000001, .str [120], .u32 229, .ip4 16843009, .bool false], [.ip4 0x01010101]) := by
  decide
/-- nullable options: `client_message(seq: 5, "x")` leaves `ack` Nil -/
example : Spec.bind sigClientMessage [(some "seq", .u64 5), (none, .str [120])]
    = some ([.bool true, .u64 5, .nil, .u16 0], [.str [120]]) := by decide

/-! one rejected call per reason -/
example : unknownName sigTcpFlow [(none, .sock4 1 80), (none, .sock4 2 90), (some "rawr", .bool true)] = true := by decide
example : alreadySupplied sigTcpFlow [(none, .sock4 1 80), (none, .sock4 2 90), (some "cl", .sock4 1 80)] = true := by decide
example : alreadySupplied sigTcpFlow [(none, .sock4 1 80), (none, .sock4 2 90), (some "raw", .bool true), (some "raw", .bool true)] = true := by decide
example : missingMandatory sigTcpFlow [(none, .sock4 1 80), (some "raw", .bool true)] = true := by decide
example : surplus sigTcpFlow [(none, .sock4 1 80), (none, .sock4 2 90), (some "raw", .bool true), (none, .u64 1)] = true := by decide
example : surplus sigTcpFlow [(none, .sock4 1 80), (none, .sock4 2 90), (none, .u64 1), (none, .u64 1), (none, .bool true), (none, .u64 1)] = true := by decide
example : misplacedNamed sigDnsHost [(none, .ip4 1), (none, .str []), (none, .ip4 2), (some "ttl", .u64 1)] = true := by decide
example : incompatible sigTcpFlow [(none, .ip4 1), (none, .sock4 2 90)] = true := by decide
example : incompatible sigDnsHost [(none, .ip4 1), (none, .str []), (none, .u64 5)] = true := by decide
/-- and the implementation rejects each of them with a type error -/
example : ∃ why, Bind.argvec sigDnsHost [⟨none, .ip4 1⟩, ⟨none, .str []⟩, ⟨none, .ip4 2⟩, ⟨some "ttl", .u64 1⟩]
    = .typeError why := ⟨_, rfl⟩

end Resynth.C11
