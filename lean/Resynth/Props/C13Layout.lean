import Resynth.Lemmas.LayoutLemmas
import Resynth.Lemmas.LayoutEof
import Resynth.Lemmas.LayoutLex
import Resynth.Lemmas.LRReloc
import Resynth.Props.C10
import Resynth.Props.C13
import Resynth.Props.C09Eof
import Resynth.Gen.Stdlib
/-!
# C13, layout laws — how the text of a source file is laid out in lines does not change the output

Laws of `processFile env budget src` (`Model/Cli.lean`), each for every `env`, `budget` and source:

* **L1** a final line terminator is optional (`final_newline_irrelevant`, `final_crlf_irrelevant`) —
  except after a last line that ends in `\r` (`final_newline_after_cr_differs`);
* **L2** `\r\n` line terminators are as good as `\n` (`crlf_irrelevant`);
* **L3** blank / comment lines appended at the end change nothing but the position reported by a parse
  error at end of input (`trailing_blank_lines`);
* **L4** the output depends on the SEQUENCE of statements only, not on how the statements are grouped
  into per-line batches (`statement_batching_irrelevant`), and not on their source positions
  (`layout_irrelevant`) — a FAILED run included: it leaves behind what the statements before the failing
  one wrote, however they are grouped (`failed_run_file_independent_of_batching`);
* **L5** (lexer) two lines joined by whitespace lex to the tokens of the first followed by the tokens of
  the second, columns shifted (`joined_lines`) — provided the first contains no comment
  (`joined_after_comment_differs`);
* **L6** (parser, end to end) the parser is position-agnostic (`parser_position_agnostic`); hence two
  sources with the same token kinds and texts, the first of which is accepted by the front end, compile
  to the same output (`same_tokens_same_output`).
-/
namespace Resynth.C13
open Lex

/-- the source text enters `processFile` only through its lines -/
theorem processFile_lines (env : Env) (budget : Option Nat) {a b : Bytes} (h : splitLines a = splitLines b) :
    processFile env budget a = processFile env budget b := by
  unfold processFile; rw [h]

/-! ## L1. the final line terminator -/

/-- `BufRead::lines`: a `\n` after a non-empty last line that does not end in `\r` adds no line -/
theorem final_newline_lines (src : Bytes) (hne : src ≠ []) (h10 : src.getLast? ≠ some 10)
    (h13 : src.getLast? ≠ some 13) : splitLines (src ++ [10]) = splitLines src :=
  splitLinesAux_snoc_lf src [] (.inl hne) h10 (by simpa using h13)

/-- a `\r\n` after a non-empty last line adds no line; here the last line MAY end in `\r` (the
terminator strips exactly one) -/
theorem final_crlf_lines (src : Bytes) (hne : src ≠ []) (h10 : src.getLast? ≠ some 10) :
    splitLines (src ++ [13, 10]) = splitLines src :=
  splitLinesAux_snoc_crlf src [] (.inl hne) h10

/-- the remaining cases: after the empty text or after a line terminator, `\n` (or `\r\n`) is one more,
empty, line (a trailing blank line: L3) -/
theorem final_newline_after_newline (src : Bytes) (h : src = [] ∨ src.getLast? = some 10) :
    splitLines (src ++ [10]) = splitLines src ++ [[]] ∧ splitLines (src ++ [13, 10]) = splitLines src ++ [[]] :=
  ⟨splitLines_append src [10] h, splitLines_append src [13, 10] h⟩

/-- **L1.** A source whose last line has no terminator and the same source with a final `\n` compile
alike (provided the last byte is not `\r`). -/
theorem final_newline_irrelevant (env : Env) (budget : Option Nat) (src : Bytes) (hne : src ≠ [])
    (h10 : src.getLast? ≠ some 10) (h13 : src.getLast? ≠ some 13) :
    processFile env budget (src ++ [10]) = processFile env budget src :=
  processFile_lines env budget (final_newline_lines src hne h10 h13)

/-- … and with a final `\r\n` (whatever the last byte, as long as it is not `\n`). -/
theorem final_crlf_irrelevant (env : Env) (budget : Option Nat) (src : Bytes) (hne : src ≠ [])
    (h10 : src.getLast? ≠ some 10) :
    processFile env budget (src ++ [13, 10]) = processFile env budget src :=
  processFile_lines env budget (final_crlf_lines src hne h10)

/-! ## L2. `\r\n` line terminators -/

/-- `crlf src`: every `\n` replaced by `\r\n`; `noCRLF src`: no `\r\n` in `src` (no line terminator is
preceded by `\r`).  The lines are the same. -/
theorem crlf_lines (src : Bytes) (h : noCRLF src = true) : splitLines (crlf src) = splitLines src :=
  splitLinesAux_crlf src [] h (by simp)

/-- **L2.** Converting a source with `\n` line terminators to `\r\n` does not change the run. -/
theorem crlf_irrelevant (env : Env) (budget : Option Nat) (src : Bytes) (h : noCRLF src = true) :
    processFile env budget (crlf src) = processFile env budget src :=
  processFile_lines env budget (crlf_lines src h)

/-! ## L3. blank lines at the end -/

/-- **L3.** Appending blank lines (empty, whitespace, comments) to a source that is empty or ends with a
line terminator: the run is the same, unless it ends with a parse error AT END OF INPUT, in which case
only the reported position moves (from the old end of input to the new one). -/
theorem trailing_blank_lines (env : Env) (budget : Option Nat) (src tail : Bytes)
    (hsrc : src = [] ∨ src.getLast? = some 10) (hb : ∀ b ∈ splitLines tail, blankLine b = true) :
    processFile env budget (src ++ tail) = processFile env budget src ∨
    ∃ st, processFile env budget src = finish st (.failure "Parse" "" (eofLoc src)) ∧
      processFile env budget (src ++ tail) = finish st (.failure "Parse" "" (eofLoc (src ++ tail))) := by
  obtain ⟨hbat, hfin⟩ := planOf_blank_tail src tail hsrc hb
  rw [processFile_eq, processFile_eq]
  unfold execPlan
  rw [← execFrom_filter env _ _ (planOf (src ++ tail)).batches, ← execFrom_filter env _ _ (planOf src).batches,
    hbat]
  rcases hfin with h | ⟨h1, h2⟩
  · left; rw [h]
  · rw [h1, h2]
    unfold execFrom
    cases runBatches env (st0 budget) ((planOf src).batches.filter fun b => !b.isEmpty) with
    | error r => exact .inl rfl
    | ok st => exact .inr ⟨st, rfl, rfl⟩

/-- the observable consequences: same output file, same records, same warnings, same outcome up to the
position of the error -/
theorem trailing_blank_lines_output (env : Env) (budget : Option Nat) (src tail : Bytes)
    (hsrc : src = [] ∨ src.getLast? = some 10) (hb : ∀ b ∈ splitLines tail, blankLine b = true) :
    (processFile env budget (src ++ tail)).file = (processFile env budget src).file ∧
    (processFile env budget (src ++ tail)).emitted = (processFile env budget src).emitted ∧
    (processFile env budget (src ++ tail)).warnings = (processFile env budget src).warnings ∧
    (processFile env budget (src ++ tail)).outcome.eraseLoc = (processFile env budget src).outcome.eraseLoc := by
  rcases trailing_blank_lines env budget src tail hsrc hb with h | ⟨st, h1, h2⟩
  · rw [h]; exact ⟨rfl, rfl, rfl, rfl⟩
  · rw [h1, h2]; exact ⟨rfl, rfl, rfl, rfl⟩

/-- a run that does not end with a `Parse` failure (in particular a successful one) is unchanged, and
success is preserved in both directions -/
theorem trailing_blank_lines_eq (env : Env) (budget : Option Nat) (src tail : Bytes)
    (hsrc : src = [] ∨ src.getLast? = some 10) (hb : ∀ b ∈ splitLines tail, blankLine b = true) :
    ((∀ l, (processFile env budget src).outcome ≠ .failure "Parse" "" l) →
      processFile env budget (src ++ tail) = processFile env budget src) ∧
    ((processFile env budget (src ++ tail)).outcome = .success ↔ (processFile env budget src).outcome = .success) := by
  rcases trailing_blank_lines env budget src tail hsrc hb with h | ⟨st, h1, h2⟩
  · rw [h]; exact ⟨fun _ => rfl, Iff.rfl⟩
  · refine ⟨fun hn => absurd (by rw [h1]; rfl) (hn (eofLoc src)), ?_⟩
    rw [h1, h2]; simp [finish]

/-- instance: any number of extra line terminators at the end -/
theorem trailing_newlines (env : Env) (budget : Option Nat) (src : Bytes) (n : Nat)
    (hsrc : src = [] ∨ src.getLast? = some 10) :
    processFile env budget (src ++ List.replicate n 10) = processFile env budget src ∨
    ∃ st, processFile env budget src = finish st (.failure "Parse" "" (eofLoc src)) ∧
      processFile env budget (src ++ List.replicate n 10) =
        finish st (.failure "Parse" "" (eofLoc (src ++ List.replicate n 10))) := by
  refine trailing_blank_lines env budget src _ hsrc ?_
  have hsl : ∀ n : Nat, splitLines (List.replicate n 10) = List.replicate n [] := by
    intro n
    induction n with
    | zero => rfl
    | succ n ih =>
      have : splitLines (List.replicate (n + 1) 10) = [] :: splitLines (List.replicate n 10) := by
        simp [splitLines, splitLinesAux, List.replicate_succ]
      rw [this, ih, List.replicate_succ]
  intro l hl
  rw [hsl, List.mem_replicate] at hl
  rw [hl.2]
  decide +kernel

/-! ## L4. grouping of statements into batches; source positions -/

/-- **L4 on plans.** Two plans with the same statements in the same order (however distributed over the
batches, i.e. over the lines) and the same way of ending give the SAME RUN: the same outcome — success, or
the same error of the same statement at the same position —, the same output file, the same records, the
same warnings.  This holds for failing runs too: a failing statement ends the run in the state in which
it was executed, so the statements before it have taken effect whether or not they are in its batch. -/
theorem execPlan_regroup (env : Env) (budget : Option Nat) (p q : Plan)
    (hb : p.batches.flatten = q.batches.flatten) (hf : p.final = q.final) :
    execPlan env budget p = execPlan env budget q := by
  unfold execPlan
  rw [hf]
  exact execFrom_regroup hb

/-- **L4.** `processFile` on two sources that yield the same statements in the same order (however
grouped by lines) and whose front ends end alike (in particular: both reach end of input and are
accepted) is the same run in every respect — outcome, output file, records, warnings — whether it
succeeds or fails. -/
theorem statement_batching_irrelevant (env : Env) (budget : Option Nat) (src src' : Bytes)
    (hb : (planOf src).batches.flatten = (planOf src').batches.flatten)
    (hf : (planOf src).final = (planOf src').final) :
    processFile env budget src = processFile env budget src' := by
  rw [processFile_eq, processFile_eq]
  exact execPlan_regroup env budget (planOf src) (planOf src') hb hf

/-- the outcomes agree up to the position of the error: in particular one run succeeds iff the other does -/
theorem success_iff_of_eraseLoc {o o' : Outcome} (h : o.eraseLoc = o'.eraseLoc) : o = .success ↔ o' = .success := by
  cases o <;> cases o' <;> simp [Outcome.eraseLoc] at h ⊢

/-- **L4 up to source positions (the law a re-layout test checks).** If the statements of two sources
agree up to source positions (`Stmt.erase`: the same program, laid out differently — statements joined on
one line, split over several, indented, …) and the front ends end alike up to the position of the
error, then the outcomes agree up to the position of the error (so one run succeeds iff the other does),
and the runs produce the same output file, the same records and the same number of warnings — whether
they succeed or fail (a failing run leaves behind what the statements before the failing one wrote). -/
theorem layout_irrelevant (env : Env) (budget : Option Nat) (src src' : Bytes)
    (hb : (planOf src).batches.flatten.map Stmt.erase = (planOf src').batches.flatten.map Stmt.erase)
    (hf : (planOf src).final.map Outcome.eraseLoc = (planOf src').final.map Outcome.eraseLoc) :
    (processFile env budget src).outcome.eraseLoc = (processFile env budget src').outcome.eraseLoc ∧
    ((processFile env budget src).outcome = .success ↔ (processFile env budget src').outcome = .success) ∧
    (processFile env budget src).file = (processFile env budget src').file ∧
    (processFile env budget src).emitted = (processFile env budget src').emitted ∧
    (processFile env budget src).warnings.length = (processFile env budget src').warnings.length := by
  have h := execFrom_erase (env := env) (st := st0 budget) hb hf
  rw [processFile_eq, processFile_eq]
  exact ⟨h.1, success_iff_of_eraseLoc h.1, h.2⟩

/-! ## L5. joining two lines -/

/-- **L5.** Let line `l1` (number `lno`) lex to `o1` and contain no comment, and let the next line `l2`
(number `lno2`), lexed with the string literal pending after `l1`, give `o2`.  Then the single line
`l1 ++ sep ++ l2` (`sep` a non-empty run of whitespace) lexes to the tokens of `l1` followed by the tokens
of `l2` moved to line `lno` and shifted right by the length of `l1 ++ sep`; the pending literal is that of
`l2`.  (A literal pending after `l1` is emitted in front of the first token of `l2` in both layouts, with
that token's position.) -/
theorem joined_lines (lno lno2 : Nat) (p : Option String) (l1 l2 : String) (sep : List Char) (o1 o2 : LineOut)
    (hsep : sep ≠ []) (hws : sep.all isWs = true)
    (h1 : Lex.line lno p l1 = .ok o1) (hcf : commentFree l1.toList = true)
    (h2 : Lex.line lno2 o1.pending l2 = .ok o2) :
    Lex.line lno p (l1 ++ String.ofList sep ++ l2) =
      .ok { toks := o1.toks ++
              o2.toks.map (fun t => shiftTok (utf8Len l1.toList + utf8Len sep) (LexLemmas.relocate lno t)),
            pending := o2.pending, endCol := o2.endCol + (utf8Len l1.toList + utf8Len sep) } := by
  rw [line_join lno p l1 l2 sep o1 hsep hws h1 hcf, C10.depends_only_on_text lno2 lno, h2]
  simp [Except.map]

/-- if the second line does not lex, the joined line fails at the shifted column -/
theorem joined_lines_error (lno lno2 : Nat) (p : Option String) (l1 l2 : String) (sep : List Char) (o1 : LineOut)
    (c : Nat) (hsep : sep ≠ []) (hws : sep.all isWs = true)
    (h1 : Lex.line lno p l1 = .ok o1) (hcf : commentFree l1.toList = true)
    (h2 : Lex.line lno2 o1.pending l2 = .error c) :
    Lex.line lno p (l1 ++ String.ofList sep ++ l2) = .error (c + (utf8Len l1.toList + utf8Len sep)) := by
  rw [line_join lno p l1 l2 sep o1 hsep hws h1 hcf, C10.depends_only_on_text lno2 lno, h2]
  rfl

/-- kinds and texts of the tokens of `l1 ++ " " ++ l2` are those of `l1` followed by those of `l2` -/
theorem joined_lines_kinds (lno lno2 : Nat) (p : Option String) (l1 l2 : String) (o1 o2 : LineOut)
    (h1 : Lex.line lno p l1 = .ok o1) (hcf : commentFree l1.toList = true)
    (h2 : Lex.line lno2 o1.pending l2 = .ok o2) :
    (Lex.line lno p (l1 ++ " " ++ l2)).toOption.map (fun o => (o.toks.map fun t => (t.kind, t.text), o.pending)) =
      some ((o1.toks ++ o2.toks).map (fun t => (t.kind, t.text)), o2.pending) := by
  have := joined_lines lno lno2 p l1 l2 [' '] o1 o2 (by simp) (by decide) h1 hcf h2
  rw [show String.ofList [' '] = " " from rfl] at this
  rw [this]
  simp [Except.toOption, shiftTok, LexLemmas.relocate, Function.comp_def]

/-! ## L6. the parser does not look at positions; end to end -/

/-- **The parser is position-agnostic.** Re-positioning every token by `r` (any map of positions that
keeps the nil position of `EOF`) re-positions the statements by `r` and changes nothing else: same
acceptance, same index of the offending token. -/
theorem parser_position_agnostic (r : Loc → Loc) (hr : r Loc.nil = Loc.nil) (ts : List Tok) :
    LR.parseAll (ts.map (LR.relocTok r)) = (LR.parseAll ts).reloc r :=
  LR.parseAll_reloc r hr ts

/-- kinds and texts of all tokens of a source file, in order — if every line is UTF-8 and lexes and no
string literal is pending at the end -/
def tokenText (src : Bytes) : Option (List (TokKind × String)) :=
  match C09.lexLines none Loc.nil 1 (splitLines src) with
  | some (toks, none, _) => some (toks.map fun t => (t.kind, t.text))
  | _ => none

/-- **End to end.** Two sources that consist of the same tokens (kinds and texts; positions, line
structure, whitespace and comments arbitrary), the first of which is accepted by the front end: the
second is accepted too, the outcomes agree up to the position of the error (one run succeeds iff the other
does), and the output files, the records and the number of warnings are the same — for failing runs too. -/
theorem same_tokens_same_output (env : Env) (budget : Option Nat) (src src' : Bytes) (K : List (TokKind × String))
    (h : tokenText src = some K) (h' : tokenText src' = some K) (hacc : (planOf src).final = none) :
    (planOf src').final = none ∧
    (processFile env budget src).outcome.eraseLoc = (processFile env budget src').outcome.eraseLoc ∧
    ((processFile env budget src).outcome = .success ↔ (processFile env budget src').outcome = .success) ∧
    (processFile env budget src).file = (processFile env budget src').file ∧
    (processFile env budget src).emitted = (processFile env budget src').emitted ∧
    (processFile env budget src).warnings.length = (processFile env budget src').warnings.length := by
  unfold tokenText at h h'
  cases hl : C09.lexLines none Loc.nil 1 (splitLines src) with
  | none => simp [hl] at h
  | some x =>
    obtain ⟨toks, pend, loc⟩ := x
    cases pend with
    | some q => simp [hl] at h
    | none =>
    cases hl' : C09.lexLines none Loc.nil 1 (splitLines src') with
    | none => simp [hl'] at h'
    | some x' =>
      obtain ⟨toks', pend', loc'⟩ := x'
      cases pend' with
      | some q => simp [hl'] at h'
      | none =>
      simp only [hl, hl', Option.some.injEq] at h h'
      have p1 := C09.parser_sees src toks none loc hl
      have p2 := C09.parser_sees src' toks' none loc' hl'
      rw [C09.finishToks_none, List.append_nil] at p1 p2
      have hc := LR.parseAll_erase_congr toks toks' (LR.eraseTok_of_kinds _ _ (h.trans h'.symm))
      cases e1 : LR.parseAll toks with
      | parseError i => rw [e1] at p1; obtain ⟨l, hl1⟩ := p1; rw [hl1] at hacc; cases hacc
      | panic i => rw [e1] at p1; exact p1.elim
      | ok ss =>
        cases e2 : LR.parseAll toks' with
        | parseError i => rw [e1, e2] at hc; exact hc.elim
        | panic i => rw [e1, e2] at hc; exact hc.elim
        | ok ss' =>
          rw [e1] at p1
          rw [e2] at p2
          rw [e1, e2] at hc
          simp only [] at p1 p2 hc
          refine ⟨p2.1, ?_⟩
          exact layout_irrelevant env budget src src' (by rw [p1.2, p2.2]; exact hc) (by rw [p1.1, p2.1])

/-! ## non-vacuity and counterexamples -/

section Examples
deriving instance DecidableEq for Expr, Args
deriving instance DecidableEq for Stmt
private def env0 : Env := ⟨Gen.lib, []⟩
private def b (s : String) : Bytes := s.toUTF8.toList

/-- a TCP handshake, one statement per line / everything on one line without final newline -/
private def srcLines : Bytes := b "import ipv4;\nlet t = ipv4::tcp::flow(1.2.3.4:80, 5.6.7.8:90);\nt.open();\n"
private def srcOneLine : Bytes := b "import ipv4; let t = ipv4::tcp::flow(1.2.3.4:80, 5.6.7.8:90); t.open();"

example : (processFile env0 none srcLines).outcome = .success ∧ (processFile env0 none srcLines).emitted.length = 3 := by
  decide +kernel

/-- L1: hypotheses hold for `srcOneLine`; the lines are the same -/
example : srcOneLine ≠ [] ∧ srcOneLine.getLast? ≠ some 10 ∧ srcOneLine.getLast? ≠ some 13 := by decide +kernel
example : splitLines (b "a;\nb;" ++ [10]) = splitLines (b "a;\nb;") ∧
    splitLines (b "a;\nb;\r" ++ [13, 10]) = splitLines (b "a;\nb;\r") := by decide +kernel

/-- L1, why the last byte must not be `\r`: the terminator `\n` strips the `\r` from the last line, the end of
input does not -/
theorem final_newline_after_cr_differs :
    splitLines [120, 13] = [[120, 13]] ∧ splitLines ([120, 13] ++ [10]) = [[120]] ∧
    (processFile env0 none [120, 13]).outcome = .failure "Parse" "" ⟨1, 3⟩ ∧
    (processFile env0 none ([120, 13] ++ [10])).outcome = .failure "Parse" "" ⟨1, 2⟩ := by decide +kernel

/-- L1: for the empty source the `\n` is a (blank) line of its own -/
example : splitLines [] = [] ∧ splitLines ([] ++ [10]) = [[]] := by decide

/-- L2 on a three-line source; and why `noCRLF`: a `\r` before the terminator survives the conversion -/
example : noCRLF srcLines = true ∧ crlf (b "a\nb\n") = b "a\r\nb\r\n" := by decide +kernel
example : noCRLF (b "a\r\n") = false ∧ splitLines (crlf (b "a\r\n")) = [b "a\r"] ∧ splitLines (b "a\r\n") = [b "a"] := by
  decide +kernel

/-- L3: the hypotheses hold for `srcLines` followed by an empty line, a whitespace line and two comments -/
private def blanks : Bytes := b "\n  \t\n# end\n  // really"
example : (srcLines = [] ∨ srcLines.getLast? = some 10) ∧ ∀ l ∈ splitLines blanks, blankLine l = true := by
  decide +kernel
example : (splitLines blanks).length = 4 := by decide +kernel
/-- L3: the parse error at end of input moves from the end of line 1 to the end of the last comment line -/
example : (processFile env0 none (b "f(\n")).outcome = .failure "Parse" "" ⟨1, 3⟩ ∧
    (processFile env0 none (b "f(\n" ++ blanks)).outcome = .failure "Parse" "" ⟨5, 12⟩ ∧
    eofLoc (b "f(\n") = ⟨1, 3⟩ ∧ eofLoc (b "f(\n" ++ blanks) = ⟨5, 12⟩ := by decide +kernel

/-- L4 up to positions: `let x = 1;⏎x;⏎` and `let x = 1; x;` have the same statements up to positions and
both front ends accept; the batches are `[[], [let], [x]]` against `[[let], [x]]` (the parser completes a
statement when it sees the token AFTER its `;`, or the end of input).  The one warning (`x;` discards a
value) is reported at `2:1` resp. `1:12`: only the NUMBER of warnings is layout independent. -/
private def sA : Bytes := b "let x = 1;\nx;\n"
private def sB : Bytes := b "let x = 1; x;"
example : (planOf sA).batches.flatten.map Stmt.erase = (planOf sB).batches.flatten.map Stmt.erase := by
  decide +kernel
example : (planOf sA).final = none ∧ (planOf sA).batches.map List.length = [0, 1, 1] := by decide +kernel
example : (planOf sB).final = none ∧ (planOf sB).batches.map List.length = [1, 1] := by decide +kernel
example : (processFile env0 none sA).warnings = [⟨2, 1⟩] ∧ (processFile env0 none sB).warnings = [⟨1, 12⟩] ∧
    (processFile env0 none sA).outcome = .success := by decide +kernel

/-- L4: regrouping the batches of a plan (here: all statements in one batch) -/
private def regrouped (p : Plan) : Plan := ⟨[p.batches.flatten], p.final⟩
example (p : Plan) : (regrouped p).batches.flatten = p.batches.flatten ∧ (regrouped p).final = p.final := by
  simp [regrouped]

/-- **The file of a FAILED run does not depend on the grouping.** `nosuch;` fails (unknown name) after the
handshake.  With one statement per line, and with all statements in one batch (as in `t.open(); nosuch;`
on one line), the three packets of the handshake are in the file the process leaves behind: the run
stops in the state in which the failing STATEMENT was executed.  (An instance of `execPlan_regroup`.) -/
private def srcFail : Bytes :=
  b "import ipv4;\nlet t = ipv4::tcp::flow(1.2.3.4:80, 5.6.7.8:90);\nt.open();\nnosuch;\n"
theorem failed_run_file_independent_of_batching :
    (execPlan env0 none (planOf srcFail)).emitted.length = 3 ∧
    (execPlan env0 none (regrouped (planOf srcFail))).emitted.length = 3 ∧
    (execPlan env0 none (planOf srcFail)).file = (execPlan env0 none (regrouped (planOf srcFail))).file ∧
    (execPlan env0 none (planOf srcFail)).file.length = 24 + 3 * (16 + 54) ∧
    (execPlan env0 none (planOf srcFail)).outcome = .failure "Name" "" ⟨4, 1⟩ ∧
    (execPlan env0 none (regrouped (planOf srcFail))).outcome = .failure "Name" "" ⟨4, 1⟩ := by decide +kernel

/-- the same on source texts: the failing statement on the line of the handshake -/
private def srcFailJoined : Bytes :=
  b "import ipv4;\nlet t = ipv4::tcp::flow(1.2.3.4:80, 5.6.7.8:90);\nt.open(); nosuch;\n"
example : (processFile env0 none srcFailJoined).emitted = (processFile env0 none srcFail).emitted ∧
    (processFile env0 none srcFailJoined).file = (processFile env0 none srcFail).file ∧
    (processFile env0 none srcFailJoined).outcome = .failure "Name" "" ⟨3, 11⟩ := by decide +kernel

/-- L6: `sA` and `sB` consist of the same tokens (and `sA` is accepted, see above) -/
example : tokenText sA = tokenText sB ∧ (tokenText sA).isSome = true := by decide +kernel

/-- L5: `let x = 1;` and `x;` joined by a blank and a tab -/
example : commentFree "let x = 1;".toList = true ∧ commentFree "f(\"# no comment\") / g;".toList = true := by
  decide +kernel
example : (Lex.line 7 none ("let x = 1;" ++ String.ofList [' ', '\t'] ++ "x;")).toOption.map (·.toks.map (·.loc)) =
    some [⟨7, 1⟩, ⟨7, 5⟩, ⟨7, 7⟩, ⟨7, 9⟩, ⟨7, 10⟩, ⟨7, 13⟩, ⟨7, 14⟩] := by decide +kernel
/-- L5, why `l1` must be comment free: the comment swallows the second line -/
theorem joined_after_comment_differs :
    commentFree "a; # c".toList = false ∧
    (Lex.line 1 none "a; # c").toOption.map (·.toks.length) = some 2 ∧
    (Lex.line 2 none "b;").toOption.map (·.toks.length) = some 2 ∧
    (Lex.line 1 none ("a; # c" ++ " " ++ "b;")).toOption.map (·.toks.length) = some 2 := by decide +kernel
end Examples

end Resynth.C13
