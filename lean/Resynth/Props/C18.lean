import Resynth.Lemmas.NetTcpFlow
import Resynth.Lemmas.NetFraming
/-!
# C18 — Ethernet framing is uniform; raw mode removes exactly the Ethernet header

Unless raw mode is requested, every packet from an IP-level builder begins with a 14-byte
Ethernet header of type 0x0800 whose source and destination addresses are the same fixed function
of the packet's source and destination IPv4 endpoints for every builder (00:02 followed by the
four address octets), with the all-ones address as destination for broadcasts.  With raw mode the
packet is byte-identical except that exactly this header is absent.

`Spec.ethFrame d` (Spec/Net.lean) is the canonical framing of a datagram `d`:
`macOfIp (ipDst d) ++ macOfIp (ipSrc d) ++ 08 00 ++ d`, the MACs being read from `d` itself.
Every theorem has the form `build (raw := false) = Spec.ethFrame (build (raw := true))`.
No hypotheses on lengths, offsets or address ranges are needed.
-/
namespace Resynth.C18

/-! ## what the canonical framing means -/

/-- a canonically framed packet (of a datagram with at least a 20-byte header) starts with
dst MAC, src MAC, 08 00, where the MACs are 00:02:a.b.c.d of the addresses found in the IPv4 header
that follows; and dropping those 14 bytes gives back the datagram -/
theorem ethFrame_spec (d : Bytes) (hd : 20 ≤ d.length) :
    Spec.ethMatchesIp (Spec.ethFrame d) = true ∧
    Spec.ethOk (Spec.macOfIp (Spec.ipDst d)) (Spec.macOfIp (Spec.ipSrc d)) (Spec.ethFrame d) = true ∧
    (Spec.ethFrame d).drop 14 = d := by
  have h := ethMatchesIp_ethFrame d hd
  refine ⟨h, ?_, ethFrame_drop d⟩
  rw [Spec.ethMatchesIp, ethFrame_drop] at h
  simp only [Bool.and_eq_true] at h; exact h.2

theorem ethFrameBroadcast_spec (d : Bytes) (hd : 20 ≤ d.length) :
    Spec.ethBroadcastMatchesIp (Spec.ethFrameBroadcast d) = true ∧
    Spec.ethOk Spec.macBroadcast (Spec.macOfIp (Spec.ipSrc d)) (Spec.ethFrameBroadcast d) = true ∧
    (Spec.ethFrameBroadcast d).drop 14 = d := by
  have h := ethBroadcastMatchesIp_ethFrameBroadcast d hd
  refine ⟨h, ?_, ethFrameBroadcast_drop d⟩
  rw [Spec.ethBroadcastMatchesIp, ethFrameBroadcast_drop] at h
  simp only [Bool.and_eq_true] at h; exact h.2

/-! ## TCP flows

For operations that emit several packets: the list of non-raw packets is the list of raw packets
with `Spec.ethFrame` applied to each, and each non-raw packet satisfies `Spec.ethMatchesIp`. -/

section tcp
variable (f : TcpFlow)

theorem tcp_open :
    ({ f with raw := false } : TcpFlow).open.2 = ({ f with raw := true } : TcpFlow).open.2.map Spec.ethFrame ∧
    ({ f with raw := false } : TcpFlow).open.2.all Spec.ethMatchesIp = true :=
  ⟨f.open_pairs.map_eq, f.open_pairs.all_matches⟩

theorem tcp_clientClose :
    ({ f with raw := false } : TcpFlow).clientClose.2 =
      ({ f with raw := true } : TcpFlow).clientClose.2.map Spec.ethFrame ∧
    ({ f with raw := false } : TcpFlow).clientClose.2.all Spec.ethMatchesIp = true :=
  ⟨f.clientClose_pairs.map_eq, f.clientClose_pairs.all_matches⟩

theorem tcp_serverClose :
    ({ f with raw := false } : TcpFlow).serverClose.2 =
      ({ f with raw := true } : TcpFlow).serverClose.2.map Spec.ethFrame ∧
    ({ f with raw := false } : TcpFlow).serverClose.2.all Spec.ethMatchesIp = true :=
  ⟨f.serverClose_pairs.map_eq, f.serverClose_pairs.all_matches⟩

theorem tcp_clientReset :
    ({ f with raw := false } : TcpFlow).clientReset = Spec.ethFrame ({ f with raw := true } : TcpFlow).clientReset ∧
    Spec.ethMatchesIp ({ f with raw := false } : TcpFlow).clientReset = true :=
  f.clientReset_pairs.1

theorem tcp_serverReset :
    ({ f with raw := false } : TcpFlow).serverReset = Spec.ethFrame ({ f with raw := true } : TcpFlow).serverReset ∧
    Spec.ethMatchesIp ({ f with raw := false } : TcpFlow).serverReset = true :=
  f.serverReset_pairs.1

theorem tcp_clientAck :
    ({ f with raw := false } : TcpFlow).clientAck = Spec.ethFrame ({ f with raw := true } : TcpFlow).clientAck ∧
    Spec.ethMatchesIp ({ f with raw := false } : TcpFlow).clientAck = true :=
  f.clientAck_pairs.1

theorem tcp_serverAck :
    ({ f with raw := false } : TcpFlow).serverAck = Spec.ethFrame ({ f with raw := true } : TcpFlow).serverAck ∧
    Spec.ethMatchesIp ({ f with raw := false } : TcpFlow).serverAck = true :=
  f.serverAck_pairs.1

theorem tcp_clientMessage (bytes : Bytes) (sendAck : Bool) (off : Nat) :
    (({ f with raw := false } : TcpFlow).clientMessage bytes sendAck off).2 =
      (({ f with raw := true } : TcpFlow).clientMessage bytes sendAck off).2.map Spec.ethFrame ∧
    (({ f with raw := false } : TcpFlow).clientMessage bytes sendAck off).2.all Spec.ethMatchesIp = true :=
  ⟨(f.clientMessage_pairs bytes sendAck off).map_eq, (f.clientMessage_pairs bytes sendAck off).all_matches⟩

theorem tcp_serverMessage (bytes : Bytes) (sendAck : Bool) (off : Nat) :
    (({ f with raw := false } : TcpFlow).serverMessage bytes sendAck off).2 =
      (({ f with raw := true } : TcpFlow).serverMessage bytes sendAck off).2.map Spec.ethFrame ∧
    (({ f with raw := false } : TcpFlow).serverMessage bytes sendAck off).2.all Spec.ethMatchesIp = true :=
  ⟨(f.serverMessage_pairs bytes sendAck off).map_eq, (f.serverMessage_pairs bytes sendAck off).all_matches⟩

theorem tcp_clientDataSegment (bytes : Bytes) :
    (({ f with raw := false } : TcpFlow).clientDataSegment bytes).2.frame =
      Spec.ethFrame (({ f with raw := true } : TcpFlow).clientDataSegment bytes).2.frame ∧
    Spec.ethMatchesIp (({ f with raw := false } : TcpFlow).clientDataSegment bytes).2.frame = true :=
  (f.clientDataSegment_pairs bytes).1

theorem tcp_serverDataSegment (bytes : Bytes) :
    (({ f with raw := false } : TcpFlow).serverDataSegment bytes).2.frame =
      Spec.ethFrame (({ f with raw := true } : TcpFlow).serverDataSegment bytes).2.frame ∧
    Spec.ethMatchesIp (({ f with raw := false } : TcpFlow).serverDataSegment bytes).2.frame = true :=
  (f.serverDataSegment_pairs bytes).1

end tcp

/-! ## UDP -/

theorem udp_unicast (src dst : Sock) (buf : Bytes) :
    udpUnicast src dst false buf = Spec.ethFrame (udpUnicast src dst true buf) ∧
    Spec.ethMatchesIp (udpUnicast src dst false buf) = true :=
  UdpDgram.framed (udpBase src dst false buf) (udpBase src dst true buf) rfl rfl rfl rfl rfl

theorem udp_dgramCall (f : UdpFlow) (client : Bool) (fragOff : Nat) (csum : Bool) (bytes : Bytes) :
    ({ f with raw := false } : UdpFlow).dgramCall client fragOff csum bytes =
      Spec.ethFrame (({ f with raw := true } : UdpFlow).dgramCall client fragOff csum bytes) ∧
    Spec.ethMatchesIp (({ f with raw := false } : UdpFlow).dgramCall client fragOff csum bytes) = true := by
  rw [dgramCall_eq, dgramCall_eq]
  cases client <;> cases csum <;> exact UdpDgram.framed _ _ rfl rfl rfl rfl rfl

/-- the DNS helper's `(f.clientDgram msg).csum.frame` -/
theorem udp_clientDgram_csum (f : UdpFlow) (msg : Bytes) :
    (({ f with raw := false } : UdpFlow).clientDgram msg).csum.frame =
      Spec.ethFrame (({ f with raw := true } : UdpFlow).clientDgram msg).csum.frame ∧
    Spec.ethMatchesIp (({ f with raw := false } : UdpFlow).clientDgram msg).csum.frame = true :=
  UdpDgram.framed _ _ rfl rfl rfl rfl rfl

theorem udp_serverDgram_csum (f : UdpFlow) (msg : Bytes) :
    (({ f with raw := false } : UdpFlow).serverDgram msg).csum.frame =
      Spec.ethFrame (({ f with raw := true } : UdpFlow).serverDgram msg).csum.frame ∧
    Spec.ethMatchesIp (({ f with raw := false } : UdpFlow).serverDgram msg).csum.frame = true :=
  UdpDgram.framed _ _ rfl rfl rfl rfl rfl

/-- **Broadcast, exactly what the model does.**  The destination MAC is ff:ff:ff:ff:ff:ff and the
source MAC is always derived from the *socket* source address `src.ip` — also when a `srcip:`
override replaces the source address in the IP header. -/
theorem udp_broadcast (src dst : Sock) (srcip : Option Nat) (buf : Bytes) :
    udpBroadcast src dst srcip false buf =
      Spec.macBroadcast ++ Spec.macOfIp src.ip ++ [0x08, 0x00] ++ udpBroadcast src dst srcip true buf ∧
    Spec.ethOk Spec.macBroadcast (Spec.macOfIp src.ip) (udpBroadcast src dst srcip false buf) = true := by
  have e : udpBroadcast src dst srcip false buf =
      Spec.macBroadcast ++ Spec.macOfIp src.ip ++ [0x08, 0x00] ++ udpBroadcast src dst srcip true buf := by
    rw [udpBroadcast_eq, udpBroadcast_eq, (udpBcast_shape src dst srcip false buf).framing,
      (udpBcast_shape src dst srcip true buf).framing, udpBcast_ipDgram_raw src dst srcip false true]
    simp [Spec.macOfIp_eq, Spec.macBroadcast_eq]
  refine ⟨e, ?_⟩
  rw [e]
  simp [Spec.ethOk, Spec.macOfIp, Spec.macBroadcast]

/-- Without an override this is the canonical broadcast framing (source MAC = MAC of the IP
header's source address). -/
theorem udp_broadcast_noOverride (src dst : Sock) (buf : Bytes) :
    udpBroadcast src dst none false buf = Spec.ethFrameBroadcast (udpBroadcast src dst none true buf) ∧
    Spec.ethBroadcastMatchesIp (udpBroadcast src dst none false buf) = true :=
  UdpDgram.framedBroadcast (udpBcast src dst none false buf) (udpBcast src dst none true buf) rfl rfl rfl rfl rfl

/-- With an override that differs from the socket address the Ethernet source is **not** the MAC
of the IP header's source: the uniform rule "MACs are a function of the packet's IP endpoints"
does not hold for this one builder option (concrete witness). -/
theorem udp_broadcast_override_not_uniform :
    Spec.ethBroadcastMatchesIp (udpBroadcast ⟨1, 68⟩ ⟨0xffffffff, 67⟩ (some 5) false [1]) = false := by
  decide

theorem vxlan_encap (f : VxlanFlow) (bytes : Bytes) :
    ({ f with raw := false } : VxlanFlow).encap bytes =
      Spec.ethFrame (({ f with raw := true } : VxlanFlow).encap bytes) ∧
    Spec.ethMatchesIp (({ f with raw := false } : VxlanFlow).encap bytes) = true :=
  UdpDgram.framed (vxlanDgram { f with raw := false } bytes) (vxlanDgram { f with raw := true } bytes)
    rfl rfl rfl rfl rfl

/-! ## ICMP -/

theorem icmp_echo (f : IcmpFlow) (bytes : Bytes) :
    (({ f with raw := false } : IcmpFlow).echo bytes).2 =
      Spec.ethFrame (({ f with raw := true } : IcmpFlow).echo bytes).2 ∧
    Spec.ethMatchesIp (({ f with raw := false } : IcmpFlow).echo bytes).2 = true :=
  icmp_framed f.cl f.sv 8 f.id f.pingSeq bytes

theorem icmp_echoReply (f : IcmpFlow) (bytes : Bytes) :
    (({ f with raw := false } : IcmpFlow).echoReply bytes).2 =
      Spec.ethFrame (({ f with raw := true } : IcmpFlow).echoReply bytes).2 ∧
    Spec.ethMatchesIp (({ f with raw := false } : IcmpFlow).echoReply bytes).2 = true :=
  icmp_framed f.sv f.cl 0 f.id f.pongSeq bytes

/-! ## raw IP -/

theorem ip_dgramFrag (h : IpHdr) (payload : Bytes) (off : Nat) (mf : Bool) :
    ipDgramFrag h payload false off mf = Spec.ethFrame (ipDgramFrag h payload true off mf) ∧
    Spec.ethMatchesIp (ipDgramFrag h payload false off mf) = true :=
  ipDgramFrag_framed h payload off mf

theorem frag_fragment (f : IpFrag) (off len : Nat) :
    f.fragment off len false = Spec.ethFrame (f.fragment off len true) ∧
    Spec.ethMatchesIp (f.fragment off len false) = true :=
  ipDgramFrag_framed ..

theorem frag_tail (f : IpFrag) (off : Nat) :
    f.tail off false = Spec.ethFrame (f.tail off true) ∧ Spec.ethMatchesIp (f.tail off false) = true :=
  ipDgramFrag_framed ..

theorem frag_datagram (f : IpFrag) :
    f.datagram false = Spec.ethFrame (f.datagram true) ∧ Spec.ethMatchesIp (f.datagram false) = true :=
  ipDgramFrag_framed ..

/-- stdlib `ipv4::datagram` has no raw option: it is always canonically framed -/
theorem ipv4_datagram (src dst id : Nat) (evil df mf : Bool) (ttl fragOff proto : Nat) (data : Bytes) :
    (∃ d, ipv4Datagram src dst id evil df mf ttl fragOff proto data = Spec.ethFrame d) ∧
      Spec.ethMatchesIp (ipv4Datagram src dst id evil df mf ttl fragOff proto data) = true := by
  refine ⟨⟨(dgramHdr src dst id evil df mf ttl fragOff proto data.length).serialize ++ data, ?_⟩, ?_⟩
  · rw [ipv4Datagram_eq, ethFrame_eq]; rfl
  · rw [ipv4Datagram_eq]
    exact ethMatchesIp_of (dgramHdr src dst id evil df mf ttl fragOff proto data.length) data

/-! ## GRE / ERSPAN -/

theorem gre_encap (f : GreFlow) (bytes : Bytes) :
    (({ f with raw := false } : GreFlow).encap bytes).2 =
      Spec.ethFrame (({ f with raw := true } : GreFlow).encap bytes).2 ∧
    Spec.ethMatchesIp (({ f with raw := false } : GreFlow).encap bytes).2 = true :=
  GreFrame.framed (gre_shape { f with raw := false } bytes) (gre_shape { f with raw := true } bytes) rfl

theorem erspan1_encap (f : Erspan1Flow) (bytes : Bytes) :
    ({ f with raw := false } : Erspan1Flow).encap bytes =
      Spec.ethFrame (({ f with raw := true } : Erspan1Flow).encap bytes) ∧
    Spec.ethMatchesIp (({ f with raw := false } : Erspan1Flow).encap bytes) = true :=
  GreFrame.framed (erspan1_shape { f with raw := false } bytes) (erspan1_shape { f with raw := true } bytes) rfl

theorem erspan2_encap (f : Erspan2Flow) (bytes : Bytes) (portIndex : Nat) :
    (({ f with raw := false } : Erspan2Flow).encap bytes portIndex).2 =
      Spec.ethFrame (({ f with raw := true } : Erspan2Flow).encap bytes portIndex).2 ∧
    Spec.ethMatchesIp (({ f with raw := false } : Erspan2Flow).encap bytes portIndex).2 = true :=
  GreFrame.framed (erspan2_shape { f with raw := false } bytes portIndex)
    (erspan2_shape { f with raw := true } bytes portIndex) rfl

/-! ## non-vacuity -/

def exFlow : TcpFlow := { cl := ⟨0x0a000001, 49152⟩, sv := ⟨0xc0a80102, 80⟩, clSeq := 1000, svSeq := 4000000000, raw := false }

example : exFlow.open.2.all Spec.ethMatchesIp = true := by decide
example : Spec.ethOk [0, 2, 0xc0, 0xa8, 1, 2] [0, 2, 0x0a, 0, 0, 1] exFlow.clientAck = true := by decide
example : Spec.ethOk [0, 2, 0x0a, 0, 0, 1] [0, 2, 0xc0, 0xa8, 1, 2] exFlow.serverAck = true := by decide
example : Spec.ethMatchesIp (udpUnicast ⟨1, 7⟩ ⟨2, 9⟩ false [5]) = true := by decide
example : Spec.ethBroadcastMatchesIp (udpBroadcast ⟨1, 68⟩ ⟨0xffffffff, 67⟩ none false [1]) = true := by decide
example : Spec.ethMatchesIp (IcmpFlow.echo { cl := 1, sv := 2, raw := false } [9]).2 = true := by decide
example : Spec.ethMatchesIp (GreFlow.encap { cl := 1, sv := 2, ethertype := 0x0800, raw := false } [9, 9]).2 = true := by
  decide
/-- the predicate is not trivially true -/
example : Spec.ethMatchesIp (udpUnicast ⟨1, 7⟩ ⟨2, 9⟩ true [5]) = false := by decide

end Resynth.C18
