import Resynth.Lemmas.TlsFraming
/-!
# C15 — Every length-prefixed structure declares exactly the bytes that follow

Builders: the pure byte-level functions of `Lemmas/Builders.lean` (namespace `Resynth.Wire`); each is tied to its arm of
`Resynth.exec` (Model/Stdlib.lean) by the bridge lemma `exec_<name>` there, e.g.
`exec_len_be16 : x.mapM Val.toBuf? = some bufs → exec fs "std::len_be16" none ⟨[], x⟩ h = .ok (.str (lenBe16 bufs.flatten), h)`.
Reference parsers: `Spec/Framing.lean` (they share nothing with the builders).

Every theorem has exactly the hypothesis "the length fits its field" and holds for all contents,
all part counts and every trailing `rest`.  `LenFieldExact off w m` says that the `w`-byte big-endian
field at offset `off` of `m` is complete and declares exactly the number of bytes after it.
-/
namespace Resynth.C15
open Spec Wire

/-! ## 1. fixed-width integer helpers (`std::be16 … std::le64`, `std::u8`)

The value round-trips modulo the width, and the parser of that width consumes exactly the bytes
produced. -/

theorem u8_roundtrip (n : Nat) (r : Bytes) :
    beNat [b8 n] = n % 256 ∧ parseUInt 1 ([b8 n] ++ r) = some (n % 256, r) :=
  ⟨beNat_b8 n, parseUInt_b8 n r⟩
theorem be16_roundtrip (n : Nat) (r : Bytes) :
    (be16 n).length = 2 ∧ beNat (be16 n) = n % 65536 ∧ parseUInt 2 (be16 n ++ r) = some (n % 65536, r) :=
  ⟨rfl, beNat_be16 n, parseUInt_be16 n r⟩
theorem be32_roundtrip (n : Nat) (r : Bytes) :
    (be32 n).length = 4 ∧ beNat (be32 n) = n % 4294967296 ∧
      parseUInt 4 (be32 n ++ r) = some (n % 4294967296, r) :=
  ⟨rfl, beNat_be32 n, parseUInt_be32 n r⟩
theorem be64_roundtrip (n : Nat) (r : Bytes) :
    (be64 n).length = 8 ∧ beNat (be64 n) = n % 18446744073709551616 ∧
      parseUInt 8 (be64 n ++ r) = some (n % 18446744073709551616, r) :=
  ⟨rfl, beNat_be64 n, parseUInt_be64 n r⟩
theorem le16_roundtrip (n : Nat) : (le16 n).length = 2 ∧ leNat (le16 n) = n % 65536 :=
  ⟨rfl, leNat_le16 n⟩
theorem le32_roundtrip (n : Nat) : (le32 n).length = 4 ∧ leNat (le32 n) = n % 4294967296 :=
  ⟨rfl, leNat_le32 n⟩
theorem le64_roundtrip (n : Nat) : (le64 n).length = 8 ∧ leNat (le64 n) = n % 18446744073709551616 :=
  ⟨rfl, leNat_le64 n⟩

/-! ## 2. generic length prefixes (`std::len_u8`, `len_be16`, `len_be32`, `len_be64`) -/

theorem len_u8_exact (b : Bytes) (h : b.length < 256) : LenFieldExact 0 1 (lenU8 b) :=
  lenFieldExact_of 0 1 _ [] [b8 b.length] b rfl rfl rfl (by rw [beNat_b8]; omega)
theorem len_be16_exact (b : Bytes) (h : b.length < 65536) : LenFieldExact 0 2 (lenBe16 b) :=
  lenFieldExact_of 0 2 _ [] (be16 b.length) b rfl rfl rfl (by rw [beNat_be16]; omega)
theorem len_be32_exact (b : Bytes) (h : b.length < 4294967296) : LenFieldExact 0 4 (lenBe32 b) :=
  lenFieldExact_of 0 4 _ [] (be32 b.length) b rfl rfl rfl (by rw [beNat_be32]; omega)
theorem len_be64_exact (b : Bytes) (h : b.length < 18446744073709551616) : LenFieldExact 0 8 (lenBe64 b) :=
  lenFieldExact_of 0 8 _ [] (be64 b.length) b rfl rfl rfl (by rw [beNat_be64]; omega)

theorem len_u8_roundtrip (b r : Bytes) (h : b.length < 256) :
    parseLenPrefixed 1 (lenU8 b ++ r) = some (b, r) := parseLenPrefixed_u8 b r h
theorem len_be16_roundtrip (b r : Bytes) (h : b.length < 65536) :
    parseLenPrefixed 2 (lenBe16 b ++ r) = some (b, r) := by
  simpa [lenBe16] using parseLenPrefixed_be16 b r h
theorem len_be32_roundtrip (b r : Bytes) (h : b.length < 4294967296) :
    parseLenPrefixed 4 (lenBe32 b ++ r) = some (b, r) := by
  simpa [lenBe32] using parseLenPrefixed_be32 b r h
theorem len_be64_roundtrip (b r : Bytes) (h : b.length < 18446744073709551616) :
    parseLenPrefixed 8 (lenBe64 b ++ r) = some (b, r) := by
  simpa [lenBe64] using parseLenPrefixed_be64 b r h

/-! ## 3. TLS records, extensions, cipher lists -/

theorem tls_message_exact (ver content : Nat) (b : Bytes) (h : b.length < 65536) :
    LenFieldExact 3 2 (tlsMessage ver content b) :=
  lenFieldExact_of 3 2 _ ([b8 content] ++ be16 ver) (be16 b.length) b (by simp [tlsMessage]) rfl rfl
    (by rw [beNat_be16]; omega)
theorem tls_message_roundtrip (ver content : Nat) (b r : Bytes) (h : b.length < 65536) :
    parseTlsRecord (tlsMessage ver content b ++ r) = some (content % 256, ver % 65536, b, r) :=
  parseTlsRecord_tlsMessage ver content b r h

theorem tls_extension_exact (ext : Nat) (b : Bytes) (h : b.length < 65536) :
    LenFieldExact 2 2 (tlsExtension ext b) :=
  lenFieldExact_of 2 2 _ (be16 ext) (be16 b.length) b (by simp [tlsExtension]) rfl rfl
    (by rw [beNat_be16]; omega)
theorem tls_extension_roundtrip (ext : Nat) (b r : Bytes) (h : b.length < 65536) :
    parseExtension (tlsExtension ext b ++ r) = some ((ext % 65536, b), r) :=
  parseExtension_tlsExtension ext b r h

/-- any number of extensions, concatenated, parse back in order -/
theorem tls_extension_list_roundtrip (exts : List (Nat × Bytes)) (h : ∀ e ∈ exts, e.2.length < 65536) :
    parseExtensionList (exts.flatMap fun e => tlsExtension e.1 e.2) =
      some (exts.map fun e => (e.1 % 65536, e.2)) :=
  parseExtensionList_flatMap exts h

theorem tls_ciphers_exact (ids : List Nat) (h : ids.length * 2 < 65536) :
    LenFieldExact 0 2 (tlsCiphers ids) :=
  lenFieldExact_of 0 2 _ [] (be16 (ids.length * 2)) (ids.flatMap be16) rfl rfl rfl
    (by rw [beNat_be16, flatMap_be16_length]; omega)
theorem tls_ciphers_roundtrip (ids : List Nat) (r : Bytes) (h : ids.length * 2 < 65536) :
    parseCipherList (tlsCiphers ids ++ r) = some (ids.map (· % 65536), r) :=
  parseCipherList_tlsCiphers ids r h

/-! ## 4. server-name and certificate lists -/

/-- both length fields of the server-name extension (extension length at 2, list length at 4) -/
theorem tls_sni_exact (names : List Bytes) (h : 2 + sniListLen names < 65536) :
    LenFieldExact 2 2 (tlsSni names) ∧ LenFieldExact 4 2 (tlsSni names) := by
  have hlen := flatMap_entries_length sniEntry sniEntry_length names
  constructor
  · exact lenFieldExact_of 2 2 _ (be16 0) (be16 (2 + sniListLen names))
      (be16 (sniListLen names) ++ names.flatMap sniEntry) (by simp [tlsSni]) rfl rfl
      (by rw [beNat_be16]; simp [hlen]; omega)
  · exact lenFieldExact_of 4 2 _ (be16 0 ++ be16 (2 + sniListLen names)) (be16 (sniListLen names))
      (names.flatMap sniEntry) (by simp [tlsSni]) rfl rfl (by rw [beNat_be16, hlen]; omega)

theorem tls_sni_roundtrip (names : List Bytes) (r : Bytes) (hn : ∀ n ∈ names, n.length < 65536)
    (hl : 2 + sniListLen names < 65536) : parseSni (tlsSni names ++ r) = some (names, r) :=
  parseSni_tlsSni names r hn hl

/-- the server-name builder is the generic extension builder applied to a 16-bit-length-prefixed
entry list, so it nests like any other extension -/
theorem tls_sni_eq (names : List Bytes) :
    tlsSni names = tlsExtension 0 (lenBe16 (names.flatMap sniEntry)) := by
  have hlen := flatMap_entries_length sniEntry sniEntry_length names
  simp [tlsSni, tlsExtension, lenBe16, hlen]

/-- both length fields of the Certificate message (24-bit handshake length at 1, list length at 4) -/
theorem tls_certificates_exact (certs : List Bytes) (h : 3 + sniListLen certs < 16777216) :
    LenFieldExact 1 3 (tlsCertificates certs) ∧ LenFieldExact 4 3 (tlsCertificates certs) := by
  have hlen := flatMap_entries_length certEntry certEntry_length certs
  constructor
  · exact lenFieldExact_of 1 3 _ [11] (be24 (3 + sniListLen certs))
      (be24 (sniListLen certs) ++ certs.flatMap certEntry) (by simp [tlsCertificates]) rfl rfl
      (by rw [beNat_be24]; simp [hlen]; omega)
  · exact lenFieldExact_of 4 3 _ ([11] ++ be24 (3 + sniListLen certs)) (be24 (sniListLen certs))
      (certs.flatMap certEntry) (by simp [tlsCertificates]) rfl rfl (by rw [beNat_be24, hlen]; omega)

theorem tls_certificates_roundtrip (certs : List Bytes) (r : Bytes)
    (hc : ∀ c ∈ certs, c.length < 16777216) (hl : 3 + sniListLen certs < 16777216) :
    parseCertificates (tlsCertificates certs ++ r) = some (certs, r) :=
  parseCertificates_tlsCertificates certs r hc hl

/-! ## 5. hellos

The builders take `sessionid`, `ciphers`, `compression` as byte strings the script has already
framed (`mid` below is their concatenation) and frame only the handshake header and the optional
extensions block.  `helloLen mid ext = 34 + |mid| + (0 | 2) + |ext|`. -/

/-- handshake header of either hello: the 24-bit length is `34 + |mid| + (2 if ext ≠ [] else 0) + |ext|`
and that is exactly what follows -/
theorem tls_hello_exact (typ ver : Nat) (random mid ext : Bytes) (hr : random.length = 32)
    (h : helloLen mid ext < 16777216) :
    declared 1 3 (tlsHello typ ver random mid ext) = helloLen mid ext ∧
    LenFieldExact 1 3 (tlsHello typ ver random mid ext) := by
  have hb := helloBody_length ver random mid ext hr
  have hx := lenFieldExact_of 1 3 _ [b8 typ] (be24 (be16 ver ++ random ++ mid ++ extBlock ext).length)
    (be16 ver ++ random ++ mid ++ extBlock ext) (tlsHello_eq typ ver random mid ext hr) rfl rfl
    (by rw [beNat_be24, hb]; omega)
  refine ⟨?_, hx⟩
  rw [hx.2, ← hb, tlsHello_eq typ ver random mid ext hr]
  simp [following]

/-- the extensions block, when present, sits right after `mid` and declares exactly `|ext|` -/
theorem tls_hello_ext_exact (typ ver : Nat) (random mid ext : Bytes) (hr : random.length = 32)
    (hne : ext ≠ []) (h : ext.length < 65536) :
    declared (38 + mid.length) 2 (tlsHello typ ver random mid ext) = ext.length ∧
    LenFieldExact (38 + mid.length) 2 (tlsHello typ ver random mid ext) := by
  have hpos : ext.length > 0 := List.length_pos_iff.mpr hne
  have hx := lenFieldExact_of (38 + mid.length) 2 (tlsHello typ ver random mid ext)
    ([b8 typ] ++ be24 (helloLen mid ext) ++ be16 ver ++ random ++ mid) (be16 ext.length) ext
    (by simp [tlsHello, hpos, helloLen]) (by simp [hr]; omega) rfl (by rw [beNat_be16]; omega)
  refine ⟨?_, hx⟩
  rw [hx.2]
  simp [following, tlsHello, hpos, hr]
  omega

/-- without extensions nothing follows `mid` -/
theorem tls_hello_noext (typ ver : Nat) (random mid : Bytes) :
    tlsHello typ ver random mid [] = [b8 typ] ++ be24 (34 + mid.length) ++ be16 ver ++ random ++ mid := by
  simp [tlsHello]

/-- generic hello header: for every `mid` and every `ext` (absent or present) the handshake parser
returns type, version, random and `mid ++ [len16 ext]` and stops exactly at the end -/
theorem tls_hello_header_roundtrip (typ ver : Nat) (random mid ext r : Bytes) (hr : random.length = 32)
    (h : helloLen mid ext < 16777216) :
    parseHelloHeader (tlsHello typ ver random mid ext ++ r) =
      some ((typ % 256, ver % 65536, random, mid ++ extBlock ext), r) :=
  parseHelloHeader_tlsHello typ ver random mid ext r hr h

/-- ClientHello built from properly framed parts parses completely; `extensions` is `none` exactly
when no extension bytes were supplied -/
theorem tls_client_hello_roundtrip (ver : Nat) (sid : Bytes) (ids : List Nat) (comp ext r : Bytes)
    (hs : sid.length < 256) (hi : ids.length * 2 < 65536) (hc : comp.length < 256) (he : ext.length < 65536)
    (hl : helloLen (lenU8 sid ++ tlsCiphers ids ++ lenU8 comp) ext < 16777216) :
    parseClientHello (tlsClientHello ver (lenU8 sid) (tlsCiphers ids) (lenU8 comp) ext ++ r) =
      some (⟨ver % 65536, clientRandom, sid, ids.map (· % 65536), comp,
             if ext = [] then none else some ext⟩, r) :=
  parseClientHello_tlsClientHello ver sid ids comp ext r hs hi hc he hl

theorem tls_client_hello_exact (ver : Nat) (sid ciphers comp ext : Bytes)
    (h : helloLen (sid ++ ciphers ++ comp) ext < 16777216) :
    declared 1 3 (tlsClientHello ver sid ciphers comp ext) = helloLen (sid ++ ciphers ++ comp) ext ∧
    LenFieldExact 1 3 (tlsClientHello ver sid ciphers comp ext) :=
  tls_hello_exact 1 ver clientRandom _ ext clientRandom_length h

theorem tls_server_hello_roundtrip (ver : Nat) (sid : Bytes) (cipher compression : Nat) (ext r : Bytes)
    (hs : sid.length < 256) (he : ext.length < 65536)
    (hl : helloLen (lenU8 sid ++ be16 cipher ++ [b8 compression]) ext < 16777216) :
    parseServerHello (tlsServerHello ver (lenU8 sid) cipher compression ext ++ r) =
      some (⟨ver % 65536, serverRandom, sid, cipher % 65536, compression % 256,
             if ext = [] then none else some ext⟩, r) :=
  parseServerHello_tlsServerHello ver sid cipher compression ext r hs he hl

theorem tls_server_hello_exact (ver : Nat) (sid : Bytes) (cipher comp : Nat) (ext : Bytes)
    (h : helloLen (sid ++ be16 cipher ++ [b8 comp]) ext < 16777216) :
    declared 1 3 (tlsServerHello ver sid cipher comp ext) = helloLen (sid ++ be16 cipher ++ [b8 comp]) ext ∧
    LenFieldExact 1 3 (tlsServerHello ver sid cipher comp ext) :=
  tls_hello_exact 2 ver serverRandom _ ext serverRandom_length h

/-! ## 6. DHCP options, DNS resource-record data -/

theorem dhcp_option_exact (opt : Nat) (data : Bytes) (h : data.length < 256) :
    LenFieldExact 1 1 (dhcpOption opt data) :=
  lenFieldExact_of 1 1 _ [b8 opt] [b8 data.length] data rfl rfl rfl (by rw [beNat_b8]; omega)
theorem dhcp_option_roundtrip (opt : Nat) (data r : Bytes) (h : data.length < 256) :
    parseDhcpOption (dhcpOption opt data ++ r) = some ((opt % 256, data), r) :=
  parseDhcpOption_dhcpOption opt data r h

/-- RDLENGTH (at offset `|name| + 8`) declares exactly the RDATA -/
theorem dns_answer_exact (name : Bytes) (t c ttl : Nat) (data : Bytes) (h : data.length < 65536) :
    LenFieldExact (name.length + 8) 2 (dnsAnswer name t c ttl data) :=
  lenFieldExact_of (name.length + 8) 2 _ (name ++ be16 t ++ be16 c ++ be32 ttl) (be16 data.length) data
    (by simp [dnsAnswer]) (by simp) rfl (by rw [beNat_be16]; omega)
theorem dns_answer_roundtrip (name : Bytes) (t c ttl : Nat) (data r : Bytes) (h : data.length < 65536) :
    parseRR name.length (dnsAnswer name t c ttl data ++ r) =
      some ((name, ⟨t % 65536, c % 65536, ttl % 4294967296, data⟩), r) :=
  parseRR_dnsAnswer name t c ttl data r h

end Resynth.C15

namespace Resynth.C15
open Spec Wire

/-! ## 7. nesting: round trips compose

A length-prefixed value inside an extension inside a ClientHello inside a TLS record: peeling the
layers with the independent parsers, in order, recovers every supplied part and the innermost
payload, with nothing left over at any level.  The only hypotheses are the ones of the individual
layers; all of them follow from "the hello fits the record" except the three script-framed fields. -/
theorem nesting_roundtrip (rver rcontent ver : Nat) (sid : Bytes) (ids : List Nat) (comp : Bytes) (e : Nat)
    (x rest : Bytes) (hs : sid.length < 256) (hi : ids.length * 2 < 65536) (hc : comp.length < 256)
    (hfit : (tlsClientHello ver (lenU8 sid) (tlsCiphers ids) (lenU8 comp) (tlsExtension e (lenBe16 x))).length
              < 65536) :
    (do let (c, v, p, r0) ← parseTlsRecord
          (tlsMessage rver rcontent
            (tlsClientHello ver (lenU8 sid) (tlsCiphers ids) (lenU8 comp) (tlsExtension e (lenBe16 x))) ++ rest)
        let (hello, r1) ← parseClientHello p
        let blk ← hello.extensions
        let ((t, d), r2) ← parseExtension blk
        let (y, r3) ← parseLenPrefixed 2 d
        some (c, v, hello.version, hello.sessionId, hello.ciphers, hello.compression, t, y, r0, r1, r2, r3))
      = some (rcontent % 256, rver % 65536, ver % 65536, sid, ids.map (· % 65536), comp, e % 65536, x,
              rest, [], [], []) := by
  have hlen := tlsHello_length 1 ver clientRandom (lenU8 sid ++ tlsCiphers ids ++ lenU8 comp)
    (tlsExtension e (lenBe16 x)) clientRandom_length
  have hel := tlsExtension_length e (lenBe16 x)
  have hxl := lenBe16_length x
  unfold tlsClientHello at hfit
  have hhl : helloLen (lenU8 sid ++ tlsCiphers ids ++ lenU8 comp) (tlsExtension e (lenBe16 x)) ≥
      34 + 2 + (tlsExtension e (lenBe16 x)).length := by
    unfold helloLen; rw [if_pos (by omega)]; omega
  have hne : tlsExtension e (lenBe16 x) ≠ [] := tlsExtension_ne_nil _ _
  have h1 := parseTlsRecord_tlsMessage rver rcontent
    (tlsClientHello ver (lenU8 sid) (tlsCiphers ids) (lenU8 comp) (tlsExtension e (lenBe16 x))) rest hfit
  have h2 := parseClientHello_tlsClientHello ver sid ids comp (tlsExtension e (lenBe16 x)) [] hs hi hc
    (by omega) (by omega)
  have h3 := parseExtension_tlsExtension e (lenBe16 x) [] (by omega)
  have h4 := len_be16_roundtrip x [] (by omega)
  simp only [List.append_nil] at h2 h3 h4
  simp [h1, h2, hne, h3, h4]

/-- the same through `exec`: three nested library calls, then the three parsers -/
theorem nesting_exec (fs : Fs) (h : Heap) (x rest : Bytes) (hx : x.length < 60000) :
    ∃ inner ext hello msg,
      exec fs "std::len_be16" none ⟨[], [.str x]⟩ h = .ok (.str inner, h) ∧
      exec fs "tls::extension" none ⟨[.u16 16], [.str inner]⟩ h = .ok (.str ext, h) ∧
      exec fs "tls::client_hello" none ⟨[.u16 0x0303, .str [0], .str [0, 2, 0, 0], .str [1, 0]], [.str ext]⟩ h
        = .ok (.str hello, h) ∧
      exec fs "tls::message" none ⟨[.u16 0x0303, .u8 22], [.str hello]⟩ h = .ok (.str msg, h) ∧
      (do let (_, _, p, _) ← parseTlsRecord (msg ++ rest)
          let (hello, _) ← parseClientHello p
          let blk ← hello.extensions
          let ((t, d), _) ← parseExtension blk
          let (y, _) ← parseLenPrefixed 2 d
          some (t, y)) = some (16, x) := by
  refine ⟨lenBe16 x, tlsExtension 16 (lenBe16 x),
    tlsClientHello 0x0303 (lenU8 []) (tlsCiphers [0]) (lenU8 [0]) (tlsExtension 16 (lenBe16 x)),
    tlsMessage 0x0303 22 (tlsClientHello 0x0303 (lenU8 []) (tlsCiphers [0]) (lenU8 [0])
      (tlsExtension 16 (lenBe16 x))), ?_, ?_, ?_, ?_, ?_⟩
  · simpa using exec_len_be16 fs h [.str x] [x] rfl
  · simpa using exec_tls_extension fs h (.u16 16) 16 rfl [.str (lenBe16 x)] [lenBe16 x] rfl
  · have e1 : lenU8 ([] : Bytes) = [0] := by decide
    have e2 : tlsCiphers [0] = [0, 2, 0, 0] := by decide
    have e3 : lenU8 [0] = [1, 0] := by decide
    rw [e1, e2, e3]
    simpa using exec_tls_client_hello fs h (.u16 0x0303) 0x0303 rfl [0] [0, 2, 0, 0] [1, 0]
      [.str (tlsExtension 16 (lenBe16 x))] [tlsExtension 16 (lenBe16 x)] rfl
  · simpa using exec_tls_message fs h (.u16 0x0303) (.u8 22) 0x0303 22 rfl rfl
      [.str (tlsClientHello 0x0303 (lenU8 []) (tlsCiphers [0]) (lenU8 [0]) (tlsExtension 16 (lenBe16 x)))] [_] rfl
  · have hfit : (tlsClientHello 0x0303 (lenU8 []) (tlsCiphers [0]) (lenU8 [0])
        (tlsExtension 16 (lenBe16 x))).length < 65536 := by
      unfold tlsClientHello
      rw [tlsHello_length _ _ _ _ _ clientRandom_length, helloLen, tlsExtension_length, lenBe16_length]
      simp [lenU8, tlsCiphers]; split <;> omega
    have := nesting_roundtrip 0x0303 22 0x0303 [] [0] [0] 16 x rest (by simp) (by simp) (by simp) hfit
    simp only [Option.bind_eq_bind] at this ⊢
    revert this
    cases parseTlsRecord (tlsMessage 0x0303 22 (tlsClientHello 0x0303 (lenU8 []) (tlsCiphers [0]) (lenU8 [0])
      (tlsExtension 16 (lenBe16 x))) ++ rest) with
    | none => simp
    | some a =>
      obtain ⟨c, v, p, r0⟩ := a
      simp only [Option.bind_some]
      cases parseClientHello p with
      | none => simp
      | some b =>
        obtain ⟨hl, r1⟩ := b
        simp only [Option.bind_some]
        cases hl.extensions with
        | none => simp
        | some blk =>
          simp only [Option.bind_some]
          cases parseExtension blk with
          | none => simp
          | some q =>
            obtain ⟨⟨t, d⟩, r2⟩ := q
            simp only [Option.bind_some]
            cases parseLenPrefixed 2 d with
            | none => simp
            | some w =>
              obtain ⟨y, r3⟩ := w
              simp only [Option.bind_some, Option.some.injEq, Prod.mk.injEq]
              intro hh; exact ⟨hh.2.2.2.2.2.2.1, hh.2.2.2.2.2.2.2.1⟩

/-! ## 8. non-vacuity: the hypotheses are satisfiable on non-trivial inputs and the statements compute -/

example : parseLenPrefixed 2 (lenBe16 [1, 2, 3] ++ [9]) = some ([1, 2, 3], [9]) := by decide
example : LenFieldExact 3 2 (tlsMessage 0x0303 22 [1, 2, 3, 4]) := by decide
example : parseSni (tlsSni [[97, 46, 98], [99]] ++ [7]) = some ([[97, 46, 98], [99]], [7]) := by decide
example : parseCertificates (tlsCertificates [[1, 2], [], [3]]) = some ([[1, 2], [], [3]], []) := by decide
example : parseCipherList (tlsCiphers [0x1301, 0xc02f] ++ [1, 0]) = some ([0x1301, 0xc02f], [1, 0]) := by decide
example : parseDhcpOption (dhcpOption 53 [1] ++ [255]) = some ((53, [1]), [255]) := by decide
example : parseRR 2 (dnsAnswer [0xc0, 0x0c] 1 1 300 [10, 0, 0, 1]) =
    some (([0xc0, 0x0c], ⟨1, 1, 300, [10, 0, 0, 1]⟩), []) := by decide
/-- present and absent extensions -/
example : (parseClientHello (tlsClientHello 0x0303 (lenU8 []) (tlsCiphers [0x2f]) (lenU8 [0]) [])).map
    (·.1.extensions) = some none := by decide +kernel
example : (parseClientHello (tlsClientHello 0x0303 (lenU8 [5]) (tlsCiphers [0x2f]) (lenU8 [0])
    (tlsExtension 16 [1, 2]))).map (·.1.extensions) = some (some [0, 16, 0, 2, 1, 2]) := by decide +kernel
example : (parseServerHello (tlsServerHello 0x0303 (lenU8 [5]) 0x2f 0 (tlsSni [[97]]))).map
    (fun p => (p.1.sessionId, p.1.cipher, p.1.extensions)) =
    some ([5], 0x2f, some (tlsSni [[97]])) := by decide +kernel
/-- a length that does not fit is *not* exact (the hypothesis is needed): 256 bytes behind `len_u8` -/
example : ¬ LenFieldExact 0 1 (lenU8 (List.replicate 256 0)) := by decide +kernel

end Resynth.C15
