import Resynth.Lemmas.PayloadBufio
/-!
# C05 (the builder half) — payload fidelity

"The bytes a script supplies as the contents of a message, datagram, echo, frame, record or
fragment context appear verbatim and contiguously as the corresponding payload in the emitted
packet, for every byte value and every length … adjacent literals and the concatenation/CRLF-join
helpers join their parts in order, integers and addresses used as bytes contribute their
big-endian encoding, and a packet used as bytes contributes its frame.  Buffered reads hand out
consecutive, non-overlapping slices that together equal the original buffer."

The string-literal half is `Props/C05.lean`.  Here:

1. `payload_is_suffix_*` — every payload-carrying builder emits `headers ++ payload`, the headers
   having the fixed length of the encapsulation; no bound on the payload (the 16-bit length fields
   wrap, the bytes do not change);
2. `coerce_*` — what each kind of value contributes when used as bytes;
3. `join_*`, `text_*` — `join_extra`, `text::concat`, `text::crlflines`, `text::len`;
4. `*_carries_parts` — the builders reached through their `exec` arms with collected arguments;
5. `bufio_*` — buffered reads partition the buffer, for every history of calls.
-/
namespace Resynth.C05B
open Resynth Resynth.Wire Resynth.Payload

/-- `frame` consists of `N` bytes of headers followed by exactly `payload` -/
def PayloadAt (frame : Bytes) (N : Nat) (payload : Bytes) : Prop :=
  ∃ h : Bytes, frame = h ++ payload ∧ h.length = N

/-- the same, as a check that can be run on a captured frame -/
theorem payloadAt_iff (frame : Bytes) (N : Nat) (payload : Bytes) :
    PayloadAt frame N payload ↔ frame.length = N + payload.length ∧ frame.drop N = payload := by
  constructor
  · rintro ⟨h, rfl, rfl⟩
    simp
  · rintro ⟨hl, hd⟩
    refine ⟨frame.take N, ?_, ?_⟩
    · rw [← hd, List.take_append_drop]
    · rw [List.length_take]; omega

theorem ethLen_add (raw : Bool) (n : Nat) : ethLen raw + n = if raw then n else n + 14 := by
  cases raw <;> simp [Nat.add_comm]

/-! ## 1. the frame is headers ++ payload -/

/-! ### TCP -/

/-- `client_message`: the first frame of the result is 14+20+20 (raw: 20+20) header bytes and then
the message, whatever the message, the `send_ack` flag and the fragment-offset override are -/
theorem payload_is_suffix_clientMessage (f : TcpFlow) (bytes : Bytes) (sendAck : Bool) (fragOff : Nat) :
    ∃ fr rest, (f.clientMessage bytes sendAck fragOff).2 = fr :: rest ∧
      PayloadAt fr (if f.raw then 40 else 54) bytes := by
  obtain ⟨rest, hr, _⟩ := clientMessage_frames f bytes sendAck fragOff
  obtain ⟨hd, he, hl⟩ := clSeg_frame f bytes fragOff
  exact ⟨_, rest, hr, hd, he, by rw [hl, ethLen_add]⟩

theorem payload_is_suffix_serverMessage (f : TcpFlow) (bytes : Bytes) (sendAck : Bool) (fragOff : Nat) :
    ∃ fr rest, (f.serverMessage bytes sendAck fragOff).2 = fr :: rest ∧
      PayloadAt fr (if f.raw then 40 else 54) bytes := by
  obtain ⟨rest, hr, _⟩ := serverMessage_frames f bytes sendAck fragOff
  obtain ⟨hd, he, hl⟩ := svSeg_frame f bytes fragOff
  exact ⟨_, rest, hr, hd, he, by rw [hl, ethLen_add]⟩

/-- `client_segment` / `server_segment`: the frame of the returned segment object -/
theorem payload_is_suffix_clientDataSegment (f : TcpFlow) (bytes : Bytes) :
    PayloadAt (f.clientDataSegment bytes).2.frame (if f.raw then 40 else 54) bytes := by
  obtain ⟨hd, he, hl⟩ := clSeg_frame f bytes 0
  exact ⟨hd, he, by rw [hl, ethLen_add]⟩

theorem payload_is_suffix_serverDataSegment (f : TcpFlow) (bytes : Bytes) :
    PayloadAt (f.serverDataSegment bytes).2.frame (if f.raw then 40 else 54) bytes := by
  obtain ⟨hd, he, hl⟩ := svSeg_frame f bytes 0
  exact ⟨hd, he, by rw [hl, ethLen_add]⟩

/-- `client_raw_segment` / `server_raw_segment`: TCP header + payload -/
theorem payload_is_suffix_clientRawSegment (f : TcpFlow) (bytes : Bytes) :
    PayloadAt (f.clientDataSegment bytes).2.segment 20 bytes :=
  ⟨_, rfl, tcpSer_len _⟩

theorem payload_is_suffix_serverRawSegment (f : TcpFlow) (bytes : Bytes) :
    PayloadAt (f.serverDataSegment bytes).2.segment 20 bytes :=
  ⟨_, rfl, tcpSer_len _⟩

/-- any TCP segment object: `segment` is the 20-byte header followed by its data, `frame` prepends
the IP (and Ethernet) header to that -/
theorem payload_is_suffix_tcpSeg (s : TcpSeg) :
    PayloadAt s.segment 20 s.data ∧
    (s.eth.length = 14 → PayloadAt s.frame (if s.raw then 40 else 54) s.data) :=
  ⟨⟨_, rfl, tcpSer_len _⟩, fun he => ⟨_, tcpSeg_frame s, by rw [tcpSegHdr_len s he, ethLen_add]⟩⟩

/-! ### UDP -/

theorem payload_is_suffix_dgramCall (f : UdpFlow) (client : Bool) (fragOff : Nat) (csum : Bool) (bytes : Bytes) :
    PayloadAt (f.dgramCall client fragOff csum bytes) (if f.raw then 28 else 42) bytes := by
  have key : ∃ hd, f.dgramCall client fragOff csum bytes = hd ++ bytes ∧ hd.length = ethLen f.raw + 28 := by
    cases client <;> cases csum <;> exact udp_frame_of _ bytes f.raw ⟨rfl, rfl, rfl, rfl⟩
  obtain ⟨hd, he, hl⟩ := key
  exact ⟨hd, he, by rw [hl, ethLen_add]⟩

theorem payload_is_suffix_rawDgramCall (f : UdpFlow) (client : Bool) (csum : Bool) (bytes : Bytes) :
    PayloadAt (f.rawDgramCall client csum bytes) 8 bytes := by
  cases client <;> cases csum <;> exact udp_dgram_of _ bytes rfl

theorem payload_is_suffix_udpUnicast (src dst : Sock) (raw : Bool) (buf : Bytes) :
    PayloadAt (udpUnicast src dst raw buf) (if raw then 28 else 42) buf := by
  obtain ⟨hd, he, hl⟩ := udp_frame_of ((((UdpDgram.new raw).src src).dst dst).push buf) buf raw ⟨rfl, rfl, rfl, rfl⟩
  exact ⟨hd, he, by rw [hl, ethLen_add]⟩

theorem payload_is_suffix_udpBroadcast (src dst : Sock) (srcip : Option Nat) (raw : Bool) (buf : Bytes) :
    PayloadAt (udpBroadcast src dst srcip raw buf) (if raw then 28 else 42) buf := by
  have key : ∃ hd, udpBroadcast src dst srcip raw buf = hd ++ buf ∧ hd.length = ethLen raw + 28 := by
    cases srcip <;> exact udp_frame_of _ buf raw ⟨rfl, rfl, rfl, rfl⟩
  obtain ⟨hd, he, hl⟩ := key
  exact ⟨hd, he, by rw [hl, ethLen_add]⟩

/-! ### ICMP echo -/

theorem payload_is_suffix_echo (f : IcmpFlow) (bytes : Bytes) :
    PayloadAt (f.echo bytes).2 (if f.raw then 28 else 42) bytes := by
  obtain ⟨hd, he, hl⟩ := icmpEcho_frame f.cl f.sv f.raw 8 f.id f.pingSeq bytes
  exact ⟨hd, he, by rw [hl, ethLen_add]⟩

theorem payload_is_suffix_echoReply (f : IcmpFlow) (bytes : Bytes) :
    PayloadAt (f.echoReply bytes).2 (if f.raw then 28 else 42) bytes := by
  obtain ⟨hd, he, hl⟩ := icmpEcho_frame f.sv f.cl f.raw 0 f.id f.pongSeq bytes
  exact ⟨hd, he, by rw [hl, ethLen_add]⟩

/-! ### raw IP datagrams and fragments -/

theorem payload_is_suffix_ipv4Datagram (src dst id : Nat) (evil df mf : Bool) (ttl fragOff proto : Nat)
    (data : Bytes) :
    PayloadAt (ipv4Datagram src dst id evil df mf ttl fragOff proto data) 34 data :=
  ipv4Datagram_frame src dst id evil df mf ttl fragOff proto data

theorem payload_is_suffix_ipFragDatagram (f : IpFrag) (raw : Bool) :
    PayloadAt (f.datagram raw) (if raw then 20 else 34) f.payload := by
  obtain ⟨hd, he, hl⟩ := ipDgramFrag_frame f.hdr f.payload raw 0 false
  exact ⟨hd, he, by rw [hl, ethLen_add]⟩

/-- `fragment(off, len)`: the fragment carries the bytes `[s, e)` of the stored payload where
`e = min (8·off + 8·len) |payload|` and `s = min (8·off) e` -/
theorem payload_is_suffix_ipFragFragment (f : IpFrag) (off len : Nat) (raw : Bool) :
    PayloadAt (f.fragment off len raw) (if raw then 20 else 34)
      ((f.payload.drop (min (off * 8) (min (off * 8 + len * 8) f.payload.length))).take
        (min (off * 8 + len * 8) f.payload.length - min (off * 8) (min (off * 8 + len * 8) f.payload.length))) := by
  obtain ⟨hd, he, hl⟩ := ipDgramFrag_frame f.hdr
    ((f.payload.drop (min (off * 8) (min (off * 8 + len * 8) f.payload.length))).take
        (min (off * 8 + len * 8) f.payload.length - min (off * 8) (min (off * 8 + len * 8) f.payload.length)))
    raw off (min (off * 8 + len * 8) f.payload.length != f.payload.length)
  exact ⟨hd, he, by rw [hl, ethLen_add]⟩

/-! ### tunnels: the inner frame is a suffix -/

/-- VXLAN: Ethernet + IP + UDP + 8-byte VXLAN header, then the inner frame -/
theorem payload_is_suffix_vxlanEncap (f : VxlanFlow) (inner : Bytes) :
    PayloadAt (f.encap inner) (if f.raw then 36 else 50) inner := by
  refine ⟨udpDgramHdr (((((UdpDgram.new f.raw).src f.cl).dst f.sv).push (vxlanHdr f.vni)).push inner) ++
    vxlanHdr f.vni, ?_, ?_⟩
  · rw [VxlanFlow.encap, udpDgram_frame, List.append_assoc]; rfl
  · rw [List.length_append, udpDgramHdr_len _ rfl rfl]
    show ethLen f.raw + 28 + 8 = _
    rw [Nat.add_assoc, ethLen_add]

/-- GRE: Ethernet + IP + 4-byte GRE header (+ 4-byte sequence number iff the S flag 0x1000 is set) -/
theorem payload_is_suffix_greEncap (f : GreFlow) (inner : Bytes) :
    PayloadAt (f.encap inner).2 ((if f.raw then 24 else 38) + (if f.flags &&& 0x1000 != 0 then 4 else 0)) inner := by
  obtain ⟨hd, he, hl⟩ := grePush_suffix ((GreFrame.new f.cl f.sv f.flags f.ethertype f.raw).seq f.seq) inner
    (ethLen f.raw + 24 + greSeqLen f.flags) (by rw [greNew_hdr_len]; rfl)
  exact ⟨hd, he, by rw [hl, ethLen_add]; rfl⟩

/-- ERSPAN type I: Ethernet + IP + 4-byte GRE header -/
theorem payload_is_suffix_erspan1Encap (f : Erspan1Flow) (inner : Bytes) :
    PayloadAt (f.encap inner) (if f.raw then 24 else 38) inner := by
  obtain ⟨hd, he, hl⟩ := grePush_suffix (GreFrame.new f.cl f.sv 0 0x88be f.raw) inner
    (ethLen f.raw + 24 + greSeqLen 0) (by rw [greNew_hdr_len']; rfl)
  exact ⟨hd, he, by rw [hl]; show ethLen f.raw + 24 = _; rw [ethLen_add]⟩

/-- ERSPAN type II: Ethernet + IP + GRE with sequence number (8) + 8-byte ERSPAN header -/
theorem payload_is_suffix_erspan2Encap (f : Erspan2Flow) (inner : Bytes) (portIndex : Nat) :
    PayloadAt (f.encap inner portIndex).2 (if f.raw then 36 else 50) inner := by
  obtain ⟨hd, he, hl⟩ := grePush_suffix
    (((GreFrame.new f.cl f.sv 0x1000 0x88be f.raw).seq f.seq).push (erspan2Hdr f.sessionId portIndex)) inner
    (ethLen f.raw + 24 + greSeqLen 0x1000 + 8) (by rw [grePush_hdr_len, greNew_hdr_len]; rfl)
  exact ⟨hd, he, by rw [hl]; show ethLen f.raw + 36 = _; rw [ethLen_add]⟩

/-! ### `eth::frame` -/

/-- `eth::frame(src, dst, ethertype, *payload)` with 6-byte addresses: destination, source, type
(big endian), then the payload parts in order; 14 bytes of header -/
theorem payload_is_suffix_ethFrame (fs : Fs) (h : Heap) (this : Option Nat) (src dst et : Val) (s d : Bytes) (n : Nat)
    (hs : src.toBuf? = some s) (hd : dst.toBuf? = some d) (het : et.toNat? = some n)
    (hs6 : s.length = 6) (hd6 : d.length = 6)
    (x : List Val) (bufs : List Bytes) (hx : x.mapM (m := Option) Val.toBuf? = some bufs) :
    exec fs "eth::frame" this ⟨[src, dst, et], x⟩ h =
        .ok (.pkt (Packet.ofFrame (d ++ s ++ be16 (n % 65536) ++ concatParts bufs)), h) ∧
      PayloadAt (d ++ s ++ be16 (n % 65536) ++ concatParts bufs) 14 (concatParts bufs) :=
  ⟨exec_eth_frame fs h this src dst et s d n hs hd het hs6 hd6 x bufs hx,
   _, rfl, by simp [hs6, hd6, be16]⟩

/-! ## 2. what a value contributes when used as bytes -/

/-- an integer of width `w` bytes contributes `b` with `|b| = w` and big-endian value `n mod 2^(8w)`;
`IsBe w n b` pins `b` down completely (`coerce_unique`) -/
theorem coerce_u8 (n : Nat) : ∃ b, (Val.u8 n).toBuf? = some b ∧ b.length = 1 ∧ beNat b = n % 2 ^ 8 :=
  toBuf_u8 n
theorem coerce_u16 (n : Nat) : ∃ b, (Val.u16 n).toBuf? = some b ∧ b.length = 2 ∧ beNat b = n % 2 ^ 16 :=
  toBuf_u16 n
theorem coerce_u32 (n : Nat) : ∃ b, (Val.u32 n).toBuf? = some b ∧ b.length = 4 ∧ beNat b = n % 2 ^ 32 :=
  toBuf_u32 n
theorem coerce_u64 (n : Nat) : ∃ b, (Val.u64 n).toBuf? = some b ∧ b.length = 8 ∧ beNat b = n % 2 ^ 64 :=
  toBuf_u64 n
/-- an address contributes its four octets, most significant first -/
theorem coerce_ip4 (a : Nat) :
    (Val.ip4 a).toBuf? = some (be32 a) ∧ (be32 a).length = 4 ∧ beNat (be32 a) = a % 2 ^ 32 :=
  ⟨rfl, rfl, beNat_be32 a⟩
/-- a packet contributes its frame -/
theorem coerce_pkt (p : Packet) : (Val.pkt p).toBuf? = some p.frame := rfl
/-- a byte string contributes itself -/
theorem coerce_str (s : Bytes) : (Val.str s).toBuf? = some s := rfl

/-- length and big-endian value determine the bytes: there is exactly one `w`-byte encoding -/
theorem coerce_unique (a b : Bytes) (hl : a.length = b.length) (hv : beNat a = beNat b) : a = b :=
  beNat_inj a b hl hv

/-- the values that can be used as bytes are exactly those of a string-coercible type -/
theorem coerce_defined_iff (v : Val) : v.toBuf?.isSome = v.valType.isStringCoercible :=
  toBuf_isSome_iff v

/-! ## 3. joins -/

/-- the reference joins agree with `List.intercalate` / `List.flatten` -/
theorem join_spec_eq (sep : Bytes) (parts : List Bytes) :
    joinWith sep parts = sep.intercalate parts ∧ concatParts parts = parts.flatten ∧
      joinWith [] parts = concatParts parts ∧ crlfJoin parts = [13, 10].intercalate parts :=
  ⟨joinWith_eq_intercalate sep parts, concatParts_eq_flatten parts, joinWith_nil parts,
   joinWith_eq_intercalate _ parts⟩

/-- `bufs` is the list of contributions of the parts: same length, `bufs[i]` is what `x[i]` coerces to -/
theorem join_parts_pointwise (x : List Val) (bufs : List Bytes) (hx : x.mapM (m := Option) Val.toBuf? = some bufs) :
    bufs.length = x.length ∧
      ∀ (i : Nat) (hi : i < x.length) (hj : i < bufs.length), x[i].toBuf? = some bufs[i] :=
  ⟨mapM_toBuf_length x bufs hx, mapM_toBuf_get x bufs hx⟩

/-- when every part is string-coercible the contributions exist … -/
theorem join_parts_exist (x : List Val) (hx : ∀ v ∈ x, v.valType.isStringCoercible = true) :
    ∃ bufs, x.mapM (m := Option) Val.toBuf? = some bufs :=
  parts_exist x hx

/-- … and `join_extra(b"")` is their concatenation, in order -/
theorem join_concat (x : List Val) (bufs : List Bytes) (hx : x.mapM (m := Option) Val.toBuf? = some bufs) :
    joinExtra x [] = .ok (concatParts bufs) :=
  joinExtra_concat x bufs hx

/-- `join_extra(b"\r\n")`: the contributions with CR LF between neighbours -/
theorem join_crlf (x : List Val) (bufs : List Bytes) (hx : x.mapM (m := Option) Val.toBuf? = some bufs) :
    joinExtra x [13, 10] = .ok (crlfJoin bufs) :=
  joinExtra_crlf x bufs hx

/-- any separator -/
theorem join_sep (x : List Val) (sep : Bytes) (bufs : List Bytes) (hx : x.mapM (m := Option) Val.toBuf? = some bufs) :
    joinExtra x sep = .ok (joinWith sep bufs) :=
  joinExtra_sep x sep bufs hx

/-- the three facts together, from the typing condition the argument binder enforces -/
theorem join_of_coercible (x : List Val) (hx : ∀ v ∈ x, v.valType.isStringCoercible = true) :
    ∃ bufs : List Bytes, bufs.length = x.length ∧
      (∀ (i : Nat) (hi : i < x.length) (hj : i < bufs.length), x[i].toBuf? = some bufs[i]) ∧
      joinExtra x [] = .ok (concatParts bufs) ∧ joinExtra x [13, 10] = .ok (crlfJoin bufs) := by
  obtain ⟨bufs, hb⟩ := parts_exist x hx
  exact ⟨bufs, mapM_toBuf_length x bufs hb, mapM_toBuf_get x bufs hb, joinExtra_concat x bufs hb,
    joinExtra_crlf x bufs hb⟩

/-- a part that is not string-coercible (the binder rejects such calls) makes the conversion panic -/
theorem join_panics_on_noncoercible (pre : List Val) (v : Val) (post : List Val) (sep : Bytes) (bufs : List Bytes)
    (hpre : pre.mapM (m := Option) Val.toBuf? = some bufs) (hv : v.toBuf? = none) :
    joinExtra (pre ++ v :: post) sep = .panic "join_extra: Buf::from" :=
  joinExtra_panic pre v post sep bufs hpre hv

theorem text_concat (fs : Fs) (this : Option Nat) (h : Heap) (x : List Val) (bufs : List Bytes)
    (hx : x.mapM (m := Option) Val.toBuf? = some bufs) :
    exec fs "text::concat" this ⟨[], x⟩ h = .ok (.str (concatParts bufs), h) :=
  exec_text_concat fs this h x bufs hx

theorem text_crlflines (fs : Fs) (this : Option Nat) (h : Heap) (x : List Val) (bufs : List Bytes)
    (hx : x.mapM (m := Option) Val.toBuf? = some bufs) :
    exec fs "text::crlflines" this ⟨[], x⟩ h = .ok (.str (crlfJoin bufs), h) :=
  exec_text_crlflines fs this h x bufs hx

theorem text_len (fs : Fs) (this : Option Nat) (h : Heap) (x : List Val) (bufs : List Bytes)
    (hx : x.mapM (m := Option) Val.toBuf? = some bufs) :
    exec fs "text::len" this ⟨[], x⟩ h = .ok (.u64 (concatParts bufs).length, h) ∧
      (concatParts bufs).length = (bufs.map List.length).sum :=
  ⟨exec_text_len fs this h x bufs hx, concatParts_length bufs⟩

/-! ## 4. builders reached through `exec` with collected arguments -/

section composed
variable (fs : Fs) (h : Heap)

/-- `flow.client_message(send_ack:, seq:, ack:, frag_off:, *parts)`: the first packet of the result
ends with the contributions of the parts, in order, right after the headers -/
theorem client_message_carries_parts (f : TcpFlow) (i : Nat) (hi : h[i]? = some (.tcp f))
    (sa seq ack fo : Val) (b : Bool) (s a : Option Nat) (n : Nat)
    (hsa : sa.toBool? = some b) (hseq : seq.toOptU32? = some s) (hack : ack.toOptU32? = some a)
    (hfo : fo.toNat? = some n)
    (x : List Val) (bufs : List Bytes) (hx : x.mapM (m := Option) Val.toBuf? = some bufs) :
    ∃ fr rest h', exec fs "ipv4::tcp::TcpFlow.client_message" (some i) ⟨[sa, seq, ack, fo], x⟩ h =
        .ok (.pktgen (Packet.ofFrame fr :: rest), h') ∧
      PayloadAt fr (if f.raw then 40 else 54) (concatParts bufs) := by
  obtain ⟨fr, rest, hr, hp⟩ := payload_is_suffix_clientMessage (f.pushState s a).1 (concatParts bufs) b (n % 65536)
  refine ⟨fr, rest.map Packet.ofFrame,
    setObj h i (.tcp (((f.pushState s a).1.clientMessage (concatParts bufs) b (n % 65536)).1.popState
      (f.pushState s a).2)), ?_, hp⟩
  rw [exec_client_message fs h f i hi sa seq ack fo b s a n hsa hseq hack hfo x bufs hx, pktsOf, hr]
  rfl

theorem server_message_carries_parts (f : TcpFlow) (i : Nat) (hi : h[i]? = some (.tcp f))
    (sa seq ack fo : Val) (b : Bool) (s a : Option Nat) (n : Nat)
    (hsa : sa.toBool? = some b) (hseq : seq.toOptU32? = some s) (hack : ack.toOptU32? = some a)
    (hfo : fo.toNat? = some n)
    (x : List Val) (bufs : List Bytes) (hx : x.mapM (m := Option) Val.toBuf? = some bufs) :
    ∃ fr rest h', exec fs "ipv4::tcp::TcpFlow.server_message" (some i) ⟨[sa, seq, ack, fo], x⟩ h =
        .ok (.pktgen (Packet.ofFrame fr :: rest), h') ∧
      PayloadAt fr (if f.raw then 40 else 54) (concatParts bufs) := by
  obtain ⟨fr, rest, hr, hp⟩ := payload_is_suffix_serverMessage (f.pushState s a).1 (concatParts bufs) b (n % 65536)
  refine ⟨fr, rest.map Packet.ofFrame,
    setObj h i (.tcp (((f.pushState s a).1.serverMessage (concatParts bufs) b (n % 65536)).1.popState
      (f.pushState s a).2)), ?_, hp⟩
  rw [exec_server_message fs h f i hi sa seq ack fo b s a n hsa hseq hack hfo x bufs hx, pktsOf, hr]
  rfl

/-- `flow.client_message(text::crlflines(*lines))`: the message is the lines joined by CR LF -/
theorem client_message_carries_crlflines (f : TcpFlow) (i : Nat) (hi : h[i]? = some (.tcp f))
    (sa seq ack fo : Val) (b : Bool) (s a : Option Nat) (n : Nat)
    (hsa : sa.toBool? = some b) (hseq : seq.toOptU32? = some s) (hack : ack.toOptU32? = some a)
    (hfo : fo.toNat? = some n)
    (x : List Val) (bufs : List Bytes) (hx : x.mapM (m := Option) Val.toBuf? = some bufs) :
    ∃ v fr rest h', exec fs "text::crlflines" none ⟨[], x⟩ h = .ok (v, h) ∧
      exec fs "ipv4::tcp::TcpFlow.client_message" (some i) ⟨[sa, seq, ack, fo], [v]⟩ h =
        .ok (.pktgen (Packet.ofFrame fr :: rest), h') ∧
      PayloadAt fr (if f.raw then 40 else 54) (crlfJoin bufs) := by
  obtain ⟨fr, rest, h', he, hp⟩ := client_message_carries_parts fs h f i hi sa seq ack fo b s a n hsa hseq hack hfo
    [.str (crlfJoin bufs)] [crlfJoin bufs] rfl
  refine ⟨_, fr, rest, h', exec_text_crlflines fs none h x bufs hx, he, ?_⟩
  simpa [concatParts] using hp

theorem client_segment_carries_parts (f : TcpFlow) (i : Nat) (hi : h[i]? = some (.tcp f))
    (seq ack : Val) (s a : Option Nat) (hseq : seq.toOptU32? = some s) (hack : ack.toOptU32? = some a)
    (x : List Val) (bufs : List Bytes) (hx : x.mapM (m := Option) Val.toBuf? = some bufs) :
    ∃ fr h', exec fs "ipv4::tcp::TcpFlow.client_segment" (some i) ⟨[seq, ack], x⟩ h =
        .ok (.pkt (Packet.ofFrame fr), h') ∧
      PayloadAt fr (if f.raw then 40 else 54) (concatParts bufs) :=
  ⟨_, _, exec_client_segment fs h f i hi seq ack s a hseq hack x bufs hx,
   payload_is_suffix_clientDataSegment (f.pushState s a).1 (concatParts bufs)⟩

theorem client_raw_segment_carries_parts (f : TcpFlow) (i : Nat) (hi : h[i]? = some (.tcp f))
    (seq ack : Val) (s a : Option Nat) (hseq : seq.toOptU32? = some s) (hack : ack.toOptU32? = some a)
    (x : List Val) (bufs : List Bytes) (hx : x.mapM (m := Option) Val.toBuf? = some bufs) :
    ∃ sg h', exec fs "ipv4::tcp::TcpFlow.client_raw_segment" (some i) ⟨[seq, ack], x⟩ h = .ok (.str sg, h') ∧
      PayloadAt sg 20 (concatParts bufs) :=
  ⟨_, _, exec_client_raw_segment fs h f i hi seq ack s a hseq hack x bufs hx,
   payload_is_suffix_clientRawSegment (f.pushState s a).1 (concatParts bufs)⟩

/-- `ipv4::udp::unicast(src, dst, raw:, *parts)` -/
theorem udp_unicast_carries_parts (this : Option Nat) (src dst : Sock) (raw : Val) (r : Bool)
    (hr : raw.toBool? = some r)
    (x : List Val) (bufs : List Bytes) (hx : x.mapM (m := Option) Val.toBuf? = some bufs) :
    ∃ fr, exec fs "ipv4::udp::unicast" this ⟨[.sock4 src.ip src.port, .sock4 dst.ip dst.port, raw], x⟩ h =
        .ok (.pkt (Packet.ofFrame fr), h) ∧
      PayloadAt fr (if r then 28 else 42) (concatParts bufs) :=
  ⟨_, exec_udp_unicast fs h this src dst raw r hr x bufs hx, payload_is_suffix_udpUnicast src dst r _⟩

theorem udp_broadcast_carries_parts (this : Option Nat) (src dst : Sock) (srcip raw : Val) (o : Option Nat)
    (r : Bool) (ho : srcip.toOptIp? = some o) (hr : raw.toBool? = some r)
    (x : List Val) (bufs : List Bytes) (hx : x.mapM (m := Option) Val.toBuf? = some bufs) :
    ∃ fr, exec fs "ipv4::udp::broadcast" this
        ⟨[.sock4 src.ip src.port, .sock4 dst.ip dst.port, srcip, raw], x⟩ h = .ok (.pkt (Packet.ofFrame fr), h) ∧
      PayloadAt fr (if r then 28 else 42) (concatParts bufs) :=
  ⟨_, exec_udp_broadcast fs h this src dst srcip raw o r ho hr x bufs hx,
   payload_is_suffix_udpBroadcast src dst o r _⟩

theorem udp_client_dgram_carries_parts (f : UdpFlow) (i : Nat) (hi : h[i]? = some (.udp f))
    (fo cs : Val) (n : Nat) (c : Bool) (hfo : fo.toNat? = some n) (hcs : cs.toBool? = some c)
    (x : List Val) (bufs : List Bytes) (hx : x.mapM (m := Option) Val.toBuf? = some bufs) :
    ∃ fr, exec fs "ipv4::udp::UdpFlow.client_dgram" (some i) ⟨[fo, cs], x⟩ h = .ok (.pkt (Packet.ofFrame fr), h) ∧
      PayloadAt fr (if f.raw then 28 else 42) (concatParts bufs) :=
  ⟨_, exec_udp_client_dgram fs h f i hi fo cs n c hfo hcs x bufs hx, payload_is_suffix_dgramCall f true _ c _⟩

theorem udp_server_dgram_carries_parts (f : UdpFlow) (i : Nat) (hi : h[i]? = some (.udp f))
    (fo cs : Val) (n : Nat) (c : Bool) (hfo : fo.toNat? = some n) (hcs : cs.toBool? = some c)
    (x : List Val) (bufs : List Bytes) (hx : x.mapM (m := Option) Val.toBuf? = some bufs) :
    ∃ fr, exec fs "ipv4::udp::UdpFlow.server_dgram" (some i) ⟨[fo, cs], x⟩ h = .ok (.pkt (Packet.ofFrame fr), h) ∧
      PayloadAt fr (if f.raw then 28 else 42) (concatParts bufs) :=
  ⟨_, exec_udp_server_dgram fs h f i hi fo cs n c hfo hcs x bufs hx, payload_is_suffix_dgramCall f false _ c _⟩

/-- `icmp.echo(payload)`: the payload is ONE positional argument of any string-coercible type; the
packet ends with what it coerces to -/
theorem icmp_echo_carries_payload (f : IcmpFlow) (i : Nat) (hi : h[i]? = some (.icmp f))
    (payload : Val) (b : Bytes) (hp : payload.toBuf? = some b) :
    ∃ fr h', exec fs "ipv4::icmp::Icmp.echo" (some i) ⟨[payload], []⟩ h = .ok (.pkt (Packet.ofFrame fr), h') ∧
      PayloadAt fr (if f.raw then 28 else 42) b :=
  ⟨_, _, exec_icmp_echo fs h f i hi payload b hp, payload_is_suffix_echo f b⟩

theorem icmp_echo_reply_carries_payload (f : IcmpFlow) (i : Nat) (hi : h[i]? = some (.icmp f))
    (payload : Val) (b : Bytes) (hp : payload.toBuf? = some b) :
    ∃ fr h', exec fs "ipv4::icmp::Icmp.echo_reply" (some i) ⟨[payload], []⟩ h = .ok (.pkt (Packet.ofFrame fr), h') ∧
      PayloadAt fr (if f.raw then 28 else 42) b :=
  ⟨_, _, exec_icmp_echo_reply fs h f i hi payload b hp, payload_is_suffix_echoReply f b⟩

/-- `icmp.echo(text::concat(*parts))`: joined parts as the echo payload -/
theorem icmp_echo_carries_parts (f : IcmpFlow) (i : Nat) (hi : h[i]? = some (.icmp f))
    (x : List Val) (bufs : List Bytes) (hx : x.mapM (m := Option) Val.toBuf? = some bufs) :
    ∃ v fr h', exec fs "text::concat" none ⟨[], x⟩ h = .ok (v, h) ∧
      exec fs "ipv4::icmp::Icmp.echo" (some i) ⟨[v], []⟩ h = .ok (.pkt (Packet.ofFrame fr), h') ∧
      PayloadAt fr (if f.raw then 28 else 42) (concatParts bufs) :=
  ⟨_, _, _, exec_text_concat fs none h x bufs hx, exec_icmp_echo fs h f i hi _ _ rfl,
   payload_is_suffix_echo f _⟩

/-- `eth::frame(src, dst, type, *parts)` -/
theorem eth_frame_carries_parts (this : Option Nat) (src dst et : Val) (s d : Bytes) (n : Nat)
    (hs : src.toBuf? = some s) (hd : dst.toBuf? = some d) (het : et.toNat? = some n)
    (hs6 : s.length = 6) (hd6 : d.length = 6)
    (x : List Val) (bufs : List Bytes) (hx : x.mapM (m := Option) Val.toBuf? = some bufs) :
    ∃ fr, exec fs "eth::frame" this ⟨[src, dst, et], x⟩ h = .ok (.pkt (Packet.ofFrame fr), h) ∧
      PayloadAt fr 14 (concatParts bufs) :=
  ⟨_, (payload_is_suffix_ethFrame fs h this src dst et s d n hs hd het hs6 hd6 x bufs hx).1,
      (payload_is_suffix_ethFrame fs h this src dst et s d n hs hd het hs6 hd6 x bufs hx).2⟩

/-- `ipv4::datagram(src, dst, id:, evil:, df:, mf:, ttl:, frag_off:, proto:, *parts)` -/
theorem ipv4_datagram_carries_parts (this : Option Nat) (src dst : Nat) (id evil df mf ttl fo proto : Val)
    (nid nttl nfo nproto : Nat) (be bd bm : Bool)
    (h1 : id.toNat? = some nid) (h2 : evil.toBool? = some be) (h3 : df.toBool? = some bd)
    (h4 : mf.toBool? = some bm) (h5 : ttl.toNat? = some nttl) (h6 : fo.toNat? = some nfo)
    (h7 : proto.toNat? = some nproto)
    (x : List Val) (bufs : List Bytes) (hx : x.mapM (m := Option) Val.toBuf? = some bufs) :
    ∃ fr, exec fs "ipv4::datagram" this ⟨[.ip4 src, .ip4 dst, id, evil, df, mf, ttl, fo, proto], x⟩ h =
        .ok (.pkt (Packet.ofFrame fr), h) ∧
      PayloadAt fr 34 (concatParts bufs) :=
  ⟨_, exec_ipv4_datagram fs h this src dst id evil df mf ttl fo proto nid nttl nfo nproto be bd bm
        h1 h2 h3 h4 h5 h6 h7 x bufs hx,
   payload_is_suffix_ipv4Datagram ..⟩

/-- `ipv4::frag(…, *parts)` followed by `.datagram(raw:)` on the new object -/
theorem ipv4_frag_datagram_carries_parts (this : Option Nat) (src dst : Nat) (id evil df ttl proto : Val)
    (nid nttl nproto : Nat) (be bd : Bool)
    (h1 : id.toNat? = some nid) (h2 : evil.toBool? = some be) (h3 : df.toBool? = some bd)
    (h5 : ttl.toNat? = some nttl) (h7 : proto.toNat? = some nproto)
    (x : List Val) (bufs : List Bytes) (hx : x.mapM (m := Option) Val.toBuf? = some bufs)
    (raw : Val) (r : Bool) (hr : raw.toBool? = some r) :
    ∃ h1 fr, exec fs "ipv4::frag" this ⟨[.ip4 src, .ip4 dst, id, evil, df, ttl, proto], x⟩ h =
        .ok (.obj h.length "ipv4::IpFrag", h1) ∧
      exec fs "ipv4::IpFrag.datagram" (some h.length) ⟨[raw], []⟩ h1 = .ok (.pkt (Packet.ofFrame fr), h1) ∧
      PayloadAt fr (if r then 20 else 34) (concatParts bufs) :=
  ⟨_, _, exec_ipv4_frag fs h this src dst id evil df ttl proto nid nttl nproto be bd h1 h2 h3 h5 h7 x bufs hx,
   exec_ipfrag_datagram fs _ _ h.length List.getElem?_concat_length raw r hr,
   payload_is_suffix_ipFragDatagram _ r⟩

/-- `vxlan.dgram(pkt)`: a packet used as the payload contributes its frame -/
theorem vxlan_dgram_carries_frame (f : VxlanFlow) (i : Nat) (hi : h[i]? = some (.vxlan f)) (p : Packet) :
    ∃ fr, exec fs "vxlan::Vxlan.dgram" (some i) ⟨[.pkt p], []⟩ h = .ok (.pkt (Packet.ofFrame fr), h) ∧
      PayloadAt fr (if f.raw then 36 else 50) p.frame :=
  ⟨_, exec_vxlan_dgram fs h f i hi p, payload_is_suffix_vxlanEncap f p.frame⟩

end composed

/-! ## 5. buffered reads partition the buffer -/

/-- For EVERY history `ops` of `read(n)` / `read_all()` calls on a `BufIO` object that sits at heap
index `i` with nothing taken yet:
* every call succeeds and returns a byte string; the object ends with `taken = k`;
* `k ≤ |buf|`;
* the returned strings, concatenated in call order, are exactly the first `k` bytes of `buf`;
* the calls' `(taken before, slice, taken after)` triples are consecutive intervals of `buf`, each
  slice being exactly `buf[before, after)` (`Consec`), hence pairwise non-overlapping. -/
theorem bufio_partition (fs : Fs) (h : Heap) (i : Nat) (buf : Bytes) (hi : h[i]? = some (.bufio buf 0))
    (ops : List ReadOp) :
    runReads fs i h ops =
        .ok ((slices buf 0 ops).map Val.str, setObj h i (.bufio buf (finalTaken buf 0 ops))) ∧
      finalTaken buf 0 ops ≤ buf.length ∧
      concatParts (slices buf 0 ops) = buf.take (finalTaken buf 0 ops) ∧
      Consec buf 0 (trace buf 0 ops) (finalTaken buf 0 ops) ∧
      (trace buf 0 ops).Pairwise (fun e e' => e.2.2 ≤ e'.1) ∧
      (slices buf 0 ops).length = ops.length := by
  have hc := trace_consec buf ops 0 (Nat.zero_le _)
  refine ⟨runReads_eq fs i buf ops h 0 hi, (hc.bounds (Nat.zero_le _)).2, ?_, hc, hc.pairwise, ?_⟩
  · have := hc.concat (Nat.zero_le _)
    simpa [slices] using this
  · simp [slices, trace_length]

/-- the same, starting from `io::bufio(*parts)`: the buffer is the concatenation of the parts -/
theorem bufio_partition_from_alloc (fs : Fs) (h : Heap) (this : Option Nat)
    (x : List Val) (bufs : List Bytes) (hx : x.mapM (m := Option) Val.toBuf? = some bufs) (ops : List ReadOp) :
    exec fs "io::bufio" this ⟨[], x⟩ h =
        .ok (.obj h.length "io::BufIO", h ++ [.bufio (concatParts bufs) 0]) ∧
      runReads fs h.length (h ++ [.bufio (concatParts bufs) 0]) ops =
        .ok ((slices (concatParts bufs) 0 ops).map Val.str,
             h ++ [.bufio (concatParts bufs) (finalTaken (concatParts bufs) 0 ops)]) ∧
      concatParts (slices (concatParts bufs) 0 ops) =
        (concatParts bufs).take (finalTaken (concatParts bufs) 0 ops) := by
  obtain ⟨h1, _, h3, _⟩ := bufio_partition fs (h ++ [.bufio (concatParts bufs) 0]) h.length (concatParts bufs)
    List.getElem?_concat_length ops
  refine ⟨exec_bufio fs h this x bufs hx, ?_, h3⟩
  rw [h1, setObj, List.set_append_right _ _ (Nat.le_refl _)]
  simp

/-- each call in the middle of a history: with `t` = `taken` after the calls before it and `t'` =
`taken` after it, the call returns exactly `buf[t, t')`, and `t ≤ t' ≤ |buf|` -/
theorem bufio_slice_exact (buf : Bytes) (pre : List ReadOp) (op : ReadOp) (post : List ReadOp) :
    let t := finalTaken buf 0 pre
    let t' := finalTaken buf 0 (pre ++ [op])
    slices buf 0 (pre ++ op :: post) = slices buf 0 pre ++ [(buf.drop t).take (t' - t)] ++ slices buf t' post ∧
      t ≤ t' ∧ t' ≤ buf.length := by
  intro t t'
  have ht : t ≤ buf.length := ((trace_consec buf pre 0 (Nat.zero_le _)).bounds (Nat.zero_le _)).2
  have ht' : t' = (op.step buf t).2 := by
    show finalTaken buf 0 (pre ++ [op]) = _
    rw [finalTaken_append]; rfl
  obtain ⟨h1, h2, h3⟩ := step_slice buf t ht op
  refine ⟨?_, by omega, by omega⟩
  rw [slices_append, ht', ← h1, List.append_assoc]
  rfl

/-- a `read(n)` returns `min n (bytes left)` bytes -/
theorem bufio_read_length (buf : Bytes) (pre : List ReadOp) (n : Nat) (post : List ReadOp) :
    ∃ s, slices buf 0 (pre ++ .read n :: post) = slices buf 0 pre ++ [s] ++ slices buf (finalTaken buf 0 (pre ++ [.read n])) post ∧
      s.length = min n (buf.length - finalTaken buf 0 pre) := by
  refine ⟨((ReadOp.read n).step buf (finalTaken buf 0 pre)).1, ?_, step_read_length buf _ n⟩
  rw [slices_append, finalTaken_append, List.append_assoc]
  rfl

/-- after a `read_all()` everything has been handed out: the slices up to and including it
concatenate to the whole buffer, `taken = |buf|` from then on, and every later call returns the
empty string -/
theorem bufio_readAll_exhausts (buf : Bytes) (pre post : List ReadOp) :
    concatParts (slices buf 0 (pre ++ [.readAll])) = buf ∧
      slices buf 0 (pre ++ .readAll :: post) = slices buf 0 (pre ++ [.readAll]) ++ post.map (fun _ => []) ∧
      finalTaken buf 0 (pre ++ .readAll :: post) = buf.length := by
  have hc := trace_consec buf (pre ++ [.readAll]) 0 (Nat.zero_le _)
  have hf := finalTaken_readAll buf pre 0
  have e : pre ++ ReadOp.readAll :: post = (pre ++ [.readAll]) ++ post := by simp
  refine ⟨?_, ?_, ?_⟩
  · have := hc.concat (Nat.zero_le _)
    rw [hf] at this
    simpa [slices] using this
  · rw [e, slices_append, hf, (exhausted buf post).1]
  · rw [e, finalTaken_append, hf, (exhausted buf post).2]

/-- `taken` never exceeds the buffer length, from any in-range starting point -/
theorem bufio_taken_le (buf : Bytes) (t : Nat) (ht : t ≤ buf.length) (ops : List ReadOp) :
    t ≤ finalTaken buf t ops ∧ finalTaken buf t ops ≤ buf.length :=
  (trace_consec buf ops t ht).bounds ht

/-! ## non-vacuity -/

private def exFlow : TcpFlow := ⟨⟨0x0a000001, 1234⟩, ⟨0x0a000002, 80⟩, 1000, 2000, false⟩

example : ((exFlow.clientMessage [0x47, 0x45, 0x54, 0, 0xff] true 0).2.map (·.drop 54)) = [[0x47, 0x45, 0x54, 0, 0xff], []] := by
  decide
example : (exFlow.clientMessage [0x47, 0x45, 0x54, 0, 0xff] true 0).2.map List.length = [59, 54] := by decide
example : (udpUnicast ⟨1, 2⟩ ⟨3, 4⟩ true [1, 2, 3]).drop 28 = [1, 2, 3] := by decide
example : (({ cl := 1, sv := 2, raw := false } : IcmpFlow).echo [9, 8, 7]).2.drop 42 = [9, 8, 7] := by decide
example : (({ cl := 1, sv := 2, ethertype := 0x6558, raw := false, flags := 0x1000 } : GreFlow).encap [5, 6]).2.length = 44 := by
  decide
example : PayloadAt [1, 2, 3, 4, 5] 2 [3, 4, 5] := (payloadAt_iff _ _ _).mpr (by decide)
example : ¬ PayloadAt [1, 2, 3, 4, 5] 2 [3, 4] := fun h => absurd ((payloadAt_iff _ _ _).mp h) (by decide)

-- coercions
example : (Val.u16 0x1234).toBuf? = some [0x12, 0x34] := by decide
example : (Val.u32 0x1_0000_0001).toBuf? = some [0, 0, 0, 1] := by decide
example : (Val.ip4 0xc0a80001).toBuf? = some [192, 168, 0, 1] := by decide
example : (Val.bool true).toBuf? = none := rfl

-- joins
example : [Val.str [1], .u16 0x0203, .ip4 0x04050607, .pkt (Packet.ofFrame [8, 9])].mapM (m := Option) Val.toBuf? =
    some [[1], [2, 3], [4, 5, 6, 7], [8, 9]] := by decide
example : concatParts [[1], [2, 3], [], [4]] = [1, 2, 3, 4] := by decide
example : crlfJoin [[1], [2, 3], [], [4]] = [1, 13, 10, 2, 3, 13, 10, 13, 10, 4] := by decide
example : crlfJoin [[1, 2]] = [1, 2] := by decide
example : exec [] "text::crlflines" none ⟨[], [.str [65], .u8 66]⟩ [] = .ok (.str [65, 13, 10, 66], []) :=
  text_crlflines [] none [] _ [[65], [66]] (by decide)
example : joinExtra [.str [1], .bool true] [] = .panic "join_extra: Buf::from" :=
  joinExtra_panic [.str [1]] (.bool true) [] [] [[1]] (by decide) rfl

-- exec composition: hypotheses are satisfiable
example : ∃ fr rest h', exec [] "ipv4::tcp::TcpFlow.client_message" (some 0)
      ⟨[.bool true, .nil, .u32 7, .u16 0], [.str [71, 69, 84], .u8 32, .ip4 0x01020304]⟩ [.tcp exFlow] =
        .ok (.pktgen (Packet.ofFrame fr :: rest), h') ∧ PayloadAt fr 54 [71, 69, 84, 32, 1, 2, 3, 4] :=
  client_message_carries_parts [] [.tcp exFlow] exFlow 0 rfl _ _ _ _ true none (some 7) 0 rfl rfl rfl rfl _
    [[71, 69, 84], [32], [1, 2, 3, 4]] (by decide)

-- buffered reads
example : slices [1, 2, 3, 4, 5] 0 [.read 2, .read 0, .read 2, .read 7, .read 1] = [[1, 2], [], [3, 4], [5], []] := by
  decide
example : slices [1, 2, 3, 4, 5] 0 [.read 2, .readAll, .read 3, .readAll] = [[1, 2], [3, 4, 5], [], []] := by decide
example : trace [1, 2, 3, 4, 5] 0 [.read 2, .readAll, .read 3] =
    [(0, [1, 2], 2), (2, [3, 4, 5], 5), (5, [], 5)] := by decide
example : finalTaken [1, 2, 3, 4, 5] 0 [.read 2, .read 1] = 3 := by decide
example : runReads [] 1 [.bufio [] 0, .bufio [1, 2, 3] 0] [.read 2, .readAll] =
    .ok ([.str [1, 2], .str [3]], [.bufio [] 0, .bufio [1, 2, 3] 3]) :=
  (bufio_partition [] _ 1 [1, 2, 3] rfl _).1

end Resynth.C05B
