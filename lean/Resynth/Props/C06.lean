import Resynth.Lemmas.Tunnels
/-!
# C06 — Tunnels are transparent: inner frames survive VXLAN/GRE/ERSPAN encapsulation

"Encapsulating packets in a VXLAN, GRE, ERSPAN type I or ERSPAN type II session, nested to any
depth, yields exactly one outer packet per inner packet, in the same order, whose tunnel payload
is byte-identical to the inner frame and is preceded by a tunnel header carrying the session's
parameters (VXLAN: I flag and the 24-bit VNI on the session's UDP ports; GRE: the requested
protocol type; ERSPAN: GRE protocol 0x88be and, for type II, the sequence-present flag, version 1
and the requested port index).  Where the tunnel header carries a sequence number, it counts the
session's packets from zero."

Outer packets are decoded from bytes by the reference decoders of `Spec/Tunnel.lean`
(`decapVxlan` accepts only flags octet 0x08 = I and zero reserved octets, so a successful decode
*is* the I-flag clause) after `stripEth raw` (drops the 14-byte Ethernet header of a framed
packet).  `encapAll` is the stdlib `session.encap(gen)` loop, `history` a sequence of such calls
on one session (`Lemmas/Tunnels.lean`).  Size hypotheses say that the outer IPv4 datagram fits in
65535 bytes; parameter hypotheses are the widths of the Rust argument types / wire fields.
-/
namespace Resynth.C06
open Resynth Spec

/-! ## Per kind: one outer per inner, same order, identical payload, session's header fields -/

/-- VXLAN: every outer is IPv4/UDP on the session's ports with a VXLAN header carrying the I flag
and the session's VNI, followed by exactly the inner frame. -/
theorem vxlan_encapAll (f : VxlanFlow) (inners : List Bytes)
    (hcp : f.cl.port < 2 ^ 16) (hsp : f.sv.port < 2 ^ 16) (hv : f.vni < 2 ^ 24)
    (hfit : ∀ b ∈ inners, 36 + b.length ≤ 65535) :
    (f.encapAll inners).map (fun p => decapVxlan (stripEth f.raw p)) =
      inners.map fun b => some
        { srcPort := f.cl.port, dstPort := f.sv.port, vni := f.vni, inner := b } := by
  simp only [VxlanFlow.encapAll, List.map_map]
  apply List.map_congr_left
  intro b hb
  exact decapVxlan_encap f b hcp hsp hv (hfit b hb)

/-- GRE: the `i`-th outer carries the session's flags word and protocol type, the running counter
iff the S bit is set, and exactly the `i`-th inner frame.  (`f.flags &&& 0xe000 = 0`: no C/R/K
bits — the builder never emits those optional fields; stdlib sessions have `flags = 0`.) -/
theorem gre_encapAll (f : GreFlow) (inners : List Bytes)
    (hf : f.flags < 2 ^ 16) (hcrk : f.flags &&& 0xe000 = 0) (hp : f.ethertype < 2 ^ 16)
    (hfit : ∀ b ∈ inners, 24 + (if f.flags &&& 0x1000 ≠ 0 then 4 else 0) + b.length ≤ 65535) :
    (f.encapAll inners).2.length = inners.length ∧
    ∀ i (hi : i < inners.length),
      (f.encapAll inners).2[i]?.bind (fun p => decapGre (stripEth f.raw p)) = some
        { flags := f.flags, proto := f.ethertype
          seq := if f.flags &&& 0x1000 ≠ 0 then some ((f.seq + i) % 2 ^ 32) else none
          inner := inners[i] } :=
  ⟨f.encapAll_length inners, f.decap_encapAll inners hf hcrk hp hfit⟩

/-- GRE as the stdlib builds it (`gre::session` passes default flags): flags word 0, the requested
ethertype, NO sequence word — the inner frame follows the 4-byte GRE header directly — although
the session's counter is incremented. -/
theorem gre_default_flags (f : GreFlow) (inners : List Bytes)
    (hflags : f.flags = 0) (hp : f.ethertype < 2 ^ 16)
    (hfit : ∀ b ∈ inners, 24 + b.length ≤ 65535) :
    (f.encapAll inners).2.map (fun p => decapGre (stripEth f.raw p)) =
      (inners.map fun b => some { flags := 0, proto := f.ethertype, seq := none, inner := b }) ∧
    (f.encapAll inners).1.seq % 2 ^ 32 = (f.seq + inners.length) % 2 ^ 32 := by
  constructor
  · apply map_eq_of_getElem _ _ _ (fun b => ({ flags := 0, proto := f.ethertype, seq := none, inner := b } : Gre))
      (f.encapAll_length inners)
    intro i hi
    have := f.decap_encapAll inners (by omega) (by rw [hflags]; decide) hp
      (by intro b hb; have := hfit b hb; rw [hflags]; simpa using this) i hi
    simpa [hflags] using this
  · exact f.encapAll_seq inners

/-- ERSPAN type I: GRE with flags 0 (no sequence number) and protocol 0x88be, followed by exactly
the inner frame. -/
theorem erspan1_encapAll (f : Erspan1Flow) (inners : List Bytes)
    (hfit : ∀ b ∈ inners, 24 + b.length ≤ 65535) :
    (f.encapAll inners).map (fun p => decapGre (stripEth f.raw p)) =
      (inners.map fun b => some { flags := 0, proto := 0x88be, seq := none, inner := b }) ∧
    (f.encapAll inners).map (fun p => decapErspan1 (stripEth f.raw p)) = inners.map some := by
  simp only [Erspan1Flow.encapAll, List.map_map]
  constructor <;> apply List.map_congr_left <;> intro b hb
  · exact decapGre_erspan1 f b (hfit b hb)
  · exact decapErspan1_encap f b (hfit b hb)

/-- ERSPAN type II: the `i`-th outer is GRE with the S flag set and protocol 0x88be … -/
theorem erspan2_gre_header (f : Erspan2Flow) (b : Bytes) (portIndex : Nat)
    (hfit : 36 + b.length ≤ 65535) :
    ∃ g, decapGre (stripEth f.raw (f.encap b portIndex).2) = some g ∧
      g.flags = 0x1000 ∧ g.flags &&& greS ≠ 0 ∧ g.proto = 0x88be ∧ g.seq = some (f.seq % 2 ^ 32) :=
  ⟨_, decapGre_erspan2 f b portIndex hfit, rfl, by show 0x1000 &&& greS ≠ 0; decide, rfl, rfl⟩

/-- … whose ERSPAN header has version 1, VLAN 0, COS 0, En 3, T 0, the session id (always 0 for
sessions created by `erspan2::session`) and the requested port index, followed by exactly the
`i`-th inner frame; the GRE sequence number is the running counter. -/
theorem erspan2_encapAll (f : Erspan2Flow) (portIndex : Nat) (inners : List Bytes)
    (hs : f.sessionId < 2 ^ 10) (hpi : portIndex < 2 ^ 20)
    (hfit : ∀ b ∈ inners, 36 + b.length ≤ 65535) :
    (f.encapAll portIndex inners).2.length = inners.length ∧
    ∀ i (hi : i < inners.length),
      (f.encapAll portIndex inners).2[i]?.bind (fun p => decapErspan2 (stripEth f.raw p)) = some
        { seq := (f.seq + i) % 2 ^ 32, ver := 1, vlan := 0, cos := 0, en := 3, t := 0
          sessionId := f.sessionId, portIndex := portIndex, inner := inners[i] } := by
  rw [Erspan2Flow.encapAll_eq]
  refine ⟨by simp [Erspan2Flow.encapSeq_length], ?_⟩
  intro i hi
  have := f.decap_encapSeq (inners.map fun b => (portIndex, b)) hs
    (by intro b hb
        simp only [List.mem_map] at hb
        obtain ⟨b', hb', rfl⟩ := hb
        exact ⟨hpi, hfit b' hb'⟩) i (by simpa using hi)
  simpa using this

/-! ## One outer per inner, in order, byte-identical payload (all four kinds) -/

theorem encap_one_per_inner :
    (∀ (f : VxlanFlow) (inners : List Bytes),
      f.cl.port < 2 ^ 16 → f.sv.port < 2 ^ 16 → f.vni < 2 ^ 24 →
      (∀ b ∈ inners, 36 + b.length ≤ 65535) →
      (f.encapAll inners).length = inners.length ∧
      (f.encapAll inners).map (fun p => (decapVxlan (stripEth f.raw p)).map (·.inner)) =
        inners.map some) ∧
    (∀ (f : GreFlow) (inners : List Bytes),
      f.flags < 2 ^ 16 → f.flags &&& 0xe000 = 0 → f.ethertype < 2 ^ 16 →
      (∀ b ∈ inners, 24 + (if f.flags &&& 0x1000 ≠ 0 then 4 else 0) + b.length ≤ 65535) →
      (f.encapAll inners).2.length = inners.length ∧
      (f.encapAll inners).2.map (fun p => (decapGre (stripEth f.raw p)).map (·.inner)) =
        inners.map some) ∧
    (∀ (f : Erspan1Flow) (inners : List Bytes),
      (∀ b ∈ inners, 24 + b.length ≤ 65535) →
      (f.encapAll inners).length = inners.length ∧
      (f.encapAll inners).map (fun p => decapErspan1 (stripEth f.raw p)) = inners.map some) ∧
    (∀ (f : Erspan2Flow) (portIndex : Nat) (inners : List Bytes),
      f.sessionId < 2 ^ 10 → portIndex < 2 ^ 20 →
      (∀ b ∈ inners, 36 + b.length ≤ 65535) →
      (f.encapAll portIndex inners).2.length = inners.length ∧
      (f.encapAll portIndex inners).2.map
          (fun p => (decapErspan2 (stripEth f.raw p)).map (·.inner)) = inners.map some) := by
  refine ⟨?_, ?_, ?_, ?_⟩
  · intro f inners h1 h2 h3 hfit
    refine ⟨by simp [VxlanFlow.encapAll], ?_⟩
    have := congrArg (List.map (Option.map Vxlan.inner)) (vxlan_encapAll f inners h1 h2 h3 hfit)
    simpa [List.map_map, Function.comp_def] using this
  · intro f inners h1 h2 h3 hfit
    obtain ⟨hl, h⟩ := gre_encapAll f inners h1 h2 h3 hfit
    refine ⟨hl, map_eq_of_getElem _ _ _ id hl ?_⟩
    intro i hi
    have := h i hi
    cases ho : (f.encapAll inners).2[i]? with
    | none => simp [ho] at this
    | some p => simp [ho] at this ⊢; simp [this]
  · intro f inners hfit
    exact ⟨by simp [Erspan1Flow.encapAll], (erspan1_encapAll f inners hfit).2⟩
  · intro f portIndex inners h1 h2 hfit
    obtain ⟨hl, h⟩ := erspan2_encapAll f portIndex inners h1 h2 hfit
    refine ⟨hl, map_eq_of_getElem _ _ _ id hl ?_⟩
    intro i hi
    have := h i hi
    cases ho : (f.encapAll portIndex inners).2[i]? with
    | none => simp [ho] at this
    | some p => simp [ho] at this ⊢; simp [this]

/-! ## Sequence numbers count the session's packets from zero -/

/-- ERSPAN type II, any history of `encap(gen, port_index:)` calls on a session: the `i`-th packet
emitted over the whole history carries GRE sequence number `(seq₀ + i) mod 2^32`, the port index
of its call and its inner frame. -/
theorem erspan2_history (f : Erspan2Flow) (calls : List (Nat × List Bytes))
    (hs : f.sessionId < 2 ^ 10)
    (hfit : ∀ c ∈ calls, c.1 < 2 ^ 20 ∧ ∀ b ∈ c.2, 36 + b.length ≤ 65535) :
    (f.history calls).2.length = (erspan2Inners calls).length ∧
    ∀ i (hi : i < (erspan2Inners calls).length),
      (f.history calls).2[i]?.bind (fun p => decapErspan2 (stripEth f.raw p)) = some
        { seq := (f.seq + i) % 2 ^ 32, ver := 1, vlan := 0, cos := 0, en := 3, t := 0
          sessionId := f.sessionId
          portIndex := (erspan2Inners calls)[i].1, inner := (erspan2Inners calls)[i].2 } := by
  rw [Erspan2Flow.history_eq]
  refine ⟨Erspan2Flow.encapSeq_length _ _, ?_⟩
  intro i hi
  apply f.decap_encapSeq _ hs _ i hi
  intro b hb
  simp only [erspan2Inners, List.mem_flatMap, List.mem_map] at hb
  obtain ⟨c, hc, b', hb', rfl⟩ := hb
  exact ⟨(hfit c hc).1, (hfit c hc).2 b' hb'⟩

/-- A session created by `erspan2::session(cl, sv, raw:)` starts at zero: over its whole history
the `i`-th packet carries sequence number `i mod 2^32` (and session id 0). -/
theorem seq_counts_from_zero (cl sv : Nat) (raw : Bool) (calls : List (Nat × List Bytes))
    (hfit : ∀ c ∈ calls, c.1 < 2 ^ 20 ∧ ∀ b ∈ c.2, 36 + b.length ≤ 65535) :
    let f : Erspan2Flow := { cl := cl, sv := sv, raw := raw }
    (f.history calls).2.length = (erspan2Inners calls).length ∧
    ∀ i (hi : i < (erspan2Inners calls).length),
      (f.history calls).2[i]?.bind (fun p => decapErspan2 (stripEth raw p)) = some
        { seq := i % 2 ^ 32, ver := 1, vlan := 0, cos := 0, en := 3, t := 0, sessionId := 0
          portIndex := (erspan2Inners calls)[i].1, inner := (erspan2Inners calls)[i].2 } := by
  intro f
  have := erspan2_history f calls (by show (0 : Nat) < 2 ^ 10; decide) hfit
  simpa [f] using this

/-- GRE with the S flag (not reachable from the stdlib, which passes default flags — see
`gre_default_flags`): over any history the `i`-th packet's sequence word is `(seq₀ + i) mod 2^32`,
i.e. `i mod 2^32` for a new `GreFlow` (`seq₀ = 0`). -/
theorem gre_seq_counts (f : GreFlow) (calls : List (List Bytes))
    (hflags : f.flags = 0x1000) (hp : f.ethertype < 2 ^ 16)
    (hfit : ∀ c ∈ calls, ∀ b ∈ c, 28 + b.length ≤ 65535) :
    (f.history calls).2.length = calls.flatten.length ∧
    ∀ i (hi : i < calls.flatten.length),
      (f.history calls).2[i]?.bind (fun p => decapGre (stripEth f.raw p)) = some
        { flags := 0x1000, proto := f.ethertype, seq := some ((f.seq + i) % 2 ^ 32)
          inner := calls.flatten[i] } := by
  rw [GreFlow.history_eq]
  refine ⟨f.encapAll_length _, ?_⟩
  intro i hi
  have := f.decap_encapAll calls.flatten (by omega) (by rw [hflags]; decide) hp
    (by intro b hb
        obtain ⟨c, hc, hbc⟩ := List.mem_flatten.1 hb
        have := hfit c hc b hbc
        rw [hflags]; simp; omega) i hi
  simpa [hflags] using this

/-! ## Nesting to any depth -/

/-- Wrapping an inner frame in any list of tunnel layers (innermost first) and unwrapping with the
reference decoders (outermost first) returns the inner frame.  `Fits layers n` (decidable): every
layer's parameters are in range and every outer datagram fits in 65535 bytes. -/
theorem nest (layers : List Layer) (inner : Bytes) (hfit : Fits layers inner.length) :
    unwrap layers (wrap layers inner) = some inner :=
  unwrap_wrap layers inner hfit

/-- The same for whole packet lists with the sessions keeping their state from packet to packet
(`wrapAll [s₁, …, sₖ] gen` is `sₖ.encap(… s₁.encap(gen))`; `Layer.encapAll` is the per-kind
`encapAll`, see `Layer.encapAll_vxlan/_gre/_erspan1/_erspan2`): exactly one outer packet per
inner packet, in the same order, and each unwraps to its inner frame. -/
theorem nest_all (layers : List Layer) (inners : List Bytes) (hfit : FitsAll layers inners) :
    (wrapAll layers inners).length = inners.length ∧
    (wrapAll layers inners).map (unwrap layers) = inners.map some :=
  ⟨wrapAll_length layers inners, unwrap_wrapAll layers inners hfit⟩

/-! ## Reading the ERSPAN II clauses off the decoder

`decapErspan2` succeeds only on a GRE packet with protocol 0x88be and the S (sequence present)
flag, and reports that packet's sequence number; so `erspan2_encapAll` / `seq_counts_from_zero`
include "GRE protocol 0x88be" and "sequence-present flag" (shown directly in
`erspan2_gre_header`). -/
theorem erspan2_is_gre_88be_with_seq (p : Bytes) (e : Erspan2) (h : decapErspan2 p = some e) :
    ∃ g, decapGre p = some g ∧ g.proto = 0x88be ∧ g.flags &&& greS ≠ 0 ∧ g.seq = some e.seq := by
  unfold decapErspan2 at h
  split at h
  · rename_i g hg
    split at h
    · rename_i seq a0 a1 a2 a3 b0 b1 b2 b3 inner hseq hinner
      dsimp only at h
      split at h
      · rename_i hc
        cases h
        refine ⟨g, hg, hc.1, ?_, hseq⟩
        -- a decoded sequence number implies the S bit
        unfold decapGre at hg
        split at hg
        · dsimp only at hg
          split at hg
          · cases hg
          · split at hg
            · rename_i hS
              split at hg
              · cases hg; exact hS
              · cases hg
            · cases hg; cases hseq
        · cases hg
      · cases h
    · cases h
  · cases h

/-! ## Non-vacuity: concrete sessions -/

def exVx : VxlanFlow :=
  { cl := ⟨0x0a000001, 4789⟩, sv := ⟨0x0a000002, 4789⟩, vni := 0x123456, raw := false }
def exGre : GreFlow := { cl := 0x0a000001, sv := 0x0a000002, ethertype := 0x6558, raw := true }
def exE1 : Erspan1Flow := { cl := 0xc0a80001, sv := 0xc0a80002, raw := false }
def exE2 : Erspan2Flow := { cl := 0xc0a80001, sv := 0xc0a80002, raw := false }
def exInners : List Bytes := [[1, 2, 3], [], [0xde, 0xad, 0xbe, 0xef, 0x55]]

example : (exVx.encapAll exInners).map (fun p => decapVxlan (stripEth false p)) =
    [some { srcPort := 4789, dstPort := 4789, vni := 0x123456, inner := [1, 2, 3] },
     some { srcPort := 4789, dstPort := 4789, vni := 0x123456, inner := [] },
     some { srcPort := 4789, dstPort := 4789, vni := 0x123456, inner := [0xde, 0xad, 0xbe, 0xef, 0x55] }] := by
  decide

/-- the hypotheses of `vxlan_encapAll` hold for it -/
example : exVx.cl.port < 2 ^ 16 ∧ exVx.sv.port < 2 ^ 16 ∧ exVx.vni < 2 ^ 24 ∧
    ∀ b ∈ exInners, 36 + b.length ≤ 65535 := by decide

/-- stdlib GRE: no sequence word on the wire, yet the counter moved -/
example : (exGre.encapAll exInners).2.map (fun p => decapGre (stripEth true p)) =
    [some { flags := 0, proto := 0x6558, seq := none, inner := [1, 2, 3] },
     some { flags := 0, proto := 0x6558, seq := none, inner := [] },
     some { flags := 0, proto := 0x6558, seq := none, inner := [0xde, 0xad, 0xbe, 0xef, 0x55] }] ∧
    (exGre.encapAll exInners).1.seq = 3 := by decide

/-- GRE with the S flag: 0, 1, 2 -/
example : (({ exGre with flags := 0x1000 } : GreFlow).history [[[1]], [[2], [3]]]).2.map
      (fun p => (decapGre (stripEth true p)).map fun g => (g.seq, g.inner)) =
    [some (some 0, [1]), some (some 1, [2]), some (some 2, [3])] := by decide

example : (exE1.encapAll exInners).map (fun p => decapErspan1 (stripEth false p)) =
    exInners.map some := by decide

/-- ERSPAN II history of two calls with different port indices: sequence numbers 0, 1, 2 -/
example : (exE2.history [(5, [[1, 2], [3]]), (0xabcde, [[4]])]).2.map
      (fun p => decapErspan2 (stripEth false p)) =
    [some { seq := 0, ver := 1, vlan := 0, cos := 0, en := 3, t := 0, sessionId := 0, portIndex := 5, inner := [1, 2] },
     some { seq := 1, ver := 1, vlan := 0, cos := 0, en := 3, t := 0, sessionId := 0, portIndex := 5, inner := [3] },
     some { seq := 2, ver := 1, vlan := 0, cos := 0, en := 3, t := 0, sessionId := 0, portIndex := 0xabcde, inner := [4] }] := by
  decide

/-- the sequence number wraps at 2^32 -/
example : (({ exE2 with seq := 4294967295 } : Erspan2Flow).encapAll 0 [[1], [2]]).2.map
      (fun p => (decapErspan2 (stripEth false p)).map (·.seq)) = [some 4294967295, some 0] := by
  decide

/-- four layers deep; `Fits` holds and is decided -/
def exLayers : List Layer := [.vxlan exVx, .gre exGre, .erspan1 exE1, .erspan2 exE2 7, .vxlan exVx]

example : Fits exLayers 3 := by decide
example : unwrap exLayers (wrap exLayers [1, 2, 3]) = some [1, 2, 3] := nest exLayers [1, 2, 3] (by decide)
example : (wrap exLayers [1, 2, 3]).length = 3 + (50 + 24 + 38 + 50 + 50) := by
  rw [show exLayers = [.vxlan exVx, .gre exGre, .erspan1 exE1, .erspan2 exE2 7, .vxlan exVx] from rfl]
  simp only [wrap, Layer.encap_length]; decide

example : FitsAll exLayers exInners := by decide
example : (wrapAll exLayers exInners).map (unwrap exLayers) = exInners.map some :=
  (nest_all exLayers exInners (by decide)).2

/-- the decoders discriminate: a GRE packet is not VXLAN, a VXLAN packet is not GRE, wrong order
of unwrapping fails -/
example : decapVxlan (exGre.encap [1, 2, 3]).2 = none := by decide
example : decapGre (stripEth false (exVx.encap [1, 2, 3])) = none := by decide
set_option maxRecDepth 4096 in
example : unwrap exLayers.reverse (wrap exLayers [1, 2, 3]) = none := by decide

end Resynth.C06
