import Resynth.Lemmas.LexProps
import Resynth.Lemmas.LexPrefix
/-!
# C10 — the lexer tokenises every line as the lexical rules prescribe, with exact columns

Model: `Resynth.Lex.line` (`Model/Lex.lean`, hand-written scanner for `LEX_RE` + the scan loop
of `Lexer::line`). Spec: `Resynth.Spec.lexLine` (`Spec/Lexical.lean`): ordered rule list, each
rule a language; per rule the longest matching prefix; first rule with a match wins; string
lexemes merged and emitted before the next non-string token.

Error columns: the model (and the spec) report `1 +` the byte offset of the first character
that cannot start a token. (The unfixed Rust code reported one more; see the C10 fix commit.)
-/
namespace Resynth.C10
open Resynth Resynth.Lex Resynth.Spec Resynth.LexLemmas

/-! ## what the spec's selection means -/

/-- `matchLen` is the longest matching prefix of the rule's language -/
theorem matchLen_longest (r : LexRule) (cs : List Char) (n : Nat) :
    matchLen r cs = some n ↔
      0 < n ∧ n ≤ cs.length ∧ r.matchesAt cs n = true ∧
        ∀ m, n < m → m ≤ cs.length → r.matchesAt cs m = false :=
  longest_eq_some

theorem matchLen_none (r : LexRule) (cs : List Char) :
    matchLen r cs = none ↔ ∀ m, 0 < m → m ≤ cs.length → r.matchesAt cs m = false :=
  longest_eq_none

/-- `select` is the first rule of the list that has a match: earlier rules win -/
theorem first_rule_wins (cs : List Char) (r : LexRule) (n : Nat) :
    select cs = some (r, n) ↔
      ∃ l₁ l₂, rules = l₁ ++ r :: l₂ ∧ matchLen r cs = some n ∧ ∀ x ∈ l₁, matchLen x cs = none := by
  simp only [select, List.findSome?_eq_some_iff, Option.map_eq_some_iff, Option.map_eq_none_iff,
    Prod.mk.injEq]
  constructor
  · rintro ⟨l1, a, l2, h1, ⟨m, hm, rfl, rfl⟩, h3⟩; exact ⟨l1, l2, h1, hm, h3⟩
  · rintro ⟨l1, l2, h1, h2, h3⟩; exact ⟨l1, r, l2, h1, ⟨n, h2, rfl, rfl⟩, h3⟩

theorem no_rule_matches (cs : List Char) : select cs = none ↔ ∀ r ∈ rules, matchLen r cs = none :=
  select_none_iff cs

/-! ## one anchored match -/

/-- rule by rule, the scanner's match is the spec's selection -/
theorem scanOne_eq_spec (cs : List Char) :
    scanOne cs = (select cs).map fun p => (clsOf p.1, p.2) :=
  LexLemmas.scanOne_eq_spec cs

/-- every match consumes at least one character and stays inside the text -/
theorem scanOne_progress (cs : List Char) (c : Cls) (n : Nat) (h : scanOne cs = some (c, n)) :
    0 < n ∧ n ≤ cs.length :=
  scanOne_bounds h

/-- a string lexeme contains both quotes, so the slice between them is in range -/
theorem string_slice_in_range (cs : List Char) (n : Nat) (h : scanOne cs = some (.str, n)) : 2 ≤ n :=
  scanOne_str_len h

/-! ## the main theorem -/

/-- **The lexer is the spec**: same tokens (kinds, texts, locations), same carried string literal
(`none`: nothing pending, `some ""`: an empty literal pending), same error column - for every line
number, every carried literal and every line. -/
theorem scan_eq_spec (lno : Nat) (pending : Option String) (ln : String) :
    (Lex.line lno pending ln).map (fun o => (o.toks, o.pending)) = lexLine lno pending ln :=
  line_eq_spec lno pending ln

/-- `Lexer::finish` is the spec's end-of-input rule: the pending literal, if any, as ONE string token
at the position where the lexer stopped -/
theorem finish_eq_spec (pending : Option String) (loc : Loc) :
    (Lex.finish pending loc).toList = lexFinish pending loc := rfl

theorem scan_ok_iff (lno : Nat) (pending : Option String) (ln : String) (out : LineOut) :
    Lex.line lno pending ln = .ok out ↔
      lexLine lno pending ln = .ok (out.toks, out.pending) ∧ out.endCol = ln.utf8ByteSize + 1 := by
  rw [line_ok_iff, byteLen_toList]

theorem scan_error_iff (lno : Nat) (pending : Option String) (ln : String) (c : Nat) :
    Lex.line lno pending ln = .error c ↔ lexLine lno pending ln = .error c :=
  line_error_iff lno pending ln c

/-! ## totality -/

/-- The fuel of the scan loop never runs out: any fuel above the number of characters gives
the same result (so the `fuel = 0` arm is unreachable from `Lex.line`). -/
theorem fuel_suffices (lno f₁ f₂ pos : Nat) (cs : List Char) (s : St)
    (h₁ : cs.length < f₁) (h₂ : cs.length < f₂) : loop lno f₁ pos cs s = loop lno f₂ pos cs s :=
  loop_fuel lno f₁ f₂ pos cs s h₁ h₂

/-- `Lex.line` always returns: either a token list or an error column inside the line. -/
theorem lex_total (lno : Nat) (pending : Option String) (ln : String) :
    (∃ out, Lex.line lno pending ln = .ok out) ∨
      (∃ c, Lex.line lno pending ln = .error c ∧ 1 ≤ c ∧ c ≤ ln.utf8ByteSize) := by
  cases h : Lex.line lno pending ln with
  | ok out => exact .inl ⟨out, rfl⟩
  | error c =>
    refine .inr ⟨c, rfl, ?_⟩
    obtain ⟨ls, rest, h1, h2, _, h4⟩ := lexLine_error ((line_error_iff _ _ _ _).1 h)
    have hc := h1.cover
    have := byteLen_pos h2
    have hb : byteLen ln.toList = byteLen (ls.flatMap (·.text)) + byteLen rest := by
      rw [hc, byteLen_append]
    rw [byteLen_toList] at hb
    omega

/-! ## cover, columns -/

/-- The matched lexemes (tokens and skipped spans alike) tile the line in order, each being
the selected match at its position, and the tokens are read off them. -/
theorem cover (lno : Nat) (pending : Option String) (ln : String) (out : LineOut) (h : Lex.line lno pending ln = .ok out) :
    ∃ ls : List Lexeme, Tiling ln.toList ls [] ∧ ls.flatMap (·.text) = ln.toList ∧
      (out.toks, out.pending) = readToks lno 0 pending ls := by
  obtain ⟨ls, h1, h2⟩ := lexLine_ok ((line_ok_iff _ _ _ _).1 h).1
  exact ⟨ls, h1, by simpa using h1.cover.symm, h2⟩

/-- Every non-string token sits on line `lno`, at column `1 +` the UTF-8 byte offset of the
first character of its lexeme, and its lexeme is the selected match at that offset. -/
theorem columns (lno : Nat) (pending : Option String) (ln : String) (out : LineOut) (h : Lex.line lno pending ln = .ok out)
    (t : Tok) (ht : t ∈ out.toks) (hk : t.kind ≠ .strLit) :
    t.loc.line = lno ∧
    ∃ (pre lexeme post : List Char) (r : LexRule),
      ln.toList = pre ++ (lexeme ++ post) ∧
      select (lexeme ++ post) = some (r, lexeme.length) ∧ r.kind = some t.kind ∧
      t.text = tokVal t.kind lexeme ∧
      t.loc.col = 1 + (String.ofList pre).utf8ByteSize := by
  obtain ⟨ls, h1, h2⟩ := lexLine_ok ((line_ok_iff _ _ _ _).1 h).1
  have ht' : t ∈ (readToks lno 0 pending ls).1 := by rw [← h2]; exact ht
  obtain ⟨l1, l, l2, e1, e2, e3, e4⟩ := readToks_nonstr lno ls 0 _ t ht' hk
  subst e1
  obtain ⟨post, p1, p2⟩ := h1.split
  refine ⟨by rw [e4], l1.flatMap (·.text), l.text, post, l.rule, p1, p2, e2, e3, ?_⟩
  rw [e4]; simp only [byteLen]; omega

/-- All tokens of a line carry that line's number. -/
theorem line_numbers (lno : Nat) (pending : Option String) (ln : String) (out : LineOut)
    (h : Lex.line lno pending ln = .ok out) (t : Tok) (ht : t ∈ out.toks) : t.loc.line = lno := by
  obtain ⟨ls, _, h2⟩ := lexLine_ok ((line_ok_iff _ _ _ _).1 h).1
  exact readToks_line lno ls 0 _ t (by rw [← h2]; exact ht)

/-- A (merged) string token is emitted immediately before the next non-string token and carries
that token's position. -/
theorem string_token_position (lno : Nat) (pending : Option String) (ln : String) (out : LineOut)
    (h : Lex.line lno pending ln = .ok out) (a : List Tok) (t : Tok) (b : List Tok)
    (hs : out.toks = a ++ t :: b) (hk : t.kind = .strLit) :
    ∃ t' b', b = t' :: b' ∧ t'.kind ≠ .strLit ∧ t'.loc = t.loc := by
  obtain ⟨ls, _, h2⟩ := lexLine_ok ((line_ok_iff _ _ _ _).1 h).1
  exact readToks_str lno ls 0 _ a t b (by rw [← h2]; exact hs) hk

/-! ## errors -/

/-- A lex error is located at the first character that cannot start a token: the line splits
as `pre ++ rest` with `c = 1 +` the byte length of `pre`; `pre` ALONE lexes (with the same
carried string) and is tiled by selected matches; and no rule matches at `rest`. -/
theorem error_first_bad (lno : Nat) (pending : Option String) (ln : String) (c : Nat)
    (h : Lex.line lno pending ln = .error c) :
    ∃ (pre rest : List Char) (ls : List Lexeme),
      ln.toList = pre ++ rest ∧ c = 1 + (String.ofList pre).utf8ByteSize ∧
      -- the prefix lexes
      (∃ out, Lex.line lno pending (String.ofList pre) = .ok out ∧
        (out.toks, out.pending) = readToks lno 0 pending ls) ∧
      Tiling pre ls [] ∧ ls.flatMap (·.text) = pre ∧
      -- nothing matches at the offending character
      rest ≠ [] ∧ (∀ r ∈ rules, matchLen r rest = none) ∧ scanOne rest = none := by
  obtain ⟨pre, rest, ls, h1, h2, h3, h4, h5, h6, h7⟩ :=
    lexLine_error_prefix ((line_error_iff _ _ _ _).1 h)
  refine ⟨pre, rest, ls, h1, h4, ?_, h5, h6, h2, (select_none_iff rest).1 h3, by
    rw [LexLemmas.scanOne_eq_spec, h3]; rfl⟩
  refine ⟨⟨(readToks lno 0 pending ls).1, (readToks lno 0 pending ls).2,
    byteLen (String.ofList pre).toList + 1⟩, ?_, rfl⟩
  rw [line_ok_iff]
  exact ⟨h7, rfl⟩

/-- the in-context form: the lexemes before the error tile the line up to `rest` -/
theorem error_tiling (lno : Nat) (pending : Option String) (ln : String) (c : Nat)
    (h : Lex.line lno pending ln = .error c) :
    ∃ (ls : List Lexeme) (rest : List Char),
      Tiling ln.toList ls rest ∧ ln.toList = ls.flatMap (·.text) ++ rest ∧
      c = 1 + (String.ofList (ls.flatMap (·.text))).utf8ByteSize ∧ rest ≠ [] ∧ select rest = none := by
  obtain ⟨ls, rest, h1, h2, h3, h4⟩ := lexLine_error ((line_error_iff _ _ _ _).1 h)
  exact ⟨ls, rest, h1, h1.cover, h4, h2, h3⟩

/-! ## dependence on the text only -/

/-- Tokenisation is a function of the text and the carried string; the line number only
appears as `loc.line` of the tokens. -/
theorem depends_only_on_text (lno lno' : Nat) (pending : Option String) (ln : String) :
    Lex.line lno' pending ln =
      (Lex.line lno pending ln).map fun o => { o with toks := o.toks.map (relocate lno') } := by
  cases h : Lex.line lno pending ln with
  | error c =>
    simp only [Except.map]
    rw [line_error_iff] at h ⊢
    simp only [lexLine] at h ⊢
    generalize tile ln.toList = tl at h ⊢
    obtain ⟨ls, ok⟩ := tl
    cases ok with
    | false => exact h
    | true => simp at h
  | ok out =>
    simp only [Except.map]
    rw [line_ok_iff] at h ⊢
    refine ⟨?_, h.2⟩
    have h1 := h.1
    simp only [lexLine] at h1 ⊢
    generalize tile ln.toList = tl at h1 ⊢
    obtain ⟨ls, ok⟩ := tl
    cases ok with
    | false => simp at h1
    | true =>
      simp only [Except.ok.injEq] at h1 ⊢
      rw [readToks_lno lno lno', h1]

/-- determinism, spelled out -/
theorem deterministic (lno : Nat) (pending : Option String) (ln : String) (r₁ r₂ : Except Nat LineOut)
    (h₁ : Lex.line lno pending ln = r₁) (h₂ : Lex.line lno pending ln = r₂) : r₁ = r₂ := h₁ ▸ h₂ ▸ rfl

/-! ## an empty carried string literal is kept

The carried literal is an `Option String` (Rust: `concatenated_strings: Option<String>`), so an
EMPTY literal that is pending at the end of a line (`some ""`) is distinguished from "nothing
pending" (`none`): `f(""` ⏎ `);` yields the empty string token on the second line, exactly as
`f("");` on one line does. (Before the C10 fix the carried text was a plain `String` tested with
`is_empty()`, and the empty literal was lost across the line break.) -/

theorem pending_empty_kept :
    -- first line: `f(""` - the empty literal is carried as `some ""`
    (Lex.line 1 none "f(\"\"").map (fun o => (o.toks, o.pending)) =
        .ok ([⟨.ident, "f", ⟨1, 1⟩⟩, ⟨.lparen, "", ⟨1, 2⟩⟩], some "") ∧
    -- second line: `);` - the empty string token comes out, at the position of `)`
    (Lex.line 2 (some "") ");").map (fun o => (o.toks, o.pending)) =
        .ok ([⟨.strLit, "", ⟨2, 1⟩⟩, ⟨.rparen, "", ⟨2, 1⟩⟩, ⟨.semi, "", ⟨2, 2⟩⟩], none) ∧
    -- whereas with nothing pending there is no string token
    (Lex.line 2 none ");").map (fun o => (o.toks, o.pending)) =
        .ok ([⟨.rparen, "", ⟨2, 1⟩⟩, ⟨.semi, "", ⟨2, 2⟩⟩], none) ∧
    -- on one line the literal is there as well
    (Lex.line 1 none "f(\"\")").map (fun o => (o.toks, o.pending)) =
        .ok ([⟨.ident, "f", ⟨1, 1⟩⟩, ⟨.lparen, "", ⟨1, 2⟩⟩, ⟨.strLit, "", ⟨1, 5⟩⟩, ⟨.rparen, "", ⟨1, 5⟩⟩], none) ∧
    -- and a non-empty literal survives the line break
    (Lex.line 1 none "f(\"a\"").map (fun o => (o.toks, o.pending)) =
        .ok ([⟨.ident, "f", ⟨1, 1⟩⟩, ⟨.lparen, "", ⟨1, 2⟩⟩], some "a") ∧
    (Lex.line 2 (some "a") ")").map (fun o => (o.toks, o.pending)) =
        .ok ([⟨.strLit, "a", ⟨2, 1⟩⟩, ⟨.rparen, "", ⟨2, 1⟩⟩], none) :=
  ⟨rfl, rfl, rfl, rfl, rfl, rfl⟩

/-- the same on the spec: `some ""` is a pending (empty) literal, `none` is nothing pending -/
theorem pending_empty_kept_spec :
    lexLine 1 none "f(\"\"" = .ok ([⟨.ident, "f", ⟨1, 1⟩⟩, ⟨.lparen, "", ⟨1, 2⟩⟩], some "") ∧
    lexLine 2 (some "") ");" =
      .ok ([⟨.strLit, "", ⟨2, 1⟩⟩, ⟨.rparen, "", ⟨2, 1⟩⟩, ⟨.semi, "", ⟨2, 2⟩⟩], none) ∧
    lexLine 2 none ");" = .ok ([⟨.rparen, "", ⟨2, 1⟩⟩, ⟨.semi, "", ⟨2, 2⟩⟩], none) := ⟨rfl, rfl, rfl⟩

/-- in general: a literal pending at the start of a line (empty or not) is never dropped - it is
either still part of the carried literal after the line, or of the first token of the line, which
then is a string token. -/
theorem pending_kept (lno : Nat) (p : String) (ln : String) (out : LineOut)
    (h : Lex.line lno (some p) ln = .ok out) :
    (out.toks = [] ∧ ∃ q, out.pending = some (p ++ q)) ∨
      (∃ t ts q, out.toks = t :: ts ∧ t.kind = .strLit ∧ t.text = p ++ q) := by
  obtain ⟨ls, _, h2⟩ := lexLine_ok ((line_ok_iff _ _ _ _).1 h).1
  have key : ∀ (ls : List Lexeme) (off : Nat) (p : String),
      ((readToks lno off (some p) ls).1 = [] ∧ ∃ q, (readToks lno off (some p) ls).2 = some (p ++ q)) ∨
      (∃ t ts q, (readToks lno off (some p) ls).1 = t :: ts ∧ t.kind = .strLit ∧ t.text = p ++ q) := by
    intro ls
    induction ls with
    | nil => intro off p; exact .inl ⟨rfl, "", by simp [readToks]⟩
    | cons l ls ih =>
      intro off p
      cases hkind : l.rule.kind with
      | none => simp only [readToks, hkind]; exact ih _ _
      | some k =>
        by_cases hs : k = .strLit
        · subst hs
          simp only [readToks, hkind, Option.getD_some]
          rcases ih (off + byteLen l.text) (p ++ strInner l.text) with ⟨h1, q, hq⟩ | ⟨t, ts, q, h1, h3, h4⟩
          · exact .inl ⟨h1, strInner l.text ++ q, by rw [hq, String.append_assoc]⟩
          · exact .inr ⟨t, ts, strInner l.text ++ q, h1, h3, by rw [h4, String.append_assoc]⟩
        · refine .inr ⟨⟨.strLit, p, ⟨lno, off + 1⟩⟩,
            ⟨k, tokVal k l.text, ⟨lno, off + 1⟩⟩ :: (readToks lno (off + byteLen l.text) none ls).1, "",
            ?_, rfl, by simp⟩
          cases k <;> first | exact absurd rfl hs | simp [readToks, hkind]
  have := key ls 0 p
  rw [← h2] at this
  exact this

/-! ## non-vacuity -/

-- all rule classes, string merging, byte columns (`é` is two bytes), IPv4 last octet
example : lexLine 7 none "let é" = .error 5 := rfl
example : (Lex.line 7 none "let x = f(\"a\" \"b\", 0x1F, -5, true, truex, 1.2.3.256)::y.z:1/2; // c").map
      (fun o => (o.toks.map fun t => (t.kind, t.text, t.loc.col), o.pending)) =
    .ok ([(.kwLet, "", 1), (.ident, "x", 5), (.equals, "", 7), (.ident, "f", 9), (.lparen, "", 10),
      (.strLit, "ab", 18), (.comma, "", 18), (.hexLit, "0x1F", 20), (.comma, "", 24), (.intLit, "-5", 26),
      (.comma, "", 28), (.boolLit, "true", 30), (.comma, "", 34), (.ident, "truex", 36), (.comma, "", 41),
      (.ipv4Lit, "1.2.3.25", 43), (.intLit, "6", 51), (.rparen, "", 52), (.dcolon, "", 53), (.ident, "y", 55),
      (.dot, "", 56), (.ident, "z", 57), (.colon, "", 58), (.intLit, "1", 59), (.slash, "", 60),
      (.intLit, "2", 61), (.semi, "", 62)], none) := rfl
example : (Lex.line 1 none "\"é\" x").map (fun o => o.toks) =
    .ok [⟨.strLit, "é", ⟨1, 6⟩⟩, ⟨.ident, "x", ⟨1, 6⟩⟩] := rfl
example : Lex.line 1 none "x = \"abc" = .error 5 := rfl
example : Lex.line 1 none "ab @" = .error 4 := rfl
example : select "import x".toList = some (.keyword .kwImport "import", 6) := rfl
example : select "importx".toList = some (.ident, 7) := rfl
example : select "256.1.1.1".toList = some (.int, 3) := rfl
example : select "01.02.03.045".toList = some (.ipv4, 12) := rfl
example : select "::".toList = some (.fixed .dcolon "::", 2) := rfl
example : select "//x".toList = some (.cppComment, 3) := rfl
example : select "0x".toList = some (.int, 1) := rfl

end Resynth.C10
