import Resynth.Lemmas.LexLemmas
import Resynth.Lemmas.InterpSubst
import Resynth.Model.Cli
/-!
# C13 — Compilation is deterministic and self-contained; comments, blank lines, whitespace and
unused bindings of plain values do not change the output

Determinism and self-containedness hold of the model by construction: `processFile env budget src`
is a function of the library table and file system (`env`), the write budget and the source
bytes, and nothing else.  That the *implementation* is such a function is established on the
implementation side (no ambient reads; see the harness), not here.

This file proves the text-level half on `Model/Lex.lean` (`Lex.line`), `Model/Cli.lean`
(`lineLoop`) and `Model/Interp.lean` (`addStmt(s)`).

`Lex.blankTail cs`: `cs` is whitespace (any Unicode White_Space; `'\n'` too) optionally followed
by a comment `#…` or `//…` whose body contains no `'\n'` (lines produced by `BufRead::lines`
never contain `'\n'`).
-/
namespace Resynth.C13
open Sem
open Lex

/-! ## 1. blank and comment-only lines -/

/-- A line consisting of whitespace and/or a comment yields no tokens and keeps the carried
string-literal state (`pending`), for every line number and every pending state. -/
theorem blank_line_noop (lno : Nat) (pending : Option String) (ln : String) (h : blankTail ln.toList = true) :
    Lex.line lno pending ln = .ok { toks := [], pending := pending, endCol := utf8Len ln.toList + 1 } :=
  line_blank lno pending ln h

/-- the empty line -/
theorem empty_line_noop (lno : Nat) (pending : Option String) :
    Lex.line lno pending "" = .ok { toks := [], pending := pending, endCol := 1 } :=
  line_blank lno pending "" rfl

/-- whitespace-only lines (any mix of Unicode whitespace) -/
theorem ws_line_noop (lno : Nat) (pending : Option String) (ws : List Char) (h : ws.all isWs = true) :
    Lex.line lno pending (String.ofList ws) =
      .ok { toks := [], pending := pending, endCol := utf8Len ws + 1 } := by
  have hb : blankTail ws = true := by
    induction ws with
    | nil => rfl
    | cons c cs ih =>
      simp only [List.all_cons, Bool.and_eq_true] at h
      simp only [blankTail, h.1, Bool.true_or, if_true]
      exact ih h.2
  have := line_blank lno pending (String.ofList ws) (by simpa using hb)
  simpa using this

/-- comment-only lines: optional whitespace, `#` or `//`, then anything without a newline -/
theorem comment_line_noop (lno : Nat) (pending : Option String) (ws body : List Char) (h : ws.all isWs = true)
    (hb : body.all (· != '\n') = true) :
    (Lex.line lno pending (String.ofList (ws ++ '#' :: body))).toOption.map (fun o => (o.toks, o.pending)) =
      some ([], pending) ∧
    (Lex.line lno pending (String.ofList (ws ++ '/' :: '/' :: body))).toOption.map (fun o => (o.toks, o.pending)) =
      some ([], pending) := by
  have key : ∀ tail : List Char, blankTail tail = true → blankTail (ws ++ tail) = true := by
    intro tail ht
    induction ws with
    | nil => exact ht
    | cons c cs ih =>
      simp only [List.all_cons, Bool.and_eq_true] at h
      simp only [List.cons_append, blankTail, h.1, Bool.true_or, if_true]
      exact ih h.2
  have h1 : blankTail ('#' :: body) = true := by
    simp only [blankTail]
    rw [if_neg (by decide)]
    simpa using hb
  have h2 : blankTail ('/' :: '/' :: body) = true := by
    simp only [blankTail]
    rw [if_neg (by decide)]
    simp only [List.head?_cons, List.all_cons]
    simpa using hb
  constructor
  · rw [line_blank lno pending _ (by simpa using key _ h1)]; rfl
  · rw [line_blank lno pending _ (by simpa using key _ h2)]; rfl

/-! ## 2. trailing comments and trailing whitespace -/

/-- Appending to a line that lexes any text that starts with a whitespace character and is
whitespace optionally followed by a comment changes neither tokens nor pending state; only
`endCol` (the end-of-line column used for an EOF parse error) moves. -/
theorem trailing_blank_noop (lno : Nat) (p ln : String) (w : Char) (t : List Char) (out : LineOut)
    (hw : isWs w = true) (ht : blankTail (w :: t) = true) (h : Lex.line lno p ln = .ok out) :
    Lex.line lno p (ln ++ String.ofList (w :: t)) = .ok { out with endCol := out.endCol + utf8Len (w :: t) } :=
  line_append_blank lno p ln w t out hw ht h

/-- `ln ++ " #" ++ c` for a newline-free comment text `c` -/
theorem trailing_comment_noop (lno : Nat) (p ln c : String) (out : LineOut) (hc : c.toList.all (· != '\n') = true)
    (h : Lex.line lno p ln = .ok out) :
    Lex.line lno p (ln ++ " #" ++ c) = .ok { out with endCol := out.endCol + utf8Len (' ' :: '#' :: c.toList) } := by
  have e : ln ++ " #" ++ c = ln ++ String.ofList (' ' :: '#' :: c.toList) := by
    apply String.toList_injective; simp
  rw [e]
  refine line_append_blank lno p ln ' ' _ out (by decide) ?_ h
  simp only [blankTail]
  rw [if_pos (by decide), if_neg (by decide)]
  simpa using hc

/-- `ln ++ " //" ++ c` likewise -/
theorem trailing_slash_comment_noop (lno : Nat) (p ln c : String) (out : LineOut)
    (hc : c.toList.all (· != '\n') = true) (h : Lex.line lno p ln = .ok out) :
    Lex.line lno p (ln ++ " //" ++ c) =
      .ok { out with endCol := out.endCol + utf8Len (' ' :: '/' :: '/' :: c.toList) } := by
  have e : ln ++ " //" ++ c = ln ++ String.ofList (' ' :: '/' :: '/' :: c.toList) := by
    apply String.toList_injective; simp
  rw [e]
  refine line_append_blank lno p ln ' ' _ out (by decide) ?_ h
  simp only [blankTail]
  rw [if_pos (by decide), if_neg (by decide)]
  simp only [List.head?_cons, List.all_cons]
  simpa using hc

/-- A line that does not lex keeps failing at the same column when such a comment is appended,
provided the comment text contains no `"` (which could close an unterminated string literal —
see `trailing_comment_can_close_string`). -/
theorem trailing_comment_err (lno : Nat) (p ln c : String) (col : Nat) (hc : c.toList.all (· != '\n') = true)
    (hq : c.toList.all (· != '"') = true) (h : Lex.line lno p ln = .error col) :
    Lex.line lno p (ln ++ " #" ++ c) = .error col := by
  have e : ln ++ " #" ++ c = ln ++ String.ofList (' ' :: '#' :: c.toList) := by
    apply String.toList_injective; simp
  rw [e]
  refine line_append_blank_err lno p ln ' ' _ col (by decide) ?_ ?_ h
  · simp only [blankTail]
    rw [if_pos (by decide), if_neg (by decide)]
    simpa using hc
  · simp only [List.all_cons]
    simpa using hq

/-- why the `"`-free hypothesis: an unterminated string swallows the "comment" -/
theorem trailing_comment_can_close_string :
    Lex.line 1 none "\"abc" = .error 1 ∧
    (Lex.line 1 none ("\"abc" ++ " #" ++ " \"")).toOption.map (fun o => (o.toks, o.pending)) = some ([], some "abc # ") := by
  constructor <;> rfl

/-- why the inserted text must start with whitespace: after a line ending in `/`, a directly
appended `//c` swallows that `/` into the comment (2 tokens before, 1 after). -/
theorem direct_slash_comment_differs :
    (Lex.line 1 none "a /").toOption.map (·.toks.length) = some 2 ∧
    (Lex.line 1 none ("a /" ++ "//c")).toOption.map (·.toks.length) = some 1 := by
  constructor <;> decide

/-! ## 3. leading and trailing whitespace -/

/-- Leading whitespace only shifts columns (of tokens, of a lex error, and of `endCol`) by its
UTF-8 length; token kinds, texts and the pending state are unchanged.  Trailing whitespace
changes nothing but `endCol`. -/
theorem edge_whitespace_noop (lno : Nat) (p ln : String) (ws : List Char) (hws : ws.all isWs = true) :
    (Lex.line lno p (String.ofList ws ++ ln) =
      match Lex.line lno p ln with
      | .ok out => .ok { toks := out.toks.map (shiftTok (utf8Len ws)), pending := out.pending,
                         endCol := out.endCol + utf8Len ws }
      | .error c => .error (c + utf8Len ws)) ∧
    (∀ out, Lex.line lno p ln = .ok out →
      Lex.line lno p (ln ++ String.ofList ws) = .ok { out with endCol := out.endCol + utf8Len ws }) := by
  refine ⟨line_leading_ws lno p ln ws hws, ?_⟩
  intro out h
  cases ws with
  | nil =>
    have e : ln ++ String.ofList [] = ln := by apply String.toList_injective; simp
    rw [e, h]; rfl
  | cons w t =>
    simp only [List.all_cons, Bool.and_eq_true] at hws
    have hb : ∀ l : List Char, l.all isWs = true → blankTail l = true := by
      intro l hl
      induction l with
      | nil => rfl
      | cons c cs ih =>
        simp only [List.all_cons, Bool.and_eq_true] at hl
        simp only [blankTail, hl.1, Bool.true_or, if_true]
        exact ih hl.2
    exact line_append_blank lno p ln w t out hws.1
      (hb (w :: t) (by simp only [List.all_cons, hws.1, hws.2, Bool.and_self])) h

/-! ## 4. lifting to the per-file loop (`cli.rs::process_file`) -/

/-- `lexLoc` (only used at end of input: it is the position of the literal flushed by `Lexer::finish`
and the position reported for a parse error there) is overwritten by every line -/
theorem lineLoop_lexLoc_irrelevant (env : Env) (ls : LoopSt) (z : Loc) (lno : Nat) (raw : Bytes) (rest : List Bytes) :
    lineLoop env { ls with lexLoc := z } lno (raw :: rest) = lineLoop env ls lno (raw :: rest) := by
  simp only [lineLoop]

/-- A blank/comment-only line between statements has no effect except on `lexLoc` and on the
line numbers of the following lines. (`ls.cfg.stmts = []` holds between lines: `runStmts` takes
the results.) -/
theorem blank_line_step (env : Env) (ls : LoopSt) (lno : Nat) (raw : Bytes) (ln : String) (rest : List Bytes)
    (hd : utf8Decode raw = some ln) (hb : blankTail ln.toList = true) (hs : ls.cfg.stmts = []) :
    lineLoop env ls lno (raw :: rest) =
      lineLoop env { ls with lexLoc := ⟨lno, utf8Len ln.toList + 1⟩ } (lno + 1) rest := by
  obtain ⟨p, lx, ⟨cs, ck, cm⟩, st⟩ := ls
  simp only at hs
  subst hs
  rw [lineLoop, hd]
  simp only
  rw [line_blank lno p ln hb]
  simp only [feedToks, runStmts, LR.Cfg.takeResults, addStmtsKeep]

/-- Editing a line so that its tokens and pending state are unchanged (appending a comment,
trailing whitespace: §2, §3) does not change the run, when at least one more line follows. -/
theorem line_edit_noop (env : Env) (ls : LoopSt) (lno : Nat) (raw raw' next : Bytes) (ln ln' : String)
    (out out' : LineOut) (rest : List Bytes)
    (hd : utf8Decode raw = some ln) (hd' : utf8Decode raw' = some ln')
    (hl : Lex.line lno ls.pending ln = .ok out) (hl' : Lex.line lno ls.pending ln' = .ok out')
    (ht : out.toks = out'.toks) (hp : out.pending = out'.pending) :
    lineLoop env ls lno (raw :: next :: rest) = lineLoop env ls lno (raw' :: next :: rest) := by
  rw [lineLoop, lineLoop, hd, hd']
  simp only
  rw [hl, hl']
  simp only
  rw [← ht, ← hp]
  rcases feedToks ls.cfg out.toks with e | cfg
  · rcases e with _ | loc <;> rfl
  · simp only [runStmts]
    rcases addStmtsKeep env ls.st cfg.takeResults.1 with ⟨st, _ | ⟨⟨_, _⟩ | _⟩⟩
    · simp only
      exact (lineLoop_lexLoc_irrelevant env ⟨out.pending, ⟨lno, out.endCol⟩, cfg.takeResults.2, st⟩
        ⟨lno, out'.endCol⟩ (lno + 1) next rest).symm
    · rfl
    · rfl

/-- The same edit on the last line: the run is the same except for `lexLoc`, whose only use is at end
of input: the position given to a literal that is still pending there (which the parser then rejects,
`C09.pending_at_eof_rejected`) and the position reported for a parse error at end of input. -/
theorem line_edit_last (env : Env) (ls : LoopSt) (lno : Nat) (raw raw' : Bytes) (ln ln' : String)
    (out out' : LineOut)
    (hd : utf8Decode raw = some ln) (hd' : utf8Decode raw' = some ln')
    (hl : Lex.line lno ls.pending ln = .ok out) (hl' : Lex.line lno ls.pending ln' = .ok out')
    (ht : out.toks = out'.toks) (hp : out.pending = out'.pending) :
    lineLoop env ls lno [raw] =
      match lineLoop env ls lno [raw'] with
      | .ok l => .ok { l with lexLoc := ⟨lno, out.endCol⟩ }
      | .error r => .error r := by
  rw [lineLoop, lineLoop, hd, hd']
  simp only
  rw [hl, hl']
  simp only
  rw [← ht, ← hp]
  rcases feedToks ls.cfg out.toks with e | cfg
  · rcases e with _ | loc <;> rfl
  · simp only [runStmts]
    rcases addStmtsKeep env ls.st cfg.takeResults.1 with ⟨st, _ | ⟨⟨_, _⟩ | _⟩⟩
    · simp only [lineLoop]
    · rfl
    · rfl

/-! ## 5. unused bindings of plain values -/

/-- `let x = <literal>` with `x` fresh only appends the binding (and sets `loc`). -/
theorem unused_literal_let_effect (env : Env) (st : PState) (loc l : Loc) (x : String) (v : Lit)
    (hx : x ∉ keys st.regs) :
    addStmt env st (.assign loc x (.lit l v)) =
      .ok { st with loc := l, regs := st.regs ++ [(x, Val.ofLit v)] } := by
  have hs : ¬ (lookupReg st.regs x).isSome = true := fun hc => hx ((lookupReg_isSome_iff _ _).1 hc)
  simp only [addStmt]
  rw [if_neg hs]
  rfl

/-- If the remaining statements neither bind nor mention `x`, then running them after
`let x = <literal>` and running them without it give related results (`Sim (· = x)`): the same
outcome class (ok / same error kind / same panic) and, on success, the same `emitted`, `wr`,
heap, clock, imports, number of warnings, and the same bindings for every name other than `x`.
Positions of errors may differ only through `loc` left by the `let` (none of the statements in
`rest` reads `loc` before setting it, except degenerate `nil` expressions). -/
theorem unused_literal_let_noop (env : Env) (st : PState) (loc l : Loc) (x : String) (v : Lit)
    (rest : List Stmt) (hx : x ∉ keys st.regs) (hm : ∀ s ∈ rest, s.mentions x = false) :
    ResRel (Sim (· = x)) (addStmts env st (.assign loc x (.lit l v) :: rest)) (addStmts env st rest) := by
  simp only [addStmts]
  rw [unused_literal_let_effect env st loc l x v hx]
  have hsim : Sim (· = x) { st with loc := l, regs := st.regs ++ [(x, Val.ofLit v)] } st := by
    refine ⟨rfl, rfl, rfl, rfl, rfl, rfl, ?_, ?_⟩
    · intro y hy
      simp only [lookupReg_append, lookupReg_cons, lookupReg_nil]
      rw [if_neg (fun h => hy h.symm)]
      cases lookupReg st.regs y <;> rfl
    · intro hs; exact absurd rfl (hs x)
  exact addStmts_sim_erase env rfl hsim (fun s hs y hy => by subst hy; exact hm s hs)

/-- the observable consequences, spelled out -/
theorem unused_literal_let_output (env : Env) (st : PState) (loc l : Loc) (x : String) (v : Lit)
    (rest : List Stmt) (hx : x ∉ keys st.regs) (hm : ∀ s ∈ rest, s.mentions x = false) :
    (addStmts env st (.assign loc x (.lit l v) :: rest)).cls = (addStmts env st rest).cls ∧
    ∀ sa sb, addStmts env st (.assign loc x (.lit l v) :: rest) = .ok sa → addStmts env st rest = .ok sb →
      sa.emitted = sb.emitted ∧ sa.wr = sb.wr ∧ sa.heap = sb.heap ∧ sa.now = sb.now ∧
      sa.imports = sb.imports ∧ sa.warnings.length = sb.warnings.length ∧
      ∀ y, y ≠ x → lookupReg sa.regs y = lookupReg sb.regs y := by
  have h := unused_literal_let_noop env st loc l x v rest hx hm
  refine ⟨h.cls_eq, ?_⟩
  intro sa sb ha hb
  rw [ha, hb] at h
  cases h with
  | ok hab => exact ⟨hab.emitted, hab.wr, hab.heap, hab.now, hab.imports, hab.nwarn, hab.regs⟩

/-- More generally any unused `let` whose right-hand side evaluates without touching the heap
(e.g. `1.2.3.4/80`, a constant, a reference to another plain value) is unobservable. -/
theorem unused_pure_let_noop (env : Env) (st : PState) (loc : Loc) (x : String) (e : Expr) (v : Val) (st2 : PState)
    (rest : List Stmt) (hx : x ∉ keys st.regs) (he : eval env { st with loc := loc } e = .ok (v, st2))
    (hh : st2.heap = st.heap) (hm : ∀ s ∈ rest, s.mentions x = false) :
    ResRel (Sim (· = x)) (addStmts env st (.assign loc x e :: rest)) (addStmts env st rest) := by
  have hs : ¬ (lookupReg st.regs x).isSome = true := fun hc => hx ((lookupReg_isSome_iff _ _).1 hc)
  simp only [addStmts, addStmt]
  rw [if_neg hs, he]
  simp only [Res.ok_bind, Res.pure_eq]
  have hf := eval_frame env e _ _ _ he
  have hsim : Sim (· = x) { st2 with regs := st2.regs ++ [(x, v)] } st := by
    refine ⟨hf.now, hf.imports, hh, hf.wr, hf.emitted, by rw [hf.warnings], ?_, ?_⟩
    · intro y hy
      simp only [lookupReg_append, lookupReg_cons, lookupReg_nil, hf.regs]
      rw [if_neg (fun h => hy h.symm)]
      cases lookupReg st.regs y <;> rfl
    · intro hs'; exact absurd rfl (hs' x)
  exact addStmts_sim_erase env rfl hsim (fun s hs' y hy => by subst hy; exact hm s hs')

/-! ## 6. batches -/

/-- compiling a batch of sources: each one separately, with a fresh interpreter -/
def runBatch (env : Env) (srcs : List Bytes) : List FileRun := srcs.map (processFile env none)

/-- The result for each source depends on that source only (and on `env`): not on the other
members of the batch nor on their order.  True of the model by construction; the content of the
property is on the implementation side (each `process_file` call creates its own `Program`,
`Parser`, `Lexer`, and there is no global state). -/
theorem batch_independent (env : Env) (a b : List Bytes) (i : Nat) :
    runBatch env (a ++ b) = runBatch env a ++ runBatch env b ∧
    (runBatch env a)[i]? = a[i]?.map (processFile env none) := by
  simp [runBatch]

/-- determinism: a function -/
theorem deterministic (env : Env) (budget : Option Nat) (src src' : Bytes) (h : src = src') :
    processFile env budget src = processFile env budget src' := by rw [h]

/-! ## non-vacuity -/

section Examples
example : blankTail "  \t # a comment".toList = true := by decide
example : blankTail "// x".toList = true := by decide
example : (Lex.line 3 none "let x = 5;").toOption.map (·.toks.length) = some 5 := by decide
/-- a trailing comment after a real statement -/
example : (Lex.line 3 none ("let x = 5;" ++ " #" ++ " five")).toOption.map (·.toks) =
    (Lex.line 3 none "let x = 5;").toOption.map (·.toks) := by decide
/-- leading whitespace shifts the first token from column 1 to column 4 (tab + U+3000) -/
example : (Lex.line 3 none (String.ofList ['\t', '　'] ++ "let x = 5;")).toOption.map
    (fun o => o.toks.head?.map (·.loc)) = some (some ⟨3, 5⟩) := by decide

def exEnv : Env := ⟨⟨[]⟩, []⟩
/-- `let unused = 7;` before `let y = 1.2.3.4; y;` : hypotheses of `unused_literal_let_noop` -/
def restEx : List Stmt := [.assign ⟨2, 1⟩ "y" (.lit ⟨2, 9⟩ (.ip4 16909060)), .expr (.ref ⟨⟨3, 1⟩, [], ["y"]⟩)]
example : ∀ s ∈ restEx, s.mentions "unused" = false := by decide
example : "unused" ∉ keys ({} : PState).regs := by decide
example : (addStmts exEnv {} (.assign ⟨1, 1⟩ "unused" (.lit ⟨1, 14⟩ (.u64 7)) :: restEx)).cls = none := by decide
end Examples

end Resynth.C13
