import Resynth.Lemmas.InterpInvSim
import Resynth.Lemmas.InterpInvExample
/-!
# C19 — I/O failures are reported as failures, never as success

Model: `BufW` (Model/Io.lean: `BufWriter<File>` over a device that accepts `k` more bytes and
then fails every write), `writeRecord` (Model/Interp.lean), `processFile` (Model/Cli.lean).
`processFile env (some k) src` is the run whose output device accepts exactly `k` bytes in
total — the failure can sit at any byte offset; `processFile env none src` is the run on a
device that never fails.

Key step (`Lemmas/InterpInvSim.lean`): the interpreter's control flow looks at the writer only
through the ok/fail bit of `write_all`, so the budgeted run is in lock step with the unlimited
run until its first failing write, where it stops with an `Io` error (`addStmts_sim`,
`execFrom_sim`, `processFile_sim`).
-/
namespace Resynth.C19

/-! ## 1. the buffered writer never loses track of what reached the device -/

/-- For every capacity, every budget `k0` and every sequence of `write_all` / `flush` calls
(errors ignored by the caller or not): the device never holds more than `k0` bytes, what it
holds is a prefix of the concatenation of everything written, and if every call reported
success then device + buffer hold exactly everything written. -/
theorem bufw_accounting (cap k0 : Nat) (ops : List BufW.Op) :
    (BufW.runOps { cap := cap, budget := some k0 } ops).1.dev.length ≤ k0 ∧
    (BufW.runOps { cap := cap, budget := some k0 } ops).1.dev <+: BufW.written ops ∧
    ((BufW.runOps { cap := cap, budget := some k0 } ops).2 = true →
      (BufW.runOps { cap := cap, budget := some k0 } ops).1.dev ++
        (BufW.runOps { cap := cap, budget := some k0 } ops).1.buf = BufW.written ops) := by
  have hg : BufW.Good k0 [] ({ cap := cap, budget := some k0 } : BufW) := ⟨k0, rfl, by simp, rfl⟩
  obtain ⟨h1, h2⟩ := (BufW.runOps_acc ops).1 hg
  simp only [List.nil_append] at h1 h2
  refine ⟨?_, ?_, fun hok => ?_⟩
  · rcases h2 with ⟨k', _, hk, _⟩ | ⟨_, hk, _⟩ <;> omega
  · rcases h2 with ⟨k', _, _, hc⟩ | ⟨_, _, hp⟩
    · rw [← hc]; exact List.prefix_append _ _
    · exact hp
  · obtain ⟨k', _, _, hc⟩ := h1 hok
    exact hc

/-- A `write_all` that reports success on the budgeted device leaves it in lock step with the
unlimited device (same buffer, same device content, budget = what is left of `k0`). -/
theorem write_lockstep (k0 : Nat) (wk wu : BufW) (b : Bytes) (h : BufW.Shadow k0 wk wu)
    (hok : (wk.writeAll b).2 = true) : BufW.Shadow k0 (wk.writeAll b).1 (wu.writeAll b).1 :=
  h.writeAll b hok

/-! ## 2. statements: lock step up to the first failing write -/

/-- For every environment, statement list, state and writer pair in lock step: the budgeted run
of the statements either stays in lock step with the unlimited one, or both stop with the same
error, or both panic alike, or the budgeted run stops with an `Io` error. -/
theorem statements_lockstep (env : Env) (k0 : Nat) (ss : List Stmt) (su : PState) (w : BufW)
    (h : BufW.Shadow k0 w su.wr) :
    SimRes k0 (addStmts env (withWr su w) ss) (addStmts env su ss) :=
  addStmts_sim env ss h

/-- In particular a failing write never turns into a panic or a success of the statement:
whenever the unlimited run of the statements succeeds, the budgeted run succeeds in lock step or
reports `Io`. -/
theorem statements_fail_as_io (env : Env) (k0 : Nat) (ss : List Stmt) (su su' : PState) (w : BufW)
    (h : BufW.Shadow k0 w su.wr) (hu : addStmts env su ss = .ok su') :
    (∃ w', BufW.Shadow k0 w' su'.wr ∧ addStmts env (withWr su w) ss = .ok (withWr su' w')) ∨
    (∃ l, addStmts env (withWr su w) ss = .err .io l) := by
  have := addStmts_sim env ss h
  rw [hu] at this
  revert this
  generalize addStmts env (withWr su w) ss = rk
  intro hs
  cases hs with
  | ok h' => exact Or.inl ⟨_, h', rfl⟩
  | io l _ => exact Or.inr ⟨l, rfl⟩

/-! ## 3. whole runs -/

/-- For every environment, source and byte offset `k`: if the complete output (the file of the
run on a device that never fails, which succeeds) is longer than what the device accepts, the
run is reported as failed with an `Io` error — not as success, and not as a panic. -/
theorem fault_reported (env : Env) (src : Bytes) (k : Nat)
    (hs : (processFile env none src).outcome = .success)
    (hk : k < (processFile env none src).file.length) :
    (∃ l, (processFile env (some k) src).outcome = .failure "Io" "" l) ∧
    (processFile env (some k) src).outcome ≠ .success ∧
    (∀ s, (processFile env (some k) src).outcome ≠ .panic s) := by
  have sim := processFile_sim env k src
  have hne : (processFile env (some k) src).outcome ≠ .success := by
    intro hc
    have := (sim.complete hc).1
    have hl := sim.len
    rw [this] at hl
    omega
  rcases sim.outcome with ho | ⟨l, ho⟩
  · rw [hs] at ho; exact absurd ho hne
  · exact ⟨⟨l, ho⟩, hne, fun s hc => by rw [ho] at hc; cases hc⟩

/-- Success is only ever claimed for the complete output: for every `k`, if the budgeted run
reports success then its file is the unlimited run's file (and that run succeeds too, with the
same records). -/
theorem complete_on_success (env : Env) (src : Bytes) (k : Nat)
    (h : (processFile env (some k) src).outcome = .success) :
    (processFile env (some k) src).file = (processFile env none src).file ∧
    (processFile env none src).outcome = .success ∧
    (processFile env (some k) src).emitted = (processFile env none src).emitted :=
  (processFile_sim env k src).complete h

/-- In every case what is on the device is a prefix of the unlimited run's file, and never more
than the device accepts. -/
theorem prefix_on_failure (env : Env) (src : Bytes) (k : Nat) :
    (processFile env (some k) src).file <+: (processFile env none src).file ∧
    (processFile env (some k) src).file.length ≤ k :=
  ⟨(processFile_sim env k src).pre, (processFile_sim env k src).len⟩

/-- The device failing never *adds* a panic or changes the kind of a non-I/O failure: the
budgeted run's outcome is the unlimited run's outcome or an `Io` failure. -/
theorem outcome_same_or_io (env : Env) (src : Bytes) (k : Nat) :
    (processFile env (some k) src).outcome = (processFile env none src).outcome ∨
    ∃ l, (processFile env (some k) src).outcome = .failure "Io" "" l :=
  (processFile_sim env k src).outcome

/-! ## 4. non-vacuity

`processFile` itself is not kernel-evaluable (UTF-8 primitives); `execPlan` on the hand-built
`Example.prog` (three records, 119 bytes of output) is what `processFile` computes after the
front end (`processFile_eq`). -/
open Example in
example : (execPlan env none ⟨[prog], none⟩).outcome = .success ∧
    (execPlan env none ⟨[prog], none⟩).file.length = 119 := by decide

open Example in
/-- device full after 118 bytes / in the middle of the second record / inside the file header /
at once: always an `Io` failure and a prefix on the device -/
example : (execPlan env (some 118) ⟨[prog], none⟩).outcome = .failure "Io" "" Loc.nil ∧
    (execPlan env (some 70) ⟨[prog], none⟩).outcome = .failure "Io" "" Loc.nil ∧
    (execPlan env (some 70) ⟨[prog], none⟩).file = (execPlan env none ⟨[prog], none⟩).file.take 70 ∧
    (execPlan env (some 10) ⟨[prog], none⟩).file = Pcap.header.take 10 ∧
    (execPlan env (some 0) ⟨[prog], none⟩).outcome = .failure "Io" "" Loc.nil ∧
    (execPlan env (some 119) ⟨[prog], none⟩).outcome = .success := by decide

open Example in
/-- with a small buffer the failing write happens inside a statement: `add_expr` reports `Io`
(here: 4-byte buffer, header already on the device, room for 20 more bytes) -/
example : errOf (addStmts env
      (withWr (st0 none) { cap := 4, buf := [], dev := Pcap.header, budget := some 20 }) prog) = some .io ∧
    BufW.Shadow 44 { cap := 4, buf := [], dev := Pcap.header, budget := some 20 }
      { cap := 4, buf := [], dev := Pcap.header, budget := none } := by
  refine ⟨by decide, ?_⟩
  simp [BufW.Shadow, header_length]

example : (BufW.runOps { cap := 4, budget := some 5 } [.write [1, 2, 3], .write [4, 5, 6, 7], .flush]).1.dev
    = [1, 2, 3, 4, 5] := by decide

end Resynth.C19
