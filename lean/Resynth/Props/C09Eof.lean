import Resynth.Props.C09
import Resynth.Lemmas.InterpInvCli
/-!
# C09, end of input — a string literal that is still pending reaches the parser

`Lexer::line` holds a string literal back until the next non-string token (adjacent literals are
merged, also across lines).  At end of input `process_file` therefore calls `Lexer::finish` and feeds
the literal that is still pending (if any) to the parser, immediately before `EOF`
(`Model/Cli.lean`, FIX(C09); before the fix that literal was dropped silently, so `f(1);⏎"junk"` was
accepted).

* **grammar level**: no sentence of the grammar ends with a string literal
  (`no_sentence_ends_with_string`), so such an input is always rejected (`trailing_string_rejected`),
  and after a complete program the error is raised exactly at the literal (`string_after_program`);
* **command line driver**: the parser sees `tokens of all lines ++ [pending literal] ++ [EOF]`
  (`parser_sees`), hence a file at whose end a literal is pending ends with a `Parse` failure
  (`pending_at_eof_rejected`).
-/
namespace Resynth.C09
open Resynth.LR Resynth.Spec

/-! ## grammar level -/

/-- every statement ends with a `;` -/
theorem statement_ends_semi {ts s} (h : Statement ts s) : ∃ pre t, ts = pre ++ [t] ∧ t.kind = .semi := by
  cases h with
  | @imp k i s _ _ hs => exact ⟨[k, i], s, rfl, hs⟩
  | @assign k i q s ts e _ _ _ _ hs => exact ⟨k :: i :: q :: ts, s, rfl, hs⟩
  | @expr t s ts e _ _ hs => exact ⟨t :: ts, s, rfl, hs⟩

/-- a sentence is `EOF` alone, or ends with `;` `EOF` -/
theorem program_last_tokens {ts ss} (h : Program ts ss) :
    (∃ e, ts = [e] ∧ e.kind = .eof) ∨ ∃ pre s e, ts = pre ++ [s, e] ∧ s.kind = .semi ∧ e.kind = .eof := by
  induction h with
  | @eof e he => exact .inl ⟨e, rfl, he⟩
  | @cons ts s us ss hs _ ih =>
    obtain ⟨pre, t, rfl, ht⟩ := statement_ends_semi hs
    rcases ih with ⟨e, rfl, he⟩ | ⟨pre', s', e, rfl, hs', he⟩
    · exact .inr ⟨pre, t, e, by simp, ht, he⟩
    · exact .inr ⟨pre ++ [t] ++ pre', s', e, by simp, hs', he⟩

/-- **No sentence of the grammar ends with a string literal** (every statement ends with `;`). -/
theorem no_sentence_ends_with_string (toks : List Tok) (s e : Tok) (hs : s.kind = .strLit) (ss : List Stmt) :
    ¬ Program (toks ++ [s] ++ [e]) ss := by
  intro h
  rcases program_last_tokens h with ⟨e', h1, _⟩ | ⟨pre, s', e', h1, hs', _⟩
  · have := congrArg List.length h1; simp at this
  · have h2 : toks ++ [s, e] = pre ++ [s', e'] := by simpa using h1
    have h3 := List.append_inj_right' h2 rfl
    simp only [List.cons.injEq, and_true] at h3
    rw [h3.1, hs'] at hs; cases hs

/-- Hence a token sequence that ends with a string literal is always rejected with a parse error
(at some token, or at the `EOF`) — never accepted, never a panic. -/
theorem trailing_string_rejected (toks : List Tok) (s : Tok) (hs : s.kind = .strLit) :
    ∃ i, parseAll (toks ++ [s]) = .parseError i := by
  cases h : parseAll (toks ++ [s]) with
  | parseError i => exact ⟨i, rfl⟩
  | panic i => exact absurd h (parseAll_no_panic _ i)
  | ok ss =>
    obtain ⟨ss', h'⟩ := (accepts_iff_sentence _).1 ⟨ss, h⟩
    exact absurd h' (no_sentence_ends_with_string toks s _ hs ss')

/-- the reference parser, after a complete program, stops at a string literal (two tokens left:
the literal and `EOF`) -/
theorem sProgram_then_string {ts ss} (h : Program ts ss) : ∀ (w : List Tok) (e : Tok), ts = w ++ [e] →
    ∀ (acc : List Stmt) (s e' : Tok), s.kind = .strLit → sProgram acc (w ++ [s, e']) = .error 2 := by
  induction h with
  | @eof e0 he =>
    intro w e hw acc s e' hs
    have hw0 : w = [] := by
      cases w with
      | nil => rfl
      | cons a w => simp at hw
    subst hw0
    have h1 : sStmt [s, e'] = .error 2 := by simp [sStmt, hs]
    rw [List.nil_append, sProgram.eq_def]
    simp only [hs, reduceCtorEq, ↓reduceIte]
    split
    · next n hn => rw [h1] at hn; cases hn; rfl
    · next s2 rest hn => rw [h1] at hn; cases hn
  | @cons ts st us ss hst hus ih =>
    intro w e hw acc s e' hs
    obtain ⟨w', e2, rfl, _⟩ := program_ends_eof hus
    have hw1 : w = ts ++ w' := by
      have := congrArg List.dropLast hw
      simpa [← List.append_assoc] using this.symm
    subst hw1
    obtain ⟨st', h1, _⟩ := complete_stmt hst (w' ++ [s, e'])
    obtain ⟨t, ts0, rfl, ht⟩ := hst.first
    have h3 := ih w' e2 rfl (acc ++ [st']) s e' hs
    simp only [List.append_assoc, List.cons_append] at h1 ⊢
    rw [sProgram.eq_def]
    simp only [ht, ↓reduceIte]
    split
    · next n hn => rw [h1] at hn; cases hn
    · next s2 rest hn => rw [h1] at hn; cases hn; exact h3

/-- **A string literal after a complete program is a parse error exactly at the literal**: if `toks`
is accepted, then `toks ++ [s]` (`s` a string literal — what the parser sees when the file goes on
with `"junk"` and ends) is rejected at index `toks.length`. -/
theorem string_after_program (toks : List Tok) (ss : List Stmt) (s : Tok) (hs : s.kind = .strLit)
    (h : parseAll toks = .ok ss) : parseAll (toks ++ [s]) = .parseError toks.length := by
  obtain ⟨ss', hp⟩ := (accepts_iff_sentence toks).1 ⟨ss, h⟩
  have h2 := sProgram_then_string hp toks _ rfl [] s Spec.eofTok hs
  rw [parseAll_error_iff]
  unfold Spec.parse
  have : toks ++ [s] ++ [Spec.eofTok] = toks ++ [s, Spec.eofTok] := by simp
  rw [this, h2]
  simp

/-! ## the command line driver -/

/-- What the lexer delivers for the lines of a file: all tokens (in order), the string literal still
pending after the last line and the position where the lexer stopped; `none` if a line is not UTF-8 or
does not lex.  (`pending`, `loc`: the lexer state before the first of the lines, `lno` its number.) -/
def lexLines (pending : Option String) (loc : Loc) (lno : Nat) :
    List Bytes → Option (List Tok × Option String × Loc)
  | [] => some ([], pending, loc)
  | raw :: rest =>
    match utf8Decode raw with
    | none => none
    | some ln =>
      match Lex.line lno pending ln with
      | .error _ => none
      | .ok lo => (lexLines lo.pending ⟨lno, lo.endCol⟩ (lno + 1) rest).map fun r => (lo.toks ++ r.1, r.2)

/-- the tokens `Lexer::finish` adds at end of input: the pending literal, if any -/
def finishToks (pending : Option String) (loc : Loc) : List Tok := (Lex.finish pending loc).toList

theorem finishToks_some (p : String) (loc : Loc) : finishToks (some p) loc = [⟨.strLit, p, loc⟩] := rfl
theorem finishToks_none (loc : Loc) : finishToks none loc = [] := rfl

/-- `feedToks` (the per-line feeding loop of `cli.rs`) is `feedList` -/
theorem feedToks_feedList (ts : List Tok) : ∀ (c : Cfg) (i : Nat),
    match feedList c i ts with
    | .done c' => feedToks c ts = .ok c'
    | .parseError _ => ∃ l, feedToks c ts = .error (some l)
    | .panic _ => feedToks c ts = .error none := by
  induction ts with
  | nil => intro c i; rfl
  | cons t ts ih =>
    intro c i
    simp only [feedList, feedToks]
    cases feed c t with
    | ok c' => exact ih c' (i + 1)
    | parseError => exact ⟨_, rfl⟩
    | panic => rfl

theorem prepend_stmts (c : Cfg) : ({ c with stmts := [] } : Cfg).prepend c.stmts = c := by
  simp [Cfg.prepend]

/-- the line loop with `get_results` after every line, against feeding all tokens at once -/
theorem planLines_feedList : ∀ (lines : List Bytes) (f : Front) (lno i : Nat) (toks : List Tok)
    (pend : Option String) (loc : Loc), f.cfg.stmts = [] →
    lexLines f.pending f.lexLoc lno lines = some (toks, pend, loc) →
    match feedList f.cfg i toks with
    | .done c => ∃ bs, planLines f lno lines = (bs, .ok ⟨pend, loc, { c with stmts := [] }⟩) ∧
        bs.flatten = c.stmts
    | .parseError _ => ∃ bs l, planLines f lno lines = (bs, .error (.failure "Parse" "" l))
    | .panic _ => ∃ bs, planLines f lno lines = (bs, .error (.panic "parser")) := by
  intro lines
  induction lines with
  | nil =>
    intro f lno i toks pend loc hf h
    simp only [lexLines, Option.some.injEq, Prod.mk.injEq] at h
    obtain ⟨rfl, rfl, rfl⟩ := h
    obtain ⟨fp, fl, fc⟩ := f
    simp only at hf
    refine ⟨[], ?_, by simp [hf]⟩
    simp only [planLines]
    rw [← hf]
  | cons raw rest ih =>
    intro f lno i toks pend loc hf h
    simp only [lexLines] at h
    cases hu : utf8Decode raw with
    | none => simp [hu] at h
    | some ln =>
      simp only [hu] at h
      cases hl : Lex.line lno f.pending ln with
      | error c => simp [hl] at h
      | ok lo =>
        simp only [hl, Option.map_eq_some_iff, Prod.mk.injEq] at h
        obtain ⟨⟨toks', pend', loc'⟩, hrest, rfl, rfl, rfl⟩ := h
        have hft := feedToks_feedList lo.toks f.cfg i
        simp only [planLines, hu, hl]
        rw [feedList_append]
        cases hfl : feedList f.cfg i lo.toks with
        | parseError j =>
          rw [hfl] at hft
          obtain ⟨l, hl'⟩ := hft
          simp only [hl']
          exact ⟨[], l, rfl⟩
        | panic j =>
          rw [hfl] at hft
          simp only [hft]
          exact ⟨[], rfl⟩
        | done c1 =>
          rw [hfl] at hft
          simp only [hft]
          have ih' := ih ⟨lo.pending, ⟨lno, lo.endCol⟩, c1.takeResults.2⟩ (lno + 1) (i + lo.toks.length)
            toks' pend loc rfl hrest
          have hpre : feedList c1 (i + lo.toks.length) toks' =
              Run.map (Cfg.prepend c1.stmts) (feedList c1.takeResults.2 (i + lo.toks.length) toks') := by
            rw [← feedList_prepend]
            simp only [Cfg.takeResults]
            rw [prepend_stmts]
          rw [hpre]
          cases hr : feedList c1.takeResults.2 (i + lo.toks.length) toks' with
          | parseError j =>
            rw [hr] at ih'
            obtain ⟨bs, l, h1⟩ := ih'
            exact ⟨c1.takeResults.1 :: bs, l, by simp [h1]⟩
          | panic j =>
            rw [hr] at ih'
            obtain ⟨bs, h1⟩ := ih'
            exact ⟨c1.takeResults.1 :: bs, by simp [h1]⟩
          | done c2 =>
            rw [hr] at ih'
            obtain ⟨bs, h1, h2⟩ := ih'
            refine ⟨c1.takeResults.1 :: bs, ?_, ?_⟩
            · simp [h1, Cfg.prepend]
            · simp [Cfg.prepend, Cfg.takeResults, h2]

/-- the end of `process_file`: the pending literal (if any), then `EOF` — as one `feedList` -/
theorem feedPending_feedList (f : Front) (i : Nat) :
    match feedList f.cfg i (finishToks f.pending f.lexLoc ++ [LR.eofTok]) with
    | .done c => ∃ c0, feedPending f = .ok c0 ∧ feed c0 LR.eofTok = .ok c
    | .parseError _ => feedPending f = .parseError ∨ ∃ c0, feedPending f = .ok c0 ∧ feed c0 LR.eofTok = .parseError
    | .panic _ => feedPending f = .panic ∨ ∃ c0, feedPending f = .ok c0 ∧ feed c0 LR.eofTok = .panic := by
  obtain ⟨pend, loc, c⟩ := f
  cases pend with
  | none =>
    simp only [finishToks_none, List.nil_append, feedList, feedPending, Lex.finish, Option.map_none]
    cases h : feed c LR.eofTok with
    | ok c' => exact ⟨c, rfl, h⟩
    | parseError => exact .inr ⟨c, rfl, h⟩
    | panic => exact .inr ⟨c, rfl, h⟩
  | some p =>
    simp only [finishToks_some, List.cons_append, List.nil_append, feedList, feedPending, Lex.finish,
      Option.map_some]
    cases feed c ⟨.strLit, p, loc⟩ with
    | parseError => exact .inl rfl
    | panic => exact .inl rfl
    | ok c0 =>
      simp only
      cases h : feed c0 LR.eofTok with
      | ok c' => exact ⟨c0, rfl, h⟩
      | parseError => exact .inr ⟨c0, rfl, h⟩
      | panic => exact .inr ⟨c0, rfl, h⟩

/-- **What the parser sees.**  If all lines of `src` lex — to the tokens `toks`, with the literal `pend`
still pending where the lexer stopped (`loc`) — then the front end of `process_file` (`planOf src`:
feeding line by line, `get_results` after every line, `Lexer::finish`, `EOF`) behaves exactly as the
parser does on the single token sequence `toks ++ [pending literal] ++ [EOF]`:
it accepts iff `parseAll` accepts, and hands over the same statements (in the same order); otherwise
it stops with a `Parse` failure.  In particular for `pend = some p` the parser sees
`toks ++ [⟨strLit, p, loc⟩] ++ [EOF]` (`finishToks_some`). -/
theorem parser_sees (src : Bytes) (toks : List Tok) (pend : Option String) (loc : Loc)
    (h : lexLines none Loc.nil 1 (splitLines src) = some (toks, pend, loc)) :
    match parseAll (toks ++ finishToks pend loc) with
    | .ok ss => (planOf src).final = none ∧ (planOf src).batches.flatten = ss
    | .parseError _ => ∃ l, (planOf src).final = some (.failure "Parse" "" l)
    | .panic _ => False := by
  have hpl := planLines_feedList (splitLines src) ⟨none, Loc.nil, Cfg.init⟩ 1 0 toks pend loc rfl h
  have hnp := parseAll_no_panic (toks ++ finishToks pend loc)
  unfold parseAll at hnp ⊢
  rw [List.append_assoc, feedList_append] at hnp ⊢
  unfold planOf
  cases hfl : feedList Cfg.init 0 toks with
  | parseError j =>
    rw [hfl] at hpl
    obtain ⟨bs, l, h1⟩ := hpl
    simp only [h1]
    exact ⟨l, rfl⟩
  | panic j => rw [hfl] at hnp; exact absurd rfl (hnp j)
  | done c =>
    rw [hfl] at hpl hnp
    obtain ⟨bs, h1, h2⟩ := hpl
    simp only [h1] at hnp ⊢
    have hfp := feedPending_feedList ⟨pend, loc, { c with stmts := [] }⟩ (0 + toks.length)
    have hpre : feedList c (0 + toks.length) (finishToks pend loc ++ [LR.eofTok]) =
        Run.map (Cfg.prepend c.stmts)
          (feedList { c with stmts := [] } (0 + toks.length) (finishToks pend loc ++ [LR.eofTok])) := by
      rw [← feedList_prepend, prepend_stmts]
    rw [hpre] at hnp ⊢
    cases hr : feedList { c with stmts := [] } (0 + toks.length) (finishToks pend loc ++ [LR.eofTok]) with
    | panic j => rw [hr] at hnp; exact absurd rfl (hnp j)
    | parseError j =>
      rw [hr] at hfp
      simp only [Run.map]
      rcases hfp with h3 | ⟨c0, h3, h4⟩
      · simp only [h3]; exact ⟨loc, rfl⟩
      · simp only [h3, h4]; exact ⟨loc, rfl⟩
    | done cE =>
      rw [hr] at hfp
      obtain ⟨c0, h3, h4⟩ := hfp
      simp only [Run.map, h3, h4]
      refine ⟨by trivial, ?_⟩
      simp [Cfg.prepend, Cfg.takeResults, h2]

/-- **A literal pending at end of file is a `Parse` failure.**  If all lines of `src` lex and a string
literal is still pending after the last line, the front end ends with a `Parse` failure, and so the
run does not succeed — whatever precedes the literal.  (Before the fix the literal was dropped and a
file consisting of a complete program followed by `"junk"` succeeded.) -/
theorem pending_at_eof_rejected (env : Env) (budget : Option Nat) (src : Bytes) (toks : List Tok) (p : String)
    (loc : Loc) (h : lexLines none Loc.nil 1 (splitLines src) = some (toks, some p, loc)) :
    (∃ l, (planOf src).final = some (.failure "Parse" "" l)) ∧
    (processFile env budget src).outcome ≠ .success := by
  have h1 := parser_sees src toks (some p) loc h
  obtain ⟨i, hi⟩ := trailing_string_rejected toks ⟨.strLit, p, loc⟩ rfl
  rw [finishToks_some, hi] at h1
  refine ⟨h1, ?_⟩
  obtain ⟨l, hl⟩ := h1
  rw [processFile_eq]
  intro hs
  obtain ⟨st, hp, he⟩ := execPlan_cases (env := env) (fun _ => True) (fun _ _ _ _ _ => trivial) budget
    (planOf src) trivial
  unfold execPlan execFrom at hs
  cases hr : runBatches env (st0 budget) (planOf src).batches with
  | error r =>
    have := runBatches_cases (env := env) (fun _ => True) (fun _ _ _ _ _ => trivial) (planOf src).batches
      (st0 budget) trivial
    rw [hr] at this hs
    obtain ⟨st1, o, _, rfl, ho⟩ := this
    exact ho hs
  | ok st' =>
    rw [hr, hl] at hs
    cases hs

/-! ## non-vacuity -/

private def t (l col : Nat) (k : TokKind) (s : String := "") : Tok := ⟨k, s, ⟨l, col⟩⟩

/-- `f(1);` is a complete program; followed by the literal `junk` it is rejected AT the literal -/
private def call1 : List Tok := [t 1 1 .ident "f", t 1 2 .lparen, t 1 3 .intLit "1", t 1 4 .rparen, t 1 5 .semi]
example : parseAll call1 = .ok [.expr (.call ⟨⟨1, 1⟩, [], ["f"]⟩ (.cons none (.lit ⟨1, 3⟩ (.u64 1)) .nil))] := by rfl
example : parseAll (call1 ++ [t 2 7 .strLit "junk"]) = .parseError 5 :=
  string_after_program call1 _ _ rfl (by rfl)
/-- inside a call the literal is accepted by the automaton but the sentence cannot end there: the
error is at the `EOF` -/
example : parseAll [t 1 1 .ident "f", t 1 2 .lparen, t 1 3 .strLit "junk"] = .parseError 3 := by rfl

/-- the file `f(1);⏎"junk"`: both lines lex, the literal is pending at `2:7` where the lexer stopped -/
private def junkFile : Bytes := "f(1);\n\"junk\"".toUTF8.toList
example : lexLines none Loc.nil 1 (splitLines junkFile) = some (call1, some "junk", ⟨2, 7⟩) := by
  decide +kernel
/-- … and the front end reports a `Parse` failure there; without the literal the program is accepted -/
example : (planOf junkFile).final = some (.failure "Parse" "" ⟨2, 7⟩) := by decide +kernel
example : (planOf "f(1);\n".toUTF8.toList).final = none := by decide +kernel
/-- an empty pending literal is flushed as well: `f(1);⏎""` -/
example : (planOf "f(1);\n\"\"".toUTF8.toList).final = some (.failure "Parse" "" ⟨2, 3⟩) := by decide +kernel

end Resynth.C09
