import Resynth.Lemmas.LawsLemmas
import Resynth.Lemmas.LawsRename
import Resynth.Lemmas.InterpInvTime
import Resynth.Props.C14
/-!
# C14 (further laws) — namespaces, aliases, stored time jumps, renaming

Model: `addStmt`, `addStmts`, `eval` of `Model/Interp.lean`.  Everything is for an arbitrary
environment (library table, file system), arbitrary state and arbitrary positions.

* A1 `namespaces_independent` — the module namespace (`imports`) and the variable namespace
  (`regs`) do not interact: `import m` never reads or writes `regs`, `let x = <literal>` never
  reads or writes `imports`; `import m; let m = v;` and `let m = v; import m;` end in the same state.
* A2 `alias_emits_same` — after `let b = a`, the statements `b;` and `a;` have the same effect.
* A3 `stored_jump` — a bound time jump acts at each use, not at its `let`.
* A4 `alpha_renaming` — consistently renaming a variable to a fresh name changes nothing observable.
-/
namespace Resynth.C14
open Sem

/-! ## A1. module names and variable names live in independent namespaces -/

/-- the fields of the state other than `loc` (the position of the last evaluated token, used only
for error messages and warnings) -/
def SameButLoc (a b : PState) : Prop :=
  a.regs = b.regs ∧ a.imports = b.imports ∧ a.emitted = b.emitted ∧ a.wr = b.wr ∧ a.now = b.now ∧
  a.heap = b.heap ∧ a.warnings = b.warnings

/-- (i) `import m` does not read `regs`: replacing the bindings by any others gives the same outcome
(same success / same error / same panic) with the same new `imports`, and the replaced bindings are
carried through untouched. -/
theorem import_ignores_regs (env : Env) (st : PState) (loc : Loc) (m : String) (regs' : List (String × Val)) :
    addStmt env { st with regs := regs' } (.imp loc m) =
      (addStmt env st (.imp loc m)).mapOk (fun s => { s with regs := regs' }) := by
  rw [addStmt_imp_eq, addStmt_imp_eq]
  simp only
  split
  · rfl
  · split <;> rfl

/-- (i) … and does not write `regs`, the clock, the writer or the record list. -/
theorem import_frame (env : Env) (st st' : PState) (loc : Loc) (m : String)
    (h : addStmt env st (.imp loc m) = .ok st') :
    st'.regs = st.regs ∧ st'.now = st.now ∧ st'.wr = st.wr ∧ st'.emitted = st.emitted ∧
    st'.heap = st.heap ∧ st'.warnings = st.warnings := by
  rw [addStmt_imp_eq] at h
  split at h
  · cases h; simp
  · split at h <;> cases h
    simp

/-- (ii) `let x = <literal>` succeeds iff `x` is not a bound *variable*; whether a module called `x`
is imported plays no role (the closed form does not mention `imports`). -/
theorem let_lit_closed_form (env : Env) (st : PState) (loc l : Loc) (x : String) (lit : Lit) :
    addStmt env st (.assign loc x (.lit l lit)) =
      if x ∈ keys st.regs then .err (.multipleAssign x) loc
      else .ok { st with loc := l, regs := st.regs ++ [(x, Val.ofLit lit)] } :=
  addStmt_let_lit_eq env st loc l x lit

theorem let_lit_ok_iff (env : Env) (st : PState) (loc l : Loc) (x : String) (lit : Lit) :
    (∃ st', addStmt env st (.assign loc x (.lit l lit)) = .ok st') ↔ x ∉ keys st.regs := by
  rw [let_lit_closed_form]
  by_cases h : x ∈ keys st.regs <;> simp [h]

/-- (ii) replacing the import list by any other gives the same outcome and the same new bindings;
the replaced import list is carried through untouched. -/
theorem let_lit_ignores_imports (env : Env) (st : PState) (loc l : Loc) (x : String) (lit : Lit)
    (imps' : List String) :
    addStmt env { st with imports := imps' } (.assign loc x (.lit l lit)) =
      (addStmt env st (.assign loc x (.lit l lit))).mapOk (fun s => { s with imports := imps' }) := by
  rw [let_lit_closed_form, let_lit_closed_form]
  simp only
  split <;> rfl

/-- (ii) a `let` of any right-hand side leaves `imports` alone. -/
theorem let_frame (env : Env) (st st' : PState) (loc : Loc) (x : String) (e : Expr)
    (h : addStmt env st (.assign loc x e) = .ok st') :
    st'.imports = st.imports ∧ st'.now = st.now ∧ st'.wr = st.wr ∧ st'.emitted = st.emitted ∧
    st'.warnings = st.warnings := by
  obtain ⟨_, v, st1, he, rfl⟩ := Sem.addStmt_assign_ok h
  have hf := Sem.eval_frame env e _ _ _ he
  exact ⟨hf.imports, hf.now, hf.wr, hf.emitted, hf.warnings⟩

/-- the import list after a successful `import m` -/
def importsAfter (st : PState) (m : String) : List String :=
  if m ∈ st.imports then st.imports else st.imports ++ [m]

/-- (iii) closed forms of the two orders (`x` and `m` arbitrary, in particular `x = m`). -/
theorem import_then_let (env : Env) (st : PState) (l1 l2 l3 : Loc) (m x : String) (lit : Lit)
    (hx : x ∉ keys st.regs) (hm : m ∈ st.imports ∨ env.lib.get m = some .module) :
    addStmts env st [.imp l1 m, .assign l2 x (.lit l3 lit)] =
      .ok { st with loc := l3, imports := importsAfter st m, regs := st.regs ++ [(x, Val.ofLit lit)] } := by
  simp only [addStmts, addStmt_imp_eq, importsAfter]
  by_cases h : m ∈ st.imports
  · simp only [h, if_true, Res.ok_bind, addStmt_let_lit_eq, if_neg hx]
  · have hl : env.lib.get m = some .module := hm.resolve_left h
    simp only [h, if_false, hl, Res.ok_bind, addStmt_let_lit_eq, if_neg hx]

theorem let_then_import (env : Env) (st : PState) (l1 l2 l3 : Loc) (m x : String) (lit : Lit)
    (hx : x ∉ keys st.regs) (hm : m ∈ st.imports ∨ env.lib.get m = some .module) :
    addStmts env st [.assign l2 x (.lit l3 lit), .imp l1 m] =
      .ok { st with loc := l1, imports := importsAfter st m, regs := st.regs ++ [(x, Val.ofLit lit)] } := by
  simp only [addStmts, addStmt_let_lit_eq, if_neg hx, Res.ok_bind, addStmt_imp_eq, importsAfter]
  by_cases h : m ∈ st.imports
  · simp only [h, if_true, Res.ok_bind]
  · have hl : env.lib.get m = some .module := hm.resolve_left h
    simp only [h, if_false, hl, Res.ok_bind]

/-- both orders succeed exactly when `x` is a fresh variable and `m` is (already imported or) a
module of the library -/
theorem import_then_let_ok_iff (env : Env) (st : PState) (l1 l2 l3 : Loc) (m x : String) (lit : Lit) :
    (∃ s, addStmts env st [.imp l1 m, .assign l2 x (.lit l3 lit)] = .ok s) ↔
      (x ∉ keys st.regs ∧ (m ∈ st.imports ∨ env.lib.get m = some .module)) := by
  constructor
  · rintro ⟨s, h⟩
    simp only [addStmts] at h
    obtain ⟨s1, h1, h⟩ := Res.bind_eq_ok.1 h
    obtain ⟨s2, h2, h⟩ := Res.bind_eq_ok.1 h
    have hr := (import_frame env st s1 l1 m h1).1
    refine ⟨?_, ?_⟩
    · have := (let_lit_ok_iff env s1 l2 l3 x lit).1 ⟨s2, h2⟩
      rwa [hr] at this
    · rw [addStmt_imp_eq] at h1
      by_cases hm : m ∈ st.imports
      · exact Or.inl hm
      · rw [if_neg hm] at h1
        right
        split at h1 <;> first | assumption | cases h1
  · rintro ⟨hx, hm⟩
    exact ⟨_, import_then_let env st l1 l2 l3 m x lit hx hm⟩

theorem let_then_import_ok_iff (env : Env) (st : PState) (l1 l2 l3 : Loc) (m x : String) (lit : Lit) :
    (∃ s, addStmts env st [.assign l2 x (.lit l3 lit), .imp l1 m] = .ok s) ↔
      (x ∉ keys st.regs ∧ (m ∈ st.imports ∨ env.lib.get m = some .module)) := by
  constructor
  · rintro ⟨s, h⟩
    simp only [addStmts] at h
    obtain ⟨s1, h1, h⟩ := Res.bind_eq_ok.1 h
    obtain ⟨s2, h2, h⟩ := Res.bind_eq_ok.1 h
    have hx := (let_lit_ok_iff env st l2 l3 x lit).1 ⟨s1, h1⟩
    refine ⟨hx, ?_⟩
    have hi := (let_frame env st s1 l2 x _ h1).1
    rw [addStmt_imp_eq, hi] at h2
    by_cases hm : m ∈ st.imports
    · exact Or.inl hm
    · rw [if_neg hm] at h2
      right
      split at h2 <;> first | assumption | cases h2
  · rintro ⟨hx, hm⟩
    exact ⟨_, let_then_import env st l1 l2 l3 m x lit hx hm⟩

/-- **A1.**  The variable namespace and the module namespace are independent.  For every state,
module name `m`, variable name `x` (possibly the same string) and literal:
the two programs `import m; let x = lit;` and `let x = lit; import m;` either both run or both
fail, and when they run they end in the same state — same bindings, imports, records, writer,
clock, heap and warnings; only `loc` (position of the last token) differs. -/
theorem namespaces_independent (env : Env) (st : PState) (l1 l2 l3 : Loc) (m x : String) (lit : Lit) :
    ((∃ s, addStmts env st [.imp l1 m, .assign l2 x (.lit l3 lit)] = .ok s) ↔
     (∃ s, addStmts env st [.assign l2 x (.lit l3 lit), .imp l1 m] = .ok s)) ∧
    ∀ s1 s2, addStmts env st [.imp l1 m, .assign l2 x (.lit l3 lit)] = .ok s1 →
      addStmts env st [.assign l2 x (.lit l3 lit), .imp l1 m] = .ok s2 →
      SameButLoc s1 s2 ∧ s1.regs = st.regs ++ [(x, Val.ofLit lit)] ∧ s1.imports = importsAfter st m := by
  refine ⟨(import_then_let_ok_iff env st l1 l2 l3 m x lit).trans
    (let_then_import_ok_iff env st l1 l2 l3 m x lit).symm, ?_⟩
  intro s1 s2 h1 h2
  obtain ⟨hx, hm⟩ := (import_then_let_ok_iff env st l1 l2 l3 m x lit).1 ⟨s1, h1⟩
  rw [import_then_let env st l1 l2 l3 m x lit hx hm] at h1
  rw [let_then_import env st l1 l2 l3 m x lit hx hm] at h2
  cases h1; cases h2
  exact ⟨⟨rfl, rfl, rfl, rfl, rfl, rfl, rfl⟩, rfl, rfl⟩

/-- The failing runs need not report the same error: each order reports its *first* failing
statement (see the example below: unknown module and already bound variable). -/
theorem namespaces_first_failure (env : Env) (st : PState) (l1 l2 l3 : Loc) (m x : String) (lit : Lit)
    (hx : x ∈ keys st.regs) (hm : m ∉ st.imports) (hl : env.lib.get m = none) :
    addStmts env st [.imp l1 m, .assign l2 x (.lit l3 lit)] = .err (.import_ m) l1 ∧
    addStmts env st [.assign l2 x (.lit l3 lit), .imp l1 m] = .err (.multipleAssign x) l2 := by
  constructor
  · simp only [addStmts, addStmt_imp_eq, if_neg hm, hl, Res.err_bind]
  · simp only [addStmts, addStmt_let_lit_eq, if_pos hx, Res.err_bind]

/-! ## A2. an alias emits what the original emits -/

/-- `let b = a` (with `a ↦ v`, `b` fresh) only appends `b ↦ v`: the stored value is neither
consumed nor changed, `a` still maps to `v`, and `b` maps to the same `v`. -/
theorem alias_binds_same (env : Env) (st : PState) (l l' : Loc) (a b : String) (v : Val)
    (ha : lookupReg st.regs a = some v) (hb : b ∉ keys st.regs) :
    addStmt env st (.assign l b (.ref ⟨l', [], [a]⟩)) = .ok { st with loc := l', regs := st.regs ++ [(b, v)] } ∧
    lookupReg (st.regs ++ [(b, v)]) a = some v ∧ lookupReg (st.regs ++ [(b, v)]) b = some v :=
  ⟨addStmt_alias_eq env st l l' a b v ha hb, lookupReg_snoc_old _ a b v v ha, lookupReg_snoc_new _ b v hb⟩

/-- what an emitted packet value does: the clock advances by the wire times of all its packets,
then every frame is recorded at that time; nothing else changes -/
theorem emit_packets_effect (env : Env) (st st' : PState) (l : Loc) (x : String) (v : Val) (ps : List Packet)
    (hx : lookupReg st.regs x = some v) (hv : v.toPktGen? = some ps)
    (h : addStmt env st (.expr (.ref ⟨l, [], [x]⟩)) = .ok st') :
    st'.now = st.now + (ps.map Packet.bitTime).sum ∧
    st'.emitted = st.emitted ++ ps.map (fun p => (st.now + (ps.map Packet.bitTime).sum, p.frame)) ∧
    st'.warnings = st.warnings ∧ st'.regs = st.regs ∧ st'.imports = st.imports ∧ st'.heap = st.heap := by
  rw [(let_value_frozen env st l x v hx).2.2] at h
  obtain ⟨h1, h2, h3, h4, h5, h6, _⟩ := emitVal_pkts_ok hv h
  exact ⟨h1, h2, h3, h4, h5, h6⟩

/-- **A2.**  In a state where `a ↦ v` and `b` is fresh, after `let b = a;` the statement `b;` and the
statement `a;` (at any positions) have the same outcome (`ResRel`: both succeed, or fail with the
same kind of error) and on success the same effect: same clock, writer, records, bindings, imports,
heap and number of warnings.  The bindings are those after the alias: `a ↦ v` is still there. -/
theorem alias_emits_same (env : Env) (st : PState) (l l' la lb : Loc) (a b : String) (v : Val)
    (ha : lookupReg st.regs a = some v) (hb : b ∉ keys st.regs) :
    ResRel (Sim (fun _ => False))
      (addStmts env st [.assign l b (.ref ⟨l', [], [a]⟩), .expr (.ref ⟨lb, [], [b]⟩)])
      (addStmts env st [.assign l b (.ref ⟨l', [], [a]⟩), .expr (.ref ⟨la, [], [a]⟩)]) := by
  obtain ⟨h1, h2, h3⟩ := alias_binds_same env st l l' a b v ha hb
  simp only [addStmts, h1, Res.ok_bind]
  rw [(let_value_frozen env _ lb b v h3).2.2, (let_value_frozen env _ la a v h2).2.2]
  refine ResRel.bind (R := Sim (fun _ => False)) (emitVal_sim v ((Sim.refl _).setLoc _ _)) ?_
  intro s1 s2 h
  exact .ok h

/-- A2 for packet values, spelled out: both statements succeed or fail together, and on success
both advance the clock by the wire times of `v`'s packets, record exactly `v`'s frames at the new
time, produce no warning, and leave `a ↦ v` in place. -/
theorem alias_emits_same_packets (env : Env) (st sa sb : PState) (l l' la lb : Loc) (a b : String) (v : Val)
    (ps : List Packet) (ha : lookupReg st.regs a = some v) (hb : b ∉ keys st.regs) (hv : v.toPktGen? = some ps)
    (hsb : addStmts env st [.assign l b (.ref ⟨l', [], [a]⟩), .expr (.ref ⟨lb, [], [b]⟩)] = .ok sb)
    (hsa : addStmts env st [.assign l b (.ref ⟨l', [], [a]⟩), .expr (.ref ⟨la, [], [a]⟩)] = .ok sa) :
    SameButLoc sb sa ∧
    sb.now = st.now + (ps.map Packet.bitTime).sum ∧
    sb.emitted = st.emitted ++ ps.map (fun p => (st.now + (ps.map Packet.bitTime).sum, p.frame)) ∧
    lookupReg sb.regs a = some v ∧ lookupReg sb.regs b = some v := by
  obtain ⟨h1, h2, h3⟩ := alias_binds_same env st l l' a b v ha hb
  simp only [addStmts, h1, Res.ok_bind] at hsa hsb
  obtain ⟨sa', ha', hsa⟩ := Res.bind_eq_ok.1 hsa
  obtain ⟨sb', hb', hsb⟩ := Res.bind_eq_ok.1 hsb
  cases hsa; cases hsb
  obtain ⟨a1, a2, a3, a4, a5, a6⟩ := emit_packets_effect env _ _ la a v ps h2 hv ha'
  obtain ⟨b1, b2, b3, b4, b5, b6⟩ := emit_packets_effect env _ _ lb b v ps h3 hv hb'
  have hw : sb.wr = sa.wr := by
    have := alias_emits_same env st l l' la lb a b v ha hb
    simp only [addStmts, h1, Res.ok_bind, ha', hb'] at this
    cases this with
    | ok hs => exact hs.wr
  simp only at a1 a2 a3 a4 a5 a6 b1 b2 b3 b4 b5 b6
  refine ⟨⟨b4.trans a4.symm, b5.trans a5.symm, b2.trans a2.symm, hw, b1.trans a1.symm, b6.trans a6.symm,
    b3.trans a3.symm⟩, b1, b2, ?_, ?_⟩
  · rw [b4]; exact h2
  · rw [b4]; exact h3

/-- Generalisation (extends `useStmts_eq`): two sequences of uses `x₁; x₂; …` and `y₁; y₂; …`
whose names are bound to the same values position by position — e.g. one written with the alias
where the other has the original — have the same outcome and effect. -/
theorem alias_uses_same (env : Env) (st : PState) (us1 us2 : List (Loc × String × Val))
    (h1 : ∀ u ∈ us1, lookupReg st.regs u.2.1 = some u.2.2)
    (h2 : ∀ u ∈ us2, lookupReg st.regs u.2.1 = some u.2.2)
    (hv : us1.map (·.2.2) = us2.map (·.2.2)) :
    ResRel (Sim (fun _ => False)) (addStmts env st (useStmts us1)) (addStmts env st (useStmts us2)) := by
  rw [useStmts_eq env us1 st h1, useStmts_eq env us2 st h2]
  exact foldlM_emitVal_sim us1 us2 hv (Sim.refl st)

/-! ## A3. a stored time jump acts where it is used, not where it is bound -/

/-- the `let` itself — of any right-hand side, in particular of `time::jump_*(d)` — leaves the
clock, the writer, the records and the warnings alone; the value is just stored -/
theorem stored_jump_let (env : Env) (st st' : PState) (loc : Loc) (j : String) (e : Expr)
    (h : addStmt env st (.assign loc j e) = .ok st') :
    st'.now = st.now ∧ st'.wr = st.wr ∧ st'.emitted = st.emitted ∧ st'.warnings = st.warnings ∧
    ∃ v st1, eval env { st with loc := loc } e = .ok (v, st1) ∧ st'.regs = st.regs ++ [(j, v)] ∧
      lookupReg st'.regs j = some v := by
  obtain ⟨hf, v, st1, he, rfl⟩ := Sem.addStmt_assign_ok h
  have hfr := Sem.eval_frame env e _ _ _ he
  exact ⟨hfr.now, hfr.wr, hfr.emitted, hfr.warnings, v, st1, he, rfl, lookupReg_snoc_new _ j v hf⟩

/-- **A3.**  In a state where `j ↦ TimeJump n`: the statement `j;` is exactly `update_time(n)` — on
success the clock advances by exactly `n` nanoseconds and nothing else changes (no record, no
warning, bindings — including `j` — intact); if the 64-bit clock would overflow it is a runtime
error at the use. -/
theorem stored_jump (env : Env) (st : PState) (l : Loc) (j : String) (n : Nat)
    (hj : lookupReg st.regs j = some (.timejump n)) :
    addStmt env st (.expr (.ref ⟨l, [], [j]⟩)) = updateTime { st with loc := l } n ∧
    (st.now + n < u64Max →
      addStmt env st (.expr (.ref ⟨l, [], [j]⟩)) = .ok { st with loc := l, now := st.now + n }) ∧
    (¬ st.now + n < u64Max → addStmt env st (.expr (.ref ⟨l, [], [j]⟩)) = .err .runtime l) := by
  have h := (let_value_frozen env st l j _ hj).2.2
  refine ⟨h, fun hlt => ?_, fun hge => ?_⟩
  · rw [h]; simp only [emitVal, updateTime_eq]; rw [if_pos hlt]
  · rw [h]; simp only [emitVal, updateTime_eq]; rw [if_neg hge]

/-- the statements `j; j; … j;` (one per position in `ls`) -/
def jumpUses (j : String) (ls : List Loc) : List Stmt := ls.map (fun l => Stmt.expr (.ref ⟨l, [], [j]⟩))

/-- Each use advances the clock again: `k` uses advance it by `k · n` (as long as it fits 64 bits),
and change nothing else but `loc`. -/
theorem stored_jump_uses (env : Env) (j : String) (n : Nat) : ∀ (ls : List Loc) (st : PState),
    lookupReg st.regs j = some (.timejump n) → st.now + ls.length * n < u64Max →
    ∃ st', addStmts env st (jumpUses j ls) = .ok st' ∧ st'.now = st.now + ls.length * n ∧
      st'.regs = st.regs ∧ st'.imports = st.imports ∧ st'.emitted = st.emitted ∧ st'.wr = st.wr ∧
      st'.heap = st.heap ∧ st'.warnings = st.warnings
  | [], st, _, _ => ⟨st, rfl, by simp, rfl, rfl, rfl, rfl, rfl, rfl⟩
  | l :: ls, st, hj, hlt => by
    have hlt1 : st.now + n < u64Max := by
      simp only [List.length_cons, Nat.add_mul, Nat.one_mul] at hlt; omega
    obtain ⟨st', h, h1, h2, h3, h4, h5, h6, h7⟩ :=
      stored_jump_uses env j n ls { st with loc := l, now := st.now + n } hj
        (by simp only [List.length_cons, Nat.add_mul, Nat.one_mul] at hlt; simp only; omega)
    refine ⟨st', ?_, ?_, h2, h3, h4, h5, h6, h7⟩
    · simp only [jumpUses, List.map_cons, addStmts]
      rw [(stored_jump env st l j n hj).2.1 hlt1]
      exact h
    · rw [h1]; simp only [List.length_cons, Nat.add_mul, Nat.one_mul]; omega

/-- An unused binding is inert: statements that never mention `j` run the same whether or not
`j ↦ TimeJump n` (or any other value) is among the bindings — same outcome, clock, writer,
records, imports, heap, number of warnings, and the same bindings for every other name. -/
theorem unused_binding_inert (env : Env) (st : PState) (j : String) (v : Val) (rest : List Stmt)
    (hm : ∀ s ∈ rest, s.mentions j = false) :
    ResRel (Sim (· = j)) (addStmts env { st with regs := st.regs ++ [(j, v)] } rest) (addStmts env st rest) := by
  have hs : Sim (· = j) { st with regs := st.regs ++ [(j, v)] } st :=
    ⟨rfl, rfl, rfl, rfl, rfl, rfl, fun y hy => by
      simp only [lookupReg_append, lookupReg_cons, lookupReg_nil]
      rw [if_neg (fun h => hy h.symm)]
      cases lookupReg st.regs y <;> rfl,
     fun hall => absurd rfl (hall j)⟩
  have := addStmts_sim env id rest hs (fun s hs' y hy => by subst hy; exact hm s hs')
  have hid : rest.map (Stmt.reloc id) = rest := by
    rw [show Stmt.reloc id = id from funext Stmt.reloc_id, List.map_id]
  rw [hid] at this
  exact this

/-- The whole law for a real call: once `time` is imported and the library has the function,
`let j = time::<fn>(<k>);` (with `exec` returning `TimeJump d` for it) succeeds for a fresh `j`,
stores `TimeJump d` and changes neither clock nor writer nor records; a following `j;` then adds
exactly `d`. -/
theorem stored_jump_call (env : Env) (st : PState) (l loc argLoc lu : Loc) (j fn arg : String) (ty : ValType)
    (hty : ty.isIntegral = true) (k d : Nat) (hj : j ∉ keys st.regs)
    (himp : st.imports.contains "time" = true)
    (hlib : env.lib.get ("time::" ++ fn) = some (.func (jumpDef fn arg ty)))
    (hex : exec env.fs ("time::" ++ fn) none ⟨[.u64 k], []⟩ st.heap = .ok (.timejump d, st.heap))
    (hlt : st.now + d < u64Max) :
    addStmt env st (.assign l j (jumpCall loc argLoc fn k)) =
      .ok { st with loc := argLoc, regs := st.regs ++ [(j, .timejump d)] } ∧
    addStmts env st [.assign l j (jumpCall loc argLoc fn k), .expr (.ref ⟨lu, [], [j]⟩)] =
      .ok { st with loc := lu, regs := st.regs ++ [(j, .timejump d)], now := st.now + d } := by
  have he := eval_jumpCall env { st with loc := l } loc argLoc fn arg ty hty k d himp hlib hex
  have h1 : addStmt env st (.assign l j (jumpCall loc argLoc fn k)) =
      .ok { st with loc := argLoc, regs := st.regs ++ [(j, .timejump d)] } := by
    rw [fresh_let env st l j _ hj, he]; rfl
  refine ⟨h1, ?_⟩
  simp only [addStmts, h1, Res.ok_bind]
  rw [(stored_jump env { st with loc := argLoc, regs := st.regs ++ [(j, .timejump d)] } lu j d
    (lookupReg_snoc_new _ j _ hj)).2.1 hlt]
  rfl

/-! ## A4. consistent renaming of a variable is unobservable

`Stmt.rename x y` (`Lemmas/LawsRename.lean`) replaces the variable `x` by `y` as `let` target and
as head of every local reference (`x`, `x.m`, `x(…)`, `x.m(…)`, also inside arguments and `/`);
`st.renamed x y` renames the key in the binding list; `RenRes x y a b` says: `a = ok s` and
`b = ok (s.renamed x y)`, or both are the same error at the same position — except that
`MultipleAssign n` becomes `MultipleAssign (renName x y n)` —, or both are the same panic. -/

/-- **A4.**  For `y` fresh (not bound in the state and not mentioned — neither bound nor referred to —
by any statement of the program), the program with `x` renamed to `y`, run from the state with
the binding of `x` (if any) renamed, is `RenRes`-related to the original run.  No restriction on
how `x` is used. -/
theorem alpha_renaming (env : Env) (st : PState) (x y : String) (ss : List Stmt)
    (hy : y ∉ keys st.regs) (hm : ∀ s ∈ ss, s.mentions y = false) :
    RenRes x y (addStmts env st ss) (addStmts env (st.renamed x y) (ss.map (Stmt.rename x y))) :=
  addStmts_rename env x y ss st hy hm

/-- A4 for whole programs (the variable is bound inside the program, so neither name is in the
initial bindings): both programs run from the *same* state. -/
theorem alpha_renaming_program (env : Env) (st : PState) (x y : String) (ss : List Stmt)
    (hx : x ∉ keys st.regs) (hy : y ∉ keys st.regs) (hm : ∀ s ∈ ss, s.mentions y = false) :
    RenRes x y (addStmts env st ss) (addStmts env st (ss.map (Stmt.rename x y))) := by
  have h := alpha_renaming env st x y ss hy hm
  have hs : st.renamed x y = st := by
    simp only [PState.renamed, renRegs_of_fresh x y st.regs hx]
  rwa [hs] at h

/-- A4, observable form. -/
theorem alpha_renaming_output (env : Env) (st : PState) (x y : String) (ss : List Stmt)
    (hx : x ∉ keys st.regs) (hy : y ∉ keys st.regs) (hm : ∀ s ∈ ss, s.mentions y = false) (s : PState)
    (h : addStmts env st ss = .ok s) :
    ∃ s', addStmts env st (ss.map (Stmt.rename x y)) = .ok s' ∧ s'.wr = s.wr ∧ s'.emitted = s.emitted ∧
      s'.now = s.now ∧ s'.warnings = s.warnings ∧ s'.imports = s.imports ∧ s'.heap = s.heap := by
  obtain ⟨s', h1, h2, h3, h4, h5, h6, h7, _⟩ :=
    (renRes_observable (alpha_renaming_program env st x y ss hx hy hm)).1 s h
  exact ⟨s', h1, h2, h3, h4, h5, h6, h7⟩

/-! ## non-vacuity -/

section Examples

/-- A1: in `exEnv` (modules `text`, `io`), from a state where a *variable* called `io` exists and the
*module* `text` is imported: `import io` works although `io` is a bound variable, `let text = 5`
works although `text` is an imported module, in either order, with the same result. -/
def stNs : PState := { regs := [("io", .u64 1)], imports := ["text"] }
def importsOf : Res PState → List String | .ok s => s.imports | _ => []
example : regsOf (addStmts exEnv stNs [.imp (L 1) "io", .assign (L 2) "text" (.lit (L 3) (.u64 5))]) =
      [("io", .u64 1), ("text", .u64 5)] ∧
    importsOf (addStmts exEnv stNs [.imp (L 1) "io", .assign (L 2) "text" (.lit (L 3) (.u64 5))]) = ["text", "io"] ∧
    regsOf (addStmts exEnv stNs [.assign (L 2) "text" (.lit (L 3) (.u64 5)), .imp (L 1) "io"]) =
      [("io", .u64 1), ("text", .u64 5)] ∧
    importsOf (addStmts exEnv stNs [.assign (L 2) "text" (.lit (L 3) (.u64 5)), .imp (L 1) "io"]) = ["text", "io"] := by
  decide
/-- the same name on both sides: `import text; let text = 5;` from the empty state -/
example : "text" ∉ keys ({} : PState).regs ∧ exEnv.lib.get "text" = some .module := ⟨by decide, rfl⟩
/-- hypotheses of `namespaces_first_failure` -/
example : "io" ∈ keys stNs.regs ∧ "nosuch" ∉ stNs.imports ∧ exEnv.lib.get "nosuch" = none :=
  ⟨by decide, by decide, rfl⟩

/-- A2: `a ↦ Pkt pA`, `b` fresh; `let b = a; b;` and `let b = a; a;` emit the same frame -/
example : lookupReg stPk.regs "a" = some (.pkt pA) ∧ "b" ∉ keys stPk.regs ∧
    (Val.pkt pA).toPktGen? = some [pA] := by decide
example : emittedOf (addStmts exEnv stPk [.assign (L 1) "b" (.ref ⟨L 2, [], ["a"]⟩), .expr (.ref ⟨L 3, [], ["b"]⟩)]) =
      [[1, 2, 3]] ∧
    emittedOf (addStmts exEnv stPk [.assign (L 1) "b" (.ref ⟨L 2, [], ["a"]⟩), .expr (.ref ⟨L 3, [], ["a"]⟩)]) =
      [[1, 2, 3]] := by decide

/-- A3: `j ↦ TimeJump 5`; three uses advance the clock by 15, emit nothing -/
def stJ : PState := { regs := [("j", .timejump 5)], now := 100 }
def nowOf : Res PState → Nat | .ok s => s.now | _ => 0
example : lookupReg stJ.regs "j" = some (.timejump 5) ∧ stJ.now + [L 1, L 2, L 3].length * 5 < u64Max := by decide
example : nowOf (addStmts exEnv stJ (jumpUses "j" [L 1, L 2, L 3])) = 115 ∧
    emittedOf (addStmts exEnv stJ (jumpUses "j" [L 1, L 2, L 3])) = [] := by decide
/-- and overflow is reachable: the hypothesis of the third part of `stored_jump` -/
example : ¬ ({ stJ with now := u64Max - 3 } : PState).now + 5 < u64Max := by decide

/-- A2 (`alias_uses_same`): `g; a; a;` against `g; b; b;` in a state where `b` aliases `a` -/
def stAl : PState := { regs := [("a", .pkt pA), ("g", .pktgen [pB, pA]), ("b", .pkt pA)] }
def usesA : List (Loc × String × Val) := [(L 1, "g", .pktgen [pB, pA]), (L 2, "a", .pkt pA), (L 3, "a", .pkt pA)]
def usesB : List (Loc × String × Val) := [(L 4, "g", .pktgen [pB, pA]), (L 5, "b", .pkt pA), (L 6, "b", .pkt pA)]
example : (∀ u ∈ usesA, lookupReg stAl.regs u.2.1 = some u.2.2) ∧ (∀ u ∈ usesB, lookupReg stAl.regs u.2.1 = some u.2.2) ∧
    usesA.map (·.2.2) = usesB.map (·.2.2) := by decide
example : emittedOf (addStmts exEnv stAl (useStmts usesB)) = [[4, 5], [1, 2, 3], [1, 2, 3], [1, 2, 3]] := by decide

/-- A3 (`unused_binding_inert`): `exProg` never mentions `j` -/
example : ∀ s ∈ exProg, s.mentions "j" = false := by decide
/-- A3 (`stored_jump_call`): a library with `time::jump_nanos`; `let j = time::jump_nanos(7); j; j;`
leaves the clock alone at the `let` and adds 7 per use -/
def jLib : Lib := ⟨[("time", .module), ("time::jump_nanos", .func (jumpDef "jump_nanos" "ns" .u64))]⟩
def stT : PState := { imports := ["time"], now := 100 }
example : nowOf (addStmts ⟨jLib, []⟩ stT [.assign (L 1) "j" (jumpCall (L 2) (L 3) "jump_nanos" 7)]) = 100 ∧
    nowOf (addStmts ⟨jLib, []⟩ stT [.assign (L 1) "j" (jumpCall (L 2) (L 3) "jump_nanos" 7),
      .expr (.ref ⟨L 4, [], ["j"]⟩), .expr (.ref ⟨L 5, [], ["j"]⟩)]) = 114 := by decide

/-- A4: renaming `n` to `count` in `exProg` (C14): hypotheses hold, the program text changes, the
result is the same up to the key -/
example : "n" ∉ keys ({} : PState).regs ∧ "count" ∉ keys ({} : PState).regs ∧
    (exProg.all fun s => !s.mentions "count") = true := by decide
example : regsOf (addStmts exEnv {} (exProg.map (Stmt.rename "n" "count"))) =
    [("b", .obj 0 "io::BufIO"), ("count", .u64 1), ("s", .str [97, 98, 99])] := by decide
/-- a rebinding error carries the renamed name: `let n = 1; let n = 2;` -/
example : (addStmts exEnv {} ([Stmt.assign (L 1) "n" (.lit (L 2) (.u64 1)),
      .assign (L 3) "n" (.lit (L 4) (.u64 2))].map (Stmt.rename "n" "count"))).cls =
    some (.inl (.multipleAssign "count")) := by decide

end Examples

end Resynth.C14
