import Resynth.Lemmas.NetTcpFlow
import Resynth.Lemmas.NetWrap
/-!
# C02 — every emitted IPv4 header is self-consistent

Every IPv4 header emitted by a flow, datagram, fragment or tunnel builder has version 4 and
header length 20, a total-length field equal to the number of bytes from the start of that header
to the end of its datagram, the addresses, protocol, identification, TTL, fragment offset and flag
bits the script asked for, and a header checksum that verifies, whenever the datagram fits in
65535 bytes.

`Spec.ipv4Is e d` (Spec/Net.lean) says all of this about a datagram `d` and requested fields `e`;
`Spec.ipOfFrame raw fr` drops the 14-byte Ethernet header unless `raw`.
Hypotheses are only: the datagram fits 16 bits, and the requested values are representable in the
Rust argument types (address < 2^32, id < 2^16, ttl < 2^8, protocol < 2^8, offset < 2^13).
-/
namespace Resynth.C02
open Spec (IpFields)

/-! ## the general header lemma and field read-back -/

/-- A serialised header whose checksum was just computed, followed by `rest`, is a well-formed
IPv4 datagram **iff** it says version 4 / IHL 5 and its total-length field equals
`20 + rest.length` (which forces the datagram to fit 16 bits). -/
theorem ipv4Ok_calcCsum_iff (h : IpHdr) (rest : Bytes) :
    Spec.ipv4Ok (h.calcCsum.serialize ++ rest) = true ↔
      h.ihlVersion % 256 = 0x45 ∧ h.totLen % 65536 = 20 + rest.length :=
  IpHdr.ipv4Ok_calcCsum_iff h rest

/-- If the datagram does not fit, no header can be right (the hypothesis of C02 is necessary). -/
theorem not_ipv4Ok_of_big (h : IpHdr) (rest : Bytes) (hbig : 65535 < 20 + rest.length) :
    Spec.ipv4Ok (h.serialize ++ rest) = false :=
  IpHdr.not_ipv4Ok_of_big h rest hbig

/-- serialise, then read: every field comes back (reduced to its width) -/
theorem read_back (h : IpHdr) (rest : Bytes) :
    Spec.ipSrc (h.serialize ++ rest) = h.saddr % 4294967296 ∧
    Spec.ipDst (h.serialize ++ rest) = h.daddr % 4294967296 ∧
    Spec.ipProto (h.serialize ++ rest) = h.protocol % 256 ∧
    Spec.ipId (h.serialize ++ rest) = h.id % 65536 ∧
    Spec.ipTtl (h.serialize ++ rest) = h.ttl % 256 ∧
    Spec.ipFragOff (h.serialize ++ rest) = h.fragOff % 8192 ∧
    Spec.ipEvil (h.serialize ++ rest) = h.fragOff.testBit 15 ∧
    Spec.ipDF (h.serialize ++ rest) = h.fragOff.testBit 14 ∧
    Spec.ipMF (h.serialize ++ rest) = h.fragOff.testBit 13 :=
  ⟨h.read_src rest, h.read_dst rest, h.read_proto rest, h.read_id rest, h.read_ttl rest,
   h.read_fragOff rest, h.read_evil rest, h.read_df rest, h.read_mf rest⟩

/-! ## TCP flows -/

/-- expected IPv4 fields of a client→server TCP segment -/
def c2s (f : TcpFlow) (off : Nat := 0) : IpFields := { src := f.cl.ip, dst := f.sv.ip, proto := 6, off := off }
/-- expected IPv4 fields of a server→client TCP segment -/
def s2c (f : TcpFlow) (off : Nat := 0) : IpFields := { src := f.sv.ip, dst := f.cl.ip, proto := 6, off := off }

/-- the frames are as many as the expectations and each, after removing the Ethernet header
unless raw, is a well-formed IPv4 datagram carrying the corresponding expected fields
(TTL 64, id 0, flags clear unless stated otherwise in `e`) -/
def allIpv4 (raw : Bool) (es : List IpFields) (frames : List Bytes) : Bool :=
  Spec.allPairs (fun e fr => Spec.ipv4Is e (Spec.ipOfFrame raw fr)) es frames

section tcp
variable (f : TcpFlow) (hc : f.cl.ip < 4294967296) (hs : f.sv.ip < 4294967296)
include hc hs

/-- discharge "all expected addresses are representable" -/
local macro "dirs" : tactic =>
  `(tactic| simp [TcpSeg.DirsInRange, TcpFlow.c2s, TcpFlow.s2c, *])

theorem tcp_open : allIpv4 f.raw [c2s f, s2c f, c2s f] f.open.2 = true :=
  f.open_ok.ipv4 (by dirs)

theorem tcp_clientClose : allIpv4 f.raw [c2s f, s2c f, c2s f] f.clientClose.2 = true :=
  f.clientClose_ok.ipv4 (by dirs)

theorem tcp_serverClose : allIpv4 f.raw [s2c f, c2s f, s2c f] f.serverClose.2 = true :=
  f.serverClose_ok.ipv4 (by dirs)

theorem tcp_clientReset : allIpv4 f.raw [c2s f] [f.clientReset] = true := f.clientReset_ok.ipv4 (by dirs)
theorem tcp_serverReset : allIpv4 f.raw [s2c f] [f.serverReset] = true := f.serverReset_ok.ipv4 (by dirs)
theorem tcp_clientAck : allIpv4 f.raw [c2s f] [f.clientAck] = true := f.clientAck_ok.ipv4 (by dirs)
theorem tcp_serverAck : allIpv4 f.raw [s2c f] [f.serverAck] = true := f.serverAck_ok.ipv4 (by dirs)

/-- data segment with requested fragment offset `off`, optionally followed by the peer's ACK -/
theorem tcp_clientMessage (bytes : Bytes) (sendAck : Bool) (off : Nat) (ho : off < 8192)
    (hfit : 40 + bytes.length ≤ 65535) :
    allIpv4 f.raw (if sendAck then [c2s f off, s2c f] else [c2s f off])
      (f.clientMessage bytes sendAck off).2 = true := by
  have := f.clientMessage_ok bytes sendAck off ho hfit
  cases sendAck <;> exact this.ipv4 (by dirs)

theorem tcp_serverMessage (bytes : Bytes) (sendAck : Bool) (off : Nat) (ho : off < 8192)
    (hfit : 40 + bytes.length ≤ 65535) :
    allIpv4 f.raw (if sendAck then [s2c f off, c2s f] else [s2c f off])
      (f.serverMessage bytes sendAck off).2 = true := by
  have := f.serverMessage_ok bytes sendAck off ho hfit
  cases sendAck <;> exact this.ipv4 (by dirs)

theorem tcp_clientDataSegment (bytes : Bytes) (hfit : 40 + bytes.length ≤ 65535) :
    allIpv4 f.raw [c2s f] [(f.clientDataSegment bytes).2.frame] = true :=
  (f.clientDataSegment_ok bytes hfit).ipv4 (by dirs)

theorem tcp_serverDataSegment (bytes : Bytes) (hfit : 40 + bytes.length ≤ 65535) :
    allIpv4 f.raw [s2c f] [(f.serverDataSegment bytes).2.frame] = true :=
  (f.serverDataSegment_ok bytes hfit).ipv4 (by dirs)

end tcp

/-- The builder invariant behind all of the above: any segment reachable by the builder steps
(`new`, then any of `syn/ack/synAck/push/fin/finAck/rst`, `fragOff`, `appendData`, finally
`tcpCsum`) has a good IP header. -/
theorem tcp_any_segment (s : TcpSeg) (src dst : Sock) (off : Nat) (raw : Bool)
    (w : s.WF src dst off raw) (hs : src.ip < 4294967296) (hd : dst.ip < 4294967296)
    (hfit : 40 + s.data.length ≤ 65535) :
    Spec.ipv4Is { src := src.ip, dst := dst.ip, proto := 6, off := off }
      (Spec.ipOfFrame raw s.tcpCsum.frame) = true :=
  (w.frameOk hfit).ipv4 hs hd

/-! ## UDP -/

theorem udp_unicast (src dst : Sock) (raw : Bool) (buf : Bytes)
    (hs : src.ip < 4294967296) (hd : dst.ip < 4294967296) (hfit : 28 + buf.length ≤ 65535) :
    Spec.ipv4Is { src := src.ip, dst := dst.ip, proto := 17 }
      (Spec.ipOfFrame raw (udpUnicast src dst raw buf)) = true := by
  rw [udpUnicast_eq]
  exact (udpBase_shape src dst raw buf).ipv4 (by simp) (by simp) (udpFields_inRange _ _ hs hd) (by simpa using hfit)

/-- broadcast: with a `srcip:` override the IP header carries the override -/
theorem udp_broadcast (src dst : Sock) (srcip : Option Nat) (raw : Bool) (buf : Bytes)
    (hs : src.ip < 4294967296) (hd : dst.ip < 4294967296) (hip : ∀ ip, srcip = some ip → ip < 4294967296)
    (hfit : 28 + buf.length ≤ 65535) :
    Spec.ipv4Is { src := srcip.getD src.ip, dst := dst.ip, proto := 17 }
      (Spec.ipOfFrame raw (udpBroadcast src dst srcip raw buf)) = true := by
  rw [udpBroadcast_eq]
  apply (udpBcast_shape src dst srcip raw buf).ipv4 (by simp) (by simp) _ (by simpa using hfit)
  cases srcip with
  | none => simp [IpFields.inRange, udpFields, bcastSrc, hs, hd]
  | some ip => simp [IpFields.inRange, udpFields, bcastSrc, hip ip rfl, hd]

/-- `client_dgram` / `server_dgram` with any fragment offset, checksumming on or off -/
theorem udp_dgramCall (f : UdpFlow) (client : Bool) (fragOff : Nat) (csum : Bool) (bytes : Bytes)
    (hc : f.cl.ip < 4294967296) (hs : f.sv.ip < 4294967296) (ho : fragOff < 8192)
    (hfit : 28 + bytes.length ≤ 65535) :
    Spec.ipv4Is
      (if client then { src := f.cl.ip, dst := f.sv.ip, proto := 17, off := fragOff }
       else { src := f.sv.ip, dst := f.cl.ip, proto := 17, off := fragOff })
      (Spec.ipOfFrame f.raw (f.dgramCall client fragOff csum bytes)) = true := by
  rw [dgramCall_eq]
  cases client
  · have hr := udpFields_inRange _ _ hs hc
    exact (udpCall_shape f.sv f.cl f.raw fragOff csum bytes ho).ipv4 (by simp) (by simp)
      (by simp [IpFields.inRange, udpFields] at hr ⊢; simp [hr, ho]) (by simpa using hfit)
  · have hr := udpFields_inRange _ _ hc hs
    exact (udpCall_shape f.cl f.sv f.raw fragOff csum bytes ho).ipv4 (by simp) (by simp)
      (by simp [IpFields.inRange, udpFields] at hr ⊢; simp [hr, ho]) (by simpa using hfit)

/-- `UdpDgram.csum` on `clientDgram` / `serverDgram` (what the DNS helper emits) -/
theorem udp_clientDgram_csum (f : UdpFlow) (msg : Bytes)
    (hc : f.cl.ip < 4294967296) (hs : f.sv.ip < 4294967296) (hfit : 28 + msg.length ≤ 65535) :
    Spec.ipv4Is { src := f.cl.ip, dst := f.sv.ip, proto := 17 }
      (Spec.ipOfFrame f.raw (f.clientDgram msg).csum.frame) = true := by
  rw [clientDgram_eq]
  exact (udpBase_shape f.cl f.sv f.raw msg).csum.ipv4 (by simp) (by simp) (udpFields_inRange _ _ hc hs)
    (by simpa using hfit)

theorem udp_serverDgram_csum (f : UdpFlow) (msg : Bytes)
    (hc : f.cl.ip < 4294967296) (hs : f.sv.ip < 4294967296) (hfit : 28 + msg.length ≤ 65535) :
    Spec.ipv4Is { src := f.sv.ip, dst := f.cl.ip, proto := 17 }
      (Spec.ipOfFrame f.raw (f.serverDgram msg).csum.frame) = true := by
  rw [serverDgram_eq]
  exact (udpBase_shape f.sv f.cl f.raw msg).csum.ipv4 (by simp) (by simp) (udpFields_inRange _ _ hs hc)
    (by simpa using hfit)

theorem vxlan_encap (f : VxlanFlow) (bytes : Bytes)
    (hc : f.cl.ip < 4294967296) (hs : f.sv.ip < 4294967296) (hfit : 36 + bytes.length ≤ 65535) :
    Spec.ipv4Is { src := f.cl.ip, dst := f.sv.ip, proto := 17 }
      (Spec.ipOfFrame f.raw (f.encap bytes)) = true :=
  (TunLayer.vxlan f).outer_ok bytes (by simp [TunLayer.inRange, hc, hs]) (by simpa [TunLayer.tunLen] using hfit)

/-! ## ICMP -/

theorem icmp_echo (f : IcmpFlow) (bytes : Bytes) (hc : f.cl < 4294967296) (hs : f.sv < 4294967296)
    (hfit : 28 + bytes.length ≤ 65535) :
    Spec.ipv4Is { src := f.cl, dst := f.sv, proto := 1 } (Spec.ipOfFrame f.raw (f.echo bytes).2) = true :=
  icmp_ipv4 f.cl f.sv f.raw 8 f.id f.pingSeq bytes hc hs hfit

theorem icmp_echoReply (f : IcmpFlow) (bytes : Bytes) (hc : f.cl < 4294967296) (hs : f.sv < 4294967296)
    (hfit : 28 + bytes.length ≤ 65535) :
    Spec.ipv4Is { src := f.sv, dst := f.cl, proto := 1 } (Spec.ipOfFrame f.raw (f.echoReply bytes).2) = true :=
  icmp_ipv4 f.sv f.cl f.raw 0 f.id f.pongSeq bytes hs hc hfit

/-! ## raw IP datagrams and fragments -/

/-- stdlib `ipv4::datagram` (always Ethernet framed): all options read back -/
theorem ipv4_datagram (src dst id : Nat) (evil df mf : Bool) (ttl fragOff proto : Nat) (data : Bytes)
    (hs : src < 4294967296) (hd : dst < 4294967296) (hid : id < 65536) (httl : ttl < 256)
    (ho : fragOff < 8192) (hp : proto < 256) (hfit : 20 + data.length ≤ 65535) :
    Spec.ipv4Is { src := src, dst := dst, proto := proto, id := id, ttl := ttl, off := fragOff,
                  evil := evil, df := df, mf := mf }
      (Spec.ipOfFrame false (ipv4Datagram src dst id evil df mf ttl fragOff proto data)) = true := by
  rw [ipv4Datagram_eq, ipOfFrame_framed _ _ (by simp)]
  exact IpHdr.Is.ok (dgramHdr_is src dst id evil df mf ttl fragOff proto data.length ho)
    (by simp [IpFields.inRange, *]) hfit

/-- `IpDgram::new(h, payload).frag(off, mf)`: the context header's addresses, protocol, id, TTL,
DF and evil bits are preserved; offset and MF are the requested ones. -/
theorem ip_dgramFrag (h : IpHdr) (payload : Bytes) (raw : Bool) (off : Nat) (mf : Bool)
    (hr : h.inRange = true) (ho : off < 8192) (hfit : 20 + payload.length ≤ 65535) :
    Spec.ipv4Is { src := h.saddr, dst := h.daddr, proto := h.protocol, id := h.id, ttl := h.ttl,
                  off := off, evil := h.fragOff.testBit 15, df := h.fragOff.testBit 14, mf := mf }
      (Spec.ipOfFrame raw (ipDgramFrag h payload raw off mf)) = true :=
  ipDgramFrag_ipv4 h payload raw off mf hr ho hfit

/-- `fragment(off, len)`: MF is set exactly when the fragment stops short of the payload's end -/
theorem frag_fragment (f : IpFrag) (off len : Nat) (raw : Bool)
    (hr : f.hdr.inRange = true) (ho : off < 8192) (hfit : 20 + (f.sliceOf off len).length ≤ 65535) :
    Spec.ipv4Is (fragFields f.hdr off (f.mfOf off len)) (Spec.ipOfFrame raw (f.fragment off len raw)) = true := by
  rw [IpFrag.fragment_def]; exact ipDgramFrag_ipv4 _ _ raw off _ hr ho hfit

theorem frag_tail (f : IpFrag) (off : Nat) (raw : Bool)
    (hr : f.hdr.inRange = true) (ho : off < 8192)
    (hfit : 20 + (f.sliceOf off (f.payload.length % 65536)).length ≤ 65535) :
    Spec.ipv4Is (fragFields f.hdr off (f.mfOf off (f.payload.length % 65536)))
      (Spec.ipOfFrame raw (f.tail off raw)) = true := by
  rw [IpFrag.tail_def]; exact frag_fragment f off _ raw hr ho hfit

theorem frag_datagram (f : IpFrag) (raw : Bool)
    (hr : f.hdr.inRange = true) (hfit : 20 + f.payload.length ≤ 65535) :
    Spec.ipv4Is (fragFields f.hdr 0 false) (Spec.ipOfFrame raw (f.datagram raw)) = true := by
  rw [IpFrag.datagram_def]; exact ipDgramFrag_ipv4 _ _ raw 0 false hr (by decide) hfit

/-! ## GRE / ERSPAN outer headers -/

theorem gre_encap (f : GreFlow) (bytes : Bytes) (hc : f.cl < 4294967296) (hs : f.sv < 4294967296)
    (hfit : 20 + (TunLayer.gre f).tunLen + bytes.length ≤ 65535) :
    Spec.ipv4Is { src := f.cl, dst := f.sv, proto := 47 } (Spec.ipOfFrame f.raw (f.encap bytes).2) = true :=
  (TunLayer.gre f).outer_ok bytes (by simp [TunLayer.inRange, hc, hs]) hfit

theorem erspan1_encap (f : Erspan1Flow) (bytes : Bytes) (hc : f.cl < 4294967296) (hs : f.sv < 4294967296)
    (hfit : 24 + bytes.length ≤ 65535) :
    Spec.ipv4Is { src := f.cl, dst := f.sv, proto := 47 } (Spec.ipOfFrame f.raw (f.encap bytes)) = true :=
  (TunLayer.erspan1 f).outer_ok bytes (by simp [TunLayer.inRange, hc, hs]) (by simpa [TunLayer.tunLen] using hfit)

theorem erspan2_encap (f : Erspan2Flow) (bytes : Bytes) (portIndex : Nat)
    (hc : f.cl < 4294967296) (hs : f.sv < 4294967296) (hfit : 36 + bytes.length ≤ 65535) :
    Spec.ipv4Is { src := f.cl, dst := f.sv, proto := 47 }
      (Spec.ipOfFrame f.raw (f.encap bytes portIndex).2) = true :=
  (TunLayer.erspan2 f portIndex).outer_ok bytes (by simp [TunLayer.inRange, hc, hs])
    (by simpa [TunLayer.tunLen] using hfit)

/-! ## nesting -/

/-- each tunnel builder only prepends `hdrLen` bytes: the inner packet is untouched -/
theorem encap_prepends (l : TunLayer) (inner : Bytes) :
    ∃ hdrs : Bytes, hdrs.length = l.hdrLen ∧ l.encap inner = hdrs ++ inner :=
  l.encap_split inner

/-- after any stack of tunnel layers the inner packet is still there, byte for byte -/
theorem wrap_preserves_inner (layers : List TunLayer) (inner : Bytes) :
    (tunWrap layers inner).drop (tunWrapHdrLen layers) = inner :=
  tunWrap_inner layers inner

/-- … so a well-formed IPv4 datagram at offset `k` of the inner packet stays well formed -/
theorem wrap_preserves_inner_ipv4 (layers : List TunLayer) (inner : Bytes) (k : Nat)
    (h : Spec.ipv4Ok (inner.drop k) = true) :
    Spec.ipv4Ok ((tunWrap layers inner).drop (tunWrapHdrLen layers + k)) = true :=
  tunWrap_inner_ok layers inner k h

/-- **every IPv4 header in a nested packet is good**: for each layer, at the offset where its IP
header starts, a well-formed datagram with that layer's endpoints and protocol begins — provided
each layer's datagram fits 16 bits (`tunWrapFits`) and the endpoints are representable. -/
theorem wrap_every_header_ok (layers : List TunLayer) (inner : Bytes)
    (hr : ∀ l ∈ layers, l.inRange = true) (hfit : tunWrapFits layers inner = true) :
    ∀ p ∈ tunWrapLayout layers, Spec.ipv4Is p.2 ((tunWrap layers inner).drop p.1) = true :=
  tunWrap_all_ok layers inner hr hfit

/-! ## non-vacuity: the predicates are true on concrete packets (kernel-evaluated) -/

def exFlow : TcpFlow := { cl := ⟨0x0a000001, 49152⟩, sv := ⟨0xc0a80102, 80⟩, clSeq := 1000, svSeq := 4000000000, raw := false }

example : allIpv4 exFlow.raw [c2s exFlow, s2c exFlow, c2s exFlow] exFlow.open.2 = true := by decide
example : allIpv4 exFlow.raw [c2s exFlow 5, s2c exFlow] (exFlow.clientMessage [1, 2, 3] true 5).2 = true := by
  decide
example : Spec.ipv4Is { src := 1, dst := 2, proto := 17, off := 3 }
    (Spec.ipOfFrame true (UdpFlow.dgramCall ⟨⟨1, 7⟩, ⟨2, 9⟩, true⟩ true 3 true [0xeb, 0xa9])) = true := by decide
example : Spec.ipv4Is { src := 5, dst := 0xffffffff, proto := 17 }
    (Spec.ipOfFrame false (udpBroadcast ⟨1, 68⟩ ⟨0xffffffff, 67⟩ (some 5) false [1])) = true := by decide
example : Spec.ipv4Is { src := 1, dst := 2, proto := 1 }
    (Spec.ipOfFrame false (IcmpFlow.echo { cl := 1, sv := 2, raw := false } [9, 9, 9]).2) = true := by decide
example : Spec.ipv4Is { src := 1, dst := 2, proto := 89, id := 7, ttl := 3, off := 100, evil := true, df := false, mf := true }
    (Spec.ipOfFrame false (ipv4Datagram 1 2 7 true false true 3 100 89 [1, 2, 3, 4, 5])) = true := by decide
example : Spec.ipv4Is (fragFields { saddr := 1, daddr := 2, protocol := 17, id := 9, fragOff := 0x4000 } 1 true)
    (Spec.ipOfFrame true (IpFrag.fragment ⟨{ saddr := 1, daddr := 2, protocol := 17, id := 9, fragOff := 0x4000 },
      List.replicate 24 7⟩ 1 1 true)) = true := by decide

def exLayers : List TunLayer :=
  [.gre { cl := 1, sv := 2, flags := 0x1000, ethertype := 0x6558, raw := false },
   .vxlan { cl := ⟨3, 4789⟩, sv := ⟨4, 4789⟩, vni := 77, raw := true },
   .erspan2 { cl := 5, sv := 6, raw := false } 3]

set_option maxRecDepth 100000 in
example : tunWrapFits exLayers exFlow.clientAck = true := by decide
example : (tunWrapLayout exLayers).map (·.1) = [14, 42, 92] := by decide
set_option maxRecDepth 100000 in
example : (tunWrapLayout exLayers).all (fun p => Spec.ipv4Is p.2 ((tunWrap exLayers exFlow.clientAck).drop p.1)) = true := by
  decide
set_option maxRecDepth 100000 in
example : Spec.ipv4Ok ((tunWrap exLayers exFlow.clientAck).drop (tunWrapHdrLen exLayers + 14)) = true := by decide

end Resynth.C02
