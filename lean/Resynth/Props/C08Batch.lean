import Resynth.Lemmas.BatchLemmas
import Resynth.Props.C08File
import Resynth.Props.C19
/-!
# C08 / C19 — the command line loop over several inputs (`Model/Batch.lean`, src/cli.rs `resynth()`)

"… a failing input does not prevent the other inputs from being compiled, is reported, and makes the
process exit non-zero."

Everything is stated for an arbitrary environment `env` under the hypothesis

  `hnp : ∀ budget src, ∀ s, (processFile env budget src).outcome ≠ .panic s`

(no input makes `process_file` panic), which is exactly what `C08.file_total` proves for the real
library table and every file system; the `…_stdlib` corollaries at the end are the same statements for
`⟨Gen.lib, fs⟩` without that hypothesis.  Theorems that do not need `hnp` do not have it.

Notation used in the statements:
* `(runInput env keep [] i).1` — the report of input `i` run on its own, in an empty directory;
* `outNames inputs = (inputs.filterMap (·.stem)).map outName` — the output file names of a batch
  (`Lemmas/BatchLemmas.lean`; `outNames_eq` below).
-/
namespace Resynth.C08

theorem outNames_eq (inputs : List Input) : outNames inputs = (inputs.filterMap (·.stem)).map outName := rfl

/-- the loop, when no input panics: reports are a `map`, the directory a left fold, the exit status an `any` -/
theorem runBatch_eq (env : Env) (hnp : ∀ budget src, ∀ s, (processFile env budget src).outcome ≠ .panic s)
    (keep : Bool) (d0 : OutDir) (inputs : List Input) :
    runBatch env keep d0 inputs =
      ⟨inputs.map (fun i => (runInput env keep [] i).1),
       inputs.foldl (fun d i => (runInput env keep d i).2) d0,
       if inputs.any (fun i => ((runInput env keep [] i).1).failed) then 1 else 0⟩ := by
  unfold runBatch
  rw [runBatchFrom_eq env keep inputs d0 [] false (fun i _ s => report_ne_panic hnp i s)]
  simp only [runInput_fst, List.reverse_nil, List.nil_append, Bool.false_or]
  rfl

/-! ## 1, 2. one report per input, and it depends on that input only -/

/-- the report of one input does not depend on the directory it runs in nor on `--keep` -/
theorem report_ignores_dir_and_keep (env : Env) (keep keep' : Bool) (d d' : OutDir) (i : Input) :
    (runInput env keep d i).1 = (runInput env keep' d' i).1 := by
  rw [runInput_fst, runInput_fst]

/-- **every input is reported, in command-line order, and the i-th report depends on the i-th input only** -/
theorem report_independent (env : Env) (hnp : ∀ budget src, ∀ s, (processFile env budget src).outcome ≠ .panic s)
    (keep : Bool) (d0 : OutDir) (inputs : List Input) :
    (runBatch env keep d0 inputs).reports = inputs.map (fun i => (runInput env keep [] i).1) := by
  rw [runBatch_eq env hnp]

theorem reports_length (env : Env) (hnp : ∀ budget src, ∀ s, (processFile env budget src).outcome ≠ .panic s)
    (keep : Bool) (d0 : OutDir) (inputs : List Input) :
    (runBatch env keep d0 inputs).reports.length = inputs.length := by
  rw [report_independent env hnp, List.length_map]

/-- position by position -/
theorem reports_getElem? (env : Env) (hnp : ∀ budget src, ∀ s, (processFile env budget src).outcome ≠ .panic s)
    (keep : Bool) (d0 : OutDir) (inputs : List Input) (n : Nat) :
    (runBatch env keep d0 inputs).reports[n]? = inputs[n]?.map (fun i => (runInput env keep [] i).1) := by
  rw [report_independent env hnp, List.getElem?_map]

/-- the reports of `a ++ b` are those of `a` followed by those of `b`, each batch run on its own - in any
directories, with or without `--keep` -/
theorem reports_append (env : Env) (hnp : ∀ budget src, ∀ s, (processFile env budget src).outcome ≠ .panic s)
    (keep keep₁ keep₂ : Bool) (d0 d1 d2 : OutDir) (a b : List Input) :
    (runBatch env keep d0 (a ++ b)).reports =
      (runBatch env keep₁ d1 a).reports ++ (runBatch env keep₂ d2 b).reports := by
  simp only [report_independent env hnp, List.map_append, runInput_fst]

/-- reordering the inputs reorders the reports in the same way, and changes none of them -/
theorem reports_perm (env : Env) (hnp : ∀ budget src, ∀ s, (processFile env budget src).outcome ≠ .panic s)
    (keep keep' : Bool) (d0 d0' : OutDir) (inputs inputs' : List Input) (h : inputs.Perm inputs') :
    ((runBatch env keep d0 inputs).reports).Perm (runBatch env keep' d0' inputs').reports := by
  simp only [report_independent env hnp, runInput_fst]
  exact h.map _

/-! ## 3. exit status -/

theorem exit_status (env : Env) (hnp : ∀ budget src, ∀ s, (processFile env budget src).outcome ≠ .panic s)
    (keep : Bool) (d0 : OutDir) (inputs : List Input) :
    (runBatch env keep d0 inputs).exit =
      if inputs.any (fun i => ((runInput env keep [] i).1).failed) then 1 else 0 := by
  rw [runBatch_eq env hnp]

/-- exit status 0 iff every input's own report is `ok`.  No hypothesis on `env`: a panic (status 101)
is not a success either. -/
theorem exit_zero_iff_all_ok (env : Env) (keep : Bool) (d0 : OutDir) (inputs : List Input) :
    (runBatch env keep d0 inputs).exit = 0 ↔ ∀ i ∈ inputs, (runInput env keep [] i).1 = .ok := by
  unfold runBatch
  rw [runBatchFrom_exit_zero]
  simp only [runInput_fst, true_and]

/-- the status is 0 or 1 when nothing panics -/
theorem exit_zero_or_one (env : Env) (hnp : ∀ budget src, ∀ s, (processFile env budget src).outcome ≠ .panic s)
    (keep : Bool) (d0 : OutDir) (inputs : List Input) :
    (runBatch env keep d0 inputs).exit = 0 ∨ (runBatch env keep d0 inputs).exit = 1 := by
  rw [exit_status env hnp]
  split <;> simp

/-- **a failing input makes the process exit with status 1, whatever precedes or follows it** -/
theorem failure_anywhere_is_reported (env : Env)
    (hnp : ∀ budget src, ∀ s, (processFile env budget src).outcome ≠ .panic s)
    (keep : Bool) (d0 : OutDir) (before after : List Input) (i : Input)
    (hf : (runInput env keep [] i).1 ≠ .ok) :
    (runBatch env keep d0 (before ++ i :: after)).exit = 1 ∧
    (runBatch env keep d0 (before ++ i :: after)).reports[before.length]? = some (runInput env keep [] i).1 := by
  constructor
  · rw [exit_status env hnp, if_pos]
    rw [List.any_eq_true]
    exact ⟨i, by simp, (failed_iff _).2 hf⟩
  · rw [reports_getElem? env hnp]
    simp

/-- the same, by membership -/
theorem failure_exit_one (env : Env) (hnp : ∀ budget src, ∀ s, (processFile env budget src).outcome ≠ .panic s)
    (keep : Bool) (d0 : OutDir) (inputs : List Input) (i : Input) (hi : i ∈ inputs)
    (hf : (runInput env keep [] i).1 ≠ .ok) : (runBatch env keep d0 inputs).exit = 1 := by
  obtain ⟨before, after, rfl⟩ := List.append_of_mem hi
  exact (failure_anywhere_is_reported env hnp keep d0 before after i hf).1

/-- without any hypothesis on `env`: a failing input anywhere makes the status non-zero -/
theorem failure_exit_nonzero (env : Env) (keep : Bool) (d0 : OutDir) (inputs : List Input) (i : Input)
    (hi : i ∈ inputs) (hf : (runInput env keep [] i).1 ≠ .ok) : (runBatch env keep d0 inputs).exit ≠ 0 :=
  fun h => hf ((exit_zero_iff_all_ok env keep d0 inputs).1 h i hi)

/-! ## 4. I/O faults inside a batch (C19) -/

/-- a path without a file name -/
theorem no_file_name_reported (env : Env) (keep : Bool) (d : OutDir) (i : Input) (h : i.stem = none) :
    (runInput env keep d i).1 = .notAFileName := by
  rw [runInput_fst]; unfold Input.report; rw [h]

/-- the input cannot be opened -/
theorem missing_input_io (env : Env) (keep : Bool) (d : OutDir) (i : Input) (stem : String)
    (hstem : i.stem = some stem) (h : i.src = none) : (runInput env keep d i).1 = .error "Io" "" Loc.nil := by
  rw [runInput_fst]; unfold Input.report; rw [hstem, h]

/-- the output file cannot be created -/
theorem uncreatable_output_io (env : Env) (keep : Bool) (d : OutDir) (i : Input) (stem : String) (src : Bytes)
    (hstem : i.stem = some stem) (hsrc : i.src = some src) (h : i.outOk = false) :
    (runInput env keep d i).1 = .error "Io" "" Loc.nil := by
  rw [runInput_fst]; unfold Input.report; rw [hstem, hsrc]; simp [h]

/-- the input opens but cannot be read -/
theorem unreadable_input_io (env : Env) (keep : Bool) (d : OutDir) (i : Input) (stem : String) (src : Bytes)
    (hstem : i.stem = some stem) (hsrc : i.src = some src) (h : i.unreadable = true) :
    (runInput env keep d i).1 = .error "Io" "" Loc.nil := by
  rw [runInput_fst]; unfold Input.report; rw [hstem, hsrc]; simp [h]

/-- the output device accepts fewer bytes than the complete output (of a source that compiles) has: an
`Io` diagnostic (`C19.fault_reported`) -/
theorem device_full_io (env : Env) (keep : Bool) (d : OutDir) (i : Input) (stem : String) (src : Bytes) (k : Nat)
    (hstem : i.stem = some stem) (hsrc : i.src = some src) (hout : i.outOk = true) (hrd : i.unreadable = false)
    (hb : i.budget = some k) (hs : (processFile env none src).outcome = .success)
    (hk : k < (processFile env none src).file.length) :
    ∃ l, (runInput env keep d i).1 = .error "Io" "" l := by
  obtain ⟨⟨l, hl⟩, _, _⟩ := C19.fault_reported env src k hs hk
  refine ⟨l, ?_⟩
  rw [runInput_fst]; unfold Input.report; rw [hstem, hsrc]
  simp [hout, hrd, hb, hl]

/-- … and whatever the source is, such a run is never reported as `ok` (success is only claimed for the
complete output: `C19.complete_on_success`, `C19.prefix_on_failure`) -/
theorem device_full_not_ok (env : Env) (keep : Bool) (d : OutDir) (i : Input) (src : Bytes) (k : Nat)
    (hsrc : i.src = some src) (hb : i.budget = some k) (hk : k < (processFile env none src).file.length) :
    (runInput env keep d i).1 ≠ .ok := by
  rw [runInput_fst]; unfold Input.report
  cases i.stem with
  | none => intro h; cases h
  | some stem =>
    rw [hsrc, hb]
    simp only []
    split
    · intro h; cases h
    · split
      · intro h; cases h
      · cases ho : (processFile env (some k) src).outcome with
        | success =>
          have h1 := (C19.complete_on_success env src k ho).1
          have h2 := (C19.prefix_on_failure env src k).2
          rw [h1] at h2
          omega
        | failure => intro h; cases h
        | panic => intro h; cases h

/-- the file system makes this input fail: it is missing, unreadable, its output cannot be created, or the
output device takes fewer bytes than its complete output has -/
def ioFault (env : Env) (i : Input) : Bool :=
  match i.src with
  | none => true
  | some src =>
    !i.outOk || i.unreadable ||
      match i.budget with
      | none => false
      | some k => decide (k < (processFile env none src).file.length)

/-- **an I/O fault is never reported as `ok`** -/
theorem io_fault_reported (env : Env) (keep : Bool) (d : OutDir) (i : Input) (h : ioFault env i = true) :
    (runInput env keep d i).1 ≠ .ok := by
  unfold ioFault at h
  cases hsrc : i.src with
  | none =>
    rw [runInput_fst]; unfold Input.report; rw [hsrc]
    cases i.stem <;> (intro h; cases h)
  | some src =>
    rw [hsrc] at h
    simp only [] at h
    cases hb : i.budget with
    | none =>
      rw [hb] at h
      rw [runInput_fst]; unfold Input.report; rw [hsrc]
      cases i.stem with
      | none => intro h; cases h
      | some stem =>
        simp only [Bool.or_false, Bool.or_eq_true, Bool.not_eq_eq_eq_not, Bool.not_true] at h
        rcases h with h | h <;> simp [h] <;> split <;> simp
    | some k =>
      rw [hb] at h
      simp only [Bool.or_eq_true, Bool.not_eq_eq_eq_not, Bool.not_true, decide_eq_true_eq] at h
      rcases h with (h | h) | h
      · rw [runInput_fst]; unfold Input.report; rw [hsrc]
        cases i.stem <;> simp [h]
      · rw [runInput_fst]; unfold Input.report; rw [hsrc]
        cases i.stem <;> simp [h]
      · exact device_full_not_ok env keep d i src k hsrc hb h

/-- **an I/O fault on any input makes the process exit with status 1** -/
theorem io_fault_exit (env : Env) (hnp : ∀ budget src, ∀ s, (processFile env budget src).outcome ≠ .panic s)
    (keep : Bool) (d0 : OutDir) (inputs : List Input) (i : Input) (hi : i ∈ inputs) (h : ioFault env i = true) :
    (runBatch env keep d0 inputs).exit = 1 :=
  failure_exit_one env hnp keep d0 inputs i hi (io_fault_reported env keep [] i h)

/-- without any hypothesis on `env`: non-zero -/
theorem io_fault_exit_nonzero (env : Env) (keep : Bool) (d0 : OutDir) (inputs : List Input) (i : Input)
    (hi : i ∈ inputs) (h : ioFault env i = true) : (runBatch env keep d0 inputs).exit ≠ 0 :=
  failure_exit_nonzero env keep d0 inputs i hi (io_fault_reported env keep [] i h)

/-! ## 5. the output directory

For batches whose output names are pairwise distinct (two inputs with the same `outName` share one
output path; the later run then replaces what the earlier one left). -/

/-- **a. a failing input does not prevent the other inputs from being compiled**: every input whose own run
succeeds has its output in the directory when the process ends, whatever the other inputs do -/
theorem good_output_present (env : Env) (hnp : ∀ budget src, ∀ s, (processFile env budget src).outcome ≠ .panic s)
    (keep : Bool) (d0 : OutDir) (inputs : List Input) (hd : (outNames inputs).Pairwise (· ≠ ·))
    (i : Input) (hi : i ∈ inputs) (stem : String) (src : Bytes)
    (hstem : i.stem = some stem) (hsrc : i.src = some src) (hout : i.outOk = true) (hrd : i.unreadable = false)
    (hok : (processFile env i.budget src).outcome = .success) :
    (runBatch env keep d0 inputs).dir.get? (outName stem) = some (processFile env i.budget src).file := by
  obtain ⟨before, after, rfl⟩ := List.append_of_mem hi
  rw [runBatch_eq env hnp]
  show (dirAfter env keep d0 (before ++ i :: after)).get? (outName stem) = _
  rw [(dirAfter_get?_at env keep d0 before after i stem hstem hd).1]
  exact runInput_get?_success env keep _ i stem src hstem hsrc hout hrd hok

/-- … and that output is the complete one, also on a device with a byte limit -/
theorem good_output_complete (env : Env) (hnp : ∀ budget src, ∀ s, (processFile env budget src).outcome ≠ .panic s)
    (keep : Bool) (d0 : OutDir) (inputs : List Input) (hd : (outNames inputs).Pairwise (· ≠ ·))
    (i : Input) (hi : i ∈ inputs) (stem : String) (src : Bytes)
    (hstem : i.stem = some stem) (hsrc : i.src = some src) (hout : i.outOk = true) (hrd : i.unreadable = false)
    (hok : (processFile env i.budget src).outcome = .success) :
    (runBatch env keep d0 inputs).dir.get? (outName stem) = some (processFile env none src).file := by
  rw [good_output_present env hnp keep d0 inputs hd i hi stem src hstem hsrc hout hrd hok]
  cases hb : i.budget with
  | none => rfl
  | some k => rw [hb] at hok; rw [(C19.complete_on_success env src k hok).1]

/-- **b. without `--keep` a failing input leaves no output** (given there was none under that name before) -/
theorem failed_output_absent (env : Env) (hnp : ∀ budget src, ∀ s, (processFile env budget src).outcome ≠ .panic s)
    (d0 : OutDir) (inputs : List Input) (hd : (outNames inputs).Pairwise (· ≠ ·))
    (i : Input) (hi : i ∈ inputs) (stem : String) (hstem : i.stem = some stem)
    (hfail : (runInput env false [] i).1 ≠ .ok) (h0 : d0.get? (outName stem) = none) :
    (runBatch env false d0 inputs).dir.get? (outName stem) = none := by
  obtain ⟨before, after, rfl⟩ := List.append_of_mem hi
  rw [runBatch_eq env hnp]
  show (dirAfter env false d0 (before ++ i :: after)).get? (outName stem) = _
  obtain ⟨h1, h2⟩ := dirAfter_get?_at env false d0 before after i stem hstem hd
  rw [h1]
  rw [runInput_fst] at hfail
  rcases runInput_get?_failed env (dirAfter env false d0 before) i stem hstem (report_ne_panic hnp i) hfail with h | ⟨_, h⟩
  · exact h
  · rw [h, h2, h0]

/-- b′. … and when the output file could be created, a stale output of an earlier invocation is removed too -/
theorem failed_output_removed (env : Env) (hnp : ∀ budget src, ∀ s, (processFile env budget src).outcome ≠ .panic s)
    (d0 : OutDir) (inputs : List Input) (hd : (outNames inputs).Pairwise (· ≠ ·))
    (i : Input) (hi : i ∈ inputs) (stem : String) (hstem : i.stem = some stem) (hout : i.outOk = true)
    (hfail : (runInput env false [] i).1 ≠ .ok) :
    (runBatch env false d0 inputs).dir.get? (outName stem) = none := by
  obtain ⟨before, after, rfl⟩ := List.append_of_mem hi
  rw [runBatch_eq env hnp]
  show (dirAfter env false d0 (before ++ i :: after)).get? (outName stem) = _
  rw [(dirAfter_get?_at env false d0 before after i stem hstem hd).1]
  rw [runInput_fst] at hfail
  rcases runInput_get?_failed env (dirAfter env false d0 before) i stem hstem (report_ne_panic hnp i) hfail with h | ⟨h, _⟩
  · exact h
  · rw [hout] at h; cases h

/-- b″. when the output file cannot be created, what was there before stays (with or without `--keep`) -/
theorem uncreatable_output_untouched (env : Env)
    (hnp : ∀ budget src, ∀ s, (processFile env budget src).outcome ≠ .panic s)
    (keep : Bool) (d0 : OutDir) (inputs : List Input) (hd : (outNames inputs).Pairwise (· ≠ ·))
    (i : Input) (hi : i ∈ inputs) (stem : String) (src : Bytes) (hstem : i.stem = some stem)
    (hsrc : i.src = some src) (hout : i.outOk = false) :
    (runBatch env keep d0 inputs).dir.get? (outName stem) = d0.get? (outName stem) := by
  obtain ⟨before, after, rfl⟩ := List.append_of_mem hi
  rw [runBatch_eq env hnp]
  show (dirAfter env keep d0 (before ++ i :: after)).get? (outName stem) = _
  obtain ⟨h1, h2⟩ := dirAfter_get?_at env keep d0 before after i stem hstem hd
  rw [h1, runInput_snd_noOut env keep _ i src hsrc hout, h2]

/-- b‴. with `--keep` the output of a run that ends with a diagnostic stays: a prefix of the complete output -/
theorem kept_output_present (env : Env) (hnp : ∀ budget src, ∀ s, (processFile env budget src).outcome ≠ .panic s)
    (d0 : OutDir) (inputs : List Input) (hd : (outNames inputs).Pairwise (· ≠ ·))
    (i : Input) (hi : i ∈ inputs) (stem : String) (src : Bytes)
    (hstem : i.stem = some stem) (hsrc : i.src = some src) (hout : i.outOk = true) (hrd : i.unreadable = false) :
    (runBatch env true d0 inputs).dir.get? (outName stem) = some (processFile env i.budget src).file ∧
    (processFile env i.budget src).file <+: (processFile env none src).file := by
  constructor
  · obtain ⟨before, after, rfl⟩ := List.append_of_mem hi
    rw [runBatch_eq env hnp]
    show (dirAfter env true d0 (before ++ i :: after)).get? (outName stem) = _
    rw [(dirAfter_get?_at env true d0 before after i stem hstem hd).1]
    exact runInput_get?_kept env _ i stem src hstem hsrc hout hrd (hnp _ _)
  · cases i.budget with
    | none => exact List.prefix_refl _
    | some k => exact (C19.prefix_on_failure env src k).1

/-- **c. what the batch does not name, it does not touch** -/
theorem other_entries_unchanged (env : Env) (hnp : ∀ budget src, ∀ s, (processFile env budget src).outcome ≠ .panic s)
    (keep : Bool) (d0 : OutDir) (inputs : List Input) (name : String) (h : name ∉ outNames inputs) :
    (runBatch env keep d0 inputs).dir.get? name = d0.get? name := by
  rw [runBatch_eq env hnp]
  exact dirAfter_get?_other env keep name inputs d0 h

/-! ## 6. the name of the output file -/

example : outName "a" = "a" := by decide
example : outName "a.b" = "a" := by decide
example : outName ".b" = ".b" := by decide
example : outName "a.b.c" = "a.b" := by decide
example : outName "" = "" := by decide
example : outName "a." = "a" := by decide
example : outName ".." = "." := by decide

/-- no dot in the stem: the stem is the name -/
theorem outName_of_no_dot (stem : String) (h : '.' ∉ stem.toList) : outName stem = stem :=
  outName_noDot stem h

/-- otherwise the last dot and what follows it are dropped … -/
theorem outName_drops_last_extension (stem : String) (p e : List Char) (hs : stem.toList = p ++ '.' :: e)
    (he : '.' ∉ e) (hp : p ≠ []) : outName stem = String.ofList p :=
  outName_split stem p e hs he hp

/-- … unless that dot is the first character -/
theorem outName_of_leading_dot (stem : String) (e : List Char) (hs : stem.toList = '.' :: e) (he : '.' ∉ e) :
    outName stem = stem :=
  outName_leadingDot stem e hs he

/-! ## the real library -/

theorem stdlib_no_panic (fs : Fs) :
    ∀ budget src, ∀ s, (processFile ⟨Gen.lib, fs⟩ budget src).outcome ≠ .panic s :=
  fun budget src s => file_total fs budget src s

theorem reports_length_stdlib (fs : Fs) (keep : Bool) (d0 : OutDir) (inputs : List Input) :
    (runBatch ⟨Gen.lib, fs⟩ keep d0 inputs).reports.length = inputs.length :=
  reports_length _ (stdlib_no_panic fs) keep d0 inputs

theorem report_independent_stdlib (fs : Fs) (keep : Bool) (d0 : OutDir) (inputs : List Input) :
    (runBatch ⟨Gen.lib, fs⟩ keep d0 inputs).reports = inputs.map (fun i => (runInput ⟨Gen.lib, fs⟩ keep [] i).1) :=
  report_independent _ (stdlib_no_panic fs) keep d0 inputs

theorem reports_append_stdlib (fs : Fs) (keep keep₁ keep₂ : Bool) (d0 d1 d2 : OutDir) (a b : List Input) :
    (runBatch ⟨Gen.lib, fs⟩ keep d0 (a ++ b)).reports =
      (runBatch ⟨Gen.lib, fs⟩ keep₁ d1 a).reports ++ (runBatch ⟨Gen.lib, fs⟩ keep₂ d2 b).reports :=
  reports_append _ (stdlib_no_panic fs) keep keep₁ keep₂ d0 d1 d2 a b

theorem reports_perm_stdlib (fs : Fs) (keep keep' : Bool) (d0 d0' : OutDir) (inputs inputs' : List Input)
    (h : inputs.Perm inputs') :
    ((runBatch ⟨Gen.lib, fs⟩ keep d0 inputs).reports).Perm (runBatch ⟨Gen.lib, fs⟩ keep' d0' inputs').reports :=
  reports_perm _ (stdlib_no_panic fs) keep keep' d0 d0' inputs inputs' h

theorem exit_status_stdlib (fs : Fs) (keep : Bool) (d0 : OutDir) (inputs : List Input) :
    (runBatch ⟨Gen.lib, fs⟩ keep d0 inputs).exit =
      if inputs.any (fun i => ((runInput ⟨Gen.lib, fs⟩ keep [] i).1).failed) then 1 else 0 :=
  exit_status _ (stdlib_no_panic fs) keep d0 inputs

theorem failure_anywhere_is_reported_stdlib (fs : Fs) (keep : Bool) (d0 : OutDir) (before after : List Input)
    (i : Input) (hf : (runInput ⟨Gen.lib, fs⟩ keep [] i).1 ≠ .ok) :
    (runBatch ⟨Gen.lib, fs⟩ keep d0 (before ++ i :: after)).exit = 1 ∧
    (runBatch ⟨Gen.lib, fs⟩ keep d0 (before ++ i :: after)).reports[before.length]? =
      some (runInput ⟨Gen.lib, fs⟩ keep [] i).1 :=
  failure_anywhere_is_reported _ (stdlib_no_panic fs) keep d0 before after i hf

theorem io_fault_exit_stdlib (fs : Fs) (keep : Bool) (d0 : OutDir) (inputs : List Input) (i : Input)
    (hi : i ∈ inputs) (h : ioFault ⟨Gen.lib, fs⟩ i = true) : (runBatch ⟨Gen.lib, fs⟩ keep d0 inputs).exit = 1 :=
  io_fault_exit _ (stdlib_no_panic fs) keep d0 inputs i hi h

theorem good_output_present_stdlib (fs : Fs) (keep : Bool) (d0 : OutDir) (inputs : List Input)
    (hd : (outNames inputs).Pairwise (· ≠ ·)) (i : Input) (hi : i ∈ inputs) (stem : String) (src : Bytes)
    (hstem : i.stem = some stem) (hsrc : i.src = some src) (hout : i.outOk = true) (hrd : i.unreadable = false)
    (hok : (processFile ⟨Gen.lib, fs⟩ i.budget src).outcome = .success) :
    (runBatch ⟨Gen.lib, fs⟩ keep d0 inputs).dir.get? (outName stem) =
      some (processFile ⟨Gen.lib, fs⟩ i.budget src).file :=
  good_output_present _ (stdlib_no_panic fs) keep d0 inputs hd i hi stem src hstem hsrc hout hrd hok

theorem failed_output_absent_stdlib (fs : Fs) (d0 : OutDir) (inputs : List Input)
    (hd : (outNames inputs).Pairwise (· ≠ ·)) (i : Input) (hi : i ∈ inputs) (stem : String)
    (hstem : i.stem = some stem) (hfail : (runInput ⟨Gen.lib, fs⟩ false [] i).1 ≠ .ok)
    (h0 : d0.get? (outName stem) = none) :
    (runBatch ⟨Gen.lib, fs⟩ false d0 inputs).dir.get? (outName stem) = none :=
  failed_output_absent _ (stdlib_no_panic fs) d0 inputs hd i hi stem hstem hfail h0

theorem other_entries_unchanged_stdlib (fs : Fs) (keep : Bool) (d0 : OutDir) (inputs : List Input) (name : String)
    (h : name ∉ outNames inputs) : (runBatch ⟨Gen.lib, fs⟩ keep d0 inputs).dir.get? name = d0.get? name :=
  other_entries_unchanged _ (stdlib_no_panic fs) keep d0 inputs name h

/-! ## 7. non-vacuity -/

section Examples

private def env0 : Env := ⟨Gen.lib, []⟩

/-- `gone.rsyn` does not exist -/
private def missing : Input := { stem := some "gone", src := none }
/-- `empty.rsyn` is an empty file: compiles to a pcap file that holds the file header only -/
private def empty : Input := { stem := some "empty", src := some [] }
/-- `full.v2.rsyn` is empty too, but its output device takes 10 bytes only; output name `full` -/
private def full : Input := { stem := some "full.v2", src := some [], budget := some 10 }
/-- `dir.rsyn` is a directory -/
private def isDir : Input := { stem := some "dir", src := some [], unreadable := true }
/-- `..` has no file name -/
private def dotdot : Input := { stem := none, src := some [] }

private theorem run_empty (budget : Option Nat) :
    processFile env0 budget [] = execPlan env0 budget ⟨[[]], none⟩ := by rw [processFile_eq]; rfl

/-- `resynth --out-dir D gone.rsyn empty.rsyn full.v2.rsyn dir.rsyn ..` with `D` holding `stale.pcap` and an old
`full.pcap`: five reports, status 1, `empty.pcap` written, `full.pcap` removed, `stale.pcap` untouched -/
example :
    let r := runBatch env0 false [("stale", [1]), ("full", [2])] [missing, empty, full, isDir, dotdot]
    r.reports = [.error "Io" "" Loc.nil, .ok, .error "Io" "" Loc.nil, .error "Io" "" Loc.nil, .notAFileName] ∧
    r.dir = [("empty", Pcap.header), ("stale", [1])] ∧ r.exit = 1 := by
  simp only [runBatch, runBatchFrom, runInput, missing, empty, full, isDir, dotdot, run_empty]
  decide +kernel

/-- the same with `--keep`: what the failed runs left stays (10 bytes of file header; the header alone) -/
example : (runBatch env0 true [] [missing, empty, full, isDir]).dir =
    [("dir", Pcap.header), ("full", Pcap.header.take 10), ("empty", Pcap.header)] := by
  simp only [runBatch, runBatchFrom, runInput, missing, empty, full, isDir, run_empty]
  decide +kernel

/-- all inputs fine: status 0 -/
example : (runBatch env0 false [] [empty, { empty with stem := some "other" }]).exit = 0 := by
  simp only [runBatch, runBatchFrom, runInput, empty, run_empty]
  decide +kernel

/-- the hypotheses of the directory theorems hold for this batch, and `full` is an I/O fault in the
sense of `ioFault` -/
example : (outNames [missing, empty, full, isDir, dotdot]).Pairwise (· ≠ ·) := by decide
example : outNames [missing, empty, full, isDir, dotdot] = ["gone", "empty", "full", "dir"] := by decide
example : ioFault env0 missing = true ∧ ioFault env0 isDir = true ∧ ioFault env0 { empty with outOk := false } = true := by
  decide
example : ioFault env0 full = true ∧ ioFault env0 empty = false := by
  simp only [ioFault, full, empty, run_empty]
  decide +kernel

/-- same output name twice (`a.rsyn`, `a.x.rsyn`): the later run replaces the earlier one's output - why the
directory theorems ask for distinct names -/
example : (runBatch env0 false [] [{ empty with stem := some "a" }, { missing with stem := some "a.x" }]).dir = [] := by
  simp only [runBatch, runBatchFrom, runInput, missing, empty, run_empty]
  decide +kernel

end Examples

end Resynth.C08
