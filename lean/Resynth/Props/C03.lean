import Resynth.Lemmas.NetTcpFlow
import Resynth.Lemmas.NetBuilders
import Resynth.Lemmas.NetIcmpHist
/-!
# C03 — transport headers verify

Every TCP segment emitted by a TCP flow (handshake, data, ACK, FIN or RST; any payload length or
parity) carries a checksum that verifies against the IPv4 pseudo-header; every UDP datagram built
with checksumming enabled carries a non-zero verifying checksum and every UDP datagram a length
field equal to header plus payload; every ICMP echo or echo-reply carries a verifying ICMP
checksum, type 8 or 0 with code 0, one identifier per flow, and as sequence number the count of
earlier requests (respectively replies) on that flow.

The verifier `Spec.csumOk` (Spec/Net.lean) is an independent RFC 1071 implementation (16-bit
words, end-around carry on every addition, odd trailing byte padded with zero); the Model computes
checksums with a wide accumulator and two folds.  `Lemmas/Csum.lean` relates the two.
-/
namespace Resynth.C03

/-! ## the arithmetic core -/

/-- The Spec verifier accepts a byte string iff the Model's plain word sum over it is a non-zero
multiple of 0xffff. -/
theorem csumOk_iff_sum16 (b : Bytes) : Spec.csumOk b = true ↔ 0 < sum16 b ∧ sum16 b % 65535 = 0 :=
  csumOk_iff b

/-- Storing the Model's folded checksum of `pre ++ 00 00 ++ post` into the zeroed field makes the
Spec verifier accept — for every length and parity of `post`, including sums that need two
carries and checksums that come out as zero. -/
theorem model_csum_verifies (pre post : Bytes) (hpre : pre.length % 2 = 0)
    (hlen : pre.length + post.length ≤ 131068) :
    Spec.csumOk (pre ++ be16 (ipCsum (pre ++ [0, 0] ++ post)) ++ post) = true := by
  apply csumOk_insert _ _ _ hpre (csumFold_le _)
  have e : sum16 (pre ++ [0, 0] ++ post) = sum16 pre + sum16 post := by
    rw [List.append_assoc, sum16_append_even _ _ hpre, sum16_append_even _ _ (by simp)]
    simp [sum16]
  have b1 := sum16_le pre
  have b2 := sum16_le post
  rw [e]
  exact csumFold_verifies _ (by omega)

/-- In one's-complement arithmetic 0xffff ≡ 0: replacing a computed checksum of zero by 0xffff
(RFC 768) still verifies, and the stored value is never zero. -/
theorem udp_zero_substitution (s : Nat) (h : s < 4294967296) :
    (if csumFold s = 0 then 0xffff else csumFold s) ≠ 0 ∧
    0 < s + (if csumFold s = 0 then 0xffff else csumFold s) ∧
    (s + (if csumFold s = 0 then 0xffff else csumFold s)) % 65535 = 0 := by
  obtain ⟨h1, _, h3, h4⟩ := csumFold_udp_verifies s h _ rfl
  exact ⟨h1, h3, h4⟩

/-! ## TCP -/

/-- every frame's IP datagram has a TCP checksum that verifies against the pseudo-header -/
def allTcpOk (raw : Bool) (frames : List Bytes) : Bool :=
  frames.all fun fr => Spec.l4Ok 6 (Spec.ipOfFrame raw fr)

section tcp
variable (f : TcpFlow)

theorem tcp_open : allTcpOk f.raw f.open.2 = true := (f.open_ok).l4
theorem tcp_clientClose : allTcpOk f.raw f.clientClose.2 = true := (f.clientClose_ok).l4
theorem tcp_serverClose : allTcpOk f.raw f.serverClose.2 = true := (f.serverClose_ok).l4
theorem tcp_clientReset : allTcpOk f.raw [f.clientReset] = true := (f.clientReset_ok).l4
theorem tcp_serverReset : allTcpOk f.raw [f.serverReset] = true := (f.serverReset_ok).l4
theorem tcp_clientAck : allTcpOk f.raw [f.clientAck] = true := (f.clientAck_ok).l4
theorem tcp_serverAck : allTcpOk f.raw [f.serverAck] = true := (f.serverAck_ok).l4

/-- any payload (odd or even length) as long as the segment fits the 16-bit pseudo-header length -/
theorem tcp_clientMessage (bytes : Bytes) (sendAck : Bool) (off : Nat) (ho : off < 8192)
    (hfit : 40 + bytes.length ≤ 65535) :
    allTcpOk f.raw (f.clientMessage bytes sendAck off).2 = true :=
  (f.clientMessage_ok bytes sendAck off ho hfit).l4

theorem tcp_serverMessage (bytes : Bytes) (sendAck : Bool) (off : Nat) (ho : off < 8192)
    (hfit : 40 + bytes.length ≤ 65535) :
    allTcpOk f.raw (f.serverMessage bytes sendAck off).2 = true :=
  (f.serverMessage_ok bytes sendAck off ho hfit).l4

theorem tcp_clientDataSegment (bytes : Bytes) (hfit : 40 + bytes.length ≤ 65535) :
    allTcpOk f.raw [(f.clientDataSegment bytes).2.frame] = true :=
  (f.clientDataSegment_ok bytes hfit).l4

theorem tcp_serverDataSegment (bytes : Bytes) (hfit : 40 + bytes.length ≤ 65535) :
    allTcpOk f.raw [(f.serverDataSegment bytes).2.frame] = true :=
  (f.serverDataSegment_ok bytes hfit).l4

end tcp

/-- the invariant form: any segment reachable by the builder steps, once `tcpCsum` is applied -/
theorem tcp_any_segment (s : TcpSeg) (src dst : Sock) (off : Nat) (raw : Bool)
    (w : s.WF src dst off raw) (hfit : 40 + s.data.length ≤ 65535) :
    Spec.l4Ok 6 (Spec.ipOfFrame raw s.tcpCsum.frame) = true :=
  w.tcpCsum.l4 hfit

/-! ## UDP -/

/-- flow datagram calls with checksumming: verifies, and the transmitted field is non-zero -/
theorem udp_dgramCall_csum (f : UdpFlow) (client : Bool) (fragOff : Nat) (bytes : Bytes)
    (ho : fragOff < 8192) (hfit : 28 + bytes.length ≤ 65535) :
    Spec.l4Ok 17 (Spec.ipOfFrame f.raw (f.dgramCall client fragOff true bytes)) = true ∧
    Spec.udpCsumNonZero (Spec.ipOfFrame f.raw (f.dgramCall client fragOff true bytes)) = true := by
  rw [dgramCall_eq]
  cases client
  · exact (udpCall_shape f.sv f.cl f.raw fragOff true bytes ho).l4 (udpCall_csumSet ..) (by simp) (by simp)
      rfl (by simpa using hfit)
  · exact (udpCall_shape f.cl f.sv f.raw fragOff true bytes ho).l4 (udpCall_csumSet ..) (by simp) (by simp)
      rfl (by simpa using hfit)

/-- `UdpDgram.csum` applied to `clientDgram` (what the DNS helper emits) -/
theorem udp_clientDgram_csum (f : UdpFlow) (msg : Bytes) (hfit : 28 + msg.length ≤ 65535) :
    Spec.l4Ok 17 (Spec.ipOfFrame f.raw (f.clientDgram msg).csum.frame) = true ∧
    Spec.udpCsumNonZero (Spec.ipOfFrame f.raw (f.clientDgram msg).csum.frame) = true ∧
    Spec.udpLenOk (Spec.ipOfFrame f.raw (f.clientDgram msg).csum.frame) = true := by
  rw [clientDgram_eq]
  have sh := (udpBase_shape f.cl f.sv f.raw msg).csum
  have hd : (udpBase f.cl f.sv f.raw msg).csum.data = msg := by simp
  obtain ⟨h1, h2⟩ := sh.l4 (UdpDgram.csumSet_csum _ (by simp)) (by simp) (by simp) rfl (by rw [hd]; exact hfit)
  exact ⟨h1, h2, sh.udpLen (by simp) (by simp) (by rw [hd]; exact hfit)⟩

theorem udp_serverDgram_csum (f : UdpFlow) (msg : Bytes) (hfit : 28 + msg.length ≤ 65535) :
    Spec.l4Ok 17 (Spec.ipOfFrame f.raw (f.serverDgram msg).csum.frame) = true ∧
    Spec.udpCsumNonZero (Spec.ipOfFrame f.raw (f.serverDgram msg).csum.frame) = true ∧
    Spec.udpLenOk (Spec.ipOfFrame f.raw (f.serverDgram msg).csum.frame) = true := by
  rw [serverDgram_eq]
  have sh := (udpBase_shape f.sv f.cl f.raw msg).csum
  have hd : (udpBase f.sv f.cl f.raw msg).csum.data = msg := by simp
  obtain ⟨h1, h2⟩ := sh.l4 (UdpDgram.csumSet_csum _ (by simp)) (by simp) (by simp) rfl (by rw [hd]; exact hfit)
  exact ⟨h1, h2, sh.udpLen (by simp) (by simp) (by rw [hd]; exact hfit)⟩

/-- the UDP length field is header + payload for **every** UDP builder, checksummed or not -/
theorem udp_dgramCall_len (f : UdpFlow) (client : Bool) (fragOff : Nat) (csum : Bool) (bytes : Bytes)
    (ho : fragOff < 8192) (hfit : 28 + bytes.length ≤ 65535) :
    Spec.udpLenOk (Spec.ipOfFrame f.raw (f.dgramCall client fragOff csum bytes)) = true := by
  rw [dgramCall_eq]
  cases client
  · exact (udpCall_shape f.sv f.cl f.raw fragOff csum bytes ho).udpLen (by simp) (by simp) (by simpa using hfit)
  · exact (udpCall_shape f.cl f.sv f.raw fragOff csum bytes ho).udpLen (by simp) (by simp) (by simpa using hfit)

theorem udp_unicast_len (src dst : Sock) (raw : Bool) (buf : Bytes) (hfit : 28 + buf.length ≤ 65535) :
    Spec.udpLenOk (Spec.ipOfFrame raw (udpUnicast src dst raw buf)) = true := by
  rw [udpUnicast_eq]
  exact (udpBase_shape src dst raw buf).udpLen (by simp) (by simp) (by simpa using hfit)

theorem udp_broadcast_len (src dst : Sock) (srcip : Option Nat) (raw : Bool) (buf : Bytes)
    (hfit : 28 + buf.length ≤ 65535) :
    Spec.udpLenOk (Spec.ipOfFrame raw (udpBroadcast src dst srcip raw buf)) = true := by
  rw [udpBroadcast_eq]
  exact (udpBcast_shape src dst srcip raw buf).udpLen (by simp) (by simp) (by simpa using hfit)

theorem vxlan_len (f : VxlanFlow) (bytes : Bytes) (hfit : 36 + bytes.length ≤ 65535) :
    Spec.udpLenOk (Spec.ipOfFrame f.raw (f.encap bytes)) = true := by
  rw [vxlan_eq]
  exact (vxlan_shape f bytes).udpLen (by simp) (by simp) (by simp; omega)

/-! ## ICMP -/

/-- echo request: type 8, code 0, the flow's identifier, the flow's request counter, checksum ok -/
theorem icmp_echo (f : IcmpFlow) (bytes : Bytes) (hid : f.id < 65536) (hseq : f.pingSeq < 65536)
    (hfit : 28 + bytes.length ≤ 65535) :
    Spec.icmpEchoOk 8 f.id f.pingSeq (Spec.ipOfFrame f.raw (f.echo bytes).2) = true :=
  icmp_echo_frame_ok f.cl f.sv f.raw 8 f.id f.pingSeq bytes (by decide) hid hseq hfit

/-- echo reply: type 0, code 0, same identifier, the flow's reply counter, checksum ok -/
theorem icmp_echoReply (f : IcmpFlow) (bytes : Bytes) (hid : f.id < 65536) (hseq : f.pongSeq < 65536)
    (hfit : 28 + bytes.length ≤ 65535) :
    Spec.icmpEchoOk 0 f.id f.pongSeq (Spec.ipOfFrame f.raw (f.echoReply bytes).2) = true :=
  icmp_echo_frame_ok f.sv f.cl f.raw 0 f.id f.pongSeq bytes (by decide) hid hseq hfit

/-- **History theorem.**  Run any list of echo / reply calls on a fresh flow.  There are exactly
as many packets as calls, and the k-th packet is an echo request (type 8) or reply (type 0) with
code 0, identifier 0x1234, a verifying checksum, and as sequence number the number of earlier
requests (resp. replies) in the list, modulo 2^16 — `icmpExpected` computes that list of
(type, id, seq) from the calls alone. -/
theorem icmp_history (cl sv : Nat) (raw : Bool) (ops : List IcmpOp)
    (hfit : ∀ op ∈ ops, 28 + op.bytes.length ≤ 65535) :
    Spec.allPairs (icmpFrameOk raw) (icmpExpected 0x1234 0 0 ops)
      (({ cl := cl, sv := sv, raw := raw } : IcmpFlow).run ops).2 = true :=
  IcmpFlow.run_ok ops { cl := cl, sv := sv, raw := raw } 0 0 (by show 0x1234 < 65536; decide) rfl rfl hfit

/-! ## non-vacuity -/

def exFlow : TcpFlow := { cl := ⟨0x0a000001, 49152⟩, sv := ⟨0xc0a80102, 80⟩, clSeq := 1000, svSeq := 4000000000, raw := false }

example : allTcpOk exFlow.raw exFlow.open.2 = true := by decide
/-- odd payload -/
example : allTcpOk exFlow.raw (exFlow.clientMessage [1, 2, 3] true 0).2 = true := by decide
example : allTcpOk true [({ exFlow with raw := true }).serverReset] = true := by decide

/-- the datagram whose computed checksum is zero (flow 1.2.3.4:1000 → 5.6.7.8:53, payload eb a9):
the field is transmitted as ff ff and verifies -/
example : Spec.udpCsumField (Spec.ipOfFrame true
    (UdpFlow.dgramCall ⟨⟨0x01020304, 1000⟩, ⟨0x05060708, 53⟩, true⟩ true 0 true [0xeb, 0xa9])) = 0xffff := by decide
example : Spec.l4Ok 17 (Spec.ipOfFrame true
    (UdpFlow.dgramCall ⟨⟨0x01020304, 1000⟩, ⟨0x05060708, 53⟩, true⟩ true 0 true [0xeb, 0xa9])) = true := by decide
example : Spec.udpLenOk (Spec.ipOfFrame false (udpBroadcast ⟨1, 68⟩ ⟨0xffffffff, 67⟩ (some 5) false [1, 2, 3])) = true := by
  decide

example : icmpExpected 0x1234 0 0 [.echo [1], .echo [], .reply [2, 3], .echo [4], .reply []] =
    [(8, 0x1234, 0), (8, 0x1234, 1), (0, 0x1234, 0), (8, 0x1234, 2), (0, 0x1234, 1)] := by decide
example : Spec.allPairs (icmpFrameOk false) (icmpExpected 0x1234 0 0 [.echo [1], .echo [], .reply [2, 3]])
    (({ cl := 1, sv := 2, raw := false } : IcmpFlow).run [.echo [1], .echo [], .reply [2, 3]]).2 = true := by decide

/-- the Spec verifier is not trivially true: flipping one payload byte is detected -/
example : Spec.csumOk [0x12, 0x34, 0xed, 0xcb] = true ∧ Spec.csumOk [0x12, 0x35, 0xed, 0xcb] = false := by decide

end Resynth.C03
