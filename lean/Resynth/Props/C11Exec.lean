import Resynth.Lemmas.ExecDesignation
import Resynth.Lemmas.InterpInvTime
import Resynth.Props.C11Gen
/-!
# C11 (end to end) — each named parameter's value lands in the header field of that name

Model: the `exec` arms of `dns::hdr`, `dns::question`, `dns::answer`, `ipv4::udp::hdr`
(`Model/Stdlib.lean`), the binder `Bind.argvec` (`Model/Bind.lean`) and `bindAndExec`
(`Model/Interp.lean`); signatures: the REAL table `Gen.lib` (regenerated from the Rust source).

* §1 (B1–B3): for every argument vector of the declared types the arm returns the fixed layout
  with each parameter's value in the field of that name.  An integer argument is any value `v`
  with `v.toNat? = some n` (Bool, U8 … U64: exactly the types the binder lets through for an
  integer parameter); a bytes argument any value with a `Buf` view.  `be16 n`/`be32 n` are the
  big-endian bytes of `n as u16`/`n as u32`, so the equalities need no range hypothesis; the
  *read-back* theorems (an independent reader returns the values) are where `n < 65536` enters.
* §2 (B4): a call that supplies every parameter — some prefix positionally, the others as
  `name: value` in ANY order — binds to the declared-order vector (`argvec_any_order`, for every
  well-formed signature, hence every library function), hence `bindAndExec` on the real table
  entry returns the bytes of §1.
-/
namespace Resynth.C11
open Resynth.Spec Resynth.Wire

/-! ## 1. the `exec` arms -/

/-- **B1.** `dns::hdr [id, flags, qdcount, ancount, nscount, arcount]` is the 12 bytes
ID, FLAGS, QDCOUNT, ANCOUNT, NSCOUNT, ARCOUNT (RFC 1035 §4.1.1 order), each big-endian. -/
theorem dns_hdr_layout (fs : Fs) (h : Heap) (id flags qd an ns ar : Val) (nid nfl nqd nan nns nar : Nat)
    (h1 : id.toNat? = some nid) (h2 : flags.toNat? = some nfl) (h3 : qd.toNat? = some nqd)
    (h4 : an.toNat? = some nan) (h5 : ns.toNat? = some nns) (h6 : ar.toNat? = some nar) :
    exec fs "dns::hdr" none ⟨[id, flags, qd, an, ns, ar], []⟩ h =
      .ok (.str (be16 nid ++ be16 nfl ++ be16 nqd ++ be16 nan ++ be16 nns ++ be16 nar), h) := by
  rw [exec_dns_hdr fs h id flags qd an ns ar nid nfl nqd nan nns nar h1 h2 h3 h4 h5 h6]
  simp only [dnsHdr, be16_mod]

/-- six successive 16-bit big-endian reads (`Spec.rdU16`, the reader `Spec.parseDnsMessage` starts with) -/
def readSixU16 (b : Bytes) : Option (List Nat × Bytes) := do
  let (a, r) ← rdU16 b
  let (b', r) ← rdU16 r
  let (c, r) ← rdU16 r
  let (d, r) ← rdU16 r
  let (e, r) ← rdU16 r
  let (f, r) ← rdU16 r
  some ([a, b', c, d, e, f], r)

/-- B1 read back: for in-range values the header is 12 bytes and an independent reader finds
`id, flags, qdcount, ancount, nscount, arcount` at offsets 0, 2, 4, 6, 8, 10. -/
theorem dns_hdr_fields (fs : Fs) (h : Heap) (nid nfl nqd nan nns nar : Nat)
    (r1 : nid < 65536) (r2 : nfl < 65536) (r3 : nqd < 65536) (r4 : nan < 65536) (r5 : nns < 65536)
    (r6 : nar < 65536) (rest : Bytes) :
    ∃ b, exec fs "dns::hdr" none ⟨[.u16 nid, .u16 nfl, .u16 nqd, .u16 nan, .u16 nns, .u16 nar], []⟩ h =
        .ok (.str b, h) ∧ b.length = 12 ∧
      readSixU16 (b ++ rest) = some ([nid, nfl, nqd, nan, nns, nar], rest) := by
  refine ⟨_, dns_hdr_layout fs h _ _ _ _ _ _ nid nfl nqd nan nns nar rfl rfl rfl rfl rfl rfl, rfl, ?_⟩
  simp [readSixU16, List.append_assoc, u16At_be16, Nat.mod_eq_of_lt, r1, r2, r3, r4, r5, r6]

/-- **B2.** `dns::question [qname, qtype, qclass]` is `qname ++ be16 qtype ++ be16 qclass`. -/
theorem dns_question_layout (fs : Fs) (h : Heap) (name qt qc : Val) (nb : Bytes) (nt nc : Nat)
    (hn : name.toBuf? = some nb) (ht : qt.toNat? = some nt) (hc : qc.toNat? = some nc) :
    exec fs "dns::question" none ⟨[name, qt, qc], []⟩ h = .ok (.str (nb ++ be16 nt ++ be16 nc), h) := by
  rw [exec_dns_question' fs h name qt qc nb nt nc hn ht hc]
  simp only [be16_mod]

/-- **B2.** `dns::answer [aname, atype, aclass, ttl] ++ tail` is
`aname ++ be16 atype ++ be16 aclass ++ be32 ttl ++ be16 |data| ++ data`, `data` the joined tail. -/
theorem dns_answer_layout (fs : Fs) (h : Heap) (name aty ac ttl : Val) (nb : Bytes) (nt nc nttl : Nat)
    (hn : name.toBuf? = some nb) (ht : aty.toNat? = some nt) (hc : ac.toNat? = some nc)
    (hl : ttl.toNat? = some nttl) (x : List Val) (bufs : List Bytes)
    (hx : x.mapM (m := Option) Val.toBuf? = some bufs) :
    exec fs "dns::answer" none ⟨[name, aty, ac, ttl], x⟩ h =
      .ok (.str (nb ++ be16 nt ++ be16 nc ++ be32 nttl ++ be16 bufs.flatten.length ++ bufs.flatten), h) := by
  rw [exec_dns_answer' fs h name aty ac ttl nb nt nc nttl hn ht hc hl x bufs hx]
  simp only [be16_mod, be32_mod]

/-- B2 read back: when the name is a well-formed label sequence and the values are in range
(`|data| < 65536` for RDLENGTH), the RFC 1035 readers return them field by field. -/
theorem dns_question_answer_fields (name : Bytes) (labels : List Bytes)
    (hq : ∀ X, parseName (name ++ X) = some (labels, X)) (nt nc nttl : Nat) (data rest : Bytes)
    (r1 : nt < 65536) (r2 : nc < 65536) (r3 : nttl < 4294967296) (r4 : data.length < 65536) :
    parseQuestion ((name ++ be16 nt ++ be16 nc) ++ rest) = some (⟨labels, nt, nc⟩, rest) ∧
    parseDnsRR ((name ++ be16 nt ++ be16 nc ++ be32 nttl ++ be16 data.length ++ data) ++ rest) =
      some (⟨labels, nt, nc, nttl, data⟩, rest) := by
  constructor
  · have := parseQuestion_of name labels hq nt nc rest
    rw [Nat.mod_eq_of_lt r1, Nat.mod_eq_of_lt r2] at this
    simpa [List.append_assoc] using this
  · have := parseDnsRR_of name labels hq nt nc nttl data rest r4
    rw [Nat.mod_eq_of_lt r1, Nat.mod_eq_of_lt r2, Nat.mod_eq_of_lt r3] at this
    simpa [List.append_assoc] using this

/-- **B3.** `ipv4::udp::hdr [src, dst, len, csum]` is
`be16 src ++ be16 dst ++ be16 ((len + 8) mod 65536) ++ be16 csum`: the `len` parameter is the
payload length, the header's own 8 bytes are added (wrapping at 16 bits; so `len ≥ 65528` yields a
length field smaller than 8 — the model follows the Rust `wrapping_add`). -/
theorem udp_hdr_layout (fs : Fs) (h : Heap) (src dst len csum : Val) (ns nd nl nc : Nat)
    (h1 : src.toNat? = some ns) (h2 : dst.toNat? = some nd) (h3 : len.toNat? = some nl)
    (h4 : csum.toNat? = some nc) :
    exec fs "ipv4::udp::hdr" none ⟨[src, dst, len, csum], []⟩ h =
      .ok (.str (be16 ns ++ be16 nd ++ be16 ((nl + 8) % 65536) ++ be16 nc), h) := by
  have hm : (nl % 65536 + 8) % 65536 = (nl + 8) % 65536 := by omega
  rw [exec_udp_hdr fs h src dst len csum ns nd nl nc h1 h2 h3 h4, hm]
  simp only [be16_mod]

/-- four successive 16-bit reads -/
def readFourU16 (b : Bytes) : Option (List Nat × Bytes) := do
  let (a, r) ← rdU16 b
  let (b', r) ← rdU16 r
  let (c, r) ← rdU16 r
  let (d, r) ← rdU16 r
  some ([a, b', c, d], r)

/-- B3 read back (RFC 768 order: source port, destination port, length, checksum). -/
theorem udp_hdr_fields (fs : Fs) (h : Heap) (ns nd nl nc : Nat) (r1 : ns < 65536) (r2 : nd < 65536)
    (r4 : nc < 65536) (rest : Bytes) :
    ∃ b, exec fs "ipv4::udp::hdr" none ⟨[.u16 ns, .u16 nd, .u16 nl, .u16 nc], []⟩ h = .ok (.str b, h) ∧
      b.length = 8 ∧ readFourU16 (b ++ rest) = some ([ns, nd, (nl + 8) % 65536, nc], rest) := by
  refine ⟨_, udp_hdr_layout fs h _ _ _ _ ns nd nl nc rfl rfl rfl rfl, rfl, ?_⟩
  simp [readFourU16, List.append_assoc, u16At_be16, Nat.mod_eq_of_lt, r1, r2, r4]

/-! ## 2. composed with the binder -/

/-- the call `lead…, name: value…, tail…` as the interpreter hands it to the binder -/
def callOf (lead : List Val) (named : List (String × Val)) (tail : List Val) : List ArgSpec :=
  lead.map (fun v => ⟨none, v⟩) ++ (named.map (fun p => ⟨some p.1, p.2⟩) ++ tail.map (fun v => ⟨none, v⟩))

theorem toCall_callOf (lead : List Val) (named : List (String × Val)) (tail : List Val) :
    Bind.toCall (callOf lead named tail) = mkCall lead named tail := by
  simp [Bind.toCall, callOf, mkCall, Function.comp_def]

/-- **B4, general.**  For every well-formed signature `f` (every function of the library, by
`all_library_wf`): let `vs` be one value per parameter in declared order, each of a type the
parameter accepts.  A call that passes the first `k` of them positionally (`k ≤ fillable f`: any
`k` without a variable tail, at most the mandatory ones with it) and ALL the others as
`name: value` pairs in an ARBITRARY order (`named` is any permutation of the remaining pairs),
followed by the collected tail, is accepted and binds exactly `vs` (and the tail). -/
theorem argvec_any_order (f : FuncDef) (hwf : wf f = true) (vs : List Val)
    (hlen : vs.length = f.args.length) (k : Nat) (hk : k ≤ fillable f)
    (named : List (String × Val)) (hperm : named.Perm (((paramNames f).zip vs).drop k))
    (tail : List Val) (htail : tail = [] ∨ hasTail f = true)
    (htt : ∀ v ∈ tail, accepts f.collectType v.valType = true)
    (hacc : ∀ p ∈ f.args.zip vs, paramAccepts p.1.decl p.2.valType = true) :
    Bind.argvec f (callOf (vs.take k) named tail) = .ok ⟨vs, tail⟩ := by
  rw [argvec_ok_iff f hwf, toCall_callOf]
  exact bind_any_order f (Bind.wf_nodup hwf) vs hlen k hk named hperm tail htail htt hacc

/-- … in particular all named in declared order, all named in reverse order, or all positional. -/
theorem argvec_named_declared_reverse_positional (f : FuncDef) (hwf : wf f = true) (vs : List Val)
    (hlen : vs.length = f.args.length)
    (hacc : ∀ p ∈ f.args.zip vs, paramAccepts p.1.decl p.2.valType = true) :
    Bind.argvec f (callOf [] ((paramNames f).zip vs) []) = .ok ⟨vs, []⟩ ∧
    Bind.argvec f (callOf [] ((paramNames f).zip vs).reverse []) = .ok ⟨vs, []⟩ ∧
    (hasTail f = false → Bind.argvec f (callOf vs [] []) = .ok ⟨vs, []⟩) := by
  refine ⟨?_, ?_, ?_⟩
  · exact argvec_any_order f hwf vs hlen 0 (Nat.zero_le _) _ (List.Perm.refl _) [] (Or.inl rfl)
      (fun _ hv => by simp at hv) hacc
  · exact argvec_any_order f hwf vs hlen 0 (Nat.zero_le _) _ (List.reverse_perm _) [] (Or.inl rfl)
      (fun _ hv => by simp at hv) hacc
  · intro ht
    have hk : f.args.length ≤ fillable f := by simp [fillable, ht]
    have := argvec_any_order f hwf vs hlen f.args.length hk [] (by
      rw [List.drop_of_length_le (by simp [paramNames, hlen])]) [] (Or.inl rfl)
      (fun _ hv => by simp at hv) hacc
    rwa [← hlen, List.take_length] at this

/-- the same for every function the real library registers -/
theorem library_any_order (path : String) (f : FuncDef) (h : (path, Sym.func f) ∈ Gen.table)
    (vs : List Val) (hlen : vs.length = f.args.length) (k : Nat) (hk : k ≤ fillable f)
    (named : List (String × Val)) (hperm : named.Perm (((paramNames f).zip vs).drop k))
    (tail : List Val) (htail : tail = [] ∨ hasTail f = true)
    (htt : ∀ v ∈ tail, accepts f.collectType v.valType = true)
    (hacc : ∀ p ∈ f.args.zip vs, paramAccepts p.1.decl p.2.valType = true) :
    Bind.argvec f (callOf (vs.take k) named tail) = .ok ⟨vs, tail⟩ :=
  argvec_any_order f (all_library_wf _ h) vs hlen k hk named hperm tail htail htt hacc

/-! ### the four real signatures -/

def sigDnsHdr : FuncDef :=
  ⟨"dns::hdr", "hdr", .str, [⟨"id", .positional .u16⟩, ⟨"flags", .positional .u16⟩,
    ⟨"qdcount", .optional (.u16 0)⟩, ⟨"ancount", .optional (.u16 0)⟩, ⟨"nscount", .optional (.u16 0)⟩,
    ⟨"arcount", .optional (.u16 0)⟩], .void⟩
def sigDnsQuestion : FuncDef :=
  ⟨"dns::question", "question", .str, [⟨"qname", .positional .str⟩, ⟨"qtype", .optional (.u16 1)⟩,
    ⟨"qclass", .optional (.u16 1)⟩], .void⟩
def sigDnsAnswer : FuncDef :=
  ⟨"dns::answer", "answer", .str, [⟨"aname", .positional .str⟩, ⟨"atype", .optional (.u16 1)⟩,
    ⟨"aclass", .optional (.u16 1)⟩, ⟨"ttl", .optional (.u32 229)⟩], .str⟩
def sigUdpHdr : FuncDef :=
  ⟨"ipv4::udp::hdr", "hdr", .str, [⟨"src", .positional .u16⟩, ⟨"dst", .positional .u16⟩,
    ⟨"len", .optional (.u16 0)⟩, ⟨"csum", .optional (.u16 0)⟩], .void⟩

/-- these literals are what the real library registers under the four paths -/
theorem designation_sigs_are_real :
    Gen.lib.get "dns::hdr" = some (.func sigDnsHdr) ∧ Gen.lib.get "dns::question" = some (.func sigDnsQuestion)
    ∧ Gen.lib.get "dns::answer" = some (.func sigDnsAnswer)
    ∧ Gen.lib.get "ipv4::udp::hdr" = some (.func sigUdpHdr) := by
  have h : isLibSig "dns::hdr" sigDnsHdr = true ∧ isLibSig "dns::question" sigDnsQuestion = true
      ∧ isLibSig "dns::answer" sigDnsAnswer = true ∧ isLibSig "ipv4::udp::hdr" sigUdpHdr = true := by
    decide +kernel
  have conv : ∀ p f, isLibSig p f = true → Gen.lib.get p = some (.func f) := by
    intro p f hp
    unfold isLibSig at hp
    split at hp
    · rename_i g hg
      rw [hg]
      have : g = f := by simpa using hp
      rw [this]
    · cases hp
  exact ⟨conv _ _ h.1, conv _ _ h.2.1, conv _ _ h.2.2.1, conv _ _ h.2.2.2⟩

theorem designation_sigs_wf : wf sigDnsHdr = true ∧ wf sigDnsQuestion = true ∧ wf sigDnsAnswer = true
    ∧ wf sigUdpHdr = true := by decide

/-- **B4 for `dns::hdr`** on the real table entry: the first `k ≤ 6` values positionally, the
other parameters by name in any order.  The binder returns the declared-order vector and the call
returns the header with each named value in the field of that name. -/
theorem dns_hdr_any_order (fs : Fs) (st : PState) (id flags qd an ns ar : Val) (nid nfl nqd nan nns nar : Nat)
    (h1 : id.toNat? = some nid) (h2 : flags.toNat? = some nfl) (h3 : qd.toNat? = some nqd)
    (h4 : an.toNat? = some nan) (h5 : ns.toNat? = some nns) (h6 : ar.toNat? = some nar)
    (k : Nat) (hk : k ≤ 6) (named : List (String × Val))
    (hperm : named.Perm ([("id", id), ("flags", flags), ("qdcount", qd), ("ancount", an), ("nscount", ns),
      ("arcount", ar)].drop k)) :
    ∃ f, Gen.lib.get "dns::hdr" = some (.func f) ∧
      Bind.argvec f (callOf ([id, flags, qd, an, ns, ar].take k) named []) =
        .ok ⟨[id, flags, qd, an, ns, ar], []⟩ ∧
      bindAndExec ⟨Gen.lib, fs⟩ st f none (callOf ([id, flags, qd, an, ns, ar].take k) named []) =
        .ok (.str (be16 nid ++ be16 nfl ++ be16 nqd ++ be16 nan ++ be16 nns ++ be16 nar), st) := by
  have hb : Bind.argvec sigDnsHdr (callOf ([id, flags, qd, an, ns, ar].take k) named []) =
      .ok ⟨[id, flags, qd, an, ns, ar], []⟩ := by
    refine argvec_any_order sigDnsHdr designation_sigs_wf.1 [id, flags, qd, an, ns, ar] rfl k hk named hperm []
      (Or.inl rfl) (fun _ hv => by simp at hv) ?_
    intro p hp
    simp only [sigDnsHdr, List.zip_cons_cons, List.zip_nil_right, List.mem_cons, List.not_mem_nil, or_false] at hp
    rcases hp with rfl | rfl | rfl | rfl | rfl | rfl
    · exact (accepts_int_of_toNat h1).1
    · exact (accepts_int_of_toNat h2).1
    · exact (accepts_int_of_toNat h3).1
    · exact (accepts_int_of_toNat h4).1
    · exact (accepts_int_of_toNat h5).1
    · exact (accepts_int_of_toNat h6).1
  refine ⟨sigDnsHdr, designation_sigs_are_real.1, hb, ?_⟩
  exact bindAndExec_ok_of ⟨Gen.lib, fs⟩ st sigDnsHdr none _ _ _ st.heap hb
    (dns_hdr_layout fs st.heap id flags qd an ns ar nid nfl nqd nan nns nar h1 h2 h3 h4 h5 h6) rfl

/-- **B4 for `dns::question`** on the real table entry (`k ≤ 3`). -/
theorem dns_question_any_order (fs : Fs) (st : PState) (name qt qc : Val) (nb : Bytes) (nt nc : Nat)
    (hn : name.toBuf? = some nb) (ht : qt.toNat? = some nt) (hc : qc.toNat? = some nc)
    (k : Nat) (hk : k ≤ 3) (named : List (String × Val))
    (hperm : named.Perm ([("qname", name), ("qtype", qt), ("qclass", qc)].drop k)) :
    ∃ f, Gen.lib.get "dns::question" = some (.func f) ∧
      Bind.argvec f (callOf ([name, qt, qc].take k) named []) = .ok ⟨[name, qt, qc], []⟩ ∧
      bindAndExec ⟨Gen.lib, fs⟩ st f none (callOf ([name, qt, qc].take k) named []) =
        .ok (.str (nb ++ be16 nt ++ be16 nc), st) := by
  have hb : Bind.argvec sigDnsQuestion (callOf ([name, qt, qc].take k) named []) = .ok ⟨[name, qt, qc], []⟩ := by
    refine argvec_any_order sigDnsQuestion designation_sigs_wf.2.1 [name, qt, qc] rfl k hk named hperm []
      (Or.inl rfl) (fun _ hv => by simp at hv) ?_
    intro p hp
    simp only [sigDnsQuestion, List.zip_cons_cons, List.zip_nil_right, List.mem_cons, List.not_mem_nil,
      or_false] at hp
    rcases hp with rfl | rfl | rfl
    · exact accepts_str_of_toBuf hn
    · exact (accepts_int_of_toNat ht).1
    · exact (accepts_int_of_toNat hc).1
  refine ⟨sigDnsQuestion, designation_sigs_are_real.2.1, hb, ?_⟩
  exact bindAndExec_ok_of ⟨Gen.lib, fs⟩ st sigDnsQuestion none _ _ _ st.heap hb
    (dns_question_layout fs st.heap name qt qc nb nt nc hn ht hc) rfl

/-- **B4 for `dns::answer`** on the real table entry.  The function collects a tail, so unnamed
arguments fill only the mandatory `aname` (`k ≤ 1`); `atype`, `aclass`, `ttl` are named, in any
order, and the unnamed values after them are the RDATA pieces. -/
theorem dns_answer_any_order (fs : Fs) (st : PState) (name aty ac ttl : Val) (nb : Bytes) (nt nc nttl : Nat)
    (hn : name.toBuf? = some nb) (ht : aty.toNat? = some nt) (hc : ac.toNat? = some nc)
    (hl : ttl.toNat? = some nttl) (x : List Val) (bufs : List Bytes)
    (hx : x.mapM (m := Option) Val.toBuf? = some bufs)
    (k : Nat) (hk : k ≤ 1) (named : List (String × Val))
    (hperm : named.Perm ([("aname", name), ("atype", aty), ("aclass", ac), ("ttl", ttl)].drop k)) :
    ∃ f, Gen.lib.get "dns::answer" = some (.func f) ∧
      Bind.argvec f (callOf ([name, aty, ac, ttl].take k) named x) = .ok ⟨[name, aty, ac, ttl], x⟩ ∧
      bindAndExec ⟨Gen.lib, fs⟩ st f none (callOf ([name, aty, ac, ttl].take k) named x) =
        .ok (.str (nb ++ be16 nt ++ be16 nc ++ be32 nttl ++ be16 bufs.flatten.length ++ bufs.flatten), st) := by
  have hb : Bind.argvec sigDnsAnswer (callOf ([name, aty, ac, ttl].take k) named x) =
      .ok ⟨[name, aty, ac, ttl], x⟩ := by
    refine argvec_any_order sigDnsAnswer designation_sigs_wf.2.2.1 [name, aty, ac, ttl] rfl k hk named hperm x
      (Or.inr rfl) (accepts_str_of_mapM x bufs hx) ?_
    intro p hp
    simp only [sigDnsAnswer, List.zip_cons_cons, List.zip_nil_right, List.mem_cons, List.not_mem_nil,
      or_false] at hp
    rcases hp with rfl | rfl | rfl | rfl
    · exact accepts_str_of_toBuf hn
    · exact (accepts_int_of_toNat ht).1
    · exact (accepts_int_of_toNat hc).1
    · exact (accepts_int_of_toNat hl).2
  refine ⟨sigDnsAnswer, designation_sigs_are_real.2.2.1, hb, ?_⟩
  exact bindAndExec_ok_of ⟨Gen.lib, fs⟩ st sigDnsAnswer none _ _ _ st.heap hb
    (dns_answer_layout fs st.heap name aty ac ttl nb nt nc nttl hn ht hc hl x bufs hx) rfl

/-- **B4 for `ipv4::udp::hdr`** on the real table entry (`k ≤ 4`). -/
theorem udp_hdr_any_order (fs : Fs) (st : PState) (src dst len csum : Val) (ns nd nl nc : Nat)
    (h1 : src.toNat? = some ns) (h2 : dst.toNat? = some nd) (h3 : len.toNat? = some nl)
    (h4 : csum.toNat? = some nc)
    (k : Nat) (hk : k ≤ 4) (named : List (String × Val))
    (hperm : named.Perm ([("src", src), ("dst", dst), ("len", len), ("csum", csum)].drop k)) :
    ∃ f, Gen.lib.get "ipv4::udp::hdr" = some (.func f) ∧
      Bind.argvec f (callOf ([src, dst, len, csum].take k) named []) = .ok ⟨[src, dst, len, csum], []⟩ ∧
      bindAndExec ⟨Gen.lib, fs⟩ st f none (callOf ([src, dst, len, csum].take k) named []) =
        .ok (.str (be16 ns ++ be16 nd ++ be16 ((nl + 8) % 65536) ++ be16 nc), st) := by
  have hb : Bind.argvec sigUdpHdr (callOf ([src, dst, len, csum].take k) named []) =
      .ok ⟨[src, dst, len, csum], []⟩ := by
    refine argvec_any_order sigUdpHdr designation_sigs_wf.2.2.2 [src, dst, len, csum] rfl k hk named hperm []
      (Or.inl rfl) (fun _ hv => by simp at hv) ?_
    intro p hp
    simp only [sigUdpHdr, List.zip_cons_cons, List.zip_nil_right, List.mem_cons, List.not_mem_nil,
      or_false] at hp
    rcases hp with rfl | rfl | rfl | rfl
    · exact (accepts_int_of_toNat h1).1
    · exact (accepts_int_of_toNat h2).1
    · exact (accepts_int_of_toNat h3).1
    · exact (accepts_int_of_toNat h4).1
  refine ⟨sigUdpHdr, designation_sigs_are_real.2.2.2, hb, ?_⟩
  exact bindAndExec_ok_of ⟨Gen.lib, fs⟩ st sigUdpHdr none _ _ _ st.heap hb
    (udp_hdr_layout fs st.heap src dst len csum ns nd nl nc h1 h2 h3 h4) rfl

/-! ## 3. non-vacuity -/

section Examples

def valOf : Res (Val × Heap) → Option Val | .ok r => some r.1 | _ => none
def valOf' : Res (Val × PState) → Option Val | .ok r => some r.1 | _ => none

/-- `dns::hdr(flags: 0x8180, id: 0x1234, arcount: 1, nscount: 2, ancount: 3, qdcount: 4)`: the
hypothesis of `dns_hdr_any_order` (a permutation of all six pairs, `k = 0`) … -/
example : [("flags", Val.u64 0x8180), ("id", .u64 0x1234), ("arcount", .u64 1), ("nscount", .u64 2),
      ("ancount", .u64 3), ("qdcount", .u64 4)].Perm
    ([("id", Val.u64 0x1234), ("flags", .u64 0x8180), ("qdcount", .u64 4), ("ancount", .u64 3), ("nscount", .u64 2),
      ("arcount", .u64 1)].drop 0) := by decide
/-- … and the conclusion, computed: the binder's vector and the bytes -/
example : Bind.argvec sigDnsHdr (callOf [] [("flags", Val.u64 0x8180), ("id", .u64 0x1234), ("arcount", .u64 1),
      ("nscount", .u64 2), ("ancount", .u64 3), ("qdcount", .u64 4)] []) =
    .ok ⟨[.u64 0x1234, .u64 0x8180, .u64 4, .u64 3, .u64 2, .u64 1], []⟩ := by rfl
example : valOf (exec [] "dns::hdr" none ⟨[.u64 0x1234, .u64 0x8180, .u64 4, .u64 3, .u64 2, .u64 1], []⟩ []) =
    some (.str [0x12, 0x34, 0x81, 0x80, 0, 4, 0, 3, 0, 2, 0, 1]) := by decide
/-- mandatory positional + optional named out of order: `dns::hdr(0x1234, 0x0100, arcount: 1, qdcount: 2)` is
NOT an instance of "all parameters supplied" (two defaults); with all six it is `k = 2` -/
example : [("arcount", Val.u64 1), ("qdcount", .u64 2), ("nscount", .u64 0), ("ancount", .u64 0)].Perm
    ([("id", Val.u64 0x1234), ("flags", .u64 0x0100), ("qdcount", .u64 2), ("ancount", .u64 0), ("nscount", .u64 0),
      ("arcount", .u64 1)].drop 2) := by decide
/-- `dns::answer("\x03foo\x00", ttl: 60, aclass: 1, atype: 1, 1.2.3.4)`: `k = 1`, a tail -/
example : Bind.argvec sigDnsAnswer (callOf [.str [3, 102, 111, 111, 0]] [("ttl", Val.u64 60), ("aclass", .u64 1),
      ("atype", .u64 1)] [.ip4 0x01020304]) =
    .ok ⟨[.str [3, 102, 111, 111, 0], .u64 1, .u64 1, .u64 60], [.ip4 0x01020304]⟩ := by rfl
example : valOf (exec [] "dns::answer" none
      ⟨[.str [3, 102, 111, 111, 0], .u64 1, .u64 1, .u64 60], [.ip4 0x01020304]⟩ []) =
    some (.str [3, 102, 111, 111, 0, 0, 1, 0, 1, 0, 0, 0, 60, 0, 4, 1, 2, 3, 4]) := by decide
/-- `ipv4::udp::hdr(csum: 0xbeef, len: 12, dst: 53, src: 32768)`: the length field is 12 + 8 -/
example : valOf (exec [] "ipv4::udp::hdr" none ⟨[.u64 32768, .u64 53, .u64 12, .u64 0xbeef], []⟩ []) =
    some (.str [0x80, 0, 0, 53, 0, 20, 0xbe, 0xef]) := by decide
example : Bind.argvec sigUdpHdr (callOf [] [("csum", Val.u64 0xbeef), ("len", .u64 12), ("dst", .u64 53),
      ("src", .u64 32768)] []) = .ok ⟨[.u64 32768, .u64 53, .u64 12, .u64 0xbeef], []⟩ := by rfl
/-- the name hypothesis of `dns_question_answer_fields` is satisfiable (`foo.`) -/
example : parseName ([3, 102, 111, 111, 0] ++ [9, 9]) = some ([[102, 111, 111]], [9, 9]) := by decide
/-- end to end through the evaluator on the REAL table: `dns::question(qclass: 3, qname: "ab", qtype: 2)` -/
example : valOf' (eval ⟨Gen.lib, []⟩ { imports := ["dns"] }
      (.call ⟨⟨1, 1⟩, ["dns"], ["question"]⟩
        (.cons (some "qclass") (.lit ⟨1, 2⟩ (.u64 3)) (.cons (some "qname") (.lit ⟨1, 3⟩ (.str [97, 98]))
          (.cons (some "qtype") (.lit ⟨1, 4⟩ (.u64 2)) .nil))))) =
    some (.str [97, 98, 0, 2, 0, 3]) := by decide +kernel

end Examples

end Resynth.C11
