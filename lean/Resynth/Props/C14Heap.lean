import Resynth.Lemmas.HeapLocalCovered
/-!
# C14 (heap): library calls are local to the object they are called on

Model: `exec` of `Model/Stdlib.lean` (src/stdlib/**/*.rs; objects are `Rc<dyn Obj>` in the Rust code,
slots of `Heap = List Obj` in the model; `this` is the slot a method was looked up on).

"There is no state shared between objects."  For ALL file systems, argument vectors (well bound or
not, of any arity) and heaps, and each of the 85 functions of `C08.covered`:

* T1 `exec_heap_shape` — a successful call leaves the heap alone, or appends exactly one object and
  returns the handle of the slot it landed in, or replaces exactly the slot `this` refers to (which
  was live);
* T2 `exec_other_objects_untouched`, `exec_heap_grows` — every other slot is unchanged, the heap never
  shrinks (and grows by at most one object);
* T3 `exec_depends_only_on_this` (+ `exec_method_frame`, `exec_method_err_depends_only_on_this`,
  `exec_method_panic_depends_only_on_this`) — what a METHOD returns (value, error or panic) and the
  new state of its object depend only on that object: two heaps that agree on slot `i` give the same
  outcome and the same new contents of slot `i`, whatever else the heaps contain (even their lengths
  may differ).
  For FREE FUNCTIONS `exec_fn_heap_independent` (+ `exec_fn_same_length`, `exec_fn_err_heap_independent`,
  `exec_fn_panic_heap_independent`): the outcome does not depend on the contents of the heap at all;
  a constructor appends the same object to whatever heap it runs on and the handle it returns depends
  only on the length of that heap.
* T4 `two_objects_commute` — two successful method calls on different objects can be swapped: same two
  return values, same final heap.

All of it is derived from `covered_local` (`Lemmas/HeapLocal*.lean`): each arm of `exec`, run on two
heaps, ends in `Sim`-related outcomes.
-/
namespace Resynth.C14Heap
open Resynth.C08

/-! ## T1 the shape of the heap after a call -/

/-- **T1**: a call never touches an object other than the one it is called on, and only ever appends -/
theorem exec_heap_shape : ∀ e ∈ covered, ∀ (fs : Fs) (this : Option Nat) (av : ArgVec) (h : Heap)
    (v : Val) (h' : Heap), exec fs e.2.path this av h = .ok (v, h') →
    h' = h ∨ (∃ o : Obj, h' = h ++ [o] ∧ v = .obj h.length o.cls) ∨
    (∃ (i : Nat) (o : Obj), this = some i ∧ i < h.length ∧ h' = h.set i o) := by
  intro e he fs this av h v h' hx
  have s := covered_local e he fs this av h h (fun _ _ _ => rfl)
  rw [hx] at s
  rcases s.inv_ok with ⟨rfl, -⟩ | ⟨-, o, rfl, rfl, -⟩ | ⟨-, i, o, ht, hi, -, rfl, -⟩
  · exact .inl rfl
  · exact .inr (.inl ⟨o, rfl, rfl⟩)
  · exact .inr (.inr ⟨i, o, ht, hi, rfl⟩)

/-! ## T2 the other objects -/

/-- **T2**: every live slot other than `this` holds the same object after the call, and the heap
does not shrink -/
theorem exec_other_objects_untouched : ∀ e ∈ covered, ∀ (fs : Fs) (this : Option Nat) (av : ArgVec)
    (h : Heap) (v : Val) (h' : Heap), exec fs e.2.path this av h = .ok (v, h') →
    (∀ j, some j ≠ this → j < h.length → h'[j]? = h[j]?) ∧ h.length ≤ h'.length := by
  intro e he fs this av h v h' hx
  rcases exec_heap_shape e he fs this av h v h' hx with rfl | ⟨o, rfl, -⟩ | ⟨i, o, rfl, -, rfl⟩
  · exact ⟨fun _ _ _ => rfl, Nat.le_refl _⟩
  · exact ⟨fun j _ hlt => List.getElem?_append_left hlt, by simp⟩
  · refine ⟨fun j hj _ => ?_, by simp⟩
    have hij : i ≠ j := fun e => hj (by rw [e])
    exact List.getElem?_set_ne hij

/-- **T2**: the heap grows by at most one object -/
theorem exec_heap_grows : ∀ e ∈ covered, ∀ (fs : Fs) (this : Option Nat) (av : ArgVec)
    (h : Heap) (v : Val) (h' : Heap), exec fs e.2.path this av h = .ok (v, h') →
    h.length ≤ h'.length ∧ h'.length ≤ h.length + 1 := by
  intro e he fs this av h v h' hx
  rcases exec_heap_shape e he fs this av h v h' hx with rfl | ⟨o, rfl, -⟩ | ⟨i, o, -, -, rfl⟩
  · omega
  · simp
  · simp

/-! ## T3 methods: only the object counts -/

/-- the frame rule for methods: two heaps that agree on slot `i` give the same value, and the same
update (none, or the same new object stored in slot `i`) -/
theorem exec_method_frame : ∀ (cls : String) (f : FuncDef), (some cls, f) ∈ covered →
    ∀ (fs : Fs) (i : Nat) (av : ArgVec) (h h2 : Heap) (v : Val) (h' : Heap),
    h[i]? = h2[i]? → exec fs f.path (some i) av h = .ok (v, h') →
    (h' = h ∧ exec fs f.path (some i) av h2 = .ok (v, h2)) ∨
    (∃ o : Obj, i < h.length ∧ i < h2.length ∧ h' = h.set i o ∧
      exec fs f.path (some i) av h2 = .ok (v, h2.set i o)) := by
  intro cls f he fs i av h h2 v h' hi hx
  have s := covered_local _ he fs (some i) av h h2 (fun _ j hj => by cases hj; exact hi)
  rw [hx] at s
  rcases s.inv_ok with ⟨rfl, h2x⟩ | ⟨hm, -⟩ | ⟨-, j, o, ht, hj, hj2, rfl, h2x⟩
  · exact .inl ⟨rfl, h2x⟩
  · cases hm
  · cases ht
    exact .inr ⟨o, hj, hj2, rfl, h2x⟩

/-- **T3**: the packets/bytes a method returns and the new state of its object depend only on that
object, not on any other object of the program -/
theorem exec_depends_only_on_this : ∀ (cls : String) (f : FuncDef), (some cls, f) ∈ covered →
    ∀ (fs : Fs) (i : Nat) (av : ArgVec) (h h2 : Heap) (v : Val) (h' : Heap),
    h[i]? = h2[i]? → exec fs f.path (some i) av h = .ok (v, h') →
    ∃ h2', exec fs f.path (some i) av h2 = .ok (v, h2') ∧ h2'[i]? = h'[i]? := by
  intro cls f he fs i av h h2 v h' hi hx
  rcases exec_method_frame cls f he fs i av h h2 v h' hi hx with ⟨rfl, h2x⟩ | ⟨o, hl, hl2, rfl, h2x⟩
  · exact ⟨h2, h2x, hi.symm⟩
  · refine ⟨_, h2x, ?_⟩
    rw [List.getElem?_set_self hl, List.getElem?_set_self hl2]

/-- **T3** (errors): a method fails with the same error on two heaps that agree on its object -/
theorem exec_method_err_depends_only_on_this : ∀ (cls : String) (f : FuncDef), (some cls, f) ∈ covered →
    ∀ (fs : Fs) (i : Nat) (av : ArgVec) (h h2 : Heap) (e : ErrKind) (l : Loc),
    h[i]? = h2[i]? → exec fs f.path (some i) av h = .err e l →
    exec fs f.path (some i) av h2 = .err e l := by
  intro cls f he fs i av h h2 e l hi hx
  have s := covered_local _ he fs (some i) av h h2 (fun _ j hj => by cases hj; exact hi)
  rw [hx] at s
  exact s.inv_err

/-- **T3** (panics): a method panics at the same site on two heaps that agree on its object -/
theorem exec_method_panic_depends_only_on_this : ∀ (cls : String) (f : FuncDef), (some cls, f) ∈ covered →
    ∀ (fs : Fs) (i : Nat) (av : ArgVec) (h h2 : Heap) (site : String),
    h[i]? = h2[i]? → exec fs f.path (some i) av h = .panic site →
    exec fs f.path (some i) av h2 = .panic site := by
  intro cls f he fs i av h h2 site hi hx
  have s := covered_local _ he fs (some i) av h h2 (fun _ j hj => by cases hj; exact hi)
  rw [hx] at s
  exact s.inv_panic

/-! ## T3 free functions: the heap does not count at all -/

/-- **T3** (free functions): on ANY two heaps (and whatever `this` is) a free function returns the same
value and leaves both heaps alone, or appends the same object to both and returns the handle of the
slot it landed in -/
theorem exec_fn_heap_independent : ∀ (f : FuncDef), (none, f) ∈ covered →
    ∀ (fs : Fs) (this : Option Nat) (av : ArgVec) (h h2 : Heap) (v : Val) (h' : Heap),
    exec fs f.path this av h = .ok (v, h') →
    (h' = h ∧ exec fs f.path this av h2 = .ok (v, h2)) ∨
    (∃ o : Obj, h' = h ++ [o] ∧ v = .obj h.length o.cls ∧
      exec fs f.path this av h2 = .ok (.obj h2.length o.cls, h2 ++ [o])) := by
  intro f he fs this av h h2 v h' hx
  have s := covered_local _ he fs this av h h2 (fun hm => by cases hm)
  rw [hx] at s
  rcases s.inv_ok with ⟨rfl, h2x⟩ | ⟨-, o, rfl, rfl, h2x⟩ | ⟨hm, -⟩
  · exact .inl ⟨rfl, h2x⟩
  · exact .inr ⟨o, rfl, rfl, h2x⟩
  · cases hm

/-- **T3** (free functions), as asked: on two heaps of the same length a free function returns the
same value and appends the same objects (none, or one) -/
theorem exec_fn_same_length : ∀ (f : FuncDef), (none, f) ∈ covered →
    ∀ (fs : Fs) (this : Option Nat) (av : ArgVec) (h h2 : Heap) (v : Val) (h' : Heap),
    h.length = h2.length → exec fs f.path this av h = .ok (v, h') →
    ∃ d : List Obj, d.length ≤ 1 ∧ h' = h ++ d ∧ exec fs f.path this av h2 = .ok (v, h2 ++ d) := by
  intro f he fs this av h h2 v h' hl hx
  rcases exec_fn_heap_independent f he fs this av h h2 v h' hx with ⟨rfl, h2x⟩ | ⟨o, rfl, rfl, h2x⟩
  · exact ⟨[], by simp, by simp, by simpa using h2x⟩
  · exact ⟨[o], by simp, rfl, by rw [hl]; exact h2x⟩

theorem exec_fn_err_heap_independent : ∀ (f : FuncDef), (none, f) ∈ covered →
    ∀ (fs : Fs) (this : Option Nat) (av : ArgVec) (h h2 : Heap) (e : ErrKind) (l : Loc),
    exec fs f.path this av h = .err e l → exec fs f.path this av h2 = .err e l := by
  intro f he fs this av h h2 e l hx
  have s := covered_local _ he fs this av h h2 (fun hm => by cases hm)
  rw [hx] at s
  exact s.inv_err

theorem exec_fn_panic_heap_independent : ∀ (f : FuncDef), (none, f) ∈ covered →
    ∀ (fs : Fs) (this : Option Nat) (av : ArgVec) (h h2 : Heap) (site : String),
    exec fs f.path this av h = .panic site → exec fs f.path this av h2 = .panic site := by
  intro f he fs this av h h2 site hx
  have s := covered_local _ he fs this av h h2 (fun hm => by cases hm)
  rw [hx] at s
  exact s.inv_panic

/-! ## T4 calls on different objects commute -/

/-- **T4**: if `f` on object `i` and then `g` on object `j ≠ i` succeed with values `v1`, `v2` and
final heap `h12`, then `g` on `j` and then `f` on `i` succeed with the same values and the same final
heap -/
theorem two_objects_commute : ∀ (ci cj : String) (f g : FuncDef),
    (some ci, f) ∈ covered → (some cj, g) ∈ covered →
    ∀ (fs : Fs) (i j : Nat) (av aw : ArgVec) (h h1 h12 : Heap) (v1 v2 : Val), i ≠ j →
    exec fs f.path (some i) av h = .ok (v1, h1) → exec fs g.path (some j) aw h1 = .ok (v2, h12) →
    ∃ h2, exec fs g.path (some j) aw h = .ok (v2, h2) ∧ exec fs f.path (some i) av h2 = .ok (v1, h12) := by
  intro ci cj f g hf hg fs i j av aw h h1 h12 v1 v2 hij hA hB
  have hji : j ≠ i := fun e => hij e.symm
  -- the first call leaves slot `j` alone
  have h1j : h1[j]? = h[j]? := by
    rcases exec_method_frame ci f hf fs i av h h v1 h1 rfl hA with ⟨rfl, -⟩ | ⟨oa, -, -, rfl, -⟩
    · rfl
    · exact List.getElem?_set_ne hij
  -- so the second call does the same on `h`
  rcases exec_method_frame cj g hg fs j aw h1 h v2 h12 h1j hB with ⟨rfl, hB'⟩ | ⟨ob, hj1, hj, rfl, hB'⟩
  · exact ⟨h, hB', hA⟩
  · refine ⟨h.set j ob, hB', ?_⟩
    have hi2 : h[i]? = (h.set j ob)[i]? := (List.getElem?_set_ne hji).symm
    rcases exec_method_frame ci f hf fs i av h (h.set j ob) v1 h1 hi2 hA with
      ⟨rfl, hA'⟩ | ⟨oa, -, -, rfl, hA'⟩
    · exact hA'
    · rw [hA', List.set_comm _ _ hji]

/-! ## the hypotheses are satisfiable: concrete heaps with several objects -/
section examples

/-- two `io::BufIO` objects; one byte of the second has been read -/
def twoBufs : Heap := [.bufio [1, 2, 3] 0, .bufio [4, 5, 6] 1]

/-- a longer heap with other neighbours and the same object in slot 1 -/
def otherHeap : Heap :=
  [.vxlan ⟨⟨1, 2⟩, ⟨3, 4⟩, 5, false⟩, .bufio [4, 5, 6] 1, .erspan1 ⟨1, 2, true⟩]

/-- the call used below: `read(1)` on the second buffer returns the byte `5` and advances that buffer -/
example : exec [] "io::BufIO.read" (some 1) ⟨[.u64 1], []⟩ twoBufs
    = .ok (.str [5], [.bufio [1, 2, 3] 0, .bufio [4, 5, 6] 2]) := rfl

/-- T1 on it: the third shape (slot `this` replaced) -/
example : ∃ (i : Nat) (o : Obj), some 1 = some i ∧ i < twoBufs.length ∧
    ([.bufio [1, 2, 3] 0, .bufio [4, 5, 6] 2] : Heap) = twoBufs.set i o := by
  have := exec_heap_shape (some "io::BufIO", sig_io_BufIO_read) (by decide) [] (some 1)
    ⟨[.u64 1], []⟩ twoBufs (.str [5]) [.bufio [1, 2, 3] 0, .bufio [4, 5, 6] 2] rfl
  rcases this with h | ⟨o, h, -⟩ | h
  · exact absurd h (by decide)
  · exact absurd (congrArg List.length h) (by simp [twoBufs])
  · exact h

/-- T1, second shape: `io::bufio("\x07")` appends a buffer to `twoBufs` and returns handle 2 -/
example : exec [] "io::bufio" none ⟨[], [.str [7]]⟩ twoBufs
    = .ok (.obj 2 "io::BufIO", twoBufs ++ [.bufio [7] 0]) := rfl

/-- T2 on it: the first buffer is untouched -/
example : ([.bufio [1, 2, 3] 0, .bufio [4, 5, 6] 2] : Heap)[0]? = twoBufs[0]? :=
  (exec_other_objects_untouched (some "io::BufIO", sig_io_BufIO_read) (by decide) [] (some 1)
    ⟨[.u64 1], []⟩ twoBufs _ _ rfl).1 0 (by decide) (by decide)

/-- T3 on it: the same call on `otherHeap` (other neighbours, other length, same slot 1) returns the
same byte and leaves the same buffer in slot 1 -/
example : ∃ h2', exec [] "io::BufIO.read" (some 1) ⟨[.u64 1], []⟩ otherHeap = .ok (.str [5], h2') ∧
    h2'[1]? = some (.bufio [4, 5, 6] 2) :=
  exec_depends_only_on_this "io::BufIO" sig_io_BufIO_read (by decide) [] 1 ⟨[.u64 1], []⟩
    twoBufs otherHeap _ _ rfl rfl

/-- T3 for a method that only reads its object: `vxlan::Vxlan.dgram` on slot 0 of `otherHeap` and on
a heap holding just that session -/
example : ∃ v h', exec [] "vxlan::Vxlan.dgram" (some 0) ⟨[.pkt (Packet.ofFrame [1, 2, 3])], []⟩ otherHeap
      = .ok (v, h') ∧
    ∃ h2', exec [] "vxlan::Vxlan.dgram" (some 0) ⟨[.pkt (Packet.ofFrame [1, 2, 3])], []⟩
      [.vxlan ⟨⟨1, 2⟩, ⟨3, 4⟩, 5, false⟩] = .ok (v, h2') := by
  refine ⟨_, _, rfl, ?_⟩
  obtain ⟨h2', hx, -⟩ := exec_depends_only_on_this "vxlan::Vxlan" sig_vxlan_Vxlan_dgram (by decide) []
    0 ⟨[.pkt (Packet.ofFrame [1, 2, 3])], []⟩ otherHeap [.vxlan ⟨⟨1, 2⟩, ⟨3, 4⟩, 5, false⟩] _ _ rfl rfl
  exact ⟨h2', hx⟩

/-- T3 (failures): reading from a slot that holds a session panics on the downcast, on both heaps -/
example : exec [] "io::BufIO.read" (some 0) ⟨[.u64 1], []⟩ [.vxlan ⟨⟨1, 2⟩, ⟨3, 4⟩, 5, false⟩]
    = .panic "downcast" :=
  exec_method_panic_depends_only_on_this "io::BufIO" sig_io_BufIO_read (by decide) [] 0
    ⟨[.u64 1], []⟩ otherHeap _ _ rfl rfl

/-- T3 (free functions): `vxlan::session` run on `twoBufs` and on the empty heap appends the same
session; the handles differ as the lengths do -/
example : exec [] "vxlan::session" none ⟨[.sock4 1 2, .sock4 3 4, .u32 5, .bool false], []⟩ []
    = .ok (.obj 0 "vxlan::Vxlan", [.vxlan ⟨⟨1, 2⟩, ⟨3, 4⟩, 5, false⟩]) := by
  rcases exec_fn_heap_independent sig_vxlan_session (by decide) [] none
    ⟨[.sock4 1 2, .sock4 3 4, .u32 5, .bool false], []⟩ twoBufs []
    (.obj 2 "vxlan::Vxlan") (twoBufs ++ [.vxlan ⟨⟨1, 2⟩, ⟨3, 4⟩, 5, false⟩]) rfl with ⟨h, -⟩ | ⟨o, h, -, hx⟩
  · exact absurd (congrArg List.length h) (by simp [twoBufs])
  · have ho : o = .vxlan ⟨⟨1, 2⟩, ⟨3, 4⟩, 5, false⟩ := by
      have := List.append_cancel_left h
      simpa using this.symm
    subst ho
    exact hx

/-- T3 (free functions, same length): `std::be16(258)` on two different heaps of length 2 -/
example : ∃ d : List Obj, d.length ≤ 1 ∧ twoBufs = twoBufs ++ d ∧
    exec [] "std::be16" none ⟨[.u64 258], []⟩ [.erspan1 ⟨1, 2, true⟩, .bufio [] 0]
      = .ok (.str [1, 2], [.erspan1 ⟨1, 2, true⟩, .bufio [] 0] ++ d) :=
  exec_fn_same_length sig_std_be16 (by decide) [] none ⟨[.u64 258], []⟩ twoBufs
    [.erspan1 ⟨1, 2, true⟩, .bufio [] 0] _ _ rfl rfl

/-- T4: `read(1)` on the second buffer then `read_all()` on the first, and the other way round -/
example : ∃ h2, exec [] "io::BufIO.read_all" (some 0) ⟨[], []⟩ twoBufs = .ok (.str [1, 2, 3], h2) ∧
    exec [] "io::BufIO.read" (some 1) ⟨[.u64 1], []⟩ h2
      = .ok (.str [5], [.bufio [1, 2, 3] 3, .bufio [4, 5, 6] 2]) :=
  two_objects_commute "io::BufIO" "io::BufIO" sig_io_BufIO_read sig_io_BufIO_read_all
    (by decide) (by decide) [] 1 0 ⟨[.u64 1], []⟩ ⟨[], []⟩ twoBufs
    [.bufio [1, 2, 3] 0, .bufio [4, 5, 6] 2] _ _ _ (by decide) rfl rfl

end examples

end Resynth.C14Heap
