import Resynth.Lemmas.LitNum
import Resynth.Lemmas.LitQuad
import Resynth.Lemmas.LitSock
import Resynth.Lemmas.LitDecode
/-!
# C17 — Literals denote exactly what is written, or are rejected

A decimal or `0x`-hexadecimal integer literal denotes exactly that value over the whole 64-bit
range, a dotted quad exactly those four octets, `true`/`false` the booleans, and `ip:port` or
`ip/port` the socket address with exactly that address and port.  A literal that has no such
value — an integer beyond 64 bits, a negative number, a quad with an out-of-range or zero-padded
octet, a port above 65535, a string whose closed `|..|` section holds an odd number of hex digits
or a non-hex character — is rejected.

The reference reading of the syntaxes is `Resynth.Spec.{decValue, hexValue, quadText, quadValue}`
(`Resynth/Spec/Literal.lean`); hex sections of string literals are rendered by
`Resynth.Spec.renderItems` (`Resynth/Spec/StrLit.lean`).
-/
namespace Resynth.C17
open Resynth Resynth.Spec

/-! ## 1–3 integers -/

/-- A non-empty decimal digit string denotes its positional value if that fits 64 bits and is
rejected otherwise. -/
theorem dec_exact (ds : List Char) (hne : ds ≠ []) (hd : ∀ c ∈ ds, isDec c = true) :
    parseU64Dec (String.ofList ds) =
      if decValue ds < 2 ^ 64 then some (decValue ds) else none :=
  LitNum.parseU64Dec_eq ds hne hd

/-- A negative number is rejected (whatever follows the minus sign). -/
theorem neg_rejected (ds : List Char) : parseU64Dec (String.ofList ('-' :: ds)) = none :=
  LitNum.parseU64Dec_neg ds

/-- `0x` followed by a non-empty hexadecimal digit string (either letter case) denotes its
positional value if that fits 64 bits and is rejected otherwise. -/
theorem hex_exact (hs : List Char) (hne : hs ≠ []) (hh : ∀ c ∈ hs, isHex c = true) :
    parseU64Hex (String.ofList ('0' :: 'x' :: hs)) =
      if hexValue hs < 2 ^ 64 then some (hexValue hs) else none :=
  LitNum.parseU64Hex_eq hs hne hh

theorem hex_empty_rejected : parseU64Hex "0x" = none := by decide

/-- the positional reading of `decValue`/`hexValue`, on record -/
theorem decValue_positional (c : Char) (ds : List Char) :
    decValue (c :: ds) = (c.toNat - 48) * 10 ^ ds.length + decValue ds := rfl

theorem decValue_horner (ds : List Char) (c : Char) :
    decValue (ds ++ [c]) = decValue ds * 10 + (c.toNat - 48) := LitNum.decValue_snoc ds c

theorem hexValue_positional (c : Char) (hs : List Char) :
    hexValue (c :: hs) = hexDigitVal c * 16 ^ hs.length + hexValue hs := rfl

example : parseU64Dec "18446744073709551615" = some 18446744073709551615 := by decide
example : parseU64Dec "18446744073709551616" = none := by decide
example : parseU64Dec "0000000000000000000000042" = some 42 := by decide
example : decValue "18446744073709551615".toList = 2 ^ 64 - 1 := by decide
example : parseU64Dec "-1" = none := neg_rejected ['1']
example : parseU64Hex "0xFFFFFFFFFFFFFFFF" = some 18446744073709551615 := by decide
example : parseU64Hex "0xffffFFFFffffFFFF" = some (2 ^ 64 - 1) := by decide
example : parseU64Hex "0x10000000000000000" = none := by decide
example : hexValue "dEadBeef".toList = 0xdeadbeef := by decide

/-! ## 4 dotted quads -/

/-- What `parseIpv4` accepts is the canonical spelling of four octets, and it denotes them. -/
theorem quad_sound (s : String) (n : Nat) (h : parseIpv4 s = some n) :
    ∃ a b c d, a ≤ 255 ∧ b ≤ 255 ∧ c ≤ 255 ∧ d ≤ 255 ∧
      s = quadText a b c d ∧ n = quadValue a b c d :=
  LitQuad.parseIpv4_some h

/-- Every canonical quad is accepted with its value. -/
theorem quad_complete (a b c d : Nat) (ha : a ≤ 255) (hb : b ≤ 255) (hc : c ≤ 255) (hd : d ≤ 255) :
    parseIpv4 (quadText a b c d) = some (quadValue a b c d) :=
  LitQuad.parseIpv4_canon ha hb hc hd

theorem quad_exact (s : String) (n : Nat) :
    parseIpv4 s = some n ↔
      ∃ a b c d, a ≤ 255 ∧ b ≤ 255 ∧ c ≤ 255 ∧ d ≤ 255 ∧
        s = quadText a b c d ∧ n = quadValue a b c d := by
  constructor
  · exact quad_sound s n
  · rintro ⟨a, b, c, d, ha, hb, hc, hd, rfl, rfl⟩
    exact quad_complete a b c d ha hb hc hd

/-- Four digit strings joined by dots, one of which denotes more than 255: rejected. -/
theorem quad_octet_range_rejected (as bs cs ds : List Char)
    (ha : ∀ c ∈ as, isDec c = true) (hb : ∀ c ∈ bs, isDec c = true)
    (hc : ∀ c ∈ cs, isDec c = true) (hd : ∀ c ∈ ds, isDec c = true)
    (h : decValue as > 255 ∨ decValue bs > 255 ∨ decValue cs > 255 ∨ decValue ds > 255) :
    parseIpv4 (String.ofList (as ++ '.' :: (bs ++ '.' :: (cs ++ '.' :: ds)))) = none :=
  LitQuad.parseIpv4_none_of_octet ha hb hc hd
    (h.imp LitQuad.parseOctet_range <| Or.imp LitQuad.parseOctet_range <|
      Or.imp LitQuad.parseOctet_range LitQuad.parseOctet_range)

/-- Four digit strings joined by dots, one of which is zero-padded: rejected. -/
theorem quad_zero_padded_rejected (as bs cs ds : List Char)
    (ha : ∀ c ∈ as, isDec c = true) (hb : ∀ c ∈ bs, isDec c = true)
    (hc : ∀ c ∈ cs, isDec c = true) (hd : ∀ c ∈ ds, isDec c = true)
    (h : zeroPadded as = true ∨ zeroPadded bs = true ∨ zeroPadded cs = true ∨
      zeroPadded ds = true) :
    parseIpv4 (String.ofList (as ++ '.' :: (bs ++ '.' :: (cs ++ '.' :: ds)))) = none :=
  have z : ∀ {xs}, zeroPadded xs = true → parseOctet xs = none :=
    fun hz => LitQuad.parseOctet_zero_padded_spec hz
  LitQuad.parseIpv4_none_of_octet ha hb hc hd (h.imp z <| Or.imp z <| Or.imp z z)

example : parseIpv4 "255.255.255.255" = some 4294967295 := by decide
example : quadText 255 255 255 255 = "255.255.255.255" ∧ quadValue 255 255 255 255 = 2 ^ 32 - 1 := by
  decide
example : parseIpv4 "10.0.200.7" = some (quadValue 10 0 200 7) := by decide
example : parseIpv4 "256.1.1.1" = none := by decide
example : parseIpv4 "01.2.3.4" = none := by decide
example : parseIpv4 "1.2.3" = none ∧ parseIpv4 "1.2.3.4.5" = none ∧ parseIpv4 "1..3.4" = none := by
  decide
example : parseIpv4 (String.ofList ("1".toList ++ '.' :: ("2".toList ++ '.' :: ("300".toList ++ '.' :: "4".toList)))) = none :=
  quad_octet_range_rejected _ _ _ _ (by decide) (by decide) (by decide) (by decide) (by decide)
example : parseIpv4 (String.ofList ("1".toList ++ '.' :: ("2".toList ++ '.' :: ("3".toList ++ '.' :: "004".toList)))) = none :=
  quad_zero_padded_rejected _ _ _ _ (by decide) (by decide) (by decide) (by decide) (by decide)

/-! ## 5 booleans, and the token level -/

theorem bool_exact (s : String) (b : Bool) :
    parseBool s = some b ↔ (s = "true" ∧ b = true) ∨ (s = "false" ∧ b = false) := by
  unfold parseBool
  by_cases h1 : s = "true"
  · subst h1; cases b <;> simp
  · by_cases h2 : s = "false"
    · subst h2; cases b <;> simp
    · simp [h1, h2]

/-- an integer token is the `u64` it spells, or no literal at all -/
theorem lit_int (t : Tok) (ds : List Char) (hk : t.kind = .intLit) (ht : t.text = String.ofList ds)
    (hne : ds ≠ []) (hd : ∀ c ∈ ds, isDec c = true) :
    litOfToken t = if decValue ds < 2 ^ 64 then some (.u64 (decValue ds)) else none := by
  unfold litOfToken
  rw [hk]
  simp only [ht, dec_exact ds hne hd]
  split <;> rfl

theorem lit_int_neg (t : Tok) (ds : List Char) (hk : t.kind = .intLit)
    (ht : t.text = String.ofList ('-' :: ds)) : litOfToken t = none := by
  unfold litOfToken
  rw [hk]
  simp only [ht, neg_rejected ds, Option.map_none]

theorem lit_hex (t : Tok) (hs : List Char) (hk : t.kind = .hexLit)
    (ht : t.text = String.ofList ('0' :: 'x' :: hs)) (hne : hs ≠ [])
    (hh : ∀ c ∈ hs, isHex c = true) :
    litOfToken t = if hexValue hs < 2 ^ 64 then some (.u64 (hexValue hs)) else none := by
  unfold litOfToken
  rw [hk]
  simp only [ht, hex_exact hs hne hh]
  split <;> rfl

/-- an address token is a literal exactly when its text is a canonical quad, and then it is
that address -/
theorem lit_ip (t : Tok) (v : Lit) (hk : t.kind = .ipv4Lit) :
    litOfToken t = some v ↔
      ∃ a b c d, a ≤ 255 ∧ b ≤ 255 ∧ c ≤ 255 ∧ d ≤ 255 ∧
        t.text = quadText a b c d ∧ v = .ip4 (quadValue a b c d) := by
  unfold litOfToken
  rw [hk]
  simp only [Option.map_eq_some_iff, quad_exact]
  constructor
  · rintro ⟨n, ⟨a, b, c, d, ha, hb, hc, hd, ht, rfl⟩, rfl⟩
    exact ⟨a, b, c, d, ha, hb, hc, hd, ht, rfl⟩
  · rintro ⟨a, b, c, d, ha, hb, hc, hd, ht, rfl⟩
    exact ⟨_, ⟨a, b, c, d, ha, hb, hc, hd, ht, rfl⟩, rfl⟩

theorem lit_bool (t : Tok) (v : Lit) (hk : t.kind = .boolLit) :
    litOfToken t = some v ↔
      (t.text = "true" ∧ v = .bool true) ∨ (t.text = "false" ∧ v = .bool false) := by
  unfold litOfToken
  rw [hk]
  simp only [Option.map_eq_some_iff, bool_exact]
  constructor
  · rintro ⟨b, (⟨ht, rfl⟩ | ⟨ht, rfl⟩), rfl⟩
    · exact Or.inl ⟨ht, rfl⟩
    · exact Or.inr ⟨ht, rfl⟩
  · rintro (⟨ht, rfl⟩ | ⟨ht, rfl⟩)
    · exact ⟨true, Or.inl ⟨ht, rfl⟩, rfl⟩
    · exact ⟨false, Or.inr ⟨ht, rfl⟩, rfl⟩

example : parseBool "true" = some true ∧ parseBool "false" = some false ∧ parseBool "True" = none := by
  decide
example : litOfToken ⟨.intLit, "18446744073709551615", ⟨1, 1⟩⟩ = some (.u64 (2 ^ 64 - 1)) := by decide
example : litOfToken ⟨.intLit, "18446744073709551616", ⟨1, 1⟩⟩ = none := by decide
example : litOfToken ⟨.hexLit, "0xFFFFFFFFFFFFFFFF", ⟨1, 1⟩⟩ = some (.u64 (2 ^ 64 - 1)) := by decide
example : litOfToken ⟨.ipv4Lit, "192.168.0.1", ⟨1, 1⟩⟩ = some (.ip4 0xc0a80001) := by decide
example : litOfToken ⟨.boolLit, "false", ⟨1, 1⟩⟩ = some (.bool false) := by decide

/-! ## 6 socket addresses -/

/-- `ip/port` in the interpreter: with an address on the left and an integral value on the
right the result is the socket address with exactly that address and port; a port above 65535 is
a type error (reported at the location of the right operand). -/
theorem slash_exact (env : Env) (st st1 st2 : PState) (a b : Expr) (av bv : Val) (ip port : Nat)
    (ha : eval env st a = .ok (av, st1)) (hty : av.valType = .ip4) (hip : av.toIp? = some ip)
    (hb : eval env st1 b = .ok (bv, st2)) (hint : bv.valType.isIntegral = true)
    (hport : bv.toNat? = some port) :
    eval env st (.slash a b) =
      if port > 65535 then .err .type_ st2.loc
      else .ok (.sock4 ip port, { st2 with loc := st1.loc }) :=
  LitSock.eval_slash env st st1 st2 a b av bv ip port ha hty hip hb hint hport

/-- the two literal operands: `a.b.c.d/port` -/
theorem slash_literals (env : Env) (st : PState) (l1 l2 : Loc) (ip port : Nat) :
    eval env st (.slash (.lit l1 (.ip4 ip)) (.lit l2 (.u64 port))) =
      if port > 65535 then .err .type_ l2
      else .ok (.sock4 ip port, { st with loc := l1 }) := by
  rw [slash_exact env st { st with loc := l1 } { st with loc := l2 } _ _ (.ip4 ip) (.u64 port) ip port
    (by rw [eval]; rfl) rfl rfl (by rw [eval]; rfl) rfl rfl]

/-- `reduce_sockaddr` itself keeps the address and truncates the port (`as u16`) … -/
theorem colon_sockaddr (port a : Nat) (x l : LR.Node) (s : LR.Stack) :
    LR.reduceSockaddr (.lit (.u64 port) :: x :: .lit (.ip4 a) :: l :: s) =
      .ok (.lit (.sock4 a (port % 65536)) :: l :: s) :=
  LitSock.reduceSockaddr_eq port a x l s

/-- … which is exact for every port that fits 16 bits … -/
theorem colon_sockaddr_exact (port a : Nat) (x l : LR.Node) (s : LR.Stack) (hp : port ≤ 65535) :
    LR.reduceSockaddr (.lit (.u64 port) :: x :: .lit (.ip4 a) :: l :: s) =
      .ok (.lit (.sock4 a port) :: l :: s) := by
  rw [colon_sockaddr, Nat.mod_eq_of_lt (by omega)]

/-- … and a larger port never reaches it.  FINDING (documented): in the `ip:port` form
`reduce_sockaddr` on its own would truncate a port above 65535 (`u as u16`) rather than reject it.
In the model as it stands the state function of `State::Ipv4Colon` (`LR.dispatch`, marked
`FIX(C17)`) checks the range *before* the port is shifted: an integer token after `ip:` is shifted
with exactly its value when that is ≤ 65535 and is a parse error otherwise (also when it does not
even fit 64 bits), so the truncation in `reduceSockaddr` is never exercised. -/
theorem colon_port_range (c : LR.Cfg) (t : Tok) (ds : List Char) (hs : c.state = .ipv4Colon)
    (hk : t.kind = .intLit) (ht : t.text = String.ofList ds) (hne : ds ≠ [])
    (hd : ∀ c ∈ ds, isDec c = true) :
    LR.dispatch c t =
      if decValue ds ≤ 65535 then
        .ok (.shift .reduceSockAddr (.lit (.u64 (decValue ds))), .loc t.loc :: c.stack, c.stmts)
      else .parseError :=
  LitSock.dispatch_ipv4Colon c t ds hs hk ht hne hd

/-- anything but an integer after `ip:` is a parse error -/
theorem colon_needs_int (c : LR.Cfg) (t : Tok) (hs : c.state = .ipv4Colon)
    (hk : t.kind ≠ .intLit) : LR.dispatch c t = .parseError :=
  LitSock.dispatch_ipv4Colon_other c t hs hk

/-- The two parser steps of `ip:port` together: from `State::Ipv4Colon` with the address on top
of the stack, a port token `ds` with value ≤ 65535 is consumed and the following reduction leaves
the socket-address literal with exactly that address and exactly that port; a larger port is a
parse error at the port token. -/
theorem colon_exact (c : LR.Cfg) (t t' : Tok) (ds : List Char) (a : Nat) (l : LR.Node) (s : LR.Stack)
    (hs : c.state = .ipv4Colon) (hst : c.stack = .lit (.ip4 a) :: l :: s)
    (hk : t.kind = .intLit) (ht : t.text = String.ofList ds) (hne : ds ≠ [])
    (hd : ∀ c ∈ ds, isDec c = true) :
    if decValue ds ≤ 65535 then
      ∃ c1, LR.step c t = .ok (c1, true) ∧
        LR.step c1 t' =
          .ok (⟨.reduceLiteralExpr, .lit (.sock4 a (decValue ds)) :: l :: s, c.stmts⟩, false)
    else LR.step c t = .parseError := by
  rw [LitSock.step_ipv4Colon c t ds hs hk ht hne hd]
  split
  · next hp =>
    refine ⟨_, rfl, ?_⟩
    rw [hst, LitSock.step_reduceSockAddr, Nat.mod_eq_of_lt (by omega)]
  · rfl

/-- `let x = 10.0.0.1:<port>;` as the lexer delivers it -/
private def sockToks (port : String) : List Tok :=
  [⟨.kwLet, "", ⟨1, 1⟩⟩, ⟨.ident, "x", ⟨1, 5⟩⟩, ⟨.equals, "", ⟨1, 7⟩⟩, ⟨.ipv4Lit, "10.0.0.1", ⟨1, 9⟩⟩,
   ⟨.colon, "", ⟨1, 17⟩⟩, ⟨.intLit, port, ⟨1, 18⟩⟩, ⟨.semi, "", ⟨1, 23⟩⟩]

example : (match LR.parseAll (sockToks "65535") with
    | .ok [.assign _ "x" (.lit _ (.sock4 ip port))] => ip == quadValue 10 0 0 1 && port == 65535
    | _ => false) = true := by decide
example : (match LR.parseAll (sockToks "65536") with | .parseError 5 => true | _ => false) = true := by
  decide
example (env : Env) (st : PState) :
    eval env st (.slash (.lit ⟨1, 1⟩ (.ip4 167772161)) (.lit ⟨1, 10⟩ (.u64 65535))) =
      .ok (.sock4 167772161 65535, { st with loc := ⟨1, 1⟩ }) := by
  rw [slash_literals]; rfl
example (env : Env) (st : PState) :
    eval env st (.slash (.lit ⟨1, 1⟩ (.ip4 167772161)) (.lit ⟨1, 10⟩ (.u64 65536))) =
      .err .type_ ⟨1, 10⟩ := by
  rw [slash_literals]; rfl
example : LR.reduceSockaddr [.lit (.u64 65535), .loc ⟨1, 18⟩, .lit (.ip4 167772161), .loc ⟨1, 9⟩] =
    .ok [.lit (.sock4 167772161 65535), .loc ⟨1, 9⟩] := colon_sockaddr_exact _ _ _ _ _ (by decide)

/-! ## 7 string literals with a malformed hex section -/

/-- A closed `|…|` section with an odd number of hex digits (in any letter case, with any
fillers between them) makes the literal invalid - wherever the section occurs (`pre` ends
outside a hex section) and whatever follows it. -/
theorem hex_section_odd_rejected (pre post : List Char) (items : List HexItem)
    (he : LitDecode.endsPlain pre = true)
    (hf : ∀ c, HexItem.fill c ∈ items → isFiller c = true)
    (hodd : (nibbles items).length % 2 = 1) :
    decodeStr (String.ofList (pre ++ '|' :: renderItems items ++ '|' :: post)) = none :=
  LitDecode.hex_section_odd_rejected pre post items he hf hodd

/-- A character inside a `|…` section that is not a hex digit, not a separator or white space
and not the closing bar makes the literal invalid, closed or not. -/
theorem hex_section_badchar_rejected (pre body₁ body₂ : List Char) (c : Char)
    (he : LitDecode.endsPlain pre = true) (h₁ : ∀ x ∈ body₁, x ≠ '|')
    (hf : isFiller c = false) (hb : c ≠ '|') (hx : hexVal c = none) :
    decodeStr (String.ofList (pre ++ '|' :: body₁ ++ c :: body₂)) = none :=
  LitDecode.hex_section_badchar_rejected pre body₁ body₂ c he h₁ hf hb hx

/-- both rejections, on the token level -/
theorem hex_section_rejects (t : Tok) (hk : t.kind = .strLit) (pre post : List Char) :
    (∀ items : List HexItem, LitDecode.endsPlain pre = true →
      (∀ c, HexItem.fill c ∈ items → isFiller c = true) → (nibbles items).length % 2 = 1 →
      t.text = String.ofList (pre ++ '|' :: renderItems items ++ '|' :: post) → litOfToken t = none) ∧
    (∀ (body : List Char) (c : Char), LitDecode.endsPlain pre = true → (∀ x ∈ body, x ≠ '|') →
      isFiller c = false → c ≠ '|' → hexVal c = none →
      t.text = String.ofList (pre ++ '|' :: body ++ c :: post) → litOfToken t = none) := by
  constructor
  · intro items he hf hodd ht
    simp only [litOfToken, hk, ht, LitDecode.hex_section_odd_rejected pre post items he hf hodd, Option.map_none]
  · intro body c he h1 hf hb hx ht
    simp only [litOfToken, hk, ht, LitDecode.hex_section_badchar_rejected pre body post c he h1 hf hb hx,
      Option.map_none]

example : decodeStr "ab|41 4|c" = none :=
  hex_section_odd_rejected "ab".toList "c".toList [.nib 4 false, .nib 1 false, .fill ' ', .nib 4 false]
    (by decide) (by intro c hc; simp at hc; subst hc; decide) (by decide)
example : decodeStr "|4g|" = none := by decide
example : decodeStr "|41|x|zz" = none :=
  hex_section_badchar_rejected "|41|x".toList [] "z".toList 'z' (by decide) (by simp) (by decide)
    (by decide) (by decide)

end Resynth.C17
