import Resynth.Lemmas.InterpTrace
import Resynth.Lemmas.InterpSubst
/-!
# C14 — Language semantics: single assignment, explicit imports, ordered evaluation

Model: `Model/Interp.lean` (`addStmt`, `addStmts`, `eval`, `evalArgs`, `evalObjRef`), which
transcribes `src/program.rs`.  Every theorem is for an arbitrary `env : Env` (any library table,
any file system), arbitrary interpreter state and arbitrary syntax trees.

Helper notions (all in `Lemmas/Interp*.lean`):
* `keys regs` — the bound names; `lookupReg` — the model's lookup;
* `evalT`/`evalArgsT` — the evaluator instrumented with the list of `exec` calls (`ExecEv`),
  `ArgsRun` — the left-to-right run of an argument list, `HeapChain` — heap threading;
* `Val.frames` — the frames carried by a `Pkt`/`PktGen` value, `emitVal` — the writer half of an
  expression statement;
* `Expr.subst`/`Stmt.subst` — replace uses of a variable by a literal; `Expr.reloc`, `Expr.erase` —
  change/erase source positions; `Sim`, `ResRel` — equality of states / results up to positions.
-/
namespace Resynth.C14
open Sem

/-! ## 1. single assignment -/

/-- A `let` of a name that is already bound is rejected with `MultipleAssign` at the position of
the `let`; the right-hand side is not evaluated (the result carries no state, so nothing can
have changed). -/
theorem rebind_rejected (env : Env) (st : PState) (loc : Loc) (target : String) (e : Expr)
    (h : target ∈ keys st.regs) :
    addStmt env st (.assign loc target e) = .err (.multipleAssign target) loc := by
  have hs := (lookupReg_isSome_iff st.regs target).2 h
  simp only [addStmt]
  rw [if_pos hs]

/-- Conversely a `let` of a fresh name is never rejected for that reason: it evaluates its
right-hand side once (in the state with `loc` set) and appends the binding. -/
theorem fresh_let (env : Env) (st : PState) (loc : Loc) (target : String) (e : Expr)
    (h : target ∉ keys st.regs) :
    addStmt env st (.assign loc target e) =
      (eval env { st with loc := loc } e >>= fun r => pure { r.2 with regs := r.2.regs ++ [(target, r.1)] }) := by
  have hs : ¬ (lookupReg st.regs target).isSome = true := fun hc => h ((lookupReg_isSome_iff _ _).1 hc)
  simp only [addStmt]
  rw [if_neg hs]

/-- Along any run of statements: names stay distinct, the binding list only grows at the end, and
the value of an existing binding never changes. -/
theorem bind_once (env : Env) (ss : List Stmt) (st st' : PState) (h : addStmts env st ss = .ok st')
    (hn : (keys st.regs).Nodup) :
    (keys st'.regs).Nodup ∧ (∃ ext, st'.regs = st.regs ++ ext) ∧
    ∀ x v, lookupReg st.regs x = some v → lookupReg st'.regs x = some v := by
  obtain ⟨h1, ext, h2⟩ := addStmts_regs env ss st st' h hn
  refine ⟨h1, ⟨ext, h2⟩, ?_⟩
  intro x v hx
  rw [h2, lookupReg_append, hx]; rfl

/-- the initial state has no bindings, so the invariant of `bind_once` holds for whole programs -/
theorem bind_once_program (env : Env) (ss : List Stmt) (st0 st' : PState) (h0 : st0.regs = [])
    (h : addStmts env st0 ss = .ok st') : (keys st'.regs).Nodup :=
  (bind_once env ss st0 st' h (by rw [h0]; exact List.nodup_nil)).1

/-- Two `let`s of the same name in one program: if everything before the second one runs, the
second one is rejected (whatever lies between and after). -/
theorem second_let_rejected (env : Env) (st st1 : PState) (pre mid post : List Stmt) (l1 l2 : Loc)
    (x : String) (e1 e2 : Expr) (h : addStmts env st (pre ++ .assign l1 x e1 :: mid) = .ok st1) :
    addStmts env st (pre ++ .assign l1 x e1 :: mid ++ .assign l2 x e2 :: post) =
      .err (.multipleAssign x) l2 := by
  have hx : x ∈ keys st1.regs := by
    rw [addStmts_append] at h
    obtain ⟨sa, _, h⟩ := Res.bind_eq_ok.1 h
    simp only [addStmts] at h
    obtain ⟨sb, hb, h⟩ := Res.bind_eq_ok.1 h
    obtain ⟨_, v, sc, _, rfl⟩ := addStmt_assign_ok hb
    obtain ⟨ext, hext⟩ := addStmts_regs_ext env mid _ _ h
    rw [hext]
    simp [keys]
  have : pre ++ .assign l1 x e1 :: mid ++ .assign l2 x e2 :: post =
      (pre ++ .assign l1 x e1 :: mid) ++ (.assign l2 x e2 :: post) := by simp
  rw [this, addStmts_append, h]
  simp only [Res.ok_bind, addStmts]
  rw [rebind_rejected env st1 l2 x e2 hx]
  rfl

/-! ## 2. names, modules and members are usable only after their `let` / `import` -/

/-- a reference whose variable is not bound is a `Name` error at the reference -/
theorem use_before_bind_rejected (env : Env) (st : PState) (loc : Loc) (x : String) (rest : List String)
    (h : x ∉ keys st.regs) : eval env st (.ref ⟨loc, [], x :: rest⟩) = .err .name loc := by
  have hn := (lookupReg_eq_none_iff st.regs x).2 h
  simp only [eval, evalObjRef, evalLocalRef, List.length_nil, Nat.lt_irrefl, if_false, hn]
  split <;> rfl

/-- a reference through a module that has not been imported is a `Name` error at the reference -/
theorem use_before_import_rejected (env : Env) (st : PState) (loc : Loc) (m : String) (ms cs : List String)
    (h : m ∉ st.imports) : eval env st (.ref ⟨loc, m :: ms, cs⟩) = .err .name loc := by
  simp [eval, evalObjRef, evalExternRef, h]

/-- calls through such references fail the same way, before any argument is evaluated -/
theorem call_before_bind_rejected (env : Env) (st : PState) (loc : Loc) (x : String) (rest : List String)
    (args : Args) (h : x ∉ keys st.regs) : eval env st (.call ⟨loc, [], x :: rest⟩ args) = .err .name loc := by
  have hn := (lookupReg_eq_none_iff st.regs x).2 h
  have : evalObjRef env { st with loc := loc } ⟨loc, [], x :: rest⟩ = .err .name loc := by
    simp only [evalObjRef, evalLocalRef, List.length_nil, Nat.lt_irrefl, if_false, hn]
    split <;> rfl
  simp only [eval, this]
  rfl

theorem call_before_import_rejected (env : Env) (st : PState) (loc : Loc) (m : String) (ms cs : List String)
    (args : Args) (h : m ∉ st.imports) : eval env st (.call ⟨loc, m :: ms, cs⟩ args) = .err .name loc := by
  have : evalObjRef env { st with loc := loc } ⟨loc, m :: ms, cs⟩ = .err .name loc := by
    simp [evalObjRef, evalExternRef, h]
  simp only [eval, this]
  rfl

/-- a member that the (imported) module does not have is a `Name` error -/
theorem unknown_member_rejected (env : Env) (st : PState) (loc : Loc) (m c : String) (more : List String)
    (hm : m ∈ st.imports) (h : env.lib.get (m ++ "::" ++ c) = none) :
    eval env st (.ref ⟨loc, [m], c :: more⟩) = .err .name loc := by
  simp [eval, evalObjRef, evalExternRef, hm, h]

/-- the same at statement level: the statement fails, nothing is emitted -/
theorem stmt_use_before_bind_rejected (env : Env) (st : PState) (loc : Loc) (x : String) (rest : List String)
    (h : x ∉ keys st.regs) : addStmt env st (.expr (.ref ⟨loc, [], x :: rest⟩)) = .err .name loc := by
  rw [addStmt_expr, use_before_bind_rejected env st loc x rest h]; rfl

/-- Re-importing a module is harmless: only `loc` changes. -/
theorem reimport_noop (env : Env) (st : PState) (loc : Loc) (m : String) (h : m ∈ st.imports) :
    addStmt env st (.imp loc m) = .ok { st with loc := loc } := by
  simp [addStmt, h]

/-- A first import of an existing module appends it; of a non-module fails with `Import`. -/
theorem import_adds (env : Env) (st : PState) (loc : Loc) (m : String) (h : m ∉ st.imports)
    (hl : env.lib.get m = some .module) :
    addStmt env st (.imp loc m) = .ok { st with loc := loc, imports := st.imports ++ [m] } := by
  simp [addStmt, h, hl]

theorem import_unknown_rejected (env : Env) (st : PState) (loc : Loc) (m : String) (h : m ∉ st.imports)
    (hl : env.lib.get m = none) : addStmt env st (.imp loc m) = .err (.import_ m) loc := by
  simp [addStmt, h, hl]

/-! ## 3. statements take effect strictly top to bottom -/

/-- Running `a ++ b` is running `a`, then `b` from the state `a` left. -/
theorem stmts_in_order (env : Env) (st : PState) (a b : List Stmt) :
    addStmts env st (a ++ b) = (addStmts env st a >>= fun st' => addStmts env st' b) :=
  addStmts_append env a b st

/-- An error (or panic) in `a` stops the run before `b`. -/
theorem stmts_error_stops (env : Env) (st : PState) (a b : List Stmt) (e : ErrKind) (l : Loc)
    (h : addStmts env st a = .err e l) : addStmts env st (a ++ b) = .err e l := by
  rw [stmts_in_order, h]; rfl

theorem stmts_panic_stops (env : Env) (st : PState) (a b : List Stmt) (s : String)
    (h : addStmts env st a = .panic s) : addStmts env st (a ++ b) = .panic s := by
  rw [stmts_in_order, h]; rfl

/-! ## 4. call arguments: left to right, each exactly once -/

/-- The instrumented evaluator is the model's evaluator plus a trace. -/
theorem evalT_projects (env : Env) (st : PState) (e : Expr) : (evalT env st e).res = eval env st e :=
  evalT_fst env e st

theorem evalArgsT_projects (env : Env) (st : PState) (a : Args) : (evalArgsT env st a).res = evalArgs env st a :=
  evalArgsT_fst env a st

/-- An argument list evaluates successfully to `(vs, st')` with trace `t` iff it runs left to
right (`ArgsRun`): first argument in `st`, each next one in the state its predecessor left, each
exactly once, the trace being the concatenation of the arguments' traces in source order. -/
theorem args_left_to_right_once (env : Env) (st : PState) (a : Args) (vs : List ArgSpec) (st' : PState)
    (t : List ExecEv) : evalArgsT env st a = ⟨.ok (vs, st'), t⟩ ↔ ArgsRun env st a vs st' t :=
  evalArgsT_ok_iff env a st vs st' t

/-- One step of the above, including failing runs: the first argument is evaluated in `st`; only
if it succeeds are the remaining arguments evaluated, in the state it left; traces concatenate. -/
theorem args_cons (env : Env) (st : PState) (n : Option String) (e : Expr) (rest : Args) :
    evalArgsT env st (.cons n e rest) =
      match evalT env st e with
      | ⟨.ok (v, st1), t1⟩ =>
        (match evalArgsT env st1 rest with
         | ⟨.ok (vs, st2), t2⟩ => ⟨.ok (⟨n, v⟩ :: vs, st2), t1 ++ t2⟩
         | ⟨.err k l, t2⟩ => ⟨.err k l, t1 ++ t2⟩
         | ⟨.panic s, t2⟩ => ⟨.panic s, t1 ++ t2⟩)
      | ⟨.err k l, t1⟩ => ⟨.err k l, t1⟩
      | ⟨.panic s, t1⟩ => ⟨.panic s, t1⟩ :=
  evalArgsT_cons env st n e rest

/-- A successful call expression: the callee is resolved (no `exec`), the arguments run left to
right, then the function body runs once on the heap the last argument left; the trace of the
call is the arguments' trace followed by exactly that one call (post-order). -/
theorem call_trace_postorder (env : Env) (st : PState) (o : ObjRef) (args : Args) (v : Val) (st' : PState)
    (tr : List ExecEv) (h : evalT env st (.call o args) = ⟨.ok (v, st'), tr⟩) :
    ∃ callee path this argv st2 trA f av h',
      evalObjRef env { st with loc := o.loc } o = .ok callee ∧ calleeOf callee = some (path, this) ∧
      ArgsRun env { st with loc := o.loc } args argv st2 trA ∧
      funcOf env path = .ok f ∧ Bind.argvec f argv = .ok av ∧
      exec env.fs f.path this av st2.heap = .ok (v, h') ∧ st' = { st2 with heap := h' } ∧
      tr = trA ++ [⟨f.path, this, av, st2.heap, .ok (v, h')⟩] :=
  evalT_call_ok h

/-- The trace of any call (successful or not) whose callee resolves: the arguments' trace first,
then at most the call itself. -/
theorem call_trace_any (env : Env) (st : PState) (o : ObjRef) (args : Args) (callee : Val)
    (path : String) (this : Option Nat)
    (hc : evalObjRef env { st with loc := o.loc } o = .ok callee) (hp : calleeOf callee = some (path, this)) :
    (evalT env st (.call o args)).trace =
      (evalArgsT env { st with loc := o.loc } args).trace ++
        (match (evalArgsT env { st with loc := o.loc } args).res with
         | .ok (argv, st2) =>
           (match funcOf env path with
            | .ok f => (bindAndExecT env st2 f this argv).trace
            | _ => [])
         | _ => []) :=
  evalT_call_trace env st o args callee path this hc hp

/-- literals, plain references and `nil` perform no `exec` -/
theorem leaves_no_exec (env : Env) (st : PState) :
    (evalT env st .nil).trace = [] ∧ (∀ l v, (evalT env st (.lit l v)).trace = []) ∧
    (∀ o, (evalT env st (.ref o)).trace = []) :=
  ⟨rfl, fun _ _ => rfl, fun o => evalT_ref_trace env st o⟩

/-- Every recorded event is a genuine `exec` call, and the heap is threaded: in a successful
evaluation each `exec` receives the heap returned by the previous one (the first the initial
heap) and the final heap is the one returned by the last. -/
theorem heap_threaded (env : Env) (st : PState) (e : Expr) (v : Val) (st' : PState) (tr : List ExecEv)
    (h : evalT env st e = ⟨.ok (v, st'), tr⟩) : Faithful env tr ∧ HeapChain st.heap tr st'.heap := by
  have := evalT_inv env e st
  rw [h] at this
  exact this

/-- The same for runs that fail: the heap is threaded through all calls made, and a failing
`exec` is the last call made. -/
theorem heap_threaded_any (env : Env) (st : PState) (e : Expr) :
    Faithful env (evalT env st e).trace ∧ HeapChainPre st.heap (evalT env st e).trace := by
  have h := evalT_inv env e st
  refine ⟨h.1, ?_⟩
  have h2 := h.2
  rcases hr : (evalT env st e).res with ⟨v, st'⟩ | _ | _
  · rw [hr] at h2; exact h2.pre
  · rw [hr] at h2; exact h2
  · rw [hr] at h2; exact h2

/-! ## 5. a let-bound value is computed at its `let` and can be emitted later -/

/-- Emitting a bound name `x ↦ v` performs no `exec`, and the statement is exactly "hand `v` to the
writer": it does not depend on the library, the file system or the heap. -/
theorem let_value_frozen (env : Env) (st : PState) (l : Loc) (x : String) (v : Val)
    (hx : lookupReg st.regs x = some v) :
    (evalT env st (.ref ⟨l, [], [x]⟩)).trace = [] ∧
    eval env st (.ref ⟨l, [], [x]⟩) = .ok (v, { st with loc := l }) ∧
    addStmt env st (.expr (.ref ⟨l, [], [x]⟩)) = emitVal { st with loc := l } v := by
  refine ⟨evalT_ref_trace env st _, eval_ref_var env st l x v hx, ?_⟩
  rw [addStmt_expr, eval_ref_var env st l x v hx]
  rfl

/-- …and, when it succeeds, leaves heap, bindings and imports unchanged and appends exactly the
frames of `v`, in order. -/
theorem let_value_frozen_frames (env : Env) (st st' : PState) (l : Loc) (x : String) (v : Val)
    (hx : lookupReg st.regs x = some v) (h : addStmt env st (.expr (.ref ⟨l, [], [x]⟩)) = .ok st') :
    st'.heap = st.heap ∧ st'.regs = st.regs ∧ st'.imports = st.imports ∧
    st'.emitted.map (·.2) = st.emitted.map (·.2) ++ v.frames := by
  rw [(let_value_frozen env st l x v hx).2.2] at h
  obtain ⟨h1, h2, h3, _, h5⟩ := emitVal_ok h
  exact ⟨h3, h1, h2, h5⟩

/-- the statements `x₁; x₂; …` for a list of (position, name, value) uses -/
def useStmts (uses : List (Loc × String × Val)) : List Stmt :=
  uses.map (fun u => Stmt.expr (.ref ⟨u.1, [], [u.2.1]⟩))

theorem useStmts_eq (env : Env) : ∀ (uses : List (Loc × String × Val)) (st : PState),
    (∀ u ∈ uses, lookupReg st.regs u.2.1 = some u.2.2) →
    addStmts env st (useStmts uses) = uses.foldlM (fun s u => emitVal { s with loc := u.1 } u.2.2) st
  | [], _, _ => rfl
  | u :: us, st, h => by
    simp only [useStmts, List.map_cons, addStmts, List.foldlM_cons]
    rw [(let_value_frozen env st u.1 u.2.1 u.2.2 (h u (List.mem_cons_self ..))).2.2]
    refine Res.bind_congr_ok ?_
    intro st1 h1
    have hr : st1.regs = st.regs := (emitVal_ok h1).1
    exact useStmts_eq env us st1 (fun u' hu' => by rw [hr]; exact h u' (List.mem_cons_of_mem _ hu'))

/-- Any sequence of uses of bound names — any order, any repetition — is independent of the
library, file system and heap (the run is a fold of `emitVal` over the bound values), and when it
succeeds it leaves heap/bindings/imports unchanged and emits exactly the concatenation, in
statement order, of the bound values' frames. -/
theorem emit_any_order (env : Env) (uses : List (Loc × String × Val)) (st : PState)
    (h : ∀ u ∈ uses, lookupReg st.regs u.2.1 = some u.2.2) :
    addStmts env st (useStmts uses) = uses.foldlM (fun s u => emitVal { s with loc := u.1 } u.2.2) st ∧
    ∀ st', addStmts env st (useStmts uses) = .ok st' →
      st'.heap = st.heap ∧ st'.regs = st.regs ∧ st'.imports = st.imports ∧
      st'.emitted.map (·.2) = st.emitted.map (·.2) ++ uses.flatMap (fun u => u.2.2.frames) := by
  refine ⟨useStmts_eq env uses st h, ?_⟩
  intro st' hok
  rw [useStmts_eq env uses st h] at hok
  clear h
  induction uses generalizing st with
  | nil =>
    simp only [List.foldlM_nil, Res.pure_eq, Res.ok.injEq] at hok
    subst hok; simp
  | cons u us ih =>
    simp only [List.foldlM_cons] at hok
    obtain ⟨st1, h1, h2⟩ := Res.bind_eq_ok.1 hok
    obtain ⟨a1, a2, a3, _, a5⟩ := emitVal_ok h1
    obtain ⟨b1, b2, b3, b4⟩ := ih st1 h2
    refine ⟨b1.trans a3, b2.trans a1, b3.trans a2, ?_⟩
    rw [b4, a5]
    simp

/-- independence from the environment, stated directly -/
theorem emit_any_order_env_indep (env env' : Env) (uses : List (Loc × String × Val)) (st : PState)
    (h : ∀ u ∈ uses, lookupReg st.regs u.2.1 = some u.2.2) :
    addStmts env st (useStmts uses) = addStmts env' st (useStmts uses) := by
  rw [useStmts_eq env uses st h, useStmts_eq env' uses st h]

/-! ## 6. inlining a let-bound plain value -/

/-- Replacing every use of `x` by the literal it is bound to (at the position of the use) does
not change evaluation at all: same value, same state, same errors at the same positions. -/
theorem inline_pure_expr (env : Env) (st : PState) (x : String) (lit : Lit) (e : Expr)
    (h : lookupReg st.regs x = some (Val.ofLit lit)) : eval env st (e.subst x lit) = eval env st e :=
  eval_subst env x lit e st h

/-- With arbitrary positions (`r` renames every position of the tree, including those of the
inserted literals) and from states that agree up to `loc`/warning positions: same value; the
resulting states agree on now, regs, imports, heap, wr, emitted (`Sim`); errors have the same
kind (positions may differ); panics are the same. -/
theorem inline_pure_expr_any_loc (env : Env) (r : Loc → Loc) (st st' : PState) (x : String) (lit : Lit)
    (e : Expr) (hs : Sim (fun _ => False) st st') (h : lookupReg st'.regs x = some (Val.ofLit lit)) :
    ResRel (VSim (fun _ => False)) (eval env st (e.substR r x lit)) (eval env st' e) := by
  have h1 := eval_sim env r (e.subst x lit) st st' hs (fun _ hf => hf.elim)
  rw [eval_subst env x lit e st' h] at h1
  exact h1

/-- what `Sim` with nothing skipped says -/
theorem sim_full {a b : PState} (h : Sim (fun _ => False) a b) :
    a.now = b.now ∧ a.regs = b.regs ∧ a.imports = b.imports ∧ a.heap = b.heap ∧ a.wr = b.wr ∧
    a.emitted = b.emitted ∧ a.warnings.length = b.warnings.length :=
  ⟨h.now, h.regsEq (fun _ hf => hf), h.imports, h.heap, h.wr, h.emitted, h.nwarn⟩

/-- Statement level, exact form: in a program `let x = lit; rest`, replacing the uses of `x` in
`rest` by `lit` gives literally the same run (no hypothesis: if the `let` fails both sides fail
alike). -/
theorem inline_pure (env : Env) (st : PState) (l l' : Loc) (x : String) (lit : Lit) (rest : List Stmt) :
    addStmts env st (.assign l x (.lit l' lit) :: rest.map (Stmt.subst x lit)) =
    addStmts env st (.assign l x (.lit l' lit) :: rest) := by
  simp only [addStmts]
  refine Res.bind_congr_ok ?_
  intro st1 h1
  obtain ⟨hf, v, st2, hv, rfl⟩ := addStmt_assign_ok h1
  simp only [eval, Res.ok.injEq, Prod.mk.injEq] at hv
  apply addStmts_subst
  simp only
  rw [lookupReg_append, (lookupReg_eq_none_iff _ _).2 hf, lookupReg_cons, if_pos rfl, ← hv.1]
  rfl

/-- Statement level, arbitrary positions: from a state where `x` is bound to the literal's
value, `rest` with uses of `x` replaced and every position changed runs to a related result:
same outcome class, and on success the same `emitted`, `wr`, heap, bindings, imports, clock. -/
theorem inline_pure_any_loc (env : Env) (r : Loc → Loc) (st st' : PState) (x : String) (lit : Lit)
    (rest : List Stmt) (hs : Sim (fun _ => False) st st')
    (h : lookupReg st'.regs x = some (Val.ofLit lit)) :
    ResRel (Sim (fun _ => False)) (addStmts env st (rest.map (Stmt.substR r x lit))) (addStmts env st' rest) := by
  have h1 := addStmts_sim env r (rest.map (Stmt.subst x lit)) hs (fun _ _ _ hf => hf.elim)
  rw [addStmts_subst env x lit rest st' h, List.map_map] at h1
  exact h1

/-- consequences of a related pair of runs: the observable output agrees -/
theorem related_runs_output {skip : String → Prop} {a b : Res PState} (h : ResRel (Sim skip) a b) :
    a.cls = b.cls ∧ ∀ sa sb, a = .ok sa → b = .ok sb →
      sa.emitted = sb.emitted ∧ sa.wr = sb.wr ∧ sa.heap = sb.heap ∧ sa.now = sb.now ∧
      sa.imports = sb.imports ∧ sa.warnings.length = sb.warnings.length := by
  refine ⟨h.cls_eq, ?_⟩
  rintro sa sb rfl rfl
  cases h with
  | ok hab => exact ⟨hab.emitted, hab.wr, hab.heap, hab.now, hab.imports, hab.nwarn⟩

/-- Source positions are unobservable: two programs that differ only in positions (`Stmt.erase`
agrees) run to related results from related states. -/
theorem positions_unobservable (env : Env) (ss ss' : List Stmt) (st st' : PState)
    (he : ss.map Stmt.erase = ss'.map Stmt.erase) (hs : Sim (fun _ => False) st st') :
    ResRel (Sim (fun _ => False)) (addStmts env st ss) (addStmts env st' ss') :=
  addStmts_sim_erase env he hs (fun _ _ _ hf => hf.elim)

/-! ## non-vacuity -/

section Examples

def exLib : Lib := ⟨[
  ("text", .module),
  ("text::concat", .func ⟨"text::concat", "concat", .str, [], .str⟩),
  ("io", .module),
  ("io::BufIO", .cls),
  ("io::BufIO.read", .func ⟨"io::BufIO.read", "read", .str, [⟨"bytes", .positional .u64⟩], .void⟩),
  ("io::bufio", .func ⟨"io::bufio", "bufio", .obj, [], .str⟩)]⟩
def exEnv : Env := ⟨exLib, []⟩
def L (n : Nat) : Loc := ⟨1, n⟩

/-- `b.read(n)` -/
def readE (l : Nat) (n : Expr) : Expr := .call ⟨L l, [], ["b", "read"]⟩ (.cons none n .nil)

/-- `import io; import text; let b = io::bufio("abcd"); let n = 1;
    let s = text::concat(b.read(n), b.read(2));` -/
def exProg : List Stmt := [
  .imp (L 1) "io", .imp (L 2) "text",
  .assign (L 3) "b" (.call ⟨L 4, ["io"], ["bufio"]⟩ (.cons none (.lit (L 5) (.str [97, 98, 99, 100])) .nil)),
  .assign (L 6) "n" (.lit (L 7) (.u64 1)),
  .assign (L 8) "s" (.call ⟨L 9, ["text"], ["concat"]⟩
     (.cons none (readE 10 (.ref ⟨L 11, [], ["n"]⟩)) (.cons none (readE 12 (.lit (L 13) (.u64 2))) .nil)))]

def regsOf : Res PState → List (String × Val) | .ok s => s.regs | _ => []
def heapOf : Res PState → Heap | .ok s => s.heap | _ => []

/-- the buffer advances in source order: first argument reads "a", second reads "bc" -/
example : regsOf (addStmts exEnv {} exProg) =
    [("b", .obj 0 "io::BufIO"), ("n", .u64 1), ("s", .str [97, 98, 99])] := by decide
example : heapOf (addStmts exEnv {} exProg) = [.bufio [97, 98, 99, 100] 3] := by decide

/-- the trace of the last statement's call: read, read, concat — with the heap threaded -/
def stEx : PState :=
  { ({} : PState) with
    regs := [("b", .obj 0 "io::BufIO"), ("n", .u64 1)]
    imports := ["io", "text"]
    heap := [.bufio [97, 98, 99, 100] 0] }
example : ((evalT exEnv stEx
    (.call ⟨L 9, ["text"], ["concat"]⟩
     (.cons none (readE 10 (.ref ⟨L 11, [], ["n"]⟩)) (.cons none (readE 12 (.lit (L 13) (.u64 2))) .nil)))).trace.map
      (fun (ev : ExecEv) => (ev.path, ev.heapIn))) =
    [("io::BufIO.read", [.bufio [97, 98, 99, 100] 0]), ("io::BufIO.read", [.bufio [97, 98, 99, 100] 1]),
     ("text::concat", [.bufio [97, 98, 99, 100] 3])] := by decide

/-- rebinding: `let n = 2;` after the program is rejected (hypothesis of `rebind_rejected`) -/
example : "n" ∈ keys (regsOf (addStmts exEnv {} exProg)) := by decide
/-- `second_let_rejected` applies: the prefix runs -/
example : (addStmts exEnv {} exProg).cls = none := by decide
/-- use before bind / import: hypotheses satisfiable -/
example : "zz" ∉ keys (regsOf (addStmts exEnv {} exProg)) := by decide
example : "text" ∉ ({} : PState).imports := by decide
/-- inlining `n`: the substituted program differs syntactically yet runs identically -/
example : regsOf (addStmts exEnv {} ((exProg.take 4) ++ (exProg.drop 4).map (Stmt.subst "n" (.u64 1)))) =
    regsOf (addStmts exEnv {} exProg) := by decide

/-- emitting a bound packet twice and in any order: hypotheses of `emit_any_order` -/
def pA : Packet := Packet.ofFrame [1, 2, 3]
def pB : Packet := Packet.ofFrame [4, 5]
def stPk : PState := { regs := [("a", .pkt pA), ("g", .pktgen [pB, pA])] }
def usesEx : List (Loc × String × Val) := [(L 1, "g", .pktgen [pB, pA]), (L 2, "a", .pkt pA), (L 3, "a", .pkt pA)]
example : ∀ u ∈ usesEx, lookupReg stPk.regs u.2.1 = some u.2.2 := by decide
def emittedOf : Res PState → List Bytes | .ok s => s.emitted.map (·.2) | _ => []
example : emittedOf (addStmts exEnv stPk (useStmts usesEx)) = [[4, 5], [1, 2, 3], [1, 2, 3], [1, 2, 3]] := by
  decide

end Examples

end Resynth.C14
