import Resynth.Lemmas.InterpInvTime
import Resynth.Lemmas.InterpInvCli
import Resynth.Lemmas.InterpInvExample
/-!
# C12 — Record timestamps never go backwards and time jumps are exact

Model: `updateTime`, `addStmt`, `addStmts` (Model/Interp.lean: the clock `now` in nanoseconds,
advanced by `bit_time` of every packet of a statement *before* its records are written, and by
`TimeJump` values), `Pcap.recHdr` (seconds / nanoseconds split), the four `time::jump_*` arms of
`exec` (Model/Stdlib.lean).  `emitted` is the list of `(timestamp, frame)` handed to the writer;
C01 shows the file consists of exactly these records.  Reference reader: `Spec.parsePcap`.

All statements are over arbitrary statement lists, states, environments.  The pcap limit enters
only where the 32-bit seconds field is decoded (`t < 2^32 · 10^9`).
-/
namespace Resynth.C12
open Spec

/-! ## 1. seconds / nanoseconds split -/

/-- For every time below 2^32 s: the two header fields, as the reader decodes them, recombine to
exactly `t`, and the nanosecond part is below one second. -/
theorem split_exact (t len : Nat) (rest : Bytes) (ht : t < 4294967296 * 1000000000) :
    le32At (Pcap.recHdr t len ++ rest) 0 * 1000000000 + le32At (Pcap.recHdr t len ++ rest) 4 = t ∧
    le32At (Pcap.recHdr t len ++ rest) 4 < 1000000000 := by
  rw [le32At_recHdr_0, le32At_recHdr_4]
  omega

/-- The nanosecond field is below one second for *every* time (no bound needed). -/
theorem nsec_lt (t len : Nat) (rest : Bytes) : le32At (Pcap.recHdr t len ++ rest) 4 < 1000000000 := by
  rw [le32At_recHdr_4]; omega

/-- File level: the records the reader returns carry exactly the emitted times. -/
theorem decoded_times (rs : List (Nat × Bytes))
    (ht : ∀ r ∈ rs, r.1 < 4294967296 * 1000000000) (hl : ∀ r ∈ rs, r.2.length < 4294967296) :
    ∃ recs, parsePcap (Pcap.header ++ rs.flatMap (fun r => Pcap.record r.1 r.2)) = some (stdHdr, recs) ∧
      recs.map PcapRec.time = rs.map (·.1) ∧ ∀ r ∈ recs, r.nsec < 1000000000 := by
  refine ⟨rs.map recOf, parsePcap_file_mod rs hl, ?_, ?_⟩
  · rw [List.map_map]
    apply List.map_congr_left
    intro r hr
    exact recOf_time r (ht r hr)
  · intro r hr
    simp only [List.mem_map] at hr
    obtain ⟨x, _, rfl⟩ := hr
    exact recOf_nsec_lt x

/-! ## 2. timestamps never decrease -/

/-- Along any run of any statement list from any state whose records are sorted and not later
than the clock (in particular: no records yet), the emitted timestamps are sorted and not later
than the clock. -/
theorem monotone (env : Env) (st st' : PState) (ss : List Stmt)
    (hi : st.emitted.Pairwise (fun a b => a.1 ≤ b.1) ∧ ∀ e ∈ st.emitted, e.1 ≤ st.now)
    (h : addStmts env st ss = .ok st') :
    st'.emitted.Pairwise (fun a b => a.1 ≤ b.1) ∧ (∀ e ∈ st'.emitted, e.1 ≤ st'.now) ∧
      st.emitted <+: st'.emitted ∧ st.now ≤ st'.now :=
  let hi' : TInv st' := TInv.addStmts hi h
  ⟨hi'.1, hi'.2, addStmts_emitted_prefix h, addStmts_now_le h⟩

/-- Whole runs (any outcome, any device budget): the emitted timestamps are sorted. -/
theorem run_monotone (env : Env) (budget : Option Nat) (src : Bytes) :
    (processFile env budget src).emitted.Pairwise (fun a b => a.1 ≤ b.1) := by
  rw [processFile_eq]
  obtain ⟨st, hp, he⟩ := execPlan_cases (env := env) TInv (fun _ _ _ hp hs => hp.addStmt hs) budget (planOf src)
    ⟨by simp [st0], by simp [st0]⟩
  revert he; generalize execPlan env budget (planOf src) = r; intro he
  cases he with
  | stopped o => exact hp.1
  | flushed _ => exact hp.1
  | flushFailed _ => exact hp.1

/-- … and so are the decoded record times of the file of an unlimited run, as long as they stay
below the pcap limit. -/
theorem file_monotone (env : Env) (src : Bytes)
    (ht : ∀ r ∈ (processFile env none src).emitted, r.1 < 4294967296 * 1000000000)
    (hl : ∀ r ∈ (processFile env none src).emitted, r.2.length < 4294967296) :
    ∃ recs, parsePcap (processFile env none src).file = some (stdHdr, recs) ∧
      recs.Pairwise (fun a b => a.time ≤ b.time) ∧ ∀ r ∈ recs, r.nsec < 1000000000 := by
  rw [processFile_none_file]
  refine ⟨_, parsePcap_file_mod _ hl, ?_, ?_⟩
  · rw [List.pairwise_map]
    refine List.Pairwise.imp_of_mem ?_ (run_monotone env none src)
    intro a b ha hb hab
    rw [recOf_time a (ht a ha), recOf_time b (ht b hb)]; exact hab
  · intro r hr
    simp only [List.mem_map] at hr
    obtain ⟨x, _, rfl⟩ := hr
    exact recOf_nsec_lt x

/-! ## 3. strict increase from one emitting statement to the next -/

/-- Statement `s1`, then any statements `mid`, then statement `s2`: every record `s2` emits is
stamped strictly later than every record `s1` emitted (because `bit_time > 0`).  Within one
statement all records carry the same stamp (`stmt_records_same_time`). -/
theorem strict_between_statements (env : Env) (st st1 st2 st3 : PState) (s1 s2 : Stmt) (mid : List Stmt)
    (h1 : addStmt env st s1 = .ok st1) (h2 : addStmts env st1 mid = .ok st2)
    (h3 : addStmt env st2 s2 = .ok st3) :
    ∀ x ∈ st1.emitted.drop st.emitted.length, ∀ y ∈ st3.emitted.drop st2.emitted.length, x.1 < y.1 := by
  obtain ⟨g1, fs1, a1, a2, _⟩ := addStmt_effect_pos h1
  obtain ⟨g3, fs3, b1, b2, b3⟩ := addStmt_effect_pos h3
  have hle := addStmts_now_le h2
  intro x hx y hy
  rw [a2, List.drop_left] at hx
  rw [b2, List.drop_left] at hy
  simp only [List.mem_map] at hx hy
  obtain ⟨f, _, rfl⟩ := hx
  obtain ⟨f', hf', rfl⟩ := hy
  have : 0 < g3 := b3 (by intro hc; rw [hc] at hf'; cases hf')
  simp only; omega

/-- All records of one statement carry the statement's (new) clock value. -/
theorem stmt_records_same_time (env : Env) (st st' : PState) (s : Stmt) (h : addStmt env st s = .ok st') :
    ∀ x ∈ st'.emitted.drop st.emitted.length, x.1 = st'.now := by
  obtain ⟨g, fs, a1, a2, _⟩ := addStmt_effect_pos h
  intro x hx
  rw [a2, List.drop_left] at hx
  simp only [List.mem_map] at hx
  obtain ⟨f, _, rfl⟩ := hx
  exact a1.symm

/-! ## 4. the gap is a function of the statement's value only -/

/-- An expression statement advances the clock by `gapOf v`, where `v` is the value of the
expression: the sum of `bit_time = (len + 24) · 8` over the packets it emits, or the jump
amount — independent of the state it starts from. -/
theorem gap_local (env : Env) (st st' : PState) (e : Expr) (h : addStmt env st (.expr e) = .ok st') :
    ∃ v st1, eval env st e = .ok (v, st1) ∧ st'.now = st.now + gapOf v := by
  obtain ⟨v, st1, h1, h2, _⟩ := addStmt_expr_ok h
  exact ⟨v, st1, h1, h2⟩

/-- what `gapOf` is -/
theorem gapOf_cases (p : Packet) (ps : List Packet) (ns : Nat) :
    gapOf (.pkt p) = (p.frame.length + 24) * 8 ∧
    gapOf (.pktgen ps) = (ps.map (fun p => (p.frame.length + 24) * 8)).sum ∧
    gapOf (.timejump ns) = ns ∧ gapOf .nil = 0 := ⟨rfl, rfl, rfl, rfl⟩

/-- `let` and `import` do not advance the clock. -/
theorem gap_other (env : Env) (st st' : PState) (loc : Loc) (x : String) (e : Expr) (m : String) :
    (addStmt env st (.assign loc x e) = .ok st' → st'.now = st.now) ∧
    (addStmt env st (.imp loc m) = .ok st' → st'.now = st.now) := by
  refine ⟨fun h => ?_, fun h => (addStmt_imp_ok h).1⟩
  obtain ⟨v, st1, h1, h2, _⟩ := addStmt_assign_ok h
  have := (eval_onlyLH env e _ _ h1).1
  subst h2; exact this

/-! ## 5. a time jump shifts every later record by exactly `d` and no earlier one -/

/-- Abstract form.  Run `a`, then `b`; and run `a`, advance the clock by `d` (state transformer
`st ↦ {st with now := st.now + d}`), then `b`.  If both runs succeed, the emitted lists have the
same frames; the records emitted during `a` are identical, those emitted during `b` are stamped
exactly `d` later. -/
theorem jump_shift (env : Env) (a b : List Stmt) (d : Nat) (st s1 s2 j2 : PState)
    (ha : addStmts env st a = .ok s1) (hb : addStmts env s1 b = .ok s2)
    (hj : addStmts env { s1 with now := s1.now + d } b = .ok j2) :
    ∃ x, s2.emitted = s1.emitted ++ x ∧ j2.emitted = s1.emitted ++ x.map (fun e => (e.1 + d, e.2)) ∧
      j2.now = s2.now + d := by
  have _ := ha
  have h0 : Shifted d s1.emitted s1 { s1 with now := s1.now + d } :=
    ⟨rfl, rfl, rfl, rfl, [], by simp, by simp [shiftBy]⟩
  have h := addStmts_shifted b h0 hb hj
  obtain ⟨x, hx1, hx2⟩ := h.em
  exact ⟨x, hx1, hx2, h.now⟩

/-- The same for a statement `j` in the middle of a program (`a ++ [j] ++ b` against `a ++ b`),
for any `j` that acts as a jump by `d` on the state after `a`: it may also change `loc`, `wr`,
`warnings` — none of which a later record depends on. -/
theorem jump_stmt_shift (env : Env) (a b : List Stmt) (j : Stmt) (d : Nat) (st s1 sj s2 j2 : PState)
    (ha : addStmts env st a = .ok s1) (hjs : addStmt env s1 j = .ok sj)
    (hrel : Shifted d s1.emitted s1 sj)
    (hb : addStmts env st (a ++ b) = .ok s2) (hj : addStmts env st (a ++ [j] ++ b) = .ok j2) :
    ∃ x, s2.emitted = s1.emitted ++ x ∧ j2.emitted = s1.emitted ++ x.map (fun e => (e.1 + d, e.2)) := by
  rw [addStmts_append, ha, Res.bind_ok_eq] at hb
  rw [List.append_assoc, addStmts_append, ha, Res.bind_ok_eq, List.singleton_append] at hj
  simp only [addStmts, hjs, Res.bind_ok_eq] at hj
  obtain ⟨x, hx1, hx2⟩ := (addStmts_shifted b hrel hb hj).em
  exact ⟨x, hx1, hx2⟩

/-- Any expression statement whose value is `TimeJump d` and whose evaluation leaves the heap
alone acts as a jump by `d`. -/
theorem timejump_stmt_is_jump (env : Env) (s1 s1' sj : PState) (e : Expr) (d : Nat)
    (he : eval env s1 e = .ok (.timejump d, s1')) (hh : s1'.heap = s1.heap)
    (hjs : addStmt env s1 (.expr e) = .ok sj) : Shifted d s1.emitted s1 sj := by
  obtain ⟨v, st1, h1, h2, h3, _, h5, h6, h7⟩ := addStmt_expr_ok hjs
  rw [he] at h1; cases h1
  exact ⟨h5, h6, by rw [h7, hh], h2, [], by simp, by simpa [shiftBy, framesOf] using h3⟩

/-- The four library functions return exactly the advertised amounts: seconds · 10^9 (argument
taken mod 2^32, it is a `u32`), milliseconds · 10^6, microseconds · 10^3, nanoseconds · 1 — the
scaled `u64` values provided they fit 64 bits (otherwise a runtime error, no wrap-around). -/
theorem jump_amounts (fs : Fs) (this : Option Nat) (v : Val) (x : List Val) (h : Heap) (n : Nat)
    (hv : v.toNat? = some n) :
    exec fs "time::jump_seconds" this ⟨[v], x⟩ h = .ok (.timejump (n % 4294967296 * 1000000000), h) ∧
    (n * 1000000 < 18446744073709551616 →
      exec fs "time::jump_millis" this ⟨[v], x⟩ h = .ok (.timejump (n * 1000000), h)) ∧
    (n * 1000 < 18446744073709551616 →
      exec fs "time::jump_micros" this ⟨[v], x⟩ h = .ok (.timejump (n * 1000), h)) ∧
    exec fs "time::jump_nanos" this ⟨[v], x⟩ h = .ok (.timejump n, h) ∧
    (¬ n * 1000000 < 18446744073709551616 →
      exec fs "time::jump_millis" this ⟨[v], x⟩ h = .err .runtime Loc.nil) ∧
    (¬ n * 1000 < 18446744073709551616 →
      exec fs "time::jump_micros" this ⟨[v], x⟩ h = .err .runtime Loc.nil) := by
  refine ⟨exec_jump_seconds fs this v x h n hv, fun hn => ?_, fun hn => ?_, exec_jump_nanos fs this v x h n hv,
    fun hn => ?_, fun hn => ?_⟩
  · rw [exec_jump_millis fs this v x h n hv, if_pos hn]
  · rw [exec_jump_micros fs this v x h n hv, if_pos hn]
  · rw [exec_jump_millis fs this v x h n hv, if_neg hn]
  · rw [exec_jump_micros fs this v x h n hv, if_neg hn]

/-- Instantiation for real statements: in every environment whose library has the function with
its generated signature, once `time` is imported, the statement `time::<fn>(<n>);` inserted
between `a` and `b` shifts the records of `b` by exactly `d` — the value `exec` returns for it —
and leaves those of `a` alone. -/
theorem jump_call_shift (env : Env) (a b : List Stmt) (loc argLoc : Loc) (fn arg : String) (ty : ValType)
    (hty : ty.isIntegral = true) (n d : Nat) (st s1 s2 j2 : PState)
    (ha : addStmts env st a = .ok s1)
    (himp : s1.imports.contains "time" = true)
    (hlib : env.lib.get ("time::" ++ fn) = some (.func (jumpDef fn arg ty)))
    (hex : exec env.fs ("time::" ++ fn) none ⟨[.u64 n], []⟩ s1.heap = .ok (.timejump d, s1.heap))
    (hb : addStmts env st (a ++ b) = .ok s2)
    (hj : addStmts env st (a ++ [.expr (jumpCall loc argLoc fn n)] ++ b) = .ok j2) :
    ∃ x, s2.emitted = s1.emitted ++ x ∧ j2.emitted = s1.emitted ++ x.map (fun e => (e.1 + d, e.2)) := by
  have he := eval_jumpCall env s1 loc argLoc fn arg ty hty n d himp hlib hex
  cases hjs : addStmt env s1 (.expr (jumpCall loc argLoc fn n)) with
  | ok sj =>
    exact jump_stmt_shift env a b _ d st s1 sj s2 j2 ha hjs
      (timejump_stmt_is_jump env s1 _ sj _ d he rfl hjs) hb hj
  | err e l =>
    rw [List.append_assoc, addStmts_append, ha, Res.bind_ok_eq, List.singleton_append] at hj
    simp [addStmts, hjs] at hj
  | panic x =>
    rw [List.append_assoc, addStmts_append, ha, Res.bind_ok_eq, List.singleton_append] at hj
    simp [addStmts, hjs] at hj

/-! ## 6. non-vacuity (concrete runs of `Example.prog`, see C01 §7) -/

open Example in
/-- the run with the jump and the run without it -/
example :
    emittedOf (addStmts env (st0 none) prog) =
      some [(320, frameA), (5000000640, frameA), (5000000952, frameB)] ∧
    emittedOf (addStmts env (st0 none) (prog.take 4 ++ prog.drop 5)) =
      some [(320, frameA), (640, frameA), (952, frameB)] := by decide

open Example in
/-- the hypotheses of `jump_call_shift` are satisfiable: `time::jump_seconds(5)` between the first
four statements and the rest -/
example : ∃ s1 s2 j2 x, addStmts env (st0 none) (prog.take 4) = .ok s1 ∧
    addStmts env (st0 none) (prog.take 4 ++ prog.drop 5) = .ok s2 ∧
    addStmts env (st0 none) (prog.take 4 ++ [.expr (jumpCall (L 4 1) (L 4 20) "jump_seconds" 5)] ++ prog.drop 5) = .ok j2 ∧
    s2.emitted = s1.emitted ++ x ∧ j2.emitted = s1.emitted ++ x.map (fun e => (e.1 + 5000000000, e.2)) := by
  obtain ⟨x, h1, h2⟩ := jump_call_shift env (prog.take 4) (prog.drop 5) (L 4 1) (L 4 20) "jump_seconds" "seconds"
    .u32 rfl 5 5000000000 (st0 none) _ _ _ rfl (by decide) rfl rfl rfl rfl
  exact ⟨_, _, _, x, rfl, rfl, rfl, h1, h2⟩

open Example in
/-- all four functions, full stack (`import time; time::jump_X(7);`) -/
example :
    ((addStmts env (st0 none) [.imp (L 1 1) "time", .expr (jumpExpr 2 "jump_seconds" 7)]).mapOk (·.now),
     (addStmts env (st0 none) [.imp (L 1 1) "time", .expr (jumpExpr 2 "jump_millis" 7)]).mapOk (·.now),
     (addStmts env (st0 none) [.imp (L 1 1) "time", .expr (jumpExpr 2 "jump_micros" 7)]).mapOk (·.now),
     (addStmts env (st0 none) [.imp (L 1 1) "time", .expr (jumpExpr 2 "jump_nanos" 7)]).mapOk (·.now)) =
    (.ok 7000000000, .ok 7000000, .ok 7000, .ok 7) := by
  refine Prod.ext ?_ (Prod.ext ?_ (Prod.ext ?_ ?_)) <;> rfl

example : le32At (Pcap.recHdr 5000000640 16) 0 = 5 ∧ le32At (Pcap.recHdr 5000000640 16) 4 = 640 := by decide

/-- beyond the pcap limit the seconds field wraps: the bound in `split_exact` is needed -/
example : le32At (Pcap.recHdr (4294967296 * 1000000000 + 5) 0) 0 = 0 := by decide

end Resynth.C12
