import Resynth.Lemmas.InterpInvCli
import Resynth.Lemmas.InterpInvExample
/-!
# C01 — Successful runs yield a well-formed pcap holding exactly the emitted packets

Model: `processFile` (Model/Cli.lean) → `addStmts`/`addStmt`/`eval` (Model/Interp.lean) →
`Pcap.writePacket` (Model/Pcap.lean) → `BufW` (Model/Io.lean).  Reference reader: `Spec.parsePcap`
(Spec/Pcap.lean), which shares nothing with the writer.

`processFile env none src` is the run on a device that never fails (C19 treats failing devices).
The only hypotheses are those the file format itself imposes: a frame longer than 2^32−1 bytes or
a timestamp beyond 2^32 s cannot be represented in a pcap record (`as u32` truncates).
-/
namespace Resynth.C01
open Spec

/-! ## 1. the writer's bytes, read back by the independent reader -/

/-- For every record list whose times and lengths fit the format, the reader returns the
standard header and exactly these records: seconds / nanoseconds split, captured length =
original length = true byte count, bytes unaltered, nothing missing, nothing trailing. -/
theorem parse_file (rs : List (Nat × Bytes))
    (ht : ∀ r ∈ rs, r.1 < 4294967296 * 1000000000) (hl : ∀ r ∈ rs, r.2.length < 4294967296) :
    parsePcap (Pcap.header ++ rs.flatMap (fun r => Pcap.record r.1 r.2)) =
      some (⟨0xa1b23c4d, 2, 4, 1⟩,
        rs.map (fun r => ⟨r.1 / 1000000000, r.1 % 1000000000, r.2.length, r.2.length, r.2⟩)) := by
  have := parsePcap_file_mod rs hl
  rw [recsBytes] at this
  rw [this, stdHdr]
  congr 2
  apply List.map_congr_left
  intro r hr
  exact recOf_of_lt r (ht r hr)

/-- Without the bound on the times the only difference is that the seconds field wraps mod 2^32. -/
theorem parse_file_mod (rs : List (Nat × Bytes)) (hl : ∀ r ∈ rs, r.2.length < 4294967296) :
    parsePcap (Pcap.header ++ rs.flatMap (fun r => Pcap.record r.1 r.2)) =
      some (⟨0xa1b23c4d, 2, 4, 1⟩,
        rs.map (fun r => ⟨(r.1 / 1000000000) % 4294967296, r.1 % 1000000000, r.2.length, r.2.length, r.2⟩)) :=
  parsePcap_file_mod rs hl

/-- … and hence the file is a well-formed nanosecond pcap (magic, version 2.4, Ethernet,
caplen = len = data length, nsec < 10^9). -/
theorem parse_file_wellFormed (rs : List (Nat × Bytes)) (hl : ∀ r ∈ rs, r.2.length < 4294967296) :
    pcapWellFormed (Pcap.header ++ rs.flatMap (fun r => Pcap.record r.1 r.2)) = true :=
  wellFormed_file rs hl

/-- The file determines the record list. -/
theorem file_injective (rs rs' : List (Nat × Bytes))
    (ht : ∀ r ∈ rs, r.1 < 4294967296 * 1000000000) (hl : ∀ r ∈ rs, r.2.length < 4294967296)
    (ht' : ∀ r ∈ rs', r.1 < 4294967296 * 1000000000) (hl' : ∀ r ∈ rs', r.2.length < 4294967296)
    (h : Pcap.header ++ rs.flatMap (fun r => Pcap.record r.1 r.2) =
         Pcap.header ++ rs'.flatMap (fun r => Pcap.record r.1 r.2)) : rs = rs' := by
  have h1 := parsePcap_file_mod rs hl
  have h2 := parsePcap_file_mod rs' hl'
  rw [recsBytes] at h1 h2
  rw [h, h2] at h1
  have hm : rs'.map recOf = rs.map recOf := by simpa using h1
  clear h h1 h2
  induction rs generalizing rs' with
  | nil => cases rs' with
    | nil => rfl
    | cons a b => simp at hm
  | cons r rs ih =>
    cases rs' with
    | nil => simp at hm
    | cons r' rs' =>
      simp only [List.map_cons, List.cons.injEq] at hm
      have := recOf_injective r' r (ht' r' (by simp)) (ht r (by simp)) hm.1
      subst this
      congr 1
      exact ih rs' (fun x hx => ht x (by simp [hx])) (fun x hx => hl x (by simp [hx]))
        (fun x hx => ht' x (by simp [hx])) (fun x hx => hl' x (by simp [hx])) hm.2

/-! ## 2. `write_packet` is unobservable on the packet -/

/-- For every packet with the 16 bytes of headroom, of every size: `write_packet` does not
panic, hands the writer exactly the record of the frame, and returns the packet with its frame
and headroom unchanged — so emitting a stored packet again behaves identically. -/
theorem write_restores (t : Nat) (p : Packet) (h : 16 ≤ p.headroom) :
    ∃ p', Pcap.writePacket t p = .ok (Pcap.record t p.frame) p' ∧ p'.frame = p.frame ∧
      p'.headroom = p.headroom :=
  writePacket_restores t p h

/-- Whatever the headroom, a `write_packet` that does not panic writes the record of the frame. -/
theorem write_ok_bytes (t : Nat) (p : Packet) (bytes : Bytes) (p' : Packet)
    (h : Pcap.writePacket t p = .ok bytes p') :
    bytes = Pcap.record t p.frame ∧ p'.frame = p.frame ∧ p'.headroom = p.headroom :=
  writePacket_ok_bytes t p bytes p' h

/-- Every packet value the library builds (`Packet.ofFrame`, used by `pktOf`/`pktsOf`) has
exactly 16 bytes of headroom. -/
theorem stdlib_packets_have_headroom (f : Bytes) (fs : List Bytes) :
    (Packet.ofFrame f).headroom = 16 ∧
    (∀ p, pktOf f = .pkt p → p.headroom = 16 ∧ p.frame = f) ∧
    (∀ ps, pktsOf fs = .pktgen ps → (∀ p ∈ ps, p.headroom = 16) ∧ ps.map (·.frame) = fs) := by
  refine ⟨ofFrame_headroom f, ?_, ?_⟩
  · intro p hp; simp only [pktOf, Val.pkt.injEq] at hp; subst hp; exact ⟨ofFrame_headroom f, rfl⟩
  · intro ps hp; simp only [pktsOf, Val.pktgen.injEq] at hp; subst hp
    refine ⟨?_, by simp [Function.comp_def, ofFrame_frame]⟩
    intro p hp; simp only [List.mem_map] at hp
    obtain ⟨f', _, rfl⟩ := hp; exact ofFrame_headroom f'

/-! ## 3. the buffered writer on a device that never fails -/

/-- With no budget, `write_all` never fails and `dev ++ buf` grows by exactly the bytes written;
dropping the writer leaves everything written in the file. -/
theorem bufw_unlimited (w : BufW) (b : Bytes) (h : w.budget = none) :
    (w.writeAll b).2 = true ∧ (w.writeAll b).1.budget = none ∧
    (w.writeAll b).1.dev ++ (w.writeAll b).1.buf = w.dev ++ w.buf ++ b ∧
    (w.writeAll b).1.dropped = w.dev ++ w.buf ++ b := by
  obtain ⟨h1, h2, _, h4⟩ := BufW.writeAll_none w b h
  exact ⟨h1, h2, h4, by rw [BufW.dropped_none _ h2]; exact h4⟩

/-! ## 4. evaluation never touches the output -/

/-- For every `Env` (library table and file system) and expression: a successful `eval` leaves
`wr`, `emitted`, `now` (and `regs`, `imports`, `warnings`) as they were — it can change `loc`
and `heap` only. -/
theorem eval_preserves_output (env : Env) (st : PState) (e : Expr) (v : Val) (st' : PState)
    (h : eval env st e = .ok (v, st')) :
    st'.wr = st.wr ∧ st'.emitted = st.emitted ∧ st'.now = st.now ∧ st'.regs = st.regs ∧
      st'.imports = st.imports ∧ st'.warnings = st.warnings := by
  obtain ⟨h1, h2, h3, h4, h5, h6⟩ := eval_onlyLH env e st _ h
  exact ⟨h4, h6, h1, h2, h3, h5⟩

theorem evalArgs_preserves_output (env : Env) (st : PState) (a : Args) (vs : List ArgSpec) (st' : PState)
    (h : evalArgs env st a = .ok (vs, st')) :
    st'.wr = st.wr ∧ st'.emitted = st.emitted ∧ st'.now = st.now ∧ st'.regs = st.regs ∧
      st'.imports = st.imports ∧ st'.warnings = st.warnings := by
  obtain ⟨h1, h2, h3, h4, h5, h6⟩ := evalArgs_onlyLH env a st _ h
  exact ⟨h4, h6, h1, h2, h3, h5⟩

/-- Frame rule (all result kinds): `eval` does not even read `now`, `wr`, `emitted`, `warnings`. -/
theorem eval_ignores_output (env : Env) (st : PState) (e : Expr) (n : Nat) (w : BufW)
    (em : List (Nat × Bytes)) (ws : List Loc) :
    eval env { st with now := n, wr := w, emitted := em, warnings := ws } e =
      (eval env st e).mapOk (fun r => (r.1, { r.2 with now := n, wr := w, emitted := em, warnings := ws })) :=
  eval_frame env n w em ws e st

/-! ## 5. which records a statement appends -/

/-- An expression statement appends exactly the frames of the value `eval` returned — a `Pkt`
one record, a `PktGen` all of its packets in order, anything else nothing — all stamped with
the statement's time, and hands exactly these records to the writer. -/
theorem expr_stmt_appends (env : Env) (st st' : PState) (e : Expr) (h : addStmt env st (.expr e) = .ok st') :
    ∃ v st1, eval env st e = .ok (v, st1) ∧
      st'.emitted = st.emitted ++ (framesOf v).map (fun f => (st'.now, f)) ∧
      st'.wr = writeFrames st.wr st'.now (framesOf v) := by
  obtain ⟨v, st1, h1, h2, h3, h4, _⟩ := addStmt_expr_ok h
  exact ⟨v, st1, h1, by rw [h2]; exact h3, by rw [h2]; exact h4⟩

/-- `let` writes nothing: the writer and the emitted list are untouched. -/
theorem let_writes_nothing (env : Env) (st st' : PState) (loc : Loc) (x : String) (e : Expr)
    (h : addStmt env st (.assign loc x e) = .ok st') :
    st'.emitted = st.emitted ∧ st'.wr = st.wr ∧ st'.now = st.now := by
  obtain ⟨v, st1, h1, h2, _⟩ := addStmt_assign_ok h
  obtain ⟨e1, _, _, e4, _, e6⟩ := eval_onlyLH env e _ _ h1
  subst h2
  exact ⟨e6, e4, e1⟩

/-- … and binds the value: afterwards the variable evaluates to it. -/
theorem let_binds (env : Env) (st st' : PState) (loc : Loc) (x : String) (e : Expr)
    (h : addStmt env st (.assign loc x e) = .ok st') :
    ∃ v st1, eval env { st with loc := loc } e = .ok (v, st1) ∧ lookupReg st'.regs x = some v := by
  obtain ⟨v, st1, h1, h2, h3⟩ := addStmt_assign_ok h
  have : st1.regs = st.regs := (eval_onlyLH env e _ _ h1).2.1
  subst h2
  exact ⟨v, st1, h1, by simpa [this] using lookupReg_append_new (v := v) h3⟩

/-- `import` writes nothing. -/
theorem import_writes_nothing (env : Env) (st st' : PState) (loc : Loc) (m : String)
    (h : addStmt env st (.imp loc m) = .ok st') :
    st'.emitted = st.emitted ∧ st'.wr = st.wr ∧ st'.now = st.now := by
  obtain ⟨h1, h2, h3, _⟩ := addStmt_imp_ok h
  exact ⟨h2, h3, h1⟩

/-- A binding survives every later statement. -/
theorem let_persists (env : Env) (st st' : PState) (ss : List Stmt) (x : String) (v : Val)
    (h : addStmts env st ss = .ok st') (hx : lookupReg st.regs x = some v) :
    lookupReg st'.regs x = some v :=
  lookupReg_addStmts h hx

/-- A statement that is a bare reference to a bound variable evaluates to the bound value in
every environment without any library lookup or `exec` (heap unchanged), and — each time it is
executed — appends exactly that value's frames. -/
theorem use_of_let_writes_each_time (env : Env) (st st' : PState) (loc : Loc) (x : String) (v : Val)
    (hx : lookupReg st.regs x = some v)
    (h : addStmt env st (.expr (.ref ⟨loc, [], [x]⟩)) = .ok st') :
    (∀ env', eval env' st (.ref ⟨loc, [], [x]⟩) = .ok (v, { st with loc := loc })) ∧
    st'.emitted = st.emitted ++ (framesOf v).map (fun f => (st'.now, f)) ∧
    st'.wr = writeFrames st.wr st'.now (framesOf v) ∧
    st'.heap = st.heap ∧ lookupReg st'.regs x = some v := by
  obtain ⟨v', st1, h1, h2, h3, h4, h5, _, h7⟩ := addStmt_expr_ok h
  rw [eval_local_var env st loc x v hx] at h1
  cases h1
  exact ⟨fun env' => eval_local_var env' st loc x v hx, by rw [h2]; exact h3, by rw [h2]; exact h4, h7,
    by rw [h5]; exact hx⟩

/-! ## 6. the whole run -/

/-- For every environment and source: on a device that never fails the output file is the pcap
header followed by the records of the run's `emitted` list, in order, and nothing else.
(Stated for success as in the property; `file_exact_any_outcome` shows it holds regardless.) -/
theorem output_exact (env : Env) (src : Bytes) (_h : (processFile env none src).outcome = .success) :
    (processFile env none src).file =
      Pcap.header ++ (processFile env none src).emitted.flatMap (fun e => Pcap.record e.1 e.2) :=
  processFile_none_file env src

theorem file_exact_any_outcome (env : Env) (src : Bytes) :
    (processFile env none src).file =
      Pcap.header ++ (processFile env none src).emitted.flatMap (fun e => Pcap.record e.1 e.2) :=
  processFile_none_file env src

/-- Hence a successful run's file is a well-formed pcap whose records, as decoded by the
independent reader, are exactly the emitted packets (frame lengths must fit 32 bits). -/
theorem output_wellFormed (env : Env) (src : Bytes)
    (hl : ∀ r ∈ (processFile env none src).emitted, r.2.length < 4294967296) :
    pcapWellFormed (processFile env none src).file = true ∧
    parsePcap (processFile env none src).file =
      some (⟨0xa1b23c4d, 2, 4, 1⟩, (processFile env none src).emitted.map
        (fun r => ⟨(r.1 / 1000000000) % 4294967296, r.1 % 1000000000, r.2.length, r.2.length, r.2⟩)) := by
  rw [processFile_none_file]
  exact ⟨wellFormed_file _ hl, parsePcap_file_mod _ hl⟩

/-- Statement order: a successful run executed every statement the front end produced
(`planOf src`: the batches handed over by the parser, line by line), in order, and the frames of
its records are exactly the frames of the expression statements' values — statement by
statement, within a statement in generation order (`runFrames`/`stmtFrames`/`framesOf`). -/
theorem output_in_statement_order (env : Env) (src : Bytes)
    (h : (processFile env none src).outcome = .success) :
    (processFile env none src).emitted.map (·.2) =
      runFrames env (st0 none) (planOf src).batches.flatten := by
  rw [processFile_eq] at h ⊢
  obtain ⟨st', h1, h2⟩ := execFrom_success (planOf_final src) h
  unfold execPlan
  rw [h2, addStmts_frames _ h1]
  simp [st0]

/-- … and a run stopped by a failing statement (statement `s` reports `e` at `loc` after the statements
`pre` before it ran) has executed exactly the statements before the failing one — whether they are on
earlier lines or on the line of `s`: it reports that error, its records are the frames of `pre`, in
order, and (`file_exact_any_outcome`) its file is the header followed by exactly these records. -/
theorem failed_run_output_in_statement_order (env : Env) (src : Bytes) (e : ErrKind) (loc : Loc)
    (h : addStmts env (st0 none) (planOf src).batches.flatten = .err e loc) :
    ∃ pre s post st1, (planOf src).batches.flatten = pre ++ s :: post ∧
      addStmts env (st0 none) pre = .ok st1 ∧ addStmt env st1 s = .err e loc ∧
      (processFile env none src).outcome = .failure e.cls (errDetail e) loc ∧
      (processFile env none src).emitted = st1.emitted ∧
      (processFile env none src).emitted.map (·.2) = runFrames env (st0 none) pre := by
  obtain ⟨pre, s, post, st1, h1, h2, h3, h4⟩ := execFrom_stmt_err (fin := (planOf src).final) h
  refine ⟨pre, s, post, st1, h1, h2, h3, ?_, ?_, ?_⟩ <;> rw [processFile_eq] <;> unfold execPlan <;> rw [h4]
  · rfl
  · rfl
  · show st1.emitted.map (·.2) = _
    rw [addStmts_frames _ h2]
    simp [st0]

/-- The same at the level of statement lists, for every start state. -/
theorem statements_in_order (env : Env) (st st' : PState) (ss : List Stmt)
    (h : addStmts env st ss = .ok st') :
    st'.emitted.map (·.2) = st.emitted.map (·.2) ++ runFrames env st ss :=
  addStmts_frames ss h

/-- The empty program yields the bare header. -/
theorem empty_program (env : Env) :
    (processFile env none []).outcome = .success ∧ (processFile env none []).file = Pcap.header := by
  have h1 : (processFile env none []).outcome = .success := by
    rw [processFile_eq]; rfl
  have h2 : (processFile env none []).emitted = [] := by
    rw [processFile_eq]; rfl
  exact ⟨h1, by rw [processFile_none_file, h2]; simp [recsBytes]⟩

/-! ## 7. non-vacuity

`processFile` goes through `String.toUTF8`/`fromUTF8?`, which the kernel cannot evaluate, so the
concrete runs below use `execPlan` — by `processFile_eq` exactly what `processFile` computes once
the front end has produced the statement batches — on the hand-built program `Example.prog`:
```
import eth; import time;
let p = eth::frame(…, "|aabb|");   -- writes nothing
p;                                 -- record 1
time::jump_seconds(5);
p;                                 -- record 2: the same frame again
eth::frame(…, "|cc|");             -- record 3
```
-/
open Example in
example : (execPlan env none ⟨[prog], none⟩).outcome = .success ∧
    (execPlan env none ⟨[prog], none⟩).emitted =
      [(320, frameA), (5000000640, frameA), (5000000952, frameB)] := by decide

open Example in
/-- a failing statement (`q;`, unknown name) in the same batch as `p;`: the record of `p;` is in the file
the failed run leaves behind (hypothesis and conclusion of `failed_run_output_in_statement_order`) -/
example : errOf (addStmts env (st0 none) (prog.take 4 ++ [.expr (.ref ⟨L 3 4, [], ["q"]⟩)] ++ prog.drop 4)) = some .name ∧
    (execPlan env none ⟨[prog.take 4 ++ [.expr (.ref ⟨L 3 4, [], ["q"]⟩)] ++ prog.drop 4], none⟩).outcome =
      .failure "Name" "" (L 3 4) ∧
    (execPlan env none ⟨[prog.take 4 ++ [.expr (.ref ⟨L 3 4, [], ["q"]⟩)] ++ prog.drop 4], none⟩).emitted =
      [(320, frameA)] ∧
    (execPlan env none ⟨[prog.take 4 ++ [.expr (.ref ⟨L 3 4, [], ["q"]⟩)] ++ prog.drop 4], none⟩).file =
      Pcap.header ++ Pcap.record 320 frameA := by decide

open Example in
/-- the reader recovers exactly these three records from that run's file -/
example : parsePcap (execPlan env none ⟨[prog], none⟩).file =
    some (⟨0xa1b23c4d, 2, 4, 1⟩,
      [⟨0, 320, 16, 16, frameA⟩, ⟨5, 640, 16, 16, frameA⟩, ⟨5, 952, 15, 15, frameB⟩]) := by
  rw [execPlan_none_file]
  have : (execPlan env none ⟨[prog], none⟩).emitted =
      [(320, frameA), (5000000640, frameA), (5000000952, frameB)] := by decide
  rw [this]
  exact parse_file _ (by decide) (by decide)

open Example in
/-- `let` then two uses, on the concrete state: hypotheses of §5 are satisfiable -/
example : ∃ st1 st2, addStmts env (st0 none) (prog.take 3) = .ok st1 ∧ st1.emitted = [] ∧
    lookupReg st1.regs "p" = some (pktOf frameA) ∧
    addStmt env st1 (.expr (.ref ⟨L 3 1, [], ["p"]⟩)) = .ok st2 ∧ st2.emitted = [(320, frameA)] := by
  refine ⟨_, _, rfl, by decide, by decide, rfl, by decide⟩

open Example in
/-- statement order on the concrete program: `let` contributes nothing, each use one frame -/
example : runFrames env (st0 none) prog = [frameA, frameA, frameB] ∧
    (prog.map (stmtFrames env (st0 none))).length = 7 := by decide

example : ∃ p', Pcap.writePacket 7 (Packet.ofFrame Example.frameA) =
    .ok (Pcap.record 7 Example.frameA) p' ∧ p'.frame = Example.frameA ∧ p'.headroom = 16 :=
  write_restores 7 _ (by decide)

/-- a packet without headroom would make `write_packet` panic — the hypothesis of
`write_restores` is needed (and is met by every `Packet.ofFrame`) -/
example : ∃ s, Pcap.writePacket 7 { head := [], frame := [1, 2, 3] } = .panic s := ⟨_, rfl⟩

end Resynth.C01
