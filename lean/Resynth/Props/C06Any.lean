import Resynth.Props.C06
import Resynth.Lemmas.TunnelsAny
/-!
# C06, inner frames of ANY size

The theorems of `Props/C06.lean` decode outer packets with `decapVxlan` / `decapGre` / `decapErspan1/2`,
which honour the IPv4 total-length and UDP length fields; those fields cannot describe more than 65535
bytes, so every theorem there carries a hypothesis that the outer datagram fits (`hfit`).  The property
speaks of inner frames of any size.  Here the same "one outer per inner, same order, payload
byte-identical" statements are proved with NO size hypothesis, using the positional reference decoder
`Spec.decapPositional`: it checks the fields that identify the tunnel at their fixed offsets (0x45, IP
protocol, VXLAN flags octet, GRE flags / protocol type), ignores the length fields (which the model, like
the Rust builders, writes modulo 2^16) and returns everything after the fixed-size headers.

`positional_agrees_*` / `positional_extends_*` tie the positional decoder to the ordinary ones: whenever an
ordinary decoder accepts a packet, the positional one accepts it too, and the ordinary inner frame is the
positional result cut at the IP total length — equal to it when the buffer ends where the IP total length
says (no trailing bytes).  Without that hypothesis equality is false (see the `example` with a padding
byte at the end of this file).
-/
namespace Resynth.C06
open Resynth Spec

/-! ## One session call: the payload of the one outer packet is the inner frame, whatever its size -/

/-- VXLAN: no hypothesis at all (the identifying fields do not depend on ports or VNI). -/
theorem vxlan_payload_any_size (f : VxlanFlow) (b : Bytes) :
    decapPositional .vxlan (stripEth f.raw (f.encap b)) = some b :=
  decapPositional_vxlan_encap f b

/-- GRE, any 16-bit flags word without C/R/K — with or without the S bit (`decapPositional .gre` reads
the S bit off the packet and skips the sequence word iff it is set). -/
theorem gre_payload_any_size (f : GreFlow) (b : Bytes)
    (hf : f.flags < 2 ^ 16) (hcrk : f.flags &&& 0xe000 = 0) (hp : f.ethertype < 2 ^ 16) :
    decapPositional .gre (stripEth f.raw (f.encap b).2) = some b :=
  decapPositional_gre_encap f b hf hcrk hp

/-- … and the number of header bytes it skipped: 28 with the S bit, 24 without. -/
theorem gre_overhead_any_size (f : GreFlow) (b : Bytes)
    (hf : f.flags < 2 ^ 16) (hp : f.ethertype < 2 ^ 16) :
    tunnelOverhead .gre (stripEth f.raw (f.encap b).2) = if f.flags &&& 0x1000 ≠ 0 then 28 else 24 :=
  tunnelOverhead_gre_encap f b hf hp

theorem erspan1_payload_any_size (f : Erspan1Flow) (b : Bytes) :
    decapPositional .erspan1 (stripEth f.raw (f.encap b)) = some b :=
  decapPositional_erspan1_encap f b

/-- ERSPAN type II (no range hypothesis is needed: session id and port index are masked into the 8-byte
ERSPAN header whatever their value; `decapPositional .erspan2` checks GRE protocol 0x88be and the S bit). -/
theorem erspan2_payload_any_size (f : Erspan2Flow) (b : Bytes) (portIndex : Nat) :
    decapPositional .erspan2 (stripEth f.raw (f.encap b portIndex).2) = some b :=
  decapPositional_erspan2_encap f b portIndex

/-- the outer packet is exactly the fixed-size headers longer than the inner frame, for any size (so the
payload returned above is the *whole* remainder of the packet, nothing is appended) -/
theorem outer_length_any_size (l : Layer) (b : Bytes) :
    (l.encap b).length = (if l.raw then 0 else 14) + l.overhead + b.length :=
  Layer.encap_length l b

/-! ## `session.encap(gen)`: exactly one outer per inner, same order, payload byte-identical -/

theorem vxlan_encapAll_any_size (f : VxlanFlow) (inners : List Bytes) :
    (f.encapAll inners).length = inners.length ∧
    (f.encapAll inners).map (fun p => decapPositional .vxlan (stripEth f.raw p)) = inners.map some := by
  refine ⟨by simp [VxlanFlow.encapAll], ?_⟩
  simp only [VxlanFlow.encapAll, List.map_map]
  apply List.map_congr_left
  intro b _
  exact vxlan_payload_any_size f b

theorem gre_encapAll_any_size (f : GreFlow) (inners : List Bytes)
    (hf : f.flags < 2 ^ 16) (hcrk : f.flags &&& 0xe000 = 0) (hp : f.ethertype < 2 ^ 16) :
    (f.encapAll inners).2.length = inners.length ∧
    (f.encapAll inners).2.map (fun p => decapPositional .gre (stripEth f.raw p)) = inners.map some :=
  ⟨f.encapAll_length inners, f.decapPositional_encapAll inners hf hcrk hp⟩

theorem erspan1_encapAll_any_size (f : Erspan1Flow) (inners : List Bytes) :
    (f.encapAll inners).length = inners.length ∧
    (f.encapAll inners).map (fun p => decapPositional .erspan1 (stripEth f.raw p)) = inners.map some := by
  refine ⟨by simp [Erspan1Flow.encapAll], ?_⟩
  simp only [Erspan1Flow.encapAll, List.map_map]
  apply List.map_congr_left
  intro b _
  exact erspan1_payload_any_size f b

theorem erspan2_encapAll_any_size (f : Erspan2Flow) (portIndex : Nat) (inners : List Bytes) :
    (f.encapAll portIndex inners).2.length = inners.length ∧
    (f.encapAll portIndex inners).2.map (fun p => decapPositional .erspan2 (stripEth f.raw p)) =
      inners.map some := by
  have h := f.decapPositional_encapAll portIndex inners
  exact ⟨by simpa using congrArg List.length h, h⟩

/-! ## The positional decoder agrees with the ordinary decoders

`byteAt p 2 * 256 + byteAt p 3` is the packet's IPv4 total-length field. -/

/-- In general the ordinary decoder's inner frame is the positional one cut at the IP total length. -/
theorem positional_extends :
    (∀ p v, decapVxlan p = some v →
      ∃ q, decapPositional .vxlan p = some q ∧
        v.inner = q.take (byteAt p 2 * 256 + byteAt p 3 - tunnelOverhead .vxlan p) ∧ v.inner <+: q) ∧
    (∀ p g, decapGre p = some g →
      ∃ q, decapPositional .gre p = some q ∧
        g.inner = q.take (byteAt p 2 * 256 + byteAt p 3 - tunnelOverhead .gre p) ∧ g.inner <+: q) ∧
    (∀ p b, decapErspan1 p = some b →
      ∃ q, decapPositional .erspan1 p = some q ∧
        b = q.take (byteAt p 2 * 256 + byteAt p 3 - tunnelOverhead .erspan1 p) ∧ b <+: q) ∧
    (∀ p e, decapErspan2 p = some e →
      ∃ q, decapPositional .erspan2 p = some q ∧
        e.inner = q.take (byteAt p 2 * 256 + byteAt p 3 - tunnelOverhead .erspan2 p) ∧ e.inner <+: q) := by
  refine ⟨?_, ?_, ?_, ?_⟩
  · intro p v h
    obtain ⟨h1, h2⟩ := decapVxlan_positional p v h
    exact ⟨_, h1, h2, h2 ▸ List.take_prefix _ _⟩
  · intro p g h
    obtain ⟨h1, h2⟩ := decapGre_positional p g h
    exact ⟨_, h1, h2, h2 ▸ List.take_prefix _ _⟩
  · intro p b h
    obtain ⟨h1, h2⟩ := decapErspan1_positional p b h
    exact ⟨_, h1, h2, h2 ▸ List.take_prefix _ _⟩
  · intro p e h
    obtain ⟨h1, h2⟩ := decapErspan2_positional p e h
    exact ⟨_, h1, h2, h2 ▸ List.take_prefix _ _⟩

theorem positional_agrees_vxlan (p : Bytes) (v : Vxlan) (h : decapVxlan p = some v)
    (hexact : byteAt p 2 * 256 + byteAt p 3 = p.length) :
    decapPositional .vxlan p = some v.inner := by
  obtain ⟨h1, h2⟩ := decapVxlan_positional p v h
  rw [h1, h2, take_drop_full p (ipTotLen p) 36 hexact]

/-- both S cases: `g.seq` may be `some _` or `none` -/
theorem positional_agrees_gre (p : Bytes) (g : Gre) (h : decapGre p = some g)
    (hexact : byteAt p 2 * 256 + byteAt p 3 = p.length) :
    decapPositional .gre p = some g.inner := by
  obtain ⟨h1, h2⟩ := decapGre_positional p g h
  rw [h1, h2, take_drop_full p (ipTotLen p) _ hexact]

theorem positional_agrees_erspan1 (p b : Bytes) (h : decapErspan1 p = some b)
    (hexact : byteAt p 2 * 256 + byteAt p 3 = p.length) :
    decapPositional .erspan1 p = some b := by
  obtain ⟨h1, h2⟩ := decapErspan1_positional p b h
  rw [h1, h2, take_drop_full p (ipTotLen p) 24 hexact]

theorem positional_agrees_erspan2 (p : Bytes) (e : Erspan2) (h : decapErspan2 p = some e)
    (hexact : byteAt p 2 * 256 + byteAt p 3 = p.length) :
    decapPositional .erspan2 p = some e.inner := by
  obtain ⟨h1, h2⟩ := decapErspan2_positional p e h
  rw [h1, h2, take_drop_full p (ipTotLen p) 36 hexact]

/-- all four together -/
theorem positional_agrees (p : Bytes) (hexact : byteAt p 2 * 256 + byteAt p 3 = p.length) :
    (∀ v, decapVxlan p = some v → decapPositional .vxlan p = some v.inner) ∧
    (∀ g, decapGre p = some g → decapPositional .gre p = some g.inner) ∧
    (∀ b, decapErspan1 p = some b → decapPositional .erspan1 p = some b) ∧
    (∀ e, decapErspan2 p = some e → decapPositional .erspan2 p = some e.inner) :=
  ⟨fun v h => positional_agrees_vxlan p v h hexact, fun g h => positional_agrees_gre p g h hexact,
   fun b h => positional_agrees_erspan1 p b h hexact, fun e h => positional_agrees_erspan2 p e h hexact⟩

/-! ## Nesting to any depth, any size

`unwrapPos` peels the layers outermost first with `decapPositional` as each layer's kind (`Layer.kind`)
after `stripEth`; the only hypothesis left is that each layer's parameters are in range (`Layer.Ok`). -/

theorem nest_any_size (layers : List Layer) (inner : Bytes) (hok : ∀ l ∈ layers, l.Ok) :
    unwrapPos layers (wrap layers inner) = some inner :=
  unwrapPos_wrap layers inner hok

theorem nest_all_any_size (layers : List Layer) (inners : List Bytes) (hok : ∀ l ∈ layers, l.Ok) :
    (wrapAll layers inners).length = inners.length ∧
    (wrapAll layers inners).map (unwrapPos layers) = inners.map some :=
  ⟨wrapAll_length layers inners, unwrapPos_wrapAll layers inners hok⟩

/-! ## Non-vacuity (small inner frames; the theorems above cover every size) -/

example : decapPositional .vxlan (stripEth false (exVx.encap [1, 2, 3])) = some [1, 2, 3] := by decide
example : decapPositional .gre (stripEth true (exGre.encap [1, 2, 3]).2) = some [1, 2, 3] := by decide
/-- with the S bit: four more header bytes are skipped -/
example : decapPositional .gre
      (stripEth true (({ exGre with flags := 0x1000 } : GreFlow).encap [1, 2, 3]).2) = some [1, 2, 3] ∧
    tunnelOverhead .gre (stripEth true (({ exGre with flags := 0x1000 } : GreFlow).encap [1, 2, 3]).2) = 28 ∧
    tunnelOverhead .gre (stripEth true (exGre.encap [1, 2, 3]).2) = 24 := by decide
example : decapPositional .erspan1 (stripEth false (exE1.encap [1, 2, 3])) = some [1, 2, 3] := by decide
example : decapPositional .erspan2 (stripEth false (exE2.encap [1, 2, 3] 7).2) = some [1, 2, 3] := by
  decide

example : (exE2.encapAll 7 exInners).2.map (fun p => decapPositional .erspan2 (stripEth false p)) =
    exInners.map some := by decide

/-- the hypotheses of `gre_payload_any_size` are satisfiable, with and without S -/
example : exGre.flags < 2 ^ 16 ∧ exGre.flags &&& 0xe000 = 0 ∧ exGre.ethertype < 2 ^ 16 ∧
    (0x1000 : Nat) < 2 ^ 16 ∧ 0x1000 &&& 0xe000 = 0 := by decide

/-- the positional decoder discriminates between the kinds -/
example : decapPositional .gre (stripEth false (exVx.encap [1, 2, 3])) = none ∧
    decapPositional .vxlan (stripEth true (exGre.encap [1, 2, 3]).2) = none ∧
    decapPositional .erspan2 (stripEth false (exE1.encap [1, 2, 3])) = none ∧
    decapPositional .erspan1 (stripEth false (exE2.encap [1, 2, 3] 7).2) = none := by decide

/-- `positional_agrees_*`: hypotheses hold on a session's packet … -/
example : let p := stripEth false (exVx.encap [1, 2, 3])
    (decapVxlan p).map (·.inner) = some [1, 2, 3] ∧ byteAt p 2 * 256 + byteAt p 3 = p.length := by
  decide

/-- … and `hexact` cannot be dropped: with one padding byte behind the IP datagram the ordinary
decoder still returns the inner frame, the positional one returns it plus the padding (a proper
extension, as `positional_extends` says). -/
example : let p := stripEth false (exE1.encap [1, 2, 3]) ++ [0xaa]
    decapErspan1 p = some [1, 2, 3] ∧ decapPositional .erspan1 p = some [1, 2, 3, 0xaa] := by decide

example : (∀ l ∈ exLayers, l.Ok) ∧ unwrapPos exLayers (wrap exLayers [1, 2, 3]) = some [1, 2, 3] :=
  ⟨by decide, nest_any_size exLayers [1, 2, 3] (by decide)⟩

end Resynth.C06
