import Resynth.Lemmas.ErrCol
import Resynth.Lemmas.InterpInvExample
import Resynth.Props.C08Loc
/-!
# C08 — the position of a diagnostic is a `line:column` INSIDE THE FILE

"... prints a diagnostic naming the input, with a line:column inside the file when a position is known".

Model: `processFile` (`Model/Cli.lean`, src/cli.rs `process_file`) ends a failing run with
`.failure class detail loc`; `loc = Loc.nil` (`0:0`) means "no position".  The lines of the file are
`splitLines src` (`BufRead::lines`: split at `\n`, one `\r` before it stripped as well); columns are
1-based BYTE columns of such a line (src/lex.rs).

Where each kind of failure gets its position from:

| class                     | position                                                     | column range     |
|---------------------------|--------------------------------------------------------------|------------------|
| `Io` (undecodable line, header write, final flush) | none (`Loc.nil`)                    | -                |
| `Lex`                     | first character that cannot start a token                    | `1 ..= len`      |
| `Parse`, in a line        | the token the parser rejects (a string token: the token after it) | `1 ..= len` |
| `Parse`, at end of input  | where the lexer stopped: the end of the LAST line             | `len + 1`        |
| execution (`Import`, `Name`, `Type`, `Runtime`, `MultipleAssign`, `Memory`, and `Io` of a write) | a token of the failing statement (`C08Loc`) | `1 ..= len` |

So `k = 0`: the reported line is always one of the lines of the file, `1 ≤ line ≤ number of lines`
(an end-of-input complaint is reported on the LAST line, not on a line after it), and the column is the
column of a byte of that line, or - only for `Parse` at end of input - one past its last byte (where the
line terminator is, if the line has one).  No class reports a position outside the file.

* P1 `token_col_in_line`, `lex_error_col_in_line`, `finish_token_position`
* P2 `tokenPos_col`, `tokenPos_col_at_byte`
* P3 `file_failure_position_in_file`, `file_failure_line_in_file`, `file_failure_position_exact`
* P4 `file_failure_position_known_classes`, `file_failure_without_position`
-/
namespace Resynth.C08Pos
open Sem LR

/-! ## P1 one line -/

/-- **P1.** Every token the lexer delivers for line `lno` with text `ln` is located ON line `lno` AT A
BYTE of the line: `1 ≤ col ≤ byte length of the line`.

This includes (merged) string tokens: a string token is delivered together with the next non-string
token of the line and carries THAT token's position (`C10.string_token_position`), so it is at a byte of
the line as well - also when part of its text was carried over from earlier lines.  A string literal
that is not followed by another token on its line is not delivered for that line: it stays pending
(`lo.pending`) and comes out on a later line, or at end of input (`finish_token_position`). -/
theorem token_col_in_line (lno : Nat) (pending : Option String) (ln : String) (lo : Lex.LineOut)
    (h : Lex.line lno pending ln = .ok lo) (t : Tok) (ht : t ∈ lo.toks) :
    t.loc.line = lno ∧ 1 ≤ t.loc.col ∧ t.loc.col ≤ ln.utf8ByteSize :=
  line_tok_col lno pending ln lo h t ht

/-- the weaker bound asked for: `col ≤ length + 1` -/
theorem token_col_in_line' (lno : Nat) (pending : Option String) (ln : String) (lo : Lex.LineOut)
    (h : Lex.line lno pending ln = .ok lo) (t : Tok) (ht : t ∈ lo.toks) :
    t.loc.line = lno ∧ 1 ≤ t.loc.col ∧ t.loc.col ≤ ln.utf8ByteSize + 1 := by
  obtain ⟨h1, h2, h3⟩ := token_col_in_line lno pending ln lo h t ht
  exact ⟨h1, h2, Nat.le_succ_of_le h3⟩

/-- **P1, errors.** The column of a lex error is the column of a byte of the line. -/
theorem lex_error_col_in_line (lno : Nat) (pending : Option String) (ln : String) (c : Nat)
    (h : Lex.line lno pending ln = .error c) : 1 ≤ c ∧ c ≤ ln.utf8ByteSize :=
  line_err_col lno pending ln c h

/-- **P1, end of a line / end of input.** After a line the lexer stands one column past its last byte
(`lo.endCol`); the string literal still pending at end of input is delivered (`Lexer::finish`) as a
string token at the position it is given - `process_file` gives it the position where the lexer stands
after the last line. -/
theorem finish_token_position (lno : Nat) (pending : Option String) (ln : String) (lo : Lex.LineOut)
    (h : Lex.line lno pending ln = .ok lo) :
    lo.endCol = ln.utf8ByteSize + 1 ∧
    ∀ t, Lex.finish lo.pending ⟨lno, lo.endCol⟩ = some t →
      t.kind = .strLit ∧ t.loc = ⟨lno, ln.utf8ByteSize + 1⟩ := by
  have he := line_endCol lno pending ln lo h
  refine ⟨he, fun t ht => ⟨finish_kind ht, ?_⟩⟩
  cases hp : lo.pending with
  | none => rw [hp] at ht; cases ht
  | some p =>
    rw [hp] at ht
    simp only [Lex.finish, Option.map_some, Option.some.injEq] at ht
    subst ht
    rw [he]

/-! ## P2 token positions of a file -/

/-- **P2.** A token position of the file is on one of its lines, `line = i + 1` for a line
`lines[i] = raw`, at a 1-based column of that line. -/
theorem tokenPos_col (lines : List Bytes) (l : Loc) (h : TokenPos lines l) :
    ∃ (i : Nat) (raw : Bytes), lines[i]? = some raw ∧ l.line = i + 1 ∧ 1 ≤ l.col ∧ l.col ≤ raw.length + 1 := by
  obtain ⟨i, raw, h1, h2, h3, h4⟩ := tokenPos_atByte lines l h
  exact ⟨i, raw, h1, h2, h3, Nat.le_succ_of_le h4⟩

/-- **P2, sharp.** ... in fact at the column of one of its bytes: `col ≤ length`. -/
theorem tokenPos_col_at_byte (lines : List Bytes) (l : Loc) (h : TokenPos lines l) :
    ∃ (i : Nat) (raw : Bytes), lines[i]? = some raw ∧ l.line = i + 1 ∧ 1 ≤ l.col ∧ l.col ≤ raw.length :=
  tokenPos_atByte lines l h

/-! ## P3 every reported position is inside the file -/

/-- **P3, exact.** Every diagnostic of `process_file` is one of
* `Io` without a position (`0:0`),
* any class, at a BYTE of a line of the file: `line = i + 1`, `1 ≤ col ≤ length of lines[i]`,
* `Parse` at the END OF THE INPUT: on the last line, one column past its last byte. -/
theorem file_failure_position_exact (env : Env) (budget : Option Nat) (src : Bytes) (cls detail : String)
    (loc : Loc) (h : (processFile env budget src).outcome = .failure cls detail loc) :
    (cls = "Io" ∧ loc = Loc.nil) ∨
    (∃ (i : Nat) (raw : Bytes), (splitLines src)[i]? = some raw ∧
      loc.line = i + 1 ∧ 1 ≤ loc.col ∧ loc.col ≤ raw.length) ∨
    (cls = "Parse" ∧ ∃ raw : Bytes, (splitLines src).getLast? = some raw ∧
      loc = ⟨(splitLines src).length, raw.length + 1⟩) := by
  rcases C08Loc.file_failure_located env budget src cls detail loc h with
    hf | ⟨rfl, _, rfl⟩ | ⟨_, s, _, _, _, _, _, _, _, _, hl, htok, _⟩
  · rcases (planOf_final_pos src cls detail loc hf).2 with ⟨rfl, rfl⟩ | ⟨_, hb⟩ | ⟨rfl, hb | he⟩
    · exact .inl ⟨rfl, rfl⟩
    · exact .inr (.inl hb)
    · exact .inr (.inl hb)
    · exact .inr (.inr ⟨rfl, he⟩)
  · exact .inl ⟨rfl, rfl⟩
  · exact .inr (.inl (tokenPos_atByte _ _ (htok loc hl)))

/-- **P3.** A failing run that reports a position reports a position INSIDE THE FILE: on line `i + 1`
where `lines[i] = raw` is a line of the file, at a column between 1 and `raw.length + 1` (1-based byte
columns; `raw.length + 1` is the end of the line). All classes: decoder, lexer, parser (in a line, at
the pending string literal at end of input, at `EOF`), execution, I/O. -/
theorem file_failure_position_in_file (env : Env) (budget : Option Nat) (src : Bytes) (cls detail : String)
    (loc : Loc) (h : (processFile env budget src).outcome = .failure cls detail loc) (hl : loc ≠ Loc.nil) :
    ∃ (i : Nat) (raw : Bytes), (splitLines src)[i]? = some raw ∧
      loc.line = i + 1 ∧ 1 ≤ loc.col ∧ loc.col ≤ raw.length + 1 := by
  rcases file_failure_position_exact env budget src cls detail loc h with ⟨_, rfl⟩ | hb | ⟨_, he⟩
  · exact absurd rfl hl
  · exact inFile_of_atByte_or_atEnd (.inl hb)
  · exact inFile_of_atByte_or_atEnd (.inr he)

/-- **P3, lines** (`k = 0`): the reported line is a line of the file - never the line after the last
one, also not for an error at end of input. -/
theorem file_failure_line_in_file (env : Env) (budget : Option Nat) (src : Bytes) (cls detail : String)
    (loc : Loc) (h : (processFile env budget src).outcome = .failure cls detail loc) (hl : loc ≠ Loc.nil) :
    1 ≤ loc.line ∧ loc.line ≤ (splitLines src).length ∧ 1 ≤ loc.col := by
  obtain ⟨i, raw, hi, h1, h2, _⟩ := file_failure_position_in_file env budget src cls detail loc h hl
  have : i < (splitLines src).length := by
    rcases Nat.lt_or_ge i (splitLines src).length with h | h
    · exact h
    · rw [List.getElem?_eq_none h] at hi; cases hi
  omega

/-- only the parser's end-of-input complaint is reported past the last byte of a line: every other
position is the position of a byte -/
theorem file_failure_position_at_byte (env : Env) (budget : Option Nat) (src : Bytes) (cls detail : String)
    (loc : Loc) (h : (processFile env budget src).outcome = .failure cls detail loc) (hl : loc ≠ Loc.nil)
    (hc : cls ≠ "Parse") :
    ∃ (i : Nat) (raw : Bytes), (splitLines src)[i]? = some raw ∧
      loc.line = i + 1 ∧ 1 ≤ loc.col ∧ loc.col ≤ raw.length := by
  rcases file_failure_position_exact env budget src cls detail loc h with ⟨_, rfl⟩ | hb | ⟨rfl, _⟩
  · exact absurd rfl hl
  · exact hb
  · exact absurd rfl hc

/-! ## P4 which classes carry a position -/

/-- **P4.** Every diagnostic of a class other than `Io` carries a position: `Lex`, `Parse` (also at
end of input: the empty input is accepted, so there is a last line to point at) and all execution
classes. -/
theorem file_failure_position_known_classes (env : Env) (budget : Option Nat) (src : Bytes)
    (cls detail : String) (loc : Loc) (h : (processFile env budget src).outcome = .failure cls detail loc)
    (hc : cls ≠ "Io") : loc ≠ Loc.nil ∧ 1 ≤ loc.line ∧ 1 ≤ loc.col := by
  rcases file_failure_position_exact env budget src cls detail loc h with ⟨rfl, _⟩ | hb | ⟨_, he⟩
  · exact absurd rfl hc
  · obtain ⟨i, raw, _, h1, h2, _⟩ := hb
    refine ⟨?_, by omega, h2⟩
    rintro rfl
    simp [Loc.nil] at h1
  · obtain ⟨h1, _, _⟩ := atEnd_line he
    obtain ⟨raw, _, rfl⟩ := he
    refine ⟨?_, h1, by simp⟩
    intro e
    rw [e] at h1
    simp [Loc.nil] at h1

/-- **P4, `Io`.** An `Io` diagnostic may come without a position - exactly when it is not the write error
of a statement: a line that is not valid UTF-8, the file header that cannot be written, or the final
flush (`C08Loc.file_failure_located`).  With a position it is the write error of a statement, located
at a token of that statement (`C08Loc.file_io_error_located`), inside the file by P3. -/
theorem file_failure_without_position (env : Env) (budget : Option Nat) (src : Bytes)
    (cls detail : String) (h : (processFile env budget src).outcome = .failure cls detail Loc.nil) :
    cls = "Io" := by
  rcases file_failure_position_exact env budget src cls detail Loc.nil h with ⟨rfl, _⟩ | hb | ⟨_, he⟩
  · rfl
  · obtain ⟨i, raw, _, h1, _, _⟩ := hb
    simp [Loc.nil] at h1
  · obtain ⟨h1, _, _⟩ := atEnd_line he
    simp [Loc.nil] at h1

/-! ## non-vacuity -/

private def b (s : String) : Bytes := s.toUTF8.toList

/-- a lex error in the middle of line 3 (`@` at byte 9 of `let c = @ 3;`) -/
private def srcLex : Bytes := b "let a = 1;\nlet b = 2;\nlet c = @ 3;\nlet d = 4;\n"

example : (processFile default none srcLex).outcome = .failure "Lex" "" ⟨3, 9⟩ := by
  rw [processFile_eq]; decide +kernel

example : (splitLines srcLex)[2]? = some (b "let c = @ 3;") ∧ (b "let c = @ 3;").length = 12 := by
  decide +kernel

/-- P3 applied to it -/
example : ∃ (i : Nat) (raw : Bytes), (splitLines srcLex)[i]? = some raw ∧
    (3 : Nat) = i + 1 ∧ 1 ≤ (9 : Nat) ∧ 9 ≤ raw.length + 1 :=
  file_failure_position_in_file default none srcLex "Lex" "" ⟨3, 9⟩
    (by rw [processFile_eq]; decide +kernel) (by decide)

/-- a parse error at `EOF`: the call is not closed. The file has 3 lines, the last one is `  2,` (4
bytes): the diagnostic is at 3:5 - the last line, one past its last byte; with or without a terminator
after the last line, and with `\r\n` terminators (the `\r` is not part of the line) -/
private def srcEof : Bytes := b "let a = 1;\nlet b = f(\n  2,\n"

example : (processFile default none srcEof).outcome = .failure "Parse" "" ⟨3, 5⟩ := by
  rw [processFile_eq]; decide +kernel
example : (processFile default none (b "let a = 1;\nlet b = f(\n  2,")).outcome = .failure "Parse" "" ⟨3, 5⟩ := by
  rw [processFile_eq]; decide +kernel
example : (processFile default none (b "let a = 1;\r\nlet b = f(\r\n  2,\r\n")).outcome =
    .failure "Parse" "" ⟨3, 5⟩ := by
  rw [processFile_eq]; decide +kernel

example : (splitLines srcEof).length = 3 ∧ (splitLines srcEof).getLast? = some (b "  2,") := by
  decide +kernel

example : 1 ≤ (3 : Nat) ∧ 3 ≤ (splitLines srcEof).length ∧ 1 ≤ (5 : Nat) :=
  file_failure_line_in_file default none srcEof "Parse" "" ⟨3, 5⟩
    (by rw [processFile_eq]; decide +kernel) (by decide)

/-- a string literal pending at end of input is handed to the parser at the same place: the end of the
last line (`  "y"  ` has 7 bytes) -/
example : (processFile default none (b "let a = 1;\nlet b = \"x\"\n  \"y\"  \n")).outcome =
    .failure "Parse" "" ⟨3, 8⟩ := by
  rw [processFile_eq]; decide +kernel

/-- a parse error inside a line: at the rejected token (the second `=`, 3:4) -/
example : (processFile default none (b "let a = 1;\nlet b\n = = 2;")).outcome = .failure "Parse" "" ⟨3, 4⟩ := by
  rw [processFile_eq]; decide +kernel

/-- an execution error: `nope` is not defined; reported at its token, 3:3 -/
private def srcExec : Bytes := b "let a = 1;\nlet b =\n  nope;\n"

example : (processFile default none srcExec).outcome = .failure "Name" "" ⟨3, 3⟩ := by
  rw [processFile_eq]; decide +kernel

example : ∃ (i : Nat) (raw : Bytes), (splitLines srcExec)[i]? = some raw ∧
    (3 : Nat) = i + 1 ∧ 1 ≤ (3 : Nat) ∧ 3 ≤ raw.length :=
  file_failure_position_at_byte default none srcExec "Name" "" ⟨3, 3⟩
    (by rw [processFile_eq]; decide +kernel) (by decide) (by decide)

/-- P4: `Io` without a position - the second line (byte `0xff`) is not valid UTF-8 -/
example : (processFile default none [108, 101, 116, 10, 255, 10]).outcome = .failure "Io" "" Loc.nil := by
  rw [processFile_eq]; decide +kernel

/-- P4: `Io` WITH a position - the write error of a statement.  (Through `process_file` this needs more
than the 8192 bytes the `BufWriter` buffers, too much for a kernel computation; here the same statement
path with a 4-byte buffer and room for 20 more bytes on the device: the first packet statement of
`Example.prog`, `p;` at 3:1, fails with `Io` at 3:1.) -/
private def errLoc : Res PState → Option (ErrKind × Loc)
  | .err e l => some (e, l)
  | _ => none

example : errLoc (addStmts Example.env
      { wr := { cap := 4, buf := [], dev := Pcap.header, budget := some 20 } } Example.prog) =
    some (.io, ⟨3, 1⟩) ∧ ErrKind.io.cls = "Io" := by decide

/-- the empty input, and an input without tokens, are accepted: no end-of-input complaint without a line
to point at -/
example : (processFile default none []).outcome = .success ∧ (processFile default none [10]).outcome = .success := by
  rw [processFile_eq, processFile_eq]; decide +kernel

end Resynth.C08Pos
