import Resynth.Lemmas.LitDecode
import Resynth.Lemmas.LexMerge
/-!
# C05 (the literal half) — what a string literal contributes

Text in a string literal contributes its source (UTF-8) bytes, `|..|` sections contribute the
hex-decoded bytes (separators and spaces ignored), adjacent literals join their parts in order.

Model: `decodeStr` (`Model/Lit.lean`, `Buf::from_str` in src/str.rs) and `Lex.line`
(`Model/Lex.lean`). Reference rendering of hex sections: `Spec.renderItems` / `Spec.Rendering`
(`Spec/StrLit.lean`). The builder-payload half of C05 is added below this section by others.
-/
namespace Resynth.C05
open Resynth Resynth.Lex Resynth.Spec Resynth.LexLemmas

/-! ## plain text -/

/-- text without `|` contributes exactly its UTF-8 bytes -/
theorem decode_plain (s : String) (h : ∀ c ∈ s.toList, c ≠ '|') :
    decodeStr s = some s.toUTF8.toList :=
  LitDecode.decode_plain s h

/-! ## hex sections -/

/-- A `|…|` section contributes exactly the bytes whose hex digits it holds: for every byte
list `bs` and EVERY rendering `items` of it - any letter case per digit, any interleaving of
white space and the separators `: . _ - ' \`` between and inside the digit pairs. -/
theorem decode_section (items : List HexItem) (bs : Bytes) (h : Rendering items bs) :
    decodeStr (String.ofList ('|' :: renderItems items ++ ['|'])) = some bs :=
  LitDecode.decode_section_of_rendering items bs h

/-- the closing bar may be missing at the end of the literal -/
theorem decode_section_unterminated (items : List HexItem) (bs : Bytes) (h : Rendering items bs) :
    decodeStr (String.ofList ('|' :: renderItems items)) = some bs :=
  LitDecode.decode_section_unterminated items bs h.1 h.2

/-! ## composition -/

/-- If `a` ends outside a hex section, decoding distributes over concatenation: the parts
contribute in order. -/
theorem decode_append (a b : String) (h : LitDecode.endsPlain a.toList = true) :
    decodeStr (a ++ b) = (do let x ← decodeStr a; let y ← decodeStr b; pure (x ++ y)) :=
  LitDecode.decode_append a b h

/-- In general (a hex section may be open at the end of `a`) the second part is decoded in the
state the first part ends in. -/
theorem decode_append_general (a b : String) :
    decodeStr (a ++ b) =
      match LitDecode.decodeState a.toList false none, decodeStr a with
      | some (m, hi), some x => decodeStrAux b.toList m hi x
      | _, _ => none :=
  LitDecode.decode_append_general a b

/-- plain text, a section, plain text: the three contributions in order -/
theorem decode_text_section_text (pre post : List Char) (items : List HexItem) (bs : Bytes)
    (hpre : ∀ c ∈ pre, c ≠ '|') (hpost : ∀ c ∈ post, c ≠ '|') (h : Rendering items bs) :
    decodeStr (String.ofList pre ++ String.ofList ('|' :: renderItems items ++ ['|']) ++ String.ofList post) =
      some (utf8Bytes pre ++ bs ++ utf8Bytes post) := by
  have e1 : LitDecode.endsPlain (String.ofList pre).toList = true := by
    rw [String.toList_ofList]
    have : ∀ (l : List Char), (∀ c ∈ l, c ≠ '|') → LitDecode.modeAfter false l = false := by
      intro l hl
      induction l with
      | nil => rfl
      | cons c l ih =>
        have hc : c ≠ '|' := hl c (by simp)
        rw [LitDecode.modeAfter_cons]
        simp only [beq_iff_eq, hc, if_false]
        exact ih (fun x hx => hl x (by simp [hx]))
    simp [LitDecode.endsPlain, this pre hpre]
  have hbars : LitDecode.modeAfter false
      (String.ofList pre ++ String.ofList ('|' :: renderItems items ++ ['|'])).toList = false := by
    rw [String.toList_append, String.toList_ofList, String.toList_ofList]
    have hfold : ∀ (l1 l2 : List Char) (m0 : Bool),
        LitDecode.modeAfter m0 (l1 ++ l2) = LitDecode.modeAfter (LitDecode.modeAfter m0 l1) l2 := by
      intro l1 l2 m0; simp [LitDecode.modeAfter, List.foldl_append]
    have hpl : ∀ (l : List Char) (m0 : Bool), (∀ c ∈ l, c ≠ '|') → LitDecode.modeAfter m0 l = m0 := by
      intro l m0 hl
      induction l with
      | nil => rfl
      | cons c l ih =>
        have hc : c ≠ '|' := hl c (by simp)
        rw [LitDecode.modeAfter_cons]
        simp only [beq_iff_eq, hc, if_false]
        exact ih (fun x hx => hl x (by simp [hx]))
    have hitems : ∀ c ∈ renderItems items, c ≠ '|' := by
      intro c hc
      simp only [renderItems, List.mem_map] at hc
      obtain ⟨it, hit, rfl⟩ := hc
      cases it with
      | nib n u => have := (LitDecode.nibChar_props n u).2.2.2; simpa [renderItem] using this
      | fill f => exact LitDecode.isFiller_ne_bar (h.1 f hit)
    rw [hfold, hpl pre false hpre, List.cons_append, LitDecode.modeAfter_cons]
    simp only [beq_self_eq_true, if_true, Bool.not_false]
    rw [hfold, hpl _ true hitems]
    rfl
  have e2 : LitDecode.endsPlain (String.ofList pre ++ String.ofList ('|' :: renderItems items ++ ['|'])).toList = true := by
    simp only [LitDecode.endsPlain, hbars]; rfl
  rw [decode_append _ _ e2, decode_append _ _ e1, LitDecode.decode_plain_chars pre hpre,
    decode_section items bs h, LitDecode.decode_plain_chars post hpost]
  rfl

/-! ## adjacent literals are merged raw by the lexer -/

/-- Same line: `"a"`, optional white space, `"b"`, then `;` - the lexer delivers ONE string
token whose text is the raw concatenation (after the literal `p` carried in from preceding
lines, if any), immediately before the `;` token. -/
theorem merge_same_line (lno : Nat) (p : Option String) (a sep b : List Char)
    (ha : ∀ c ∈ a, c ≠ '"') (hb : ∀ c ∈ b, c ≠ '"') (hsep : sep.all isWs = true) :
    (Lex.line lno p (String.ofList ('"' :: (a ++ '"' :: (sep ++ '"' :: (b ++ ['"', ';'])))))).map
        (fun o => (o.toks.map fun t => (t.kind, t.text), o.pending)) =
      .ok ([(.strLit, p.getD "" ++ String.ofList a ++ String.ofList b), (.semi, "")], none) := by
  have h := line_eq_spec lno p (String.ofList ('"' :: (a ++ '"' :: (sep ++ '"' :: (b ++ ['"', ';'])))))
  rw [lexLine_two_strings lno p a sep b ha hb hsep] at h
  cases hl : Lex.line lno p (String.ofList ('"' :: (a ++ '"' :: (sep ++ '"' :: (b ++ ['"', ';']))))) with
  | error e => rw [hl] at h; cases h
  | ok o =>
    rw [hl] at h
    simp only [Except.map, Except.ok.injEq, Prod.mk.injEq] at h ⊢
    rw [h.1, h.2]; simp

/-- Consecutive lines: `"a"` at the end of one line carries the literal `a` (after `p`, if any) to
the next line - as a pending literal `some _`, also when it is empty - where `"b";` yields ONE
string token with the raw concatenation. -/
theorem merge_across_lines (lno : Nat) (p : Option String) (a b : List Char)
    (ha : ∀ c ∈ a, c ≠ '"') (hb : ∀ c ∈ b, c ≠ '"') :
    (Lex.line lno p (String.ofList ('"' :: (a ++ ['"'])))).map (fun o => (o.toks, o.pending)) =
        .ok ([], some (p.getD "" ++ String.ofList a)) ∧
    (Lex.line (lno + 1) (some (p.getD "" ++ String.ofList a)) (String.ofList ('"' :: (b ++ ['"', ';'])))).map
        (fun o => (o.toks.map fun t => (t.kind, t.text), o.pending)) =
      .ok ([(.strLit, p.getD "" ++ String.ofList a ++ String.ofList b), (.semi, "")], none) := by
  constructor
  · rw [line_eq_spec, lexLine_string_only lno p a ha]
  · have h := line_eq_spec (lno + 1) (some (p.getD "" ++ String.ofList a))
      (String.ofList ('"' :: (b ++ ['"', ';'])))
    rw [lexLine_string_semi (lno + 1) _ b hb] at h
    cases hl : Lex.line (lno + 1) (some (p.getD "" ++ String.ofList a))
        (String.ofList ('"' :: (b ++ ['"', ';']))) with
    | error e => rw [hl] at h; cases h
    | ok o =>
      rw [hl] at h
      simp only [Except.map, Except.ok.injEq, Prod.mk.injEq] at h ⊢
      rw [h.1, h.2]; simp

/-- A carried literal is not lost when NO further literal follows: `"a"` at the end of one line and
`;` on the next yield the string token `a` (after `p`, if any) before the `;`. -/
theorem merge_across_lines_flush (lno : Nat) (p : Option String) (a : List Char) (ha : ∀ c ∈ a, c ≠ '"') :
    (Lex.line lno p (String.ofList ('"' :: (a ++ ['"'])))).map (fun o => (o.toks, o.pending)) =
        .ok ([], some (p.getD "" ++ String.ofList a)) ∧
    (Lex.line (lno + 1) (some (p.getD "" ++ String.ofList a)) (String.ofList [';'])).map
        (fun o => (o.toks, o.pending)) =
      .ok ([⟨.strLit, p.getD "" ++ String.ofList a, ⟨lno + 1, 1⟩⟩, ⟨.semi, "", ⟨lno + 1, 1⟩⟩], none) := by
  constructor
  · rw [line_eq_spec, lexLine_string_only lno p a ha]
  · rw [line_eq_spec, lexLine_semi_only]

/-- In particular an EMPTY first literal is preserved across the line break: `""` at the end of a
line (nothing carried in) is carried as `some ""`; the next line `"b";` yields the string token `b`,
and the next line `;` yields the EMPTY string token. (Before the C10 fix the empty literal was
indistinguishable from "nothing pending" and `""` ⏎ `;` produced no string token at all.) -/
theorem merge_across_lines_empty (lno : Nat) (b : List Char) (hb : ∀ c ∈ b, c ≠ '"') :
    (Lex.line lno none (String.ofList ['"', '"'])).map (fun o => (o.toks, o.pending)) = .ok ([], some "") ∧
    (Lex.line (lno + 1) (some "") (String.ofList ('"' :: (b ++ ['"', ';'])))).map
        (fun o => (o.toks.map fun t => (t.kind, t.text), o.pending)) =
      .ok ([(.strLit, String.ofList b), (.semi, "")], none) ∧
    (Lex.line (lno + 1) (some "") (String.ofList [';'])).map (fun o => (o.toks, o.pending)) =
      .ok ([⟨.strLit, "", ⟨lno + 1, 1⟩⟩, ⟨.semi, "", ⟨lno + 1, 1⟩⟩], none) := by
  have h1 := merge_across_lines lno none [] b (by simp) hb
  have h2 := merge_across_lines_flush lno none [] (by simp)
  simp only [Option.getD_none, List.nil_append, String.ofList_nil, String.append_empty,
    String.empty_append] at h1 h2
  exact ⟨h1.1, h1.2, h2.2⟩

/-- The merged token therefore denotes the bytes of the concatenated RAW text; when the first
literal ends outside a hex section these are the bytes of `a` followed by the bytes of `b`.
(Merging is raw: a hex section may start in one literal and end in the next, see the example
below; `decode_append_general` describes that case.) -/
theorem merge_is_concat (loc : Loc) (a b : List Char) :
    litOfToken ⟨.strLit, String.ofList a ++ String.ofList b, loc⟩ =
      (decodeStr (String.ofList (a ++ b))).map Lit.str ∧
    (LitDecode.endsPlain a = true →
      decodeStr (String.ofList a ++ String.ofList b) =
        (do let x ← decodeStr (String.ofList a); let y ← decodeStr (String.ofList b); pure (x ++ y))) := by
  constructor
  · simp [litOfToken, String.ofList_append]
  · intro h
    exact decode_append _ _ (by rw [String.toList_ofList]; exact h)

/-! ## every byte string can be written -/

theorem every_byte_value_expressible (bs : Bytes) : ∃ t : String, decodeStr t = some bs :=
  LitDecode.every_bytes_expressible bs

/-- explicitly: `|` + two lower-case hex digits per byte + `|` -/
theorem canonical_literal (bs : Bytes) :
    decodeStr (String.ofList ('|' :: renderItems (renderBytes bs) ++ ['|'])) = some bs :=
  LitDecode.decode_renderBytes bs

/-! ## non-vacuity -/

example : decodeStr "GET / HTTP/1.1" = some "GET / HTTP/1.1".toUTF8.toList :=
  decode_plain _ (by decide)
example : decodeStr "a|41 42:43|b" = some [97, 65, 66, 67, 98] := by
  simp [decodeStr, decodeStrAux, LitDecode.utf8_eq]; decide
example : Rendering [.nib 13 true, .fill '\'', .nib 14 false, .fill ' ', .nib 10 false, .nib 13 true] [0xde, 0xad] := by
  refine ⟨?_, by decide⟩
  intro c hc; simp at hc; rcases hc with rfl | rfl <;> decide
example : renderItems [.nib 13 true, .fill '\'', .nib 14 false, .fill ' ', .nib 10 false, .nib 13 true] =
    "D'e aD".toList := by decide
example : (Lex.line 3 none "\"ab\" \t\"cd\";").map (fun o => o.toks) =
    .ok [⟨.strLit, "abcd", ⟨3, 11⟩⟩, ⟨.semi, "", ⟨3, 11⟩⟩] := rfl
-- a hex section spanning two adjacent literals: raw merge, then decode
example : (Lex.line 1 none "\"|41 4\" \"2|\";").map (fun o => o.toks.map (·.text)) = .ok ["|41 42|", ""] := rfl
-- an empty literal at the end of a line is not lost
example : ((Lex.line 1 none "f(\"\"").map (·.pending), (Lex.line 2 (some "") ");").map (fun o => o.toks.map (·.kind))) =
    (.ok (some ""), .ok [.strLit, .rparen, .semi]) := rfl
example : decodeStr "|41 42|" = some [0x41, 0x42] := by decide
example : LitDecode.endsPlain "|41 4".toList = false := by decide

end Resynth.C05
