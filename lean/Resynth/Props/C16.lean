import Resynth.Lemmas.DnsHost
/-!
# C16 — DNS, NetBIOS and DHCP builders emit messages an independent decoder reads back

Builders: `dnsHostQuery`, `dnsHostResponse`, `dnsNameFrom`, `dnsFlags`, `netbiosEncode` (Model/Stdlib.lean),
`dhcpHdr` (Model/Flows.lean) and the pure `dnsName`, `dnsPointer`, `dnsHostFrames` of `Lemmas/Builders.lean`
(namespace `Resynth.Wire`), each tied to its `exec` arm by the bridge lemma `Wire.exec_<name>` there
(`exec_dns_name`, `exec_dns_pointer`, `exec_dns_flags`, `exec_netbios_ns_flags`, `exec_dns_hdr`,
`exec_dns_question`, `exec_dns_answer`, `exec_dns_host`, `exec_netbios_encode_some/none`, `exec_dhcp_hdr`).
Decoders: `Spec/Dns.lean` (RFC 1035 message / name / pointer, RFC 1001 first-level encoding,
RFC 2131 field offsets, UDP/IPv4 socket pair); they share nothing with the builders.
-/
namespace Resynth.C16
open Spec Wire

/-! ## 1. `dns::host` -/

/-- what the decoder must return for the query -/
def expectedQuery (labels : List Bytes) : DnsMsg :=
  { id := 0x1234
    flags := { qr := false, opcode := 0, aa := false, tc := false, rd := true, ra := false, z := false,
               ad := false, cd := false, rcode := 0 }
    qdcount := 1, ancount := 0, nscount := 0, arcount := 0
    questions := [⟨labels, 1, 1⟩], answers := [], authority := [], additional := [] }

/-- … and for the response: one A/IN answer per address, each with the queried name and the TTL -/
def expectedResponse (labels : List Bytes) (ttl : Nat) (ips : List Nat) : DnsMsg :=
  { id := 0x1234
    flags := { qr := true, opcode := 0, aa := false, tc := false, rd := false, ra := true, z := false,
               ad := false, cd := false, rcode := 0 }
    qdcount := 1, ancount := ips.length, nscount := 0, arcount := 0
    questions := [⟨labels, 1, 1⟩]
    answers := ips.map fun ip => ⟨labels, 1, 1, ttl, be32 ip⟩
    authority := [], additional := [] }

/-- For every non-empty list of labels (each 1..63 bytes, no '.'), the name written with dots, every
`ttl < 2^32` and every list of fewer than 2^16 addresses: both messages of `dns::host` are parsed
completely (nothing left over) — same id 0x1234, query with only RD set, response with QR and RA,
the question echoing the labels with type A class IN, ANCOUNT = number of addresses, every answer
carrying the labels, A/IN, the TTL and the 4 address bytes. -/
theorem host_decodes (labels : List Bytes) (hne : labels ≠ []) (hl : ∀ l ∈ labels, validLabel l = true)
    (ttl : Nat) (httl : ttl < 4294967296) (ips : List Nat) (hn : ips.length < 65536) :
    parseDnsMessage (dnsHostQuery (dnsNameFrom (joinDots labels))) = some (expectedQuery labels) ∧
    parseDnsMessage (dnsHostResponse (dnsNameFrom (joinDots labels)) ttl ips) =
      some (expectedResponse labels ttl ips) := by
  have hq := fun X => parseName_dnsNameFrom labels X hne hl
  refine ⟨parseDnsMessage_hostQuery _ labels hq, ?_⟩
  rw [parseDnsMessage_hostResponse _ labels hq ttl ips hn, Nat.mod_eq_of_lt httl]
  rfl

/-- The same for an arbitrary name, with `labels` what the builder's splitter makes of it: it is
enough that those are 1..63 bytes long. (`split_joinDots` below shows the splitter inverts
`joinDots`, so this covers `host_decodes`.) -/
theorem host_decodes_name (name : Bytes) (hl : ∀ l ∈ dnsSplit name, 0 < l.length ∧ l.length ≤ 63)
    (ttl : Nat) (httl : ttl < 4294967296) (ips : List Nat) (hn : ips.length < 65536) :
    parseDnsMessage (dnsHostQuery (dnsNameFrom name)) = some (expectedQuery (dnsSplit name)) ∧
    parseDnsMessage (dnsHostResponse (dnsNameFrom name) ttl ips) =
      some (expectedResponse (dnsSplit name) ttl ips) := by
  have hq : ∀ X, parseName (dnsNameFrom name ++ X) = some (dnsSplit name, X) := fun X => by
    unfold dnsNameFrom; rw [List.append_assoc]; exact parseName_labels _ X hl
  refine ⟨parseDnsMessage_hostQuery _ _ hq, ?_⟩
  rw [parseDnsMessage_hostResponse _ _ hq ttl ips hn, Nat.mod_eq_of_lt httl]
  rfl

theorem split_joinDots (labels : List Bytes) (hne : labels ≠ []) (h : ∀ l ∈ labels, l.contains 46 = false) :
    dnsSplit (joinDots labels) = labels := dnsSplit_joinDots labels hne h

/-- … and conversely every name is the dotted form of the (dot-free, at least one) pieces the splitter
returns: `dnsSplit` *is* "split on '.'", and `host_decodes` / `host_decodes_name` say the same thing. -/
theorem joinDots_split (name : Bytes) :
    joinDots (dnsSplit name) = name ∧ dnsSplit name ≠ [] ∧ ∀ l ∈ dnsSplit name, l.contains 46 = false :=
  joinDots_dnsSplit name

/-- The socket pair: the `dns::host` arm returns exactly two packets; read back at the IPv4/UDP
offsets (Ethernet-framed or raw alike) the first goes client:32768 → ns:53 and carries the query,
the second goes ns:53 → client:32768 and carries the response. -/
theorem host_socket_pair (fs : Fs) (h : Heap) (client ns : Nat) (hc : client < 4294967296) (hs : ns < 4294967296)
    (name : Bytes) (ttl : Nat) (httl : ttl < 4294967296) (raw : Bool) (ips : List Nat) :
    ∃ q r, exec fs "dns::host" none
              ⟨[.ip4 client, .str name, .u32 ttl, .ip4 ns, .bool raw], ips.map .ip4⟩ h = .ok (pktsOf [q, r], h) ∧
      parseUdpFrame raw q = some { srcIp := client, srcPort := 32768, dstIp := ns, dstPort := 53,
                                   payload := dnsHostQuery (dnsNameFrom name) } ∧
      parseUdpFrame raw r = some { srcIp := ns, srcPort := 53, dstIp := client, dstPort := 32768,
                                   payload := dnsHostResponse (dnsNameFrom name) ttl ips } := by
  have hb := exec_dns_host fs h client ns name (.u32 ttl) ttl rfl raw (ips.map .ip4) ips (mapM_toIp_ip4 ips)
  rw [Nat.mod_eq_of_lt httl] at hb
  refine ⟨_, _, hb, ?_, ?_⟩
  · have := clientDgram_csum_frame ⟨⟨client, 32768⟩, ⟨ns, 53⟩, raw⟩ (dnsHostQuery (dnsNameFrom name))
    simpa [Nat.mod_eq_of_lt hc, Nat.mod_eq_of_lt hs] using this
  · have := serverDgram_csum_frame ⟨⟨client, 32768⟩, ⟨ns, 53⟩, raw⟩ (dnsHostResponse (dnsNameFrom name) ttl ips)
    simpa [Nat.mod_eq_of_lt hc, Nat.mod_eq_of_lt hs] using this

/-! ## 2. flag helpers (`dns::flags`, `netbios::ns::flags`) -/

/-- For ALL opcode and rcode values and all 2^8 flag combinations the word is the sum of exactly the
named bits, `opcode mod 16` in bits 11–14 and `rcode mod 16` in bits 0–3. -/
theorem flags_bits (opcode rcode : Nat) (r aa tc rd ra z ad cd : Bool) :
    dnsFlags opcode r aa tc rd ra z ad cd rcode =
      (if r then 32768 else 0) + (opcode % 16) * 2048 + (if aa then 1024 else 0) + (if tc then 512 else 0) +
      (if rd then 256 else 0) + (if ra then 128 else 0) + (if z then 64 else 0) + (if ad then 32 else 0) +
      (if cd then 16 else 0) + rcode % 16 :=
  dnsFlags_sum opcode rcode r aa tc rd ra z ad cd

/-- read-back: each flag is recovered by testing its bit, the two 4-bit fields by shifting and masking -/
theorem flags_readback (opcode rcode : Nat) (r aa tc rd ra z ad cd : Bool) :
    let w := dnsFlags opcode r aa tc rd ra z ad cd rcode
    w < 65536 ∧ w.testBit 15 = r ∧ w / 2048 % 16 = opcode % 16 ∧ w.testBit 10 = aa ∧ w.testBit 9 = tc ∧
    w.testBit 8 = rd ∧ w.testBit 7 = ra ∧ w.testBit 6 = z ∧ w.testBit 5 = ad ∧ w.testBit 4 = cd ∧
    w % 16 = rcode % 16 := by
  intro w
  have hs := splitFlags_dnsFlags opcode rcode r aa tc rd ra z ad cd
  simp only [splitFlags, DnsFlagBits.mk.injEq] at hs
  exact ⟨dnsFlags_lt .., hs⟩

/-- the same as a decoded header word -/
theorem flags_split (opcode rcode : Nat) (r aa tc rd ra z ad cd : Bool) :
    splitFlags (dnsFlags opcode r aa tc rd ra z ad cd rcode) =
      { qr := r, opcode := opcode % 16, aa := aa, tc := tc, rd := rd, ra := ra, z := z, ad := ad, cd := cd,
        rcode := rcode % 16 } :=
  splitFlags_dnsFlags opcode rcode r aa tc rd ra z ad cd

/-! ## 3. names and pointers -/

/-- `dns::name("a.b.c")` / `DnsName::from`: labels of 1..63 bytes without dots, joined by dots, encode
as the RFC 1035 label sequence: the decoder returns exactly the labels and whatever followed -/
theorem name_roundtrip (labels : List Bytes) (hne : labels ≠ []) (hl : ∀ l ∈ labels, validLabel l = true)
    (rest : Bytes) :
    parseName (dnsNameFrom (joinDots labels) ++ rest) = some (labels, rest) :=
  parseName_dnsNameFrom labels rest hne hl

/-- the multi-argument form `dns::name(l1, l2, …)`: every argument is one label (dots allowed inside);
zero arguments give the root name -/
theorem name_parts_roundtrip (parts : List Bytes) (hp : parts.length ≠ 1)
    (hl : ∀ l ∈ parts, 0 < l.length ∧ l.length ≤ 63) (rest : Bytes) :
    parseName (dnsName true parts ++ rest) = some (parts, rest) := by
  have : dnsName true parts = parts.flatMap dnsLabel ++ [0] := by
    rcases parts with _ | ⟨a, _ | ⟨b, t⟩⟩
    · rfl
    · simp at hp
    · rfl
  rw [this, List.append_assoc]
  exact parseName_labels parts rest hl

/-- … with exactly one argument it is split on dots like `DnsName::from` -/
theorem name_single_roundtrip (labels : List Bytes) (hne : labels ≠ [])
    (hl : ∀ l ∈ labels, validLabel l = true) (rest : Bytes) :
    parseName (dnsName true [joinDots labels] ++ rest) = some (labels, rest) :=
  parseName_dnsNameFrom labels rest hne hl

/-- `complete: false` leaves out the terminator: the labels parse once a root label follows -/
theorem name_incomplete_roundtrip (parts : List Bytes) (hl : ∀ l ∈ parts, 0 < l.length ∧ l.length ≤ 63)
    (rest : Bytes) : parseName (dnsName false parts ++ 0 :: rest) = some (parts, rest) :=
  parseName_labels parts rest hl

/-- compression pointers: for every 16-bit argument the first byte has its top two bits set and the
second is the low byte; offsets below 2^14 are read back exactly -/
theorem pointer (off : Nat) :
    (∃ a b, dnsPointer off = [a, b] ∧ a.toNat / 64 = 3 ∧ b.toNat = off % 256) ∧
    (off < 16384 → ∀ rest, parsePointer (dnsPointer off ++ rest) = some (off, rest)) :=
  ⟨dnsPointer_bits off, fun h rest => parsePointer_dnsPointer off rest h⟩

/-! ## 4. NetBIOS names -/

/-- names of at most 15 bytes encode to 32 letters 'A'..'P' that decode back to the name padded with
spaces to 15 bytes followed by the suffix byte -/
theorem netbios_roundtrip (name : Bytes) (suffix : Nat) (h : name.length ≤ 15) :
    ∃ r, netbiosEncode name suffix = some r ∧ r.length = 32 ∧ (∀ x ∈ r, 65 ≤ x.toNat ∧ x.toNat ≤ 80) ∧
      netbiosDecode r = some (name ++ List.replicate (15 - name.length) 32 ++ [b8 suffix]) := by
  refine ⟨_, netbiosEncode_eq name suffix h, ?_, ?_, ?_⟩
  · rw [flatMap_nbPair_length, nbPadded_length name suffix h]
  · intro x hx
    simp only [List.mem_flatMap, nbPair, List.mem_cons, List.not_mem_nil, or_false] at hx
    obtain ⟨c, _, rfl | rfl⟩ := hx <;> (have := c.toNat_lt; rw [b8_toNat]; omega)
  · unfold netbiosDecode
    rw [flatMap_nbPair_length, nbPadded_length name suffix h, if_pos rfl, netbiosDecodePairs_flatMap]
    rfl

/-- longer names are refused (`None` in Rust, a runtime error in the script) -/
theorem netbios_refuses (name : Bytes) (suffix : Nat) (h : name.length > 15) :
    netbiosEncode name suffix = none := by
  unfold netbiosEncode; rw [if_pos (by omega)]

theorem netbios_refuses_exec (fs : Fs) (h : Heap) (name : Bytes) (suffix : Nat) (hl : name.length > 15) :
    exec fs "netbios::name::encode" none ⟨[.u8 suffix], [.str name]⟩ h = .err .runtime Loc.nil :=
  exec_netbios_encode_none fs h (.u8 suffix) suffix rfl [.str name] [name] rfl
    (by simpa using netbios_refuses name (suffix % 256) hl)

/-! ## 5. DHCP fixed header -/

/-- Every field sits at its RFC 2131 offset, the header is 240 bytes long and ends with the magic
cookie; `secs` and `flags` are zero; `chaddr`, `sname`, `file` are cut to 16/64/128 bytes when longer,
zero-padded when shorter, all zeros when absent. -/
theorem dhcp_layout (op htype hlen hops xid ci yi si gi : Nat) (ch sn fl : Option Bytes) (magic : Nat) :
    let H := dhcpHdr op htype hlen hops xid ci yi si gi ch sn fl magic
    let opt := fun (w : Nat) (o : Option Bytes) => match o with | none => zeros w | some v => padTrunc w v
    H.length = 240 ∧
    dhcpField .op H = some [b8 op] ∧ dhcpField .htype H = some [b8 htype] ∧
    dhcpField .hlen H = some [b8 hlen] ∧ dhcpField .hops H = some [b8 hops] ∧
    dhcpField .xid H = some (be32 xid) ∧ dhcpField .secs H = some [0, 0] ∧ dhcpField .flags H = some [0, 0] ∧
    dhcpField .ciaddr H = some (be32 ci) ∧ dhcpField .yiaddr H = some (be32 yi) ∧
    dhcpField .siaddr H = some (be32 si) ∧ dhcpField .giaddr H = some (be32 gi) ∧
    dhcpField .chaddr H = some (opt 16 ch) ∧ dhcpField .sname H = some (opt 64 sn) ∧
    dhcpField .file H = some (opt 128 fl) ∧ dhcpField .magic H = some (be32 magic) ∧
    H.drop 236 = be32 magic := by
  intro H opt
  have hopt : ∀ w o, fixedField w (Option.getD o []) = opt w o := by
    intro w o; cases o
    · simp [opt, fixedField, zeros]
    · simp [opt, fixedField_eq_padTrunc]
  have hol : ∀ w o, (opt w o).length = w := by
    intro w o; rw [← hopt, fixedField_length]
  have hH : H = [[b8 op], [b8 htype], [b8 hlen], [b8 hops], be32 xid, [0, 0], [0, 0], be32 ci, be32 yi, be32 si,
      be32 gi, opt 16 ch, opt 64 sn, opt 128 fl, be32 magic].flatten := by
    simp [H, dhcpHdr, hopt, be16]
    rfl
  have hL : H.length = 240 := by rw [hH]; simp [hol]
  have hmagic : dhcpField .magic H = some (be32 magic) := by
    rw [hH]; exact dhcpField_idx .magic _ 14 (by simp) (by simp [hol, DhcpField.offset]) rfl
  refine ⟨hL, ?_, ?_, ?_, ?_, ?_, ?_, ?_, ?_, ?_, ?_, ?_, ?_, ?_, ?_, hmagic, ?_⟩
  · rw [hH]; exact dhcpField_idx .op _ 0 (by simp) rfl rfl
  · rw [hH]; exact dhcpField_idx .htype _ 1 (by simp) rfl rfl
  · rw [hH]; exact dhcpField_idx .hlen _ 2 (by simp) rfl rfl
  · rw [hH]; exact dhcpField_idx .hops _ 3 (by simp) rfl rfl
  · rw [hH]; exact dhcpField_idx .xid _ 4 (by simp) rfl rfl
  · rw [hH]; exact dhcpField_idx .secs _ 5 (by simp) rfl rfl
  · rw [hH]; exact dhcpField_idx .flags _ 6 (by simp) rfl rfl
  · rw [hH]; exact dhcpField_idx .ciaddr _ 7 (by simp) rfl rfl
  · rw [hH]; exact dhcpField_idx .yiaddr _ 8 (by simp) rfl rfl
  · rw [hH]; exact dhcpField_idx .siaddr _ 9 (by simp) rfl rfl
  · rw [hH]; exact dhcpField_idx .giaddr _ 10 (by simp) rfl rfl
  · rw [hH]; exact dhcpField_idx .chaddr _ 11 (by simp) rfl (hol 16 ch)
  · rw [hH]; exact dhcpField_idx .sname _ 12 (by simp) (by simp [hol, DhcpField.offset]) (hol 64 sn)
  · rw [hH]; exact dhcpField_idx .file _ 13 (by simp) (by simp [hol, DhcpField.offset]) (hol 128 fl)
  · unfold dhcpField at hmagic
    rw [if_pos (by rw [hL]; decide)] at hmagic
    have h4 : (H.drop 236).length = 4 := by rw [List.length_drop, hL]
    have : (H.drop 236).take 4 = H.drop 236 := List.take_of_length_le (by omega)
    simp only [DhcpField.offset, DhcpField.width, Option.some.injEq] at hmagic
    rw [← this]; exact hmagic

/-- the three fixed-width fields spelled out -/
theorem padTrunc_cases (w : Nat) (v : Bytes) :
    (padTrunc w v).length = w ∧ (w ≤ v.length → padTrunc w v = v.take w) ∧
    (v.length ≤ w → padTrunc w v = v ++ zeros (w - v.length)) := by
  refine ⟨?_, ?_, ?_⟩
  · simp [padTrunc]; omega
  · intro h; simp [padTrunc, Nat.sub_eq_zero_of_le h]
  · intro h; simp [padTrunc, zeros, List.take_of_length_le h]

/-! ## 6. non-vacuity -/

/-- "www.a" resolved to two addresses: all hypotheses of `host_decodes` hold -/
example := host_decodes [[119, 119, 119], [97]] (by decide) (by decide) 229 (by decide)
  [0x01020304, 0x05060708] (by decide)
example : parseDnsMessage (dnsHostResponse (dnsNameFrom [119, 119, 119, 46, 97]) 229 [0x01020304, 0x05060708]) =
    some (expectedResponse [[119, 119, 119], [97]] 229 [0x01020304, 0x05060708]) := by decide +kernel
example : dnsSplit [119, 119, 119, 46, 97] = [[119, 119, 119], [97]] := by decide
/-- the label hypothesis is needed: "a..b" has an empty label, which reads as the end of the name -/
example : parseName (dnsNameFrom [97, 46, 46, 98]) = some ([[97]], [1, 98, 0]) := by decide
example : dnsFlags 0 true false false true true false false false 3 = 0x8183 := by decide
example : dnsFlags 0xf5 false true false false false false false false 0x1f = 0x2c0f := by decide
example : parsePointer (dnsPointer 12) = some (12, []) := by decide
/-- the bound is needed: offset 2^14 does not fit the 14 bits -/
example : parsePointer (dnsPointer 16384) = some (0, []) := by decide
example : (netbiosEncode [70, 82, 69, 68] 0x20).bind netbiosDecode =
    some ([70, 82, 69, 68] ++ List.replicate 11 32 ++ [0x20]) := by decide +kernel
example : netbiosEncode (List.replicate 16 65) 0 = none := by decide
/-- a 20-byte hardware address is cut to 16 bytes, a 2-byte server name is zero padded -/
example : dhcpField .chaddr (dhcpHdr 1 1 6 0 7 0 0 0 0 (some (List.replicate 20 7)) (some [97, 98]) none 0x63825363) =
    some (List.replicate 16 7) := by decide +kernel
example : dhcpField .sname (dhcpHdr 1 1 6 0 7 0 0 0 0 (some (List.replicate 20 7)) (some [97, 98]) none 0x63825363) =
    some ([97, 98] ++ List.replicate 62 0) := by decide +kernel
example : (dhcpHdr 1 1 6 0 7 0 0 0 0 none none none 0x63825363).drop 236 = [0x63, 0x82, 0x53, 0x63] := by
  decide +kernel

end Resynth.C16
