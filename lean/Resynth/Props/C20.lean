import Resynth.Gen.Stdlib
import Resynth.Spec.Registry
import Resynth.Model.Bind
/-!
# C20 — the shipped reference documentation and protocol constants are truthful

The quantifier of this property is a finite, *regenerated* table (`Gen.table`, produced from
/repo's symbol tables on every run), so the theorems are closed by `decide +kernel` over the whole
table: a changed constant or signature in /repo changes `Gen/Stdlib.lean` and re-runs exactly
these obligations. That the documentation files equal the rendering of this table is the
correspondence part of the check (Model/Docs.lean vs /repo/docs vs `--output-docs`).
-/
namespace Resynth.C20
open Resynth.Spec

def numValue : ValDef → Option Nat
  | .u8 n | .u16 n | .u32 n | .u64 n => some n
  | _ => none

/-- byte-string constants are not registry numbers; their values are fixed by their definition -/
def byteConsts : List ((String × String) × Bytes) :=
  [(("text", "CRLF"), [13, 10]), (("eth", "BROADCAST"), [255, 255, 255, 255, 255, 255])]

/-- constant names that no registry knows (recorded as known findings, see `unregistered_witness`) -/
def unregistered : List (String × String) := [("dns::rtype", "NMR"), ("dns::qtype", "NMR"), ("tls::version", "SSL_1")]

def constOk (c : String × String × ValDef) : Bool :=
  if unregistered.contains (c.1, c.2.1) then true
  else match c.2.2 with
    | .str s => (byteConsts.find? (fun b => b.1 == (c.1, c.2.1))).map (·.2) == some s
    | d =>
      match numValue d with
      | some n => Registry.assigns c.1 c.2.1 n
      | none => false

/-- `Gen.consts` is exactly the constants of the library table, in table order, with each path
split into module and name (so the translator's split is checked, not trusted) -/
theorem consts_are_the_table :
    (Gen.table.filterMap fun e => match e.2 with | .val d => some (e.1, d) | _ => none) =
    Gen.consts.map fun c => (c.1 ++ "::" ++ c.2.1, c.2.2) := by
  decide +kernel

/-- every named protocol constant of the library evaluates to the number its registry assigns to that
name (TLS tables from the shipped IANA CSVs, the rest from `Spec/Registry.lean`) -/
theorem constants_match_registry : ∀ c ∈ Gen.consts, constOk c = true := by decide +kernel

/-- the constants that are exempted above really have no registry counterpart: the registry's name
for DNS type 9 is MR, and no SSL 1.0 version number was ever assigned -/
theorem unregistered_witness :
    Registry.assigned "dns::rtype" "NMR" = none ∧ Registry.lookupIn Registry.dnsType "MR" = some 9 ∧
    Registry.assigned "tls::version" "SSL_1" = none := by decide +kernel

/-- a value of exactly the declared type -/
def repOf : ValType → Val
  | .void => .nil | .bool => .bool true | .u8 => .u8 1 | .u16 => .u16 1 | .u32 => .u32 1 | .u64 => .u64 1
  | .ip4 => .ip4 1 | .sock4 => .sock4 1 1 | .str => .str [] | .type => .nil | .obj => .obj 0 "" | .func => .func ""
  | .method => .method 0 "" "" | .pkt => .pkt (Packet.ofFrame []) | .pktgen => .pktgen [] | .timejump => .timejump 0

/-- the call the documentation promises to work: the mandatory arguments, unnamed, in order -/
def mandatoryCall (f : FuncDef) : List ArgSpec :=
  f.args.filterMap fun a => match a.decl with
    | .positional t => some ⟨none, repOf t⟩
    | .optional _ => none

def BindRes.isOk : BindRes → Bool | .ok _ => true | _ => false

def callOk (e : String × Sym) : Bool :=
  match e.2 with
  | .func f => BindRes.isOk (Bind.argvec f (mandatoryCall f)) &&
               BindRes.isOk (Bind.argvec f (f.args.filterMap fun a => match a.decl with
                 | .positional t => some ⟨some a.name, repOf t⟩ | .optional _ => none))
  | _ => true

/-- every documented function accepts a call that supplies its documented mandatory arguments with
values of the documented types, positionally and by name -/
theorem documented_call_accepted : ∀ e ∈ Gen.table, callOk e = true := by decide +kernel

/-- the call that spells every documented default out: mandatory arguments unnamed and in order, then every
optional parameter by name with the value the documentation prints as its default -/
def explicitDefaultsCall (f : FuncDef) : List ArgSpec :=
  mandatoryCall f ++ f.args.filterMap fun a => match a.decl with
    | .positional _ => none
    | .optional d => some ⟨some a.name, Val.ofDef d⟩

def sameRes : BindRes → BindRes → Bool
  | .ok a, .ok b => decide (a = b)
  | .typeError a, .typeError b => a == b
  | .panic a, .panic b => a == b
  | _, _ => false

def defaultsOk (e : String × Sym) : Bool :=
  match e.2 with
  | .func f => sameRes (Bind.argvec f (explicitDefaultsCall f)) (Bind.argvec f (mandatoryCall f)) &&
               BindRes.isOk (Bind.argvec f (mandatoryCall f))
  | _ => true

/-- every documented default value is the value the parameter really takes: omitting all optional
parameters binds exactly what spelling each documented default out by name binds (same outcome, same
argument vector) - for every function of the regenerated table -/
theorem documented_defaults_are_the_defaults : ∀ e ∈ Gen.table, defaultsOk e = true := by decide +kernel

/-- a value of the type the documentation shows for an optional parameter -/
def repOfDefault : ValDef → Val
  | .type t => repOf t
  | d => repOf d.valType

def optionalsOk (e : String × Sym) : Bool :=
  match e.2 with
  | .func f => BindRes.isOk (Bind.argvec f (mandatoryCall f ++ f.args.filterMap fun a => match a.decl with
                 | .positional _ => none
                 | .optional d => some ⟨some a.name, repOfDefault d⟩))
  | _ => true

/-- every documented optional parameter exists under its documented name and accepts a value of its
documented type: the call naming all of them at once is accepted by every function of the table -/
theorem documented_optionals_accepted : ∀ e ∈ Gen.table, optionalsOk e = true := by decide +kernel

example : ∃ e ∈ Gen.table, (match e.2 with | .func f => f.args.any (fun a => match a.decl with | .optional _ => true | _ => false) | _ => false) = true := by
  decide +kernel

/-- the table is keyed consistently: a function's `path` is its key, so the rendered signature on a
page belongs to the symbol it is listed under -/
theorem paths_consistent : ∀ e ∈ Gen.table, (match e.2 with | .func f => f.path == e.1 | _ => true) = true := by
  decide +kernel

example : constOk ("tls::cipher", "NULL_WITH_NULL_NULL", .u16 0) = true := by decide +kernel
example : constOk ("dns::rtype", "A", .u16 2) = false := by decide +kernel
example : constOk ("tls::ext", "CONNECTION_ID", .u16 54) = true ∧ constOk ("tls::ext", "CONNECTION_ID", .u16 55) = false := by decide +kernel

end Resynth.C20
