"""In-process library calls: the same `call` request to the real code (harness) and to the model (driver)."""
from .core import sh_hex, unhex


def s(b): return 'str:' + sh_hex(b)


def call_both(c, steps, what='call'):
    """steps: list of lists [target, arg, arg...]; returns the implementation's per-step results (list of str)"""
    req = 'call ' + ' | '.join(' '.join(st) for st in steps)
    hi = c.harness.ask(req)
    mo = c.model.ask(req)
    if hi != mo:
        c.disagree(what, dict(req=req[:3000]), hi[:400], mo[:400])
    return hi.split(' | '), req


def val_bytes(res):
    """bytes of an `ok str:HEX` result"""
    if res.startswith('ok str:'): return unhex(res[7:])
    return None


def kv(r):
    return dict(x.split('=', 1) for x in r.split(' ')[1:] if '=' in x)
