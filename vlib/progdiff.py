"""Whole-program correspondence: the real binary vs the model's `prog` on the same source."""
import os, struct
from . import core
from .core import sh_hex
from .gen import Lib, ProgGen, mutate


def pcap_records(b):
    """plain python reader used for statistics and for locating differing records (not an oracle)"""
    out = []
    if b is None or len(b) < 24: return out
    o = 24
    while o + 16 <= len(b):
        s, ns, cl, l = struct.unpack('<IIII', b[o:o + 16])
        out.append((s * 10 ** 9 + ns, b[o + 16:o + 16 + cl])); o += 16 + cl
    return out


def run_both(c, src, files=None, budget=None, name='t', prefill=None):
    """returns (impl, model): impl = dict(outcome, file), model = dict(outcome, file, warnings, times)"""
    res = core.run_cli(src, files=files, name=name, prefill=prefill)
    impl_outcome = core.classify_cli(res)
    impl = dict(outcome=impl_outcome, file=res['pcap'], stdout=res['stdout'], stderr=res['stderr'], rc=res['rc'])
    mresp = c.model.ask(core.model_prog_req(src, budget, files))
    if not mresp.startswith(('success', 'failure', 'panic')):
        model = dict(outcome=('model-error', mresp[:200]), file=b'', warnings=[], times=[])
    else:
        model = core.parse_model_prog(mresp)
    return impl, model


def message_of(mo):
    """the text after `process_file: ` that src/err.rs prints for the model's (class, detail); None for I/O errors (the text is the
    operating system's)"""
    cls, d = mo[1], (mo[3] if len(mo) > 3 else '-')
    if cls == 'Import': return "Import Error: Unknown module '%s'" % d
    if cls == 'MultipleAssign': return "Variable '%s' reassigned" % d
    if cls in ('Lex', 'Parse', 'Name', 'Type', 'Runtime', 'Memory'): return cls + ' Error'
    return None


def same_outcome(io, mo):
    if io[0] != mo[0]: return False
    if io[0] == 'failure':
        if not (io[1] == mo[1] and tuple(io[2] or (0, 0)) == tuple(mo[2])): return False
        want = message_of(mo)
        # the wording of the diagnostic: class text and, where the message names something (a module, a variable), that name
        return want is None or len(io) < 4 or io[3] is None or io[3].strip() == want
    return True


def compare(c, src, impl, model, what='prog', project=None, times=True):
    """records a disagreement when model and implementation differ; returns True if they agree.
    `project` maps a record's frame to the part of it the property at hand is about (so that a change
    elsewhere in the frame is left to the property that owns it); `times=False` ignores timestamps."""
    ok = same_outcome(impl['outcome'], model['outcome'])
    if ok and impl['outcome'][0] == 'success':
        if project is None and times:
            ok = impl['file'] == model['file']
        else:
            pj = project or (lambda f: f)
            A, B = pcap_records(impl['file'] or b''), pcap_records(model['file'])
            ok = len(A) == len(B) and all(pj(a[1]) == pj(b[1]) and (a[0] == b[0] or not times) for a, b in zip(A, B))
    if ok and impl['outcome'][0] == 'failure':
        ok = impl['file'] is None       # output removed on failure
    if not ok:
        extra = None
        if impl['file'] is not None and model['file'] and impl['outcome'][0] == 'success' == model['outcome'][0]:
            A, B = pcap_records(impl['file']), pcap_records(model['file'])
            extra = dict(nrec=(len(A), len(B)))
            for i, (a, b) in enumerate(zip(A, B)):
                if a != b:
                    offs = [j for j in range(min(len(a[1]), len(b[1]))) if a[1][j] != b[1][j]]
                    extra.update(first_diff_record=i, times=(a[0], b[0]), lens=(len(a[1]), len(b[1])), offsets=offs[:16],
                                 impl_rec=a[1].hex()[:400], model_rec=b[1].hex()[:400])
                    break
        c.disagree(what, dict(src=src.decode('utf-8', 'replace')), str(impl['outcome']), str(model['outcome']), extra)
    return ok


def generated_programs(c, n, **kw):
    lib = Lib()
    for i in range(n):
        r = c.rng.fork('prog%d' % i)
        g = ProgGen(lib, r, **kw)
        src = g.program()
        yield i, src, g
