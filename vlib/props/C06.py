"""C06 — tunnels are transparent."""
from .. import core, progdiff
from ..core import sh_hex

RULE = ("programs that push inner packet sequences (TCP handshakes/messages, UDP datagrams, bare Ethernet frames of 14..20 "
        "bytes and up to the size limit) through VXLAN/GRE/ERSPAN1/ERSPAN2 sessions nested in every order up to depth 2 "
        "(quick) / 3 (thorough) exhaustively and randomly up to depth 5, several statements per session so that sequence "
        "numbers run on. The real pcap is peeled layer by layer with the Spec decoders and the innermost frames are "
        "compared with the frames the same program emits without the encapsulating calls. Non-trivial = at least one "
        "encapsulated packet; distinct = (layer kinds+raw flags, inner kinds, counts)")

PROOF_MODULES = ['Resynth.Props.C06', 'Resynth.Props.C06Any', 'Resynth.Props.C14Heap']

KINDS = ['vxlan', 'gre', 'erspan1', 'erspan2']


def kv(r): return dict(x.split('=', 1) for x in r.split(' ')[1:])


def ip(n): return '%d.%d.%d.%d' % (n >> 24, n >> 16 & 255, n >> 8 & 255, n & 255)


class Sess:
    def __init__(self, kind, idx, r):
        self.kind, self.name = kind, '%s%d' % (kind[0] + kind[-1], idx)
        self.raw = r.chance(1, 3)
        self.a = r.choice([0x0a000000 + r.below(2 ** 24), 0, 0xffffffff, 0xe0000001, r.below(2 ** 32)]); self.b = r.choice([0xc0a80000 + r.below(65536), 0, 0xffffffff, self.a, r.below(2 ** 32)])
        self.count = 0
        if kind == 'vxlan':
            self.sp, self.dp, self.vni = r.choice([0, 65535, 4789, r.below(65536), r.below(65536)]), r.choice([4789, 0, 65535, 1, r.below(65536)]), r.choice([0, 1, 2 ** 24 - 1, r.below(2 ** 24)])     # zero and all-ones are ordinary values
            sid = '' if self.vni == 0 and r.chance(1, 2) else ', sessionid: %d' % self.vni        # 0 is the documented default
            self.decl = 'let %s = vxlan::session(%s:%d, %s:%d%s%s);' % (self.name, ip(self.a), self.sp, ip(self.b), self.dp, sid, ', raw: true' if self.raw else '')
        elif kind == 'gre':
            self.et = r.choice([0x6558, 0x0800, 0, 0xffff, 0x88be, r.below(65536)])
            self.decl = 'let %s = gre::session(%s, %s, %d%s);' % (self.name, ip(self.a), ip(self.b), self.et, ', raw: true' if self.raw else '')
        else:
            self.decl = 'let %s = %s::session(%s, %s%s);' % (self.name, kind, ip(self.a), ip(self.b), ', raw: true' if self.raw else '')
    def wrap(self, expr, r, single):
        if self.kind == 'vxlan' and single and r.chance(1, 2):
            return '%s.dgram(%s)' % (self.name, expr), None
        if self.kind == 'erspan2':
            pi = r.choice([0, 1, 2 ** 20 - 1, r.below(2 ** 20)])
            return '%s.encap(%s, port_index: %d)' % (self.name, expr, pi), pi
        return '%s.encap(%s)' % (self.name, expr), None


def inner_exprs(r, big_ok, huge=False):
    """(declarations, list of (expr, is_single_pkt))"""
    decls = ['let tf = ipv4::tcp::flow(10.9.8.7:%d, 10.1.1.1:80);' % (1024 + r.below(60000)),
             'let uf = ipv4::udp::flow(10.9.8.7:5353, 10.2.2.2:53);']
    opts = []
    for _ in range(1 + r.below(3)):
        k = r.below(6)
        if k == 0: opts.append(('tf.open()', False))
        elif k == 1: opts.append(('tf.client_message("|%s|")' % r.bytes(1 + r.below(40)).hex(), False))
        elif k == 2: opts.append(('uf.client_dgram("|%s|")' % r.bytes(r.below(30)).hex(), True))
        elif k == 3:
            # inner content classes: any addresses, ethertypes a tunnel end point might want to interpret (802.1Q / 802.1ad tags,
            # IPv4/6, ARP, transparent bridging, ERSPAN), tagged frames with a tag body
            n = r.choice([0, 1, 2, 3, 6])
            et = r.choice([None, 0x8100, 0x88a8, 0x0800, 0x0806, 0x86dd, 0x6558, 0x88be, 0x9100, r.below(65536)])
            macs = ('"|%s|", "|%s|"' % (r.bytes(6).hex(), r.bytes(6).hex())) if r.chance(1, 2) else '"|020000000001|", "|020000000002|"'
            if r.chance(1, 3):
                # destination (and source) addresses a bridge or a mirror port treats specially: broadcast, IPv4/IPv6 multicast, the
                # 802.1D reserved group addresses (STP, pause, LACP, 802.1X, LLDP), Cisco discovery, all-zero - a tunnel carries them all
                SPECIAL = ['ffffffffffff', '01005e0000fb', '3333000000fb', '0180c2000000', '0180c2000001', '0180c2000002', '0180c2000003', '0180c200000e',
                           '0180c200000f', '0180c2000010', '01000ccccccc', '000000000000', '0180c20000%02x' % r.below(256)]
                macs = '"|%s|", "|%s|"' % (r.choice(SPECIAL + [r.bytes(6).hex()] * 4), r.choice(SPECIAL))
            body = ('"|%s|"' % (r.choice(['0064', '0fff', 'e001']) + r.choice(['0800', '8100', '86dd']) + r.bytes(n).hex())) if et in (0x8100, 0x88a8, 0x9100) else ('"|%s|"' % r.bytes(n).hex() if n else '')
            opts.append(('eth::frame(%s%s%s)' % (macs, ', ethertype: %d' % et if et is not None else '', ', ' + body if body else ''), True))
        elif k == 4:
            # a raw IPv4 packet as inner "frame": its bytes 12..13 are the first octets of the source address
            src = r.choice(['1.2.3.4', '129.0.0.7', '136.168.1.1', '8.0.69.0', '134.221.0.1'])
            opts.append(('ipv4::udp::unicast(%s:1, 5.6.7.8:2, raw: true, "|%s|")' % (src, r.bytes(r.below(20)).hex()), True))
        else:
            n = r.choice([100, 1400, 9000, 60000]) if big_ok else r.choice([100, 1400])
            if huge: n = r.choice([65450, 65500, 65550, 66000, 70000])    # around and beyond what a 16-bit length can describe
            decls.append('let z%d = "|%s|";' % (len(decls), r.bytes(50).hex()))
            rep = n // 50
            opts.append(('eth::frame("|020000000001|", "|020000000002|", %s)' % ', '.join(['z%d' % (len(decls) - 1)] * rep), True))
    return decls, opts


def check(c, r, layer_kinds, nstmts, tag, big_ok=False, huge=False):
    sessions = [Sess(k, i, r) for i, k in enumerate(layer_kinds)]   # innermost first
    r4 = r.fork('twins')
    for i in range(1, len(sessions)):
        if sessions[i].kind == sessions[i - 1].kind and r4.chance(1, 2):
            # a tunnel inside a tunnel of the same kind with EQUAL parameters: a second object created by the same constructor call,
            # or (where the header carries no per-session counter) the very same object at both levels
            import copy
            if sessions[i].kind != 'erspan2' and r4.chance(1, 2): sessions[i] = sessions[i - 1]; c.count('same-session-twice')
            else:
                tw = copy.copy(sessions[i - 1]); tw.name = sessions[i - 1].name + 'twin%d' % i
                tw.decl = sessions[i - 1].decl.replace('let %s =' % sessions[i - 1].name, 'let %s =' % tw.name); tw.count = 0
                sessions[i] = tw; c.count('twin-sessions')
    decls, _ = inner_exprs(r, big_ok, huge)
    head = ['import ipv4;', 'import eth;', 'import vxlan;', 'import gre;', 'import erspan1;', 'import erspan2;']
    body_enc, body_ref, meta = [], [], []
    alld = list(decls)
    for s in range(nstmts):
        d, opts = inner_exprs(r, big_ok, huge)
        if huge: opts = [o for o in opts if 'y' in o[0] or 'z' in o[0]] or opts
        for x in d[2:]:
            alld.append(x.replace('let z', 'let y%d_' % s))
        e, single = r.choice(opts)
        e = e.replace('z', 'y%d_' % s) if 'z' in e and 'eth::frame' in e and ', z' in e else e
        wrapped, pis = e, []
        sg = single
        r3 = r.fork('bind%d' % s)
        for li, ss in enumerate(sessions):
            if r3.chance(1, 4):
                # the inner packets handed over through a name (bound by let just before) instead of inline
                body_enc.append('let in%d_%d = %s;' % (s, li, wrapped)); wrapped = 'in%d_%d' % (s, li); c.count('inner-by-name')
            wrapped, pi = ss.wrap(wrapped, r, sg)
            pis.append(pi)
            sg = sg and wrapped.split('(')[0].endswith('dgram')
        body_enc.append(wrapped + ';'); body_ref.append(e + ';'); meta.append(pis)
    sess_decls = list(dict.fromkeys(s.decl for s in sessions))
    src_enc = ('\n'.join(head + alld + sess_decls + body_enc) + '\n').encode()
    src_ref = ('\n'.join(head + alld + body_ref) + '\n').encode()
    if r.chance(1, 3):      # mandatory parameters (session endpoints, encap's packet, ...) by name instead of by position
        from ..gen import Lib, name_mandatory
        src_enc = name_mandatory(src_enc, Lib(), r, (2, 3)); c.count('named-mandatory')
    elif r.chance(1, 3):
        from ..gen import respell_ints, hoist_literals
        src_enc = hoist_literals(respell_ints(src_enc, r), r); c.count('respelled')
    impl, model = progdiff.run_both(c, src_enc)
    progdiff.compare(c, src_enc, impl, model, 'tunnel')
    key = None
    if impl['outcome'][0] == 'panic':
        c.violation('tunnel:panic', 'implementation panicked: %s' % (impl['outcome'][1],), dict(src=src_enc.decode()[:3000]))
    elif impl['outcome'][0] == 'success':
        ref = core.run_cli(src_ref)
        inner = [x[1] for x in progdiff.pcap_records(ref['pcap'] or b'')]
        outer = [x[1] for x in progdiff.pcap_records(impl['file'] or b'')]
        rep = dict(src=src_enc.decode()[:3000])
        if core.classify_cli(ref)[0] != 'success':
            c.count('ref-failed')
        elif len(inner) != len(outer):
            c.violation('tunnel:count', '%d inner packets became %d outer packets' % (len(inner), len(outer)), rep)
        else:
            # which statement each packet belongs to (for port_index): re-run is avoided by walking counts via the reference
            # statement boundaries: compile each reference statement prefix? cheaper: timestamps are equal within a statement
            recs = progdiff.pcap_records(impl['file'])
            stmt_of, cur, last_t = [], -1, None
            for t, _ in recs:
                if t != last_t: cur += 1; last_t = t
                stmt_of.append(cur)
            counts = {s.name: 0 for s in sessions}
            for i, (o, inn) in enumerate(zip(outer, inner)):
                cur = o
                ok = True
                for li in range(len(sessions) - 1, -1, -1):
                    ss = sessions[li]
                    d = cur if ss.raw else cur[14:]
                    if not ss.raw:
                        pass
                    positional = len(d) > 65535    # length fields cannot describe it: the payload is what follows the fixed headers
                    a = c.model.ask('oracle %s %s %s' % ('decappos' if positional else 'decap', ss.kind, sh_hex(d)))
                    if positional: c.count('oversize-layer')
                    if not a.startswith('ok'):
                        c.violation('tunnel:%s:undecodable' % ss.kind, 'Spec decoder rejects layer %d (%s) of outer packet %d' % (li, ss.kind, i), rep); ok = False; break
                    f = kv(a)
                    want = {}
                    if ss.kind == 'vxlan': want = dict(sport=str(ss.sp), dport=str(ss.dp), vni=str(ss.vni))
                    elif ss.kind == 'gre': want = dict(flags='0', proto=str(ss.et), seq='-')
                    elif ss.kind == 'erspan2':
                        pi = meta[min(stmt_of[i], len(meta) - 1)][li] if stmt_of[i] < len(meta) else None
                        want = dict(seq=str(counts[ss.name] % 2 ** 32), ver='1', session='0')
                        if pi is not None: want['index'] = str(pi)
                    bad = [k for k in want if f.get(k) != want[k]] if not positional else []
                    if bad:
                        c.violation('tunnel:%s:%s' % (ss.kind, ','.join(bad)), 'tunnel header field(s) %s wrong at layer %d of packet %d: got %s want %s'
                                    % (bad, li, i, {k: f.get(k) for k in bad}, {k: want[k] for k in bad}), rep); ok = False
                    counts[ss.name] += 1
                    cur = core.unhex(f['inner'])
                if ok and cur != inn:
                    c.violation('tunnel:payload', 'innermost payload of outer packet %d differs from the inner frame' % i, rep)
            c.traces_validated += 1
            if outer: key = (tuple((s.kind, s.raw) for s in sessions), len(outer), nstmts)
            c.count('outer_packets', len(outer))
    for s in sessions: c.count('layer:' + s.kind)
    c.count('depth:%d' % len(sessions))
    c.case(key, dict(kind=tag, layers=[(s.kind, s.raw) for s in sessions], stmts=nstmts, src=src_enc.decode()[:600]) if key else None)


def check_multi(c, r, kind, tag):
    """several sessions of ONE kind in one program, mostly with the same (default) parameters, used in turn: every session is
    its own object - its header parameters are what IT was created with and its sequence numbers count ITS packets"""
    n = 2 + r.below(3)
    sessions = []
    for i in range(n):
        ss = Sess(kind, i, r)
        if kind == 'vxlan' and r.chance(2, 3):
            ss.vni = 0
            ss.decl = 'let %s = vxlan::session(%s:%d, %s:%d%s%s);' % (ss.name, ip(ss.a), ss.sp, ip(ss.b), ss.dp, r.choice(['', ', sessionid: 0']), ', raw: true' if ss.raw else '')
        sessions.append(ss)
    head = ['import ipv4;', 'import eth;', 'import vxlan;', 'import gre;', 'import erspan1;', 'import erspan2;']
    body, used, inner = [], [], []
    for k in range(2 + r.below(8)):
        ss = r.choice(sessions)
        dst = r.choice([bytes([2, 0, 0, 0, 0, 2])] * 3 + [bytes.fromhex(x) for x in ('ffffffffffff', '01005e000001', '0180c2000000', '0180c200000e', '333300000001', '000000000000')])
        fr = dst + bytes([2, 0, 0, 0, 0, 1]) + r.bytes(2 + r.below(20))
        e = 'eth::frame("|020000000001|", "|%s|", ethertype: %d%s)' % (dst.hex(), int.from_bytes(fr[12:14], 'big'), ', "|%s|"' % fr[14:].hex() if len(fr) > 14 else '')
        w, pi = ss.wrap(e, r, True)
        body.append(w + ';'); used.append((ss, pi)); inner.append(fr)
    src = ('\n'.join(head + [x.decl for x in sessions] + body) + '\n').encode()
    impl, model = progdiff.run_both(c, src)
    progdiff.compare(c, src, impl, model, 'tunnel-multi')
    rep = dict(src=src.decode()[:3000])
    key = None
    if impl['outcome'][0] == 'success':
        outer = [x[1] for x in progdiff.pcap_records(impl['file'] or b'')]
        if len(outer) != len(used):
            c.violation('tunnel:count', '%d encapsulating statements became %d packets' % (len(used), len(outer)), rep)
        else:
            counts = {x.name: 0 for x in sessions}
            for i, (o, (ss, pi), inn) in enumerate(zip(outer, used, inner)):
                a = c.model.ask('oracle decap %s %s' % (ss.kind, sh_hex(o if ss.raw else o[14:])))
                if not a.startswith('ok'):
                    c.violation('tunnel:%s:undecodable' % ss.kind, 'Spec decoder rejects outer packet %d' % i, rep); continue
                f = kv(a)
                want = {}
                if kind == 'vxlan': want = dict(sport=str(ss.sp), dport=str(ss.dp), vni=str(ss.vni))
                elif kind == 'gre': want = dict(flags='0', proto=str(ss.et), seq='-')
                elif kind == 'erspan2':
                    want = dict(seq=str(counts[ss.name]), ver='1', session='0')
                    if pi is not None: want['index'] = str(pi)
                bad = [k for k in want if f.get(k) != want[k]]
                if bad:
                    c.violation('tunnel:%s:%s' % (kind, ','.join(bad)), 'with %d sessions in one program, header field(s) %s of packet %d (session %s): got %s want %s'
                                % (n, bad, i, ss.name, {k: f.get(k) for k in bad}, {k: want[k] for k in bad}), rep)
                counts[ss.name] += 1
                if core.unhex(f['inner']) != inn:
                    c.violation('tunnel:payload', 'payload of outer packet %d differs from the inner frame' % i, rep)
            c.traces_validated += 1
            key = ('multi', kind, n, len(outer))
    elif impl['outcome'][0] == 'panic':
        c.violation('tunnel:panic', 'implementation panicked: %s' % (impl['outcome'][1],), rep)
    c.count('several-sessions:' + kind)
    c.case(key, dict(kind=tag, sessions=n, src=src.decode()[:600]) if key else None)


def check_content_classes(c, r, kind, tag):
    """one session, one statement per CLASS of inner frame a tunnel end point might be tempted to interpret: every ethertype class
    (VLAN tags of each flavour with a tag body, IPv4/IPv6/ARP, bridging, ERSPAN) x destination address classes - deterministic,
    so that no class depends on the luck of the random families"""
    ss = Sess(kind, 0, r)
    head = ['import ipv4;', 'import eth;', 'import vxlan;', 'import gre;', 'import erspan1;', 'import erspan2;']
    body, inner, pis = [], [], []
    for et in (0x8100, 0x88a8, 0x9100, 0x0800, 0x0806, 0x86dd, 0x6558, 0x88be, 0x88cc, 0x0000, 0xffff):
        for dst in ('020000000002', 'ffffffffffff', '01005e000001', '0180c2000000', '0180c200000e'):
            pay = bytes.fromhex(r.choice(['0064', '0fff', 'e001']) + r.choice(['0800', '8100', '86dd'])) + r.bytes(r.below(6)) if et in (0x8100, 0x88a8, 0x9100) else r.bytes(r.below(8))
            fr = bytes.fromhex(dst) + bytes.fromhex('020000000001') + et.to_bytes(2, 'big') + pay
            e = 'eth::frame("|020000000001|", "|%s|", ethertype: %d%s)' % (dst, et, ', "|%s|"' % pay.hex() if pay else '')
            w, pi = ss.wrap(e, r, True)
            body.append(w + ';'); inner.append(fr); pis.append(pi)
    src = ('\n'.join(head + [ss.decl] + body) + '\n').encode()
    impl, model = progdiff.run_both(c, src)
    progdiff.compare(c, src, impl, model, 'tunnel-classes')
    rep = dict(src=src.decode()[:6000])
    if impl['outcome'][0] == 'success':
        outer = [x[1] for x in progdiff.pcap_records(impl['file'] or b'')]
        if len(outer) != len(inner):
            c.violation('tunnel:count', '%d inner frames became %d outer packets' % (len(inner), len(outer)), rep)
        else:
            for i, (o, inn) in enumerate(zip(outer, inner)):
                a = c.model.ask('oracle decap %s %s' % (kind, sh_hex(o if ss.raw else o[14:])))
                if not a.startswith('ok'):
                    c.violation('tunnel:%s:undecodable' % kind, 'Spec decoder rejects outer packet %d' % i, rep); continue
                if core.unhex(kv(a)['inner']) != inn:
                    c.violation('tunnel:payload', 'payload of outer packet %d differs from the inner frame (ethertype %#06x, destination %s)' % (i, int.from_bytes(inn[12:14], 'big'), inn[:6].hex()), rep)
            c.traces_validated += 1
    elif impl['outcome'][0] == 'panic':
        c.violation('tunnel:panic', 'implementation panicked: %s' % (impl['outcome'][1],), rep)
    c.count('content-classes:' + kind)
    c.case(('classes', kind, ss.raw), dict(kind=tag, tunnel=kind, frames=len(inner)))


def check_same_hosts(c, r, tag):
    """sessions of DIFFERENT kinds (and GRE sessions of several protocol types, 0x88be among them) between the same two hosts, with
    the same raw setting, used in turn: each packet has the header of the session it was asked of"""
    a, b = r.below(2 ** 32), r.below(2 ** 32); raw = r.chance(1, 3)
    specs = [('erspan1', None), ('erspan2', None), ('gre', 0x88be), ('gre', 0x6558), ('gre', 0x0800), ('vxlan', None), ('erspan2', None)]
    sessions = []
    for i, (k, et) in enumerate(specs):
        ss = Sess(k, i, r); ss.a, ss.b, ss.raw = a, b, raw
        rw = ', raw: true' if raw else ''
        if k == 'vxlan': ss.decl = 'let %s = vxlan::session(%s:%d, %s:%d, sessionid: %d%s);' % (ss.name, ip(a), ss.sp, ip(b), ss.dp, ss.vni, rw)
        elif k == 'gre': ss.et = et; ss.decl = 'let %s = gre::session(%s, %s, %d%s);' % (ss.name, ip(a), ip(b), et, rw)
        else: ss.decl = 'let %s = %s::session(%s, %s%s);' % (ss.name, k, ip(a), ip(b), rw)
        sessions.append(ss)
    head = ['import ipv4;', 'import eth;', 'import vxlan;', 'import gre;', 'import erspan1;', 'import erspan2;']
    body, used, inner = [], [], []
    order = [0, 1, 0, 1, 2, 1, 3, 6, 4, 1, 5, 6, 0, 2, 6] + [r.below(len(sessions)) for _ in range(6)]
    for si in order:
        ss = sessions[si]
        fr = bytes([2, 0, 0, 0, 0, 2, 2, 0, 0, 0, 0, 1]) + r.bytes(2 + r.below(10))
        e = 'eth::frame("|020000000001|", "|020000000002|", ethertype: %d%s)' % (int.from_bytes(fr[12:14], 'big'), ', "|%s|"' % fr[14:].hex() if len(fr) > 14 else '')
        w, pi = ss.wrap(e, r, True)
        body.append(w + ';'); used.append((ss, pi)); inner.append(fr)
    src = ('\n'.join(head + [x.decl for x in sessions] + body) + '\n').encode()
    impl, model = progdiff.run_both(c, src)
    progdiff.compare(c, src, impl, model, 'tunnel-same-hosts')
    rep = dict(src=src.decode()[:4000])
    if impl['outcome'][0] == 'success':
        outer = [x[1] for x in progdiff.pcap_records(impl['file'] or b'')]
        if len(outer) != len(used):
            c.violation('tunnel:count', '%d encapsulating statements became %d packets' % (len(used), len(outer)), rep)
        else:
            counts = {x.name: 0 for x in sessions}
            for i, (o, (ss, pi), inn) in enumerate(zip(outer, used, inner)):
                a_ = c.model.ask('oracle decap %s %s' % (ss.kind, sh_hex(o if raw else o[14:])))
                if not a_.startswith('ok'):
                    c.violation('tunnel:%s:undecodable' % ss.kind, 'sessions of several kinds between one host pair: packet %d (session %s) is not a %s packet' % (i, ss.name, ss.kind), rep); break
                f = kv(a_)
                want = {}
                if ss.kind == 'vxlan': want = dict(sport=str(ss.sp), dport=str(ss.dp), vni=str(ss.vni))
                elif ss.kind == 'gre': want = dict(flags='0', proto=str(ss.et), seq='-')
                elif ss.kind == 'erspan2':
                    want = dict(seq=str(counts[ss.name]), ver='1', session='0')
                    if pi is not None: want['index'] = str(pi)
                bad = [k for k in want if f.get(k) != want[k]]
                if bad or core.unhex(f['inner']) != inn:
                    c.violation('tunnel:%s:%s' % (ss.kind, ','.join(bad) or 'payload'), 'sessions of several kinds between one host pair: packet %d (session %s): got %s want %s' % (i, ss.name, {k: f.get(k) for k in bad}, {k: want[k] for k in bad}), rep); break
                counts[ss.name] += 1
            c.traces_validated += 1
    elif impl['outcome'][0] == 'panic':
        c.violation('tunnel:panic', 'implementation panicked: %s' % (impl['outcome'][1],), rep)
    c.count('same-hosts-mixed-kinds')
    c.case(('same-hosts', raw), dict(kind=tag, raw=raw))


def campaign(c):
    c.rule = RULE
    for j in range(4 if c.quick else 60):
        check_same_hosts(c, c.rng.fork('samehosts%d' % j), 'same-hosts-mixed-kinds')
    for j, k in enumerate(KINDS * (1 if c.quick else 6)):
        check_content_classes(c, c.rng.fork('classes%d' % j), k, 'content-classes')
    for j in range(16 if c.quick else 240):
        check_multi(c, c.rng.fork('multi%d' % j), KINDS[j % 4], 'several-sessions')
    import itertools
    depth = 2 if c.quick else 3
    i = 0
    for d in range(1, depth + 1):
        for combo in itertools.product(KINDS, repeat=d):
            check(c, c.rng.fork('tx%d' % i), list(combo), 2 + i % 3, 'exh%d' % d); i += 1
    c.extra['exhaustive_space'] = 'every ordered nesting of the four tunnel kinds up to depth %d' % depth
    m = 40 if c.quick else 600
    for j in range(m):
        r = c.rng.fork('tr%d' % j)
        check(c, r, [r.choice(KINDS) for _ in range(1 + r.below(5))], 1 + r.below(6), 'rand', big_ok=(not c.quick) or j % 10 == 0)
    # inner frames around and beyond 64 KiB through every kind, alone and nested in pairs
    combos = [[k] for k in KINDS] + [['vxlan', 'gre'], ['gre', 'erspan2'], ['erspan1', 'vxlan']] + ([] if c.quick else [list(x) for x in itertools.product(KINDS, repeat=2)])
    for j, combo in enumerate(combos):
        for rep in range(2 if c.quick else 6):
            check(c, c.rng.fork('huge%d.%d' % (j, rep)), combo, 2, 'huge', big_ok=True, huge=True)
    c.assumptions += ['an outer datagram that exceeds 65535 bytes is peeled positionally (Spec.decapPositional): its length fields cannot describe it',
                      'reference inner frames are produced by the real binary from the same program without the encapsulating calls',
                      'record grouping into statements uses equal timestamps within a statement']


def replay(c, data):
    d = data.get('replay') or data['disagreements'][0]['request']
    impl, model = progdiff.run_both(c, d['src'].encode())
    progdiff.compare(c, d['src'].encode(), impl, model, 'replay')
