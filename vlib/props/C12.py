"""C12 — record timestamps never go backwards and time jumps are exact."""
from .. import core, progdiff
from ..core import sh_hex
from ..gen import Lib, ProgGen

RULE = ("random programs with time::jump_{seconds,millis,micros,nanos} calls of magnitude 0, 1, values crossing second boundaries and "
        "large values, at random positions and counts; stored packets re-emitted later/repeatedly; packet sizes 14..65535. "
        "Timestamps are read from the REAL pcap by Spec.parsePcap: non-decreasing, nsec < 1e9 (pcapWellFormed), strictly "
        "increasing between packet-emitting statements (statement boundaries from a per-prefix reference run), and for each "
        "program a twin with one extra jump of d inserted at a random statement boundary must show earlier records unchanged "
        "and later ones shifted by exactly d. Non-trivial = >= 2 records; distinct = source hash")

UNITS = [('time::jump_seconds', 10 ** 9, 2 ** 32 - 1), ('time::jump_millis', 10 ** 6, 2 ** 40), ('time::jump_micros', 10 ** 3, 2 ** 50), ('time::jump_nanos', 1, 2 ** 60)]


def times_of(c, file_bytes, rep):
    r = c.model.ask('oracle pcap ' + sh_hex(file_bytes))
    if not r.startswith('ok'):
        c.violation('time:malformed', 'Spec.pcapWellFormed false (nanosecond part >= 1e9 or framing broken): ' + r, rep); return None
    parts = r.split(' ')
    return [int(e.split(':')[0]) for e in parts[2].split(',')] if len(parts) > 2 and parts[2] else []


def jump_stmt(r, limit_ns):
    name, mul, lim = r.choice(UNITS)
    k = r.below(7)
    v = [0, 1, 999, 1000, 999999999 // mul + 1, r.below(10 ** 6), r.below(min(lim, max(1, limit_ns // mul)))][k]
    v = min(v, lim, max(0, limit_ns // mul))
    # the magnitude in any spelling of the literal (decimal, zero-padded, hex in either case)
    lit = r.choice(['%d', '%d', '0x%x', '0x%X', '0x%08X', '000%d', '0x000%x']) % v
    return '%s(%s);' % (name, lit), v * mul


JN = [0]

def stored(r, js):
    """the same jump as a value bound by let (right after the imports) and executed where the statement stood:
    a jump takes effect where it is executed, not where it is bound; an unused binding has no effect"""
    JN[0] += 1
    return 'let jmp%d = %s' % (JN[0], js), 'jmp%d;' % JN[0]


def campaign(c):
    c.rule = RULE
    lib = Lib()
    n = 70 if c.quick else 1500
    LIMIT = 2 ** 32 * 10 ** 9
    for i in range(n):
        r = c.rng.fork('c12-%d' % i)
        g = ProgGen(lib, r, max_stmts=8, payload_max=60)
        src = g.program().decode()
        # statements of the generated program (each generated line that ends a statement)
        stmts, cur = [], []
        for l in src.split('\n'):
            cur.append(l)
            if l.rstrip().endswith(';') and not l.lstrip().startswith(('#', '//')): stmts.append('\n'.join(cur)); cur = []
        tail = '\n'.join(cur)
        if 'import time;' not in src: stmts.insert(0, 'import time;')
        nimp = sum(1 for s in stmts if s.strip().startswith('import '))
        # sprinkle jumps
        total = 0
        body = list(stmts)
        for _ in range(r.below(4)):
            js, d = jump_stmt(r, LIMIT // 8)
            pos = nimp + r.below(len(body) - nimp + 1)
            if r.chance(1, 3):
                decl, use = stored(r, js); body.insert(pos, use); body.insert(nimp, decl); c.count('stored-jump')
                if r.chance(1, 3): body.insert(nimp, stored(r, jump_stmt(r, LIMIT // 8)[0])[0])     # a jump that is bound and never executed
            else: body.insert(pos, js)
            total += d
        base_src = ('\n'.join(body) + '\n' + tail).encode()
        impl, model = progdiff.run_both(c, base_src)
        progdiff.compare(c, base_src, impl, model, 'time', project=lambda f: len(f).to_bytes(4, 'big'))   # timestamps and sizes only
        rep = dict(src=base_src.decode()[:3000])
        key = None
        if impl['outcome'][0] == 'success':
            T = times_of(c, impl['file'], rep)
            if T is not None:
                if any(a > b for a, b in zip(T, T[1:])):
                    c.violation('time:backwards', 'timestamps decrease: %s' % T[:10], rep)
                # strictness between packet-emitting statements: group by prefix runs
                counts = []
                acc = []
                for s in body:
                    acc.append(s)
                    res = core.run_cli(('\n'.join(acc) + '\n').encode())
                    counts.append(len(progdiff.pcap_records(res['pcap'] or b'')))
                bounds = [0] + counts
                groups = [T[bounds[k]:bounds[k + 1]] for k in range(len(body)) if bounds[k + 1] > bounds[k]]
                for ga, gb in zip(groups, groups[1:]):
                    if not (max(ga) < min(gb)):
                        c.violation('time:not-strict', 'timestamps do not strictly increase from one packet-emitting statement to the next', rep)
                # twin with one extra jump
                js, d = jump_stmt(r, LIMIT // 8)
                pos = nimp + r.below(len(body) - nimp + 1)
                twin = body[:pos] + [js] + body[pos:]
                if r.chance(1, 3) and pos >= nimp:
                    decl, use = stored(r, js); twin = body[:nimp] + [decl] + body[nimp:pos] + [use] + body[pos:]; js = decl + ' ... ' + use
                tsrc = ('\n'.join(twin) + '\n' + tail).encode()
                ti, tm = progdiff.run_both(c, tsrc)
                progdiff.compare(c, tsrc, ti, tm, 'time-twin', project=lambda f: len(f).to_bytes(4, 'big'))
                if ti['outcome'][0] == 'success':
                    T2 = times_of(c, ti['file'], dict(src=tsrc.decode()[:3000]))
                    before = bounds[pos] if pos < len(bounds) else len(T)
                    if T2 is not None:
                        want = T[:before] + [t + d for t in T[before:]]
                        if T2 != want and max(want or [0]) < LIMIT:
                            c.violation('time:jump-shift', 'inserting %s before statement %d did not shift exactly the later records by %d ns' % (js, pos, d),
                                        dict(src=tsrc.decode()[:3000], base=rep['src']))
                        A, B = progdiff.pcap_records(impl['file']), progdiff.pcap_records(ti['file'])
                        if [x[1] for x in A] != [x[1] for x in B]:
                            c.violation('time:jump-changes-frames', 'a time jump changed packet contents', dict(src=tsrc.decode()[:3000]))
                    c.count('twins')
                c.traces_validated += 1
                if len(T) >= 2: key = hash(base_src)
                c.count('records', len(T))
        c.count('outcome:' + impl['outcome'][0])
        c.case(key, dict(src=rep['src'][:400]) if key else None)
    # the gap a statement adds is a function of the packets IT emits: statements of similar shape (same packet count, same first
    # frame, different later frames; the same frames again) back to back and in the opposite order, no jumps.  Every statement's gap
    # is entered into one table keyed by the lengths of its packets; two different gaps for one key is a dependence on history.
    table = {}
    for i in range(30 if c.quick else 600):
        r = c.rng.fork('gap%d' % i)
        pool = []; direct = {}
        for _ in range(3 + r.below(5)):
            k = r.below(6)
            if k <= 1:
                pool.append('dns::host(%s, "%s"%s);' % (r.choice(['1.2.3.4', '9.8.7.6']), r.choice(['aaa.example', 'bbb.example', 'c.example.org']),
                                                      ''.join(', 10.0.0.%d' % (1 + r.below(200)) for _ in range(r.below(4)))))
            elif k == 2: pool.append('ipv4::udp::unicast(1.2.3.4:5, 6.7.8.9:10, "|%s|");' % ('00' * r.choice([0, 1, 16, 33, 47])))
            elif k == 3: pool.append('eth::frame("|000000000001|", "|000000000002|", "|%s|");' % ('00' * r.choice([0, 1, 16, 61])))
            elif k == 4: pool.append('vx.encap(dns::host(1.2.3.4, "%s"%s));' % (r.choice(['aaa.example', 'bbb.example']), ''.join(', 10.0.0.%d' % (1 + r.below(200)) for _ in range(r.below(4)))))
            else: pool.append('tf.%s_message("|%s|");' % (r.choice(['client', 'server']), '00' * r.choice([1, 15, 29])))
            if r.chance(1, 3) and not pool[-1].startswith('eth::frame'):
                # the same value stored first and emitted through its name (once; a second emission is a statement of its own)
                direct[len(pool) - 1] = pool[-1]
                pool[-1] = 'let st%d_%d = %s\nst%d_%d;' % (i, len(pool), pool[-1], i, len(pool)); c.count('gap-stored')
        head = 'import ipv4;\nimport dns;\nimport eth;\nimport vxlan;\nlet vx = vxlan::session(1.1.1.1:1, 2.2.2.2:4789);\nlet tf = ipv4::tcp::flow(1.2.3.4:5, 6.7.8.9:80);\n'
        for order in (pool, pool[::-1]):
            src = (head + '\n'.join(order) + '\n').encode()
            impl, model = progdiff.run_both(c, src)
            progdiff.compare(c, src, impl, model, 'time-gap', project=lambda f: len(f).to_bytes(4, 'big'))
            if impl['outcome'][0] != 'success': continue
            recs = progdiff.pcap_records(impl['file'])
            groups, last = [], None
            for t, fr in recs:
                if t != last: groups.append((t, [])); last = t
                groups[-1][1].append(len(fr))
            if direct and order is pool:
                # the same packets with the stored values emitted where they are computed: the clock ends at the same time
                dsrc = (head + '\n'.join(direct.get(k, st) for k, st in enumerate(pool)) + '\n').encode()
                dres = core.run_cli(dsrc); drecs = progdiff.pcap_records(dres['pcap'] or b'')
                if drecs and recs and ([x[1] for x in drecs] != [x[1] for x in recs] or drecs[-1][0] != recs[-1][0]):
                    c.violation('time:gap-depends-on-history', 'emitting stored values by name instead of where they are computed moves the last record from %d ns to %d ns (same packets)' % (drecs[-1][0], recs[-1][0]),
                                dict(src=src.decode(), direct=dsrc.decode()))
            if len(groups) != len(order): continue
            prev = 0
            for (t, lens), st in zip(groups, order):
                key = tuple(lens); gap = t - prev; prev = t
                if key in table and table[key][0] != gap:
                    c.violation('time:gap-depends-on-history', 'a statement emitting packets of lengths %s adds %d ns here and %d ns elsewhere' % (list(key), gap, table[key][0]),
                                dict(src=src.decode(), statement=st, other=table[key][1]))
                table.setdefault(key, (gap, src.decode()))
            c.count('gap-statements', len(order)); c.traces_validated += 1
        c.case(('gap', i), dict(kind='gap-table', src=src.decode()[-300:]) if i % 6 == 0 else None)
    # jump magnitudes swept: in each unit every value 0..N and a few hundred larger ones, each followed by one frame, in ONE program
    # per unit - the distance between consecutive records is the frame's wire time plus exactly d units (a conversion that is
    # inexact for a scattered class of values shows up here, not for round numbers)
    for unit, mul in (('seconds', 10 ** 9), ('millis', 10 ** 6), ('micros', 10 ** 3), ('nanos', 1)):
        r = c.rng.fork('sweep-' + unit)
        N = 1200 if c.quick else 6000
        ds = list(range(0, N)) + [r.below(10 ** 5 if unit == 'seconds' else 10 ** 7) for _ in range(200 if c.quick else 1500)]
        # and magnitudes beyond 16 / 32 / 53 bits, as far as the pcap limit of 2^32 seconds allows for the unit
        ds += {'seconds': [65536, 2 ** 24 + 1, 2 ** 31], 'millis': [2 ** 32, 2 ** 32 + 7, 3 * 10 ** 11], 'micros': [2 ** 32, 2 ** 32 + 1, 2 ** 40 + 3], 'nanos': [2 ** 32, 2 ** 32 + 1, 2 ** 53 + 1, 10 ** 18]}[unit]
        B = (14 + 24) * 8
        lines = ['import time;', 'import eth;']
        want, t = [], 0
        for d in ds:
            lines.append('time::jump_%s(%d);' % (unit, d)); lines.append('eth::frame("|000000000001|", "|000000000002|");')
            t += d * mul + B; want.append(t)
        src = ('\n'.join(lines) + '\n').encode()
        impl, model = progdiff.run_both(c, src)
        progdiff.compare(c, src, impl, model, 'jump-sweep', project=lambda f: len(f).to_bytes(4, 'big'))
        if impl['outcome'][0] == 'success':
            T = times_of(c, impl['file'], dict(src=src.decode()[:2000]))
            if T is not None and T != want:
                k = [a != b for a, b in zip(T, want)].index(True) if len(T) == len(want) else -1
                c.violation('time:jump-shift', 'time::jump_%s(%s) moved the clock by %s ns instead of %s' % (unit, ds[k] if k >= 0 else '?', (T[k] - (T[k - 1] if k else 0) - B) if k >= 0 else '?', ds[k] * mul if k >= 0 else '?'),
                            dict(src='import time;\nimport eth;\neth::frame("|000000000001|", "|000000000002|");\ntime::jump_%s(%d);\neth::frame("|000000000001|", "|000000000002|");\n' % (unit, ds[max(k, 0)])))
            c.count('jump-sweep-values', len(ds)); c.traces_validated += 1
        else:
            c.violation('time:jump-shift', 'jump sweep in %s failed: %s' % (unit, impl['outcome'][:3]), dict(src=src.decode()[:2000]))
        c.case(('jump-sweep', unit), dict(kind='jump-sweep', unit=unit, values=len(ds)))
    # a stored jump executed several times (adjacent and with packets in between, through a second name too): every execution
    # moves the clock by d
    for unit, mul in (('seconds', 10 ** 9), ('millis', 10 ** 6), ('micros', 10 ** 3), ('nanos', 1)):
        r = c.rng.fork('rejump-' + unit)
        dd = 1 + r.below(5000)
        Bf = (14 + 24) * 8
        fr = 'eth::frame("|000000000001|", "|000000000002|");'
        seq = ['F', 'J', 'F', 'J', 'J', 'F', 'K', 'F', 'J', 'K', 'F']
        lines = ['import time;', 'import eth;', 'let j = time::jump_%s(%d);' % (unit, dd), 'let k = j;'] + [{'F': fr, 'J': 'j;', 'K': 'k;'}[x] for x in seq]
        want, t = [], 0
        for x in seq:
            if x == 'F': t += Bf; want.append(t)
            else: t += dd * mul
        src = ('\n'.join(lines) + '\n').encode()
        impl, model = progdiff.run_both(c, src)
        progdiff.compare(c, src, impl, model, 'stored-jump-reuse', project=lambda fb: len(fb).to_bytes(4, 'big'))
        T = times_of(c, impl['file'], dict(src=src.decode())) if impl['outcome'][0] == 'success' else None
        if T != want:
            c.violation('time:jump-shift', 'a stored time::jump_%s(%d) executed several times does not move the clock by d each time: %s, expected %s' % (unit, dd, T, want), dict(src=src.decode()))
        c.case(('stored-jump-reuse', unit), dict(kind='stored-jump-reuse', unit=unit))
    # statements that emit no packet (and are not time jumps) add nothing: every library function and method whose result is not a
    # packet, a packet sequence or a time jump, called between two frames as a statement and as a let - the second frame comes
    # exactly one frame time after the first
    from .C11 import SRC_OF, CTOR_SRC, E2E_HEAD, REPS, decl_type
    B = (14 + 24) * 8
    for f in lib.funcs:
        from ..gen import doc_return_type
        if (doc_return_type(f) or f['return_type'].lower()) in ('pkt', 'pktgen', 'timejump'): continue      # what the shipped documentation says it returns
        args = []
        for a in f['args']:
            if a['kind'] != 'pos': continue
            t = decl_type(a)[0]
            args.append('"|020000000001|"' if (f['path'] == 'eth::frame' and a['name'] in ('src', 'dst')) else '"a.example"' if t == 'Str' else '100' if t in ('U8', 'U16', 'U32', 'U64') else SRC_OF[REPS[t]])
        call = ('o2.%s(%s)' % (f['path'].split('.')[1], ', '.join(args))) if '.' in f['path'] else '%s(%s)' % (f['path'], ', '.join(args))
        pre = E2E_HEAD + ('let o2 = %s;\n' % CTOR_SRC[f['path'].split('.')[0]] if '.' in f['path'] else '')
        fr = 'eth::frame("|000000000001|", "|000000000002|");\n'
        for form in ('%s;\n', 'let r = %s;\n', 'let r = %s;\nlet r2 = r;\n'):
            src = (pre + fr + form % call + fr).encode()
            impl, model = progdiff.run_both(c, src)
            progdiff.compare(c, src, impl, model, 'non-emitting', project=lambda fb: len(fb).to_bytes(4, 'big'))
            if impl['outcome'][0] == 'success':
                T = times_of(c, impl['file'], dict(src=src.decode()))
                if T is not None and (len(T) != 2 or T[1] - T[0] != B):
                    c.violation('time:non-emitting-advances', '%s emits nothing but the clock moved by %s ns between the frames around it (one frame time is %d)' % (call, (T[1] - T[0]) if len(T) == 2 else T, B), dict(src=src.decode()))
                c.traces_validated += 1
            c.count('non-emitting:' + impl['outcome'][0])
        c.case(('non-emitting', f['path']), dict(kind='non-emitting', call=call) if hash(f['path']) % 8 == 0 else None)
    # boundary: seconds field near the pcap limit, nsec crossing
    for v, unit in [(4294967295, 'seconds'), (999999999, 'nanos'), (1000000000, 'nanos'), (4294967295999, 'millis'), (1, 'nanos')]:
        src = ('import time;\nimport eth;\ntime::jump_%s(%d);\neth::frame("|000000000001|", "|000000000002|");\ntime::jump_nanos(999999999);\neth::frame("|000000000001|", "|000000000002|");\n' % (unit, v)).encode()
        impl, model = progdiff.run_both(c, src)
        progdiff.compare(c, src, impl, model, 'time-boundary')
        if impl['outcome'][0] == 'success': times_of(c, impl['file'], dict(src=src.decode()))
        c.case(('boundary', v, unit), dict(kind='boundary', src=src.decode()))
    # records landing EXACTLY on whole-second boundaries right after a record in the previous second
    for i in range(12 if c.quick else 300):
        r = c.rng.fork('sb%d' % i)
        pay = r.below(200); B = (14 + pay + 24) * 8
        lines = ['import time;', 'import eth;']
        t, want = 0, []
        for k in range(1, 4 + r.below(4)):
            lines.append('eth::frame("|000000000001|", "|000000000002|", "|%s|");' % ('00' * pay)); t += B; want.append(t)
            target = (t // 10 ** 9 + r.choice([1, 1, 2])) * 10 ** 9 + r.choice([0, 0, 0, 1, -1 + 10 ** 9 - 10 ** 9])
            d = target - t - B
            unit = r.choice(['nanos'] + (['micros'] if d % 1000 == 0 else []))
            lines.append('time::jump_%s(%d);' % (unit, d if unit == 'nanos' else d // 1000)); t += d
            lines.append('eth::frame("|000000000001|", "|000000000002|", "|%s|");' % ('00' * pay)); t += B; want.append(t)
        src = ('\n'.join(lines) + '\n').encode()
        impl, model = progdiff.run_both(c, src)
        progdiff.compare(c, src, impl, model, 'second-boundary', project=lambda f: len(f).to_bytes(4, 'big'))
        if impl['outcome'][0] == 'success':
            T = times_of(c, impl['file'], dict(src=src.decode()))
            if T is not None and T != want:
                c.violation('time:boundary', 'records at whole-second boundaries carry wrong timestamps: %s vs %s' % (T[:6], want[:6]), dict(src=src.decode()))
            c.count('second-boundary-records', sum(1 for x in want if x % 10 ** 9 == 0))
        c.case(('sb', i), dict(kind='second-boundary', src=src.decode()[:300]) if i % 4 == 0 else None)
    c.assumptions += ['statement boundaries in the real output are found by compiling every statement prefix with the real binary']


def replay(c, data):
    d = data.get('replay') or data['disagreements'][0]['request']
    impl, model = progdiff.run_both(c, d['src'].encode())
    progdiff.compare(c, d['src'].encode(), impl, model, 'replay')
