"""C04 — TCP flows are sequence-coherent."""
import itertools
from .. import core, progdiff
from ..core import sh_hex

RULE = ("op histories over the 17 TcpFlow methods: exhaustive short histories over a representative op alphabet "
        "(payload lengths 0/1/3, with/without auto-ACK, overrides), random histories up to length 40, ISNs incl. "
        "2^32-1/2^32-2 so that counters wrap; each history is compiled by the real binary and its segments are judged "
        "by the Lean spec (expected seq/ack/flags per segment, order-insensitive reassembly). Non-trivial = history "
        "emits >= 1 segment; distinct = distinct op-kind sequence + ISNs")

CL = (0x01020304, 1000); SV = (0x05060708, 80)


def ip(n): return '%d.%d.%d.%d' % (n >> 24, n >> 16 & 255, n >> 8 & 255, n & 255)


def ov(s, a):
    out = []
    if s is not None: out.append('seq: %d' % s)
    if a is not None: out.append('ack: %d' % a)
    return out


def lit(b): return '"|%s|"' % b.hex() if b else '""'


def render(op, i):
    k = op[0]
    o = lambda v: '-' if v is None else str(v)
    if k == 'open': return 'f.open();', 'open'
    if k in ('cm', 'sm'):
        _, b, ack, fo, s, a = op
        args = (['send_ack: false'] if not ack else []) + (['frag_off: %d' % fo] if fo else []) + ov(s, a) + [lit(b)]
        return 'f.%s_message(%s);' % ('client' if k == 'cm' else 'server', ', '.join(args)), '%s:%s:%d:%d:%s:%s' % (k, sh_hex(b), ack, fo, o(s), o(a))
    if k in ('cs', 'ss', 'crs', 'srs'):
        _, b, s, a = op
        name = {'cs': 'client_segment', 'ss': 'server_segment', 'crs': 'client_raw_segment', 'srs': 'server_raw_segment'}[k]
        call = 'f.%s(%s)' % (name, ', '.join(ov(s, a) + [lit(b)]))
        src_dst = (ip(CL[0]), ip(SV[0])) if k == 'crs' else (ip(SV[0]), ip(CL[0]))
        return ('ipv4::datagram(%s, %s, proto: 6, %s);' % (src_dst + (call,)) if k in ('crs', 'srs') else call + ';'), '%s:%s:%s:%s' % (k, sh_hex(b), o(s), o(a))
    if k in ('chdr', 'shdr'):
        src_dst = (ip(CL[0]), ip(SV[0])) if k == 'chdr' else (ip(SV[0]), ip(CL[0]))
        return 'ipv4::datagram(%s, %s, proto: 6, f.%s_hdr(bytes: %d));' % (src_dst + ('client' if k == 'chdr' else 'server', op[1])), '%s:%d' % (k, op[1])
    if k in ('ca', 'sa'):
        return 'f.%s_ack(%s);' % ('client' if k == 'ca' else 'server', ', '.join(ov(op[1], op[2]))), '%s:%s:%s' % (k, o(op[1]), o(op[2]))
    if k in ('chole', 'shole'):
        return 'f.%s_hole(%d);' % ('client' if k == 'chole' else 'server', op[1]), '%s:%d' % (k, op[1])
    return {'cclose': 'f.client_close();', 'sclose': 'f.server_close();', 'crst': 'f.client_reset();', 'srst': 'f.server_reset();'}[k], k


def program(c0, s0, raw, ops):
    lines = ['import ipv4;',
             'let f = ipv4::tcp::flow(%s:%d, %s:%d, cl_seq: %d, sv_seq: %d%s);' % (ip(CL[0]), CL[1], ip(SV[0]), SV[1], c0, s0, ', raw: true' if raw else '')]
    enc = []
    for i, op in enumerate(ops):
        l, e = render(op, i); lines.append(l); enc.append(e)
    return ('\n'.join(lines) + '\n').encode(), ','.join(enc)


ENDPOINTS = [((0x01020304, 1000), (0x05060708, 80)), ((0x7f000001, 40000), (0x7f000001, 8080)), ((0x0a000001, 443), (0x0a000002, 443)),
             ((0xc0a80001, 80), (0xc0a80001, 81)), ((0x05060708, 80), (0x01020304, 1000))]


def check(c, c0, s0, raw, ops, tag):
    # the two ends may share an address (loopback, one host) or a port number: the counters belong to a socket, not to an address
    global CL, SV
    CL, SV = ENDPOINTS[(c.evaluations // 2) % len(ENDPOINTS) if c.evaluations % 2 else 0]
    if raw: ops = [o for o in ops if o[0] not in ('crs', 'srs', 'chdr', 'shdr')]
    src, enc = program(c0, s0, raw, ops)
    if c.evaluations % 5 == 3:
        from ..gen import Lib, name_mandatory
        src = name_mandatory(src, Lib(), c.rng.fork('nm%d' % c.evaluations), (2, 3))
    elif c.evaluations % 5 == 1:
        from ..gen import respell_ints, hoist_literals
        src = hoist_literals(respell_ints(src, c.rng.fork('rs%d' % c.evaluations)), c.rng.fork('hl%d' % c.evaluations))
    impl, model = progdiff.run_both(c, src)
    # C04 is about the TCP segment (seq/ack/flags/payload): compare from the TCP header on, checksum excluded
    off = 20 if raw else 34
    progdiff.compare(c, src, impl, model, 'tcp-history', project=lambda f: f[off:off + 16] + f[off + 18:], times=False)
    key = None
    if impl['outcome'][0] == 'success' and impl['file'] is not None:
        recs = progdiff.pcap_records(impl['file'])
        frames = [r[1] if raw else r[1][14:] for r in recs]
        if not ops:
            # an empty history emits nothing; there is no segment for the stream oracle to judge
            r = 'ok' if not frames else 'bad spurious-segments %d segments emitted by a flow on which no operation was performed' % len(frames)
        else:
            r = c.model.ask('oracle tcp %d %d %d %d %s %s' % (CL[0], CL[1], c0, s0, enc, ','.join(f.hex() for f in frames) or '-'))
        if not r.startswith('ok'):
            sig = 'tcp:' + r.split(' ')[1] if ' ' in r else 'tcp:?'
            c.violation(sig, 'C04 spec rejects the emitted segments: ' + r[:400], dict(src=src.decode(), c0=c0, s0=s0, ops=enc))
        else:
            c.traces_validated += 1
            if 'reassembled' in r: c.count('reassembled')
        if frames: key = (tuple(o[0] for o in ops), c0, s0, raw)
        c.count('segments', len(frames))
    elif impl['outcome'][0] == 'panic':
        c.violation('tcp:panic', 'implementation panicked on a TCP history: %s' % (impl['outcome'][1],), dict(src=src.decode()))
    for o in ops: c.count('op:' + o[0])
    c.case(key, dict(kind=tag, c0=c0, s0=s0, ops=enc[:300]) if key else None)


def alphabet(r=None):
    P = [b'', b'A', b'xyz']
    A = [('open',), ('cclose',), ('sclose',), ('crst',), ('srst',), ('ca', None, None), ('sa', None, None),
         ('chole', 2), ('shole', 3), ('chdr', 4), ('shdr', 0)]
    for p in P:
        A += [('cm', p, True, 0, None, None), ('sm', p, True, 0, None, None), ('cm', p, False, 0, None, None), ('sm', p, False, 0, None, None),
              ('cs', p, None, None), ('ss', p, None, None)]
    A += [('crs', b'zz', None, None), ('srs', b'', None, None),
          ('cm', b'ab', True, 0, 5000, None), ('sm', b'ab', True, 0, None, 7000), ('cm', b'q', True, 5, 1, 2), ('sm', b'q', False, 0, 4294967295, 0),
          ('ca', 9, None), ('sa', None, 9), ('cs', b'k', 77, 88)]
    return A


def rand_op(r):
    k = r.choice(['open', 'cm', 'sm', 'cm', 'sm', 'cs', 'ss', 'crs', 'srs', 'chdr', 'shdr', 'ca', 'sa', 'chole', 'shole', 'cclose', 'sclose', 'crst', 'srst'])
    def o(): return None if r.chance(4, 5) else r.choice([0, 1, 4294967295, r.below(2 ** 32)])
    pl = r.bytes(r.choice([0, 1, 2, 3, 7, 8, 64, 255, 1460]) if r.chance(3, 4) else r.below(3000))
    if k in ('cm', 'sm'): return (k, pl, r.chance(2, 3), 0 if r.chance(4, 5) else r.below(8192), o(), o())
    if k in ('cs', 'ss', 'crs', 'srs'): return (k, pl, o(), o())
    if k in ('chdr', 'shdr'): return (k, r.below(2000))
    if k in ('ca', 'sa'): return (k, o(), o())
    if k in ('chole', 'shole'): return (k, r.choice([0, 1, 1460, r.below(2 ** 20), 4294967295]))
    return (k,)


def campaign(c):
    c.rule = RULE
    A = alphabet()
    isns = [(1, 1), (4294967295, 4294967294), (4294967290, 0)]
    # exhaustive: every single op and every ordered pair after a handshake, for each ISN pair
    depth = 2 if c.quick else 3
    n = 0
    for c0, s0 in isns:
        for op in A:
            check(c, c0, s0, False, [op], 'exh1'); n += 1
    pairs = list(itertools.product(A, repeat=2))
    if c.quick:
        pairs = [pairs[i] for i in range(0, len(pairs), 7)]
    for (a, b) in pairs:
        c0, s0 = isns[n % 3]
        check(c, c0, s0, n % 5 == 0, [('open',), a, b], 'exh2'); n += 1
    if not c.quick:
        trip = list(itertools.product(A[:18], repeat=3))
        for t in trip[::5]:
            check(c, 4294967295, 4294967294, False, list(t), 'exh3')
    c.extra['exhaustive_space'] = 'all single ops x 3 ISN pairs; %s ordered pairs after open' % ('1/7 of' if c.quick else 'all')
    m = 120 if c.quick else 2500
    for i in range(m):
        r = c.rng.fork('tcp%d' % i)
        ln = 1 + r.below(40 if r.chance(1, 4) else 10)
        ops = [rand_op(r) for _ in range(ln)]
        c0 = r.choice([1, 0, 4294967295, 4294967000, r.below(2 ** 32)]); s0 = r.choice([1, 4294967295, r.below(2 ** 32)])
        check(c, c0, s0, r.chance(1, 4), ops, 'rand')
    c.assumptions += ['segments are read back from the frames by Spec/TcpDecode.lean',
                      'raw-segment and header-only methods return byte strings that are not on the wire; their values are compared through the model correspondence only']


def replay(c, data):
    d = data.get('replay') or data['disagreements'][0]['request']
    impl, model = progdiff.run_both(c, d['src'].encode())
    progdiff.compare(c, d['src'].encode(), impl, model, 'replay')
